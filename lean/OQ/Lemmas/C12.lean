/- helper lemmas for C12 (not property theorems) -/
import OQ.Model.C12
import Mathlib.Tactic.Linarith
import Mathlib.Tactic.Ring
import Mathlib.Tactic.FieldSimp
import Mathlib.Algebra.BigOperators.Group.List.Basic
import Mathlib.Algebra.Order.BigOperators.Group.List
import Mathlib.Data.List.Induction
import Mathlib.Data.List.Perm.Basic
import Mathlib.Data.List.Nodup
namespace OQ.C12

/-! ### popcount -/

theorem popcountAux_indep (f g x : Nat) (hf : x ≤ f) (hg : x ≤ g) : popcountAux f x = popcountAux g x := by
  induction f generalizing g x with
  | zero =>
    have : x = 0 := by omega
    subst this
    cases g <;> simp [popcountAux]
  | succ f ih =>
    cases g with
    | zero =>
      have : x = 0 := by omega
      subst this; simp [popcountAux]
    | succ g =>
      simp only [popcountAux]
      by_cases hx : x = 0
      · simp [hx]
      · simp only [hx, if_false]
        rw [ih g (x / 2) (by omega) (by omega)]

theorem popcount_unfold (x : Nat) : popcount x = if x = 0 then 0 else x % 2 + popcount (x / 2) := by
  unfold popcount
  cases x with
  | zero => simp [popcountAux]
  | succ f =>
    simp only [popcountAux, Nat.succ_ne_zero, if_false]
    rw [popcountAux_indep f ((f + 1) / 2) ((f + 1) / 2) (by omega) (le_refl _)]

theorem popcount_zero : popcount 0 = 0 := by rw [popcount_unfold]; simp

theorem popcount_eq_zero_iff (x : Nat) : popcount x = 0 ↔ x = 0 := by
  constructor
  · intro h
    induction x using Nat.strongRecOn with
    | _ x ih =>
      by_contra hx
      rw [popcount_unfold] at h
      simp only [hx, if_false] at h
      have h2 : popcount (x / 2) = 0 := by omega
      have := ih (x / 2) (by omega) h2
      omega
  · intro h; subst h; exact popcount_zero

theorem popcount_double (x b : Nat) (hb : b < 2) : popcount (2 * x + b) = popcount x + b := by
  rw [popcount_unfold]
  by_cases h : 2 * x + b = 0
  · have hx : x = 0 := by omega
    have hb0 : b = 0 := by omega
    subst hx; subst hb0; simp [popcount_zero]
  · simp only [h, if_false]
    have h1 : (2 * x + b) % 2 = b := by omega
    have h2 : (2 * x + b) / 2 = x := by omega
    rw [h1, h2]; omega

theorem popcount_two_pow (k : Nat) : popcount (2 ^ k) = 1 := by
  induction k with
  | zero => decide
  | succ k ih =>
    have : 2 ^ (k + 1) = 2 * 2 ^ k + 0 := by rw [pow_succ]; ring
    rw [this, popcount_double _ _ (by omega), ih]

/-- `bin(n).count("1") == 1` says exactly that `n` is a power of two -/
theorem popcount_eq_one_iff (n : Nat) : popcount n = 1 ↔ ∃ k, n = 2 ^ k := by
  constructor
  · intro h
    induction n using Nat.strongRecOn with
    | _ n ih =>
      have hn : n ≠ 0 := by
        intro h0; subst h0; rw [popcount_zero] at h; omega
      rw [popcount_unfold] at h
      simp only [hn, if_false] at h
      by_cases hb : n % 2 = 1
      · have h2 : popcount (n / 2) = 0 := by omega
        have := (popcount_eq_zero_iff _).mp h2
        exact ⟨0, by omega⟩
      · have h2 : popcount (n / 2) = 1 := by omega
        obtain ⟨k, hk⟩ := ih (n / 2) (by omega) h2
        exact ⟨k + 1, by rw [pow_succ]; omega⟩
  · rintro ⟨k, rfl⟩; exact popcount_two_pow k

/-! ### reading and writing positions -/

theorem writeAt_length {α : Type} (v : List α) (ps : List Nat) (xs : List α) :
    (writeAt v ps xs).length = v.length := by
  induction ps generalizing v xs with
  | nil => simp [writeAt]
  | cons p ps ih =>
    cases xs with
    | nil => simp [writeAt]
    | cons x xs => simp only [writeAt]; rw [ih]; simp

theorem writeAt_getElem?_of_not_mem {α : Type} (v : List α) (ps : List Nat) (xs : List α) (q : Nat)
    (hq : q ∉ ps) : (writeAt v ps xs)[q]? = v[q]? := by
  induction ps generalizing v xs with
  | nil => simp [writeAt]
  | cons p ps ih =>
    cases xs with
    | nil => simp [writeAt]
    | cons x xs =>
      simp only [writeAt]
      have hp : p ≠ q := fun h => hq (by simp [h])
      rw [ih _ _ (fun h => hq (by simp [h])), List.getElem?_set]
      simp [hp]

theorem readAt_length {α : Type} (v : List α) (ps : List Nat) (old : List α) (h : readAt v ps = some old) :
    old.length = ps.length := by
  induction ps generalizing old with
  | nil => simp [readAt] at h; subst h; rfl
  | cons p ps ih =>
    simp only [readAt] at h
    split at h
    · rename_i a rest h1 h2
      simp only [Option.some.injEq] at h; subst h
      simp [ih rest h2]
    · simp at h

/-- restoring the saved old values undoes any write to the same positions -/
theorem restore_aux {α : Type} (v w : List α) (ps : List Nat) (old : List α)
    (hlen : w.length = v.length) (hoff : ∀ q, q ∉ ps → w[q]? = v[q]?) (hold : readAt v ps = some old) :
    writeAt w ps old = v := by
  induction ps generalizing w old with
  | nil =>
    simp only [readAt, Option.some.injEq] at hold; subst hold
    simp only [writeAt]
    exact List.ext_getElem? (fun q => hoff q (by simp))
  | cons p ps ih =>
    simp only [readAt] at hold
    split at hold
    · rename_i a rest h1 h2
      simp only [Option.some.injEq] at hold; subst hold
      simp only [writeAt]
      apply ih
      · simp [hlen]
      · intro q hq
        rw [List.getElem?_set]
        by_cases hpq : p = q
        · subst hpq
          have hp : p < v.length := by
            by_contra hc
            rw [List.getElem?_eq_none (by omega)] at h1; simp at h1
          rw [h1]; simp [hlen, hp]
        · simp only [hpq, if_false]
          exact hoff q (by simp [hq, Ne.symm hpq])
      · exact h2
    · simp at hold

theorem restore_write {α : Type} (v : List α) (ps : List Nat) (vals old : List α)
    (hold : readAt v ps = some old) : writeAt (writeAt v ps vals) ps old = v :=
  restore_aux v _ ps old (writeAt_length _ _ _) (fun q hq => writeAt_getElem?_of_not_mem _ _ _ q hq) hold

/-! ### the invariant -/

/-- what the property demands of an object: a power-of-two number of amplitudes; squared magnitudes summing
    to 1 (in the sense of `close`) when there is no symbol, numeric entries not exceeding 1 otherwise -/
def Inv (close : Rat → Bool) (s : Store) : Prop :=
  (∃ k, s.length = 2 ^ k) ∧
  (allNum s.entries = true → close (numSq s.entries) = true) ∧
  (allNum s.entries = false → numSq s.entries ≤ 1)

theorem checkNorm_iff (close : Rat → Bool) (v : List Lin) :
    checkNorm close v = true ↔
      (allNum v = true → close (numSq v) = true) ∧ (allNum v = false → numSq v ≤ 1) := by
  unfold checkNorm
  by_cases h : allNum v = true
  · simp [h]
  · have h' : allNum v = false := by simpa using h
    simp [h']

theorem allNum_ofNum (v : List QI) : allNum (v.map Lin.ofNum) = true := by
  simp [allNum, Lin.isNum, Lin.ofNum]

theorem numSq_ofNum (v : List QI) : numSq (v.map Lin.ofNum) = (v.map QI.normSq).sum := by
  unfold numSq
  have : (v.map Lin.ofNum).filter Lin.isNum = v.map Lin.ofNum := by
    rw [List.filter_eq_self]; intro a ha
    simp only [List.mem_map] at ha
    obtain ⟨q, _, rfl⟩ := ha; rfl
  rw [this, List.map_map]; rfl

theorem ofNum_c_of_isNum (e : Lin) (h : e.isNum = true) : Lin.ofNum e.c = e := by
  cases e with
  | mk c terms =>
    simp only [Lin.isNum, List.isEmpty_iff] at h
    subst h; rfl

theorem map_c_ofNum (v : List Lin) (h : allNum v = true) : (v.map (fun e => e.c)).map Lin.ofNum = v := by
  rw [List.map_map]
  conv_rhs => rw [← List.map_id v]
  apply List.map_congr_left
  intro e he
  simp only [allNum, List.all_eq_true] at h
  exact ofNum_c_of_isNum e (h e he)

theorem arr1_entries (v : List QI) : (Store.arr1 v).entries = v.map Lin.ofNum := rfl
theorem arr2_entries (v : List QI) : (Store.arr2 v).entries = v.map Lin.ofNum := rfl
theorem mat_entries (v : List Lin) : (Store.mat v).entries = v := rfl

theorem inv_arr1 (close : Rat → Bool) (v : List QI) :
    Inv close (.arr1 v) ↔ (∃ k, v.length = 2 ^ k) ∧ close ((v.map QI.normSq).sum) = true := by
  simp [Inv, Store.length, arr1_entries, allNum_ofNum, numSq_ofNum]

theorem inv_arr2 (close : Rat → Bool) (v : List QI) :
    Inv close (.arr2 v) ↔ (∃ k, v.length = 2 ^ k) ∧ close ((v.map QI.normSq).sum) = true := by
  simp [Inv, Store.length, arr2_entries, allNum_ofNum, numSq_ofNum]

theorem inv_mat (close : Rat → Bool) (v : List Lin) :
    Inv close (.mat v) ↔ (∃ k, v.length = 2 ^ k) ∧ checkNorm close v = true := by
  simp [Inv, Store.length, mat_entries, checkNorm_iff]

/-- the constructor: accepted exactly on the vectors the property allows, and it keeps them as given -/
theorem construct_ok (close : Rat → Bool) (col : Bool) (v : List Lin) (s : Store)
    (h : construct close col v = .ok s) : Inv close s ∧ s.entries = v := by
  unfold construct at h
  by_cases hp : popcount v.length = 1
  · obtain ⟨k, hk⟩ := (popcount_eq_one_iff _).mp hp
    simp only [hp, bne_self_eq_false, Bool.false_eq_true, if_false] at h
    by_cases ha : allNum v = true
    · simp only [ha, if_true] at h
      by_cases hc : close (numSq v) = true
      · simp only [hc, if_true, Except.ok.injEq] at h
        have hm := map_c_ofNum v ha
        cases col
        · simp only [Bool.false_eq_true, if_false] at h; subst h
          refine ⟨?_, hm⟩
          rw [inv_arr1, ← numSq_ofNum, hm]; exact ⟨⟨k, by simpa using hk⟩, hc⟩
        · simp only [if_true] at h; subst h
          refine ⟨?_, hm⟩
          rw [inv_arr2, ← numSq_ofNum, hm]; exact ⟨⟨k, by simpa using hk⟩, hc⟩
      · simp [hc] at h
    · have ha' : allNum v = false := by simpa using ha
      simp only [ha', Bool.false_eq_true, if_false] at h
      by_cases hgt : 1 < numSq v
      · simp [hgt] at h
      · simp only [hgt, if_false, Except.ok.injEq] at h; subst h
        refine ⟨?_, rfl⟩
        rw [inv_mat]
        refine ⟨⟨k, hk⟩, ?_⟩
        rw [checkNorm_iff]
        exact ⟨fun h => absurd h (by rw [ha']; simp), fun _ => not_lt.mp hgt⟩
  · have : (popcount v.length != 1) = true := by simpa using hp
    simp [this] at h

theorem construct_accepts (close : Rat → Bool) (col : Bool) (v : List Lin)
    (hlen : ∃ k, v.length = 2 ^ k) (hc : checkNorm close v = true) :
    ∃ s, construct close col v = .ok s := by
  have hp : popcount v.length = 1 := (popcount_eq_one_iff _).mpr hlen
  rw [checkNorm_iff] at hc
  unfold construct
  simp only [hp, bne_self_eq_false, Bool.false_eq_true, if_false]
  by_cases ha : allNum v = true
  · simp only [ha, if_true, hc.1 ha]
    cases col <;> simp
  · have ha' : allNum v = false := by simpa using ha
    have := hc.2 ha'
    simp [ha', not_lt.mpr this]

/-! ### element assignment -/

/-- the shape of every `__setitem__` result on an ndarray: accepted with the re-check passed, or rejected
    with the old contents back -/
def ArrStep (close : Rat → Bool) (v : List QI) (r : List QI × Outcome) : Prop :=
  (r.2 = .ok ∧ r.1.length = v.length ∧ close ((r.1.map QI.normSq).sum) = true) ∨ (r.2 ≠ .ok ∧ r.1 = v)

theorem setArr_spec (close : Rat → Bool) (v : List QI) (ps : List Nat) (vals : List QI) :
    ArrStep close v (setArr close v ps vals) := by
  unfold setArr
  simp only
  split
  · rename_i hc
    exact Or.inl ⟨rfl, writeAt_length _ _ _, hc⟩
  · exact Or.inr ⟨by simp, rfl⟩

theorem arrStep_refl_err (close : Rat → Bool) (v : List QI) (e : Err) : ArrStep close v (v, .err e) :=
  Or.inr ⟨by simp, rfl⟩

theorem setIntArr_spec (close : Rat → Bool) (v : List QI) (i : Int) (val : Lin) :
    ArrStep close v (setIntArr close v i val) := by
  unfold setIntArr
  split
  · exact arrStep_refl_err _ _ _
  · split
    · exact arrStep_refl_err _ _ _
    · exact setArr_spec _ _ _ _

theorem setSliceArr_spec (close : Rat → Bool) (twoD : Bool) (v : List QI) (a b : Nat) (val : SliceVal) :
    ArrStep close v (setSliceArr close twoD v a b val) := by
  unfold setSliceArr
  simp only
  split
  · exact arrStep_refl_err _ _ _
  · exact setArr_spec _ _ _ _

def MatStep (close : Rat → Bool) (v : List Lin) (r : List Lin × Outcome) : Prop :=
  (r.2 = .ok ∧ r.1.length = v.length ∧ checkNorm close r.1 = true) ∨ (r.2 ≠ .ok ∧ r.1 = v)

theorem setIntMat_spec (close : Rat → Bool) (v : List Lin) (i : Int) (val : Lin) :
    MatStep close v (setIntMat close v i val) := by
  unfold setIntMat
  split
  · exact Or.inr ⟨by simp, rfl⟩
  · rename_i p hp
    simp only
    split
    · rename_i hc
      exact Or.inl ⟨rfl, writeAt_length _ _ _, hc⟩
    · exact Or.inr ⟨by simp, rfl⟩

/-- a slice assignment on a Matrix-backed object (sympy reads the bare slice as a `(row, col)` pair): accepted with
    the re-check passed, or rejected with the saved whole vector back -/
theorem setSliceMat_spec (close : Rat → Bool) (v : List Lin) (a b : Nat) (val : SliceVal) :
    MatStep close v (setSliceMat close v a b val) := by
  unfold setSliceMat
  cases val with
  | list xs =>
    simp only
    split
    · split
      · rename_i hc
        exact Or.inl ⟨rfl, rfl, hc⟩
      · exact Or.inr ⟨by simp, rfl⟩
    · exact Or.inr ⟨by simp, rfl⟩
  | scalar x =>
    simp only
    split
    · split
      · rename_i hc
        exact Or.inl ⟨rfl, by simp, hc⟩
      · exact Or.inr ⟨by simp, rfl⟩
    · exact Or.inr ⟨by simp, rfl⟩

/-! ### one step -/

theorem step_rejected (close : Rat → Bool) (s : Store) (op : Op)
    (hrej : (step close s op).2 ≠ .ok) : (step close s op).1 = s := by
  cases op with
  | setInt i val =>
    cases s with
    | arr1 v =>
      simp only [step] at hrej ⊢
      rcases setIntArr_spec close v i val with h | h
      · exact absurd h.1 hrej
      · rw [h.2]
    | arr2 v =>
      simp only [step] at hrej ⊢
      rcases setIntArr_spec close v i val with h | h
      · exact absurd h.1 hrej
      · rw [h.2]
    | mat v =>
      simp only [step] at hrej ⊢
      rcases setIntMat_spec close v i val with h | h
      · exact absurd h.1 hrej
      · rw [h.2]
  | setSlice st sp val =>
    cases s with
    | arr1 v =>
      simp only [step] at hrej ⊢
      rcases setSliceArr_spec close false v (clampIdx v.length st 0) (clampIdx v.length sp v.length) val with h | h
      · exact absurd h.1 hrej
      · rw [h.2]
    | arr2 v =>
      simp only [step] at hrej ⊢
      rcases setSliceArr_spec close true v (clampIdx v.length st 0) (clampIdx v.length sp v.length) val with h | h
      · exact absurd h.1 hrej
      · rw [h.2]
    | mat v =>
      simp only [step] at hrej ⊢
      rcases setSliceMat_spec close v (clampIdx v.length st 0) (clampIdx v.length sp v.length) val with h | h
      · exact absurd h.1 hrej
      · rw [h.2]
  | bind m =>
    cases s with
    | arr1 v => rfl
    | arr2 v => rfl
    | mat v =>
      simp only [step] at hrej ⊢
      split
      · rfl
      · split
        · rename_i hn _ s' h2
          simp [hn, h2] at hrej
        · rfl
  | flip =>
    unfold step at hrej ⊢
    cases s <;> simp only at hrej ⊢ <;> split <;> simp_all
  | reload =>
    unfold step at hrej ⊢
    cases s <;> simp only at hrej ⊢ <;> (split; · rfl) <;> split <;> simp_all

theorem flipWf_ok (close : Rat → Bool) (s s' : Store) (h : flipWf close s = .ok s') : Inv close s' := by
  unfold flipWf at h
  cases s <;> simp only at h <;> split at h <;> first | exact (construct_ok _ _ _ _ h).1 | simp at h

theorem load_ok (close : Rat → Bool) (col : Bool) (re : List Rat) (im : Option (List Rat)) (s' : Store)
    (h : load close col re im = .ok s') : Inv close s' := by
  unfold load at h
  split at h
  · simp at h
  · exact (construct_ok _ _ _ _ h).1

theorem step_accepted (close : Rat → Bool) (s : Store) (op : Op) (hinv : Inv close s)
    (hacc : (step close s op).2 = .ok) : Inv close (step close s op).1 := by
  cases op with
  | setInt i val =>
    cases s with
    | arr1 v =>
      simp only [step] at hacc ⊢
      rw [inv_arr1] at hinv ⊢
      rcases setIntArr_spec close v i val with h | h
      · rw [h.2.1]; exact ⟨hinv.1, h.2.2⟩
      · exact absurd hacc h.1
    | arr2 v =>
      simp only [step] at hacc ⊢
      rw [inv_arr2] at hinv ⊢
      rcases setIntArr_spec close v i val with h | h
      · rw [h.2.1]; exact ⟨hinv.1, h.2.2⟩
      · exact absurd hacc h.1
    | mat v =>
      simp only [step] at hacc ⊢
      rw [inv_mat] at hinv ⊢
      rcases setIntMat_spec close v i val with h | h
      · rw [h.2.1]; exact ⟨hinv.1, h.2.2⟩
      · exact absurd hacc h.1
  | setSlice st sp val =>
    cases s with
    | arr1 v =>
      simp only [step] at hacc ⊢
      rw [inv_arr1] at hinv ⊢
      rcases setSliceArr_spec close false v (clampIdx v.length st 0) (clampIdx v.length sp v.length) val with h | h
      · rw [h.2.1]; exact ⟨hinv.1, h.2.2⟩
      · exact absurd hacc h.1
    | arr2 v =>
      simp only [step] at hacc ⊢
      rw [inv_arr2] at hinv ⊢
      rcases setSliceArr_spec close true v (clampIdx v.length st 0) (clampIdx v.length sp v.length) val with h | h
      · rw [h.2.1]; exact ⟨hinv.1, h.2.2⟩
      · exact absurd hacc h.1
    | mat v =>
      simp only [step] at hacc ⊢
      rw [inv_mat] at hinv ⊢
      rcases setSliceMat_spec close v (clampIdx v.length st 0) (clampIdx v.length sp v.length) val with h | h
      · rw [h.2.1]; exact ⟨hinv.1, h.2.2⟩
      · exact absurd hacc h.1
  | bind m =>
    cases s with
    | arr1 v => exact hinv
    | arr2 v => exact hinv
    | mat v =>
      simp only [step] at hacc ⊢
      split
      · exact hinv
      · split
        · rename_i s' h2; exact (construct_ok _ _ _ _ h2).1
        · exact hinv
  | flip =>
    have key : ∀ r : Except Err Store, r = flipWf close s →
        Inv close (match r with | .ok s' => (s', Outcome.ok) | .error e => (s, Outcome.err e)).1 := by
      intro r hr
      cases r with
      | ok s' => exact flipWf_ok close s s' hr.symm
      | error e => exact hinv
    have := key _ rfl
    cases s <;> exact this
  | reload =>
    unfold step
    cases s with
    | arr1 v =>
      simp only [save]
      split
      · rename_i s' h; exact load_ok _ _ _ _ _ h
      · exact hinv
    | arr2 v =>
      simp only [save]
      split
      · rename_i s' h; exact load_ok _ _ _ _ _ h
      · exact hinv
    | mat v => exact hinv

/-! ### bit reversal -/

/-- the index permutation behind `_get_ordering`: write `i` with `k` binary digits and read them backwards -/
def bitrev (k i : Nat) : Nat := ravel (lsbDigits k i)

theorem lsbDigits_length (k i : Nat) : (lsbDigits k i).length = k := by
  induction k generalizing i with
  | zero => rfl
  | succ k ih => simp [lsbDigits, ih]

theorem lsbDigits_lt (k i : Nat) : ∀ d ∈ lsbDigits k i, d < 2 := by
  induction k generalizing i with
  | zero => simp [lsbDigits]
  | succ k ih =>
    intro d hd
    simp only [lsbDigits, List.mem_cons] at hd
    rcases hd with hd | hd
    · omega
    · exact ih _ d hd

theorem ravel_foldl (ds : List Nat) (a : Nat) :
    ds.foldl (fun acc d => 2 * acc + d) a = a * 2 ^ ds.length + ravel ds := by
  induction ds generalizing a with
  | nil => simp [ravel]
  | cons d ds ih =>
    simp only [List.foldl_cons, List.length_cons, ravel]
    rw [ih (2 * a + d), ih (2 * 0 + d)]
    rw [pow_succ]; ring

theorem ravel_cons (d : Nat) (ds : List Nat) : ravel (d :: ds) = d * 2 ^ ds.length + ravel ds := by
  have := ravel_foldl ds (2 * 0 + d)
  simp only [ravel, List.foldl_cons] at this ⊢
  rw [this]; simp

theorem ravel_append (ds : List Nat) (d : Nat) : ravel (ds ++ [d]) = 2 * ravel ds + d := by
  simp [ravel, List.foldl_append]

theorem ravel_lt (ds : List Nat) (h : ∀ d ∈ ds, d < 2) : ravel ds < 2 ^ ds.length := by
  induction ds with
  | nil => simp [ravel]
  | cons d ds ih =>
    rw [ravel_cons, List.length_cons, pow_succ]
    have h1 := h d (by simp)
    have h2 := ih (fun x hx => h x (by simp [hx]))
    have : d * 2 ^ ds.length ≤ 1 * 2 ^ ds.length := Nat.mul_le_mul_right _ (by omega)
    omega

theorem bitrev_lt (k i : Nat) : bitrev k i < 2 ^ k := by
  have := ravel_lt (lsbDigits k i) (lsbDigits_lt k i)
  rwa [lsbDigits_length] at this

theorem mod_two_mul (i m : Nat) : i % (2 * m) = 2 * ((i / 2) % m) + i % 2 := by
  rcases Nat.eq_zero_or_pos m with hm | hm
  · subst hm; simp; omega
  · have h1 : i = 2 * m * (i / 2 / m) + (2 * ((i / 2) % m) + i % 2) := by
      have a := Nat.div_add_mod (i / 2) m
      have b := Nat.div_add_mod i 2
      calc i = 2 * (i / 2) + i % 2 := b.symm
        _ = 2 * (m * (i / 2 / m) + i / 2 % m) + i % 2 := by rw [a]
        _ = _ := by ring
    have h2 : 2 * ((i / 2) % m) + i % 2 < 2 * m := by
      have := Nat.mod_lt (i / 2) hm
      omega
    conv_lhs => rw [h1]
    rw [Nat.mul_add_mod, Nat.mod_eq_of_lt h2]

theorem ravel_reverse_lsbDigits (k i : Nat) : ravel (lsbDigits k i).reverse = i % 2 ^ k := by
  induction k generalizing i with
  | zero => simp [lsbDigits, ravel, Nat.mod_one]
  | succ k ih =>
    simp only [lsbDigits, List.reverse_cons]
    rw [ravel_append, ih, pow_succ, Nat.mul_comm (2 ^ k) 2, mod_two_mul]

theorem lsbDigits_ravel (ds : List Nat) (h : ∀ d ∈ ds, d < 2) : lsbDigits ds.length (ravel ds) = ds.reverse := by
  induction ds using List.reverseRecOn with
  | nil => rfl
  | append_singleton ds d ih =>
    have hd : d < 2 := h d (by simp)
    rw [ravel_append, List.length_append, List.length_singleton, List.reverse_append]
    simp only [lsbDigits, List.reverse_singleton, List.singleton_append]
    have h1 : (2 * ravel ds + d) % 2 = d := by omega
    have h2 : (2 * ravel ds + d) / 2 = ravel ds := by omega
    rw [h1, h2, ih (fun x hx => h x (by simp [hx]))]

/-- bit reversal is its own inverse -/
theorem bitrev_bitrev (k i : Nat) (h : i < 2 ^ k) : bitrev k (bitrev k i) = i := by
  unfold bitrev
  have := lsbDigits_ravel (lsbDigits k i) (lsbDigits_lt k i)
  rw [lsbDigits_length] at this
  rw [this, ravel_reverse_lsbDigits, Nat.mod_eq_of_lt h]

/-- bit `p` of the reversed index is bit `k-1-p` of the index -/
theorem bitrev_testBit (k i p : Nat) (hp : p < k) : (bitrev k i).testBit p = i.testBit (k - 1 - p) := by
  induction k generalizing i p with
  | zero => omega
  | succ k ih =>
    unfold bitrev
    simp only [lsbDigits]
    rw [ravel_cons, lsbDigits_length, Nat.mul_comm]
    have hlt : ravel (lsbDigits k (i / 2)) < 2 ^ k := bitrev_lt k (i / 2)
    rw [Nat.testBit_two_pow_mul_add _ hlt]
    by_cases hpk : p < k
    · simp only [hpk, if_true]
      have := ih (i / 2) p hpk
      unfold bitrev at this
      rw [this, ← Nat.testBit_succ]
      congr 1; omega
    · have hpe : p = k := by omega
      subst hpe
      simp only [Nat.lt_irrefl, if_false, Nat.sub_self, Nat.add_sub_cancel]
      rw [Nat.testBit_zero, Nat.testBit_zero]
      have : i % 2 < 2 := Nat.mod_lt _ (by omega)
      congr 1
      have h3 : i % 2 % 2 = i % 2 := by omega
      rw [h3]

theorem numBits_two_pow (k : Nat) : numBits (2 ^ k) = k := by
  unfold numBits; exact Nat.log2_two_pow

theorem ordering_two_pow (k : Nat) : ordering (2 ^ k) = (List.range (2 ^ k)).map (bitrev k) := by
  unfold ordering
  simp only [numBits_two_pow, unravel, List.reverse_reverse]
  rfl

/-! ### gathering -/

theorem readAt_getElem? {α : Type} (v : List α) (ps : List Nat) (w : List α) (h : readAt v ps = some w) (j : Nat) :
    w[j]? = (ps[j]?).bind (fun p => v[p]?) := by
  induction ps generalizing w j with
  | nil => simp only [readAt, Option.some.injEq] at h; subst h; simp
  | cons p ps ih =>
    simp only [readAt] at h
    split at h
    · rename_i a rest h1 h2
      simp only [Option.some.injEq] at h; subst h
      cases j with
      | zero => simp [h1]
      | succ j => simp [ih rest h2 j]
    · simp at h

theorem readAt_isSome {α : Type} (v : List α) (ps : List Nat) (h : ∀ p ∈ ps, p < v.length) :
    ∃ w, readAt v ps = some w := by
  induction ps with
  | nil => exact ⟨[], rfl⟩
  | cons p ps ih =>
    obtain ⟨w, hw⟩ := ih (fun q hq => h q (by simp [hq]))
    have hp := h p (by simp)
    refine ⟨v[p] :: w, ?_⟩
    simp [readAt, hw, List.getElem?_eq_getElem hp]

/-- `flip_amplitudes` on a vector of `2^k` entries: defined, same length, entry `i` is the old entry at the
    bit-reversed index -/
theorem flipList_spec {α : Type} (v : List α) (k : Nat) (hlen : v.length = 2 ^ k) :
    ∃ w, flipList v = some w ∧ w.length = 2 ^ k ∧ ∀ i, i < 2 ^ k → w[i]? = v[bitrev k i]? := by
  have hpos : v.length ≠ 0 := by rw [hlen]; exact Nat.ne_of_gt (Nat.two_pow_pos k)
  unfold flipList
  simp only [hpos, if_false]
  rw [hlen, ordering_two_pow]
  obtain ⟨w, hw⟩ := readAt_isSome v ((List.range (2 ^ k)).map (bitrev k)) (by
    intro p hp
    simp only [List.mem_map, List.mem_range] at hp
    obtain ⟨i, _, rfl⟩ := hp
    rw [hlen]; exact bitrev_lt k i)
  refine ⟨w, hw, ?_, ?_⟩
  · rw [readAt_length _ _ _ hw]; simp
  · intro i hi
    rw [readAt_getElem? _ _ _ hw i]
    simp [List.getElem?_map, List.getElem?_range hi]

/-- flipping twice gives back the vector -/
theorem flipList_involutive {α : Type} (v w : List α) (k : Nat) (hlen : v.length = 2 ^ k)
    (h : flipList v = some w) : flipList w = some v := by
  obtain ⟨w', hw', hl', hg'⟩ := flipList_spec v k hlen
  rw [h] at hw'; simp only [Option.some.injEq] at hw'; subst hw'
  obtain ⟨u, hu, hlu, hgu⟩ := flipList_spec w k hl'
  rw [hu]; congr 1
  apply List.ext_getElem?
  intro i
  by_cases hi : i < 2 ^ k
  · rw [hgu i hi, hg' _ (bitrev_lt k i), bitrev_bitrev k i hi]
  · rw [List.getElem?_eq_none (by omega), List.getElem?_eq_none (by omega)]

theorem bitrev_range_perm (k : Nat) : ((List.range (2 ^ k)).map (bitrev k)).Perm (List.range (2 ^ k)) := by
  have hnd : ((List.range (2 ^ k)).map (bitrev k)).Nodup := by
    apply List.Nodup.map_on _ List.nodup_range
    intro x hx y hy hxy
    rw [List.mem_range] at hx hy
    rw [← bitrev_bitrev k x hx, ← bitrev_bitrev k y hy, hxy]
  rw [List.perm_ext_iff_of_nodup hnd List.nodup_range]
  intro a
  simp only [List.mem_map, List.mem_range]
  constructor
  · rintro ⟨i, _, rfl⟩; exact bitrev_lt k i
  · intro ha; exact ⟨bitrev k a, bitrev_lt k a, bitrev_bitrev k a ha⟩

theorem flipList_perm {α : Type} [Inhabited α] (v w : List α) (k : Nat) (hlen : v.length = 2 ^ k)
    (h : flipList v = some w) : w.Perm v := by
  obtain ⟨w', hw', hl', hg'⟩ := flipList_spec v k hlen
  rw [h] at hw'; simp only [Option.some.injEq] at hw'; subst hw'
  have hv : v = (List.range (2 ^ k)).map (fun i => v.getD i default) := by
    apply List.ext_getElem?
    intro i
    by_cases hi : i < 2 ^ k
    · simp [List.getElem?_map, List.getElem?_range hi, List.getD_eq_getElem?_getD,
        List.getElem?_eq_getElem (hlen ▸ hi)]
    · rw [List.getElem?_eq_none (by omega), List.getElem?_eq_none (by simp; omega)]
  have hw : w = ((List.range (2 ^ k)).map (bitrev k)).map (fun i => v.getD i default) := by
    apply List.ext_getElem?
    intro i
    by_cases hi : i < 2 ^ k
    · rw [hg' i hi]
      have hb : bitrev k i < v.length := hlen ▸ bitrev_lt k i
      simp [List.getElem?_map, List.getElem?_range hi, List.getD_eq_getElem?_getD,
        List.getElem?_eq_getElem hb]
    · rw [List.getElem?_eq_none (by omega), List.getElem?_eq_none (by simp; omega)]
  rw [hw]
  conv_rhs => rw [hv]
  exact (bitrev_range_perm k).map _

theorem numSq_perm (v w : List Lin) (h : w.Perm v) : numSq w = numSq v := by
  unfold numSq
  exact ((h.filter _).map _).sum_eq

theorem allNum_perm (v w : List Lin) (h : w.Perm v) : allNum w = allNum v := by
  unfold allNum
  rw [Bool.eq_iff_iff]
  simp only [List.all_eq_true]
  exact ⟨fun hw x hx => hw x (h.mem_iff.mpr hx), fun hv x hx => hv x (h.mem_iff.mp hx)⟩

theorem checkNorm_perm (close : Rat → Bool) (v w : List Lin) (h : w.Perm v) : checkNorm close w = checkNorm close v := by
  unfold checkNorm; rw [numSq_perm v w h, allNum_perm v w h]

theorem readAt_map {α β : Type} (f : α → β) (v : List α) (ps : List Nat) :
    readAt (v.map f) ps = (readAt v ps).map (List.map f) := by
  induction ps with
  | nil => rfl
  | cons p ps ih =>
    simp only [readAt, ih, List.getElem?_map]
    cases v[p]? <;> cases readAt v ps <;> rfl

theorem flipList_map {α β : Type} (f : α → β) (v : List α) : flipList (v.map f) = (flipList v).map (List.map f) := by
  unfold flipList
  simp only [List.length_map]
  split
  · rfl
  · exact readAt_map f v _

/-- `flip_wavefunction` of a valid object never raises, and its amplitudes are the flipped amplitudes -/
theorem flipWf_spec (close : Rat → Bool) (s : Store) (hinv : Inv close s) :
    ∃ s', flipWf close s = .ok s' ∧ flipList s.entries = some s'.entries := by
  obtain ⟨⟨k, hk⟩, h1, h2⟩ := hinv
  have hcn : checkNorm close s.entries = true := (checkNorm_iff _ _).mpr ⟨h1, h2⟩
  obtain ⟨w, hw, hwl, _⟩ := flipList_spec s.entries k hk
  have hperm := flipList_perm s.entries w k hk hw
  have hcw : checkNorm close w = true := by rw [checkNorm_perm close _ _ hperm]; exact hcn
  cases s with
  | arr1 v =>
    rw [arr1_entries, flipList_map] at hw
    cases hv : flipList v with
    | none => rw [hv] at hw; simp at hw
    | some u =>
      rw [hv] at hw; simp only [Option.map_some, Option.some.injEq] at hw
      obtain ⟨s', hs'⟩ := construct_accepts close false (u.map Lin.ofNum) ⟨k, by rw [hw]; exact hwl⟩ (by rw [hw]; exact hcw)
      refine ⟨s', ?_, ?_⟩
      · simp only [flipWf, hv]; exact hs'
      · rw [arr1_entries, flipList_map, hv, (construct_ok _ _ _ _ hs').2]; rfl
  | arr2 v =>
    rw [arr2_entries, flipList_map] at hw
    cases hv : flipList v with
    | none => rw [hv] at hw; simp at hw
    | some u =>
      rw [hv] at hw; simp only [Option.map_some, Option.some.injEq] at hw
      obtain ⟨s', hs'⟩ := construct_accepts close true (u.map Lin.ofNum) ⟨k, by rw [hw]; exact hwl⟩ (by rw [hw]; exact hcw)
      refine ⟨s', ?_, ?_⟩
      · simp only [flipWf, hv]; exact hs'
      · rw [arr2_entries, flipList_map, hv, (construct_ok _ _ _ _ hs').2]; rfl
  | mat v =>
    rw [mat_entries] at hw
    obtain ⟨s', hs'⟩ := construct_accepts close true w ⟨k, hwl⟩ hcw
    refine ⟨s', ?_, ?_⟩
    · simp only [flipWf, hw]; exact hs'
    · rw [mat_entries, hw, (construct_ok _ _ _ _ hs').2]

/-! ### the Gosper step -/

theorem or_pred (B j : Nat) :
    (2 ^ (j + 1) * B + 2 ^ j) ||| (2 ^ (j + 1) * B + 2 ^ j - 1) = 2 ^ (j + 1) * B + (2 ^ (j + 1) - 1) := by
  have hj : 2 ^ j < 2 ^ (j + 1) := Nat.pow_lt_pow_right (by omega) (by omega)
  have hpos : 0 < 2 ^ j := Nat.two_pow_pos j
  have e1 : 2 ^ (j + 1) * B + 2 ^ j - 1 = 2 ^ (j + 1) * B + (2 ^ j - 1) := by omega
  rw [e1]
  apply Nat.eq_of_testBit_eq
  intro i
  rw [Nat.testBit_or, Nat.testBit_two_pow_mul_add _ hj, Nat.testBit_two_pow_mul_add _ (by omega : 2 ^ j - 1 < 2 ^ (j + 1)),
    Nat.testBit_two_pow_mul_add _ (by omega : 2 ^ (j + 1) - 1 < 2 ^ (j + 1))]
  by_cases hi : i < j + 1
  · simp only [hi, if_true, Nat.testBit_two_pow, Nat.testBit_two_pow_sub_one]
    by_cases h2 : j = i <;> simp [h2]; omega
  · simp [hi]

theorem and_pred (B j : Nat) :
    (2 ^ (j + 1) * B + 2 ^ j) &&& (2 ^ (j + 1) * B + 2 ^ j - 1) = 2 ^ (j + 1) * B := by
  have hj : 2 ^ j < 2 ^ (j + 1) := Nat.pow_lt_pow_right (by omega) (by omega)
  have hpos : 0 < 2 ^ j := Nat.two_pow_pos j
  have e1 : 2 ^ (j + 1) * B + 2 ^ j - 1 = 2 ^ (j + 1) * B + (2 ^ j - 1) := by omega
  rw [e1]
  apply Nat.eq_of_testBit_eq
  intro i
  have e0 : 2 ^ (j + 1) * B = 2 ^ (j + 1) * B + 0 := by omega
  conv_rhs => rw [e0]
  rw [Nat.testBit_and, Nat.testBit_two_pow_mul_add _ hj, Nat.testBit_two_pow_mul_add _ (by omega : 2 ^ j - 1 < 2 ^ (j + 1)),
    Nat.testBit_two_pow_mul_add _ (Nat.two_pow_pos (j + 1))]
  by_cases hi : i < j + 1
  · simp only [hi, if_true, Nat.testBit_two_pow, Nat.testBit_two_pow_sub_one, Nat.zero_testBit]
    by_cases h2 : j = i <;> simp [h2]
  · simp [hi]

/-- Python's `x & -x` (modelled by `lowBit`) is the lowest set bit -/
theorem lowBit_spec (B j : Nat) : lowBit (2 ^ (j + 1) * B + 2 ^ j) = 2 ^ j := by
  unfold lowBit
  rw [and_pred, Nat.add_sub_cancel_left]

/-- the Gosper step in closed form: a block of `m'+1` ones above `j` zeros, with a zero on top of it,
    becomes a single one in that zero's place and `m'` ones at the very bottom -/
theorem gosper_core (A j m' : Nat) :
    nextSameWeight (2 ^ (j + m' + 2) * A + (2 ^ (m' + 1) - 1) * 2 ^ j)
      = 2 ^ (j + m' + 2) * A + 2 ^ (j + m' + 1) + (2 ^ m' - 1) := by
  obtain ⟨c, hc⟩ : ∃ c, 2 ^ m' = c + 1 := ⟨2 ^ m' - 1, by have := Nat.two_pow_pos m'; omega⟩
  have hv : 2 ^ (j + m' + 2) * A + (2 ^ (m' + 1) - 1) * 2 ^ j = 2 ^ (j + 1) * (2 ^ (m' + 1) * A + c) + 2 ^ j := by
    have e1 : 2 ^ (j + m' + 2) = 2 ^ (j + 1) * 2 ^ (m' + 1) := by rw [← pow_add]; congr 1; omega
    have e2 : 2 ^ (m' + 1) - 1 = 2 * c + 1 := by rw [pow_succ, hc]; omega
    rw [e1, e2, pow_succ 2 j]; ring
  have ht : 2 ^ (j + 1) * (2 ^ (m' + 1) * A + c) + (2 ^ (j + 1) - 1) + 1 = 2 ^ (j + m' + 1 + 1) * A + 2 ^ (j + m' + 1) := by
    have hp := Nat.two_pow_pos (j + 1)
    have e1 : 2 ^ (j + m' + 1 + 1) = 2 ^ (j + 1) * 2 ^ (m' + 1) := by rw [← pow_add]; congr 1; omega
    have e2 : 2 ^ (j + m' + 1) = 2 ^ (j + 1) * (c + 1) := by rw [← hc, ← pow_add]; congr 1; omega
    rw [e1, e2]
    have : 2 ^ (j + 1) * (2 ^ (m' + 1) * A + c) + (2 ^ (j + 1) - 1) + 1 = 2 ^ (j + 1) * (2 ^ (m' + 1) * A + c) + 2 ^ (j + 1) := by omega
    rw [this]; ring
  unfold nextSameWeight
  simp only
  rw [hv, or_pred, ht, lowBit_spec, lowBit_spec]
  have hq : 2 ^ (j + m' + 1) / 2 ^ j = 2 ^ (m' + 1) := by
    rw [Nat.pow_div (by omega) (by omega)]; congr 1; omega
  have hq2 : 2 ^ (m' + 1) >>> 1 = 2 ^ m' := by
    rw [Nat.shiftRight_eq_div_pow, pow_one, pow_succ, Nat.mul_div_cancel _ (by omega : 0 < 2)]
  rw [hq, hq2]
  have hb : 2 ^ m' - 1 < 2 ^ (j + m' + 1) := by
    have : 2 ^ m' ≤ 2 ^ (j + m' + 1) := Nat.pow_le_pow_right (by omega) (by omega)
    have := Nat.two_pow_pos m'; omega
  have e3 : 2 ^ (j + m' + 1 + 1) * A + 2 ^ (j + m' + 1) = 2 ^ (j + m' + 1) * (2 * A + 1) := by
    rw [pow_succ]; ring
  rw [e3, ← Nat.two_pow_add_eq_or_of_lt hb]

/-- every positive integer is `A·2^(j+m'+2) + (2^(m'+1) − 1)·2^j`: `j` trailing zeros, then a block of `m'+1` ones,
    then a zero -/
theorem block_decomp (v : Nat) (hv : 0 < v) :
    ∃ A j m', v = 2 ^ (j + m' + 2) * A + (2 ^ (m' + 1) - 1) * 2 ^ j := by
  induction v using Nat.strongRecOn with
  | _ v ih =>
    by_cases hev : v % 2 = 0
    · obtain ⟨A, j, m', h⟩ := ih (v / 2) (by omega) (by omega)
      refine ⟨A, j + 1, m', ?_⟩
      have e : v = 2 * (v / 2) := by omega
      rw [e, h]
      have e1 : j + 1 + m' + 2 = (j + m' + 2) + 1 := by omega
      rw [e1, pow_succ 2 (j + m' + 2), pow_succ 2 j]; ring
    · by_cases h1 : v / 2 = 0
      · exact ⟨0, 0, 0, by omega⟩
      · by_cases hev2 : (v / 2) % 2 = 0
        · refine ⟨v / 2 / 2, 0, 0, ?_⟩
          simp only [Nat.zero_add, pow_zero, Nat.mul_one]
          omega
        · obtain ⟨A, j, m', h⟩ := ih (v / 2) (by omega) (by omega)
          have hj : j = 0 := by
            by_contra hj
            obtain ⟨j', rfl⟩ : ∃ j', j = j' + 1 := ⟨j - 1, by omega⟩
            have e1 : j' + 1 + m' + 2 = (j' + m' + 2) + 1 := by omega
            rw [e1, pow_succ 2 (j' + m' + 2), pow_succ 2 j'] at h
            have : v / 2 = 2 * (2 ^ (j' + m' + 2) * A + (2 ^ (m' + 1) - 1) * 2 ^ j') := by rw [h]; ring
            omega
          subst hj
          refine ⟨A, 0, m' + 1, ?_⟩
          simp only [Nat.zero_add, pow_zero, Nat.mul_one] at h ⊢
          have e : v = 2 * (v / 2) + 1 := by omega
          have hp := Nat.two_pow_pos (m' + 1)
          have e2 : 2 ^ (m' + 2) = 2 * 2 ^ (m' + 1) := by
            have : m' + 2 = (m' + 1) + 1 := by omega
            rw [this, pow_succ]; ring
          have e3 : 2 ^ (m' + 1 + 2) = 4 * 2 ^ (m' + 1) := by
            have : m' + 1 + 2 = ((m' + 1) + 1) + 1 := by omega
            rw [this, pow_succ, pow_succ]; ring
          have e4 : 2 ^ (m' + 1 + 1) = 2 * 2 ^ (m' + 1) := by rw [pow_succ]; ring
          rw [e2] at h
          rw [e3, e4]
          generalize 2 ^ (m' + 1) = X at *
          have h' : v / 2 = 2 * (X * A) + (X - 1) := by rw [h]; ring
          have g : 4 * X * A = 4 * (X * A) := by ring
          rw [g]
          generalize X * A = Y at *
          omega

/-! ### Hamming weight -/

theorem popcount_split (L H r : Nat) (hr : r < 2 ^ L) : popcount (2 ^ L * H + r) = popcount H + popcount r := by
  induction L generalizing r with
  | zero =>
    have : r = 0 := by simpa using hr
    subst this; simp [popcount_zero]
  | succ L ih =>
    have e : 2 ^ (L + 1) * H + r = 2 * (2 ^ L * H + r / 2) + r % 2 := by
      rw [pow_succ]
      have := Nat.div_add_mod r 2
      have h2 : 2 ^ L * 2 * H = 2 * (2 ^ L * H) := by ring
      rw [h2]; omega
    have hr2 : r / 2 < 2 ^ L := by rw [pow_succ] at hr; omega
    rw [e, popcount_double _ _ (Nat.mod_lt _ (by omega)), ih _ hr2]
    have : popcount r = popcount (r / 2) + r % 2 := by
      conv_lhs => rw [← Nat.div_add_mod r 2]
      exact popcount_double _ _ (Nat.mod_lt _ (by omega))
    omega

theorem popcount_two_pow_sub_one (m : Nat) : popcount (2 ^ m - 1) = m := by
  induction m with
  | zero => simp [popcount_zero]
  | succ m ih =>
    have hp := Nat.two_pow_pos m
    have e : 2 ^ (m + 1) - 1 = 2 * (2 ^ m - 1) + 1 := by rw [pow_succ]; omega
    rw [e, popcount_double _ _ (by omega), ih]

theorem popcount_mul_two_pow (x j : Nat) : popcount (x * 2 ^ j) = popcount x := by
  induction j with
  | zero => simp
  | succ j ih =>
    have e : x * 2 ^ (j + 1) = 2 * (x * 2 ^ j) + 0 := by rw [pow_succ]; ring
    rw [e, popcount_double _ _ (by omega), ih]; rfl

/-- an integer of Hamming weight `p` is at least `2^p − 1` -/
theorem popcount_lower (s p : Nat) (h : popcount s = p) : 2 ^ p ≤ s + 1 := by
  induction s using Nat.strongRecOn generalizing p with
  | _ s ih =>
    by_cases hs : s = 0
    · subst hs; rw [popcount_zero] at h; subst h; simp
    · rw [popcount_unfold] at h
      simp only [hs, if_false] at h
      have h2 := ih (s / 2) (by omega) (popcount (s / 2)) rfl
      by_cases hb : s % 2 = 1
      · have hp : p = popcount (s / 2) + 1 := by omega
        rw [hp, pow_succ]; omega
      · have hp : p = popcount (s / 2) := by omega
        rw [hp]; omega

/-- an integer of Hamming weight `m` below `2^(m+K)` is at most `2^(m+K) − 2^K` -/
theorem popcount_upper (r m K : Nat) (h : popcount r = m) (hr : r < 2 ^ (m + K)) : r + 2 ^ K ≤ 2 ^ (m + K) := by
  induction r using Nat.strongRecOn generalizing m K with
  | _ r ih =>
    by_cases hs : r = 0
    · subst hs; rw [popcount_zero] at h; subst h; simp
    · rw [popcount_unfold] at h
      simp only [hs, if_false] at h
      by_cases hb : r % 2 = 1
      · obtain ⟨m', rfl⟩ : ∃ m', m = m' + 1 := ⟨m - 1, by omega⟩
        have e : m' + 1 + K = (m' + K) + 1 := by omega
        rw [e, pow_succ] at hr ⊢
        have := ih (r / 2) (by omega) m' K (by omega) (by omega)
        have hK := Nat.two_pow_pos K
        omega
      · cases K with
        | zero => simp at hr ⊢; omega
        | succ K =>
          have e : m + (K + 1) = (m + K) + 1 := by omega
          rw [e, pow_succ] at hr ⊢
          rw [pow_succ]
          have := ih (r / 2) (by omega) m K (by omega) (by omega)
          omega

theorem popcount_one : popcount 1 = 1 := by decide

/-- THE GOSPER STEP: for `v ≥ 1` the result is the least integer above `v` with the same Hamming weight -/
theorem nextSameWeight_least (v : Nat) (hv : 0 < v) :
    v < nextSameWeight v ∧ popcount (nextSameWeight v) = popcount v ∧
    ∀ w, v < w → popcount w = popcount v → nextSameWeight v ≤ w := by
  obtain ⟨A, j, m', hdec⟩ := block_decomp v hv
  have hcore := gosper_core A j m'
  rw [← hdec] at hcore
  rw [hcore]
  -- the powers involved, related linearly
  have hJ : 1 ≤ 2 ^ j := Nat.two_pow_pos j
  have hM : 1 ≤ 2 ^ m' := Nat.two_pow_pos m'
  have hQ : (2 ^ (m' + 1) - 1) * 2 ^ j + 2 ^ j = 2 ^ (j + m' + 1) := by
    have h1 : 1 ≤ 2 ^ (m' + 1) := Nat.two_pow_pos _
    have : (2 ^ (m' + 1) - 1) * 2 ^ j + 2 ^ j = (2 ^ (m' + 1) - 1 + 1) * 2 ^ j := by ring
    rw [this, Nat.sub_add_cancel h1, ← pow_add]; congr 1; omega
  have hP : 2 ^ (j + m' + 2) = 2 * 2 ^ (j + m' + 1) := by
    have : j + m' + 2 = (j + m' + 1) + 1 := by omega
    rw [this, pow_succ]; ring
  have hMQ : 2 ^ m' ≤ 2 ^ (j + m' + 1) := Nat.pow_le_pow_right (by omega) (by omega)
  have hrvP : (2 ^ (m' + 1) - 1) * 2 ^ j < 2 ^ (j + m' + 2) := by omega
  -- Hamming weights
  have hpv : popcount v = popcount A + (m' + 1) := by
    rw [hdec, popcount_split _ _ _ hrvP, popcount_mul_two_pow, popcount_two_pow_sub_one]
  have hpN : popcount (2 ^ (j + m' + 2) * A + 2 ^ (j + m' + 1) + (2 ^ m' - 1)) = popcount A + (m' + 1) := by
    have e : 2 ^ (j + m' + 2) * A + 2 ^ (j + m' + 1) + (2 ^ m' - 1)
        = 2 ^ (j + m' + 2) * A + (2 ^ (j + m' + 1) * 1 + (2 ^ m' - 1)) := by ring
    rw [e, popcount_split _ _ _ (by omega), popcount_split _ _ _ (by omega), popcount_one, popcount_two_pow_sub_one]
    omega
  refine ⟨by rw [hdec]; omega, by rw [hpN, hpv], ?_⟩
  intro w hvw hpw
  by_contra hlt
  have hwN : w < 2 ^ (j + m' + 2) * A + 2 ^ (j + m' + 1) + (2 ^ m' - 1) := by omega
  have hdiv : w / 2 ^ (j + m' + 2) = A := by
    apply Nat.div_eq_of_lt_le
    · rw [Nat.mul_comm]; rw [hdec] at hvw; omega
    · rw [Nat.mul_comm, Nat.mul_add]; omega
  have hw : w = 2 ^ (j + m' + 2) * A + w % 2 ^ (j + m' + 2) := by
    have := Nat.div_add_mod w (2 ^ (j + m' + 2))
    rw [hdiv] at this; exact this.symm
  have hrlt : w % 2 ^ (j + m' + 2) < 2 ^ (j + m' + 2) := Nat.mod_lt _ (Nat.two_pow_pos _)
  generalize w % 2 ^ (j + m' + 2) = r at hw hrlt
  have hpr : popcount r = m' + 1 := by
    rw [hw, popcount_split _ _ _ hrlt, hpv] at hpw; omega
  by_cases hcase : r < 2 ^ (j + m' + 1)
  · have hu := popcount_upper r (m' + 1) j hpr (by
      have : m' + 1 + j = j + m' + 1 := by omega
      rw [this]; exact hcase)
    have e : m' + 1 + j = j + m' + 1 := by omega
    rw [e] at hu
    rw [hdec, hw] at hvw
    omega
  · obtain ⟨s, hs⟩ : ∃ s, r = 2 ^ (j + m' + 1) * 1 + s := ⟨r - 2 ^ (j + m' + 1), by omega⟩
    have hslt : s < 2 ^ (j + m' + 1) := by omega
    rw [hs, popcount_split _ _ _ hslt, popcount_one] at hpr
    have hl := popcount_lower s m' (by omega)
    rw [hw, hs] at hwN
    omega

/-! ### the Dicke loop -/

theorem msb_le_iff (x n : Nat) (hx : 0 < x) : msb x ≤ n ↔ x < 2 ^ n := by
  unfold msb
  have hx0 : x ≠ 0 := by omega
  simp only [hx0, if_false]
  rw [← Nat.log2_lt hx0]; omega

/-- the first element satisfying `P` splits off the front of `filter P (range N)` -/
theorem filter_range_step (P : Nat → Bool) (N m : Nat) (hm : m < N) (hPm : P m = true)
    (hleast : ∀ w, w < m → P w = false) :
    (List.range N).filter P = m :: (List.range N).filter (fun w => decide (m < w) && P w) := by
  induction N with
  | zero => omega
  | succ N ih =>
    rw [List.range_succ, List.filter_append, List.filter_append]
    by_cases hmN : m < N
    · rw [ih hmN]
      simp only [List.cons_append, List.cons.injEq, true_and]
      congr 1
      simp [List.filter_cons, hmN]
    · have hmN' : m = N := by omega
      subst hmN'
      have h1 : (List.range m).filter P = [] := by
        rw [List.filter_eq_nil_iff]; intro a ha; rw [List.mem_range] at ha; simp [hleast a ha]
      have h2 : (List.range m).filter (fun w => decide (m < w) && P w) = [] := by
        rw [List.filter_eq_nil_iff]; intro a ha; rw [List.mem_range] at ha
        have : ¬ m < a := by omega
        simp [this]
      rw [h1, h2]
      simp [hPm]

theorem dickeLoop_spec (n k : Nat) (fuel cur : Nat) (acc : List Nat)
    (hpc : popcount cur = k) (hpos : 0 < cur) (hlt : cur < 2 ^ n) (hfuel : 2 ^ n - cur ≤ fuel) :
    dickeLoop n fuel cur acc =
      some (acc ++ (List.range (2 ^ n)).filter (fun w => decide (cur < w) && decide (popcount w = k))) := by
  induction fuel generalizing cur acc with
  | zero => omega
  | succ fuel ih =>
    obtain ⟨hgt, hpn, hleast⟩ := nextSameWeight_least cur hpos
    simp only [dickeLoop]
    have hnpos : 0 < nextSameWeight cur := by omega
    by_cases hn : nextSameWeight cur < 2 ^ n
    · have hmsb : msb (nextSameWeight cur) ≤ n := (msb_le_iff _ _ hnpos).mpr hn
      simp only [hmsb, if_true]
      rw [ih (nextSameWeight cur) (acc ++ [nextSameWeight cur]) (by rw [hpn, hpc]) hnpos hn (by omega)]
      congr 1
      rw [filter_range_step (fun w => decide (cur < w) && decide (popcount w = k)) (2 ^ n) (nextSameWeight cur) hn
        (by simp [hgt, hpn, hpc])
        (by
          intro w hw
          by_cases h1 : cur < w
          · by_cases h2 : popcount w = k
            · have := hleast w h1 (by rw [h2, hpc]); omega
            · simp [h2]
          · simp [h1])]
      rw [List.append_assoc, List.singleton_append]
      congr 2
      apply List.filter_congr
      intro w _
      by_cases h1 : nextSameWeight cur < w
      · have : cur < w := by omega
        simp [h1, this]
      · simp [h1]
    · have hmsb : ¬ msb (nextSameWeight cur) ≤ n := fun h => hn ((msb_le_iff _ _ hnpos).mp h)
      simp only [hmsb, if_false]
      congr 1
      have : (List.range (2 ^ n)).filter (fun w => decide (cur < w) && decide (popcount w = k)) = [] := by
        rw [List.filter_eq_nil_iff]
        intro w hw
        rw [List.mem_range] at hw
        by_cases h1 : cur < w
        · by_cases h2 : popcount w = k
          · have := hleast w h1 (by rw [h2, hpc]); omega
          · simp [h2]
        · simp [h1]
      rw [this, List.append_nil]

/-- the index list of `dicke_state(n, k)`, `1 ≤ k ≤ n`: exactly the integers below `2^n` of Hamming weight `k`,
    in increasing order -/
theorem dickeIndices_spec (n k : Nat) (hk : 1 ≤ k) (hkn : k ≤ n) :
    dickeIndices n k = some ((List.range (2 ^ n)).filter (fun w => decide (popcount w = k))) := by
  unfold dickeIndices
  have hp : 2 ≤ 2 ^ k := by
    calc 2 = 2 ^ 1 := by norm_num
      _ ≤ 2 ^ k := Nat.pow_le_pow_right (by omega) hk
  have hle : 2 ^ k ≤ 2 ^ n := Nat.pow_le_pow_right (by omega) hkn
  rw [dickeLoop_spec n k (2 ^ n) (2 ^ k - 1) [2 ^ k - 1] (popcount_two_pow_sub_one k) (by omega) (by omega) (by omega)]
  congr 1
  rw [filter_range_step (fun w => decide (popcount w = k)) (2 ^ n) (2 ^ k - 1) (by omega)
    (by simp [popcount_two_pow_sub_one])
    (by
      intro w hw
      by_cases h : popcount w = k
      · have := popcount_lower w k h; omega
      · simp [h])]
  rfl

theorem filter_popcount_zero (n : Nat) :
    (List.range (2 ^ n)).filter (fun w => decide (popcount w = 0)) = [0] := by
  rw [filter_range_step (fun w => decide (popcount w = 0)) (2 ^ n) 0 (Nat.two_pow_pos n) (by simp [popcount_zero])
    (by intro w hw; omega)]
  congr 1
  rw [List.filter_eq_nil_iff]
  intro w _
  by_cases h : 0 < w
  · have : popcount w ≠ 0 := fun h0 => by have := (popcount_eq_zero_iff w).mp h0; omega
    simp [this]
  · simp [h]

theorem sum_map_ite (l : List Nat) (P : Nat → Bool) (c : Rat) :
    (l.map (fun i => if P i = true then c else 0)).sum = c * ((l.filter P).length : Rat) := by
  induction l with
  | nil => simp
  | cons a l ih =>
    simp only [List.map_cons, List.sum_cons, ih, List.filter_cons]
    by_cases h : P a = true
    · simp only [h, if_true, List.length_cons]; push_cast; ring
    · simp [h]

/-- the probabilities of a Dicke vector whose support is `filter P (range 2^n)` (non-empty): `1/|support|`
    exactly on the support, `0` elsewhere, total 1 -/
theorem dickeProbs_spec (n : Nat) (P : Nat → Bool) (hne : (List.range (2 ^ n)).filter P ≠ []) :
    let idx := (List.range (2 ^ n)).filter P
    (dickeProbs n idx).length = 2 ^ n ∧
    (∀ i, i < 2 ^ n → (dickeProbs n idx)[i]? = some (if P i = true then 1 / (idx.length : Rat) else 0)) ∧
    (dickeProbs n idx).sum = 1 := by
  intro idx
  have hmem : ∀ i, i < 2 ^ n → (i ∈ idx ↔ P i = true) := by
    intro i hi; simp [idx, List.mem_filter, List.mem_range, hi]
  refine ⟨by simp [dickeProbs], ?_, ?_⟩
  · intro i hi
    simp only [dickeProbs, List.getElem?_map, List.getElem?_range hi, Option.map_some]
    congr 1
    by_cases h : P i = true
    · simp [(hmem i hi).mpr h, h]
    · have : i ∉ idx := fun hc => h ((hmem i hi).mp hc)
      simp [this, h]
  · have hlen : (idx.length : Rat) ≠ 0 := by
      have : idx.length ≠ 0 := fun h => hne (List.length_eq_zero_iff.mp h)
      exact_mod_cast this
    have e : dickeProbs n idx = (List.range (2 ^ n)).map (fun i => if P i = true then 1 / (idx.length : Rat) else 0) := by
      unfold dickeProbs
      apply List.map_congr_left
      intro i hi
      rw [List.mem_range] at hi
      by_cases h : P i = true
      · simp [(hmem i hi).mpr h, h]
      · have : i ∉ idx := fun hc => h ((hmem i hi).mp hc)
        simp [this, h]
    rw [e, sum_map_ite]
    field_simp
    rfl

/-! ### histories -/

theorem inv_step_of (close : Rat → Bool) (s : Store) (op : Op) (hinv : Inv close s) :
    Inv close (step close s op).1 := by
  by_cases hacc : (step close s op).2 = .ok
  · exact step_accepted close s op hinv hacc
  · rw [step_rejected close s op hacc]; exact hinv

theorem inv_run (close : Rat → Bool) (s : Store) (ops : List Op) (hinv : Inv close s) :
    Inv close (run close s ops) := by
  induction ops generalizing s with
  | nil => exact hinv
  | cons op ops ih =>
    simp only [run, List.foldl_cons]
    exact ih _ (inv_step_of close s op hinv)

/-! ### probabilities, save / load -/

theorem normSq_nonneg (z : QI) : 0 ≤ z.normSq := by
  unfold QI.normSq
  have h1 := mul_self_nonneg z.re
  have h2 := mul_self_nonneg z.im
  linarith

theorem numSq_allNum (v : List Lin) (h : allNum v = true) : numSq v = (v.map (fun e => e.c.normSq)).sum := by
  unfold numSq
  have : v.filter Lin.isNum = v := by
    rw [List.filter_eq_self]; intro a ha
    simp only [allNum, List.all_eq_true] at h; exact h a ha
  rw [this]

theorem zip_re_im (v : List QI) : ((v.map (·.re)).zip (v.map (·.im))).map (fun p => (⟨p.1, p.2⟩ : QI)) = v := by
  induction v with
  | nil => rfl
  | cons a v ih => simp only [List.map_cons, List.zip_cons_cons, ih]

theorem dictToArray_save (v : List QI) :
    dictToArray (v.map (·.re)) (some (v.map (·.im))) = .ok v := by
  cases v with
  | nil => rfl
  | cons a v =>
    have := zip_re_im (a :: v)
    simp only [dictToArray, List.map_cons, List.length_cons, List.length_map, if_true] at this ⊢
    rw [this]

end OQ.C12
