/- C04: spec-level lemmas (gate placement vs. Z-type operators over bit assignments); not property theorems -/
import OQ.Spec.Lift
import Mathlib.Logic.Equiv.Fin.Basic
import Mathlib.Data.Matrix.Mul
import Mathlib.LinearAlgebra.Matrix.ConjTranspose
import Mathlib.Algebra.BigOperators.Ring.Finset
import Mathlib.Algebra.BigOperators.Group.Finset.Basic
namespace OQ.C04
open Matrix OQ.Spec

variable {R : Type} [CommRing R] [StarRing R] {κ μ ι : Type}
  [Fintype κ] [DecidableEq κ] [Fintype μ] [DecidableEq μ] [Fintype ι] [DecidableEq ι]

/-- eigenvalue of ∏_{q∈S} Z_q on the bit assignment `x` -/
def zsign {ι : Type} (S : Finset ι) (x : BV ι) : R := ∏ q ∈ S, if x q then -1 else 1

/-- ⟨φ| A |φ⟩ -/
def ev (A : Matrix (BV ι) (BV ι) R) (φ : BV ι → R) : R := star φ ⬝ᵥ (A *ᵥ φ)

theorem ev_diagonal (d : BV ι → R) (φ : BV ι → R) :
    ev (Matrix.diagonal d) φ = ∑ x, (φ x * star (φ x)) * d x := by
  unfold ev
  simp only [dotProduct, Matrix.mulVec_diagonal, Pi.star_apply]
  apply Finset.sum_congr rfl
  intro x _; ring

/-- Heisenberg picture: ⟨Uψ|A|Uψ⟩ = ⟨ψ|Uᴴ A U|ψ⟩ -/
theorem ev_mulVec (U A : Matrix (BV ι) (BV ι) R) (ψ : BV ι → R) :
    ev A (U *ᵥ ψ) = ev (Uᴴ * A * U) ψ := by
  unfold ev
  rw [Matrix.star_mulVec, Matrix.mulVec_mulVec, ← Matrix.dotProduct_mulVec, Matrix.mulVec_mulVec,
    Matrix.mul_assoc]

omit [StarRing R] in
/-- a Z-type operator on qubits none of which the gate touches commutes with the lifted gate -/
theorem zdiag_comm_lift (σ : κ ⊕ μ ≃ ι) (M : Matrix (BV κ) (BV κ) R) (S : Finset ι)
    (hS : ∀ k, σ (Sum.inl k) ∉ S) :
    Matrix.diagonal (zsign (R := R) S) * lift σ M = lift σ M * Matrix.diagonal (zsign S) := by
  ext x y
  rw [Matrix.diagonal_mul, Matrix.mul_diagonal, lift_apply]
  split_ifs with h
  · have : zsign (R := R) S x = zsign S y := by
      unfold zsign
      apply Finset.prod_congr rfl
      intro q hq
      obtain ⟨s, rfl⟩ := σ.surjective q
      cases s with
      | inl k => exact absurd hq (hS k)
      | inr m => rw [h m]
    rw [this]; ring
  · simp

omit [StarRing R] in
/-- the Z-type operator on operator-qubits `σ (inl k)`, k ∈ S', IS the lift along the gate placement σ
    of the Z-type operator on the gate's own qubits S' -/
theorem zdiag_lift (σ : κ ⊕ μ ≃ ι) (S' : Finset κ) :
    Matrix.diagonal (zsign (R := R) (S'.map ⟨fun k => σ (Sum.inl k), fun a b h => by simpa using h⟩)) =
      lift σ (Matrix.diagonal (zsign S')) := by
  ext x y
  rw [lift_apply, Matrix.diagonal_apply, Matrix.diagonal_apply]
  by_cases hxy : x = y
  · subst hxy
    simp only [if_true, implies_true]
    unfold zsign
    rw [Finset.prod_map]
    rfl
  · simp only [hxy, if_false]
    split_ifs with h1 h2
    · exfalso; apply hxy; funext q
      obtain ⟨s, rfl⟩ := σ.surjective q
      cases s with
      | inl k => exact congrFun h2 k
      | inr m => exact h1 m
    · rfl
    · rfl

theorem lift_unitary (σ : κ ⊕ μ ≃ ι) (M : Matrix (BV κ) (BV κ) R) (hM : Mᴴ * M = 1) :
    (lift σ M)ᴴ * lift σ M = 1 := by
  rw [← lift_conjTranspose, ← lift_mul, hM, lift_one]

/-- gates acting on other qubits do not change the expectation of a Z-type operator -/
theorem ev_zdiag_off_support (σ : κ ⊕ μ ≃ ι) (M : Matrix (BV κ) (BV κ) R) (hM : Mᴴ * M = 1)
    (S : Finset ι) (hS : ∀ k, σ (Sum.inl k) ∉ S) (ψ : BV ι → R) :
    ev (Matrix.diagonal (zsign S)) (lift σ M *ᵥ ψ) = ev (Matrix.diagonal (zsign S)) ψ := by
  rw [ev_mulVec, Matrix.mul_assoc, zdiag_comm_lift σ M S hS, ← Matrix.mul_assoc, lift_unitary σ M hM,
    Matrix.one_mul]

/-- a gate on the qubits the operator is made of: the Heisenberg-picture operator is computed on the
    gate's own qubits and lifted along the same placement -/
theorem ev_zdiag_on_support (σ : κ ⊕ μ ≃ ι) (M : Matrix (BV κ) (BV κ) R) (S' : Finset κ) (ψ : BV ι → R) :
    ev (Matrix.diagonal (zsign (S'.map ⟨fun k => σ (Sum.inl k), fun a b h => by simpa using h⟩)))
        (lift σ M *ᵥ ψ) =
      ev (lift σ (Mᴴ * Matrix.diagonal (zsign S') * M)) ψ := by
  rw [ev_mulVec, zdiag_lift, ← lift_conjTranspose, ← lift_mul, ← lift_mul]

/-- the X gate as a matrix over the bit assignments of its single qubit -/
def xGate : Matrix (BV Unit) (BV Unit) R := fun a b => if a () = b () then 0 else 1

/-- flipping qubit `q` of an assignment -/
def flipAt (q : ι) (x : BV ι) : BV ι := Function.update x q (!x q)

omit [Fintype ι] in
theorem flipAt_flipAt (q : ι) (x : BV ι) : flipAt q (flipAt q x) = x := by
  funext p
  unfold flipAt
  by_cases h : p = q
  · subst h; simp
  · simp [Function.update_of_ne h]

omit [StarRing R] in
/-- X on the qubit placed at `σ (inl ())` maps the amplitude of `x` to that of `x` with that qubit flipped -/
theorem lift_x_mulVec (σ : Unit ⊕ μ ≃ ι) (ψ : BV ι → R) (x : BV ι) :
    (lift σ (xGate (R := R)) *ᵥ ψ) x = ψ (flipAt (σ (Sum.inl ())) x) := by
  set q := σ (Sum.inl ()) with hq
  show ∑ y, lift σ (xGate (R := R)) x y * ψ y = _
  rw [Finset.sum_eq_single (flipAt q x)]
  · rw [lift_apply]
    have h1 : ∀ m, x (σ (Sum.inr m)) = flipAt q x (σ (Sum.inr m)) := by
      intro m
      unfold flipAt
      rw [Function.update_of_ne]
      intro h; rw [hq] at h; simpa using σ.injective h
    rw [if_pos h1]
    simp [xGate, flipAt, ← hq]
  · intro y _ hy
    rw [lift_apply]
    split_ifs with h1
    · simp only [xGate, ← hq]
      by_cases h2 : x q = y q
      · simp [h2]
      · exfalso; apply hy
        funext p
        obtain ⟨s, rfl⟩ := σ.surjective p
        cases s with
        | inl u =>
          cases u
          unfold flipAt
          rw [← hq, Function.update_self]
          cases hx : x q <;> cases hy' : y q <;> simp_all
        | inr m =>
          unfold flipAt
          rw [Function.update_of_ne, h1 m]
          intro h; rw [hq] at h; simpa using σ.injective h
    · simp
  · intro h; exact absurd (Finset.mem_univ _) h

omit [Fintype ι] [StarRing R] in
theorem zsign_flipAt (S : Finset ι) (q : ι) (x : BV ι) :
    zsign (R := R) S (flipAt q x) = (if q ∈ S then -1 else 1) * zsign S x := by
  unfold zsign
  by_cases hq : q ∈ S
  · rw [if_pos hq, ← Finset.mul_prod_erase S _ hq, ← Finset.mul_prod_erase S (fun p => if x p then (-1 : R) else 1) hq]
    have : ∏ p ∈ S.erase q, (if flipAt q x p then (-1 : R) else 1) = ∏ p ∈ S.erase q, (if x p then (-1 : R) else 1) := by
      apply Finset.prod_congr rfl
      intro p hp
      have : p ≠ q := (Finset.mem_erase.mp hp).1
      simp [flipAt, Function.update_of_ne this]
    rw [this]
    unfold flipAt
    rw [Function.update_self]
    cases x q <;> simp
  · rw [if_neg hq, one_mul]
    apply Finset.prod_congr rfl
    intro p hp
    have : p ≠ q := fun h => hq (h ▸ hp)
    simp [flipAt, Function.update_of_ne this]

/-- X on gate-qubit `q` flips the sign of ⟨Z_S⟩ exactly when operator-qubit `q` belongs to `S` -/
theorem ev_zdiag_x (σ : Unit ⊕ μ ≃ ι) (S : Finset ι) (ψ : BV ι → R) :
    ev (Matrix.diagonal (zsign S)) (lift σ (xGate (R := R)) *ᵥ ψ) =
      (if σ (Sum.inl ()) ∈ S then -1 else 1) * ev (Matrix.diagonal (zsign S)) ψ := by
  rw [ev_diagonal, ev_diagonal, Finset.mul_sum]
  let q := σ (Sum.inl ())
  let e : BV ι ≃ BV ι := ⟨flipAt q, flipAt q, flipAt_flipAt q, flipAt_flipAt q⟩
  apply Fintype.sum_equiv e
  intro x
  rw [lift_x_mulVec]
  show _ = _ * (ψ (flipAt q x) * star (ψ (flipAt q x)) * zsign S (flipAt q x))
  rw [zsign_flipAt]
  by_cases h : q ∈ S <;> simp [h, q]

/-- (for non-vacuity examples) placement of a one-qubit gate on qubit 0 of a 3-qubit register -/
def sigma0 : Unit ⊕ Fin 2 ≃ Fin 3 := (Equiv.sumCongr finOneEquiv.symm (Equiv.refl (Fin 2))).trans finSumFinEquiv

end OQ.C04
