import OQ.Lemmas.C01_Lift
import OQ.Spec.Lift
import Mathlib.Data.List.Nodup
import Mathlib.Data.Fintype.BigOperators

namespace OQ.C01
open OQ.Lift OQ OQ.Spec Matrix
variable {R : Type} [CommRing R]

/-- the bit assignment of a basis index, qubit 0 = most significant bit -/
def toBits (n : Nat) (x : Fin (2 ^ n)) : BV (Fin n) := fun q => x.val.testBit (n - 1 - q.val)

theorem toBits_injective (n : Nat) : Function.Injective (toBits n) := by
  intro x y h
  apply Fin.ext
  apply Nat.eq_of_testBit_eq
  intro i
  by_cases hi : i < n
  · have := congrFun h ⟨n - 1 - i, by omega⟩
    simp only [toBits] at this
    have e : n - 1 - (n - 1 - i) = i := by omega
    rwa [e] at this
  · have hge : n ≤ i := by omega
    rw [Nat.testBit_lt_two_pow (lt_of_lt_of_le x.2 (Nat.pow_le_pow_right (by decide) hge)),
        Nat.testBit_lt_two_pow (lt_of_lt_of_le y.2 (Nat.pow_le_pow_right (by decide) hge))]

/-- `Fin (2^n) ≃ BV (Fin n)`, MSB first -/
noncomputable def bvEquiv (n : Nat) : Fin (2 ^ n) ≃ BV (Fin n) :=
  Equiv.ofBijective (toBits n) ((Fintype.bijective_iff_injective_and_card _).mpr
    ⟨toBits_injective n, by simp [BV]⟩)

@[simp] theorem bvEquiv_apply (n : Nat) (x : Fin (2 ^ n)) (q : Fin n) :
    bvEquiv n x q = x.val.testBit (n - 1 - q.val) := rfl

theorem bit_bv (n : Nat) (x : BV (Fin n)) (q : Fin n) :
    ((bvEquiv n).symm x).val.testBit (n - 1 - q.val) = x q := by
  have := congrFun ((bvEquiv n).apply_symm_apply x) q
  simpa using this

/-- view an executable `2^n × 2^n` matrix as a matrix indexed by bit assignments -/
noncomputable def toBV (n : Nat) (A : Mat R) : Matrix (BV (Fin n)) (BV (Fin n)) R :=
  Matrix.reindex (bvEquiv n) (bvEquiv n) (Mat.toM (2 ^ n) (2 ^ n) A)

theorem toBV_apply (n : Nat) (A : Mat R) (x y : BV (Fin n)) :
    toBV n A x y = A.get ((bvEquiv n).symm x).val ((bvEquiv n).symm y).val := rfl

/-- the partition of the register into the named qubits (in the listed order) and the others -/
def sigmaOf (qs : List Nat) (n : Nat) (hd : qs.Nodup) (hlt : ∀ q ∈ qs, q < n) :
    Fin qs.length ⊕ {q : Fin n // q.val ∉ qs} ≃ Fin n where
  toFun := fun s => match s with
    | Sum.inl j => ⟨qs[j.val], hlt _ (List.getElem_mem _)⟩
    | Sum.inr m => m.val
  invFun := fun q =>
    if h : q.val ∈ qs then Sum.inl ⟨qs.idxOf q.val, List.idxOf_lt_length_iff.mpr h⟩ else Sum.inr ⟨q, h⟩
  left_inv := by
    intro s
    cases s with
    | inl j =>
      have hm : qs[j.val] ∈ qs := List.getElem_mem _
      simp only [hm, dite_true]
      congr 1
      apply Fin.ext
      exact hd.idxOf_getElem j.val j.2
    | inr m =>
      have := m.2
      simp only [this, dite_false]
  right_inv := by
    intro q
    by_cases h : q.val ∈ qs
    · simp only [h, dite_true]
      apply Fin.ext
      exact List.getElem_idxOf _
    · simp only [h, dite_false]

@[simp] theorem sigmaOf_inl (qs : List Nat) (n : Nat) (hd : qs.Nodup) (hlt : ∀ q ∈ qs, q < n) (j : Fin qs.length) :
    (sigmaOf qs n hd hlt (Sum.inl j)).val = qs[j.val] := rfl

@[simp] theorem sigmaOf_inr (qs : List Nat) (n : Nat) (hd : qs.Nodup) (hlt : ∀ q ∈ qs, q < n)
    (m : {q : Fin n // q.val ∉ qs}) : sigmaOf qs n hd hlt (Sum.inr m) = m.val := rfl

theorem testBit_bitsToIndex (l : List Nat) (h : ∀ b ∈ l, b < 2) (j : Nat) (hj : j < l.length) :
    (bitsToIndex l).testBit (l.length - 1 - j) = decide (l[j] = 1) := by
  induction l generalizing j with
  | nil => simp at hj
  | cons x xs ih =>
    have hx : x < 2 := h x (by simp)
    have hlt := bitsToIndex_lt xs (fun b hb => h b (by simp [hb]))
    rw [bitsToIndex_cons, Nat.mul_comm, Nat.testBit_two_pow_mul_add _ hlt]
    cases j with
    | zero =>
      simp only [List.length_cons, Nat.add_sub_cancel, Nat.sub_zero, lt_irrefl, if_false, Nat.sub_self,
        List.getElem_cons_zero]
      have : x = 0 ∨ x = 1 := by omega
      rcases this with rfl | rfl <;> simp
    | succ j =>
      have hj' : j < xs.length := by simpa using hj
      have e : (x :: xs).length - 1 - (j + 1) = xs.length - 1 - j := by simp; omega
      rw [e, if_pos (by omega), ih (fun b hb => h b (by simp [hb])) j hj']
      simp

theorem sub_testBit (n : Nat) (qs : List Nat) (x : Nat) (j : Nat) (hj : j < qs.length) :
    (sub n qs x).testBit (qs.length - 1 - j) = x.testBit (n - 1 - qs[j]) := by
  unfold sub
  have := testBit_bitsToIndex (qs.map (fun q => bit n q x)) (by
    intro b hb; simp only [List.mem_map] at hb; obtain ⟨q, _, rfl⟩ := hb; exact bit_lt _ _ _) j (by simpa using hj)
  simp only [List.length_map, List.getElem_map] at this
  rw [this, bit_eq_testBit]
  cases x.testBit (n - 1 - qs[j]) <;> simp

/-- (ii) the executable embedding IS the specification `lift` -/
theorem liftMatrix_eq_lift (m : Mat R) (qs : List Nat) (n : Nat)
    (hne : qs ≠ []) (hd : qs.Nodup) (hlt : ∀ q ∈ qs, q < n)
    (hmr : m.r = 2 ^ qs.length) (hmc : m.c = 2 ^ qs.length) :
    ∃ L, liftMatrix m qs n = some L ∧ L.r = 2 ^ n ∧ L.c = 2 ^ n ∧
      toBV n L = Spec.lift (sigmaOf qs n hd hlt) (toBV qs.length m) := by
  obtain ⟨L, hL, hr, hc, hget⟩ := liftMatrix_get m qs n hne hd hlt hmr hmc
  refine ⟨L, hL, hr, hc, ?_⟩
  ext x y
  rw [Spec.lift_apply, toBV_apply, hget _ _ (Fin.isLt _) (Fin.isLt _), toBV_apply]
  have hcond : (∀ q, q < n → q ∉ qs →
      bit n q ((bvEquiv n).symm x).val = bit n q ((bvEquiv n).symm y).val) ↔
      (∀ mm : {q : Fin n // q.val ∉ qs}, x (sigmaOf qs n hd hlt (Sum.inr mm)) = y (sigmaOf qs n hd hlt (Sum.inr mm))) := by
    constructor
    · intro h mm
      have := h mm.val.val mm.val.2 mm.2
      rw [bit_eq_iff, bit_bv n x mm.val, bit_bv n y mm.val] at this
      simpa using this
    · intro h q hq hqq
      have := h ⟨⟨q, hq⟩, hqq⟩
      rw [bit_eq_iff]
      have e1 := bit_bv n x ⟨q, hq⟩
      have e2 := bit_bv n y ⟨q, hq⟩
      simp only at e1 e2
      rw [e1, e2]
      simpa using this
  have hsub : ∀ z : BV (Fin n), ((bvEquiv qs.length).symm (fun k => z (sigmaOf qs n hd hlt (Sum.inl k)))).val
      = sub n qs ((bvEquiv n).symm z).val := by
    intro z
    have : (bvEquiv qs.length).symm (fun k => z (sigmaOf qs n hd hlt (Sum.inl k)))
        = ⟨sub n qs ((bvEquiv n).symm z).val, sub_lt _ _ _⟩ := by
      rw [Equiv.symm_apply_eq]
      funext k
      rw [bvEquiv_apply]
      simp only
      rw [sub_testBit n qs _ k.val k.2]
      have := bit_bv n z (sigmaOf qs n hd hlt (Sum.inl k))
      rw [sigmaOf_inl] at this
      exact this.symm
    rw [this]
  rw [hsub x, hsub y]
  by_cases c : (∀ q, q < n → q ∉ qs → bit n q ((bvEquiv n).symm x).val = bit n q ((bvEquiv n).symm y).val)
  · rw [if_pos c, if_pos (hcond.mp c)]
  · rw [if_neg c, if_neg (fun h => c (hcond.mpr h))]

end OQ.C01
