/- C09 helper lemmas, part 2: the Kronecker chain of `get_sparse_operator` and its COO assembly. -/
import OQ.Lemmas.C09_Entries
import Mathlib.Data.List.Perm.Basic
import Mathlib.Data.List.Nodup

set_option linter.unusedSectionVars false
namespace OQ.C09
open OQ OQ.Pauli

variable {R : Type} [CommRing R]

/-- `PauliTerm._ops` is a dict: the qubit indices of a term are distinct -/
def TermWF (t : Term R) : Prop := (t.ops.map Prod.fst).Nodup

/-! ### `opAt` -/

theorem opAt_of_mem (ops : List (Nat × P)) (c : R) (hnd : (ops.map Prod.fst).Nodup) (q : Nat) (p : P)
    (h : (q, p) ∈ ops) : Term.opAt (⟨ops, c⟩ : Term R) q = some p := by
  induction ops with
  | nil => cases h
  | cons x rest ih =>
    simp only [List.map_cons, List.nodup_cons] at hnd
    simp only [Term.opAt, List.find?_cons]
    rcases List.mem_cons.1 h with h | h
    · subst h; simp
    · have hne : x.1 ≠ q := by
        intro he; apply hnd.1; rw [he]; exact List.mem_map.2 ⟨(q, p), h, rfl⟩
      have : (x.1 == q) = false := by simpa using hne
      rw [this]
      exact ih hnd.2 h

theorem opAt_none (ops : List (Nat × P)) (c : R) (q : Nat) (h : ∀ x ∈ ops, x.1 ≠ q) :
    Term.opAt (⟨ops, c⟩ : Term R) q = none := by
  simp only [Term.opAt, Option.map_eq_none_iff, List.find?_eq_none]
  intro x hx; simpa using h x hx

theorem opAt_some_mem (ops : List (Nat × P)) (c : R) (q : Nat) (p : P)
    (h : Term.opAt (⟨ops, c⟩ : Term R) q = some p) : (q, p) ∈ ops := by
  simp only [Term.opAt, Option.map_eq_some_iff] at h
  obtain ⟨x, hx, rfl⟩ := h
  have hm := List.mem_of_find?_eq_some hx
  have hq := List.find?_some hx
  have : x.1 = q := by simpa using hq
  subst this; exact hm

/-! ### sorted operations -/

theorem sortedOps_perm (ops : List (Nat × P)) : (sortedOps ops).Perm ops := List.mergeSort_perm _ _

theorem sortedOps_pairwise (ops : List (Nat × P)) (hnd : (ops.map Prod.fst).Nodup) :
    (sortedOps ops).Pairwise (fun a b => a.1 < b.1) := by
  have h1 : (sortedOps ops).Pairwise (fun a b => decide (a.1 ≤ b.1) = true) :=
    List.pairwise_mergeSort (le := fun a b : Nat × P => decide (a.1 ≤ b.1))
      (fun a b c h1 h2 => by simp only [decide_eq_true_eq] at *; omega)
      (fun a b => by simp only [Bool.or_eq_true, decide_eq_true_eq]; omega) ops
  have h2 : ((sortedOps ops).map Prod.fst).Nodup :=
    ((sortedOps_perm ops).map Prod.fst).nodup_iff.2 hnd
  have h3 : (sortedOps ops).Pairwise (fun a b => a.1 ≠ b.1) := List.pairwise_map.1 h2
  exact (h1.and h3).imp (fun ⟨ha, hb⟩ => by simp only [decide_eq_true_eq] at ha; omega)

/-! ### the Kronecker chain -/

theorem kroneckerOperators_append (l : List (Mat R)) (hl : l ≠ []) (x : Mat R) :
    kroneckerOperators (l ++ [x]) = (kroneckerOperators l).kron x := by
  cases l with
  | nil => exact absurd rfl hl
  | cons a l => simp [kroneckerOperators, List.foldl_append]

/-- the chain built so far is `c · σ_{at 0} ⊗ … ⊗ σ_{at (tf-1)}` -/
def Good (k : Scal R) (c : R) (at_ : Nat → Option P) (tf : Nat) (l : List (Mat R)) : Prop :=
  l ≠ [] ∧ (kroneckerOperators l).r = 2 ^ tf ∧ (kroneckerOperators l).c = 2 ^ tf ∧
  ∀ i j, i < 2 ^ tf → j < 2 ^ tf → (kroneckerOperators l).get i j = c * strEntry k at_ tf i j

theorem identity_get (d a b : Nat) (ha : a < d) (hb : b < d) :
    (Mat.identity (R := R) d).get a b = if a = b then 1 else 0 := by
  unfold Mat.identity; rw [Mat.get_ofFn _ _ _ _ _ ha hb]

theorem good_identity (k : Scal R) (c : R) (at_ : Nat → Option P) (tf g : Nat) (l : List (Mat R))
    (h : Good k c at_ tf l) (hnone : ∀ q, tf ≤ q → q < tf + g → at_ q = none) :
    Good k c at_ (tf + g) (l ++ [Mat.identity (2 ^ g)]) := by
  obtain ⟨hne, hr, hc, he⟩ := h
  have hpos : 0 < 2 ^ g := Nat.pos_of_ne_zero (by positivity)
  refine ⟨by simp, ?_, ?_, ?_⟩
  · rw [kroneckerOperators_append _ hne, kron_r, hr, pow_add]; rfl
  · rw [kroneckerOperators_append _ hne, kron_c, hc, pow_add]; rfl
  · intro i j hi hj
    rw [kroneckerOperators_append _ hne]
    have hIr : (Mat.identity (R := R) (2 ^ g)).r = 2 ^ g := rfl
    have hIc : (Mat.identity (R := R) (2 ^ g)).c = 2 ^ g := rfl
    rw [Mat.kron_get _ _ _ _ (by rw [hr, hIr, ← pow_add]; exact hi) (by rw [hc, hIc, ← pow_add]; exact hj)]
    rw [hIr, hIc]
    have hi2 : i / 2 ^ g < 2 ^ tf := by
      rw [Nat.div_lt_iff_lt_mul hpos, ← pow_add]; exact hi
    have hj2 : j / 2 ^ g < 2 ^ tf := by
      rw [Nat.div_lt_iff_lt_mul hpos, ← pow_add]; exact hj
    rw [he _ _ hi2 hj2, identity_get _ _ _ (Nat.mod_lt _ hpos) (Nat.mod_lt _ hpos),
      strEntry_pad k at_ tf g hnone]
    ring

theorem good_pauli (k : Scal R) (c : R) (at_ : Nat → Option P) (tf : Nat) (p : P) (l : List (Mat R))
    (h : Good k c at_ tf l) (hat : at_ tf = some p) :
    Good k c at_ (tf + 1) (l ++ [pauliMat k (some p)]) := by
  obtain ⟨hne, hr, hc, he⟩ := h
  refine ⟨by simp, ?_, ?_, ?_⟩
  · rw [kroneckerOperators_append _ hne, kron_r, hr, pauliMat_r, pow_succ]
  · rw [kroneckerOperators_append _ hne, kron_c, hc, pauliMat_c, pow_succ]
  · intro i j hi hj
    rw [kroneckerOperators_append _ hne]
    rw [Mat.kron_get _ _ _ _ (by rw [hr, pauliMat_r, ← pow_succ]; exact hi)
      (by rw [hc, pauliMat_c, ← pow_succ]; exact hj)]
    rw [pauliMat_r, pauliMat_c]
    have hi2 : i / 2 < 2 ^ tf := by rw [pow_succ] at hi; omega
    have hj2 : j / 2 < 2 ^ tf := by rw [pow_succ] at hj; omega
    rw [he _ _ hi2 hj2, pauliMat_get _ _ _ _ (Nat.mod_lt _ (by decide)) (Nat.mod_lt _ (by decide))]
    simp only [strEntry, hat]
    ring

theorem opsFold_spec (k : Scal R) (c : R) (at_ : Nat → Option P) (n : Nat) (L : List (Nat × P)) :
    ∀ (l : List (Mat R)) (tf : Nat), Good k c at_ tf l →
    (∀ x ∈ L, at_ x.1 = some x.2) →
    (∀ q, tf ≤ q → (∀ x ∈ L, x.1 ≠ q) → at_ q = none) →
    L.Pairwise (fun a b => a.1 < b.1) →
    (∀ x ∈ L, tf ≤ x.1) → (∀ x ∈ L, x.1 < n) → tf ≤ n →
    let st := L.foldl (opsStep k) (l, tf)
    Good k c at_ st.2 st.1 ∧ (∀ q, st.2 ≤ q → at_ q = none) ∧ st.2 ≤ n := by
  induction L with
  | nil =>
    intro l tf hg _ h2 _ _ _ hn
    exact ⟨hg, fun q hq => h2 q hq (by simp), hn⟩
  | cons x L ih =>
    intro l tf hg h1 h2 h3 h4 h5 hn
    obtain ⟨q, p⟩ := x
    simp only [List.foldl_cons]
    have hq : tf ≤ q := h4 (q, p) (by simp)
    have hp := List.pairwise_cons.1 h3
    have hat : at_ q = some p := h1 (q, p) (by simp)
    -- the identity block for the skipped qubits
    have hg1 : Good k c at_ q (if q > tf then l ++ [Mat.identity (2 ^ (q - tf))] else l) := by
      by_cases hgt : q > tf
      · simp only [hgt, if_true]
        have := good_identity k c at_ tf (q - tf) l hg (by
          intro q' hq1 hq2
          apply h2 q' hq1
          intro y hy
          rcases List.mem_cons.1 hy with rfl | hy
          · simp only; omega
          · have := hp.1 y hy; simp only at this; omega)
        rwa [show tf + (q - tf) = q by omega] at this
      · simp only [hgt, if_false]
        have : q = tf := by omega
        subst this; exact hg
    have hg2 := good_pauli k c at_ q p _ hg1 hat
    have := ih _ (q + 1) hg2 (fun y hy => h1 y (by simp [hy]))
      (by
        intro q' hq' hno
        apply h2 q' (by omega)
        intro y hy
        rcases List.mem_cons.1 hy with rfl | hy
        · simp only; omega
        · exact hno y hy)
      hp.2
      (fun y hy => by have := hp.1 y hy; simp only at this; omega)
      (fun y hy => h5 y (by simp [hy]))
      (by have := h5 (q, p) (by simp); simp only at this; omega)
    simpa [opsStep] using this

/-- the Kronecker chain of one term is `coeff · (σ_0 ⊗ … ⊗ σ_{n-1})` -/
theorem chain_spec (k : Scal R) (n : Nat) (t : Term R) (hwf : TermWF t) (hn : ∀ x ∈ t.ops, x.1 < n) :
    let M := kroneckerOperators (sparseOperators k n t)
    M.r = 2 ^ n ∧ M.c = 2 ^ n ∧
    ∀ i j, i < 2 ^ n → j < 2 ^ n → M.get i j = t.coeff * strEntry k t.opAt n i j := by
  obtain ⟨ops, c⟩ := t
  have hperm := sortedOps_perm ops
  have hg0 : Good k c (Term.opAt (⟨ops, c⟩ : Term R)) 0 [Mat.ofFn 1 1 (fun _ _ => c)] := by
    refine ⟨by simp, rfl, rfl, ?_⟩
    intro i j hi hj
    simp only [kroneckerOperators, List.foldl_nil]
    rw [Mat.get_ofFn _ _ _ _ _ (by simpa using hi) (by simpa using hj)]
    simp [strEntry]
  have hf := opsFold_spec k c (Term.opAt (⟨ops, c⟩ : Term R)) n (sortedOps ops) _ 0 hg0
    (fun x hx => by
      obtain ⟨q, p⟩ := x
      exact opAt_of_mem ops c hwf q p (hperm.mem_iff.1 hx))
    (fun q _ hno => opAt_none ops c q (fun x hx => hno x (hperm.mem_iff.2 hx)))
    (sortedOps_pairwise ops hwf)
    (fun _ _ => Nat.zero_le _)
    (fun x hx => hn x (hperm.mem_iff.1 hx))
    (Nat.zero_le _)
  obtain ⟨hg, hnone, hle⟩ := hf
  simp only [sparseOperators]
  split
  · -- trailing identity block
    have := good_identity k c _ _ (n - (List.foldl (opsStep k) ([Mat.ofFn 1 1 fun _ _ => c], 0) (sortedOps ops)).2) _ hg
      (fun q hq _ => hnone q hq)
    rw [Nat.add_sub_cancel' hle] at this
    exact ⟨this.2.1, this.2.2.1, this.2.2.2⟩
  · rename_i hcond
    have heq : (List.foldl (opsStep k) ([Mat.ofFn 1 1 fun _ _ => c], 0) (sortedOps ops)).2 = n := by
      have : ¬ ((List.foldl (opsStep k) ([Mat.ofFn 1 1 fun _ _ => c], 0) (sortedOps ops)).2 < n) :=
        fun h => hcond (Or.inl h)
      omega
    rw [heq] at hg
    exact ⟨hg.2.1, hg.2.2.1, hg.2.2.2⟩

/-! ### the non-zero pattern of a Pauli string: one entry per column, symmetric -/

def flipbit : Option P → Nat → Nat
  | some .X, b => 1 - b
  | some .Y, b => 1 - b
  | _, b => b

/-- row of the non-zero entry in column `j` -/
def partner (at_ : Nat → Option P) : Nat → Nat → Nat
  | 0, _ => 0
  | n + 1, j => 2 * partner at_ n (j / 2) + flipbit (at_ n) (j % 2)

theorem flipbit_lt (o : Option P) (b : Nat) (hb : b < 2) : flipbit o b < 2 := by
  rcases o with _ | p
  · exact hb
  · cases p <;> simp only [flipbit] <;> omega

theorem flipbit_invol (o : Option P) (b : Nat) (hb : b < 2) : flipbit o (flipbit o b) = b := by
  rcases o with _ | p
  · rfl
  · cases p <;> simp only [flipbit] <;> omega

theorem pe_zero (k : Scal R) (o : Option P) (a b : Nat) (ha : a < 2) (hb : b < 2) (h : a ≠ flipbit o b) :
    pe k o a b = 0 := by
  rcases o with _ | p
  · simp only [flipbit] at h; simp [pe, h]
  · cases p <;> simp only [flipbit] at h <;> simp only [pe]
    · rw [if_pos (by omega)]
    · rw [if_pos (by omega)]
    · rw [if_neg h]

theorem pe_pow4 (k : Scal R) (hi : k.i * k.i = -1) (o : Option P) (b : Nat) (hb : b < 2) :
    (pe k o (flipbit o b) b) ^ 4 = 1 := by
  have h4 : k.i ^ 4 = 1 := by
    have : k.i ^ 4 = (k.i * k.i) * (k.i * k.i) := by ring
    rw [this, hi]; ring
  rcases o with _ | p
  · simp [pe, flipbit]
  · have h5 : (-k.i) ^ 4 = 1 := by rw [neg_pow, h4]; norm_num
    have h6 : (-1 : R) ^ 4 = 1 := by norm_num
    cases p <;> interval_cases b <;> simp [pe, flipbit, h4, h5, h6]

theorem partner_lt (at_ : Nat → Option P) (n j : Nat) (hj : j < 2 ^ n) : partner at_ n j < 2 ^ n := by
  induction n generalizing j with
  | zero => simp [partner]
  | succ n ih =>
    have h1 := ih (j / 2) (by rw [pow_succ] at hj; omega)
    have h2 := flipbit_lt (at_ n) (j % 2) (Nat.mod_lt _ (by decide))
    simp only [partner, pow_succ]; omega

theorem partner_invol (at_ : Nat → Option P) (n j : Nat) (hj : j < 2 ^ n) :
    partner at_ n (partner at_ n j) = j := by
  induction n generalizing j with
  | zero => simp only [partner]; simp at hj; omega
  | succ n ih =>
    have h1 := ih (j / 2) (by rw [pow_succ] at hj; omega)
    have h2 := flipbit_lt (at_ n) (j % 2) (Nat.mod_lt _ (by decide))
    have h3 := flipbit_invol (at_ n) (j % 2) (Nat.mod_lt _ (by decide))
    simp only [partner]
    have e1 : (2 * partner at_ n (j / 2) + flipbit (at_ n) (j % 2)) / 2 = partner at_ n (j / 2) := by omega
    have e2 : (2 * partner at_ n (j / 2) + flipbit (at_ n) (j % 2)) % 2 = flipbit (at_ n) (j % 2) := by omega
    rw [e1, e2, h1, h3]; omega

theorem strEntry_zero (k : Scal R) (at_ : Nat → Option P) (n i j : Nat) (hi : i < 2 ^ n) (hj : j < 2 ^ n)
    (h : i ≠ partner at_ n j) : strEntry k at_ n i j = 0 := by
  induction n generalizing i j with
  | zero => exfalso; apply h; simp only [partner]; simpa using hi
  | succ n ih =>
    simp only [strEntry]
    simp only [partner] at h
    have hfl := flipbit_lt (at_ n) (j % 2) (Nat.mod_lt _ (by decide))
    by_cases h1 : i / 2 = partner at_ n (j / 2)
    · have h2 : i % 2 ≠ flipbit (at_ n) (j % 2) := by omega
      rw [pe_zero k _ _ _ (Nat.mod_lt _ (by decide)) (Nat.mod_lt _ (by decide)) h2, mul_zero]
    · rw [ih (i / 2) (j / 2) (by rw [pow_succ] at hi; omega) (by rw [pow_succ] at hj; omega) h1, zero_mul]

theorem strEntry_pow4 (k : Scal R) (hi : k.i * k.i = -1) (at_ : Nat → Option P) (n j : Nat) (hj : j < 2 ^ n) :
    (strEntry k at_ n (partner at_ n j) j) ^ 4 = 1 := by
  induction n generalizing j with
  | zero => simp [strEntry]
  | succ n ih =>
    have hfl := flipbit_lt (at_ n) (j % 2) (Nat.mod_lt _ (by decide))
    simp only [strEntry, partner]
    have e1 : (2 * partner at_ n (j / 2) + flipbit (at_ n) (j % 2)) / 2 = partner at_ n (j / 2) := by omega
    have e2 : (2 * partner at_ n (j / 2) + flipbit (at_ n) (j % 2)) % 2 = flipbit (at_ n) (j % 2) := by omega
    rw [e1, e2, mul_pow, ih (j / 2) (by rw [pow_succ] at hj; omega),
      pe_pow4 k hi _ _ (Nat.mod_lt _ (by decide)), mul_one]

theorem foldl_max_le {α : Type} (f : α → Nat) (l : List α) (a n : Nat) :
    l.foldl (fun acc x => max acc (f x)) a ≤ n ↔ a ≤ n ∧ ∀ x ∈ l, f x ≤ n := by
  induction l generalizing a with
  | nil => simp
  | cons x l ih =>
    simp only [List.foldl_cons, ih, List.mem_cons, forall_eq_or_imp]
    constructor
    · rintro ⟨h1, h2⟩; exact ⟨by omega, by omega, h2⟩
    · rintro ⟨h1, h2, h3⟩; exact ⟨by omega, h3⟩

theorem term_nQubits_le (t : Term R) (n : Nat) : t.nQubits ≤ n ↔ ∀ x ∈ t.ops, x.1 < n := by
  unfold Term.nQubits
  rw [foldl_max_le (fun p : Nat × P => p.1 + 1)]
  simp only [Nat.zero_le, true_and]
  constructor <;> intro h x hx <;> have := h x hx <;> omega

theorem sum_nQubits_le (s : PSum R) (n : Nat) : PSum.nQubits s ≤ n ↔ ∀ t ∈ s, ∀ x ∈ t.ops, x.1 < n := by
  unfold PSum.nQubits
  rw [foldl_max_le (fun t : Term R => t.nQubits)]
  simp only [Nat.zero_le, true_and, term_nQubits_le]

/-- every term of the sum is well formed (distinct qubit indices) -/
def SumWF (s : PSum R) : Prop := ∀ t ∈ s, TermWF t

variable {R : Type} [CommRing R] [DecidableEq R]

/-! ### COO assembly -/

theorem filterMap_range_none {α : Type} (d : Nat) (f : Nat → Option α) (h : ∀ i, i < d → f i = none) :
    (List.range d).filterMap f = [] := by
  rw [List.filterMap_eq_nil_iff]; intro a ha; exact h a (List.mem_range.1 ha)

theorem filterMap_range_single {α : Type} (d m : Nat) (f : Nat → Option α) (a : α) (hm : m < d)
    (hfm : f m = some a) (h : ∀ i, i < d → i ≠ m → f i = none) :
    (List.range d).filterMap f = [a] := by
  induction d with
  | zero => omega
  | succ d ih =>
    rw [List.range_succ, List.filterMap_append]
    by_cases hmd : m = d
    · subst hmd
      rw [filterMap_range_none m f (fun i hi => h i (by omega) (by omega))]
      simp [hfm]
    · rw [ih (by omega) (fun i hi hne => h i (by omega) hne)]
      simp [h d (by omega) (by omega)]

theorem flatMap_range_singleton {α : Type} (d : Nat) (F : Nat → List α) (g : Nat → α)
    (h : ∀ j, j < d → F j = [g j]) : (List.range d).flatMap F = (List.range d).map g := by
  induction d with
  | zero => rfl
  | succ d ih =>
    rw [List.range_succ, List.flatMap_append, List.map_append, ih (fun j hj => h j (by omega))]
    simp [h d (by omega)]

theorem flatMap_range_nil {α : Type} (d : Nat) (F : Nat → List α)
    (h : ∀ j, j < d → F j = []) : (List.range d).flatMap F = [] := by
  rw [List.flatMap_eq_nil_iff]; intro j hj; exact h j (List.mem_range.1 hj)

/-- what `coo_matrix` puts at position `(i, j)` -/
def tsum (ts : List (Triplet R)) (i j : Nat) : R :=
  ts.foldl (fun acc t => if t.row = i ∧ t.col = j then acc + t.val else acc) 0

theorem tsum_foldl (ts : List (Triplet R)) (i j : Nat) (a : R) :
    ts.foldl (fun acc t => if t.row = i ∧ t.col = j then acc + t.val else acc) a
      = a + (ts.map (fun t => if t.row = i ∧ t.col = j then t.val else 0)).sum := by
  induction ts generalizing a with
  | nil => simp
  | cons t ts ih =>
    simp only [List.foldl_cons, List.map_cons, List.sum_cons]
    rw [ih]
    split <;> ring

theorem tsum_eq_sum (ts : List (Triplet R)) (i j : Nat) :
    tsum ts i j = (ts.map (fun t => if t.row = i ∧ t.col = j then t.val else 0)).sum := by
  unfold tsum; rw [tsum_foldl, zero_add]

theorem tsum_append (a b : List (Triplet R)) (i j : Nat) : tsum (a ++ b) i j = tsum a i j + tsum b i j := by
  simp [tsum_eq_sum]

theorem tsum_flatMap {α : Type} (s : List α) (f : α → List (Triplet R)) (i j : Nat) :
    tsum (s.flatMap f) i j = (s.map (fun t => tsum (f t) i j)).sum := by
  induction s with
  | nil => simp [tsum]
  | cons t s ih => rw [List.flatMap_cons, tsum_append, ih]; simp

theorem sum_range_single (d j : Nat) (hj : j < d) (v : Nat → R) :
    ((List.range d).map (fun k => if k = j then v k else 0)).sum = v j := by
  induction d with
  | zero => omega
  | succ d ih =>
    rw [List.range_succ, List.map_append, List.sum_append]
    by_cases hjd : j = d
    · subst hjd
      have : ((List.range j).map (fun k => if k = j then v k else 0)) = (List.range j).map (fun _ => (0 : R)) := by
        apply List.map_congr_left; intro k hk
        have := List.mem_range.1 hk
        rw [if_neg (by omega)]
      rw [this]; simp
    · rw [ih (by omega)]; simp [Ne.symm hjd]

theorem zipWith_map_same {α β γ δ : Type} (f : β → γ → δ) (g : α → β) (h : α → γ) (l : List α) :
    List.zipWith f (l.map g) (l.map h) = l.map (fun x => f (g x) (h x)) := by
  induction l with
  | nil => rfl
  | cons a l ih => simp [ih]

/-- A `d × d` matrix whose non-zero pattern is one entry per column, at row `σ j`, with `σ` an
    involution: pairing the column-major values with the swapped row-major positions rebuilds it. -/
theorem coo_pattern (M : Mat R) (d : Nat) (hr : M.r = d) (hc : M.c = d) (σ : Nat → Nat)
    (hσ : ∀ j, j < d → σ j < d) (hinv : ∀ j, j < d → σ (σ j) = j)
    (hpat : ∀ i j, i < d → j < d → (M.get i j ≠ 0 ↔ i = σ j)) (i j : Nat) (hi : i < d) (hj : j < d) :
    tsum (List.zipWith (fun v (p : Nat × Nat) => (⟨p.2, p.1, v⟩ : Triplet R)) (colMajorData M) (rowMajorNonzero M)) i j
      = M.get i j := by
  have hcol : colMajorData M = (List.range d).map (fun j => M.get (σ j) j) := by
    unfold colMajorData; rw [hr, hc]
    apply flatMap_range_singleton
    intro j hj
    apply filterMap_range_single d (σ j) _ _ (hσ j hj)
    · rw [if_neg ((hpat _ _ (hσ j hj) hj).2 rfl)]
    · intro i hi hne
      rw [if_pos]; by_contra h; exact hne ((hpat i j hi hj).1 h)
  have hrow : rowMajorNonzero M = (List.range d).map (fun i => (i, σ i)) := by
    unfold rowMajorNonzero; rw [hr, hc]
    apply flatMap_range_singleton
    intro i hi
    apply filterMap_range_single d (σ i) _ _ (hσ i hi)
    · rw [if_neg]; apply (hpat _ _ hi (hσ i hi)).2; exact (hinv i hi).symm
    · intro j hj hne
      rw [if_pos]; by_contra h
      have := (hpat i j hi hj).1 h
      apply hne; rw [this, hinv j hj]
  rw [hcol, hrow, zipWith_map_same, tsum_eq_sum, List.map_map]
  have : ((fun t : Triplet R => if t.row = i ∧ t.col = j then t.val else 0) ∘
      (fun x => (⟨(x, σ x).2, (x, σ x).1, M.get (σ x) x⟩ : Triplet R)))
      = (fun k => if k = j then (if σ j = i then M.get (σ j) j else 0) else 0) := by
    funext k
    simp only [Function.comp]
    by_cases hk : k = j
    · subst hk; by_cases h2 : σ k = i <;> simp [h2]
    · simp [hk]
  rw [this, sum_range_single d j hj]
  by_cases h : σ j = i
  · rw [if_pos h, h]
  · rw [if_neg h]
    by_contra hne
    exact h ((hpat i j hi hj).1 (Ne.symm hne)).symm

theorem coo_zero (M : Mat R) (hz : ∀ i j, i < M.r → j < M.c → M.get i j = 0) (i j : Nat) :
    tsum (List.zipWith (fun v (p : Nat × Nat) => (⟨p.2, p.1, v⟩ : Triplet R)) (colMajorData M) (rowMajorNonzero M)) i j
      = 0 := by
  have hcol : colMajorData M = [] := by
    unfold colMajorData
    apply flatMap_range_nil; intro j hj
    apply filterMap_range_none; intro i hi
    rw [if_pos (hz i j hi hj)]
  rw [hcol]; rfl

/-- the triplets of one term, assembled, give back `coeff · string` -/
theorem termTriplets_spec (k : Scal R) (hi : k.i * k.i = -1) (n : Nat) (t : Term R) (hwf : TermWF t)
    (hn : ∀ x ∈ t.ops, x.1 < n) (i j : Nat) (hi' : i < 2 ^ n) (hj : j < 2 ^ n) :
    tsum (termTriplets k n t) i j = t.coeff * strEntry k t.opAt n i j := by
  obtain ⟨hr, hc, he⟩ := chain_spec k n t hwf hn
  unfold termTriplets
  by_cases hc0 : t.coeff = 0
  · rw [coo_zero]
    · rw [hc0, zero_mul]
    · intro a b ha hb
      rw [hr] at ha; rw [hc] at hb
      rw [he a b ha hb, hc0, zero_mul]
  · rw [coo_pattern _ (2 ^ n) hr hc (partner t.opAt n) (fun j hj => partner_lt _ _ _ hj)
      (fun j hj => partner_invol _ _ _ hj) _ i j hi' hj]
    · exact he i j hi' hj
    · intro a b ha hb
      rw [he a b ha hb]
      constructor
      · intro hne; by_contra hab
        apply hne; rw [strEntry_zero k _ n a b ha hb hab, mul_zero]
      · intro hab hz
        apply hc0
        have h4 := strEntry_pow4 k hi t.opAt n b hb
        rw [← hab] at h4
        calc t.coeff = t.coeff * (strEntry k t.opAt n a b) ^ 4 := by rw [h4, mul_one]
          _ = (t.coeff * strEntry k t.opAt n a b) * (strEntry k t.opAt n a b) ^ 3 := by ring
          _ = 0 := by rw [hz, zero_mul]

/-- `get_sparse_operator` succeeds exactly for `n ≥ width`, and then every entry is the entry of the
    tensor-product definition -/
theorem getSparseOperator_spec (k : Scal R) (hi : k.i * k.i = -1) (s : PSum R) (hwf : SumWF s) (n : Nat)
    (hn : PSum.nQubits s ≤ n) :
    ∃ M, getSparseOperator k s n = some M ∧ M.r = 2 ^ n ∧ M.c = 2 ^ n ∧
      ∀ i j, i < 2 ^ n → j < 2 ^ n → M.get i j = dEntry k n s i j := by
  have hops := (sum_nQubits_le s n).1 hn
  unfold getSparseOperator
  rw [if_neg (by omega)]
  by_cases hemp : s.isEmpty = true
  · simp only [hemp, if_true]
    refine ⟨_, rfl, rfl, rfl, ?_⟩
    intro i j hi' hj
    rw [Mat.get_ofFn _ _ _ _ _ hi' hj]
    have : s = [] := by simpa using hemp
    rw [this, dEntry_nil]
  · simp only [hemp]
    refine ⟨_, rfl, rfl, rfl, ?_⟩
    intro i j hi' hj
    unfold cooToDense
    rw [Mat.get_ofFn _ _ _ _ _ hi' hj]
    change tsum (s.flatMap (termTriplets k n)) i j = _
    rw [tsum_flatMap, dEntry]
    congr 1
    apply List.map_congr_left
    intro t ht
    exact termTriplets_spec k hi n t (hwf t ht) (hops t ht) i j hi' hj

theorem getSparseOperator_none (k : Scal R) (s : PSum R) (n : Nat) :
    getSparseOperator k s n = none ↔ n < PSum.nQubits s := by
  unfold getSparseOperator
  by_cases h : n < PSum.nQubits s
  · simp [h]
  · simp only [h, if_false]
    split <;> simp

end OQ.C09
