import OQ.Lemmas.C01_Reject
import Mathlib.Analysis.Complex.Trigonometric
namespace OQ.C01
open OQ.Lift OQ

/-- corollary at `R = ℂ` for REAL parameters θ_k: `MultiPhaseOperation.apply` multiplies amplitude `k`
    by `exp(i·θ_k)`, a factor of modulus 1 (a phase and nothing else). -/
theorem multiPhase_real (n : Nat) (thetas : List ℝ) (h : thetas.length = 2 ^ n)
    (v : Mat ℂ) (hvr : v.r = 2 ^ n) :
    ∃ w, applyOper (.mphase (thetas.map (fun θ : ℝ => Complex.exp ((θ : ℂ) * Complex.I)))) v = some w ∧
      ∀ k (hk : k < thetas.length),
        w.get k 0 = v.get k 0 * Complex.exp (thetas[k] * Complex.I) ∧
        ‖Complex.exp (thetas[k] * Complex.I)‖ = 1 := by
  refine ⟨Mat.ofFn v.r 1 (fun i _ => v.get i 0 *
    (thetas.map (fun θ : ℝ => Complex.exp ((θ : ℂ) * Complex.I))).getD i 0), ?_, ?_⟩
  · simp only [applyOper, hvr, List.length_map, h, ne_eq, not_true_eq_false, if_false]
  · intro k hk
    refine ⟨?_, Complex.norm_exp_ofReal_mul_I _⟩
    rw [Mat.get_ofFn _ _ _ _ _ (by rw [hvr, ← h]; exact hk) (by decide)]
    congr 1
    rw [List.getD_eq_getElem?_getD, List.getElem?_map, List.getElem?_eq_getElem hk]
    rfl
end OQ.C01
