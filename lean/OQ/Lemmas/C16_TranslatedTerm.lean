/- C16 — helper lemmas of the translation tie `OQ/Props/C16_TranslatedTerm.lean` (not property theorems): `sorted` on Python ints
   against the model's `sortNat`; the loop of `time_evolution_for_term` (basis change, conditionally assigned central gate, CNOT ladder
   with the checked look-ahead `qubit_indices[i + 1]`) as a generic fold. -/
import OQ.Model.C16
import OQ.Exec.Py
namespace OQ.C16
open OQ.Pauli

theorem insertInt_map (a : Nat) (l : List Nat) :
    OQ.Py.insertInt (a : Int) (l.map Int.ofNat) = (insertNat a l).map Int.ofNat := by
  induction l with
  | nil => rfl
  | cons b l ih =>
    simp only [List.map_cons, OQ.Py.insertInt, insertNat, Int.ofNat_eq_natCast, Int.ofNat_le]
    by_cases h : a ≤ b
    · simp [h]
    · simp only [h, if_false, List.map_cons]
      rw [← ih]; rfl

/-- `sorted(...)` of the translated code (Python ints) is the model's `sortNat` -/
theorem sortedInts_map (l : List Nat) : OQ.Py.sortedInts (l.map Int.ofNat) = (sortNat l).map Int.ofNat := by
  induction l with
  | nil => rfl
  | cons a l ih =>
    simp only [List.map_cons, OQ.Py.sortedInts, sortNat, ih]
    exact insertInt_map a _

theorem insertNat_length (a : Nat) (l : List Nat) : (insertNat a l).length = l.length + 1 := by
  induction l with
  | nil => rfl
  | cons b l ih =>
    simp only [insertNat]
    by_cases h : a ≤ b <;> simp [h, ih]

theorem sortNat_length (l : List Nat) : (sortNat l).length = l.length := by
  induction l with
  | nil => rfl
  | cons a l ih => simp only [sortNat, insertNat_length, ih, List.length_cons]

/-- `qubit_indices[i + 1]` inside the list: the element after position `pre.length` -/
theorem indexE_next (pre : List Nat) (q q' : Nat) (rest : List Nat) :
    (OQ.Py.indexE ((pre ++ q :: q' :: rest).map Int.ofNat) ((pre.length : Int) + 1)).toOption = some (q' : Int) := by
  unfold OQ.Py.indexE
  have h0 : (0 : Int) ≤ (pre.length : Int) + 1 := by omega
  have h1 : ((pre.length : Int) + 1).toNat = pre.length + 1 := by omega
  simp only [h0, if_true, h1, List.getElem?_map]
  have : (pre ++ q :: q' :: rest)[pre.length + 1]? = some q' := by
    rw [List.getElem?_append_right (by omega)]
    simp
  rw [this]
  rfl

section loop
variable {T : Type}

/-- the state of the loop: (basis_change, central_gate – possibly unbound –, cnot_gates) -/
abbrev LoopState (T : Type) := Circ T × Option (GOp T) × Circ T

/-- THE LOOP of `time_evolution_for_term`, for any body `F` that behaves as the Python body does on the pair (index, qubit):
    at the last index (`i == n - 1`) the central gate is assigned, at every other index a CNOT to the NEXT qubit (read with a checked
    subscript) is appended; the basis change `bc q` is appended in both cases.  Over the qubits `suf` from position `pre.length` on,
    the loop appends the basis changes and the CNOT ladder of `suf`, and binds the central gate to the last qubit. -/
theorem loop_spec (F : LoopState T → Int × Int → Option (LoopState T)) (bc : Nat → Circ T) (cz : Nat → GOp T) (all : List Nat)
    (hF : ∀ (b : Circ T) (c : Option (GOp T)) (cn : Circ T) (i q : Nat),
      F (b, c, cn) ((i : Int), (q : Int)) =
        if i + 1 = all.length then some (b ++ bc q, some (cz q), cn)
        else (OQ.Py.indexE (all.map Int.ofNat) ((i : Int) + 1)).toOption.bind
          (fun r => some (b ++ bc q, c, cn ++ [⟨.CNOT, [q, r.toNat]⟩])))
    (pre suf : List Nat) (hall : pre ++ suf = all) (b : Circ T) (c : Option (GOp T)) (cn : Circ T) :
    OQ.Py.foldlOpt F (b, c, cn) (((suf.map Int.ofNat).zipIdx pre.length).map (fun p => (((p.2 : Nat) : Int), p.1)))
      = some (b ++ suf.flatMap bc, (match suf.getLast? with | none => c | some l => some (cz l)), cn ++ ladder suf) := by
  induction suf generalizing pre b c cn with
  | nil => simp [OQ.Py.foldlOpt, ladder]
  | cons q suf ih =>
    simp only [List.map_cons, List.zipIdx_cons, OQ.Py.foldlOpt, Int.ofNat_eq_natCast]
    rw [hF]
    cases suf with
    | nil =>
      have hl : pre.length + 1 = all.length := by rw [← hall]; simp
      simp [hl, OQ.Py.foldlOpt, ladder]
    | cons q' rest =>
      have hl : ¬ (pre.length + 1 = all.length) := by rw [← hall]; simp
      simp only [hl, if_false]
      rw [← hall, indexE_next]
      simp only [Option.bind_some, Int.toNat_natCast]
      have := ih (pre ++ [q]) (by rw [← hall]; simp) (b ++ bc q) c (cn ++ [⟨.CNOT, [q, q']⟩])
      simp only [List.length_append, List.length_singleton] at this
      rw [this]
      simp [ladder, List.getLast?_cons_cons]

/-- the whole loop, from the initial state (`Circuit()`, unbound, `Circuit()`) -/
theorem loop_spec_all (F : LoopState T → Int × Int → Option (LoopState T)) (bc : Nat → Circ T) (cz : Nat → GOp T) (all : List Nat)
    (hF : ∀ (b : Circ T) (c : Option (GOp T)) (cn : Circ T) (i q : Nat),
      F (b, c, cn) ((i : Int), (q : Int)) =
        if i + 1 = all.length then some (b ++ bc q, some (cz q), cn)
        else (OQ.Py.indexE (all.map Int.ofNat) ((i : Int) + 1)).toOption.bind
          (fun r => some (b ++ bc q, c, cn ++ [⟨.CNOT, [q, r.toNat]⟩]))) :
    OQ.Py.foldlOpt F ([], none, []) (((all.map Int.ofNat).zipIdx).map (fun p => (((p.2 : Nat) : Int), p.1)))
      = some (all.flatMap bc, (match all.getLast? with | none => none | some l => some (cz l)), ladder all) := by
  have := loop_spec F bc cz all hF [] all rfl [] none []
  simpa using this

end loop

section bc
variable {Q T : Type} [One Q] [Div Q] [NatCast Q]

/-- the basis-change operations of one qubit -/
def basisOps (alg : TimeAlg Q T) (t : Term (Q × Q)) (q : Nat) : Circ T :=
  match t.opAt q with
  | some .X => [⟨.H, [q]⟩]
  | some .Y => [⟨.RX (alg.smul (1 / ((2 : Nat) : Q)) alg.pi), [q]⟩]
  | _ => []

theorem basisChange_flatMap (alg : TimeAlg Q T) (t : Term (Q × Q)) (qs : List Nat) :
    basisChange alg t qs = qs.flatMap (basisOps alg t) := by
  induction qs with
  | nil => rfl
  | cons q qs ih =>
    simp only [basisChange, List.flatMap_cons, basisOps]
    cases h : t.opAt q with
    | none => simp [ih]
    | some p => cases p <;> simp [ih]

end bc

end OQ.C16
