/- C08 — helper lemma of the translation tie `OQ/Props/C08_TranslatedBuilders.lean` (not a property theorem):
   an iteration order of a set of non-negative Python ints, read as a list of naturals. -/
import OQ.Lemmas.C08
namespace OQ.C08

/-- a duplicate-free enumeration `L` (Python ints) of the elements of `qs` (naturals) is the image of a duplicate-free
    enumeration of `qs` by naturals -/
theorem setOrder_nat (L : List Int) (qs : List Nat) (hnd : L.Nodup) (hmem : ∀ q, q ∈ L ↔ q ∈ qs.map Int.ofNat) :
    L = (L.map Int.toNat).map Int.ofNat ∧ (L.map Int.toNat).Nodup ∧ (∀ q, q ∈ L.map Int.toNat ↔ q ∈ qs) := by
  have hnn : ∀ z ∈ L, 0 ≤ z := by
    intro z hz
    obtain ⟨n, _, rfl⟩ := List.mem_map.mp ((hmem z).mp hz)
    exact Int.natCast_nonneg n
  refine ⟨?_, ?_, ?_⟩
  · rw [List.map_map]
    conv_lhs => rw [← List.map_id L]
    apply List.map_congr_left
    intro z hz
    simp only [id, Function.comp, Int.ofNat_eq_natCast]
    exact (Int.toNat_of_nonneg (hnn z hz)).symm
  · refine (List.nodup_map_iff_inj_on hnd).mpr ?_
    intro a ha b hb hab
    have := hnn a ha; have := hnn b hb
    omega
  · intro q
    constructor
    · intro hq
      obtain ⟨z, hz, rfl⟩ := List.mem_map.mp hq
      obtain ⟨n, hn, rfl⟩ := List.mem_map.mp ((hmem z).mp hz)
      simpa using hn
    · intro hq
      have : (Int.ofNat q) ∈ L := (hmem _).mpr (List.mem_map.mpr ⟨q, hq, rfl⟩)
      exact List.mem_map.mpr ⟨Int.ofNat q, this, by simp⟩

end OQ.C08
