import OQ.Lemmas.C01_Kron
import OQ.Lemmas.C01_Window

namespace OQ.C01
open OQ.Lift OQ
variable {R : Type} [CommRing R]

theorem div_mod_of_split (A B c : Nat) (hB : B < c) : (A * c + B) / c = A ∧ (A * c + B) % c = B := by
  have hc : 0 < c := by omega
  constructor
  · rw [Nat.mul_comm, Nat.mul_add_div hc, Nat.div_eq_of_lt hB]; simp
  · rw [Nat.mul_comm, Nat.mul_add_mod, Nat.mod_eq_of_lt hB]

theorem liftMatrix_get (m : Mat R) (qs : List Nat) (n : Nat)
    (hne : qs ≠ []) (hd : qs.Nodup) (hlt : ∀ q ∈ qs, q < n)
    (hmr : m.r = 2 ^ qs.length) (hmc : m.c = 2 ^ qs.length) :
    ∃ L, liftMatrix m qs n = some L ∧ L.r = 2 ^ n ∧ L.c = 2 ^ n ∧
      ∀ row col, row < 2 ^ n → col < 2 ^ n →
        L.get row col = if (∀ q, q < n → q ∉ qs → bit n q row = bit n q col)
          then m.get (sub n qs row) (sub n qs col) else 0 := by
  -- the data of `_lift_matrix`
  have hs : ∀ q ∈ qs, listMin qs ≤ q := listMin_le qs
  have hl : ∀ q ∈ qs, q ≤ listMax qs := le_listMax qs
  have hlm : listMax qs ∈ qs := listMax_mem qs hne
  have hln : listMax qs < n := hlt _ hlm
  have hsl : listMin qs ≤ listMax qs := hs _ hlm
  generalize hsdef : listMin qs = s at *
  generalize hldef : listMax qs = l at *
  obtain ⟨span, hspan⟩ : ∃ span, span = l - s + 1 := ⟨_, rfl⟩
  obtain ⟨sh, hsh⟩ : ∃ sh, sh = qs.map (fun q => q - s) := ⟨_, rfl⟩
  have hshd : sh.Nodup := by
    rw [hsh]
    refine List.Nodup.map_on ?_ hd
    intro a ha b hb hab
    have := hs a ha; have := hs b hb; omega
  have hshlt : ∀ j ∈ sh, j < span := by
    intro j hj
    rw [hsh] at hj
    obtain ⟨q, hq, rfl⟩ := List.mem_map.mp hj
    have := hs q hq; have := hl q hq; omega
  have hshlen : sh.length = qs.length := by rw [hsh, List.length_map]
  have hperm := order_perm sh span hshd hshlt
  obtain ⟨order, horder⟩ : ∃ o, o = permMakingAdjacent sh span := ⟨_, rfl⟩
  rw [← horder] at hperm
  have hlen : order.length = span := by rw [hperm.length_eq, List.length_range]
  obtain ⟨rest, hrest⟩ : ∃ r, r = (List.range span).filter (fun i => !sh.contains i) := ⟨_, rfl⟩
  have hord : order = sh ++ rest := by rw [horder, hrest]; rfl
  have hklen : qs.length + rest.length = span := by
    rw [← hlen, hord, List.length_append, hshlen]
  obtain ⟨e, he⟩ : ∃ e, e = span - qs.length := ⟨_, rfl⟩
  have hrl : rest.length = e := by omega
  obtain ⟨t, ht⟩ : ∃ t, t = n - l - 1 := ⟨_, rfl⟩
  have hn : n = s + span + t := by omega
  have hmem_rest : ∀ j, j ∈ rest ↔ j < span ∧ j ∉ sh := by
    intro j; rw [hrest, List.mem_filter, List.mem_range]; simp
  -- the matrices
  have hperm' : order.Perm (List.range order.length) := by rw [hlen]; exact hperm
  obtain ⟨P, hP⟩ : ∃ P : Mat R, P = Mat.ofFn (2 ^ span) (2 ^ span)
      (fun row col => if row = pidx order col then 1 else 0) := ⟨_, rfl⟩
  have hPM : permutationMatrix (R := R) order = some P := by
    rw [permutationMatrix_eq order hperm', hP, hlen]
  obtain ⟨G, hG⟩ : ∃ G : Mat R, G = Mat.kron m (Mat.identity (2 ^ e)) := ⟨_, rfl⟩
  obtain ⟨inner, hinner⟩ : ∃ X : Mat R, X = Mat.mul (Mat.mul (Mat.transpose P) G) P := ⟨_, rfl⟩
  have hpow : 2 ^ qs.length * 2 ^ e = 2 ^ span := by rw [← pow_add]; congr 1; omega
  have hGr : G.r = 2 ^ span := by rw [hG]; simp [Mat.kron, Mat.identity, hmr, hpow]
  have hGc : G.c = 2 ^ span := by rw [hG]; simp [Mat.kron, Mat.identity, hmc, hpow]
  have hIr : inner.r = 2 ^ span := by rw [hinner, hP]; simp [Mat.mul, Mat.transpose]
  have hIc : inner.c = 2 ^ span := by rw [hinner, hP]; simp [Mat.mul]
  refine ⟨Mat.kron (Mat.kron (Mat.identity (2 ^ s)) inner) (Mat.identity (2 ^ t)), ?_, ?_, ?_, ?_⟩
  · unfold liftMatrix
    have h1 : qs.isEmpty = false := by cases qs with
      | nil => exact absurd rfl hne
      | cons _ _ => rfl
    have h2 : ¬ n ≤ l := by omega
    have h3 : ¬ (l - s + 1 < qs.length) := by omega
    simp only [h1, hsdef, hldef, h2, h3, Bool.false_eq_true, if_false]
    rw [← hsh, ← hspan, ← horder, hPM]
    simp only [← he, ← hG, ← hinner, ← ht]
  · simp [Mat.kron, Mat.identity, hIr, hn, pow_add]
  · simp [Mat.kron, Mat.identity, hIc, hn, pow_add]
  · intro row col hrow hcol
    have hrow' : row < 2 ^ s * 2 ^ span * 2 ^ t := by rw [← pow_add, ← pow_add, ← hn]; exact hrow
    have hcol' : col < 2 ^ s * 2 ^ span * 2 ^ t := by rw [← pow_add, ← pow_add, ← hn]; exact hcol
    rw [sandwich_get inner (2 ^ s) (2 ^ span) (2 ^ t) hIr hIc row col hrow' hcol']
    -- entries of the inner matrix
    have hf : ∀ x, pidx order x < 2 ^ span := fun x => by rw [← hlen]; exact pidx_lt order x
    have hsplit : ∀ x, pidx order x =
        bitsToIndex (sh.map (fun q => bit span q x)) * 2 ^ e + bitsToIndex (rest.map (fun q => bit span q x)) := by
      intro x
      unfold pidx
      rw [hlen, hord, List.map_append, bitsToIndex_append, List.length_map, hrl]
    have hBlt : ∀ x, bitsToIndex (rest.map (fun q => bit span q x)) < 2 ^ e := by
      intro x
      have := bitsToIndex_lt (rest.map (fun q => bit span q x)) (by
        intro b hb; simp only [List.mem_map] at hb; obtain ⟨q, _, rfl⟩ := hb; exact bit_lt _ _ _)
      rwa [List.length_map, hrl] at this
    have hinner_get : ∀ r c, r < 2 ^ span → c < 2 ^ span → inner.get r c =
        if (∀ j ∈ rest, bit span j r = bit span j c)
        then m.get (bitsToIndex (sh.map (fun q => bit span q r))) (bitsToIndex (sh.map (fun q => bit span q c)))
        else 0 := by
      intro r c hr hc
      have := conj_perm_get (pidx order) (2 ^ span) hf G hGr hGc r c hr hc
      simp only at this
      rw [hinner, hP, this, hG]
      rw [kron_id_get m (2 ^ qs.length) (2 ^ e) hmr hmc _ _ (by rw [hpow]; exact hf r) (by rw [hpow]; exact hf c)]
      rw [hsplit r, hsplit c]
      rw [(div_mod_of_split _ _ _ (hBlt r)).1, (div_mod_of_split _ _ _ (hBlt r)).2,
          (div_mod_of_split _ _ _ (hBlt c)).1, (div_mod_of_split _ _ _ (hBlt c)).2]
      have hiff : bitsToIndex (rest.map (fun q => bit span q r)) = bitsToIndex (rest.map (fun q => bit span q c)) ↔
          ∀ j ∈ rest, bit span j r = bit span j c := by
        constructor
        · intro h
          have := bitsToIndex_inj _ _ (by simp) (by
              intro b hb; simp only [List.mem_map] at hb; obtain ⟨q, _, rfl⟩ := hb; exact bit_lt _ _ _) (by
              intro b hb; simp only [List.mem_map] at hb; obtain ⟨q, _, rfl⟩ := hb; exact bit_lt _ _ _) h
          exact List.map_inj_left.mp this
        · intro h; rw [List.map_inj_left.mpr h]
      by_cases hc' : ∀ j ∈ rest, bit span j r = bit span j c
      · rw [if_pos hc', if_pos (hiff.mpr hc')]
      · rw [if_neg hc', if_neg (fun h => hc' (hiff.mp h))]
    have hdlt : ∀ x, x / 2 ^ t % 2 ^ span < 2 ^ span := fun x => Nat.mod_lt _ (Nat.two_pow_pos _)
    rw [hinner_get _ _ (hdlt row) (hdlt col)]
    -- the sub-indices
    have hsub : ∀ x, bitsToIndex (sh.map (fun q => bit span q (x / 2 ^ t % 2 ^ span))) = sub n qs x := by
      intro x
      unfold sub
      rw [hsh, List.map_map]
      congr 1
      apply List.map_congr_left
      intro q hq
      have := hs q hq; have := hl q hq
      simp only [Function.comp]
      rw [bit_window n s span t (q - s) x hn (by omega)]
      congr 1; omega
    rw [hsub row, hsub col]
    -- the condition
    have hcond : ((row / (2 ^ t * 2 ^ span) = col / (2 ^ t * 2 ^ span) ∧ row % 2 ^ t = col % 2 ^ t) ∧
        (∀ j ∈ rest, bit span j (row / 2 ^ t % 2 ^ span) = bit span j (col / 2 ^ t % 2 ^ span))) ↔
        (∀ q, q < n → q ∉ qs → bit n q row = bit n q col) := by
      rw [← pow_add, high_eq_iff n s (t + span) row col (by omega) hrow hcol, low_eq_iff n t row col (by omega)]
      constructor
      · rintro ⟨⟨hhigh, hlow⟩, hmid⟩ q hqn hqq
        by_cases c1 : q < s
        · exact hhigh q c1
        · by_cases c2 : l < q
          · exact hlow q (by omega) hqn
          · have hj : q - s ∈ rest := by
              rw [hmem_rest]
              refine ⟨by omega, ?_⟩
              intro hmem
              rw [hsh] at hmem
              obtain ⟨q', hq', hqe⟩ := List.mem_map.mp hmem
              have := hs q' hq'
              have : q' = q := by omega
              exact hqq (this ▸ hq')
            have := hmid _ hj
            rw [bit_window n s span t (q - s) row hn (by omega),
                bit_window n s span t (q - s) col hn (by omega)] at this
            have e2 : s + (q - s) = q := by omega
            rwa [e2] at this
      · intro h
        refine ⟨⟨?_, ?_⟩, ?_⟩
        · intro q hq
          exact h q (by omega) (fun hmem => by have := hs q hmem; omega)
        · intro q hq1 hq2
          exact h q hq2 (fun hmem => by have := hl q hmem; omega)
        · intro j hj
          obtain ⟨hjs, hjn⟩ := (hmem_rest j).mp hj
          rw [bit_window n s span t j row hn hjs, bit_window n s span t j col hn hjs]
          apply h (s + j) (by omega)
          intro hmem
          apply hjn
          rw [hsh]
          exact List.mem_map.mpr ⟨s + j, hmem, by omega⟩
    by_cases c1 : (row / (2 ^ t * 2 ^ span) = col / (2 ^ t * 2 ^ span) ∧ row % 2 ^ t = col % 2 ^ t)
    · by_cases c2 : (∀ j ∈ rest, bit span j (row / 2 ^ t % 2 ^ span) = bit span j (col / 2 ^ t % 2 ^ span))
      · rw [if_pos c1, if_pos c2, if_pos (hcond.mp ⟨c1, c2⟩)]
      · rw [if_pos c1, if_neg c2, if_neg (fun h => c2 (hcond.mpr h).2)]
    · rw [if_neg c1, if_neg (fun h => c1 (hcond.mpr h).1)]

end OQ.C01
