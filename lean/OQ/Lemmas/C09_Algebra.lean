/- C09 helper lemmas, part 3: `simplify` / `+=` preserve the denoted matrix; Hermitian conjugate. -/
import OQ.Lemmas.C09_Sparse
import Mathlib.Data.List.Perm.Subperm
import Mathlib.Algebra.Star.Basic
import Mathlib.Algebra.Star.BigOperators
import Mathlib.Tactic.LinearCombination

set_option linter.unusedSectionVars false
namespace OQ.C09
open OQ OQ.Pauli

variable {R : Type} [CommRing R]

/-! ### equal frozensets of operations give the same Pauli string -/

theorem sameOps_perm (a b : List (Nat × P)) (ha : (a.map Prod.fst).Nodup) (h : sameOps a b = true) :
    a.Perm b := by
  simp only [sameOps, Bool.and_eq_true, beq_iff_eq, List.all_eq_true, List.contains_iff_mem] at h
  have hsub : a ⊆ b := fun x hx => by simpa using h.2 x hx
  exact (List.subperm_of_subset (List.Nodup.of_map _ ha) hsub).perm_of_length_le (le_of_eq h.1.symm)

theorem opAt_of_perm (a b : List (Nat × P)) (c c' : R) (ha : (a.map Prod.fst).Nodup) (hp : a.Perm b) (q : Nat) :
    Term.opAt (⟨a, c⟩ : Term R) q = Term.opAt (⟨b, c'⟩ : Term R) q := by
  have hb : (b.map Prod.fst).Nodup := (hp.map Prod.fst).nodup_iff.1 ha
  cases h : Term.opAt (⟨a, c⟩ : Term R) q with
  | none =>
    symm; apply opAt_none
    intro x hx hq
    have hxa : x ∈ a := hp.mem_iff.2 hx
    have := opAt_of_mem a c ha x.1 x.2 hxa
    rw [hq, h] at this; cases this
  | some p =>
    symm; apply opAt_of_mem b c' hb
    exact hp.mem_iff.1 (opAt_some_mem a c q p h)

theorem strEntry_sameOps (k : Scal R) (t u : Term R) (ht : TermWF t) (h : sameOps t.ops u.ops = true)
    (n i j : Nat) : strEntry k u.opAt n i j = strEntry k t.opAt n i j := by
  apply strEntry_congr
  intro q _
  obtain ⟨a, c⟩ := t
  obtain ⟨b, c'⟩ := u
  exact (opAt_of_perm a b c c' ht (sameOps_perm a b ht h) q).symm

theorem sameOps_wf (t u : Term R) (ht : TermWF t) (h : sameOps t.ops u.ops = true) : TermWF u :=
  ((sameOps_perm _ _ ht h).map Prod.fst).nodup_iff.1 ht

/-! ### groups of like terms -/

/-- every group is non-empty, its members have the operations of its head, and its head is well formed -/
def GInv (gs : List (List (Term R))) : Prop :=
  ∀ g ∈ gs, ∃ h rest, g = h :: rest ∧ TermWF h ∧ ∀ u ∈ rest, sameOps h.ops u.ops = true

theorem groupInsert_inv (gs : List (List (Term R))) (t : Term R) (hg : GInv gs) (ht : TermWF t) :
    GInv (groupInsert gs t) := by
  induction gs with
  | nil =>
    intro g hgm
    simp only [groupInsert, List.mem_singleton] at hgm
    exact ⟨t, [], hgm, ht, by simp⟩
  | cons g gs ih =>
    have hg' : GInv gs := fun g' hg' => hg g' (List.mem_cons_of_mem _ hg')
    obtain ⟨h, rest, rfl, hwf, hall⟩ := hg g (by simp)
    simp only [groupInsert]
    split
    · rename_i hs
      intro g' hgm
      rcases List.mem_cons.1 hgm with rfl | hgm
      · refine ⟨h, rest ++ [t], rfl, hwf, ?_⟩
        intro u hu
        rcases List.mem_append.1 hu with hu | hu
        · exact hall u hu
        · simp only [List.mem_singleton] at hu; subst hu; exact hs
      · exact hg' g' hgm
    · intro g' hgm
      rcases List.mem_cons.1 hgm with rfl | hgm
      · exact ⟨h, rest, rfl, hwf, hall⟩
      · exact ih hg' g' hgm

theorem groupInsert_dEntry (k : Scal R) (n : Nat) (gs : List (List (Term R))) (t : Term R) (hg : GInv gs)
    (i j : Nat) :
    dEntry k n (groupInsert gs t).flatten i j = dEntry k n gs.flatten i j + t.coeff * strEntry k t.opAt n i j := by
  induction gs with
  | nil => simp [groupInsert, dEntry]
  | cons g gs ih =>
    have hg' : GInv gs := fun g' hg' => hg g' (List.mem_cons_of_mem _ hg')
    obtain ⟨h, rest, rfl, _, _⟩ := hg g (by simp)
    simp only [groupInsert]
    split
    · simp only [List.flatten_cons, dEntry_append]
      simp only [dEntry, List.map_cons, List.map_nil, List.sum_cons, List.sum_nil]; ring
    · simp only [List.flatten_cons, dEntry_append, ih hg']; ring

theorem foldl_groupInsert_spec (k : Scal R) (n : Nat) (s : PSum R) (gs : List (List (Term R))) (hg : GInv gs)
    (hs : ∀ t ∈ s, TermWF t) :
    GInv (s.foldl groupInsert gs) ∧
    ∀ i j, dEntry k n (s.foldl groupInsert gs).flatten i j = dEntry k n gs.flatten i j + dEntry k n s i j := by
  induction s generalizing gs with
  | nil => exact ⟨hg, fun i j => by simp [dEntry_nil]⟩
  | cons t s ih =>
    have ht := hs t (by simp)
    have h1 := groupInsert_inv gs t hg ht
    obtain ⟨h2, h3⟩ := ih (groupInsert gs t) h1 (fun u hu => hs u (by simp [hu]))
    refine ⟨h2, fun i j => ?_⟩
    simp only [List.foldl_cons]
    rw [h3, groupInsert_dEntry k n gs t hg, dEntry_cons]; ring

theorem sumCoeffs_eq (g : List (Term R)) : sumCoeffs g = (g.map (·.coeff)).sum := by
  unfold sumCoeffs
  suffices h : ∀ a : R, g.foldl (fun acc u => acc + u.coeff) a = a + (g.map (·.coeff)).sum by
    rw [h, zero_add]
  induction g with
  | nil => simp
  | cons u g ih => intro a; simp only [List.foldl_cons, List.map_cons, List.sum_cons]; rw [ih]; ring

/-- a group of like terms denotes `(Σ coefficients) · string of its head` -/
theorem group_dEntry (k : Scal R) (n : Nat) (h : Term R) (rest : List (Term R)) (hwf : TermWF h)
    (hall : ∀ u ∈ rest, sameOps h.ops u.ops = true) (i j : Nat) :
    dEntry k n (h :: rest) i j = sumCoeffs (h :: rest) * strEntry k h.opAt n i j := by
  rw [sumCoeffs_eq]
  induction rest with
  | nil => simp [dEntry]
  | cons u rest ih =>
    have := ih (fun v hv => hall v (by simp [hv]))
    simp only [dEntry, List.map_cons, List.sum_cons] at this ⊢
    rw [strEntry_sameOps k h u hwf (hall u (by simp))]
    linear_combination this

theorem opAt_coeff_irrel (ops : List (Nat × P)) (c c' : R) :
    Term.opAt (⟨ops, c⟩ : Term R) = Term.opAt (⟨ops, c'⟩ : Term R) := rfl

theorem groupResult_dEntry (k : Scal R) (n : Nat) (tol : Tol R) (hnegl : ∀ x, tol.negl x = true → x = 0)
    (h : Term R) (rest : List (Term R)) (hwf : TermWF h)
    (hall : ∀ u ∈ rest, sameOps h.ops u.ops = true) (i j : Nat) :
    dEntry k n ((groupResult tol (h :: rest)).toList) i j = dEntry k n (h :: rest) i j := by
  rw [group_dEntry k n h rest hwf hall]
  cases rest with
  | nil =>
    simp only [groupResult, sumCoeffs_eq, List.map_cons, List.map_nil, List.sum_cons, List.sum_nil, add_zero]
    split
    · rename_i hz; rw [hnegl _ hz]; simp [dEntry]
    · simp [dEntry]
  | cons u rest =>
    simp only [groupResult]
    split
    · rename_i hz; rw [hnegl _ hz]; simp [dEntry]
    · obtain ⟨ops, c⟩ := h
      simp [dEntry, opAt_coeff_irrel ops _ c]

theorem filterMap_groupResult_dEntry (k : Scal R) (n : Nat) (tol : Tol R)
    (hnegl : ∀ x, tol.negl x = true → x = 0) (gs : List (List (Term R))) (hg : GInv gs) (i j : Nat) :
    dEntry k n (gs.filterMap (groupResult tol)) i j = dEntry k n gs.flatten i j := by
  induction gs with
  | nil => rfl
  | cons g gs ih =>
    have hg' : GInv gs := fun g' hg' => hg g' (List.mem_cons_of_mem _ hg')
    obtain ⟨h, rest, rfl, hwf, hall⟩ := hg g (by simp)
    rw [List.flatten_cons, dEntry_append, ← ih hg', ← groupResult_dEntry k n tol hnegl h rest hwf hall]
    rw [List.filterMap_cons]
    cases groupResult tol (h :: rest) with
    | none => simp [dEntry]
    | some t => simp [dEntry]

theorem ginv_nil : GInv ([] : List (List (Term R))) := fun _ h => by cases h

/-- `simplify` does not change the denoted matrix (for a tolerance that only drops exact zeros) -/
theorem simplify_dEntry (k : Scal R) (n : Nat) (tol : Tol R) (hnegl : ∀ x, tol.negl x = true → x = 0)
    (s : PSum R) (hs : SumWF s) (i j : Nat) : dEntry k n (simplify tol s) i j = dEntry k n s i j := by
  obtain ⟨h1, h2⟩ := foldl_groupInsert_spec k n s [] ginv_nil hs
  unfold simplify
  rw [filterMap_groupResult_dEntry k n tol hnegl _ h1, h2]
  simp [dEntry_nil]

/-- the operations of every simplified term are the operations of some input term -/
theorem groupResult_ops (tol : Tol R) (g : List (Term R)) (t : Term R) (h : groupResult tol g = some t) :
    ∃ u ∈ g.head?, t.ops = u.ops := by
  match g with
  | [] => simp [groupResult] at h
  | [u] =>
    simp only [groupResult] at h
    split at h
    · cases h
    · cases h; exact ⟨t, by simp, rfl⟩
  | u :: v :: rest =>
    simp only [groupResult] at h
    split at h
    · cases h
    · cases h; exact ⟨u, by simp, rfl⟩

theorem groupInsert_mem (gs : List (List (Term R))) (t : Term R) (g : List (Term R)) (hg : g ∈ groupInsert gs t)
    (u : Term R) (hu : u ∈ g) : u = t ∨ ∃ g' ∈ gs, u ∈ g' := by
  induction gs with
  | nil =>
    simp only [groupInsert, List.mem_singleton] at hg
    subst hg; simp only [List.mem_singleton] at hu; exact Or.inl hu
  | cons g0 gs ih =>
    match g0 with
    | [] =>
      simp only [groupInsert, List.mem_cons] at hg
      rcases hg with rfl | hg
      · cases hu
      · rcases ih hg with h | ⟨g', hg', hu'⟩
        · exact Or.inl h
        · exact Or.inr ⟨g', List.mem_cons_of_mem _ hg', hu'⟩
    | h :: rest =>
      simp only [groupInsert] at hg
      split at hg
      · rcases List.mem_cons.1 hg with rfl | hg
        · rcases List.mem_cons.1 hu with hu1 | hu1
          · exact Or.inr ⟨h :: rest, List.mem_cons_self, by rw [hu1]; exact List.mem_cons_self⟩
          · rcases List.mem_append.1 hu1 with hu2 | hu2
            · exact Or.inr ⟨h :: rest, List.mem_cons_self, List.mem_cons_of_mem _ hu2⟩
            · exact Or.inl (List.mem_singleton.1 hu2)
        · exact Or.inr ⟨g, List.mem_cons_of_mem _ hg, hu⟩
      · rcases List.mem_cons.1 hg with rfl | hg
        · exact Or.inr ⟨h :: rest, by simp, hu⟩
        · rcases ih hg with h' | ⟨g', hg', hu'⟩
          · exact Or.inl h'
          · exact Or.inr ⟨g', List.mem_cons_of_mem _ hg', hu'⟩

theorem foldl_groupInsert_mem (s : PSum R) (gs : List (List (Term R))) (g : List (Term R))
    (hg : g ∈ s.foldl groupInsert gs) (u : Term R) (hu : u ∈ g) : u ∈ s ∨ ∃ g' ∈ gs, u ∈ g' := by
  induction s generalizing gs with
  | nil => exact Or.inr ⟨g, hg, hu⟩
  | cons t s ih =>
    rcases ih (groupInsert gs t) hg with h | ⟨g', hg', hu'⟩
    · exact Or.inl (List.mem_cons_of_mem _ h)
    · rcases groupInsert_mem gs t g' hg' u hu' with h | h
      · exact Or.inl (by simp [h])
      · exact Or.inr h

theorem simplify_ops (tol : Tol R) (s : PSum R) (t : Term R) (ht : t ∈ simplify tol s) :
    ∃ u ∈ s, t.ops = u.ops := by
  unfold simplify at ht
  obtain ⟨g, hg, hres⟩ := List.mem_filterMap.1 ht
  obtain ⟨u, hu, hops⟩ := groupResult_ops tol g t hres
  have hug : u ∈ g := by
    cases g with
    | nil => simp at hu
    | cons a g => simp only [List.head?_cons, Option.mem_def, Option.some.injEq] at hu; subst hu; simp
  rcases foldl_groupInsert_mem s [] g hg u hug with h | ⟨g', hg', _⟩
  · exact ⟨u, h, hops⟩
  · cases hg'

theorem simplify_wf (tol : Tol R) (s : PSum R) (hs : SumWF s) : SumWF (simplify tol s) := by
  intro t ht
  obtain ⟨u, hu, hops⟩ := simplify_ops tol s t ht
  unfold TermWF; rw [hops]; exact hs u hu

/-! ### `acc += term`, folded -/

theorem foldl_addTerm_spec {α : Type} (k : Scal R) (n : Nat) (tol : Tol R)
    (hnegl : ∀ x, tol.negl x = true → x = 0) (f : α → Term R) (l : List α) (acc : PSum R)
    (hacc : SumWF acc) (hf : ∀ a ∈ l, TermWF (f a)) :
    SumWF (l.foldl (fun acc a => addTerm tol acc (f a)) acc) ∧
    ∀ i j, dEntry k n (l.foldl (fun acc a => addTerm tol acc (f a)) acc) i j
      = dEntry k n acc i j + dEntry k n (l.map f) i j := by
  induction l generalizing acc with
  | nil => exact ⟨hacc, fun i j => by simp [dEntry_nil]⟩
  | cons a l ih =>
    have hwf1 : SumWF (acc ++ [f a]) := by
      intro t ht
      rcases List.mem_append.1 ht with ht | ht
      · exact hacc t ht
      · simp only [List.mem_singleton] at ht; subst ht; exact hf a (by simp)
    have hwf2 : SumWF (addTerm tol acc (f a)) := simplify_wf tol _ hwf1
    obtain ⟨h1, h2⟩ := ih (addTerm tol acc (f a)) hwf2 (fun b hb => hf b (by simp [hb]))
    refine ⟨h1, fun i j => ?_⟩
    simp only [List.foldl_cons]
    rw [h2, addTerm, simplify_dEntry k n tol hnegl _ hwf1, dEntry_append, List.map_cons, dEntry_cons]
    simp only [dEntry, List.map_cons, List.map_nil, List.sum_cons, List.sum_nil]; ring

/-- the operations of every term of a folded `+=` come from one of the added terms (or the start) -/
theorem foldl_addTerm_ops {α : Type} (tol : Tol R) (f : α → Term R) (l : List α) (acc : PSum R) (t : Term R)
    (ht : t ∈ l.foldl (fun acc a => addTerm tol acc (f a)) acc) :
    (∃ u ∈ acc, t.ops = u.ops) ∨ ∃ a ∈ l, t.ops = (f a).ops := by
  induction l generalizing acc with
  | nil => exact Or.inl ⟨t, ht, rfl⟩
  | cons a l ih =>
    rcases ih (addTerm tol acc (f a)) ht with ⟨u, hu, hops⟩ | ⟨b, hb, hops⟩
    · obtain ⟨v, hv, hops2⟩ := simplify_ops tol _ u hu
      rcases List.mem_append.1 hv with hv | hv
      · exact Or.inl ⟨v, hv, hops.trans hops2⟩
      · simp only [List.mem_singleton] at hv; subst hv
        exact Or.inr ⟨a, by simp, hops.trans hops2⟩
    · exact Or.inr ⟨b, by simp [hb], hops⟩

end OQ.C09
