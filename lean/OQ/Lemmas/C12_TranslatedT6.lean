/- helper lemmas for the T6 translation tie of the `dicke_state` loop (`OQ/Props/C12_TranslatedDicke.lean`): `int("1" * k, base=2)`
   in the prelude's terms (not property theorems) -/
import OQ.Lemmas.Translated
namespace OQ.C12
open OQ.Py

theorem flatten_replicate_singleton (k : Nat) (c : Char) :
    (List.replicate k ([c] : List Char)).flatten = List.replicate k c := by
  induction k with
  | zero => rfl
  | succ k ih => simp [List.replicate_succ, ih]

theorem intBase2_ones (k : Nat) : intBase2 ((List.replicate k (['1'] : List Char)).flatten) = ((2 ^ k - 1 : Nat) : Int) := by
  rw [flatten_replicate_singleton]
  unfold intBase2
  suffices H : ∀ (a : Nat), List.foldl (fun acc c => 2 * acc + charDigit c) (a : Int) (List.replicate k '1')
      = ((2 ^ k * a + (2 ^ k - 1) : Nat) : Int) by simpa using H 0
  induction k with
  | zero => intro a; simp
  | succ k ih =>
    intro a
    simp only [List.replicate_succ, List.foldl_cons]
    have e : (2 * (a : Int) + charDigit '1') = ((2 * a + 1 : Nat) : Int) := by
      have : charDigit '1' = 1 := rfl
      rw [this]; push_cast; ring
    rw [e, ih (2 * a + 1)]
    have hp := Nat.two_pow_pos k
    congr 1
    rw [pow_succ]
    have : 2 ^ k * (2 * a + 1) = 2 ^ k * 2 * a + 2 ^ k := by ring
    omega

end OQ.C12
