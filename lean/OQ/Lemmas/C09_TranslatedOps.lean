/- helper lemmas for the tie between the TRANSLATED operator utilities (`OQ/Generated/TranslatedC09Ops.lean`, regenerated from /repo by
   harness/translate_t18.py) and the hand-written model `OQ/Model/C09.lean`.  The translated code goes through the translated classes
   PauliTerm / PauliSum, which package T7 tied to the model of C03 (`OQ/Model/C03.lean`); this file bridges the two hand-written
   models where they describe the same code (`simplify`, equality of operation sets).  (Not property theorems.) -/
import OQ.Props.C03_TranslatedPauli
import OQ.Lemmas.C09_Hermitian
import OQ.Generated.TranslatedC09Ops
import OQ.Exec.PyT18
import Mathlib.Data.List.Perm.Subperm

set_option linter.unusedSectionVars false
set_option linter.unusedSimpArgs false
set_option linter.unusedVariables false

namespace OQ.C09
open OQ OQ.Pauli OQ.Py OQ.Generated

variable {R : Type} [CommRing R]

/-! ### `frozenset(a.items()) == frozenset(b.items())`: the two models' renderings agree on dicts -/

theorem lookup_eq_some_iff {b : List (Nat × P)} (hb : C03.OpsWF b) (p : Nat × P) : C03.lookup b p.1 = some p.2 ↔ p ∈ b := by
  constructor
  · intro h
    unfold C03.lookup at h
    cases hf : b.find? (fun x => x.1 == p.1) with
    | none => rw [hf] at h; cases h
    | some y =>
      rw [hf] at h
      simp only [Option.map_some, Option.some.injEq] at h
      have hm := List.mem_of_find?_eq_some hf
      have hk := List.find?_some hf
      simp only [beq_iff_eq] at hk
      have : y = p := Prod.ext hk h
      rw [← this]; exact hm
  · exact fun h => C03.lookup_of_mem_wf hb h

theorem nodup_of_wf {a : List (Nat × P)} (ha : C03.OpsWF a) : a.Nodup := List.Nodup.of_map _ ha

theorem opsEq_eq_sameOps (a b : List (Nat × P)) (ha : C03.OpsWF a) (hb : C03.OpsWF b) : C03.opsEq a b = sameOps a b := by
  rw [Bool.eq_iff_iff]
  simp only [C03.opsEq, sameOps, Bool.and_eq_true, List.all_eq_true, beq_iff_eq, List.contains_iff_mem]
  constructor
  · rintro ⟨h1, h2⟩
    have s1 : a ⊆ b := fun p hp => (lookup_eq_some_iff hb p).1 (h1 p hp)
    have s2 : b ⊆ a := fun p hp => (lookup_eq_some_iff ha p).1 (h2 p hp)
    refine ⟨?_, fun p hp => s1 hp⟩
    exact Nat.le_antisymm (List.subperm_of_subset (nodup_of_wf ha) s1).length_le (List.subperm_of_subset (nodup_of_wf hb) s2).length_le
  · rintro ⟨hl, h1⟩
    have s1 : a ⊆ b := fun p hp => h1 p hp
    have hp : a.Perm b := (List.subperm_of_subset (nodup_of_wf ha) s1).perm_of_length_le (le_of_eq hl.symm)
    exact ⟨fun p hp' => (lookup_eq_some_iff hb p).2 (s1 hp'), fun p hp' => (lookup_eq_some_iff ha p).2 (hp.symm.subset hp')⟩

theorem any_congr_mem {α : Type} (l : List α) (f g : α → Bool) (h : ∀ a ∈ l, f a = g a) : l.any f = l.any g := by
  induction l with
  | nil => rfl
  | cons a l ih =>
    simp only [List.any_cons, h a List.mem_cons_self, ih (fun b hb => h b (List.mem_cons_of_mem _ hb))]

theorem all_congr_mem {α : Type} (l : List α) (f g : α → Bool) (h : ∀ a ∈ l, f a = g a) : l.all f = l.all g := by
  induction l with
  | nil => rfl
  | cons a l ih =>
    simp only [List.all_cons, h a List.mem_cons_self, ih (fun b hb => h b (List.mem_cons_of_mem _ hb))]

/-! ### `PauliSum.simplify`: the model of C03 (groups as `first :: rest`) and the model of C09 (groups as lists) agree -/

def gl (g : C03.Group R) : List (Term R) := g.first :: g.rest

theorem groupInsert_bridge (gs : List (C03.Group R)) (t : Term R) (w : ∀ g ∈ gs, C03.OpsWF g.first.ops) (wt : C03.OpsWF t.ops) :
    groupInsert (gs.map gl) t = (C03.insertGroup gs t).map gl := by
  induction gs with
  | nil => rfl
  | cons g gs ih =>
    have hg := w g List.mem_cons_self
    simp only [List.map_cons, gl, groupInsert, C03.insertGroup, opsEq_eq_sameOps _ _ hg wt]
    split
    · simp [gl]
    · simp only [List.map_cons, gl, List.cons.injEq, true_and]
      exact ih (fun g' hg' => w g' (List.mem_cons_of_mem _ hg'))

theorem likeTerms_bridge (s : PSum R) (hs : ∀ t ∈ s, C03.OpsWF t.ops) (gs : List (C03.Group R))
    (w : ∀ g ∈ gs, C03.OpsWF g.first.ops) :
    s.foldl groupInsert (gs.map gl) = (s.foldl C03.insertGroup gs).map gl := by
  induction s generalizing gs with
  | nil => rfl
  | cons t s ih =>
    simp only [List.foldl_cons]
    rw [groupInsert_bridge gs t w (hs t List.mem_cons_self)]
    exact ih (fun t' ht' => hs t' (List.mem_cons_of_mem _ ht')) _ (C03.insertGroup_wf gs t w (hs t List.mem_cons_self))

theorem ite_toList_aux {α : Type} (b : Bool) (u : α) :
    (if b = true then none else some u).toList = if (!b) = true then [u] else [] := by cases b <;> rfl

theorem groupResult_bridge (tol : Tol R) (g : C03.Group R) :
    (groupResult tol (gl g)).toList = C03.simplifyGroup tol.negl g := by
  rcases g with ⟨t, rest⟩
  cases rest with
  | nil =>
    simp only [gl, groupResult, C03.simplifyGroup, List.isEmpty_nil, Bool.true_and, C03.Group.coeffSum, List.foldl_cons,
      List.foldl_nil, zero_add]
    cases h : tol.negl t.coeff <;> simp [h]
  | cons r rs =>
    simp only [gl, groupResult, C03.simplifyGroup, List.isEmpty_cons, Bool.false_and, Bool.false_eq_true, if_false, sumCoeffs,
      C03.Group.coeffSum]
    exact ite_toList_aux _ _

theorem filterMap_eq_flatMap {α β : Type} (f : α → Option β) (l : List α) : l.filterMap f = l.flatMap (fun a => (f a).toList) := by
  induction l with
  | nil => rfl
  | cons a l ih =>
    simp only [List.filterMap_cons, List.flatMap_cons]
    cases f a <;> simp [ih]

/-- the two hand-written models of `PauliSum.simplify` agree on sums of well-formed terms -/
theorem simplify_bridge (tol : Tol R) (s : PSum R) (hs : ∀ t ∈ s, C03.OpsWF t.ops) :
    C03.simplify tol.negl s = simplify tol s := by
  unfold simplify C03.simplify C03.likeTerms
  have := likeTerms_bridge s hs [] (by intro g hg; cases hg)
  simp only [List.map_nil] at this
  rw [this, filterMap_eq_flatMap, List.flatMap_map]
  congr 1
  funext g
  exact (groupResult_bridge tol g).symm

/-- `acc += term` in the two models -/
theorem addTerm_bridge (tol : Tol R) (acc : PSum R) (t : Term R) (ha : ∀ u ∈ acc, C03.OpsWF u.ops) (wt : C03.OpsWF t.ops) :
    C03.addS tol.negl acc [t] = addTerm tol acc t := by
  unfold C03.addS addTerm
  apply simplify_bridge
  intro u hu
  rcases List.mem_append.mp hu with h | h
  · exact ha u h
  · simp only [List.mem_singleton] at h; subst h; exact wt

theorem addTerm_wf (tol : Tol R) (acc : PSum R) (t : Term R) (ha : ∀ u ∈ acc, C03.OpsWF u.ops) (wt : C03.OpsWF t.ops) :
    ∀ u ∈ addTerm tol acc t, C03.OpsWF u.ops := by
  rw [← addTerm_bridge tol acc t ha wt]
  apply C03.simplify_wf
  intro u hu
  rcases List.mem_append.mp hu with h | h
  · exact ha u h
  · simp only [List.mem_singleton] at h; subst h; exact wt

/-- the externals of the translated classes read as the model's tolerance record -/
def TolOf (x : TranslatedPauli.Ext R) (tol : Tol R) : Prop :=
  (∀ c, x.isclose c 0 = tol.negl c) ∧ (∀ a b, x.allclose a b = tol.close a b)

theorem neglOf_eq (x : TranslatedPauli.Ext R) (tol : Tol R) (h : TolOf x tol) : C03.neglOf x = tol.negl := by
  funext c; exact h.1 c

/-- `acc += term` on the translated objects -/
theorem sum_add_term_eq (k : Scal R) (x : TranslatedPauli.Ext R) (tol : Tol R) (h : TolOf x tol) (acc : PSum R) (t : Term R)
    (ha : ∀ u ∈ acc, C03.OpsWF u.ops) (wt : C03.OpsWF t.ops) :
    TranslatedPauli.sum_add_term k x (C03.ofSum acc) (C03.ofTerm t) = .ok (C03.ofSum (addTerm tol acc t)) := by
  rw [(C03.translated_sum_add_eq k x acc t 0 ha wt).1, neglOf_eq x tol h, addTerm_bridge tol acc t ha wt]

/-! ### `PauliSum.n_qubits` -/

theorem mem_setOfList_aux (l acc : List Nat) (q : Nat) :
    q ∈ l.foldl (fun acc x => if acc.contains x then acc else acc ++ [x]) acc ↔ q ∈ acc ∨ q ∈ l := by
  induction l generalizing acc with
  | nil => simp
  | cons a l ih =>
    rw [List.foldl_cons, ih]
    by_cases h : acc.contains a = true
    · simp only [h, if_true, List.mem_cons]
      have : a ∈ acc := by simpa using h
      constructor
      · rintro (h' | h')
        · exact Or.inl h'
        · exact Or.inr (Or.inr h')
      · rintro (h' | h' | h')
        · exact Or.inl h'
        · subst h'; exact Or.inl this
        · exact Or.inr h'
    · simp only [h, Bool.false_eq_true, if_false, List.mem_append, List.mem_singleton, List.mem_cons]
      tauto

theorem mem_setOfList (l : List Nat) (q : Nat) : q ∈ setOfList l ↔ q ∈ l := by
  unfold setOfList
  rw [mem_setOfList_aux]; simp

theorem maxNatE_ne_nil (l : List Nat) (h : l ≠ []) : maxNatE l = .ok (l.foldl max 0) := by
  cases l with
  | nil => exact absurd rfl h
  | cons a l => simp [maxNatE, List.foldl_cons]

/-- the set of all qubits of a sum object -/
theorem mem_sum_qubits (k : Scal R) (x : TranslatedPauli.Ext R) (s : PSum R) (q : Nat) :
    q ∈ TranslatedPauli.sum_qubits k x (C03.ofSum s) ↔ ∃ t ∈ s, ∃ p ∈ t.ops, p.1 = q := by
  unfold TranslatedPauli.sum_qubits TranslatedPauli.term_qubits
  rw [mem_setOfList, List.mem_flatten]
  simp only [C03.ofSum, List.map_map, List.mem_map, Function.comp, C03.ofTerm_ops, C03.up_keys]
  constructor
  · rintro ⟨l, ⟨t, ht, rfl⟩, hq⟩
    rw [mem_setOfList, List.mem_map] at hq
    exact ⟨t, ht, hq⟩
  · rintro ⟨t, ht, hq⟩
    exact ⟨_, ⟨t, ht, rfl⟩, (mem_setOfList _ _).2 (List.mem_map.2 hq)⟩

/-- TRANSLATION TIE `PauliSum.n_qubits` (`0 if self.is_constant else max(self.qubits) + 1`) = the model's `PSum.nQubits`; the `max`
    of an empty set is never reached. -/
theorem sum_n_qubits_eq (k : Scal R) (x : TranslatedPauli.Ext R) (s : PSum R) :
    TranslatedPauli.sum_n_qubits k x (C03.ofSum s) = .ok (PSum.nQubits s) := by
  unfold TranslatedPauli.sum_n_qubits
  rw [(C03.translated_is_constant_eq k x ⟨[], 0⟩ s).2.1]
  by_cases hc : (s.isEmpty || s.all (fun t => t.ops.isEmpty)) = true
  · simp only [hc, if_true]
    congr 1
    have : PSum.nQubits s ≤ 0 := by
      rw [sum_nQubits_le]
      intro t ht p hp
      simp only [Bool.or_eq_true, List.isEmpty_iff, List.all_eq_true] at hc
      rcases hc with h | h
      · subst h; cases ht
      · have := h t ht; rw [this] at hp; cases hp
    omega
  · simp only [hc, Bool.false_eq_true, if_false]
    simp only [Bool.or_eq_true, List.isEmpty_iff, List.all_eq_true, not_or, not_forall] at hc
    obtain ⟨_, t0, ht0, he0⟩ := hc
    have hne : t0.ops ≠ [] := by simpa using he0
    obtain ⟨p0, hp0⟩ := List.exists_mem_of_ne_nil _ hne
    have hq0 : p0.1 ∈ TranslatedPauli.sum_qubits k x (C03.ofSum s) := (mem_sum_qubits k x s _).2 ⟨t0, ht0, p0, hp0, rfl⟩
    rw [maxNatE_ne_nil _ (List.ne_nil_of_mem hq0)]
    simp only [bind_ok]
    congr 1
    apply Nat.le_antisymm
    · -- M + 1 ≤ nQubits s
      have hm := C03.foldl_max_mem (TranslatedPauli.sum_qubits k x (C03.ofSum s)) 0
      have hall := (sum_nQubits_le s (PSum.nQubits s)).1 (le_refl _)
      rcases List.mem_cons.mp hm with h | h
      · rw [h]; have := hall t0 ht0 p0 hp0; omega
      · obtain ⟨t, ht, p, hp, he⟩ := (mem_sum_qubits k x s _).1 h
        have := hall t ht p hp
        omega
    · rw [sum_nQubits_le]
      intro t ht p hp
      have hq : p.1 ∈ TranslatedPauli.sum_qubits k x (C03.ofSum s) := (mem_sum_qubits k x s _).2 ⟨t, ht, p, hp, rfl⟩
      have := ((C03.foldl_max_le (TranslatedPauli.sum_qubits k x (C03.ofSum s)) 0 _).1 (le_refl _)).2 _ hq
      omega

/-! ### `reverse_qubit_order`: the loop that builds the reversed dict -/

theorem foldl_dictSet_int (l acc : Dict Int TranslatedPauli.Letter) (h : (dictKeys (acc ++ l)).Nodup) :
    l.foldl (fun (acc : Dict Int TranslatedPauli.Letter) (p0 : Int × TranslatedPauli.Letter) => dictSet acc p0.1 p0.2) acc = acc ++ l := by
  induction l generalizing acc with
  | nil => simp
  | cons p l ih =>
    rw [List.foldl_cons, dictSet_of_not_mem]
    · rw [ih]
      · simp
      · simpa using h
    · simp only [dictKeys, List.map_append, List.map_cons] at h
      have := (List.nodup_append.mp h).2.2
      intro hm
      exact this _ hm _ (List.mem_cons_self) rfl

/-- the inner loop `for qubit_num, operator_str in term.operations: new_term[n_qubits - 1 - qubit_num] = operator_str`, then the key
    check of `PauliTerm(new_term, …)`: the dict of the model's `reverseTerm` -/
theorem reverse_inner (n : Nat) (ops : List (Nat × P)) (w : C03.OpsWF ops) (hn : ∀ p ∈ ops, p.1 < n) :
    natKeysE ((C03.up ops).foldl (fun (st : Dict Int TranslatedPauli.Letter) (p0 : Nat × TranslatedPauli.Letter) =>
        dictSet st ((((n : Nat) : Int) - (1 : Int)) - ((p0.1 : Nat) : Int)) p0.2) [])
      = .ok (C03.up (ops.map (fun qp => (n - 1 - qp.1, qp.2)))) := by
  have e : (C03.up ops).foldl (fun (st : Dict Int TranslatedPauli.Letter) (p0 : Nat × TranslatedPauli.Letter) =>
        dictSet st ((((n : Nat) : Int) - (1 : Int)) - ((p0.1 : Nat) : Int)) p0.2) []
      = ((C03.up ops).map (fun p0 => (((((n : Nat) : Int) - (1 : Int)) - ((p0.1 : Nat) : Int)), p0.2))).foldl
          (fun (acc : Dict Int TranslatedPauli.Letter) (p0 : Int × TranslatedPauli.Letter) => dictSet acc p0.1 p0.2) [] := by
    rw [List.foldl_map]
  rw [e, foldl_dictSet_int]
  · unfold natKeysE
    have hall : (([] : Dict Int TranslatedPauli.Letter) ++ (C03.up ops).map (fun p0 => (((((n : Nat) : Int) - (1 : Int)) - ((p0.1 : Nat) : Int)), p0.2))).all
        (fun p => decide (0 ≤ p.1)) = true := by
      rw [List.all_eq_true]
      intro p hp
      simp only [List.nil_append, List.mem_map] at hp
      obtain ⟨q, hq, rfl⟩ := hp
      unfold C03.up at hq
      obtain ⟨r, hr, rfl⟩ := List.mem_map.1 hq
      have := hn r hr
      simp only [decide_eq_true_eq]; omega
    rw [if_pos hall]
    congr 1
    simp only [List.nil_append, C03.up, List.map_map]
    apply List.map_congr_left
    intro p hp
    have := hn p hp
    simp only [Function.comp, Prod.mk.injEq, and_true]
    omega
  · have e2 : dictKeys (([] : Dict Int TranslatedPauli.Letter) ++ (C03.up ops).map (fun p0 => (((((n : Nat) : Int) - (1 : Int)) - ((p0.1 : Nat) : Int)), p0.2)))
        = (ops.map Prod.fst).map (fun q : Nat => ((n : Nat) : Int) - 1 - (q : Int)) := by
      simp only [List.nil_append, dictKeys, C03.up, List.map_map]
      rfl
    rw [e2]
    apply List.Nodup.map_on _ w
    intro a ha b hb hab
    omega

end OQ.C09
