/-
  C07 ⟷ C02 — helper lemmas for OQ/Props/C07_Link.lean.
  * `Gate.All`: one generic "every node of the wrapper tree satisfies …" predicate, closed under the modifier METHODS
    (proved once; `WellDim`, `HermOK`, `NoFrac` and the new `Builtin`, `UShape`, `Pure` are instances of it).
  * the bridge between the base factory of the C07 model (`Base.builtin`) and `C02.gateMatrix` on the generated table.
  * unitarity is kept by `diag(1, ·)`, conjugate transpose, non-negative powers and (two-sided) inverses.
-/
import OQ.Lemmas.C07
import OQ.Props.C02
namespace OQ.C07
open Matrix OQ.Generated
open OQ.C02 (Row Laws Valid IsUnitaryOf IsSelfAdjointOf)

namespace Gate
variable {P R : Type}

/-- every base gate satisfies `pb`, every `Power` exponent `pe`, and `px` holds if an `Exponential` occurs -/
def All (pb : Base P R → Prop) (pe : Rat → Prop) (px : Prop) : Gate P R → Prop
  | base b => pb b
  | controlled g _ => All pb pe px g
  | dagger g => All pb pe px g
  | power g e => pe e ∧ All pb pe px g
  | exponential g => px ∧ All pb pe px g

variable {pb : Base P R → Prop} {pe : Rat → Prop} {px : Prop}

theorem all_powerM (g : Gate P R) (e : Rat) (he : pe e) (h : All pb pe px g) : All pb pe px (g.powerM e) := by
  induction g with
  | controlled y k ih => exact ih h
  | base b => exact ⟨he, h⟩
  | dagger y _ => exact ⟨he, h⟩
  | power y e' _ => exact ⟨he, h⟩
  | exponential y _ => exact ⟨he, h⟩

theorem all_daggerM (g : Gate P R) (h : All pb pe px g) : All pb pe px g.daggerM := by
  induction g with
  | base b => simp only [daggerM]; split <;> exact h
  | controlled y k ih => exact ih h
  | dagger y _ => exact h
  | power y e ih => exact all_powerM _ e h.1 (ih h.2)
  | exponential y ih => exact ⟨h.1, ih h.2⟩

theorem all_ctlP (g : Gate P R) (m : Nat) (h : All pb pe px g) : All pb pe px (g.ctlP m) := by
  induction g with
  | base b => exact h
  | controlled y k _ => exact h
  | dagger y ih => exact all_daggerM _ (ih h)
  | power y e ih => exact all_powerM _ e h.1 (ih h.2)
  | exponential y _ => exact h

theorem all_expM (g : Gate P R) (hx : px) (h : All pb pe px g) : All pb pe px g.expM := ⟨hx, h⟩

/-- weakening -/
theorem all_mono {pb' : Base P R → Prop} {pe' : Rat → Prop} {px' : Prop}
    (hb : ∀ b, pb b → pb' b) (he : ∀ e, pe e → pe' e) (hx : px → px') (g : Gate P R)
    (h : All pb pe px g) : All pb' pe' px' g := by
  induction g with
  | base b => exact hb b h
  | controlled y k ih => exact ih h
  | dagger y ih => exact ih h
  | power y e ih => exact ⟨he e h.1, ih h.2⟩
  | exponential y ih => exact ⟨hx h.1, ih h.2⟩

/-- which modifier calls are allowed in a chain -/
def Mod.Sat (pe : Rat → Prop) (px : Prop) : Mod → Prop
  | .dagger => True
  | .controlled _ => True
  | .power e => pe e
  | .exp => px

theorem all_apply (m : Mod) (hm : m.Sat pe px) (g : Gate P R) (h : All pb pe px g) : All pb pe px (m.apply g) := by
  cases m with
  | dagger => exact all_daggerM g h
  | controlled k => exact all_ctlP g k h
  | power e => exact all_powerM g e hm h
  | exp => exact all_expM g hm h

theorem all_applyChain (ms : List Mod) (hms : ∀ m ∈ ms, m.Sat pe px) (g : Gate P R) (h : All pb pe px g) :
    All pb pe px (applyChain g ms) := by
  induction ms generalizing g with
  | nil => exact h
  | cons m ms ih =>
    exact ih (fun m' hm' => hms m' (List.mem_cons_of_mem _ hm')) _ (all_apply m (hms m List.mem_cons_self) g h)

end Gate

/-! ### the predicates of OQ/Lemmas/C07.lean are instances of `Gate.All` -/
section Instances
variable {P R : Type}

theorem wellDim_of_all [Zero R] {pb : Base P R → Prop} {pe : Rat → Prop} {px : Prop}
    (hb : ∀ b, pb b → WellDim (.base b)) (g : Gate P R) (h : Gate.All pb pe px g) : WellDim g := by
  induction g with
  | base b => exact hb b h
  | controlled y k ih => exact ih h
  | dagger y ih => exact ih h
  | power y e ih => exact ih h.2
  | exponential y ih => exact ih h.2

theorem hermOK_of_all [CommRing R] [StarRing R] {pb : Base P R → Prop} {pe : Rat → Prop} {px : Prop}
    (hb : ∀ b, pb b → HermOK (.base b)) (g : Gate P R) (h : Gate.All pb pe px g) : HermOK g := by
  induction g with
  | base b => exact hb b h
  | controlled y k ih => exact ih h
  | dagger y ih => exact ih h
  | power y e ih => exact ih h.2
  | exponential y ih => exact ih h.2

theorem noFrac_of_all [CommRing R] [StarRing R] {pb : Base P R → Prop} {pe : Rat → Prop} {px : Prop}
    (he : ∀ e, pe e → e.den = 1) (g : Gate P R) (h : Gate.All pb pe px g) : NoFrac g := by
  induction g with
  | base b => trivial
  | controlled y k ih => exact ih h
  | dagger y ih => exact ih h
  | power y e ih => exact ⟨he e h.1, ih h.2⟩
  | exponential y ih => exact ih h.2

theorem all_of_noFrac [CommRing R] [StarRing R] (g : Gate P R) (h : NoFrac g) :
    Gate.All (fun _ => True) (fun e => e.den = 1) True g := by
  induction g with
  | base b => trivial
  | controlled y k ih => exact ih h
  | dagger y ih => exact ih h
  | power y e ih => exact ⟨h.1, ih h.2⟩
  | exponential y ih => exact ⟨trivial, ih h⟩

end Instances

/-! ### the hard-coded flags / arities of the C07 model agree with the table regenerated from the library -/

/-- `Base.builtin` takes `is_hermitian` and `num_qubits` from two lists written in OQ/Model/C07.lean; they agree with
    every row of `OQ.Generated.gateTable` (which is re-extracted from `_builtin_gates.py` on every run) -/
theorem table_agree : ∀ row ∈ gateTable,
    hermitianNames.contains (Row.name row) = Row.isHermitian row ∧ builtinNumQubits (Row.name row) = Row.numQubits row := by
  decide

section Bridge
variable {R : Type} [CommRing R] [StarRing R]

/-- the angle points of a parameter list -/
def angs (ps : List (Param R)) : List (Ang R) := ps.map Param.toAng

omit [StarRing R] in
/-- `C02.gateMatrix` on a row of the table with the right number of parameters IS the matrix factory -/
theorem c02_ok_iff (k : Scal R) (row : Row) (hrow : row ∈ gateTable) (as : List (Ang R))
    (hl : as.length = Row.numParams row) (M : Mat R) :
    C02.gateMatrix gateTable k (Row.name row) as = .ok M ↔ Gates.builtinMatrix k (Row.name row) as = some M := by
  unfold C02.gateMatrix
  rw [show C02.lookup gateTable (Row.name row) = some row from C02.lookup_row row hrow]
  simp only [hl, ne_eq, not_true_eq_false, if_false]
  cases Gates.builtinMatrix k (Row.name row) as <;> simp

omit [StarRing R] in
/-- `.matrix` of a built-in base gate of the C07 model = `.matrix` of the C02 model (same factory, same table row) -/
theorem builtin_factory_ok_iff (k : Scal R) (row : Row) (hrow : row ∈ gateTable) (ps : List (Param R))
    (hl : ps.length = Row.numParams row) (M : Mat R) :
    (Base.builtin k (Row.name row) ps).factory (Base.builtin k (Row.name row) ps).params = .ok M ↔
      C02.gateMatrix gateTable k (Row.name row) (angs ps) = .ok M := by
  rw [c02_ok_iff k row hrow (angs ps) (by simpa [angs] using hl)]
  show (match Gates.builtinMatrix k (Row.name row) (ps.map Param.toAng) with
    | some m => Except.ok m | none => Except.error Err.type) = .ok M ↔ _
  unfold angs
  cases Gates.builtinMatrix k (Row.name row) (ps.map Param.toAng) <;> simp

/-- a base gate of the C07 model that IS a built-in gate of the library: a name of the generated table, the number
    of parameters of its matrix factory, every parameter a valid angle point (cos θ/2, sin θ/2 of a real θ) -/
def BuiltinBase (k : Scal R) (b : Base (Param R) R) : Prop :=
  ∃ row ∈ gateTable, ∃ ps : List (Param R), b = Base.builtin k (Row.name row) ps ∧
    ps.length = Row.numParams row ∧ ∀ p ∈ ps, Valid p.toAng

/-- every base gate below the modifiers is a built-in gate (any exponents, `exp` allowed) -/
def Builtin (k : Scal R) : Gate (Param R) R → Prop := Gate.All (BuiltinBase k) (fun _ => True) True

/-- built-in bases, only INTEGER powers (what `dagger_adjoint_partial` needs below a dagger) -/
def BuiltinInt (k : Scal R) : Gate (Param R) R → Prop := Gate.All (BuiltinBase k) (fun e => e.den = 1) True

/-- built-in bases under dagger / controlled / integer power only (the modifiers that keep unitarity) -/
def UShape (k : Scal R) : Gate (Param R) R → Prop := Gate.All (BuiltinBase k) (fun e => e.den = 1) False

/-- built-in bases under dagger / controlled / NON-NEGATIVE integer power only: no sympy external is ever called -/
def Pure (k : Scal R) : Gate (Param R) R → Prop := Gate.All (BuiltinBase k) (fun e => e.den = 1 ∧ 0 ≤ e.num) False

theorem builtin_of_int {k : Scal R} (g : Gate (Param R) R) (h : BuiltinInt k g) : Builtin k g :=
  Gate.all_mono (fun _ h => h) (fun _ _ => trivial) id g h
theorem int_of_ushape {k : Scal R} (g : Gate (Param R) R) (h : UShape k g) : BuiltinInt k g :=
  Gate.all_mono (fun _ h => h) (fun _ h => h) (fun h => h.elim) g h
theorem ushape_of_pure {k : Scal R} (g : Gate (Param R) R) (h : Pure k g) : UShape k g :=
  Gate.all_mono (fun _ h => h) (fun _ h => h.1) id g h

theorem wellDim_base (k : Scal R) (b : Base (Param R) R) (hb : BuiltinBase k b) : WellDim (.base b) := by
  obtain ⟨row, hrow, ps, rfl, hl, _⟩ := hb
  intro M hM
  rw [builtin_factory_ok_iff k row hrow ps hl] at hM
  obtain ⟨M', hM', hr, hc⟩ := C02.builtin_dim k row hrow (angs ps) (by simpa [angs] using hl)
  rw [hM] at hM'; cases hM'
  have hq : (Base.builtin k (Row.name row) ps).numQubits = Row.numQubits row := (table_agree row hrow).2
  rw [hq]
  exact ⟨hr, hc⟩

theorem hermOK_base {k : Scal R} (hk : Laws k) (b : Base (Param R) R) (hb : BuiltinBase k b) : HermOK (.base b) := by
  obtain ⟨row, hrow, ps, rfl, hl, hv⟩ := hb
  intro hflag M d hM hr hc
  rw [builtin_factory_ok_iff k row hrow ps hl] at hM
  have hf : Row.isHermitian row = true := by
    rw [← (table_agree row hrow).1]; exact hflag
  obtain ⟨M', hM', hr', _, hsa⟩ := C02.flag_hermitian hk row hrow hf (angs ps) (by simpa [angs] using hl)
    (by intro a ha; obtain ⟨p, hp, rfl⟩ := List.mem_map.mp ha; exact hv p hp)
  rw [hM] at hM'; cases hM'
  have : d = 2 ^ Row.numQubits row := by rw [← hr, hr']
  subst this
  exact hsa

theorem unitary_base {k : Scal R} (hk : Laws k) (b : Base (Param R) R) (hb : BuiltinBase k b) (M : Mat R)
    (hM : b.factory b.params = .ok M) : IsUnitaryOf (2 ^ b.numQubits) M := by
  obtain ⟨row, hrow, ps, rfl, hl, hv⟩ := hb
  rw [builtin_factory_ok_iff k row hrow ps hl] at hM
  obtain ⟨M', hM', hU⟩ := C02.builtin_unitary hk row hrow (angs ps) (by simpa [angs] using hl)
    (by intro a ha; obtain ⟨p, hp, rfl⟩ := List.mem_map.mp ha; exact hv p hp)
  rw [hM] at hM'; cases hM'
  have hq : (Base.builtin k (Row.name row) ps).numQubits = Row.numQubits row := (table_agree row hrow).2
  rw [hq]
  exact hU

theorem ok_base (k : Scal R) (b : Base (Param R) R) (hb : BuiltinBase k b) : ∃ M, b.factory b.params = .ok M := by
  obtain ⟨row, hrow, ps, rfl, hl, _⟩ := hb
  obtain ⟨M, hM, _⟩ := C02.builtin_dim k row hrow (angs ps) (by simpa [angs] using hl)
  exact ⟨M, (builtin_factory_ok_iff k row hrow ps hl M).2 hM⟩

end Bridge

/-! ### unitarity on the Mathlib side -/
section Unitary
variable {R : Type} [CommRing R] [StarRing R]

/-- `A` is unitary (both products) -/
def IsU {d : Nat} (A : Matrix (Fin d) (Fin d) R) : Prop := Aᴴ * A = 1 ∧ A * Aᴴ = 1

theorem isU_blockDiag (d0 : Nat) {d : Nat} (A : Matrix (Fin d) (Fin d) R) (h : IsU A) : IsU (blockDiag d0 A) := by
  constructor
  · rw [← blockDiag_conjTranspose, ← blockDiag_mul, h.1, blockDiag_one]
  · rw [← blockDiag_conjTranspose, ← blockDiag_mul, h.2, blockDiag_one]

theorem isU_conjTranspose {d : Nat} (A : Matrix (Fin d) (Fin d) R) (h : IsU A) : IsU Aᴴ := by
  constructor
  · rw [Matrix.conjTranspose_conjTranspose]; exact h.2
  · rw [Matrix.conjTranspose_conjTranspose]; exact h.1

theorem isU_pow {d : Nat} (A : Matrix (Fin d) (Fin d) R) (h : IsU A) (n : Nat) : IsU (A ^ n) := by
  have hc : Commute Aᴴ A := by show Aᴴ * A = A * Aᴴ; rw [h.1, h.2]
  constructor
  · rw [Matrix.conjTranspose_pow, ← hc.mul_pow, h.1, one_pow]
  · rw [Matrix.conjTranspose_pow, ← hc.symm.mul_pow, h.2, one_pow]

/-- a left inverse of a unitary is its conjugate transpose -/
theorem inv_of_isU {d : Nat} (A W : Matrix (Fin d) (Fin d) R) (h : IsU A) (hW : W * A = 1) : W = Aᴴ := by
  calc W = W * (A * Aᴴ) := by rw [h.2, Matrix.mul_one]
    _ = (W * A) * Aᴴ := by rw [Matrix.mul_assoc]
    _ = Aᴴ := by rw [hW, Matrix.one_mul]

theorem isUnitaryOf_iff (d : Nat) (M : Mat R) : IsUnitaryOf d M ↔ M.r = d ∧ M.c = d ∧ IsU (Mat.toM d d M) := Iff.rfl

end Unitary

/-! ### lifting to the executable matrices -/
section Lift
variable {R : Type} [CommRing R] [StarRing R] {x : Ext R}

theorem ctl_unitary (d0 d : Nat) (Y : Mat R) (h : IsUnitaryOf d Y) : IsUnitaryOf (d0 + d) (ctlMatrix d0 Y) := by
  obtain ⟨hr, hc, hU⟩ := h
  have hU' : IsU (Mat.toM d d Y) := hU
  refine ⟨by rw [ctlMatrix_r, hr], by rw [ctlMatrix_c, hc], ?_⟩
  show IsU _
  rw [toM_ctlMatrix d0 d Y hr hc]
  exact isU_blockDiag d0 _ hU'

theorem adjoint_unitary (d : Nat) (Y : Mat R) (h : IsUnitaryOf d Y) : IsUnitaryOf d (adjointWith star Y) := by
  obtain ⟨hr, hc, hU⟩ := h
  have hU' : IsU (Mat.toM d d Y) := hU
  refine ⟨hc, hr, ?_⟩
  show IsU _
  rw [toM_adjointWith' d Y hr hc]
  exact isU_conjTranspose _ hU'

theorem npow_unitary (d : Nat) (Y : Mat R) (h : IsUnitaryOf d Y) (n : Nat) : IsUnitaryOf d (npow Y n) := by
  obtain ⟨hr, hc, hU⟩ := h
  have hU' : IsU (Mat.toM d d Y) := hU
  obtain ⟨a, b⟩ := npow_dims Y n d hr hc
  refine ⟨a, b, ?_⟩
  show IsU _
  rw [toM_npow d Y hr hc]
  exact isU_pow _ hU' n

/-- `M ** n` of a unitary for an integer `n` (negative: sympy's inverse, which is then the conjugate transpose) -/
theorem mpow_int_unitary (hx : ExtLaws x) (d : Nat) (Y M : Mat R) (e : Rat) (he : e.den = 1) (h : IsUnitaryOf d Y)
    (hM : mpow x Y e = .ok M) : IsUnitaryOf d M := by
  by_cases hn : 0 ≤ e.num
  · rw [mpow_nat Y M e he hn hM]
    exact npow_unitary d Y h _
  · have hn' : e.num < 0 := by omega
    obtain ⟨Yi, i1, i2⟩ := mpow_neg Y M e he hn' hM
    obtain ⟨hr, hc, hU⟩ := h
    have hU' : IsU (Mat.toM d d Y) := hU
    obtain ⟨j1, _⟩ := hx.inv_mul d Y Yi hr hc i1
    obtain ⟨k1, k2⟩ := hx.inv_dim _ _ i1
    have hW : Mat.toM d d Yi = (Mat.toM d d Y)ᴴ := inv_of_isU _ _ hU' j1
    have hYi : IsUnitaryOf d Yi := by
      refine ⟨by rw [k1, hr], by rw [k2, hc], ?_⟩
      show IsU _
      rw [hW]; exact isU_conjTranspose _ hU'
    rw [i2]
    exact npow_unitary d Yi hYi _

end Lift

/-! ### the library's gates at REAL angles, over ℂ -/
section Complex
open OQ.C02 (kC angR kC_laws angR_valid)

/-- `NAME(θ₁, …)` for real angles: the C07 base gate over ℂ with C02's constants `kC` and angle points `angR θ` -/
noncomputable def realBase (name : String) (θs : List ℝ) : Base (Param ℂ) ℂ :=
  Base.builtin kC name (θs.map fun θ => Param.ang (angR θ))

theorem real_builtinBase (row : Row) (hrow : row ∈ gateTable) (θs : List ℝ) (hl : θs.length = Row.numParams row) :
    BuiltinBase kC (realBase (Row.name row) θs) := by
  refine ⟨row, hrow, _, rfl, by simpa using hl, ?_⟩
  intro p hp
  obtain ⟨θ, _, rfl⟩ := List.mem_map.mp hp
  exact angR_valid θ

end Complex

/-! ### the driver's ring: rational circle points in ℚ(ζ₈) -/
section DriverRing
open OQ.C02 (cyc8_valid_of_rat)

/-- the driver's parameters: rational points (c, s) of the unit circle as angle points of ℚ(ζ₈) -/
def ratParams (qs : List (Rat × Rat)) : List (Param Cyc8) :=
  qs.map fun p => Param.ang ⟨Cyc8.ofRat p.1, Cyc8.ofRat p.2⟩

theorem driver_builtinBase (row : Row) (hrow : row ∈ gateTable) (qs : List (Rat × Rat))
    (hl : qs.length = Row.numParams row) (hq : ∀ p ∈ qs, p.1 * p.1 + p.2 * p.2 = 1) :
    BuiltinBase Scal.cyc8 (Base.builtin Scal.cyc8 (Row.name row) (ratParams qs)) := by
  refine ⟨row, hrow, _, rfl, by simpa [ratParams] using hl, ?_⟩
  intro p hp
  obtain ⟨q, hqm, rfl⟩ := List.mem_map.mp hp
  exact cyc8_valid_of_rat _ _ (hq q hqm)

end DriverRing

/-! ### instances for the non-vacuity examples of OQ/Props/C07_Link.lean -/
namespace Inst
section
variable (R : Type) [CommRing R]

open Classical in
/-- an `Ext` whose `inv` is a TRUE inverse: it answers with some two-sided inverse of the same shape whenever one
    exists and raises otherwise (the other two externals always raise) -/
noncomputable def extInv : Ext R :=
  { minv := fun A =>
      if h : ∃ B : Mat R, B.r = A.r ∧ B.c = A.c ∧ A.c = A.r ∧
          Mat.toM A.r A.r B * Mat.toM A.r A.r A = 1 ∧ Mat.toM A.r A.r A * Mat.toM A.r A.r B = 1
      then .ok (Classical.choose h) else .error .noninv
    mfrac := fun _ _ => .error (.ext "none")
    mexp := fun _ => .error (.ext "none") }

theorem extInv_spec (A B : Mat R) (h : (extInv R).minv A = .ok B) :
    B.r = A.r ∧ B.c = A.c ∧ A.c = A.r ∧
      Mat.toM A.r A.r B * Mat.toM A.r A.r A = 1 ∧ Mat.toM A.r A.r A * Mat.toM A.r A.r B = 1 := by
  simp only [extInv] at h
  split at h
  · rename_i hex
    cases h
    exact Classical.choose_spec hex
  · cases h

theorem extInv_laws : ExtLaws (extInv R) :=
  { inv_dim := by intro A B h; obtain ⟨a, b, _⟩ := extInv_spec R A B h; exact ⟨a, b⟩
    inv_mul := by
      intro d A B hr _ h
      obtain ⟨_, _, _, a, b⟩ := extInv_spec R A B h
      subst hr; exact ⟨a, b⟩
    frac_dim := by intro A e B h; cases h
    root := by intro d A e B _ _ _ _ h; cases h
    exp_dim := by intro A B h; cases h }

theorem extInv_exp (E) : ExpLaw (extInv R) E := by
  intro d A B _ _ h; cases h

end

/-- the true-inverse external succeeds on every unitary (with the conjugate transpose as a witness) -/
theorem extInv_ok_of_unitary {R : Type} [CommRing R] [StarRing R] (d : Nat) (M : Mat R) (h : IsUnitaryOf d M) :
    ∃ Mi, (extInv R).minv M = .ok Mi := by
  obtain ⟨hr, hc, h1, h2⟩ := h
  have hex : ∃ B : Mat R, B.r = M.r ∧ B.c = M.c ∧ M.c = M.r ∧
      Mat.toM M.r M.r B * Mat.toM M.r M.r M = 1 ∧ Mat.toM M.r M.r M * Mat.toM M.r M.r B = 1 := by
    subst hr
    refine ⟨adjointWith star M, hc, hc.symm, hc, ?_, ?_⟩
    · rw [toM_adjointWith' _ M rfl hc]; exact h1
    · rw [toM_adjointWith' _ M rfl hc]; exact h2
  exact ⟨Classical.choose hex, by simp only [extInv, hex, dif_pos]⟩

theorem mpow_neg_ok {R : Type} [Zero R] [One R] [Add R] [Mul R] (x : Ext R) (M Mi : Mat R) (e : Rat)
    (he : e.den = 1) (hn : e.num < 0) (h : x.minv M = .ok Mi) : mpow x M e = .ok (npow Mi (-e.num).toNat) := by
  have : ¬ (0 ≤ e.num) := by omega
  simp only [mpow, he, if_true, ipow, this, if_false, h]
  rfl

/-! concrete gates over ℚ(ζ₈) -/
section
open OQ.C02 (cyc8_valid_of_rat)
/-- RX at the half-angle point (3/5, 4/5), exact in ℚ(ζ₈) -/
def rxPt : Param Cyc8 := .ang ⟨Cyc8.ofRat (3/5), Cyc8.ofRat (4/5)⟩
def rxBase : Base (Param Cyc8) Cyc8 := Base.builtin Scal.cyc8 "RX" [rxPt]
def xBase : Base (Param Cyc8) Cyc8 := Base.builtin Scal.cyc8 "X" []

theorem rxBase_builtin : BuiltinBase Scal.cyc8 rxBase :=
  ⟨("RX", 1, 1, false), by decide, [rxPt], rfl, rfl, by
    intro p hp
    obtain rfl : p = rxPt := by simpa using hp
    exact cyc8_valid_of_rat _ _ (by norm_num)⟩

/-- `RX(θ).controlled(1).power(2)`: a `ControlledGate` around a `Power` around a base gate that is NOT flagged -/
def gEx : Gate (Param Cyc8) Cyc8 := Gate.applyChain (.base rxBase) [.controlled 0, .power 2]

theorem gEx_pure : Pure Scal.cyc8 gEx :=
  Gate.all_applyChain _ (by
    intro m hm
    simp only [List.mem_cons, List.not_mem_nil, or_false] at hm
    rcases hm with rfl | rfl
    · trivial
    · exact ⟨rfl, by decide⟩) _ rxBase_builtin

end

end Inst

end OQ.C07
