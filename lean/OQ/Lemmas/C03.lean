/-
  C03 — helper lemmas: the executable `denote` (OQ/Model/Pauli.lean) is `coefficient • ⨂_q σ_q` (`tden`, `sden`, `vden`),
  the generated multiplication table is the table of the 2×2 Pauli matrices, and every mechanism of
  OQ/Model/C03.lean (`mulByOp`, `mulTermOrd`, `simplify`, `productTerms`, `effExp`, …) is interpreted in that semantics.
-/
import OQ.Lemmas.C03_Tensor

set_option linter.unusedSectionVars false
set_option linter.unusedSimpArgs false

namespace OQ.C03
open OQ.Pauli Matrix

variable {R : Type} [CommRing R]

/-- the 2×2 matrix of an optional Pauli letter (`none` = identity), read off the executable `pauliMat` -/
def σ (k : Scal R) (o : Option P) : Matrix (Fin 2) (Fin 2) R := Mat.toM 2 2 (pauliMat k o)

theorem pauliMat_r (k : Scal R) (o : Option P) : (pauliMat k o).r = 2 := by
  rcases o with _ | (_ | _ | _) <;> rfl
theorem pauliMat_c (k : Scal R) (o : Option P) : (pauliMat k o).c = 2 := by
  rcases o with _ | (_ | _ | _) <;> rfl

theorem σ_none (k : Scal R) : σ k none = 1 := by
  ext i j; fin_cases i <;> fin_cases j <;>
    simp [σ, Mat.toM, pauliMat, Mat.ofLists, Mat.get_ofFn]
theorem σ_X (k : Scal R) : σ k (some .X) = !![0, 1; 1, 0] := by
  ext i j; fin_cases i <;> fin_cases j <;>
    simp [σ, Mat.toM, pauliMat, Mat.ofLists, Mat.get_ofFn]
theorem σ_Y (k : Scal R) : σ k (some .Y) = !![0, -k.i; k.i, 0] := by
  ext i j; fin_cases i <;> fin_cases j <;>
    simp [σ, Mat.toM, pauliMat, Mat.ofLists, Mat.get_ofFn]
theorem σ_Z (k : Scal R) : σ k (some .Z) = !![1, 0; 0, -1] := by
  ext i j; fin_cases i <;> fin_cases j <;>
    simp [σ, Mat.toM, pauliMat, Mat.ofLists, Mat.get_ofFn]


theorem σ_sq (k : Scal R) (hi : k.i * k.i = -1) (o : Option P) : σ k o * σ k o = 1 := by
  rcases o with _ | (_ | _ | _)
  · simp [σ_none]
  · rw [σ_X]; ext i j; fin_cases i <;> fin_cases j <;> simp [Matrix.mul_apply, Fin.sum_univ_two]
  · rw [σ_Y]; ext i j; fin_cases i <;> fin_cases j <;> simp [Matrix.mul_apply, Fin.sum_univ_two, hi]
  · rw [σ_Z]; ext i j; fin_cases i <;> fin_cases j <;> simp [Matrix.mul_apply, Fin.sum_univ_two]

theorem natTo_eq (n : Nat) : (natTo n : R) = (n : R) := by
  induction n with
  | zero => simp [natTo]
  | succ n ih => simp [natTo, ih]

theorem intTo_eq (z : Int) : (intTo z : R) = (z : R) := by
  cases z with
  | ofNat n => simp [intTo, natTo_eq]
  | negSucc n => simp [intTo, natTo_eq, Int.negSucc_eq]

/-- the generated tables are the multiplication table of the Pauli matrices: σ_a σ_b = COEFF_MAP[ab] · σ_{OPERATOR_MAP[a+b]} -/
theorem σ_mul_table (k : Scal R) (hi : k.i * k.i = -1) (a b : P) (hab : a ≠ b) :
    σ k (some a) * σ k (some b) = phase k (Gen.coeffTable a b) • σ k (some (Gen.opTable a b)) := by
  cases a <;> cases b <;> first
    | exact absurd rfl hab
    | (simp only [Gen.coeffTable, Gen.opTable, σ_X, σ_Y, σ_Z, phase, intTo_eq]
       ext i j; fin_cases i <;> fin_cases j <;> simp [Matrix.mul_apply, Fin.sum_univ_two, hi])


/-! ### the executable `denote` is the tensor product -/

theorem stringMatrix_succ (k : Scal R) (n : Nat) (at_ : Nat → Option P) :
    stringMatrix k (n + 1) at_ = Mat.kron (stringMatrix k n at_) (pauliMat k (at_ n)) := by
  unfold stringMatrix
  rw [List.range_succ, List.foldl_append]
  rfl

theorem stringMatrix_dims (k : Scal R) (n : Nat) (at_ : Nat → Option P) :
    (stringMatrix k n at_).r = 2 ^ n ∧ (stringMatrix k n at_).c = 2 ^ n := by
  induction n with
  | zero => exact ⟨rfl, rfl⟩
  | succ n ih =>
    rw [stringMatrix_succ]
    simp only [Mat.kron, Mat.ofFn_r, Mat.ofFn_c, ih.1, ih.2, pauliMat_r, pauliMat_c, pow_succ, and_self]

theorem stringMatrix_get (k : Scal R) (n : Nat) (at_ : Nat → Option P) (i j : Nat) (hi : i < 2 ^ n) (hj : j < 2 ^ n) :
    (stringMatrix k n at_).get i j = tensE (fun q => σ k (at_ q)) n i j := by
  induction n generalizing i j with
  | zero =>
    have hi0 : i = 0 := by simpa using hi
    have hj0 : j = 0 := by simpa using hj
    subst hi0 hj0
    simp only [stringMatrix, List.range_zero, List.foldl_nil, tensE, Mat.identity]
    rw [Mat.get_ofFn _ _ _ _ _ (by omega) (by omega)]; simp
  | succ n ih =>
    have hd := stringMatrix_dims k n at_
    rw [stringMatrix_succ, Mat.kron_get _ _ _ _ (by rw [hd.1, pauliMat_r, ← pow_succ]; exact hi)
      (by rw [hd.2, pauliMat_c, ← pow_succ]; exact hj)]
    simp only [pauliMat_r, pauliMat_c, tensE]
    rw [ih (i / 2) (j / 2) (by rw [pow_succ] at hi; omega) (by rw [pow_succ] at hj; omega)]
    rfl

/-- Mathlib-level denotation of a term: coefficient times the tensor product of its letters -/
def tden (k : Scal R) (n : Nat) (t : Term R) : Matrix (Fin (2 ^ n)) (Fin (2 ^ n)) R :=
  t.coeff • tens (fun q => σ k (lookup t.ops q)) n

/-- Mathlib-level denotation of a sum -/
def sden (k : Scal R) (n : Nat) (s : PSum R) : Matrix (Fin (2 ^ n)) (Fin (2 ^ n)) R :=
  (s.map (tden k n)).sum

theorem denote_dims (k : Scal R) (n : Nat) (t : Term R) : (t.denote k n).r = 2 ^ n ∧ (t.denote k n).c = 2 ^ n := by
  simp only [Term.denote, Mat.smul, Mat.ofFn_r, Mat.ofFn_c]
  exact stringMatrix_dims k n _

theorem toM_denote_term (k : Scal R) (n : Nat) (t : Term R) :
    Mat.toM (2 ^ n) (2 ^ n) (t.denote k n) = tden k n t := by
  have hd := stringMatrix_dims k n t.opAt
  funext i j
  simp only [Mat.toM, Term.denote, Mat.smul, tden, Matrix.smul_apply, tens_apply, smul_eq_mul]
  rw [Mat.get_ofFn _ _ _ _ _ (by rw [hd.1]; exact i.2) (by rw [hd.2]; exact j.2),
    stringMatrix_get k n _ i j i.2 j.2]
  rfl

theorem toM_foldl_add (k : Scal R) (n : Nat) (s : PSum R) (acc : Mat R) (hr : acc.r = 2 ^ n) (hc : acc.c = 2 ^ n) :
    Mat.toM (2 ^ n) (2 ^ n) (s.foldl (fun acc t => Mat.add acc (t.denote k n)) acc)
      = Mat.toM (2 ^ n) (2 ^ n) acc + sden k n s := by
  induction s generalizing acc with
  | nil => simp [sden]
  | cons t s ih =>
    rw [List.foldl_cons, ih _ (by simp [Mat.add, hr]) (by simp [Mat.add, hc])]
    have : Mat.toM (2 ^ n) (2 ^ n) (Mat.add acc (t.denote k n)) = Mat.toM (2 ^ n) (2 ^ n) acc + tden k n t := by
      rw [← toM_denote_term]
      funext i j
      simp only [Mat.toM, Mat.add, Matrix.add_apply]
      rw [Mat.get_ofFn _ _ _ _ _ (by rw [hr]; exact i.2) (by rw [hc]; exact j.2)]
    rw [this, sden, sden, List.map_cons, List.sum_cons, add_assoc]

theorem toM_denote_sum (k : Scal R) (n : Nat) (s : PSum R) :
    Mat.toM (2 ^ n) (2 ^ n) (PSum.denote k n s) = sden k n s := by
  unfold PSum.denote
  rw [toM_foldl_add k n s _ rfl rfl]
  have : Mat.toM (2 ^ n) (2 ^ n) (Mat.ofFn (2 ^ n) (2 ^ n) (fun _ _ => (0 : R))) = 0 := by
    funext i j
    simp only [Mat.toM]
    rw [Mat.get_ofFn _ _ _ _ _ i.2 j.2]; rfl
  rw [this, zero_add]


/-! ### dict operations -/

theorem lookup_nil (q : Nat) : lookup [] q = none := rfl

theorem lookup_cons (p : Nat × P) (ops : List (Nat × P)) (q : Nat) :
    lookup (p :: ops) q = if p.1 = q then some p.2 else lookup ops q := by
  unfold lookup
  rw [List.find?_cons]
  by_cases h : p.1 = q
  · have : (p.1 == q) = true := by simpa using h
    simp [this, h]
  · have : (p.1 == q) = false := by simpa using h
    simp [this, h]

theorem lookup_mem {ops : List (Nat × P)} {q : Nat} {a : P} (h : lookup ops q = some a) : (q, a) ∈ ops := by
  induction ops with
  | nil => simp [lookup_nil] at h
  | cons p ops ih =>
    rw [lookup_cons] at h
    by_cases hp : p.1 = q
    · simp only [hp, if_true, Option.some.injEq] at h
      have : p = (q, a) := by ext <;> simp [hp, h]
      simp [this]
    · simp only [hp, if_false] at h
      exact List.mem_cons_of_mem _ (ih h)

theorem lookup_append_new (ops : List (Nat × P)) (idx : Nat) (op : P) (h : lookup ops idx = none) (q : Nat) :
    lookup (ops ++ [(idx, op)]) q = if q = idx then some op else lookup ops q := by
  induction ops with
  | nil =>
    simp only [List.nil_append, lookup_cons, lookup_nil]
    by_cases hq : q = idx
    · simp [hq]
    · simp [hq, Ne.symm hq]
  | cons p ops ih =>
    rw [lookup_cons] at h
    by_cases hp : p.1 = idx
    · simp [hp] at h
    · simp only [hp, if_false] at h
      rw [List.cons_append, lookup_cons, lookup_cons, ih h]
      by_cases hq : q = idx
      · subst hq; simp [hp]
      · simp [hq]

theorem lookup_erase (ops : List (Nat × P)) (idx q : Nat) :
    lookup (opsErase ops idx) q = if q = idx then none else lookup ops q := by
  induction ops with
  | nil => simp [opsErase, lookup_nil]
  | cons p ops ih =>
    unfold opsErase at ih ⊢
    rw [List.filter_cons]
    by_cases hp : p.1 = idx
    · simp only [hp, bne_self_eq_false, Bool.false_eq_true, if_false, ih, lookup_cons]
      by_cases hq : q = idx
      · simp [hq]
      · simp [hq, Ne.symm hq]
    · have : (p.1 != idx) = true := by simpa using hp
      simp only [this, if_true, lookup_cons, ih]
      by_cases hq : q = idx
      · subst hq; simp [hp]
      · simp [hq]

theorem lookup_set (ops : List (Nat × P)) (idx : Nat) (op : P) (q : Nat) :
    lookup (opsSet ops idx op) q = if q = idx then (lookup ops idx).map (fun _ => op) else lookup ops q := by
  induction ops with
  | nil => simp [opsSet, lookup_nil]
  | cons p ops ih =>
    unfold opsSet at ih ⊢
    rw [List.map_cons, lookup_cons, ih, lookup_cons, lookup_cons]
    by_cases hp : p.1 = idx
    · have : (p.1 == idx) = true := by simpa using hp
      simp only [this, if_true, hp]
      by_cases hq : q = idx
      · subst hq; simp
      · simp [hq, Ne.symm hq]
    · have : (p.1 == idx) = false := by simpa using hp
      simp only [this, Bool.false_eq_true, if_false, hp]
      by_cases hq : q = idx
      · subst hq; simp [hp]
      · simp [hq]

/-! ### `_multiply_by_operator` -/

/-- the single-letter operator `op` on qubit `idx`, identity elsewhere -/
def single (k : Scal R) (idx : Nat) (op : P) : Nat → Matrix (Fin 2) (Fin 2) R :=
  fun q => if q = idx then σ k (some op) else 1

theorem mulByOp_den (k : Scal R) (hi : k.i * k.i = -1) (n : Nat) (t : Term R) (op : P) (idx : Nat) (hidx : idx < n) :
    tden k n (mulByOp k t op idx) = tden k n t * tens (single k idx op) n := by
  unfold tden
  rw [Matrix.smul_mul, tens_mul]
  unfold mulByOp
  cases hl : lookup t.ops idx with
  | none =>
    simp only
    congr 1
    apply tens_congr
    intro q _
    simp only [lookup_append_new _ _ _ hl, single]
    by_cases hq : q = idx
    · subst hq; simp [hl, σ_none]
    · simp [hq]
  | some a =>
    simp only
    by_cases hop : a = op
    · subst hop
      simp only [if_true]
      congr 1
      apply tens_congr
      intro q _
      simp only [lookup_erase, single]
      by_cases hq : q = idx
      · subst hq; simp [hl, σ_sq k hi, σ_none]
      · simp [hq]
    · simp only [hop, if_false]
      rw [mul_smul]
      congr 1
      symm
      apply tens_smul_at n idx _ hidx
      · intro q _ hq
        simp [lookup_set, single, hq]
      · simp only [lookup_set, single, if_true, hl, Option.map_some]
        exact σ_mul_table k hi a op hop


/-! ### widths -/

/-- every qubit index of the term is below `n` (`n ≥ term.n_qubits`) -/
def TermFits (n : Nat) (t : Term R) : Prop := ∀ p ∈ t.ops, p.1 < n
/-- every term of the sum fits in `n` qubits -/
def SumFits (n : Nat) (s : PSum R) : Prop := ∀ t ∈ s, TermFits n t

theorem mulByOp_fits (k : Scal R) (n : Nat) (t : Term R) (op : P) (idx : Nat) (ht : TermFits n t) (hidx : idx < n) :
    TermFits n (mulByOp k t op idx) := by
  unfold mulByOp
  cases lookup t.ops idx with
  | none =>
    intro p hp
    simp only [List.mem_append, List.mem_singleton] at hp
    rcases hp with hp | hp
    · exact ht p hp
    · rw [hp]; exact hidx
  | some a =>
    simp only
    split
    · intro p hp
      simp only [opsErase, List.mem_filter] at hp
      exact ht p hp.1
    · intro p hp
      simp only [opsSet, List.mem_map] at hp
      obtain ⟨p', hp', rfl⟩ := hp
      split
      · exact hidx
      · exact ht p' hp'

/-! ### term × term -/

/-- the loop body of `PauliTerm.__mul__` -/
def mulStep (k : Scal R) (u : Term R) (r : Term R) (q : Nat) : Term R :=
  match lookup u.ops q with
  | some op => mulByOp k r op q
  | none => r

theorem mulTermOrd_eq (k : Scal R) (order : List Nat) (t u : Term R) :
    mulTermOrd k order t u =
      ⟨(order.foldl (mulStep k u) ⟨t.ops, 1⟩).ops, (order.foldl (mulStep k u) ⟨t.ops, 1⟩).coeff * (t.coeff * u.coeff)⟩ := rfl

/-- the letters of `u` on the qubits listed in `ks`, identity elsewhere -/
def part (k : Scal R) (u : Term R) (ks : List Nat) : Nat → Matrix (Fin 2) (Fin 2) R :=
  fun q => if q ∈ ks then σ k (lookup u.ops q) else 1

theorem foldl_mulStep_den (k : Scal R) (hi : k.i * k.i = -1) (n : Nat) (u : Term R) (hu : TermFits n u)
    (ks : List Nat) (hnd : ks.Nodup) (r : Term R) :
    tden k n (ks.foldl (mulStep k u) r) = tden k n r * tens (part k u ks) n := by
  induction ks generalizing r with
  | nil =>
    have : part k u [] = fun _ => (1 : Matrix (Fin 2) (Fin 2) R) := by funext q; simp [part]
    rw [List.foldl_nil, this, tens_one, mul_one]
  | cons q ks ih =>
    have hq : q ∉ ks := (List.nodup_cons.mp hnd).1
    rw [List.foldl_cons, ih (List.nodup_cons.mp hnd).2]
    unfold mulStep
    cases hl : lookup u.ops q with
    | none =>
      simp only
      congr 1
      apply tens_congr
      intro q' _
      simp only [part, List.mem_cons]
      by_cases h : q' = q
      · subst h; simp [hq, hl, σ_none]
      · simp [h]
    | some op =>
      simp only
      have hqn : q < n := hu _ (lookup_mem hl)
      rw [mulByOp_den k hi n r op q hqn, mul_assoc, tens_mul]
      congr 1
      apply tens_congr
      intro q' _
      simp only [part, single, List.mem_cons]
      by_cases h : q' = q
      · subst h; simp [hq, hl]
      · simp [h]

theorem foldl_mulStep_fits (k : Scal R) (n : Nat) (u : Term R) (hu : TermFits n u) (ks : List Nat) (r : Term R)
    (hr : TermFits n r) : TermFits n (ks.foldl (mulStep k u) r) := by
  induction ks generalizing r with
  | nil => exact hr
  | cons q ks ih =>
    rw [List.foldl_cons]
    apply ih
    unfold mulStep
    cases hl : lookup u.ops q with
    | none => exact hr
    | some op => exact mulByOp_fits k n r op q hr (hu _ (lookup_mem hl))

theorem tden_scale (k : Scal R) (n : Nat) (ops : List (Nat × P)) (c x : R) :
    tden k n ⟨ops, c * x⟩ = x • tden k n ⟨ops, c⟩ := by
  simp only [tden, smul_smul, mul_comm]

/-- `t * u` denotes the matrix product, whatever order the qubits of `u` are visited in -/
theorem mulTermOrd_den (k : Scal R) (hi : k.i * k.i = -1) (n : Nat) (t u : Term R) (order : List Nat)
    (hu : TermFits n u) (hnd : order.Nodup) (hcov : ∀ q a, lookup u.ops q = some a → q ∈ order) :
    tden k n (mulTermOrd k order t u) = tden k n t * tden k n u := by
  rw [mulTermOrd_eq, tden_scale]
  have h := foldl_mulStep_den k hi n u hu order hnd ⟨t.ops, 1⟩
  have hp : tens (part k u order) n = tens (fun q => σ k (lookup u.ops q)) n := by
    apply tens_congr
    intro q _
    simp only [part]
    by_cases hq : q ∈ order
    · simp [hq]
    · cases hl : lookup u.ops q with
      | none => simp [hq, σ_none]
      | some a => exact absurd (hcov q a hl) hq
  have : tden k n ⟨(order.foldl (mulStep k u) ⟨t.ops, 1⟩).ops, (order.foldl (mulStep k u) ⟨t.ops, 1⟩).coeff⟩
      = tden k n (order.foldl (mulStep k u) ⟨t.ops, 1⟩) := rfl
  rw [this, h, hp]
  simp only [tden, one_smul, Matrix.smul_mul, Matrix.mul_smul, smul_smul]
  congr 1
  ring

theorem mulTermOrd_fits (k : Scal R) (n : Nat) (t u : Term R) (order : List Nat) (ht : TermFits n t) (hu : TermFits n u) :
    TermFits n (mulTermOrd k order t u) := by
  rw [mulTermOrd_eq]
  exact foldl_mulStep_fits k n u hu order ⟨t.ops, 1⟩ ht

/-! ### the dict order as iteration order -/

theorem keys_spec (ops : List (Nat × P)) : (keys ops).Nodup ∧ ∀ q, q ∈ keys ops ↔ ∃ p ∈ ops, p.1 = q := by
  unfold keys
  suffices h : ∀ acc : List Nat, acc.Nodup →
      (ops.foldl (fun acc p => if acc.contains p.1 then acc else acc ++ [p.1]) acc).Nodup ∧
      ∀ q, q ∈ ops.foldl (fun acc p => if acc.contains p.1 then acc else acc ++ [p.1]) acc ↔ q ∈ acc ∨ ∃ p ∈ ops, p.1 = q by
    simpa using h [] List.nodup_nil
  induction ops with
  | nil => intro acc hacc; simp [hacc]
  | cons p ops ih =>
    intro acc hacc
    rw [List.foldl_cons]
    by_cases hc : p.1 ∈ acc
    · have : acc.contains p.1 = true := by simpa using hc
      simp only [this, if_true]
      refine ⟨(ih acc hacc).1, fun q => ?_⟩
      rw [(ih acc hacc).2 q]
      constructor
      · rintro (h | ⟨p', hp', rfl⟩)
        · exact Or.inl h
        · exact Or.inr ⟨p', List.mem_cons_of_mem _ hp', rfl⟩
      · rintro (h | ⟨p', hp', rfl⟩)
        · exact Or.inl h
        · rcases List.mem_cons.mp hp' with rfl | h'
          · exact Or.inl hc
          · exact Or.inr ⟨p', h', rfl⟩
    · have : acc.contains p.1 = false := by simpa using hc
      simp only [this, Bool.false_eq_true, if_false]
      have hnd : (acc ++ [p.1]).Nodup := by
        rw [List.nodup_append]
        refine ⟨hacc, List.nodup_singleton _, ?_⟩
        intro a ha b hb
        simp only [List.mem_singleton] at hb
        subst hb
        exact fun h => hc (h ▸ ha)
      refine ⟨(ih _ hnd).1, fun q => ?_⟩
      rw [(ih _ hnd).2 q]
      constructor
      · rintro (h | ⟨p', hp', rfl⟩)
        · rcases List.mem_append.mp h with h | h
          · exact Or.inl h
          · exact Or.inr ⟨p, List.mem_cons_self, (List.mem_singleton.mp h).symm⟩
        · exact Or.inr ⟨p', List.mem_cons_of_mem _ hp', rfl⟩
      · rintro (h | ⟨p', hp', rfl⟩)
        · exact Or.inl (List.mem_append_left _ h)
        · rcases List.mem_cons.mp hp' with rfl | h'
          · exact Or.inl (List.mem_append_right _ (List.mem_singleton.mpr rfl))
          · exact Or.inr ⟨p', h', rfl⟩

theorem mulTerm_den (k : Scal R) (hi : k.i * k.i = -1) (n : Nat) (t u : Term R) (hu : TermFits n u) :
    tden k n (mulTerm k t u) = tden k n t * tden k n u := by
  have hk := keys_spec u.ops
  exact mulTermOrd_den k hi n t u _ hu hk.1 (fun q a h => (hk.2 q).mpr ⟨(q, a), lookup_mem h, rfl⟩)

theorem mulTerm_fits (k : Scal R) (n : Nat) (t u : Term R) (ht : TermFits n t) (hu : TermFits n u) :
    TermFits n (mulTerm k t u) := mulTermOrd_fits k n t u _ ht hu


/-! ### simplify -/

theorem opsEq_lookup {a b : List (Nat × P)} (h : opsEq a b = true) (q : Nat) : lookup a q = lookup b q := by
  unfold opsEq at h
  rw [Bool.and_eq_true, List.all_eq_true, List.all_eq_true] at h
  cases ha : lookup a q with
  | some x =>
    have := h.1 _ (lookup_mem ha)
    simp only [beq_iff_eq] at this
    exact this.symm
  | none =>
    cases hb : lookup b q with
    | none => rfl
    | some y =>
      have := h.2 _ (lookup_mem hb)
      simp only [beq_iff_eq] at this
      rw [ha] at this
      exact this

theorem sden_nil (k : Scal R) (n : Nat) : sden k n ([] : PSum R) = 0 := rfl
theorem sden_cons (k : Scal R) (n : Nat) (t : Term R) (s : PSum R) : sden k n (t :: s) = tden k n t + sden k n s := by
  simp [sden]
theorem sden_append (k : Scal R) (n : Nat) (s1 s2 : PSum R) : sden k n (s1 ++ s2) = sden k n s1 + sden k n s2 := by
  simp [sden, List.sum_append]
theorem sden_singleton (k : Scal R) (n : Nat) (t : Term R) : sden k n [t] = tden k n t := by
  simp [sden]

/-- denotation of one OrderedDict value -/
def gden (k : Scal R) (n : Nat) (g : Group R) : Matrix (Fin (2 ^ n)) (Fin (2 ^ n)) R :=
  tden k n g.first + sden k n g.rest
def gsden (k : Scal R) (n : Nat) (gs : List (Group R)) : Matrix (Fin (2 ^ n)) (Fin (2 ^ n)) R :=
  (gs.map (gden k n)).sum
/-- all members of a group carry the same operator string as its first term -/
def GroupOk (g : Group R) : Prop := ∀ t ∈ g.rest, ∀ q, lookup t.ops q = lookup g.first.ops q

theorem insertGroup_den (k : Scal R) (n : Nat) (gs : List (Group R)) (t : Term R) :
    gsden k n (insertGroup gs t) = gsden k n gs + tden k n t := by
  induction gs with
  | nil => simp [insertGroup, gsden, gden, sden]
  | cons g gs ih =>
    unfold insertGroup
    split
    · simp only [gsden, List.map_cons, List.sum_cons, gden, sden_append, sden_singleton]
      abel
    · simp only [gsden, List.map_cons, List.sum_cons] at ih ⊢
      rw [ih]; abel

theorem insertGroup_ok (gs : List (Group R)) (t : Term R) (h : ∀ g ∈ gs, GroupOk g) :
    ∀ g ∈ insertGroup gs t, GroupOk g := by
  induction gs with
  | nil =>
    intro g hg
    simp only [insertGroup, List.mem_singleton] at hg
    subst hg
    intro t' ht'; simp at ht'
  | cons g gs ih =>
    unfold insertGroup
    split
    · rename_i heq
      intro g' hg'
      rcases List.mem_cons.mp hg' with rfl | hg'
      · intro t' ht' q
        simp only [List.mem_append, List.mem_singleton] at ht'
        rcases ht' with ht' | rfl
        · exact h g List.mem_cons_self t' ht' q
        · exact (opsEq_lookup heq q).symm
      · exact h g' (List.mem_cons_of_mem _ hg')
    · intro g' hg'
      rcases List.mem_cons.mp hg' with rfl | hg'
      · exact h _ List.mem_cons_self
      · exact ih (fun g'' hg'' => h g'' (List.mem_cons_of_mem _ hg'')) g' hg'

theorem foldl_insertGroup_den (k : Scal R) (n : Nat) (s : PSum R) (gs : List (Group R)) :
    gsden k n (s.foldl insertGroup gs) = gsden k n gs + sden k n s := by
  induction s generalizing gs with
  | nil => simp [sden_nil]
  | cons t s ih => rw [List.foldl_cons, ih, insertGroup_den, sden_cons, add_assoc]

theorem foldl_insertGroup_ok (s : PSum R) (gs : List (Group R)) (h : ∀ g ∈ gs, GroupOk g) :
    ∀ g ∈ s.foldl insertGroup gs, GroupOk g := by
  induction s generalizing gs with
  | nil => exact h
  | cons t s ih => rw [List.foldl_cons]; exact ih _ (insertGroup_ok gs t h)

theorem likeTerms_den (k : Scal R) (n : Nat) (s : PSum R) : gsden k n (likeTerms s) = sden k n s := by
  unfold likeTerms
  rw [foldl_insertGroup_den]; simp [gsden]

theorem likeTerms_ok (s : PSum R) : ∀ g ∈ likeTerms s, GroupOk g :=
  foldl_insertGroup_ok s [] (fun _ h => by simp at h)

theorem foldl_add_coeff (l : List (Term R)) (a : R) :
    l.foldl (fun acc t => acc + t.coeff) a = a + (l.map (·.coeff)).sum := by
  induction l generalizing a with
  | nil => simp
  | cons t l ih => rw [List.foldl_cons, ih, List.map_cons, List.sum_cons, add_assoc]

theorem coeffSum_eq (g : Group R) : g.coeffSum = g.first.coeff + (g.rest.map (·.coeff)).sum := by
  unfold Group.coeffSum
  rw [List.foldl_cons, foldl_add_coeff, zero_add]

theorem gden_ok (k : Scal R) (n : Nat) (g : Group R) (hg : GroupOk g) :
    gden k n g = g.coeffSum • tens (fun q => σ k (lookup g.first.ops q)) n := by
  rw [coeffSum_eq, add_smul]
  unfold gden
  congr 1
  have : ∀ l : List (Term R), (∀ t ∈ l, ∀ q, lookup t.ops q = lookup g.first.ops q) →
      sden k n l = (l.map (·.coeff)).sum • tens (fun q => σ k (lookup g.first.ops q)) n := by
    intro l
    induction l with
    | nil => intro _; simp [sden_nil]
    | cons t l ih =>
      intro h
      rw [sden_cons, ih (fun t' ht' => h t' (List.mem_cons_of_mem _ ht')), List.map_cons, List.sum_cons, add_smul]
      congr 1
      unfold tden
      congr 2
      funext q
      rw [h t List.mem_cons_self q]
  exact this g.rest hg

/-- what `simplify` discards from a group: the merged term whose coefficient is negligible -/
def droppedGroup (negl : R → Bool) (g : Group R) : List (Term R) :=
  if g.rest.isEmpty && !negl g.first.coeff then []
  else if !negl g.coeffSum then [] else [⟨g.first.ops, g.coeffSum⟩]

/-- everything `simplify` discards from a sum -/
def dropped (negl : R → Bool) (s : PSum R) : PSum R := (likeTerms s).flatMap (droppedGroup negl)

theorem simplifyGroup_den (k : Scal R) (n : Nat) (negl : R → Bool) (g : Group R) (hg : GroupOk g) :
    sden k n (simplifyGroup negl g) + sden k n (droppedGroup negl g) = gden k n g := by
  unfold simplifyGroup droppedGroup
  by_cases h1 : (g.rest.isEmpty && !negl g.first.coeff) = true
  · simp only [h1, if_true, sden_singleton, sden_nil, add_zero]
    have : g.rest = [] := by
      rw [Bool.and_eq_true] at h1
      exact List.isEmpty_iff.mp h1.1
    simp [gden, this, sden_nil]
  · simp only [h1, Bool.false_eq_true, if_false]
    rw [gden_ok k n g hg]
    by_cases h2 : (!negl g.coeffSum) = true
    · simp [h2, sden_singleton, sden_nil, tden]
    · simp [h2, sden_singleton, sden_nil, tden]

theorem sden_flatMap {α : Type} (k : Scal R) (n : Nat) (l : List α) (f : α → PSum R) :
    sden k n (l.flatMap f) = (l.map (fun a => sden k n (f a))).sum := by
  induction l with
  | nil => simp [sden_nil]
  | cons a l ih => rw [List.flatMap_cons, sden_append, ih, List.map_cons, List.sum_cons]

/-- simplification changes the denoted matrix exactly by what it discards -/
theorem simplify_den (k : Scal R) (n : Nat) (negl : R → Bool) (s : PSum R) :
    sden k n (simplify negl s) + sden k n (dropped negl s) = sden k n s := by
  rw [← likeTerms_den k n s]
  unfold simplify dropped gsden
  rw [sden_flatMap, sden_flatMap]
  have hok := likeTerms_ok s
  generalize likeTerms s = gs at hok
  induction gs with
  | nil => simp
  | cons g gs ih =>
    simp only [List.map_cons, List.sum_cons]
    rw [← simplifyGroup_den k n negl g (hok g List.mem_cons_self),
      ← ih (fun g' hg' => hok g' (List.mem_cons_of_mem _ hg'))]
    abel

theorem dropped_negl (negl : R → Bool) (s : PSum R) : ∀ d ∈ dropped negl s, negl d.coeff = true := by
  intro d hd
  unfold dropped at hd
  rw [List.mem_flatMap] at hd
  obtain ⟨g, _, hd⟩ := hd
  unfold droppedGroup at hd
  split at hd
  · simp at hd
  · split at hd
    · simp at hd
    · rename_i h2
      simp only [List.mem_singleton] at hd
      subst hd
      simpa using h2

theorem tden_zero_coeff (k : Scal R) (n : Nat) (t : Term R) (h : t.coeff = 0) : tden k n t = 0 := by
  simp [tden, h]

theorem simplify_den_exact (k : Scal R) (n : Nat) (negl : R → Bool) (hex : ∀ c, negl c = true → c = 0) (s : PSum R) :
    sden k n (simplify negl s) = sden k n s := by
  rw [← simplify_den k n negl s]
  have : sden k n (dropped negl s) = 0 := by
    have h := dropped_negl negl s
    generalize dropped negl s = l at h
    induction l with
    | nil => rfl
    | cons t l ih =>
      rw [sden_cons, tden_zero_coeff k n t (hex _ (h t List.mem_cons_self)),
        ih (fun d hd => h d (List.mem_cons_of_mem _ hd)), add_zero]
  rw [this, add_zero]

/-! widths are preserved by simplify -/

theorem insertGroup_fits (n : Nat) (gs : List (Group R)) (t : Term R) (ht : TermFits n t)
    (h : ∀ g ∈ gs, TermFits n g.first) : ∀ g ∈ insertGroup gs t, TermFits n g.first := by
  induction gs with
  | nil =>
    intro g hg
    simp only [insertGroup, List.mem_singleton] at hg
    subst hg; exact ht
  | cons g gs ih =>
    unfold insertGroup
    split
    · intro g' hg'
      rcases List.mem_cons.mp hg' with rfl | hg'
      · exact h g List.mem_cons_self
      · exact h g' (List.mem_cons_of_mem _ hg')
    · intro g' hg'
      rcases List.mem_cons.mp hg' with rfl | hg'
      · exact h _ List.mem_cons_self
      · exact ih (fun g'' hg'' => h g'' (List.mem_cons_of_mem _ hg'')) g' hg'

theorem foldl_insertGroup_fits (n : Nat) (s : PSum R) (hs : SumFits n s) (gs : List (Group R))
    (h : ∀ g ∈ gs, TermFits n g.first) : ∀ g ∈ s.foldl insertGroup gs, TermFits n g.first := by
  induction s generalizing gs with
  | nil => exact h
  | cons t s ih =>
    rw [List.foldl_cons]
    exact ih (fun t' ht' => hs t' (List.mem_cons_of_mem _ ht')) _ (insertGroup_fits n gs t (hs t List.mem_cons_self) h)

theorem simplify_fits (n : Nat) (negl : R → Bool) (s : PSum R) (hs : SumFits n s) : SumFits n (simplify negl s) := by
  intro t ht
  unfold simplify at ht
  rw [List.mem_flatMap] at ht
  obtain ⟨g, hg, ht⟩ := ht
  have hgf : TermFits n g.first := foldl_insertGroup_fits n s hs [] (fun _ h => by simp at h) g hg
  unfold simplifyGroup at ht
  split at ht
  · simp only [List.mem_singleton] at ht; subst ht; exact hgf
  · dsimp only at ht
    split at ht
    · simp only [List.mem_singleton] at ht; subst ht; exact hgf
    · simp at ht


/-! ### sums -/

theorem tden_constTerm (k : Scal R) (n : Nat) (x : R) : tden k n (constTerm x) = x • 1 := by
  unfold tden constTerm
  have : tens (fun q => σ k (lookup ([] : List (Nat × P)) q)) n = tens (fun _ => (1 : Matrix (Fin 2) (Fin 2) R)) n :=
    tens_congr n (fun q _ => by simp [lookup_nil, σ_none])
  rw [this, tens_one]

theorem tden_identityTerm (k : Scal R) (n : Nat) : tden k n (identityTerm (R := R)) = 1 := by
  unfold identityTerm; rw [tden_constTerm, one_smul]

theorem constTerm_fits (n : Nat) (x : R) : TermFits n (constTerm x) := by
  intro p hp; simp [constTerm] at hp

theorem identityTerm_fits (n : Nat) : TermFits n (identityTerm (R := R)) := constTerm_fits n 1

theorem tden_scaleTerm (k : Scal R) (n : Nat) (t : Term R) (x : R) : tden k n (scaleTerm t x) = x • tden k n t := by
  unfold scaleTerm; exact tden_scale k n t.ops t.coeff x

theorem scaleTerm_fits (n : Nat) (t : Term R) (x : R) (ht : TermFits n t) : TermFits n (scaleTerm t x) := ht

theorem sden_map_mulTerm (k : Scal R) (hi : k.i * k.i = -1) (n : Nat) (l : Term R) (s : PSum R) (hs : SumFits n s) :
    sden k n (s.map (fun r => mulTerm k l r)) = tden k n l * sden k n s := by
  induction s with
  | nil => simp [sden_nil]
  | cons r s ih =>
    rw [List.map_cons, sden_cons, sden_cons, ih (fun t ht => hs t (List.mem_cons_of_mem _ ht)),
      mulTerm_den k hi n l r (hs r List.mem_cons_self), Matrix.mul_add]

theorem productTerms_den (k : Scal R) (hi : k.i * k.i = -1) (n : Nat) (s1 s2 : PSum R) (hs : SumFits n s2) :
    sden k n (productTerms k s1 s2) = sden k n s1 * sden k n s2 := by
  unfold productTerms
  induction s1 with
  | nil => simp [sden_nil]
  | cons l s1 ih =>
    rw [List.flatMap_cons, sden_append, ih, sden_map_mulTerm k hi n l s2 hs, sden_cons, Matrix.add_mul]

theorem productTerms_fits (k : Scal R) (n : Nat) (s1 s2 : PSum R) (h1 : SumFits n s1) (h2 : SumFits n s2) :
    SumFits n (productTerms k s1 s2) := by
  intro t ht
  unfold productTerms at ht
  rw [List.mem_flatMap] at ht
  obtain ⟨l, hl, ht⟩ := ht
  rw [List.mem_map] at ht
  obtain ⟨r, hr, rfl⟩ := ht
  exact mulTerm_fits k n l r (h1 l hl) (h2 r hr)

section exact
variable (k : Scal R) (hi : k.i * k.i = -1) (n : Nat) (negl : R → Bool) (hex : ∀ c, negl c = true → c = 0)
include hi hex

theorem mulS_den (s1 s2 : PSum R) (hs : SumFits n s2) :
    sden k n (mulS k negl s1 s2) = sden k n s1 * sden k n s2 := by
  unfold mulS
  rw [simplify_den_exact k n negl hex, productTerms_den k hi n s1 s2 hs]

omit hi in
theorem addS_den (s1 s2 : PSum R) : sden k n (addS negl s1 s2) = sden k n s1 + sden k n s2 := by
  unfold addS
  rw [simplify_den_exact k n negl hex, sden_append]

omit hi in
theorem rmulS_den (s : PSum R) (x : R) : sden k n (rmulS negl s x) = x • sden k n s := by
  unfold rmulS
  rw [simplify_den_exact k n negl hex]
  induction s with
  | nil => simp [sden_nil]
  | cons t s ih => rw [List.map_cons, sden_cons, sden_cons, ih, tden_scaleTerm, smul_add]

end exact

theorem mulS_fits (k : Scal R) (n : Nat) (negl : R → Bool) (s1 s2 : PSum R) (h1 : SumFits n s1) (h2 : SumFits n s2) :
    SumFits n (mulS k negl s1 s2) := simplify_fits n negl _ (productTerms_fits k n s1 s2 h1 h2)

/-! ### square-and-multiply -/

theorem effExp_spec {α : Type} {M : Type} [Monoid M] (mul : α → α → α) (one : α) (x : α) (den : α → M) (fits : α → Prop)
    (hone : den one = 1 ∧ fits one) (hx : fits x)
    (hmul : ∀ a b, fits a → fits b → den (mul a b) = den a * den b ∧ fits (mul a b)) (p : Nat) :
    den (effExp mul one x p) = den x ^ p ∧ fits (effExp mul one x p) := by
  induction p using Nat.strong_induction_on with
  | _ p ih =>
    rw [effExp]
    by_cases h0 : p = 0
    · simp [h0, hone.1, hone.2]
    · simp only [h0, dite_false]
      by_cases h1 : p % 2 = 1
      · simp only [h1, if_true]
        have := ih (p - 1) (by omega)
        have hm := hmul x _ hx this.2
        refine ⟨?_, hm.2⟩
        rw [hm.1, this.1, ← pow_succ']
        congr 1; omega
      · simp only [h1, if_false]
        have := ih (p / 2) (by omega)
        have hm := hmul _ _ this.2 this.2
        refine ⟨?_, hm.2⟩
        rw [hm.1, this.1, ← pow_add]
        congr 1; omega

/-! ### values -/

/-- Mathlib-level denotation of a value: a number is that multiple of the identity -/
def vden (k : Scal R) (n : Nat) : Val R → Matrix (Fin (2 ^ n)) (Fin (2 ^ n)) R
  | .num x => x • 1
  | .term t => tden k n t
  | .sum s => sden k n s

/-- every qubit index occurring in the value is below `n` -/
def ValFits (n : Nat) : Val R → Prop
  | .num _ => True
  | .term t => TermFits n t
  | .sum s => SumFits n s

theorem toM_denote_val (k : Scal R) (n : Nat) (v : Val R) :
    Mat.toM (2 ^ n) (2 ^ n) (v.denote k n) = vden k n v := by
  cases v with
  | num x =>
    simp only [Val.denote, vden]
    rw [← Mat.toM_identity (R := R) (2 ^ n)]
    funext i j
    simp only [Mat.toM, Mat.smul, Matrix.smul_apply, smul_eq_mul]
    exact Mat.get_ofFn _ _ _ _ _ (by simp [Mat.identity]) (by simp [Mat.identity])
  | term t => exact toM_denote_term k n t
  | sum s => exact toM_denote_sum k n s

theorem singleton_fits (n : Nat) (t : Term R) (ht : TermFits n t) : SumFits n [t] := by
  intro t' ht'; simp only [List.mem_singleton] at ht'; subst ht'; exact ht

end OQ.C03
