/-
  C03 — the exact scalar type of the driver, ℚ(ζ₈) with its EXECUTABLE operations, is a commutative ring:
  the theorems of OQ/Props/C03.lean (stated for every commutative ring) therefore apply to the driver's values.
-/
import OQ.Exec.Cyc8
import OQ.Exec.Scal
import Mathlib.Algebra.Field.Rat
import Mathlib.Algebra.Order.Ring.Rat
import Mathlib.Tactic.Ring

namespace OQ.C03
open OQ

@[ext] theorem Cyc8.ext' {x y : Cyc8} (ha : x.a = y.a) (hb : x.b = y.b) (hc : x.c = y.c) (hd : x.d = y.d) : x = y := by
  cases x; cases y; simp_all

@[simp] theorem c_add_a (x y : Cyc8) : (x + y).a = x.a + y.a := rfl
@[simp] theorem c_add_b (x y : Cyc8) : (x + y).b = x.b + y.b := rfl
@[simp] theorem c_add_c (x y : Cyc8) : (x + y).c = x.c + y.c := rfl
@[simp] theorem c_add_d (x y : Cyc8) : (x + y).d = x.d + y.d := rfl
@[simp] theorem c_neg_a (x : Cyc8) : (-x).a = -x.a := rfl
@[simp] theorem c_neg_b (x : Cyc8) : (-x).b = -x.b := rfl
@[simp] theorem c_neg_c (x : Cyc8) : (-x).c = -x.c := rfl
@[simp] theorem c_neg_d (x : Cyc8) : (-x).d = -x.d := rfl
@[simp] theorem c_mul_a (x y : Cyc8) : (x * y).a = x.a*y.a - x.b*y.d - x.c*y.c - x.d*y.b := rfl
@[simp] theorem c_mul_b (x y : Cyc8) : (x * y).b = x.a*y.b + x.b*y.a - x.c*y.d - x.d*y.c := rfl
@[simp] theorem c_mul_c (x y : Cyc8) : (x * y).c = x.a*y.c + x.b*y.b + x.c*y.a - x.d*y.d := rfl
@[simp] theorem c_mul_d (x y : Cyc8) : (x * y).d = x.a*y.d + x.b*y.c + x.c*y.b + x.d*y.a := rfl
@[simp] theorem c_sub_a (x y : Cyc8) : (x - y).a = x.a - y.a := rfl
@[simp] theorem c_sub_b (x y : Cyc8) : (x - y).b = x.b - y.b := rfl
@[simp] theorem c_sub_c (x y : Cyc8) : (x - y).c = x.c - y.c := rfl
@[simp] theorem c_sub_d (x y : Cyc8) : (x - y).d = x.d - y.d := rfl
@[simp] theorem c_ofRat_a (q : Rat) : (Cyc8.ofRat q).a = q := rfl
@[simp] theorem c_ofRat_b (q : Rat) : (Cyc8.ofRat q).b = 0 := rfl
@[simp] theorem c_ofRat_c (q : Rat) : (Cyc8.ofRat q).c = 0 := rfl
@[simp] theorem c_ofRat_d (q : Rat) : (Cyc8.ofRat q).d = 0 := rfl
@[simp] theorem c_zero_a : (0 : Cyc8).a = 0 := rfl
@[simp] theorem c_zero_b : (0 : Cyc8).b = 0 := rfl
@[simp] theorem c_zero_c : (0 : Cyc8).c = 0 := rfl
@[simp] theorem c_zero_d : (0 : Cyc8).d = 0 := rfl
@[simp] theorem c_one_a : (1 : Cyc8).a = 1 := rfl
@[simp] theorem c_one_b : (1 : Cyc8).b = 0 := rfl
@[simp] theorem c_one_c : (1 : Cyc8).c = 0 := rfl
@[simp] theorem c_one_d : (1 : Cyc8).d = 0 := rfl

/-- ℚ(ζ₈) with THE EXECUTABLE `+`, `*`, `-`, `0`, `1` of OQ/Exec/Cyc8.lean is a commutative ring, so every
    theorem proved for an arbitrary `[CommRing R]` applies literally to the values the driver computes. -/
instance instCommRingCyc8 : CommRing Cyc8 where
  add := (· + ·)
  mul := (· * ·)
  neg := Neg.neg
  zero := 0
  one := 1
  add_assoc x y z := by ext <;> simp <;> ring
  zero_add x := by ext <;> simp
  add_zero x := by ext <;> simp
  add_comm x y := by ext <;> simp <;> ring
  neg_add_cancel x := by ext <;> simp
  left_distrib x y z := by ext <;> simp <;> ring
  right_distrib x y z := by ext <;> simp <;> ring
  zero_mul x := by ext <;> simp
  mul_zero x := by ext <;> simp
  mul_assoc x y z := by ext <;> simp <;> ring
  one_mul x := by ext <;> simp
  mul_one x := by ext <;> simp
  mul_comm x y := by ext <;> simp <;> ring
  nsmul := nsmulRec
  zsmul := zsmulRec
  sub := (· - ·)
  sub_eq_add_neg x y := by ext <;> simp <;> ring
  natCast n := Cyc8.ofRat n
  natCast_zero := by ext <;> simp
  natCast_succ n := by ext <;> simp
  intCast z := Cyc8.ofRat z
  intCast_ofNat n := by
    show Cyc8.ofRat (((n : Nat) : Int) : Rat) = Cyc8.ofRat ((n : Nat) : Rat)
    ext <;> simp
  intCast_negSucc n := by
    show Cyc8.ofRat ((Int.negSucc n : Int) : Rat) = -(Cyc8.ofRat ((n + 1 : Nat) : Rat))
    ext <;> simp [Int.negSucc_eq]

theorem cyc8_i_sq : (OQ.Scal.cyc8.i * OQ.Scal.cyc8.i : Cyc8) = -1 := by decide +kernel
end OQ.C03
