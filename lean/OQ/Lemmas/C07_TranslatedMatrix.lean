/- C07 — translation tie of the `matrix` properties (work package T17): helper lemmas about the INSTANTIATION `mext` (OQ/Model/C07_T17.lean) of the sympy
   operations (`MExt`, the parameter record of the regenerated `Gate.matrix`, harness/translate_t17.py) by the model's matrix operations.  The tie
   theorems are in OQ/Props/C07_TranslatedMatrix.lean (read its header first). -/
import OQ.Model.C07_T17
import OQ.Lemmas.C07_TranslatedGates
namespace OQ.C07
open OQ.Generated
namespace TG
variable {P R : Type}

theorem ofFn_congr' (r c : Nat) (f g : Nat → Nat → R)
    (h : ∀ i j, i < r → j < c → f i j = g i j) : Mat.ofFn r c f = Mat.ofFn r c g := by
  unfold Mat.ofFn
  congr 1
  apply Array.ext
  · simp
  · intro i h1 h2
    simp only [Array.getElem_ofFn]
    have hi : i < r * c := by simpa using h1
    have hc : 0 < c := by
      rcases Nat.eq_zero_or_pos c with h0 | h0
      · subst h0; simp at hi
      · exact h0
    apply h
    · exact Nat.div_lt_of_lt_mul (by rwa [Nat.mul_comm] at hi)
    · exact Nat.mod_lt _ hc

/-- `Matrix.diag(eye(d0), M)` is the model's `ctlMatrix d0 M` -/
theorem diagBlocks_identity [Zero R] [One R] [Add R] [Mul R] (d0 : Nat) (M : Mat R) :
    diagBlocks (Mat.identity d0) M = ctlMatrix d0 M := by
  unfold diagBlocks ctlMatrix
  show Mat.ofFn (d0 + M.r) (d0 + M.c) _ = _
  apply ofFn_congr'
  intro i j _ _
  show (if i < d0 ∧ j < d0 then (Mat.identity d0).get i j else if d0 ≤ i ∧ d0 ≤ j then M.get (i - d0) (j - d0) else 0) = _
  by_cases h : i < d0 ∧ j < d0
  · simp only [h, and_self, if_true]
    exact Mat.get_ofFn d0 d0 _ i j h.1 h.2
  · simp only [h, if_false]

/-- the dimension argument of `sympy.eye` in `ControlledGate.matrix`, computed on Python ints -/
theorem eye_dim (a b : Nat) : (((2 : Int) ^ Int.toNat (a : Int)) - ((2 : Int) ^ Int.toNat (b : Int))).toNat = 2 ^ a - 2 ^ b := by
  simp only [Int.toNat_natCast]
  have : ((2 : Int) ^ a - (2 : Int) ^ b) = (((2 ^ a : Nat) : Int) - ((2 ^ b : Nat) : Int)) := by rw [Nat.cast_pow, Nat.cast_pow]; rfl
  rw [this]
  omega

end TG
end OQ.C07
