/- helper definitions and lemmas for the translation ties of C10 (`OQ/Props/C10_TranslatedCounts.lean`): shots as int tuples / as
   bitstrings (`encT`, `encS`), histograms as Python dicts (`countsToPy`, `intCountsToPy`), the loops of the translated methods against
   the model's recursions, and `get_distribution` through the translated C17 constructor.  Not property theorems. -/
import OQ.Lemmas.C10
import OQ.Lemmas.PyT4
import OQ.Generated.TranslatedC10
import OQ.Lemmas.C17_TranslatedDist
namespace OQ.C10
open OQ.Generated OQ.Py

/-- a shot as the tuple of ints `Measurements.bitstrings` holds -/
def encT (s : Shot) : List Int := s.map (fun b => if b then 1 else 0)
/-- a shot as the bitstring `get_counts` uses as key -/
def encS (s : Shot) : List Char := s.map (fun b => if b then '1' else '0')
/-- a histogram of the model as the Python dict (bitstring ↦ int count) -/
def countsToPy (c : Counts) : OQ.Py.Dict (List Char) Int := c.map (fun p => (encS p.1, (p.2 : Int)))
/-- a histogram with int counts (what `add_counts` accepts) as the Python dict -/
def intCountsToPy (c : List (Shot × Int)) : OQ.Py.Dict (List Char) Int := c.map (fun p => (encS p.1, p.2))

theorem encS_injective : Function.Injective encS := by
  intro a b h
  unfold encS at h
  exact List.map_injective_iff.mpr (fun x y hxy => by cases x <;> cases y <;> simp_all) h

theorem encT_injective : Function.Injective encT := by
  intro a b h
  unfold encT at h
  exact List.map_injective_iff.mpr (fun x y hxy => by cases x <;> cases y <;> simp_all) h

theorem join_nil_singletons (l : List Char) : OQ.Py.join [] (l.map (fun c => [c])) = l := by
  induction l with
  | nil => rfl
  | cons a l ih =>
    cases l with
    | nil => rfl
    | cons b l => simp only [List.map_cons, OQ.Py.join] at ih ⊢; simp [ih]

theorem counterGet_toPy (c : Counts) (k : Shot) : counterGet (countsToPy c) (encS k) = ((c.get k : Nat) : Int) := by
  induction c with
  | nil => rfl
  | cons p rest ih =>
    obtain ⟨k', v⟩ := p
    simp only [countsToPy, List.map_cons, counterGet, Counts.get]
    by_cases h : k' = k
    · subst h; simp
    · have : ¬ (encS k' == encS k) = true := fun he => h (encS_injective (eq_of_beq he))
      rw [if_neg this, if_neg h]
      exact ih

theorem dictSet_bump (c : Counts) (k : Shot) :
    dictSet (countsToPy c) (encS k) (counterGet (countsToPy c) (encS k) + 1) = countsToPy (c.bump k) := by
  rw [counterGet_toPy]
  induction c with
  | nil => rfl
  | cons p rest ih =>
    obtain ⟨k', v⟩ := p
    simp only [countsToPy, List.map_cons, dictSet, Counts.bump, Counts.get]
    by_cases h : k' = k
    · subst h; simp
    · have : ¬ (encS k' == encS k) = true := fun he => h (encS_injective (eq_of_beq he))
      rw [if_neg this, if_neg h, if_neg h]
      simp only [List.map_cons]
      congr 1

theorem counterOfList_foldl (shots : List Shot) (acc : Counts) :
    (shots.map encS).foldl (fun c x => dictSet c x (counterGet c x + 1)) (countsToPy acc) = countsToPy (shots.foldl Counts.bump acc) := by
  induction shots generalizing acc with
  | nil => rfl
  | cons s rest ih => simp only [List.map_cons, List.foldl_cons, dictSet_bump, ih]

/-- the sum of the counts of a Python histogram -/
def pyTotal {κ : Type} (d : OQ.Py.Dict κ Int) : Int := (d.map (fun p => p.2)).sum

theorem pyTotal_dictSet_add {κ : Type} [BEq κ] (d : OQ.Py.Dict κ Int) (k : κ) (v : Int) :
    pyTotal (dictSet d k (counterGet d k + v)) = pyTotal d + v := by
  induction d with
  | nil => simp [dictSet, counterGet, pyTotal]
  | cons p rest ih =>
    obtain ⟨k', w⟩ := p
    simp only [dictSet, counterGet]
    split
    · simp only [pyTotal, List.map_cons, List.sum_cons]; ring
    · simp only [pyTotal, List.map_cons, List.sum_cons] at ih ⊢; rw [ih]; ring

theorem pyTotal_counterOfList {κ : Type} [BEq κ] (xs : List κ) : pyTotal (counterOfList xs) = xs.length := by
  unfold counterOfList
  suffices h : ∀ acc : OQ.Py.Counter κ, pyTotal (xs.foldl (fun c x => dictSet c x (counterGet c x + 1)) acc) = pyTotal acc + xs.length by
    simpa [pyTotal] using h []
  induction xs with
  | nil => intro acc; simp
  | cons x xs ih =>
    intro acc
    simp only [List.foldl_cons, ih, pyTotal_dictSet_add, List.length_cons]
    push_cast; ring


theorem foldlE_digits (s : Shot) (acc : List Int) :
    foldlE (fun (st : List Int) (c : Char) => Except.bind (intOfStr [c]) (fun t => Except.ok (st ++ [t]))) acc (encS s)
      = .ok (acc ++ encT s) := by
  induction s generalizing acc with
  | nil => simp [encS, encT, foldlE]
  | cons b rest ih =>
    have h1 : intOfStr ['1'] = .ok 1 := by decide
    have h0 : intOfStr ['0'] = .ok 0 := by decide
    cases b
    · simp only [encS, List.map_cons, foldlE, Bool.false_eq_true, if_false, h0, bind_ok] at ih ⊢
      rw [ih]; simp [encT]
    · simp only [encS, List.map_cons, foldlE, if_true, h1, bind_ok] at ih ⊢
      rw [ih]; simp [encT]

theorem foldlE_add_counts (counts : OQ.Py.Dict (List Char) Int) (todo : List (Shot × Int)) (bs : List Shot)
    (hget : ∀ p ∈ todo, dictGetE counts (encS p.1) = .ok p.2) :
    foldlE (fun (st : List (List Int)) (bitstring : List Char) =>
        Except.bind (foldlE (fun (st : List Int) (c : Char) => Except.bind (intOfStr [c]) (fun t => Except.ok (st ++ [t]))) [] bitstring)
          (fun measurement => Except.bind (dictGetE counts bitstring)
            (fun n => Except.ok (st ++ List.replicate (Int.toNat n) measurement))))
      (bs.map encT) (dictKeys (intCountsToPy todo)) = .ok ((addCounts bs todo).map encT) := by
  induction todo generalizing bs with
  | nil => rfl
  | cons p rest ih =>
    obtain ⟨k, n⟩ := p
    simp only [intCountsToPy, dictKeys, List.map_cons, foldlE, foldlE_digits, List.nil_append, bind_ok,
      hget (k, n) (by simp)]
    have e : bs.map encT ++ List.replicate n.toNat (encT k) = (bs ++ List.replicate n.toNat k).map encT := by simp
    rw [e]
    have := ih (bs ++ List.replicate n.toNat k) (fun p hp => hget p (by simp [hp]))
    simp only [intCountsToPy, dictKeys] at this
    rw [this]
    simp [addCounts]

theorem intCountsToPy_keys_nodup (c : List (Shot × Int)) (hn : (c.map (fun p => p.1)).Nodup) :
    (dictKeys (intCountsToPy c)).Nodup := by
  simp only [dictKeys, intCountsToPy, List.map_map]
  have : ((fun (p : List Char × Int) => p.1) ∘ fun (p : Shot × Int) => (encS p.1, p.2)) = encS ∘ (fun p => p.1) := rfl
  rw [this, ← List.map_map]
  exact hn.map encS_injective


/-! ### `get_distribution`: counts / number of shots, then the C17 constructor -/

/-- the model's exception classes among the translated code's (`nan` is not an exception; `get_distribution` never yields it) -/
def toExc10 : Err → Exc4
  | .type => .type
  | .index => .index
  | .value => .value
  | .runtime => .runtime
  | .nan => .zeroDiv

/-- the model's result of `get_distribution` as the translated method returns it: keys as int tuples -/
def distResult (r : Except Err (List (Shot × Rat))) : Except Exc4 (OQ.C17.Dict OQ.C17.Key) :=
  match r with
  | .ok d => .ok (d.map (fun p => (encT p.1, p.2)))
  | .error e => .error (toExc10 e)

/-- the dictionary `get_distribution` builds before the constructor call -/
def distPy (n : Int) (c : Counts) : OQ.Py.Dict (List Char) Rat := c.map (fun p => (encS p.1, (((p.2 : Nat) : Int) : Rat) / ((n : Int) : Rat)))

theorem foldlE_dist (counts : OQ.Py.Dict (List Char) Int) (n : Int) (todo : Counts) (acc : OQ.Py.Dict (List Char) Rat)
    (hget : ∀ p ∈ todo, dictGetE counts (encS p.1) = .ok ((p.2 : Nat) : Int))
    (hnd : (dictKeys (acc ++ distPy n todo)).Nodup) :
    foldlE (fun (st : OQ.Py.Dict (List Char) Rat) (b : List Char) =>
        Except.bind (dictGetE counts b) (fun c => Except.ok (dictSet st b (((c : Int) : Rat) / ((n : Int) : Rat)))))
      acc (dictKeys (countsToPy todo)) = .ok (acc ++ distPy n todo) := by
  induction todo generalizing acc with
  | nil => simp [countsToPy, dictKeys, foldlE, distPy]
  | cons p rest ih =>
    obtain ⟨k, v⟩ := p
    have hk : encS k ∉ dictKeys acc := by
      simp only [dictKeys, distPy, List.map_append, List.map_cons] at hnd
      have := (List.nodup_append.mp hnd).2.2
      intro hmem
      exact this _ hmem _ (by simp) rfl
    simp only [countsToPy, dictKeys, List.map_cons, foldlE, hget (k, v) (by simp), bind_ok]
    rw [dictSet_of_not_mem acc (encS k) _ hk]
    have := ih (acc ++ [(encS k, (((v : Nat) : Int) : Rat) / ((n : Int) : Rat))]) (fun p hp => hget p (by simp [hp]))
      (by simpa [distPy] using hnd)
    simp only [countsToPy, dictKeys] at this
    rw [this]
    simp [distPy]

theorem bind_ok_right' {α : Type} (x : Except Exc4 α) : Except.bind x (fun t => Except.ok t) = x := by
  cases x <;> rfl

theorem encDigits_encT (s : Shot) : OQ.C17.encDigits (encT s) = encS s := by
  unfold OQ.C17.encDigits encT encS
  rw [List.map_map]
  apply List.map_congr_left
  intro b _
  cases b <;> rfl

theorem isDigits_encT (s : Shot) : OQ.C17.IsDigits (encT s) := by
  intro e he
  simp only [encT, List.mem_map] at he
  obtain ⟨b, _, rfl⟩ := he
  cases b <;> simp


/-- the distribution as the C17 model's dictionary (int-tuple keys) -/
def distD (n : Int) (c : Counts) : OQ.C17.Dict OQ.C17.Key := c.map (fun p => (encT p.1, (((p.2 : Nat) : Int) : Rat) / ((n : Int) : Rat)))

theorem distD_keys_nodup (n : Int) (c : Counts) (h : c.keys.Nodup) : (OQ.C17.Dict.keys (distD n c)).Nodup := by
  simp only [OQ.C17.Dict.keys, distD, List.map_map]
  have : ((fun (p : OQ.C17.Key × Rat) => p.1) ∘ fun (p : Shot × Nat) => (encT p.1, (((p.2 : Nat) : Int) : Rat) / ((n : Int) : Rat)))
      = encT ∘ (fun p => p.1) := rfl
  rw [this, ← List.map_map]
  exact (show (c.map (fun p => p.1)).Nodup from h).map encT_injective

theorem distPy_keys_nodup (n : Int) (c : Counts) (h : c.keys.Nodup) : (dictKeys (distPy n c)).Nodup := by
  simp only [dictKeys, distPy, List.map_map]
  have : ((fun (p : List Char × Rat) => p.1) ∘ fun (p : Shot × Nat) => (encS p.1, (((p.2 : Nat) : Int) : Rat) / ((n : Int) : Rat)))
      = encS ∘ (fun p => p.1) := rfl
  rw [this, ← List.map_map]
  exact (show (c.map (fun p => p.1)).Nodup from h).map encS_injective

theorem dictStrKeys_distPy (n : Int) (c : Counts) :
    dictStrKeys (distPy n c) = OQ.C17.toPyItems ((distD n c).map (fun p => (OQ.C17.RawKey.str (OQ.C17.encDigits p.1), p.2))) := by
  simp [dictStrKeys, distPy, distD, OQ.C17.toPyItems, OQ.C17.toPyKey, encDigits_encT]

theorem distD_total (shots : List Shot) (hne : shots ≠ []) :
    OQ.C17.Dict.total (distD (shots.length : Int) (getCounts shots)) = 1 := by
  have hlen : ((shots.length : Nat) : Rat) ≠ 0 := by
    have : shots.length ≠ 0 := by simpa using hne
    exact_mod_cast this
  have := sum_map_natcast_div (R := Rat) (getCounts shots) ((shots.length : Nat) : Rat)
  rw [getCounts_total, div_self hlen] at this
  simp only [OQ.C17.Dict.total, OQ.C17.Dict.vals, distD, List.map_map, Function.comp_def, Int.cast_natCast]
  exact this

end OQ.C10
