/- C08 helper lemmas, spec level: gates lifted along embeddings (`liftE` = `Spec.lift` on the image of an
   embedding), widening, and the control-qubit construction `ctrlAt` with its algebra (not property theorems). -/
import OQ.Spec.Lift
import Mathlib.Logic.Equiv.Set
import Mathlib.Logic.Equiv.Option
import Mathlib.Data.Fintype.Option
import Mathlib.Data.Fintype.Sets
import Mathlib.Data.Set.Finite.Basic
import Mathlib.Tactic.FinCases

set_option linter.unusedSectionVars false
set_option linter.unusedSimpArgs false

namespace OQ.C08
open Matrix OQ.Spec
open Classical

variable {R : Type} [CommRing R] {κ ι ι' : Type} [Fintype κ] [DecidableEq κ] [Fintype ι] [DecidableEq ι]
  [Fintype ι'] [DecidableEq ι']

/-- the partition of the register `ι` into the image of the embedding `e` and the rest -/
noncomputable def sigmaOf (e : κ ↪ ι) : κ ⊕ ↥(Set.range e)ᶜ ≃ ι :=
  (Equiv.sumCongr (Equiv.ofInjective e e.injective) (Equiv.refl _)).trans (Equiv.Set.sumCompl (Set.range e))

/-- gate `M` on the qubits `e 0, e 1, …` of the register `ι` (in this order), identity elsewhere -/
noncomputable def liftE (e : κ ↪ ι) (M : Matrix (BV κ) (BV κ) R) : Matrix (BV ι) (BV ι) R :=
  lift (sigmaOf e) M

theorem liftE_apply (e : κ ↪ ι) (M : Matrix (BV κ) (BV κ) R) (x y : BV ι) :
    liftE e M x y = if (∀ i, i ∉ Set.range e → x i = y i) then M (x ∘ e) (y ∘ e) else 0 := by
  unfold liftE
  rw [lift_apply]
  have h1 : (∀ m : ↥(Set.range e)ᶜ, x (sigmaOf e (Sum.inr m)) = y (sigmaOf e (Sum.inr m))) ↔
      (∀ i, i ∉ Set.range e → x i = y i) := by
    constructor
    · intro h i hi; simpa [sigmaOf] using h ⟨i, hi⟩
    · intro h m; simpa [sigmaOf] using h m.1 m.2
  have h2 : (fun k => x (sigmaOf e (Sum.inl k))) = x ∘ e := by funext k; simp [sigmaOf]
  have h3 : (fun k => y (sigmaOf e (Sum.inl k))) = y ∘ e := by funext k; simp [sigmaOf]
  simp only [h1, h2, h3]

theorem liftE_mul (e : κ ↪ ι) (A B : Matrix (BV κ) (BV κ) R) : liftE e (A * B) = liftE e A * liftE e B :=
  lift_mul _ A B
theorem liftE_one (e : κ ↪ ι) : liftE e (1 : Matrix (BV κ) (BV κ) R) = 1 := lift_one _
theorem liftE_conjTranspose [StarRing R] (e : κ ↪ ι) (A : Matrix (BV κ) (BV κ) R) :
    liftE e Aᴴ = (liftE e A)ᴴ := lift_conjTranspose _ A

/-- widening: a lifted gate lifted again is the gate lifted along the composed embedding -/
theorem liftE_liftE (e₁ : κ ↪ ι) (e₂ : ι ↪ ι') (M : Matrix (BV κ) (BV κ) R) :
    liftE e₂ (liftE e₁ M) = liftE (e₁.trans e₂) M := by
  ext x y
  simp only [liftE_apply]
  by_cases h : ∀ i, i ∉ Set.range (e₁.trans e₂) → x i = y i
  · have h2 : ∀ i, i ∉ Set.range e₂ → x i = y i := by
      intro i hi; apply h; rintro ⟨a, rfl⟩; exact hi ⟨e₁ a, rfl⟩
    have h1 : ∀ j, j ∉ Set.range e₁ → (x ∘ e₂) j = (y ∘ e₂) j := by
      intro j hj; apply h; rintro ⟨a, ha⟩; apply hj
      exact ⟨a, e₂.injective ha⟩
    rw [if_pos h, if_pos h2, if_pos h1]; rfl
  · rw [if_neg h]
    by_cases h2 : ∀ i, i ∉ Set.range e₂ → x i = y i
    · rw [if_pos h2, if_neg]
      intro h1; apply h
      intro i hi
      by_cases hi2 : i ∈ Set.range e₂
      · obtain ⟨j, rfl⟩ := hi2
        apply h1; rintro ⟨a, rfl⟩; exact hi ⟨a, rfl⟩
      · exact h2 i hi2
    · rw [if_neg h2]

/-! ### a control qubit: `|0⟩⟨0| ⊗ 1 + |1⟩⟨1| ⊗ A` along `τ : Option ι ≃ ι'` (`none` ↦ the control) -/

def P0 : Matrix Bool Bool R := Matrix.of fun a b => if a = false ∧ b = false then 1 else 0
def P1 : Matrix Bool Bool R := Matrix.of fun a b => if a = true ∧ b = true then 1 else 0

theorem P0_mul_P0 : (P0 : Matrix Bool Bool R) * P0 = P0 := by
  ext a b; cases a <;> cases b <;> simp [P0, Matrix.mul_apply]
theorem P1_mul_P1 : (P1 : Matrix Bool Bool R) * P1 = P1 := by
  ext a b; cases a <;> cases b <;> simp [P1, Matrix.mul_apply]
theorem P0_mul_P1 : (P0 : Matrix Bool Bool R) * P1 = 0 := by
  ext a b; cases a <;> cases b <;> simp [P0, P1, Matrix.mul_apply]
theorem P1_mul_P0 : (P1 : Matrix Bool Bool R) * P0 = 0 := by
  ext a b; cases a <;> cases b <;> simp [P0, P1, Matrix.mul_apply]
theorem P0_add_P1 : (P0 : Matrix Bool Bool R) + P1 = 1 := by
  ext a b; cases a <;> cases b <;> simp [P0, P1, Matrix.one_apply]

/-- split an assignment of the outer register into the control bit and the inner register -/
def splitC (τ : Option ι ≃ ι') : BV ι' ≃ Bool × BV ι :=
  (Equiv.arrowCongr τ.symm (Equiv.refl Bool)).trans (Equiv.piOptionEquivProd (β := fun _ => Bool))

/-- `|0⟩⟨0|_c ⊗ 1 + |1⟩⟨1|_c ⊗ A`: the identity when the control qubit `τ none` is 0, `A` on the
    remaining qubits `τ (some ·)` when it is 1 -/
noncomputable def ctrlAt (τ : Option ι ≃ ι') (A : Matrix (BV ι) (BV ι) R) : Matrix (BV ι') (BV ι') R :=
  Matrix.reindex (splitC τ).symm (splitC τ).symm
    (kroneckerMap (· * ·) (P0 : Matrix Bool Bool R) (1 : Matrix (BV ι) (BV ι) R)
      + kroneckerMap (· * ·) (P1 : Matrix Bool Bool R) A)

theorem ctrlAt_apply (τ : Option ι ≃ ι') (A : Matrix (BV ι) (BV ι) R) (x y : BV ι') :
    ctrlAt τ A x y =
      if x (τ none) = y (τ none) then
        (if x (τ none) = true then A (fun i => x (τ (some i))) (fun i => y (τ (some i)))
         else (1 : Matrix (BV ι) (BV ι) R) (fun i => x (τ (some i))) (fun i => y (τ (some i))))
      else 0 := by
  simp only [ctrlAt, splitC, Matrix.reindex_apply, Matrix.submatrix_apply, Equiv.symm_symm,
    Matrix.add_apply, kroneckerMap_apply, Equiv.trans_apply, Equiv.piOptionEquivProd_apply,
    Equiv.arrowCongr_apply, Equiv.refl_apply, Function.comp, Equiv.symm_symm, Equiv.coe_refl, id]
  cases hx : x (τ none) <;> cases hy : y (τ none) <;> simp [P0, P1]

theorem ctrlAt_mul (τ : Option ι ≃ ι') (A B : Matrix (BV ι) (BV ι) R) :
    ctrlAt τ A * ctrlAt τ B = ctrlAt τ (A * B) := by
  unfold ctrlAt
  rw [Matrix.reindex_apply, Matrix.reindex_apply, Matrix.reindex_apply, Matrix.submatrix_mul_equiv]
  congr 1
  have k00 := Matrix.mul_kronecker_mul (P0 : Matrix Bool Bool R) P0 (1 : Matrix (BV ι) (BV ι) R) (1 : Matrix (BV ι) (BV ι) R)
  have k01 := Matrix.mul_kronecker_mul (P0 : Matrix Bool Bool R) P1 (1 : Matrix (BV ι) (BV ι) R) B
  have k10 := Matrix.mul_kronecker_mul (P1 : Matrix Bool Bool R) P0 A (1 : Matrix (BV ι) (BV ι) R)
  have k11 := Matrix.mul_kronecker_mul (P1 : Matrix Bool Bool R) P1 A B
  simp only [Matrix.kronecker, P0_mul_P0, P0_mul_P1, P1_mul_P0, P1_mul_P1, Matrix.one_mul, Matrix.mul_one] at k00 k01 k10 k11
  rw [Matrix.add_mul, Matrix.mul_add, Matrix.mul_add, ← k00, ← k01, ← k10, ← k11]
  simp [Matrix.kroneckerMap_zero_left]

theorem ctrlAt_one (τ : Option ι ≃ ι') : ctrlAt τ (1 : Matrix (BV ι) (BV ι) R) = 1 := by
  ext x y
  rw [ctrlAt_apply, Matrix.one_apply, Matrix.one_apply]
  by_cases h : x = y
  · subst h; simp
  · rw [if_neg h]
    by_cases h0 : x (τ none) = y (τ none)
    · rw [if_pos h0]
      have : (fun i => x (τ (some i))) ≠ (fun i => y (τ (some i))) := by
        intro hh; apply h; funext q
        obtain ⟨o, rfl⟩ := τ.surjective q
        cases o with
        | none => exact h0
        | some i => exact congrFun hh i
      simp [this]
    · rw [if_neg h0]

end OQ.C08
