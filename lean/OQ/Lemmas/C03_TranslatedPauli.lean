/- helper lemmas for the tie between the TRANSLATED classes PauliTerm / PauliSum (`OQ/Generated/TranslatedC03.lean`, regenerated from
   /repo by harness/translate_t7.py) and the hand-written model `OQ/Model/C03.lean`: the embedding of model terms into object states,
   the dict operations of the prelude on embedded dicts, loops that never raise.  (Not property theorems.) -/
import OQ.Lemmas.C03_Eq
import OQ.Lemmas.PyT4
import OQ.Generated.TranslatedC03

set_option linter.unusedSectionVars false
set_option linter.unusedSimpArgs false
set_option linter.unusedVariables false

namespace OQ.C03
open OQ.Pauli OQ.Py OQ.Generated

variable {R : Type} [CommRing R]

/-! ### model data as object states -/

/-- the dict `_ops` of a model term: the same keys in the same order, letters as Python strs (`some p`; "I" never occurs) -/
def up (ops : List (Nat × P)) : Dict Nat TranslatedPauli.Letter := ops.map (fun p => (p.1, some p.2))

/-- the object state of a model term -/
def ofTerm (t : Term R) : TranslatedPauli.PTerm R := ⟨up t.ops, t.coeff⟩

/-- the object state of a model sum -/
def ofSum (s : PSum R) : TranslatedPauli.PSum R := s.map ofTerm

/-- a model value as a Python value -/
def ofVal : Val R → TranslatedPauli.PVal R
  | .num x => .num x
  | .term t => .term (ofTerm t)
  | .sum s => .sum (ofSum s)

/-- the model's parameters read off the translated code's externals -/
def neglOf (x : TranslatedPauli.Ext R) : R → Bool := fun c => x.isclose c 0
def recipOf (x : TranslatedPauli.Ext R) : R → Option R := fun y => x.truediv 1 y

/-- LAW of the externals assumed (explicitly) by the ties of `__truediv__`: a number that Python's `==` calls equal to 0
    (`x.num_eq c 0`: the guard `if isinstance(other, Number) and other == 0: raise ZeroDivisionError` of the repaired source) has no
    quotient `1.0 / c` either.  It holds of Python numbers (0, 0.0, 0j, False: `1.0 / c` raises ZeroDivisionError); the guard only
    extends ZeroDivisionError to the numpy zeros, for which `1.0 / c` is inf – these are outside the model's numbers.  Under the law
    the guarded source and the unguarded one (no `num_eq` in the rendering, the hypothesis is unused) have the same tie.
    SATISFIABLE: `ext_zeroDivLaw` of OQ/Generated/TranslatedDriverT7.lean proves it of the externals the self-check runs with, and
    `zeroDivLaw_sat` below of a family over every ring with decidable equality. -/
def ZeroDivLaw (x : TranslatedPauli.Ext R) : Prop := ∀ c : R, x.num_eq c 0 = true → x.truediv 1 c = none

theorem zeroDivLaw_sat [DecidableEq R] (isc allc : R → R → Bool) (quot : R → R → R) (it : List Nat → List Nat) :
    ZeroDivLaw (⟨isc, allc, fun a b => if b = 0 then none else some (quot a b), fun a b => decide (a = b), it⟩ : TranslatedPauli.Ext R) := by
  intro c h
  have hc : c = 0 := of_decide_eq_true h
  simp [hc]

@[simp] theorem ofTerm_ops (t : Term R) : (ofTerm t)._ops = up t.ops := rfl
@[simp] theorem ofTerm_coeff (t : Term R) : (ofTerm t).coefficient = t.coeff := rfl
@[simp] theorem up_nil : up [] = [] := rfl
@[simp] theorem up_cons (p : Nat × P) (ops : List (Nat × P)) : up (p :: ops) = (p.1, some p.2) :: up ops := rfl
theorem up_append (a b : List (Nat × P)) : up (a ++ b) = up a ++ up b := by simp [up]
theorem up_keys (ops : List (Nat × P)) : dictKeys (up ops) = ops.map (·.1) := by simp [up, dictKeys, List.map_map, Function.comp_def]

/-! ### prelude dict operations on embedded dicts -/

theorem dictHas_up (ops : List (Nat × P)) (q : Nat) : dictHas (up ops) q = (lookup ops q).isSome := by
  induction ops with
  | nil => rfl
  | cons p ops ih =>
    rw [lookup_cons]
    simp only [up_cons, dictHas, List.any_cons] at ih ⊢
    by_cases h : p.1 = q
    · simp [h]
    · simp [h, ih]

theorem dictGetE_up (ops : List (Nat × P)) (q : Nat) :
    dictGetE (up ops) q = match lookup ops q with | some a => .ok (some a) | none => .error .key := by
  induction ops with
  | nil => rfl
  | cons p ops ih =>
    rw [lookup_cons]
    simp only [up_cons, dictGetE]
    by_cases h : p.1 = q
    · simp [h]
    · simp [h, ih]

theorem dictGetD_up (ops : List (Nat × P)) (q : Nat) : dictGetD (up ops) q none = lookup ops q := by
  induction ops with
  | nil => rfl
  | cons p ops ih =>
    rw [lookup_cons]
    simp only [up_cons, dictGetD]
    by_cases h : p.1 = q
    · simp [h]
    · simp [h, ih]

theorem dictSet_up_new (ops : List (Nat × P)) (q : Nat) (o : P) (h : lookup ops q = none) :
    dictSet (up ops) q (some o) = up (ops ++ [(q, o)]) := by
  rw [dictSet_of_not_mem, up_append]
  · rfl
  · rw [up_keys]; exact (lookup_none_iff ops q).mp h

theorem dictSet_up_old (ops : List (Nat × P)) (q : Nat) (o : P) (w : OpsWF ops) :
    dictSet (up ops) q (some o) = if (lookup ops q).isSome then up (opsSet ops q o) else up (ops ++ [(q, o)]) := by
  induction ops with
  | nil => simp [lookup_nil, dictSet, up]
  | cons p ops ih =>
    have w' : OpsWF ops := by
      simp only [OpsWF, List.map_cons, List.nodup_cons] at w; exact w.2
    have hp : p.1 ∉ ops.map (·.1) := by
      simp only [OpsWF, List.map_cons, List.nodup_cons] at w; exact w.1
    rw [lookup_cons]
    simp only [up_cons, dictSet]
    by_cases h : p.1 = q
    · subst h
      have hl : lookup ops p.1 = none := (lookup_none_iff ops p.1).mpr hp
      have hs : opsSet ops p.1 o = ops := by
        unfold opsSet
        conv_rhs => rw [← List.map_id ops]
        apply List.map_congr_left
        intro a ha
        have : a.1 ≠ p.1 := fun e => hp (e ▸ List.mem_map_of_mem (f := (·.1)) ha)
        simp [this]
      have hs' : opsSet (p :: ops) p.1 o = (p.1, o) :: ops := by
        unfold opsSet at hs ⊢
        rw [List.map_cons, hs]
        simp
      simp only [beq_self_eq_true, if_true, Option.isSome_some]
      rw [hs']
      rfl
    · simp only [h, if_false, beq_iff_eq]
      rw [ih w']
      by_cases hl : (lookup ops q).isSome
      · simp [hl, opsSet, up, h]
      · simp [hl, up]

theorem dictDelE_up (ops : List (Nat × P)) (q : Nat) (h : (lookup ops q).isSome) :
    dictDelE (up ops) q = .ok (up (opsErase ops q)) := by
  unfold dictDelE
  rw [dictHas_up, h]
  simp only [if_true]
  congr 1
  simp only [up, opsErase, List.filter_map]
  congr 1

/-- `PauliTerm.__init__` on the dict of a model term: no letter is "I", the keys are distinct, nothing is raised -/
theorem foldl_dictSet_nodup (l acc : Dict Nat TranslatedPauli.Letter) (h : (dictKeys (acc ++ l)).Nodup) :
    l.foldl (fun (acc : Dict Nat TranslatedPauli.Letter) (p0 : Nat × TranslatedPauli.Letter) => dictSet acc p0.1 p0.2) acc = acc ++ l := by
  induction l generalizing acc with
  | nil => simp
  | cons p l ih =>
    rw [List.foldl_cons, dictSet_of_not_mem]
    · rw [ih]
      · simp
      · simpa using h
    · simp only [dictKeys, List.map_append, List.map_cons] at h
      have := (List.nodup_append.mp h).2.2
      intro hm
      exact this _ hm _ (List.mem_cons_self) rfl

theorem term_init_up (k : Scal R) (x : TranslatedPauli.Ext R) (ops : List (Nat × P)) (c : R) (w : OpsWF ops) :
    TranslatedPauli.term_init k x (up ops) (some c) = .ok (ofTerm ⟨ops, c⟩) := by
  have h1 : ((dictKeys (up ops)).map (fun (qubit_idx : Nat) => decide (qubit_idx ≥ (0 : Nat)))).all id = true := by
    simp
  have h2 : ((dictValues (up ops)).map (fun (op : TranslatedPauli.Letter) => TranslatedPauli.ALLOWED_OPERATORS.contains op)).all id = true := by
    rw [List.all_map, List.all_eq_true]
    intro v hv
    simp only [dictValues, up, List.map_map, List.mem_map, Function.comp] at hv
    obtain ⟨p, _, rfl⟩ := hv
    rcases p with ⟨q, a⟩
    cases a <;> rfl
  have h3 : (dictItems (up ops)).filter (fun (p0 : Nat × TranslatedPauli.Letter) => !(p0.2 == (none : TranslatedPauli.Letter))) = up ops := by
    rw [dictItems, List.filter_eq_self]
    simp only [up, List.mem_map]
    rintro _ ⟨p, _, rfl⟩
    simp
  unfold TranslatedPauli.term_init
  simp only [h1, h2, Bool.not_true, Bool.false_eq_true, if_false]
  rw [h3, foldl_dictSet_nodup]
  · rfl
  · simpa [up_keys, OpsWF] using w

theorem term_copy_some (k : Scal R) (x : TranslatedPauli.Ext R) (t : Term R) (c : R) (w : OpsWF t.ops) :
    TranslatedPauli.term_copy k x (ofTerm t) (some c) = .ok (ofTerm ⟨t.ops, c⟩) := by
  unfold TranslatedPauli.term_copy
  simp only [ofTerm_ops]
  exact term_init_up k x t.ops c w

theorem term_copy_none (k : Scal R) (x : TranslatedPauli.Ext R) (t : Term R) (w : OpsWF t.ops) :
    TranslatedPauli.term_copy k x (ofTerm t) none = .ok (ofTerm t) := by
  unfold TranslatedPauli.term_copy
  simp only [ofTerm_ops, ofTerm_coeff]
  exact term_init_up k x t.ops t.coeff w

/-! ### the tables -/

theorem opmap_lookup (a o : P) (h : a ≠ o) :
    dictGetE TranslatedPauli.OPERATOR_MAP (TranslatedPauli.ordL (some a) + TranslatedPauli.ordL (some o)) = .ok (some (Gen.opTable a o)) := by
  cases a <;> cases o <;> first | exact absurd rfl h | rfl

theorem coeffmap_lookup (k : Scal R) (a o : P) (h : a ≠ o) :
    dictGetE (TranslatedPauli.COEFF_MAP k) [some a, some o] = .ok (phase k (Gen.coeffTable a o)) := by
  cases a <;> cases o <;> first | exact absurd rfl h | rfl

/-! ### loops that never raise -/

theorem foldlE_ok {σ α : Type} (f : σ → α → Except Exc4 σ) (g : σ → α → σ) (P : σ → Prop)
    (hf : ∀ s a, P s → f s a = .ok (g s a) ∧ P (g s a)) (s : σ) (hs : P s) (l : List α) :
    foldlE f s l = .ok (l.foldl g s) ∧ P (l.foldl g s) := by
  induction l generalizing s with
  | nil => exact ⟨rfl, hs⟩
  | cons a l ih =>
    obtain ⟨h1, h2⟩ := hf s a hs
    simp only [foldlE, h1, List.foldl_cons]
    exact ih _ h2

theorem mapE_ok_on {α β : Type} (f : α → Except Exc4 β) (g : α → β) (l : List α) (h : ∀ a ∈ l, f a = .ok (g a)) :
    mapE f l = .ok (l.map g) := by
  rw [mapE_congr f (fun a => .ok (g a)) l h, mapE_ok]

theorem setOfList_keys (ops : List (Nat × P)) : setOfList (dictKeys (up ops)) = keys ops := by
  rw [up_keys]
  unfold setOfList keys
  rw [List.foldl_map]

/-! ### `PauliSum.simplify`: the OrderedDict `like_terms` and the two loops -/

theorem dictFind_up (ops : List (Nat × P)) (q : Nat) : dictFind? (up ops) q = (lookup ops q).map some := by
  induction ops with
  | nil => rfl
  | cons p ops ih =>
    rw [lookup_cons]
    simp only [up_cons, dictFind?]
    by_cases h : p.1 = q
    · simp [h]
    · simp [h, ih]

/-- `frozenset(d.items()) == frozenset(e.items())` on the dicts of two model terms is the model's `opsEq` -/
theorem frozenItemsEq_up (a b : List (Nat × P)) : frozenItemsEq (up a) (up b) = opsEq a b := by
  unfold frozenItemsEq opsEq
  have h : ∀ (a b : List (Nat × P)), (up a).all (fun p => dictFind? (up b) p.1 == some p.2) = a.all (fun p => lookup b p.1 == some p.2) := by
    intro a b
    simp only [up, List.all_map]
    congr 1
    funext p
    simp only [Function.comp]
    have := dictFind_up b p.1
    simp only [up] at this
    rw [this]
    cases lookup b p.1 <;> simp
  rw [h a b, h b a]

/-- the value of the OrderedDict `like_terms` for a list of model groups: key = the first term's `operations` -/
def ofGroups (gs : List (Group R)) : Dict (FrozenItems Nat TranslatedPauli.Letter) (List (TranslatedPauli.PTerm R)) :=
  gs.map (fun g => (up g.first.ops, ofTerm g.first :: g.rest.map ofTerm))

/-- the body of the first loop of `simplify` (as generated) -/
def likeStep (k : Scal R) (x : TranslatedPauli.Ext R)
    (like_terms : Dict (FrozenItems Nat TranslatedPauli.Letter) (List (TranslatedPauli.PTerm R))) (term : TranslatedPauli.PTerm R) :
    Except Exc4 (Dict (FrozenItems Nat TranslatedPauli.Letter) (List (TranslatedPauli.PTerm R))) :=
  let key := TranslatedPauli.term_operations k x term
  if dictHasBy frozenItemsEq like_terms key then
    Except.bind (dictGetByE frozenItemsEq like_terms key) (fun l =>
      Except.ok (dictSetBy frozenItemsEq like_terms key (l ++ [term])))
  else Except.ok (dictSetBy frozenItemsEq like_terms key [term])

theorem likeStep_eq (k : Scal R) (x : TranslatedPauli.Ext R) (gs : List (Group R)) (t : Term R) :
    likeStep k x (ofGroups gs) (ofTerm t) = .ok (ofGroups (insertGroup gs t)) := by
  induction gs with
  | nil => rfl
  | cons g gs ih =>
    unfold likeStep at ih ⊢
    simp only [TranslatedPauli.term_operations, dictItems, ofTerm_ops] at ih ⊢
    simp only [ofGroups, List.map_cons, dictHasBy, List.any_cons, dictGetByE, dictSetBy, frozenItemsEq_up, insertGroup] at ih ⊢
    by_cases h : opsEq g.first.ops t.ops = true
    · simp [h, ofTerm]
    · simp only [h, Bool.false_or, if_false, Bool.false_eq_true]
      by_cases h2 : (List.map (fun g : Group R => (up g.first.ops, ofTerm g.first :: List.map ofTerm g.rest)) gs).any
          (fun p => frozenItemsEq p.1 (up t.ops)) = true
      · simp only [h2, if_true] at ih ⊢
        cases hg : dictGetByE frozenItemsEq (List.map (fun g : Group R => (up g.first.ops, ofTerm g.first :: List.map ofTerm g.rest)) gs) (up t.ops) with
        | error e => rw [hg] at ih; cases ih
        | ok l =>
          rw [hg] at ih
          simp only [bind_ok] at ih ⊢
          injection ih with ih
          rw [ih]
          rfl
      · simp only [h2, if_false, Bool.false_eq_true] at ih ⊢
        injection ih with ih
        rw [ih]
        rfl

theorem likeLoop_eq (k : Scal R) (x : TranslatedPauli.Ext R) (s : PSum R) (gs : List (Group R)) :
    foldlE (likeStep k x) (ofGroups gs) (ofSum s) = .ok (ofGroups (s.foldl insertGroup gs)) := by
  induction s generalizing gs with
  | nil => rfl
  | cons t s ih =>
    simp only [ofSum, List.map_cons, foldlE, List.foldl_cons]
    rw [likeStep_eq]
    simp only [bind_ok]
    exact ih _

/-- the body of the second loop of `simplify` (as generated) -/
def emitStep (k : Scal R) (x : TranslatedPauli.Ext R) (terms : List (TranslatedPauli.PTerm R)) (term_list : List (TranslatedPauli.PTerm R)) :
    Except Exc4 (List (TranslatedPauli.PTerm R)) :=
  Except.bind (indexE term_list (0 : Int)) (fun first_term =>
    if ((((term_list.length : Nat) : Int) == (1 : Int)) && (!(x.isclose first_term.coefficient (0 : R)))) then
      Except.ok (terms ++ [first_term])
    else
      let coeff : R := ((term_list.map (fun (t : TranslatedPauli.PTerm R) => t.coefficient)).foldl (fun (acc : R) (c : R) => acc + c) (0 : R))
      if (!(x.isclose coeff (0 : R))) then
        Except.bind (indexE term_list (0 : Int)) (fun t3 =>
          Except.bind (TranslatedPauli.term_copy k x t3 (some coeff)) (fun t4 => Except.ok (terms ++ [t4])))
      else Except.ok terms)

theorem emitStep_eq (k : Scal R) (x : TranslatedPauli.Ext R) (terms : List (TranslatedPauli.PTerm R)) (g : Group R)
    (w : OpsWF g.first.ops) :
    emitStep k x terms (ofTerm g.first :: g.rest.map ofTerm) = .ok (terms ++ ofSum (simplifyGroup (neglOf x) g)) := by
  unfold emitStep simplifyGroup
  have hsum : (((ofTerm g.first :: g.rest.map ofTerm).map (fun (t : TranslatedPauli.PTerm R) => t.coefficient)).foldl
      (fun (acc : R) (c : R) => acc + c) (0 : R)) = g.coeffSum := by
    unfold Group.coeffSum
    rw [← List.map_cons, List.map_map, List.foldl_map]
    rfl
  have hlen : ((((ofTerm g.first :: g.rest.map ofTerm).length : Nat) : Int) == (1 : Int)) = g.rest.isEmpty := by
    cases g.rest with
    | nil => rfl
    | cons a l =>
      simp only [List.map_cons, List.length_cons, List.length_map, List.isEmpty_cons]
      have : ((l.length + 1 + 1 : Nat) : Int) ≠ 1 := by omega
      simpa using this
  rw [indexE_zero_cons]
  simp only [bind_ok, hsum, hlen, neglOf, ofTerm_coeff]
  by_cases h1 : (g.rest.isEmpty && !x.isclose g.first.coeff 0) = true
  · simp [h1, ofSum]
  · simp only [h1, if_false, Bool.false_eq_true]
    by_cases h2 : (!x.isclose g.coeffSum 0) = true
    · simp only [h2, if_true]
      rw [term_copy_some k x g.first _ w]
      simp [ofSum]
    · simp [h2, ofSum]

theorem emitLoop_eq (k : Scal R) (x : TranslatedPauli.Ext R) (gs : List (Group R)) (w : ∀ g ∈ gs, OpsWF g.first.ops)
    (terms : List (TranslatedPauli.PTerm R)) :
    foldlE (emitStep k x) terms (dictValues (ofGroups gs)) = .ok (terms ++ ofSum (gs.flatMap (simplifyGroup (neglOf x)))) := by
  induction gs generalizing terms with
  | nil => simp [dictValues, ofGroups, foldlE, ofSum]
  | cons g gs ih =>
    simp only [dictValues, ofGroups, List.map_cons, foldlE] at ih ⊢
    rw [emitStep_eq k x terms g (w g List.mem_cons_self)]
    simp only [bind_ok]
    rw [ih (fun g' hg' => w g' (List.mem_cons_of_mem _ hg'))]
    simp [ofSum, List.flatMap_cons]

theorem insertGroup_wf (gs : List (Group R)) (t : Term R) (w : ∀ g ∈ gs, OpsWF g.first.ops) (wt : OpsWF t.ops) :
    ∀ g ∈ insertGroup gs t, OpsWF g.first.ops := by
  induction gs with
  | nil => intro g hg; simp only [insertGroup, List.mem_singleton] at hg; subst hg; exact wt
  | cons g0 gs ih =>
    intro g hg
    simp only [insertGroup] at hg
    split at hg
    · rcases List.mem_cons.mp hg with h | h
      · rw [h]; exact w g0 List.mem_cons_self
      · exact w g (List.mem_cons_of_mem _ h)
    · rcases List.mem_cons.mp hg with h | h
      · rw [h]; exact w g0 List.mem_cons_self
      · exact ih (fun g' hg' => w g' (List.mem_cons_of_mem _ hg')) g h

theorem likeTerms_wf (s : PSum R) (hs : ∀ t ∈ s, OpsWF t.ops) (gs : List (Group R)) (w : ∀ g ∈ gs, OpsWF g.first.ops) :
    ∀ g ∈ s.foldl insertGroup gs, OpsWF g.first.ops := by
  induction s generalizing gs with
  | nil => exact w
  | cons t s ih =>
    rw [List.foldl_cons]
    exact ih (fun t' ht' => hs t' (List.mem_cons_of_mem _ ht')) _ (insertGroup_wf gs t w (hs t List.mem_cons_self))

theorem sum_init_ok (k : Scal R) (x : TranslatedPauli.Ext R) (l : List (TranslatedPauli.PTerm R)) :
    TranslatedPauli.sum_init k x l = .ok l := by
  unfold TranslatedPauli.sum_init
  have : ((l.map (fun (term : TranslatedPauli.PTerm R) => true)).all id) = true := by simp
  simp [this]

/-- every term of a `simplify` result has a dict as `_ops` -/
theorem simplify_wf (negl : R → Bool) (s : PSum R) (hs : ∀ t ∈ s, OpsWF t.ops) : ∀ t ∈ simplify negl s, OpsWF t.ops := by
  intro t ht
  unfold simplify at ht
  rw [List.mem_flatMap] at ht
  obtain ⟨g, hg, htg⟩ := ht
  have wg := likeTerms_wf s hs [] (by intro g hg; cases hg) g hg
  unfold simplifyGroup at htg
  split at htg
  · simp only [List.mem_singleton] at htg; subst htg; exact wg
  · simp only at htg
    split at htg
    · simp only [List.mem_singleton] at htg; subst htg; exact wg
    · cases htg

end OQ.C03
