/- C08 helper lemmas, gate level: canonical matrices, `adj` / `ctrlMat` algebra, the regular gates and
   the faithfulness of the re-association rules `dagger` / `power` / `controlled` (not property theorems). -/
import OQ.Model.C08
import OQ.Lemmas.Bridge
import Mathlib.Algebra.Star.Basic
import Mathlib.Tactic.Ring
import Mathlib.Tactic.Linarith
set_option linter.unusedSectionVars false

namespace OQ.C08
open OQ

/-- a matrix whose backing array has exactly `r * c` entries (everything `Mat.ofFn` builds) -/
def Canon {R : Type} (m : Mat R) : Prop := m.a.size = m.r * m.c

theorem canon_ofFn {R : Type} (r c : Nat) (f : Nat → Nat → R) : Canon (Mat.ofFn r c f) := by
  simp [Canon, Mat.ofFn]

theorem ofFn_congr {R : Type} (r c : Nat) (f g : Nat → Nat → R)
    (h : ∀ i j, i < r → j < c → f i j = g i j) : Mat.ofFn r c f = Mat.ofFn r c g := by
  unfold Mat.ofFn
  congr 1
  apply Array.ext
  · simp
  · intro i h1 h2
    simp only [Array.getElem_ofFn]
    have hi : i < r * c := by simpa using h1
    have hc : 0 < c := by
      rcases Nat.eq_zero_or_pos c with h0 | h0
      · subst h0; simp at hi
      · exact h0
    apply h
    · exact Nat.div_lt_of_lt_mul (by rwa [Nat.mul_comm] at hi)
    · exact Nat.mod_lt _ hc

theorem canon_eq {R : Type} [Zero R] (m : Mat R) (h : Canon m) : m = Mat.ofFn m.r m.c m.get := by
  obtain ⟨r, c, a⟩ := m
  unfold Mat.ofFn
  simp only [Canon] at h
  congr 1
  apply Array.ext
  · simp [h]
  · intro i h1 h2
    simp only [Array.getElem_ofFn]
    have hi : i < r * c := by rw [← h]; exact h1
    have hc : 0 < c := by
      rcases Nat.eq_zero_or_pos c with h0 | h0
      · subst h0; simp at hi
      · exact h0
    have hd : i / c < r := Nat.div_lt_of_lt_mul (by rwa [Nat.mul_comm] at hi)
    have hm : i % c < c := Nat.mod_lt _ hc
    unfold Mat.get
    simp only [hd, hm, and_self, if_true]
    have : i / c * c + i % c = i := by rw [Nat.mul_comm]; exact Nat.div_add_mod i c
    rw [this]
    simp [Array.getD, h1]

theorem mat_ext {R : Type} [Zero R] (A B : Mat R) (hA : Canon A) (hB : Canon B) (hr : A.r = B.r) (hc : A.c = B.c)
    (h : ∀ i j, i < A.r → j < A.c → A.get i j = B.get i j) : A = B := by
  rw [canon_eq A hA, canon_eq B hB, ← hr, ← hc]
  exact ofFn_congr _ _ _ _ h

namespace Gate
variable {R : Type} [CommRing R] [StarRing R]

@[simp] theorem adj_r (k : Scal R) (m : Mat R) : (adj k m).r = m.c := rfl
@[simp] theorem adj_c (k : Scal R) (m : Mat R) : (adj k m).c = m.r := rfl
@[simp] theorem ctrlMat_r (d : Nat) (m : Mat R) : (ctrlMat d m).r = d + m.r := rfl
@[simp] theorem ctrlMat_c (d : Nat) (m : Mat R) : (ctrlMat d m).c = d + m.c := rfl
theorem canon_adj (k : Scal R) (m : Mat R) : Canon (adj k m) := canon_ofFn _ _ _
theorem canon_ctrlMat (d : Nat) (m : Mat R) : Canon (ctrlMat d m) := canon_ofFn _ _ _

/-- entries of the adjoint, everywhere (out of range both sides are 0) -/
theorem adj_get (k : Scal R) (hk : k.cj = star) (m : Mat R) (i j : Nat) :
    (adj k m).get i j = star (m.get j i) := by
  by_cases h : i < m.c ∧ j < m.r
  · unfold adj; rw [Mat.get_ofFn _ _ _ _ _ h.1 h.2, hk]
  · rw [Mat.get_out _ _ _ (by simpa using h), Mat.get_out m j i (by tauto), star_zero]

theorem ctrlMat_get (d : Nat) (m : Mat R) (i j : Nat) (hi : i < d + m.r) (hj : j < d + m.c) :
    (ctrlMat d m).get i j =
      if i < d ∧ j < d then (if i = j then 1 else 0)
      else if d ≤ i ∧ d ≤ j then m.get (i - d) (j - d) else 0 := by
  unfold ctrlMat; rw [Mat.get_ofFn _ _ _ _ _ hi hj]

theorem adj_adj (k : Scal R) (hk : k.cj = star) (m : Mat R) (hm : Canon m) : adj k (adj k m) = m := by
  apply mat_ext _ _ (canon_adj _ _) hm rfl rfl
  intro i j _ _
  rw [adj_get k hk, adj_get k hk, star_star]

theorem adj_ctrlMat (k : Scal R) (hk : k.cj = star) (d : Nat) (m : Mat R) :
    adj k (ctrlMat d m) = ctrlMat d (adj k m) := by
  apply mat_ext _ _ (canon_adj _ _) (canon_ctrlMat _ _) rfl rfl
  intro i j hi hj
  simp only [adj_r, adj_c, ctrlMat_r, ctrlMat_c] at hi hj
  rw [adj_get k hk, ctrlMat_get d m j i hj hi, ctrlMat_get d (adj k m) i j (by simpa using hi) (by simpa using hj)]
  by_cases h1 : i < d ∧ j < d
  · rw [if_pos h1, if_pos ⟨h1.2, h1.1⟩]
    by_cases h2 : i = j
    · subst h2; simp
    · rw [if_neg h2, if_neg (Ne.symm h2), star_zero]
  · rw [if_neg h1, if_neg (by tauto)]
    by_cases h2 : d ≤ i ∧ d ≤ j
    · rw [if_pos h2, if_pos ⟨h2.2, h2.1⟩, adj_get k hk]
    · rw [if_neg h2, if_neg (by tauto), star_zero]

theorem ctrlMat_zero (m : Mat R) (hm : Canon m) : ctrlMat 0 m = m := by
  apply mat_ext _ _ (canon_ctrlMat _ _) hm (by simp) (by simp)
  intro i j hi hj
  rw [ctrlMat_get 0 m i j hi hj]; simp

theorem ctrlMat_ctrlMat (d1 d2 : Nat) (m : Mat R) : ctrlMat d1 (ctrlMat d2 m) = ctrlMat (d1 + d2) m := by
  apply mat_ext _ _ (canon_ctrlMat _ _) (canon_ctrlMat _ _) (by simp [Nat.add_assoc]) (by simp [Nat.add_assoc])
  intro i j hi hj
  simp only [ctrlMat_r, ctrlMat_c] at hi hj
  rw [ctrlMat_get d1 _ i j hi hj, ctrlMat_get (d1 + d2) m i j (by omega) (by omega)]
  by_cases h2 : d1 ≤ i ∧ d1 ≤ j
  · rw [if_neg (by omega), if_pos h2, ctrlMat_get d2 m _ _ (by omega) (by omega)]
    have e1 : i - d1 - d2 = i - (d1 + d2) := by omega
    have e2 : j - d1 - d2 = j - (d1 + d2) := by omega
    rw [e1, e2]
    split_ifs <;> first | rfl | (exfalso; omega)
  · split_ifs <;> first | rfl | (exfalso; omega)


/-- what is assumed of sympy's `Matrix.exp` / `Matrix.__pow__` (integer exponents): results are well-formed
    square matrices of the same size, both commute with the adjoint, and the power of a block-diagonal
    `diag(1, A)` is `diag(1, A^e)` – each including *whether* sympy raises. -/
structure ExtLaws (k : Scal R) (x : Ext R) : Prop where
  exp_canon : ∀ A B, Canon A → x.mexp A = some B → Canon B ∧ B.r = A.r ∧ B.c = A.c
  pow_canon : ∀ A e B, Canon A → x.mpow A e = some B → Canon B ∧ B.r = A.r ∧ B.c = A.c
  exp_adj : ∀ A, Canon A → A.r = A.c → x.mexp (adj k A) = (x.mexp A).map (adj k)
  pow_adj : ∀ A e, Canon A → A.r = A.c → e.den = 1 → x.mpow (adj k A) e = (x.mpow A e).map (adj k)
  pow_ctrl : ∀ A d e, Canon A → A.r = A.c → e.den = 1 → x.mpow (ctrlMat d A) e = (x.mpow A e).map (ctrlMat d)

/-- the gates on which the re-association rules are faithful: well-formed base matrices of the declared
    size, a truthful `is_hermitian` flag, and only INTEGER exponents under `Power` (F16: for a fractional
    power `Power.dagger` is not the adjoint). -/
inductive Regular (k : Scal R) : Gate R → Prop
  | base (nm : String) (m : Mat R) (n : Nat) (h : Bool) :
      Canon m → m.r = 2 ^ n → m.c = 2 ^ n → (h = true → adj k m = m) → Regular k (base nm m n h)
  | ctrl (g : Gate R) (c : Nat) : Regular k g → Regular k (ctrl g c)
  | dag (g : Gate R) : Regular k g → Regular k (dag g)
  | exp (g : Gate R) : Regular k g → Regular k (exp g)
  | pow (g : Gate R) (e : Rat) : Regular k g → e.den = 1 → Regular k (pow g e)

theorem nq_power (g : Gate R) (e : Rat) : nq (power g e) = nq g := by
  induction g with
  | ctrl g c ih => simp [power, nq, ih]
  | _ => simp [power, nq]

theorem nq_dagger (g : Gate R) : nq (dagger g) = nq g := by
  induction g with
  | base nm m n h => cases h <;> simp [dagger, nq]
  | ctrl g c ih => simp [dagger, nq, ih]
  | dag g ih => simp [dagger, nq]
  | exp g ih => simp [dagger, nq, ih]
  | pow g e ih => simp [dagger, nq, nq_power, ih]

theorem nq_controlled (g : Gate R) (j : Nat) : nq (controlled g j) = nq g + j := by
  induction g with
  | base nm m n h => simp [controlled, nq]
  | ctrl g c ih => simp [controlled, nq, Nat.add_assoc]
  | dag g ih => simp [controlled, nq, nq_dagger, ih]
  | exp g ih => simp [controlled, nq]
  | pow g e ih => simp [controlled, nq, nq_power, ih]

theorem regular_power (k : Scal R) (g : Gate R) (e : Rat) (he : e.den = 1) (hg : Regular k g) :
    Regular k (power g e) := by
  induction hg with
  | ctrl g c _ ih => exact Regular.ctrl _ _ ih
  | base nm m n h h1 h2 h3 h4 => exact Regular.pow _ _ (Regular.base nm m n h h1 h2 h3 h4) he
  | dag g hg _ => exact Regular.pow _ _ (Regular.dag g hg) he
  | exp g hg _ => exact Regular.pow _ _ (Regular.exp g hg) he
  | pow g e' hg he' _ => exact Regular.pow _ _ (Regular.pow g e' hg he') he

theorem regular_dagger (k : Scal R) (g : Gate R) (hg : Regular k g) : Regular k (dagger g) := by
  induction hg with
  | base nm m n h h1 h2 h3 h4 =>
    cases h
    · exact Regular.dag _ (Regular.base nm m n false h1 h2 h3 h4)
    · exact Regular.base nm m n true h1 h2 h3 h4
  | ctrl g c _ ih => exact Regular.ctrl _ _ ih
  | dag g hg _ => exact hg
  | exp g _ ih => exact Regular.exp _ ih
  | pow g e _ he ih => exact regular_power k _ e he ih

theorem regular_controlled (k : Scal R) (g : Gate R) (j : Nat) (hg : Regular k g) : Regular k (controlled g j) := by
  induction hg with
  | base nm m n h h1 h2 h3 h4 => exact Regular.ctrl _ _ (Regular.base nm m n h h1 h2 h3 h4)
  | ctrl g c hg _ => exact Regular.ctrl _ _ hg
  | dag g _ ih => exact regular_dagger k _ ih
  | exp g hg _ => exact Regular.ctrl _ _ (Regular.exp g hg)
  | pow g e _ he ih => exact regular_power k _ e he ih

/-- a regular gate's matrix (when sympy does not raise) is a well-formed `2^nq × 2^nq` matrix -/
theorem regular_dims (k : Scal R) (x : Ext R) (hx : ExtLaws k x) (g : Gate R) (hg : Regular k g) :
    ∀ m, matrix k x g = some m → Canon m ∧ m.r = 2 ^ nq g ∧ m.c = 2 ^ nq g := by
  induction hg with
  | base nm m n h h1 h2 h3 h4 =>
    intro m' hm; simp only [matrix, Option.some.injEq] at hm; subst hm; exact ⟨h1, h2, h3⟩
  | ctrl g c _ ih =>
    intro m' hm
    simp only [matrix, Option.map_eq_some_iff] at hm
    obtain ⟨m, hm, rfl⟩ := hm
    obtain ⟨_, h2, h3⟩ := ih m hm
    have : 2 ^ nq g ≤ 2 ^ (nq g + c) := Nat.pow_le_pow_right (by norm_num) (by omega)
    refine ⟨canon_ctrlMat _ _, ?_, ?_⟩ <;> simp only [ctrlMat_r, ctrlMat_c, nq, h2, h3] <;> omega
  | dag g _ ih =>
    intro m' hm
    simp only [matrix, Option.map_eq_some_iff] at hm
    obtain ⟨m, hm, rfl⟩ := hm
    obtain ⟨_, h2, h3⟩ := ih m hm
    exact ⟨canon_adj _ _, by simpa [nq] using h3, by simpa [nq] using h2⟩
  | exp g _ ih =>
    intro m' hm
    simp only [matrix, Option.bind_eq_some_iff] at hm
    obtain ⟨m, hm, hm'⟩ := hm
    obtain ⟨h1, h2, h3⟩ := ih m hm
    obtain ⟨e1, e2, e3⟩ := hx.exp_canon m m' h1 hm'
    exact ⟨e1, by rw [e2, h2]; rfl, by rw [e3, h3]; rfl⟩
  | pow g e _ _ ih =>
    intro m' hm
    simp only [matrix, Option.bind_eq_some_iff] at hm
    obtain ⟨m, hm, hm'⟩ := hm
    obtain ⟨h1, h2, h3⟩ := ih m hm
    obtain ⟨e1, e2, e3⟩ := hx.pow_canon m e m' h1 hm'
    exact ⟨e1, by rw [e2, h2]; rfl, by rw [e3, h3]; rfl⟩

/-- `.power(e)` denotes the power (integer `e`) – also through `ControlledGate.power` -/
theorem power_faithful (k : Scal R) (x : Ext R) (hx : ExtLaws k x) (g : Gate R) (hg : Regular k g)
    (e : Rat) (he : e.den = 1) :
    matrix k x (power g e) = (matrix k x g).bind (fun m => x.mpow m e) := by
  induction hg with
  | ctrl g c hg ih =>
    simp only [power, matrix, nq_power, ih]
    cases hm : matrix k x g with
    | none => simp
    | some m =>
      obtain ⟨h1, h2, h3⟩ := regular_dims k x hx g hg m hm
      simp only [Option.bind_some, Option.map_some]
      rw [hx.pow_ctrl m _ e h1 (by rw [h2, h3]) he]
  | base nm m n h h1 h2 h3 h4 => rfl
  | dag g hg _ => rfl
  | exp g hg _ => rfl
  | pow g e' hg he' _ => rfl

/-- `.dagger` denotes the adjoint on regular gates -/
theorem dagger_faithful (k : Scal R) (hk : k.cj = star) (x : Ext R) (hx : ExtLaws k x) (g : Gate R)
    (hg : Regular k g) : matrix k x (dagger g) = (matrix k x g).map (adj k) := by
  induction hg with
  | base nm m n h h1 h2 h3 h4 =>
    cases h
    · rfl
    · simp only [dagger, if_true, matrix, Option.map_some, h4 rfl]
  | ctrl g c hg ih =>
    simp only [dagger, matrix, nq_dagger, ih, Option.map_map]
    congr 1; funext m; simp only [Function.comp, adj_ctrlMat k hk]
  | dag g hg _ =>
    simp only [dagger, matrix, Option.map_map]
    cases hm : matrix k x g with
    | none => rfl
    | some m =>
      obtain ⟨h1, _, _⟩ := regular_dims k x hx g hg m hm
      simp [adj_adj k hk m h1]
  | exp g hg ih =>
    simp only [dagger, matrix, ih]
    cases hm : matrix k x g with
    | none => rfl
    | some m =>
      obtain ⟨h1, h2, h3⟩ := regular_dims k x hx g hg m hm
      simp only [Option.map_some, Option.bind_some]
      exact hx.exp_adj m h1 (by rw [h2, h3])
  | pow g e hg he ih =>
    simp only [dagger, matrix]
    rw [power_faithful k x hx _ (regular_dagger k g hg) e he, ih]
    cases hm : matrix k x g with
    | none => rfl
    | some m =>
      obtain ⟨h1, h2, h3⟩ := regular_dims k x hx g hg m hm
      simp only [Option.map_some, Option.bind_some]
      exact hx.pow_adj m e h1 (by rw [h2, h3]) he


/-- the gate under all the controls that `.controlled` would merge (proof device) -/
def core : Gate R → Gate R
  | base nm m n h => base nm m n h
  | ctrl g _ => g
  | dag g => dagger (core g)
  | exp g => exp g
  | pow g e => power (core g) e

/-- the number of controls `.controlled` merges with (proof device) -/
def kk : Gate R → Nat
  | base _ _ _ _ => 0
  | ctrl _ c => c
  | dag g => kk g
  | exp _ => 0
  | pow g _ => kk g

theorem power_ctrl (g : Gate R) (c : Nat) (e : Rat) : power (ctrl g c) e = ctrl (power g e) c := rfl

/-- normal form of `.controlled(j)` -/
theorem controlled_eq (g : Gate R) (j : Nat) : controlled g j = ctrl (core g) (kk g + j) := by
  induction g with
  | base nm m n h => simp [controlled, core, kk]
  | ctrl g c ih => simp [controlled, core, kk]
  | dag g ih => simp [controlled, core, kk, ih, dagger]
  | exp g ih => simp [controlled, core, kk]
  | pow g e ih => simp [controlled, core, kk, ih, power]

theorem nq_core (g : Gate R) : nq g = nq (core g) + kk g := by
  induction g with
  | base nm m n h => simp [core, kk]
  | ctrl g c ih => simp [core, kk, nq]
  | dag g ih => simp [core, kk, nq, nq_dagger, ih]
  | exp g ih => simp [core, kk]
  | pow g e ih => simp [core, kk, nq, nq_power, ih]

theorem regular_core (k : Scal R) (g : Gate R) (hg : Regular k g) : Regular k (core g) := by
  induction hg with
  | base nm m n h h1 h2 h3 h4 => exact Regular.base nm m n h h1 h2 h3 h4
  | ctrl g c hg _ => exact hg
  | dag g _ ih => exact regular_dagger k _ ih
  | exp g hg _ => exact Regular.exp g hg
  | pow g e _ he ih => exact regular_power k _ e he ih

/-- every regular gate is its core under `kk` merged controls -/
theorem core_faithful (k : Scal R) (hk : k.cj = star) (x : Ext R) (hx : ExtLaws k x) (g : Gate R)
    (hg : Regular k g) :
    matrix k x g = (matrix k x (core g)).map (ctrlMat (2 ^ nq g - 2 ^ nq (core g))) := by
  induction hg with
  | base nm m n h h1 h2 h3 h4 =>
    simp only [core, matrix, Option.map_some, Nat.sub_self, ctrlMat_zero m h1]
  | ctrl g c hg _ => simp only [core, matrix, nq]
  | exp g hg _ =>
    simp only [core, Nat.sub_self]
    cases hm : matrix k x (exp g) with
    | none => rfl
    | some m =>
      obtain ⟨h1, _, _⟩ := regular_dims k x hx _ (Regular.exp g hg) m hm
      simp [ctrlMat_zero m h1]
  | dag g hg ih =>
    simp only [core, matrix, nq, nq_dagger]
    rw [ih, dagger_faithful k hk x hx _ (regular_core k g hg), Option.map_map, Option.map_map]
    congr 1; funext m; simp only [Function.comp, adj_ctrlMat k hk]
  | pow g e hg he ih =>
    simp only [core, matrix, nq, nq_power]
    rw [power_faithful k x hx _ (regular_core k g hg) e he, ih]
    cases hm : matrix k x (core g) with
    | none => rfl
    | some m =>
      obtain ⟨h1, h2, h3⟩ := regular_dims k x hx _ (regular_core k g hg) m hm
      simp only [Option.map_some, Option.bind_some]
      exact hx.pow_ctrl m _ e h1 (by rw [h2, h3]) he

/-- `.controlled(1)` denotes `diag(1, M)` on regular gates -/
theorem ctrl_faithful (k : Scal R) (hk : k.cj = star) (x : Ext R) (hx : ExtLaws k x) (g : Gate R)
    (hg : Regular k g) :
    matrix k x (controlled g 1) = (matrix k x g).map (ctrlMat (2 ^ nq g)) := by
  rw [controlled_eq, core_faithful k hk x hx g hg]
  simp only [matrix, Option.map_map]
  congr 1; funext m
  simp only [Function.comp, ctrlMat_ctrlMat]
  congr 1
  have h := nq_core g
  have h1 : 2 ^ nq (core g) ≤ 2 ^ nq g := Nat.pow_le_pow_right (by norm_num) (by omega)
  have h2 : 2 ^ (nq (core g) + (kk g + 1)) = 2 * 2 ^ nq g := by
    rw [← Nat.add_assoc, ← h, Nat.pow_succ]; ring
  omega

end Gate
end OQ.C08
