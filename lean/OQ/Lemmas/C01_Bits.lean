import OQ.Model.Lift
import Mathlib.Data.Nat.Bits
import Mathlib.Data.List.Perm.Basic
import Mathlib.Data.List.Range
import Mathlib.Tactic.Ring
import Mathlib.Tactic.Linarith

namespace OQ.C01
open OQ.Lift

/-- bit of qubit `q` in the basis index `x` of an `n`-qubit register (qubit 0 = most significant) -/
def bit (n q x : Nat) : Nat := (x / 2 ^ (n - 1 - q)) % 2

/-- the sub-index read off `x` at the positions `qs` (first listed qubit most significant) -/
def sub (n : Nat) (qs : List Nat) (x : Nat) : Nat := bitsToIndex (qs.map (fun q => bit n q x))

theorem bit_lt (n q x : Nat) : bit n q x < 2 := Nat.mod_lt _ (by decide)

theorem bit_eq_testBit (n q x : Nat) : bit n q x = (x.testBit (n - 1 - q)).toNat := by
  unfold bit; rw [Nat.toNat_testBit]

theorem bit_eq_iff (n q x y : Nat) : bit n q x = bit n q y ↔ x.testBit (n - 1 - q) = y.testBit (n - 1 - q) := by
  rw [bit_eq_testBit, bit_eq_testBit]
  cases x.testBit (n - 1 - q) <;> cases y.testBit (n - 1 - q) <;> simp

theorem foldl_bits (l : List Nat) (acc : Nat) :
    l.foldl (fun a b => 2 * a + b) acc = acc * 2 ^ l.length + l.foldl (fun a b => 2 * a + b) 0 := by
  induction l generalizing acc with
  | nil => simp
  | cons x xs ih =>
    simp only [List.foldl_cons, List.length_cons]
    rw [ih (2 * acc + x), ih (2 * 0 + x)]
    ring

theorem bitsToIndex_nil : bitsToIndex [] = 0 := rfl

theorem bitsToIndex_cons (x : Nat) (l : List Nat) :
    bitsToIndex (x :: l) = x * 2 ^ l.length + bitsToIndex l := by
  unfold bitsToIndex
  simp only [List.foldl_cons]
  rw [foldl_bits]; ring_nf

theorem bitsToIndex_append (a b : List Nat) :
    bitsToIndex (a ++ b) = bitsToIndex a * 2 ^ b.length + bitsToIndex b := by
  unfold bitsToIndex
  rw [List.foldl_append, foldl_bits]

theorem bitsToIndex_lt (l : List Nat) (h : ∀ b ∈ l, b < 2) : bitsToIndex l < 2 ^ l.length := by
  induction l with
  | nil => simp [bitsToIndex_nil]
  | cons x xs ih =>
    rw [bitsToIndex_cons, List.length_cons, pow_succ]
    have hx : x < 2 := h x (by simp)
    have := ih (fun b hb => h b (by simp [hb]))
    have hx' : x ≤ 1 := by omega
    nlinarith [Nat.mul_le_mul_right (2 ^ xs.length) hx']

theorem bitsToIndex_inj (a b : List Nat) (hl : a.length = b.length)
    (ha : ∀ x ∈ a, x < 2) (hb : ∀ x ∈ b, x < 2) (h : bitsToIndex a = bitsToIndex b) : a = b := by
  induction a generalizing b with
  | nil => cases b with
    | nil => rfl
    | cons y ys => simp at hl
  | cons x xs ih =>
    cases b with
    | nil => simp at hl
    | cons y ys =>
      simp only [List.length_cons, add_left_inj] at hl
      rw [bitsToIndex_cons, bitsToIndex_cons, hl] at h
      have h1 := bitsToIndex_lt xs (fun z hz => ha z (by simp [hz]))
      have h2 := bitsToIndex_lt ys (fun z hz => hb z (by simp [hz]))
      rw [hl] at h1
      have hx : x < 2 := ha x (by simp)
      have hy : y < 2 := hb y (by simp)
      have hxy : x = y := by
        rcases Nat.lt_trichotomy x y with hlt | heq | hgt
        · exfalso
          have : (x + 1) * 2 ^ ys.length ≤ y * 2 ^ ys.length := Nat.mul_le_mul_right _ hlt
          nlinarith
        · exact heq
        · exfalso
          have : (y + 1) * 2 ^ ys.length ≤ x * 2 ^ ys.length := Nat.mul_le_mul_right _ hgt
          nlinarith
      subst hxy
      have : bitsToIndex xs = bitsToIndex ys := by omega
      rw [ih ys hl (fun z hz => ha z (by simp [hz])) (fun z hz => hb z (by simp [hz])) this]

theorem sub_lt (n : Nat) (qs : List Nat) (x : Nat) : sub n qs x < 2 ^ qs.length := by
  have := bitsToIndex_lt (qs.map (fun q => bit n q x)) (by
    intro b hb; simp only [List.mem_map] at hb; obtain ⟨q, _, rfl⟩ := hb; exact bit_lt _ _ _)
  simpa [sub] using this

theorem basisBitstring_eq (i n : Nat) : basisBitstring i n = (List.range n).map (fun q => bit n q i) := rfl

theorem permute_basis (col n : Nat) (order : List Nat) (h : ∀ i ∈ order, i < n) :
    permute (basisBitstring col n) order = order.map (fun q => bit n q col) := by
  unfold permute
  apply List.map_congr_left
  intro i hi
  have := h i hi
  rw [basisBitstring_eq, List.getD_eq_getElem?_getD, List.getElem?_map, List.getElem?_range this]
  rfl

end OQ.C01
