import OQ.Exec.Py
import OQ.Model.C04
import OQ.Lemmas.C04
import Mathlib.Tactic.IntervalCases
namespace OQ.Py

theorem charDigit_digitChar (d : Nat) (h : d < 10) : charDigit (digitChar d) = (d : Int) := by
  interval_cases d <;> rfl

theorem binDigitsFuel_eq (f i : Nat) : binDigitsFuel f i = OQ.C04.binDigitsFuel f i := by
  induction f generalizing i with
  | zero => rfl
  | succ f ih => simp only [binDigitsFuel, OQ.C04.binDigitsFuel, ih]

theorem binDigits_eq (i : Nat) : binDigits i = OQ.C04.binDigits i := binDigitsFuel_eq i i

theorem binDigitsFuel_lt_two (f i : Nat) : ∀ d ∈ binDigitsFuel f i, d < 2 := by
  induction f generalizing i with
  | zero => intro d hd; simp [binDigitsFuel] at hd; omega
  | succ f ih =>
    intro d hd
    simp only [binDigitsFuel] at hd
    split at hd
    · simp at hd; omega
    · simp only [List.mem_append, List.mem_singleton] at hd
      rcases hd with h | h
      · exact ih _ d h
      · omega

theorem map_charDigit_digitChar (l : List Nat) (h : ∀ d ∈ l, d < 10) :
    (l.map digitChar).map charDigit = l.map Int.ofNat := by
  induction l with
  | nil => rfl
  | cons a l ih =>
    simp only [List.map_cons]
    rw [charDigit_digitChar a (h a (by simp)), ih (fun d hd => h d (by simp [hd]))]
    rfl

theorem bin_ofNat (i : Nat) : bin (i : Int) = '0' :: 'b' :: (binDigits i).map digitChar := by
  unfold bin
  simp

theorem sliceFrom_bin (i : Nat) : sliceFrom (bin (i : Int)) 2 = (binDigits i).map digitChar := by
  rw [bin_ofNat]; rfl

theorem binDigitsFuel_ne_nil (f i : Nat) : binDigitsFuel f i ≠ [] := by
  cases f with
  | zero => simp [binDigitsFuel]
  | succ f => simp only [binDigitsFuel]; split <;> simp

theorem digitChar_not_sign (d : Nat) (h : d < 10) : (digitChar d == '-' || digitChar d == '+') = false := by
  interval_cases d <;> rfl

theorem zfill_digits (l : List Nat) (hne : l ≠ []) (h : ∀ d ∈ l, d < 10) (w : Nat) :
    zfill (l.map digitChar) (w : Int) = (List.replicate (w - l.length) 0 ++ l).map digitChar := by
  cases l with
  | nil => exact absurd rfl hne
  | cons a l =>
    simp only [zfill, List.map_cons, digitChar_not_sign a (h a (by simp)), Bool.false_eq_true, if_false,
      Int.toNat_natCast, List.length_cons, List.length_map, List.map_append, List.map_replicate]
    rfl

end OQ.Py
