/- helper lemmas and specification vocabulary for C10 (not property theorems) -/
import OQ.Model.C10
import Mathlib.Tactic.Linarith
import Mathlib.Tactic.Ring
import Mathlib.Tactic.Abel
import Mathlib.Tactic.Tauto
import Mathlib.Tactic.FieldSimp
import Mathlib.Algebra.BigOperators.Group.List.Basic
import Mathlib.Data.List.Count
import Mathlib.Data.List.Perm.Basic
import Mathlib.Data.List.Nodup
import Mathlib.Data.Int.Cast.Lemmas
import Mathlib.Algebra.Field.Basic
import Mathlib.Algebra.CharZero.Defs
import Mathlib.Data.Nat.Cast.Field
namespace OQ.C10

/-! ## mapE -/
theorem mapE_ok {α β : Type} (f : α → Except Err β) (g : α → β) (l : List α)
    (h : ∀ x ∈ l, f x = .ok (g x)) : mapE f l = .ok (l.map g) := by
  induction l with
  | nil => rfl
  | cons x xs ih =>
    have hx := h x (by simp)
    have hxs := ih (fun y hy => h y (by simp [hy]))
    simp [mapE, hx, hxs]

theorem mapE_ok_inv {α β : Type} (f : α → Except Err β) (l : List α) (r : List β)
    (h : mapE f l = .ok r) : ∀ x ∈ l, ∃ y, f x = .ok y := by
  induction l generalizing r with
  | nil => simp
  | cons x xs ih =>
    intro y hy
    simp only [mapE] at h
    cases hfx : f x with
    | error e => rw [hfx] at h; cases h
    | ok v =>
      rw [hfx] at h
      cases hm : mapE f xs with
      | error e => rw [hm] at h; cases h
      | ok vs =>
        rcases List.mem_cons.mp hy with rfl | hy'
        · exact ⟨v, hfx⟩
        · exact ih vs hm y hy'

/-! ## Counter -/
def wsum {M : Type} [AddCommMonoid M] (g : Shot → M) (c : Counts) : M := (c.map (fun p => p.2 • g p.1)).sum

theorem wsum_bump {M : Type} [AddCommMonoid M] (g : Shot → M) (c : Counts) (k : Shot) :
    wsum g (c.bump k) = wsum g c + g k := by
  induction c with
  | nil => simp [wsum, Counts.bump, one_nsmul]
  | cons p rest ih =>
    obtain ⟨k', v⟩ := p
    simp only [Counts.bump]
    split
    · next h => subst h; simp only [wsum, List.map_cons, List.sum_cons, succ_nsmul]; abel
    · simp only [wsum, List.map_cons, List.sum_cons] at ih ⊢; rw [ih]; abel

theorem wsum_foldl {M : Type} [AddCommMonoid M] (g : Shot → M) (shots : List Shot) (c : Counts) :
    wsum g (shots.foldl Counts.bump c) = wsum g c + (shots.map g).sum := by
  induction shots generalizing c with
  | nil => simp
  | cons s ss ih => simp only [List.foldl_cons, ih, wsum_bump, List.map_cons, List.sum_cons]; abel

theorem wsum_getCounts {M : Type} [AddCommMonoid M] (g : Shot → M) (shots : List Shot) :
    wsum g (getCounts shots) = (shots.map g).sum := by
  rw [getCounts, wsum_foldl]; simp [wsum]

theorem total_eq_wsum (c : Counts) : c.total = wsum (fun _ => 1) c := by
  simp [Counts.total, wsum]

theorem getCounts_total (shots : List Shot) : (getCounts shots).total = shots.length := by
  rw [total_eq_wsum, wsum_getCounts]; simp

theorem bump_get (c : Counts) (k k0 : Shot) :
    (c.bump k).get k0 = c.get k0 + (if k = k0 then 1 else 0) := by
  induction c with
  | nil => by_cases h : k = k0 <;> simp [Counts.bump, Counts.get, h]
  | cons p rest ih =>
    obtain ⟨k', v'⟩ := p
    by_cases h1 : k' = k <;> by_cases h2 : k' = k0 <;> by_cases h3 : k = k0 <;>
      simp_all [Counts.bump, Counts.get]

theorem foldl_bump_get (shots : List Shot) (c : Counts) (k0 : Shot) :
    (shots.foldl Counts.bump c).get k0 = c.get k0 + shots.count k0 := by
  induction shots generalizing c with
  | nil => simp
  | cons s ss ih =>
    simp only [List.foldl_cons, ih, bump_get, List.count_cons]
    by_cases h : s = k0
    · simp [h, Nat.add_assoc, Nat.add_comm]
    · simp [h]

theorem getCounts_get (shots : List Shot) (k : Shot) : (getCounts shots).get k = shots.count k := by
  simp [getCounts, foldl_bump_get, Counts.get]

def Counts.keys (c : Counts) : List Shot := c.map (fun p => p.1)

theorem bump_keys_mem (c : Counts) (k x : Shot) : x ∈ (c.bump k).keys ↔ x ∈ c.keys ∨ x = k := by
  induction c with
  | nil => simp [Counts.bump, Counts.keys]
  | cons p rest ih =>
    obtain ⟨k', v⟩ := p
    simp only [Counts.bump]
    split
    · next h => subst h; simp only [Counts.keys, List.map_cons, List.mem_cons]; tauto
    · simp only [Counts.keys, List.map_cons, List.mem_cons] at ih ⊢; rw [ih]; tauto

theorem bump_keys_nodup (c : Counts) (k : Shot) (h : c.keys.Nodup) : (c.bump k).keys.Nodup := by
  induction c with
  | nil => simp [Counts.bump, Counts.keys]
  | cons p rest ih =>
    obtain ⟨k', v⟩ := p
    simp only [Counts.keys, List.map_cons, List.nodup_cons] at h
    simp only [Counts.bump]
    split
    · simpa [Counts.keys] using h
    · next hne =>
      have := ih h.2
      simp only [Counts.keys, List.map_cons, List.nodup_cons]
      refine ⟨?_, this⟩
      intro hm
      have := (bump_keys_mem rest k k').mp hm
      rcases this with h1 | h1
      · exact h.1 h1
      · exact hne h1

theorem bump_pos (c : Counts) (k : Shot) (h : ∀ p ∈ c, 0 < p.2) : ∀ p ∈ c.bump k, 0 < p.2 := by
  induction c with
  | nil => simp [Counts.bump]
  | cons p rest ih =>
    obtain ⟨k', v⟩ := p
    simp only [Counts.bump]
    split
    · intro q hq
      rcases List.mem_cons.mp hq with rfl | hq
      · simp
      · exact h q (by simp [hq])
    · intro q hq
      rcases List.mem_cons.mp hq with rfl | hq
      · exact h _ (by simp)
      · exact ih (fun p hp => h p (by simp [hp])) q hq

theorem foldl_bump_inv (shots : List Shot) (c : Counts)
    (h1 : c.keys.Nodup) (h2 : ∀ p ∈ c, 0 < p.2) :
    (shots.foldl Counts.bump c).keys.Nodup ∧ (∀ p ∈ shots.foldl Counts.bump c, 0 < p.2) ∧
    (∀ x, x ∈ (shots.foldl Counts.bump c).keys ↔ x ∈ c.keys ∨ x ∈ shots) := by
  induction shots generalizing c with
  | nil => exact ⟨h1, h2, fun x => by simp⟩
  | cons s ss ih =>
    simp only [List.foldl_cons]
    obtain ⟨a, b, d⟩ := ih (c.bump s) (bump_keys_nodup c s h1) (bump_pos c s h2)
    refine ⟨a, b, fun x => ?_⟩
    rw [d, bump_keys_mem]; simp only [List.mem_cons]; tauto

theorem getCounts_inv (shots : List Shot) :
    (getCounts shots).keys.Nodup ∧ (∀ p ∈ getCounts shots, 0 < p.2) ∧
    (∀ x, x ∈ (getCounts shots).keys ↔ x ∈ shots) := by
  have := foldl_bump_inv shots [] (by simp [Counts.keys]) (by simp)
  simpa [getCounts, Counts.keys] using this


/-! ## counts ↔ shots -/
/-- the shots a histogram stands for: each key repeated count-many times, in dictionary order -/
def expand (c : Counts) : List Shot := c.flatMap (fun p => List.replicate p.2 p.1)

/-- a histogram as Python hands it to `add_counts` (values are ints) -/
def castCounts (c : Counts) : List (Shot × Int) := c.map (fun p => (p.1, (p.2 : Int)))

theorem addCounts_eq (b : List Shot) (c : List (Shot × Int)) :
    addCounts b c = b ++ c.flatMap (fun p => List.replicate p.2.toNat p.1) := by
  unfold addCounts
  induction c generalizing b with
  | nil => simp
  | cons p ps ih => simp only [List.foldl_cons, ih, List.flatMap_cons, List.append_assoc]

theorem fromCounts_cast (c : Counts) : fromCounts (castCounts c) = expand c := by
  simp only [fromCounts, addCounts_eq, List.nil_append, castCounts, expand]
  induction c with
  | nil => rfl
  | cons p ps ih => simp only [List.map_cons, List.flatMap_cons, ih, Int.toNat_natCast]

theorem expand_bump_perm (c : Counts) (k : Shot) : (expand (c.bump k)).Perm (k :: expand c) := by
  induction c with
  | nil => simp [expand, Counts.bump]
  | cons p rest ih =>
    obtain ⟨k', v⟩ := p
    simp only [Counts.bump]
    split
    · next h => subst h; simp [expand, List.replicate_succ]
    · simp only [expand, List.flatMap_cons] at ih ⊢
      exact (List.Perm.append_left _ ih).trans List.perm_middle

theorem expand_foldl_perm (shots : List Shot) (c : Counts) :
    (expand (shots.foldl Counts.bump c)).Perm (shots ++ expand c) := by
  induction shots generalizing c with
  | nil => simp
  | cons s ss ih =>
    simp only [List.foldl_cons, List.cons_append]
    exact (ih (c.bump s)).trans ((List.Perm.append_left ss (expand_bump_perm c s)).trans List.perm_middle)

theorem expand_getCounts_perm (shots : List Shot) : (expand (getCounts shots)).Perm shots := by
  have := expand_foldl_perm shots []
  simpa [getCounts, expand] using this

theorem bump_new (acc : Counts) (k : Shot) (h : k ∉ acc.keys) : acc.bump k = acc ++ [(k, 1)] := by
  induction acc with
  | nil => rfl
  | cons p rest ih =>
    obtain ⟨k', v⟩ := p
    simp only [Counts.keys, List.map_cons, List.mem_cons, not_or] at h
    have hne : ¬ k' = k := fun e => h.1 e.symm
    simp only [Counts.bump, hne, if_false, List.cons_append]
    rw [ih h.2]

theorem bump_last (acc : Counts) (k : Shot) (n : Nat) (h : k ∉ acc.keys) :
    (acc ++ [(k, n)]).bump k = acc ++ [(k, n + 1)] := by
  induction acc with
  | nil => simp [Counts.bump]
  | cons p rest ih =>
    obtain ⟨k', v⟩ := p
    simp only [Counts.keys, List.map_cons, List.mem_cons, not_or] at h
    have hne : ¬ k' = k := fun e => h.1 e.symm
    simp only [List.cons_append, Counts.bump, hne, if_false]
    rw [ih h.2]

theorem foldl_replicate (acc : Counts) (k : Shot) (v : Nat) (h : k ∉ acc.keys) :
    (List.replicate (v + 1) k).foldl Counts.bump acc = acc ++ [(k, v + 1)] := by
  induction v with
  | zero => simp [bump_new acc k h]
  | succ v ih =>
    rw [List.replicate_succ', List.foldl_append, ih]
    simp only [List.foldl_cons, List.foldl_nil]
    exact bump_last acc k (v + 1) h

theorem foldl_expand (c acc : Counts) (hn : c.keys.Nodup) (hd : ∀ k ∈ c.keys, k ∉ acc.keys)
    (hp : ∀ p ∈ c, 0 < p.2) : (expand c).foldl Counts.bump acc = acc ++ c := by
  induction c generalizing acc with
  | nil => simp [expand]
  | cons p rest ih =>
    obtain ⟨k, v⟩ := p
    simp only [Counts.keys, List.map_cons, List.nodup_cons] at hn
    have hv : 0 < v := hp (k, v) (by simp)
    obtain ⟨v', rfl⟩ : ∃ v', v = v' + 1 := ⟨v - 1, by omega⟩
    have hk : k ∉ acc.keys := hd k (by simp [Counts.keys])
    simp only [expand, List.flatMap_cons, List.foldl_append]
    rw [foldl_replicate acc k v' hk]
    have := ih (acc ++ [(k, v' + 1)]) hn.2 (by
      intro x hx
      simp only [Counts.keys, List.map_append, List.map_cons, List.map_nil, List.mem_append,
        List.mem_singleton, not_or]
      refine ⟨hd x (by simp only [Counts.keys, List.map_cons, List.mem_cons]; exact Or.inr hx), ?_⟩
      rintro rfl; exact hn.1 hx) (fun p hp' => hp p (by simp [hp']))
    simp only [expand] at this
    rw [this]; simp

theorem getCounts_expand (c : Counts) (hn : c.keys.Nodup) (hp : ∀ p ∈ c, 0 < p.2) :
    getCounts (expand c) = c := by
  have := foldl_expand c [] hn (by simp [Counts.keys]) hp
  simpa [getCounts] using this

theorem count_expand (c : Counts) (k : Shot) :
    (expand c).count k = ((c.filter (fun p => p.1 = k)).map (fun p => p.2)).sum := by
  induction c with
  | nil => simp [expand]
  | cons p rest ih =>
    obtain ⟨k', v⟩ := p
    simp only [expand, List.flatMap_cons, List.count_append] at ih ⊢
    rw [ih]
    by_cases h : k' = k
    · subst h; simp [List.count_replicate_self]
    · simp [h, List.count_replicate]


/-! ## specification vocabulary: eigenvalue and parity of a shot on a set of qubits -/

/-- the measured bit of qubit `q` -/
def bitAt (s : Shot) (q : Nat) : Bool := s.getD q false

/-- the ±1 eigenvalue of the Z-string on `marked` for the shot `s`: ∏ (1 − 2·bit) -/
def zval (marked : List Nat) (s : Shot) : Int := (marked.map (fun q => if bitAt s q then (-1 : Int) else 1)).prod

/-- number of marked qubits measured as 1 -/
def onesCount (marked : List Nat) (s : Shot) : Nat := marked.countP (fun q => bitAt s q)

/-- the shot has even parity on the marked qubits -/
def evenParity (marked : List Nat) (s : Shot) : Bool := onesCount marked s % 2 == 0

/-- what `check_parity_of_vector` computes for one row -/
def parityBit (marked : List Nat) (s : Shot) : Nat := ((marked.map (fun q => (bitAt s q).toNat)).sum + 1) % 2

theorem sum_toNat_eq_count (marked : List Nat) (s : Shot) :
    (marked.map (fun q => (bitAt s q).toNat)).sum = onesCount marked s := by
  induction marked with
  | nil => rfl
  | cons q qs ih =>
    simp only [onesCount, List.map_cons, List.sum_cons, List.countP_cons] at ih ⊢
    rw [ih]; cases bitAt s q <;> simp
    omega

theorem zval_eq_pow (marked : List Nat) (s : Shot) : zval marked s = (-1) ^ onesCount marked s := by
  induction marked with
  | nil => rfl
  | cons q qs ih =>
    simp only [zval, onesCount, List.map_cons, List.prod_cons, List.countP_cons] at ih ⊢
    rw [ih]; cases bitAt s q <;> simp [pow_succ]

theorem zval_eq_ite (marked : List Nat) (s : Shot) :
    zval marked s = if evenParity marked s then 1 else -1 := by
  rw [zval_eq_pow, evenParity]
  rcases Nat.even_or_odd (onesCount marked s) with h | h
  · have : onesCount marked s % 2 = 0 := Nat.even_iff.mp h
    simp [this, h.neg_one_pow]
  · have : onesCount marked s % 2 = 1 := Nat.odd_iff.mp h
    simp [this, h.neg_one_pow]

theorem parityBit_eq (marked : List Nat) (s : Shot) :
    parityBit marked s = if evenParity marked s then 1 else 0 := by
  simp only [parityBit, sum_toNat_eq_count, evenParity]
  rcases Nat.mod_two_eq_zero_or_one (onesCount marked s) with h | h
  · simp [h]; omega
  · simp [h]; omega

theorem sign_eq_zval (marked : List Nat) (s : Shot) :
    ((parityBit marked s : Nat) : Int) * 2 - 1 = zval marked s := by
  rw [parityBit_eq, zval_eq_ite]; cases evenParity marked s <;> simp

theorem zval_mul_self (marked : List Nat) (s : Shot) : zval marked s * zval marked s = 1 := by
  rw [zval_eq_ite]; cases evenParity marked s <;> simp

theorem zval_nil (s : Shot) : zval [] s = 1 := rfl

theorem countP_split {α : Type} (p q : α → Bool) (l : List α) :
    l.countP p = (l.filter q).countP p + (l.filter (fun x => !q x)).countP p := by
  induction l with
  | nil => rfl
  | cons x xs ih =>
    cases hq : q x <;> cases hp : p x <;> simp [hq, hp, ih] <;> omega

theorem inter_perm (a b : List Nat) (ha : a.Nodup) (hb : b.Nodup) :
    (a.filter (fun q => b.contains q)).Perm (b.filter (fun q => a.contains q)) := by
  rw [List.perm_ext_iff_of_nodup (ha.filter _) (hb.filter _)]
  intro x; simp only [List.mem_filter, List.contains_iff_mem]; tauto

/-- symmetric difference: the 1-counts of the two supports add up to that of the symmetric difference
    plus twice that of the intersection -/
theorem onesCount_symmDiff (a b : List Nat) (ha : a.Nodup) (hb : b.Nodup) (s : Shot) :
    onesCount a s + onesCount b s =
      onesCount (symmDiff a b) s + 2 * onesCount (a.filter (fun q => b.contains q)) s := by
  have h1 := countP_split (fun q => bitAt s q) (fun q => b.contains q) a
  have h2 := countP_split (fun q => bitAt s q) (fun q => a.contains q) b
  have h3 := (inter_perm a b ha hb).countP_eq (fun q => bitAt s q)
  simp only [onesCount, symmDiff, List.countP_append] at *
  omega

/-- `Z_A · Z_B = Z_{A △ B}` pointwise -/
theorem zval_symmDiff (a b : List Nat) (ha : a.Nodup) (hb : b.Nodup) (s : Shot) :
    zval (symmDiff a b) s = zval a s * zval b s := by
  rw [zval_eq_pow, zval_eq_pow, zval_eq_pow, ← pow_add, onesCount_symmDiff a b ha hb s, pow_add, pow_mul]
  simp

theorem evenParity_symmDiff (a b : List Nat) (ha : a.Nodup) (hb : b.Nodup) (s : Shot) :
    evenParity (symmDiff a b) s = (evenParity a s == evenParity b s) := by
  have := onesCount_symmDiff a b ha hb s
  simp only [evenParity]
  rcases Nat.mod_two_eq_zero_or_one (onesCount a s) with h1 | h1 <;>
  rcases Nat.mod_two_eq_zero_or_one (onesCount b s) with h2 | h2 <;>
  rcases Nat.mod_two_eq_zero_or_one (onesCount (symmDiff a b) s) with h3 | h3 <;>
  simp [h1, h2, h3] <;> omega

theorem mem_symmDiff (a b : List Nat) (q : Nat) (h : q ∈ symmDiff a b) : q ∈ a ∨ q ∈ b := by
  simp only [symmDiff, List.mem_append, List.mem_filter] at h
  tauto


/-! ## `_convert_bitstrings_to_vector`, `check_parity_of_vector`, `get_expectation_value_from_frequencies` -/

theorem rowsOf_flatten (keys : List Shot) (w : Nat) (h : ∀ k ∈ keys, k.length = w) :
    rowsOf keys.length w keys.flatten = keys := by
  induction keys with
  | nil => rfl
  | cons k ks ih =>
    have hk : k.length = w := h k (by simp)
    simp only [List.length_cons, rowsOf, List.flatten_cons]
    rw [List.take_left' hk, List.drop_left' hk, ih (fun x hx => h x (by simp [hx]))]

theorem flatten_length_eq (keys : List Shot) (w : Nat) (h : ∀ k ∈ keys, k.length = w) :
    keys.flatten.length = keys.length * w := by
  induction keys with
  | nil => simp
  | cons k ks ih =>
    simp only [List.flatten_cons, List.length_append, List.length_cons]
    rw [ih (fun x hx => h x (by simp [hx])), h k (by simp)]; ring

theorem convert_ok (keys : List Shot) (w : Nat) (hne : keys ≠ []) (hw : 0 < w)
    (h : ∀ k ∈ keys, k.length = w) : convertBitstringsToVector keys = .ok keys := by
  cases keys with
  | nil => exact absurd rfl hne
  | cons k0 ks =>
    have h0 : k0.length = w := h k0 (by simp)
    have hl := flatten_length_eq (k0 :: ks) w h
    simp only [convertBitstringsToVector, h0]
    rw [hl, if_neg (by omega), if_neg (by simp), Nat.mul_div_cancel _ hw]
    rw [rowsOf_flatten (k0 :: ks) w h]

theorem convert_width0 (k0 : Shot) (ks : List Shot) (h : k0.length = 0) :
    convertBitstringsToVector (k0 :: ks) = .error .value := by
  simp [convertBitstringsToVector, h]

theorem getElem?_eq_bitAt (r : Shot) (q : Nat) (h : q < r.length) : r[q]? = some (bitAt r q) := by
  simp [bitAt, List.getD_eq_getElem?_getD, List.getElem?_eq_getElem h]

theorem bitOf_ok (r : Shot) (q : Nat) (h : q < r.length) : bitOf r q = .ok (bitAt r q).toNat := by
  simp [bitOf, getElem?_eq_bitAt r q h]

theorem rowParity_ok (marked : List Nat) (r : Shot) (h : ∀ q ∈ marked, q < r.length) :
    rowParity marked r = .ok (parityBit marked r) := by
  unfold rowParity
  rw [mapE_ok (bitOf r) (fun q => (bitAt r q).toNat) marked (fun q hq => bitOf_ok r q (h q hq))]
  rfl

theorem checkParity_ok (rows : List Shot) (marked : List Nat) (w : Nat)
    (h : ∀ r ∈ rows, r.length = w) (hm : ∀ q ∈ marked, q < w) :
    checkParityOfVector rows marked = .ok (rows.map (parityBit marked)) := by
  unfold checkParityOfVector
  cases marked with
  | nil =>
    simp only [List.isEmpty_nil, if_true]
    congr 1
  | cons q0 qs =>
    simp only [List.isEmpty_cons, Bool.false_eq_true, if_false]
    apply mapE_ok
    intro r hr
    exact rowParity_ok _ r (fun q hq => by rw [h r hr]; exact hm q hq)

theorem zipWith_map_map {α β γ δ : Type} (f : β → γ → δ) (a : α → β) (b : α → γ) (l : List α) :
    List.zipWith f (l.map a) (l.map b) = l.map (fun x => f (a x) (b x)) := by
  induction l with
  | nil => rfl
  | cons x xs ih => simp [ih]

theorem sum_map_cast_div {R : Type} [Field R] (l : List Int) (d : R) :
    (l.map (fun x => ((x : Int) : R) / d)).sum = ((l.sum : Int) : R) / d := by
  induction l with
  | nil => simp
  | cons x xs ih => simp only [List.map_cons, List.sum_cons, ih, Int.cast_add, add_div]

theorem wsum_int (g : Shot → Int) (c : Counts) :
    wsum g c = (c.map (fun p => ((p.2 : Nat) : Int) * g p.1)).sum := by
  simp [wsum]

/-- the frequencies observable on a well-formed dictionary: the weighted mean of the eigenvalues -/
theorem expectation_ok {R : Type} [Field R] (marked : List Nat) (freq : Counts) (w : Nat)
    (hne : freq ≠ []) (hw : 0 < w) (hk : ∀ p ∈ freq, p.1.length = w) (hm : ∀ q ∈ marked, q < w)
    (ht : freq.total ≠ 0) :
    expectationFromFrequencies (R := R) marked freq =
      .ok (((wsum (zval marked) freq : Int) : R) / (((freq.total : Nat) : Int) : R)) := by
  have hkeys : ∀ k ∈ freq.map (fun p => p.1), k.length = w := by
    intro k hk'; obtain ⟨p, hp, rfl⟩ := List.mem_map.mp hk'; exact hk p hp
  have hc := convert_ok (freq.map (fun p => p.1)) w (by simpa using hne) hw hkeys
  have hp := checkParity_ok (freq.map (fun p => p.1)) marked w hkeys hm
  unfold expectationFromFrequencies
  rw [hc]; simp only [hp]
  have hb : broadcastMul (freq.map (fun p => p.2))
      (((freq.map (fun p => p.1)).map (parityBit marked)).map (fun p => ((p : Nat) : Int) * 2 - 1)) =
      .ok (freq.map (fun p => ((p.2 : Nat) : Int) * zval marked p.1)) := by
    unfold broadcastMul
    rw [if_pos (by simp)]
    simp only [List.map_map]
    rw [zipWith_map_map]
    congr 1
    apply List.map_congr_left
    intro p _
    simp only [Function.comp]
    rw [sign_eq_zval]
  rw [hb]
  have hz : ¬ (((freq.map (fun p => p.2)).sum : Nat) : Int) = 0 := by
    have : (freq.map (fun p => p.2)).sum ≠ 0 := ht
    exact_mod_cast this
  simp only [hz, if_false]
  rw [sum_map_cast_div, wsum_int]; rfl


/-! ## sample means -/

/-- the sample mean of `f` over the shots (with repetitions) -/
def mean {R : Type} [Field R] (f : Shot → R) (shots : List Shot) : R :=
  (shots.map f).sum / ((shots.length : Nat) : R)

/-- sample mean of the ±1 eigenvalue of the Z-string on `A` -/
def meanZ {R : Type} [Field R] (A : List Nat) (shots : List Shot) : R :=
  mean (fun s => ((zval A s : Int) : R)) shots

theorem mean_congr {R : Type} [Field R] (f g : Shot → R) (shots : List Shot) (h : ∀ s ∈ shots, f s = g s) :
    mean f shots = mean g shots := by
  unfold mean; rw [List.map_congr_left h]

theorem sum_map_mul_left' {R : Type} [Field R] (k : R) (f : Shot → R) (l : List Shot) :
    (l.map (fun s => k * f s)).sum = k * (l.map f).sum := by
  induction l with
  | nil => simp
  | cons x xs ih => simp only [List.map_cons, List.sum_cons, ih, mul_add]

theorem mean_const_mul {R : Type} [Field R] (k : R) (f : Shot → R) (shots : List Shot) :
    mean (fun s => k * f s) shots = k * mean f shots := by
  unfold mean; rw [sum_map_mul_left', mul_div_assoc]

theorem mean_const {R : Type} [Field R] [CharZero R] (k : R) (shots : List Shot) (hne : shots ≠ []) :
    mean (fun _ => k) shots = k := by
  unfold mean
  have hl : ((shots.length : Nat) : R) ≠ 0 := by
    have : shots.length ≠ 0 := by simpa using hne
    exact_mod_cast this
  simp only [List.map_const', List.sum_replicate, nsmul_eq_mul]
  field_simp

theorem cast_sum_map {R : Type} [Field R] (g : Shot → Int) (l : List Shot) :
    (((l.map g).sum : Int) : R) = (l.map (fun s => ((g s : Int) : R))).sum := by
  induction l with
  | nil => simp
  | cons x xs ih => simp only [List.map_cons, List.sum_cons, Int.cast_add, ih]

theorem getCounts_ne_nil (shots : List Shot) (hne : shots ≠ []) : getCounts shots ≠ [] := by
  intro h
  have := getCounts_total shots
  rw [h] at this
  have hl : shots.length ≠ 0 := by simpa using hne
  exact hl (by simpa [Counts.total] using this.symm)

theorem getCounts_key_length (shots : List Shot) (w : Nat) (hl : ∀ s ∈ shots, s.length = w) :
    ∀ p ∈ getCounts shots, p.1.length = w := by
  intro p hp
  have := ((getCounts_inv shots).2.2 p.1).mp (by
    simp only [Counts.keys]; exact List.mem_map_of_mem hp)
  exact hl _ this

/-- frequencies taken from the shots themselves: the observable is the sample mean of the eigenvalue -/
theorem expectation_getCounts {R : Type} [Field R] (marked : List Nat) (shots : List Shot) (w : Nat)
    (hne : shots ≠ []) (hw : 0 < w) (hl : ∀ s ∈ shots, s.length = w) (hm : ∀ q ∈ marked, q < w) :
    expectationFromFrequencies (R := R) marked (getCounts shots) = .ok (meanZ marked shots) := by
  have hlen : shots.length ≠ 0 := by simpa using hne
  rw [expectation_ok marked (getCounts shots) w (getCounts_ne_nil shots hne) hw
    (getCounts_key_length shots w hl) hm (by rw [getCounts_total]; exact hlen)]
  rw [wsum_getCounts, getCounts_total, cast_sum_map, Int.cast_natCast]
  rfl

/-! ## `get_expectation_values` -/

theorem termValue_ok {R : Type} [Field R] (t : Term R) (shots : List Shot) (w : Nat)
    (hne : shots ≠ []) (hw : 0 < w) (hl : ∀ s ∈ shots, s.length = w) (hm : ∀ q ∈ t.qubits, q < w) :
    termValue (getCounts shots) t = .ok (t.coeff * meanZ t.qubits shots) := by
  unfold termValue
  rw [expectation_getCounts t.qubits shots w hne hw hl hm]

/-- entry `[i, j]` as the loops compute it -/
def entrySpec {R : Type} [Field R] (shots : List Shot) (a b : Nat × Term R) : R :=
  if a.1 = b.1 then a.2.coeff * a.2.coeff
  else if b.1 < a.1 then a.2.coeff * b.2.coeff * meanZ (symmDiff a.2.qubits b.2.qubits) shots
  else b.2.coeff * a.2.coeff * meanZ (symmDiff b.2.qubits a.2.qubits) shots

theorem corrEntry_ok {R : Type} [Field R] (a b : Nat × Term R) (shots : List Shot) (w : Nat)
    (hne : shots ≠ []) (hw : 0 < w) (hl : ∀ s ∈ shots, s.length = w)
    (ha : ∀ q ∈ a.2.qubits, q < w) (hb : ∀ q ∈ b.2.qubits, q < w) :
    corrEntry (getCounts shots) a b = .ok (entrySpec shots a b) := by
  unfold corrEntry entrySpec
  have h1 : ∀ q ∈ symmDiff a.2.qubits b.2.qubits, q < w := fun q hq =>
    (mem_symmDiff _ _ q hq).elim (ha q) (hb q)
  have h2 : ∀ q ∈ symmDiff b.2.qubits a.2.qubits, q < w := fun q hq =>
    (mem_symmDiff _ _ q hq).elim (hb q) (ha q)
  rw [expectation_getCounts _ shots w hne hw hl h1, expectation_getCounts _ shots w hne hw hl h2]
  split
  · rfl
  · split <;> rfl

theorem withIdx_map_snd {α β : Type} (f : α → β) (i : Nat) (l : List α) :
    (withIdx i l).map (fun a => f a.2) = l.map f := by
  induction l generalizing i with
  | nil => rfl
  | cons x xs ih => simp [withIdx, ih]

theorem withIdx_mem {α : Type} (i : Nat) (l : List α) (a : Nat × α) (h : a ∈ withIdx i l) :
    a.2 ∈ l ∧ i ≤ a.1 := by
  induction l generalizing i with
  | nil => simp [withIdx] at h
  | cons x xs ih =>
    simp only [withIdx, List.mem_cons] at h
    rcases h with rfl | h
    · simp
    · have := ih (i + 1) h
      exact ⟨by simp [this.1], by omega⟩

theorem withIdx_inj {α : Type} (i : Nat) (l : List α) (a b : Nat × α)
    (ha : a ∈ withIdx i l) (hb : b ∈ withIdx i l) (h : a.1 = b.1) : a = b := by
  induction l generalizing i with
  | nil => simp [withIdx] at ha
  | cons x xs ih =>
    simp only [withIdx, List.mem_cons] at ha hb
    rcases ha with rfl | ha <;> rcases hb with rfl | hb
    · rfl
    · have := (withIdx_mem (i + 1) xs b hb).2; simp only at h; omega
    · have := (withIdx_mem (i + 1) xs a ha).2; simp only at h; omega
    · exact ih (i + 1) ha hb

/-- the sample mean of the product of the values of two terms -/
def corrSpec {R : Type} [Field R] (shots : List Shot) (ti tj : Term R) : R :=
  mean (fun s => (ti.coeff * ((zval ti.qubits s : Int) : R)) * (tj.coeff * ((zval tj.qubits s : Int) : R))) shots

theorem entrySpec_eq {R : Type} [Field R] [CharZero R] (shots : List Shot) (hne : shots ≠ [])
    (terms : List (Term R)) (a b : Nat × Term R)
    (ha : a ∈ withIdx 0 terms) (hb : b ∈ withIdx 0 terms)
    (hna : a.2.qubits.Nodup) (hnb : b.2.qubits.Nodup) :
    entrySpec shots a b = corrSpec shots a.2 b.2 := by
  unfold entrySpec corrSpec
  split
  · next h =>
    have := withIdx_inj 0 terms a b ha hb h
    subst this
    rw [mean_congr _ (fun _ => a.2.coeff * a.2.coeff) shots, mean_const _ _ hne]
    intro s _
    have := zval_mul_self a.2.qubits s
    have h2 : ((zval a.2.qubits s : Int) : R) * ((zval a.2.qubits s : Int) : R) = 1 := by
      rw [← Int.cast_mul, this, Int.cast_one]
    calc a.2.coeff * ↑(zval a.2.qubits s) * (a.2.coeff * ↑(zval a.2.qubits s))
        = a.2.coeff * a.2.coeff * (↑(zval a.2.qubits s) * ↑(zval a.2.qubits s)) := by ring
      _ = a.2.coeff * a.2.coeff := by rw [h2, mul_one]
  · split
    · unfold meanZ
      rw [← mean_const_mul]
      apply mean_congr
      intro s _
      rw [zval_symmDiff _ _ hna hnb, Int.cast_mul]; ring
    · unfold meanZ
      rw [← mean_const_mul]
      apply mean_congr
      intro s _
      rw [zval_symmDiff _ _ hnb hna, Int.cast_mul]; ring

theorem covMatrix_map {R : Type} [Field R] (terms : List (Term R)) (M : Term R → Term R → R)
    (V : Term R → R) (d : Int) :
    covMatrix (terms.map (fun ti => terms.map (M ti))) (terms.map V) d =
      terms.map (fun ti => terms.map (fun tj => divOrNan (M ti tj - V ti * V tj) d)) := by
  unfold covMatrix
  rw [zipWith_map_map]
  apply List.map_congr_left
  intro ti _
  rw [zipWith_map_map]

/-- the record `get_expectation_values` must return: values, correlations, covariances -/
def evSpec {R : Type} [Field R] (shots : List Shot) (terms : List (Term R)) (bessel : Bool) :
    ExpectationValues R :=
  ⟨terms.map (fun t => t.coeff * meanZ t.qubits shots),
   terms.map (fun ti => terms.map (corrSpec shots ti)),
   terms.map (fun ti => terms.map (fun tj =>
     divOrNan (corrSpec shots ti tj - (ti.coeff * meanZ ti.qubits shots) * (tj.coeff * meanZ tj.qubits shots))
       (if bessel then (shots.length : Int) - 1 else (shots.length : Int))))⟩

theorem getEV_ok {R : Type} [Field R] [CharZero R] (shots : List Shot) (terms : List (Term R))
    (bessel : Bool) (w : Nat) (hne : shots ≠ []) (hw : 0 < w) (hl : ∀ s ∈ shots, s.length = w)
    (hI : ∀ t ∈ terms, t.isIsing = true) (hq : ∀ t ∈ terms, ∀ q ∈ t.qubits, q < w)
    (hn : ∀ t ∈ terms, t.qubits.Nodup) :
    getExpectationValues shots terms bessel = .ok (evSpec shots terms bessel) := by
  unfold getExpectationValues
  have hall : terms.all Term.isIsing = true := List.all_eq_true.mpr hI
  simp only [hall, Bool.not_true, Bool.false_eq_true, if_false]
  rw [mapE_ok (termValue (getCounts shots)) (fun t => t.coeff * meanZ t.qubits shots) terms
    (fun t ht => termValue_ok t shots w hne hw hl (hq t ht))]
  simp only
  have hrow : ∀ a ∈ withIdx 0 terms,
      mapE (corrEntry (getCounts shots) a) (withIdx 0 terms) = .ok (terms.map (corrSpec shots a.2)) := by
    intro a ha
    rw [mapE_ok (corrEntry (getCounts shots) a) (entrySpec shots a) (withIdx 0 terms)
      (fun b hb => corrEntry_ok a b shots w hne hw hl (hq _ (withIdx_mem 0 terms a ha).1)
        (hq _ (withIdx_mem 0 terms b hb).1))]
    rw [← withIdx_map_snd (corrSpec shots a.2) 0 terms]
    congr 1
    apply List.map_congr_left
    intro b hb
    exact entrySpec_eq shots hne terms a b ha hb (hn _ (withIdx_mem 0 terms a ha).1)
      (hn _ (withIdx_mem 0 terms b hb).1)
  rw [mapE_ok (fun a => mapE (corrEntry (getCounts shots) a) (withIdx 0 terms))
    (fun a => terms.map (corrSpec shots a.2)) (withIdx 0 terms) hrow]
  simp only
  rw [withIdx_map_snd (fun t => terms.map (corrSpec shots t)) 0 terms]
  rw [covMatrix_map]
  rfl


/-! ## `get_expectation_values`: the boundary cases and the "whatever is reported" form -/

theorem getEV_nil {R : Type} [Field R] (shots : List Shot) (bessel : Bool) :
    getExpectationValues (R := R) shots [] bessel = .ok (evSpec shots [] bessel) := rfl

/-- width 0: numpy cannot reshape to `(-1, 0)`; every call with at least one term raises ValueError -/
theorem getEV_width0 {R : Type} [Field R] (shots : List Shot) (t : Term R) (ts : List (Term R)) (bessel : Bool)
    (hne : shots ≠ []) (hl : ∀ s ∈ shots, s.length = 0) (hI : ∀ u ∈ t :: ts, u.isIsing = true) :
    getExpectationValues shots (t :: ts) bessel = .error .value := by
  unfold getExpectationValues
  have hall : (t :: ts).all Term.isIsing = true := List.all_eq_true.mpr hI
  simp only [hall, Bool.not_true, Bool.false_eq_true, if_false]
  have hk := getCounts_key_length shots 0 hl
  cases hc : getCounts shots with
  | nil => exact absurd hc (getCounts_ne_nil shots hne)
  | cons p rest =>
    have hp : p.1.length = 0 := hk p (by rw [hc]; simp)
    have : termValue (R := R) (p :: rest) t = .error .value := by
      simp only [termValue, expectationFromFrequencies, List.map_cons, convert_width0 _ _ hp]
    simp only [mapE, this]

theorem not_ising_error {R : Type} [Field R] (shots : List Shot) (terms : List (Term R)) (bessel : Bool)
    (h : ¬ (terms.all Term.isIsing = true)) :
    getExpectationValues shots terms bessel = .error .type := by
  unfold getExpectationValues
  simp [h]

/-- whatever `get_expectation_values` reports on equal-length shots is the record of sample statistics -/
theorem getEV_spec {R : Type} [Field R] [CharZero R] (shots : List Shot) (terms : List (Term R))
    (bessel : Bool) (w : Nat) (ev : ExpectationValues R)
    (hne : shots ≠ []) (hl : ∀ s ∈ shots, s.length = w)
    (hq : ∀ t ∈ terms, ∀ q ∈ t.qubits, q < w) (hn : ∀ t ∈ terms, t.qubits.Nodup)
    (h : getExpectationValues shots terms bessel = .ok ev) : ev = evSpec shots terms bessel := by
  by_cases hall : terms.all Term.isIsing = true
  · have hI : ∀ t ∈ terms, t.isIsing = true := List.all_eq_true.mp hall
    rcases Nat.eq_zero_or_pos w with hw | hw
    · subst hw
      cases terms with
      | nil => rw [getEV_nil] at h; exact (Except.ok.inj h).symm
      | cons t ts => rw [getEV_width0 shots t ts bessel hne hl hI] at h; cases h
    · rw [getEV_ok shots terms bessel w hne hw hl hI hq hn] at h
      exact (Except.ok.inj h).symm
  · rw [not_ising_error shots terms bessel hall] at h; cases h

/-! ## `get_distribution` -/

theorem sameLength_of (keys : List Shot) (w : Nat) (h : ∀ k ∈ keys, k.length = w) : sameLength keys = true := by
  cases keys with
  | nil => rfl
  | cons k ks =>
    simp only [sameLength, List.all_eq_true, beq_iff_eq]
    intro x hx
    rw [h x (by simp [hx]), h k (by simp)]

theorem getDistribution_ok {R : Type} [Field R] (shots : List Shot) (w : Nat)
    (hne : shots ≠ []) (hl : ∀ s ∈ shots, s.length = w) :
    getDistribution (R := R) shots =
      .ok ((getCounts shots).map (fun p => (p.1, ((p.2 : Nat) : R) / ((shots.length : Nat) : R)))) := by
  unfold getDistribution
  simp only [Int.cast_natCast]
  have h1 : (getCounts shots).map (fun p => (p.1, ((p.2 : Nat) : R) / ((shots.length : Nat) : R))) ≠ [] := by
    simpa using getCounts_ne_nil shots hne
  have h2 : sameLength (((getCounts shots).map (fun p => (p.1, ((p.2 : Nat) : R) / ((shots.length : Nat) : R)))).map (fun p => p.1)) = true := by
    apply sameLength_of _ w
    intro k hk
    simp only [List.map_map, List.mem_map, Function.comp] at hk
    obtain ⟨p, hp, rfl⟩ := hk
    exact getCounts_key_length shots w hl p hp
  rw [if_neg (by simpa [List.isEmpty_iff] using h1), if_neg (by rw [h2]; decide)]

theorem sum_map_natcast_div {R : Type} [Field R] (c : Counts) (d : R) :
    (c.map (fun p => ((p.2 : Nat) : R) / d)).sum = ((c.total : Nat) : R) / d := by
  induction c with
  | nil => simp [Counts.total]
  | cons p ps ih =>
    simp only [Counts.total, List.map_cons, List.sum_cons, Nat.cast_add, add_div] at ih ⊢
    rw [ih]


/-! ## parity tallies -/

theorem sum_indicator {α : Type} (P : α → Bool) (l : List α) :
    (l.map (fun s => if P s then 1 else 0)).sum = l.countP P := by
  induction l with
  | nil => rfl
  | cons x xs ih => cases h : P x <;> simp [h, ih, Nat.add_comm]

theorem dot_map_map {α : Type} (a b : α → Nat) (l : List α) :
    dot (l.map a) (l.map b) = (l.map (fun x => a x * b x)).sum := by
  unfold dot; rw [zipWith_map_map]

theorem ind_not (b : Bool) : (1 - (if b then 1 else 0 : Nat)) = if (!b) then 1 else 0 := by
  cases b <;> rfl

theorem ind_ne (a b : Bool) :
    (((if a then 1 else 0 : Nat) : Int) - ((if b then 1 else 0 : Nat) : Int)).natAbs =
      if (a != b) then 1 else 0 := by
  cases a <;> cases b <;> rfl

theorem ind_eq (a b : Bool) : (1 - (if (a != b) then 1 else 0 : Nat)) = if (a == b) then 1 else 0 := by
  cases a <;> cases b <;> rfl

/-- weighting an indicator by the counts of the distinct shots counts the shots themselves -/
theorem tally (shots : List Shot) (P : Shot → Bool) :
    dot (((getCounts shots).map (fun p => p.1)).map (fun r => if P r then 1 else 0))
        ((getCounts shots).map (fun p => p.2)) = shots.countP P := by
  rw [List.map_map, dot_map_map, ← sum_indicator P shots, ← wsum_getCounts]
  simp only [wsum, nsmul_eq_mul, Nat.cast_id, Function.comp]
  congr 1
  apply List.map_congr_left
  intro p _; ring

theorem parityOf_ok (rows : List Shot) (marked : List Nat) (w : Nat)
    (h : ∀ r ∈ rows, r.length = w) (hm : ∀ q ∈ marked, q < w) (hne : rows ≠ [] ∨ marked = []) :
    parityOf rows marked = .ok (rows.map (fun r => if evenParity marked r then 1 else 0)) := by
  unfold parityOf
  have : (rows.isEmpty && !marked.isEmpty) = false := by
    rcases hne with h1 | h1
    · simp [List.isEmpty_iff, h1]
    · simp [h1]
  rw [this, checkParity_ok rows marked w h hm]
  simp only [Bool.false_eq_true, if_false]
  congr 1
  apply List.map_congr_left
  intro r _; exact parityBit_eq marked r

/-- the record `get_parities_from_measurements` must return -/
def paritySpec {R : Type} (shots : List Shot) (terms : List (Term R)) : Parities :=
  ⟨terms.map (fun t => (shots.countP (evenParity t.qubits), shots.countP (fun s => !evenParity t.qubits s))),
   terms.map (fun t1 => terms.map (fun t2 =>
     (shots.countP (fun s => evenParity t1.qubits s == evenParity t2.qubits s),
      shots.countP (fun s => evenParity t1.qubits s != evenParity t2.qubits s))))⟩

theorem termTally_ok {R : Type} (shots : List Shot) (t : Term R) (w : Nat)
    (hl : ∀ s ∈ shots, s.length = w) (hq : ∀ q ∈ t.qubits, q < w) (hne : shots ≠ [] ∨ t.qubits = []) :
    termTally ((getCounts shots).map (fun p => p.1)) ((getCounts shots).map (fun p => p.2)) t =
      .ok (shots.countP (evenParity t.qubits), shots.countP (fun s => !evenParity t.qubits s)) := by
  unfold termTally
  have hrows : ∀ r ∈ (getCounts shots).map (fun p => p.1), r.length = w := by
    intro r hr; obtain ⟨p, hp, rfl⟩ := List.mem_map.mp hr; exact getCounts_key_length shots w hl p hp
  have hne' : (getCounts shots).map (fun p => p.1) ≠ [] ∨ t.qubits = [] :=
    hne.imp (fun h => by simpa using getCounts_ne_nil shots h) id
  rw [parityOf_ok _ t.qubits w hrows hq hne']
  simp only
  rw [tally shots (evenParity t.qubits)]
  have : (((getCounts shots).map (fun p => p.1)).map (fun r => if evenParity t.qubits r then 1 else 0)).map
      (fun p => 1 - p) = ((getCounts shots).map (fun p => p.1)).map
      (fun r => if (fun s => !evenParity t.qubits s) r then 1 else 0) := by
    rw [List.map_map]
    apply List.map_congr_left
    intro r _; exact ind_not _
  rw [this, tally shots (fun s => !evenParity t.qubits s)]

theorem pairTally_ok {R : Type} (shots : List Shot) (t1 t2 : Term R) (w : Nat)
    (hl : ∀ s ∈ shots, s.length = w) (hq1 : ∀ q ∈ t1.qubits, q < w) (hq2 : ∀ q ∈ t2.qubits, q < w)
    (hne1 : shots ≠ [] ∨ t1.qubits = []) (hne2 : shots ≠ [] ∨ t2.qubits = []) :
    pairTally ((getCounts shots).map (fun p => p.1)) ((getCounts shots).map (fun p => p.2)) t1 t2 =
      .ok (shots.countP (fun s => evenParity t1.qubits s == evenParity t2.qubits s),
           shots.countP (fun s => evenParity t1.qubits s != evenParity t2.qubits s)) := by
  unfold pairTally
  have hrows : ∀ r ∈ (getCounts shots).map (fun p => p.1), r.length = w := by
    intro r hr; obtain ⟨p, hp, rfl⟩ := List.mem_map.mp hr; exact getCounts_key_length shots w hl p hp
  have hn1 : (getCounts shots).map (fun p => p.1) ≠ [] ∨ t1.qubits = [] :=
    hne1.imp (fun h => by simpa using getCounts_ne_nil shots h) id
  have hn2 : (getCounts shots).map (fun p => p.1) ≠ [] ∨ t2.qubits = [] :=
    hne2.imp (fun h => by simpa using getCounts_ne_nil shots h) id
  rw [parityOf_ok _ t1.qubits w hrows hq1 hn1, parityOf_ok _ t2.qubits w hrows hq2 hn2]
  simp only
  rw [zipWith_map_map]
  have hd : ((getCounts shots).map (fun p => p.1)).map (fun x =>
      ((((if evenParity t1.qubits x then 1 else 0 : Nat) : Nat) : Int) -
        (((if evenParity t2.qubits x then 1 else 0 : Nat) : Nat) : Int)).natAbs) =
      ((getCounts shots).map (fun p => p.1)).map
        (fun r => if (fun s => evenParity t1.qubits s != evenParity t2.qubits s) r then 1 else 0) := by
    apply List.map_congr_left
    intro r _; exact ind_ne _ _
  rw [hd, tally shots (fun s => evenParity t1.qubits s != evenParity t2.qubits s)]
  have he : (((getCounts shots).map (fun p => p.1)).map
        (fun r => if (fun s => evenParity t1.qubits s != evenParity t2.qubits s) r then 1 else 0)).map
        (fun d => 1 - d) =
      ((getCounts shots).map (fun p => p.1)).map
        (fun r => if (fun s => evenParity t1.qubits s == evenParity t2.qubits s) r then 1 else 0) := by
    rw [List.map_map]
    apply List.map_congr_left
    intro r _; exact ind_eq _ _
  rw [he, tally shots (fun s => evenParity t1.qubits s == evenParity t2.qubits s)]

theorem getParities_ok {R : Type} (shots : List Shot) (terms : List (Term R)) (w : Nat)
    (hl : ∀ s ∈ shots, s.length = w) (hI : ∀ t ∈ terms, t.isIsing = true)
    (hq : ∀ t ∈ terms, ∀ q ∈ t.qubits, q < w) (hne : shots ≠ [] ∨ ∀ t ∈ terms, t.qubits = []) :
    getParities shots terms = .ok (paritySpec shots terms) := by
  unfold getParities
  have hall : terms.all Term.isIsing = true := List.all_eq_true.mpr hI
  have hs : sameLength ((getCounts shots).map (fun p => p.1)) = true := by
    apply sameLength_of _ w
    intro r hr; obtain ⟨p, hp, rfl⟩ := List.mem_map.mp hr; exact getCounts_key_length shots w hl p hp
  simp only [hall, hs, Bool.not_true, Bool.false_eq_true, if_false]
  have hnt : ∀ t ∈ terms, shots ≠ [] ∨ t.qubits = [] := fun t ht => hne.imp id (fun h => h t ht)
  rw [mapE_ok _ (fun t => (shots.countP (evenParity t.qubits), shots.countP (fun s => !evenParity t.qubits s)))
    terms (fun t ht => termTally_ok shots t w hl (hq t ht) (hnt t ht))]
  simp only
  rw [mapE_ok (fun t1 => mapE (pairTally _ _ t1) terms)
    (fun t1 => terms.map (fun t2 =>
     (shots.countP (fun s => evenParity t1.qubits s == evenParity t2.qubits s),
      shots.countP (fun s => evenParity t1.qubits s != evenParity t2.qubits s)))) terms
    (fun t1 h1 => mapE_ok _ _ terms (fun t2 h2 =>
      pairTally_ok shots t1 t2 w hl (hq t1 h1) (hq t2 h2) (hnt t1 h1) (hnt t2 h2)))]
  rfl

/-- with no shots the 1-d empty array cannot be indexed: any term with a qubit makes the call raise -/
theorem getParities_nil_inv {R : Type} (terms : List (Term R)) (p : Parities)
    (h : getParities [] terms = .ok p) : ∀ t ∈ terms, t.qubits = [] := by
  unfold getParities at h
  by_cases hall : terms.all Term.isIsing = true
  · simp only [hall, Bool.not_true, Bool.false_eq_true, if_false, getCounts, List.foldl_nil, List.map_nil,
      sameLength] at h
    cases hm : mapE (termTally (R := R) [] []) terms with
    | error e => rw [hm] at h; cases h
    | ok vs =>
      intro t ht
      obtain ⟨y, hy⟩ := mapE_ok_inv _ terms vs hm t ht
      unfold termTally parityOf at hy
      by_contra hq
      have : t.qubits.isEmpty = false := by simpa [List.isEmpty_iff] using hq
      simp [this] at hy
  · simp [hall] at h

theorem getParities_not_ising {R : Type} (shots : List Shot) (terms : List (Term R))
    (h : ¬ (terms.all Term.isIsing = true)) : getParities shots terms = .error .type := by
  unfold getParities; simp [h]

/-- whatever `get_parities_from_measurements` reports on equal-length shots is the record of tallies -/
theorem getParities_spec {R : Type} (shots : List Shot) (terms : List (Term R)) (w : Nat) (p : Parities)
    (hl : ∀ s ∈ shots, s.length = w) (hq : ∀ t ∈ terms, ∀ q ∈ t.qubits, q < w)
    (h : getParities shots terms = .ok p) : p = paritySpec shots terms := by
  by_cases hall : terms.all Term.isIsing = true
  · have hI : ∀ t ∈ terms, t.isIsing = true := List.all_eq_true.mp hall
    have hne : shots ≠ [] ∨ ∀ t ∈ terms, t.qubits = [] := by
      cases shots with
      | nil => exact Or.inr (getParities_nil_inv terms p h)
      | cons s ss => exact Or.inl (by simp)
    rw [getParities_ok shots terms w hl hI hq hne] at h
    exact (Except.ok.inj h).symm
  · rw [getParities_not_ising shots terms hall] at h; cases h


/-! ## small facts used by the property theorems -/

theorem get_of_not_mem (c : Counts) (k : Shot) (h : k ∉ c.keys) : c.get k = 0 := by
  induction c with
  | nil => rfl
  | cons p rest ih =>
    obtain ⟨k', v⟩ := p
    simp only [Counts.keys, List.map_cons, List.mem_cons, not_or] at h
    have hne : ¬ k' = k := fun e => h.1 e.symm
    simp only [Counts.get, hne, if_false]
    exact ih h.2

theorem get_of_mem (c : Counts) (hn : c.keys.Nodup) (p : Shot × Nat) (hp : p ∈ c) : c.get p.1 = p.2 := by
  induction c with
  | nil => simp at hp
  | cons q rest ih =>
    obtain ⟨k', v⟩ := q
    simp only [Counts.keys, List.map_cons, List.nodup_cons] at hn
    rcases List.mem_cons.mp hp with rfl | hp'
    · simp [Counts.get]
    · have hne : ¬ k' = p.1 := by
        intro e; apply hn.1; rw [e]; exact List.mem_map_of_mem hp'
      simp only [Counts.get, hne, if_false]
      exact ih hn.2 hp'

theorem count_expand_eq_get (c : Counts) (hn : c.keys.Nodup) (k : Shot) : (expand c).count k = c.get k := by
  induction c with
  | nil => simp [expand, Counts.get]
  | cons p rest ih =>
    obtain ⟨k', v⟩ := p
    simp only [Counts.keys, List.map_cons, List.nodup_cons] at hn
    simp only [expand, List.flatMap_cons, List.count_append] at ih ⊢
    rw [ih hn.2]
    by_cases h : k' = k
    · subst h
      simp [Counts.get, List.count_replicate_self, get_of_not_mem rest k' hn.1]
    · simp [Counts.get, h, List.count_replicate]

theorem meanZ_nil {R : Type} [Field R] [CharZero R] (shots : List Shot) (hne : shots ≠ []) :
    meanZ (R := R) [] shots = 1 := by
  unfold meanZ
  rw [mean_congr _ (fun _ => (1 : R)) shots (fun s _ => by simp [zval_nil]), mean_const _ _ hne]

theorem divOrNan_ne {R : Type} [Field R] (x : R) (d : Int) (h : d ≠ 0) :
    divOrNan x d = some (x / ((d : Int) : R)) := by
  simp [divOrNan, h]

theorem countP_add_countP_not {α : Type} (P : α → Bool) (l : List α) :
    l.countP P + l.countP (fun x => !P x) = l.length := by
  induction l with
  | nil => rfl
  | cons x xs ih => cases h : P x <;> simp [h] <;> omega

end OQ.C10
