/- helper lemmas for the T6 translation ties of C19 (`OQ/Props/C19_TranslatedKeys.lean`): the Python prelude (`OQ/Exec/Py.lean`,
   T6 block) against the model's notions of digit groups, key items and key comparison; `str.split`, `int(str)` and dict lookup on
   the shapes the key factory `natural_key_fixed_names_order` meets (not property theorems) -/
import OQ.Exec.Py
import OQ.Lemmas.C19
namespace OQ.C19
open OQ.Py

/-- a key item of the model as the Python value it stands for -/
def KeyItem.toPy : KeyItem → IntOrStr
  | .s cs => .str cs
  | .n k => .int (k : Int)

theorem isAsciiDigit_eq (c : Char) : isAsciiDigit c = isDig c := by
  simp [isAsciiDigit, isDig]

theorem reSplitDigitsGo_eq (b : Bool) (acc s : List Char) : reSplitDigitsGo b acc s = splitGo b acc s := by
  induction s generalizing b acc with
  | nil => cases b <;> rfl
  | cons c cs ih => cases b <;> simp only [reSplitDigitsGo, splitGo, isAsciiDigit_eq, ih]

theorem intOfDigits_eq (g : List Char) (h : ∀ c ∈ g, isDig c = true) : intOfDigits g = ((valDigits g : Nat) : Int) := by
  unfold intOfDigits valDigits
  suffices H : ∀ (acc : Nat), List.foldl (fun acc c => 10 * acc + charDigit c) (acc : Int) g
      = ((List.foldl (fun a c => 10 * a + (c.toNat - '0'.toNat)) acc g : Nat) : Int) by simpa using H 0
  induction g with
  | nil => intro acc; rfl
  | cons c cs ih =>
    intro acc
    simp only [List.foldl_cons]
    have hc : 48 ≤ c.toNat := by
      have := h c (by simp)
      simp [isDig] at this
      exact this.1
    have e : (10 * (acc : Int) + charDigit c) = ((10 * acc + (c.toNat - '0'.toNat) : Nat) : Int) := by
      unfold charDigit
      have : '0'.toNat = 48 := rfl
      rw [this]
      omega
    rw [e]
    exact ih (fun c hc => h c (by simp [hc])) _

theorem toPy_injective (a b : KeyItem) (h : a.toPy = b.toPy) : a = b := by
  cases a <;> cases b <;> simp [KeyItem.toPy] at h <;> simp [h]

theorem cmpStr_eq (a b : List Char) : cmpStr a b = cmpChars a b := by
  induction a generalizing b with
  | nil => cases b <;> rfl
  | cons x xs ih => cases b with
    | nil => rfl
    | cons y ys => simp only [cmpStr, cmpChars, ih]

theorem cmpIntOrStr_toPy (a b : KeyItem) : cmpIntOrStr a.toPy b.toPy = cmpItem a b := by
  cases a <;> cases b <;> simp [KeyItem.toPy, cmpIntOrStr, cmpItem, cmpStr_eq]
  rename_i m n
  simp only [compare, compareOfLessAndEq, Int.ofNat_lt, Int.natCast_inj]

/-- Python's comparison of two key lists (`OQ.Py.cmpKeys`, checked against CPython) on keys that come from the model's key
    items is the model's `cmpKey` – the comparison every key theorem of `Props/C19.lean` is about. -/
theorem cmpKeys_toPy (k₁ k₂ : List KeyItem) :
    cmpKeys (k₁.map KeyItem.toPy) (k₂.map KeyItem.toPy) = cmpKey k₁ k₂ := by
  induction k₁ generalizing k₂ with
  | nil => cases k₂ <;> rfl
  | cons a as ih =>
    cases k₂ with
    | nil => rfl
    | cons b bs =>
      simp only [List.map_cons, cmpKeys, cmpKey]
      by_cases hab : a = b
      · subst hab; simp [ih]
      · have : a.toPy ≠ b.toPy := fun h => hab (toPy_injective a b h)
        simp [this, hab, cmpIntOrStr_toPy]

theorem splitCharGo_append (sep : Char) (a b acc : List Char) (ha : sep ∉ a) :
    splitCharGo sep acc (a ++ sep :: b) = (acc.reverse ++ a) :: splitCharGo sep [] b := by
  induction a generalizing acc with
  | nil => simp [splitCharGo]
  | cons c cs ih =>
    have hc : (c == sep) = false := by
      simp only [List.mem_cons, not_or] at ha
      simp [Ne.symm ha.1]
    simp only [List.cons_append, splitCharGo, hc, Bool.false_eq_true, if_false]
    rw [ih _ (fun h => ha (List.mem_cons_of_mem _ h))]
    simp

theorem splitCharGo_none (sep : Char) (a acc : List Char) (ha : sep ∉ a) :
    splitCharGo sep acc a = [acc.reverse ++ a] := by
  induction a generalizing acc with
  | nil => simp [splitCharGo]
  | cons c cs ih =>
    have hc : (c == sep) = false := by
      simp only [List.mem_cons, not_or] at ha
      simp [Ne.symm ha.1]
    simp only [splitCharGo, hc, Bool.false_eq_true, if_false]
    rw [ih _ (fun h => ha (List.mem_cons_of_mem _ h))]
    simp

theorem splitCharGo_length (sep : Char) (s acc : List Char) :
    (splitCharGo sep acc s).length = s.count sep + 1 := by
  induction s generalizing acc with
  | nil => simp [splitCharGo]
  | cons c cs ih =>
    simp only [splitCharGo]
    by_cases hc : (c == sep) = true
    · simp [hc, ih, List.count_cons]
    · simp [hc, ih, List.count_cons]

theorem natParseGo_digits (d : List Char) (hd : ∀ c ∈ d, isDig c = true) (pd : Bool) (acc : Nat)
    (h : pd = true ∨ d ≠ []) :
    natParseGo pd acc d = some (d.foldl (fun a c => 10 * a + (c.toNat - '0'.toNat)) acc) := by
  induction d generalizing pd acc with
  | nil => rcases h with h | h
           · simp [natParseGo, h]
           · exact absurd rfl h
  | cons c cs ih =>
    have hc : isAsciiDigit c = true := by rw [isAsciiDigit_eq]; exact hd c (by simp)
    simp only [natParseGo, hc, if_true, List.foldl_cons]
    exact ih (fun c h => hd c (by simp [h])) true _ (Or.inl rfl)

theorem digit_not_space (c : Char) (h : isDig c = true) : isAsciiSpace c = false := by
  simp [isDig] at h
  simp only [isAsciiSpace, Bool.or_eq_false_iff, beq_eq_false_iff_ne, ne_eq, Bool.and_eq_false_iff, decide_eq_false_iff_not]
  constructor
  · intro hc; subst hc; simp at h
  · right; have : '0'.toNat = 48 := rfl; omega

theorem intParse_digits (d : List Char) (hne : d ≠ []) (hd : ∀ c ∈ d, isDig c = true) :
    intParse d = .ok ((valDigits d : Nat) : Int) := by
  have h1 : d.dropWhile isAsciiSpace = d := by
    cases d with
    | nil => rfl
    | cons c cs => simp [digit_not_space c (hd c (by simp))]
  have h2 : d.reverse.dropWhile isAsciiSpace = d.reverse := by
    cases hr : d.reverse with
    | nil => rfl
    | cons c cs =>
      have : c ∈ d := by rw [← List.mem_reverse, hr]; simp
      simp [digit_not_space c (hd c this)]
  unfold intParse
  simp only [h1, h2, List.reverse_reverse]
  cases d with
  | nil => exact absurd rfl hne
  | cons c cs =>
    have hc := hd c (by simp)
    have hm : c ≠ '-' := by intro h; subst h; simp [isDig] at hc
    have hp : c ≠ '+' := by intro h; subst h; simp [isDig] at hc
    have := natParseGo_digits (c :: cs) hd false 0 (Or.inr (by simp))
    split
    · rename_i v heq
      split at heq
      · rename_i ds h'; exact absurd (List.cons.inj h').1 hm
      · rename_i ds h'; exact absurd (List.cons.inj h').1 hp
      · rw [this] at heq; simp at heq; rw [← heq]; simp [valDigits]
    · rename_i heq
      split at heq
      · rename_i ds h'; exact absurd (List.cons.inj h').1 hm
      · rename_i ds h'; exact absurd (List.cons.inj h').1 hp
      · rw [this] at heq; simp at heq

theorem find?_unique {τ : Type} (p : τ → Bool) (l : List τ) (x : τ) (hx : x ∈ l) (hp : p x = true)
    (hu : ∀ y ∈ l, p y = true → y = x) : l.find? p = some x := by
  induction l with
  | nil => simp at hx
  | cons a as ih =>
    by_cases ha : p a = true
    · have := hu a (by simp) ha
      subst this
      simp [ha]
    · have hxa : x ≠ a := fun h => ha (h ▸ hp)
      have hx' : x ∈ as := by simpa [hxa] using hx
      simp only [List.find?_cons, ha]
      exact ih hx' (fun y hy => hu y (by simp [hy]))

/-- the dict `{name: i for i, name in enumerate(names_order)}` as the translated code builds it -/
def weights (names : List (List Char)) : Dict (List Char) Int :=
  ((names.zipIdx.map (fun (_p : (List Char) × Nat) => (((_p.2 : Nat) : Int), _p.1))).map
    (fun (p0 : Int × (List Char)) => let i : Int := p0.1; let name : List Char := p0.2; (name, i)))

theorem mem_weights (names : List (List Char)) (k : List Char) (v : Int) :
    (k, v) ∈ weights names ↔ ∃ i : Nat, names[i]? = some k ∧ v = (i : Int) := by
  simp only [weights, List.map_map, List.mem_map, Function.comp, Prod.mk.injEq, Prod.exists, List.mem_zipIdx_iff_getElem?]
  constructor
  · rintro ⟨a, b, h, rfl, rfl⟩; exact ⟨b, by simpa using h, rfl⟩
  · rintro ⟨i, h, rfl⟩; exact ⟨k, i, by simpa using h, rfl, rfl⟩

theorem dictGet_weights (names : List (List Char)) (hnd : names.Nodup) (stem : List Char) (i : Nat)
    (hi : names[i]? = some stem) : dictGet (weights names) stem = .ok (i : Int) := by
  unfold dictGet
  have : (weights names).reverse.find? (fun p => p.1 == stem) = some (stem, (i : Int)) := by
    apply find?_unique
    · rw [List.mem_reverse, mem_weights]; exact ⟨i, hi, rfl⟩
    · simp
    · rintro ⟨k, v⟩ hy hk
      rw [List.mem_reverse, mem_weights] at hy
      obtain ⟨j, hj, rfl⟩ := hy
      have hk' : k = stem := by simpa using hk
      subst hk'
      have : j = i := by
        have hj' := List.getElem?_eq_some_iff.mp hj
        have hi' := List.getElem?_eq_some_iff.mp hi
        obtain ⟨h1, e1⟩ := hj'
        obtain ⟨h2, e2⟩ := hi'
        exact (List.Nodup.getElem_inj_iff hnd).mp (e1.trans e2.symm)
      rw [this]
  rw [this]

theorem dictGet_weights_missing (names : List (List Char)) (stem : List Char) (h : stem ∉ names) :
    dictGet (weights names) stem = .error .KeyError := by
  unfold dictGet
  have : (weights names).reverse.find? (fun p => p.1 == stem) = none := by
    rw [List.find?_eq_none]
    rintro ⟨k, v⟩ hy
    rw [List.mem_reverse, mem_weights] at hy
    obtain ⟨j, hj, rfl⟩ := hy
    have : k ∈ names := List.mem_of_getElem? hj
    simp only [beq_iff_eq]
    intro hk; exact h (hk ▸ this)
  rw [this]

end OQ.C19
