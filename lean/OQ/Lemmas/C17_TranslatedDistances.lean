/- helper definitions and lemmas for the translation ties of C17's distances (`OQ/Props/C17_TranslatedDistances.lean`): the instance
   `PyNum ℝ` at which the translated code is read (the model's analytic definitions `nllOf`, `jsdOf`, `mmdSingle`, `mmdMulti` are real
   valued), the embedding `castD` of the model's rational dictionaries, the prelude functions at `ℝ`, and the loops of the translated
   functions against the model's sums.  Not property theorems. -/
import OQ.Lemmas.C17_TranslatedDist
import OQ.Generated.TranslatedC17Distances
namespace OQ.C17
open OQ.Generated OQ.Py

/-- Python numbers read as real numbers (`==`, `<=`, `<` decided classically); FLOAT ROUNDING IS NOT MODELLED -/
noncomputable instance realPyNum : PyNum ℝ where
  beq a b := decide (a = b)
  le a b := decide (a ≤ b)
  lt a b := decide (a < b)

/-- a model dictionary (exact rational values) as the dictionary of real values the translated code computes on -/
def castD (p : Dict Key) : OQ.Py.Dict (List Int) ℝ := p.map (fun a => (a.1, ((a.2 : Rat) : ℝ)))

theorem real_beq (a b : ℝ) : (a == b) = decide (a = b) := rfl
theorem real_lt (a b : ℝ) : PyNum.lt a b = decide (a < b) := rfl
theorem real_le (a b : ℝ) : PyNum.le a b = decide (a ≤ b) := rfl

theorem sumNum_real_aux (xs : List ℝ) (a : ℝ) : xs.foldl (· + ·) a = a + xs.sum := by
  induction xs generalizing a with
  | nil => simp
  | cons x xs ih => simp only [List.foldl_cons, List.sum_cons, ih]; ring

theorem sumNum_real (xs : List ℝ) : sumNum xs = xs.sum := by
  unfold sumNum
  rw [sumNum_real_aux]
  simp

theorem divE_real (a b : ℝ) (h : b ≠ 0) : divE a b = .ok (a / b) := by
  unfold divE
  simp [real_beq, h]

theorem divE_real_zero (a : ℝ) : divE a (0 : ℝ) = .error .zeroDiv := by
  unfold divE
  simp

theorem maxNum_real (a b : ℝ) : maxNum a b = max a b := by
  unfold maxNum
  rw [real_lt]
  by_cases h : a < b
  · simp [h, max_eq_right (le_of_lt h)]
  · simp [h, max_eq_left (not_lt.mp h)]

theorem negNum_real (a : ℝ) : negNum a = -a := by
  unfold negNum
  simp

theorem mathLogE_real (x : ℝ) : mathLogE Real.log x = if 0 < x then .ok (Real.log x) else .error .value := by
  unfold mathLogE
  rw [real_lt]
  simp

theorem dictKeys_castD (p : Dict Key) : dictKeys (castD p) = p.keys := by
  simp [dictKeys, castD, Dict.keys, Function.comp_def]

theorem dictGetD_castD (p : Dict Key) (k : Key) : dictGetD (castD p) k (0 : ℝ) = ((p.getD k : Rat) : ℝ) := by
  induction p with
  | nil => simp [castD, dictGetD, Dict.getD]
  | cons a rest ih =>
    obtain ⟨k', v'⟩ := a
    simp only [castD, List.map_cons, dictGetD, Dict.getD] at ih ⊢
    by_cases h : k' = k
    · subst h; simp
    · have : ¬ (k' == k) = true := fun he => h (eq_of_beq he)
      rw [if_neg this, if_neg h, ih]

/-! ### the set of outcomes -/

theorem setOfList_aux {α : Type} [BEq α] [LawfulBEq α] (xs acc : List α) (h : (acc ++ xs).Nodup) :
    xs.foldl (fun acc x => if acc.contains x then acc else acc ++ [x]) acc = acc ++ xs := by
  induction xs generalizing acc with
  | nil => simp
  | cons x xs ih =>
    have hx : x ∉ acc := by
      intro hm
      have := List.nodup_append.1 h
      exact this.2.2 x hm x (List.mem_cons_self) rfl
    have hc : acc.contains x = false := by simpa using hx
    simp only [List.foldl_cons, hc, Bool.false_eq_true, if_false]
    rw [ih (acc ++ [x]) (by simpa using h)]
    simp

theorem setOfList_nodup {α : Type} [BEq α] [LawfulBEq α] (xs : List α) (h : xs.Nodup) : setOfList xs = xs := by
  unfold setOfList
  simpa using setOfList_aux xs [] (by simpa using h)

theorem setUnion_eq {α : Type} [BEq α] [LawfulBEq α] (a ys : List α) (h : ys.Nodup) :
    setUnion a ys = a ++ ys.filter (fun k => !a.contains k) := by
  unfold setUnion
  induction ys generalizing a with
  | nil => simp
  | cons y ys ih =>
    have hy : y ∉ ys := (List.nodup_cons.1 h).1
    have hys : ys.Nodup := (List.nodup_cons.1 h).2
    simp only [List.foldl_cons]
    by_cases hc : a.contains y = true
    · simp only [hc, if_true, List.filter_cons, Bool.not_true, Bool.false_eq_true, if_false]
      exact ih a hys
    · simp only [hc, Bool.false_eq_true, if_false, List.filter_cons] at *
      rw [ih (a ++ [y]) hys]
      simp only [Bool.not_false, if_true, List.append_assoc, List.singleton_append]
      congr 2
      apply List.filter_congr
      intro k hk
      have : k ≠ y := fun e => hy (e ▸ hk)
      simp [this]

/-- the translated code's set of outcomes is the model's `unionKeys` (both dictionaries are Python dicts: distinct keys) -/
theorem setUnion_keys (p q : Dict Key) (hp : p.keys.Nodup) (hq : q.keys.Nodup) :
    setUnion (setOfList p.keys) q.keys = unionKeys p q := by
  rw [setOfList_nodup _ hp, setUnion_eq _ _ hq]
  rfl

/-! ### clipped negative log-likelihood -/

/-- `distance_measure_parameters.get("epsilon", 1e-9)`: the entry of the parameter dictionary, by default the double nearest to 1e-9
    (4835703278458517 / 2^82, what the literal `1e-9` denotes) -/
noncomputable def epsOf (par : OQ.Py.Dict (List Char) ℝ) : ℝ :=
  dictGetD par ['e', 'p', 's', 'i', 'l', 'o', 'n'] (((4835703278458517 : Int) : ℝ) / ((4835703278458516698824704 : Int) : ℝ))

theorem epsOf_nil : epsOf [] = 4835703278458517 / 2 ^ 82 := by
  unfold epsOf dictGetD
  norm_num

theorem epsOf_single (ε : ℝ) : epsOf [(['e', 'p', 's', 'i', 'l', 'o', 'n'], ε)] = ε := by
  simp [epsOf, dictGetD]

/-- the loop of `compute_clipped_negative_log_likelihood` over a list of outcomes on which every clipped value is positive -/
theorem foldlE_nll (f : ℝ → Key → Except Exc4 ℝ) (ε : ℝ) (T M : Key → ℝ)
    (hf : ∀ st k, f st k = Except.bind (mathLogE Real.log (maxNum ε (M k))) (fun t => Except.ok (st + T k * t)))
    (l : List Key) (v : ℝ) (hpos : ∀ k ∈ l, 0 < max ε (M k)) :
    foldlE f v l = .ok (v + (l.map fun k => T k * Real.log (max ε (M k))).sum) := by
  induction l generalizing v with
  | nil => simp [foldlE]
  | cons k l ih =>
    have hk : 0 < max ε (M k) := hpos k List.mem_cons_self
    simp only [foldlE, hf, maxNum_real, mathLogE_real, hk, if_true]
    show foldlE f _ l = _
    rw [ih _ (fun k' hk' => hpos k' (List.mem_cons_of_mem _ hk'))]
    simp only [List.map_cons, List.sum_cons]
    congr 1
    ring

/-- … and with an outcome whose clipped value is not positive: `math.log` raises ValueError -/
theorem foldlE_nll_error (f : ℝ → Key → Except Exc4 ℝ) (ε : ℝ) (T M : Key → ℝ)
    (hf : ∀ st k, f st k = Except.bind (mathLogE Real.log (maxNum ε (M k))) (fun t => Except.ok (st + T k * t)))
    (l : List Key) (v : ℝ) (hbad : ∃ k ∈ l, ¬ 0 < max ε (M k)) :
    foldlE f v l = .error .value := by
  induction l generalizing v with
  | nil => obtain ⟨k, hk, _⟩ := hbad; cases hk
  | cons k l ih =>
    by_cases hk : 0 < max ε (M k)
    · simp only [foldlE, hf, maxNum_real, mathLogE_real, hk, if_true]
      show foldlE f _ l = _
      apply ih
      obtain ⟨k', hk', hb⟩ := hbad
      rcases List.mem_cons.1 hk' with rfl | h
      · exact absurd hk hb
      · exact ⟨k', h, hb⟩
    · simp only [foldlE, hf, maxNum_real, mathLogE_real, hk, if_false]
      rfl


/-! ### squared MMD -/

theorem parseBin2Aux_eq (a : Nat) (s : List Char) : OQ.Py.parseBin2Aux a s = OQ.C17.parseBinAux a s := by
  induction s generalizing a with
  | nil => rfl
  | cons c cs ih =>
    simp only [OQ.Py.parseBin2Aux, OQ.C17.parseBinAux, ih]

theorem join_nil_eq (parts : List (List Char)) : OQ.Py.join [] parts = parts.flatten := by
  induction parts with
  | nil => rfl
  | cons p ps ih =>
    cases ps with
    | nil => simp [OQ.Py.join]
    | cons q qs => simp only [OQ.Py.join, List.append_nil, List.flatten_cons] at ih ⊢; rw [ih]

theorem no_sign_flatten (k : Key) (hk : ∀ e ∈ k, 0 ≤ e) : ∀ c ∈ (k.map strInt).flatten, c ≠ '-' ∧ c ≠ '+' := by
  intro c hc
  obtain ⟨s, hs, hcs⟩ := List.mem_flatten.1 hc
  obtain ⟨e, he, rfl⟩ := List.mem_map.1 hs
  rw [strInt_nonneg e (hk e he)] at hcs
  obtain ⟨d, hd, rfl⟩ := allDigits_strNat _ c hcs
  exact ⟨digitChar_ne_minus d hd, digitChar_ne_plus d hd⟩

/-- `int("".join(map(str, item)), 2)` on an outcome with non-negative entries is the model's `codeOf` -/
theorem intBase2E_key (k : Key) (hk : ∀ e ∈ k, 0 ≤ e) :
    intBase2E (OQ.Py.join [] (k.map strOfInt)) = ofOpt .value ((codeOf k).map Int.ofNat) := by
  have e1 : k.map strOfInt = k.map strInt := List.map_congr_left (fun e _ => strOfInt_eq e)
  rw [e1, join_nil_eq]
  unfold codeOf
  have hs := no_sign_flatten k hk
  cases hfl : (k.map strInt).flatten with
  | nil => rfl
  | cons c r =>
    rw [hfl] at hs
    have h1 : c ≠ '-' := (hs c List.mem_cons_self).1
    have h2 : c ≠ '+' := (hs c List.mem_cons_self).2
    simp only [intBase2E, h1, h2, if_false, parseBin2Aux_eq]
    cases OQ.C17.parseBinAux 0 (c :: r) <;> rfl



theorem sq_absInt_cast (x : Int) : (((absInt x) ^ (2 : Int).toNat : Int) : ℝ) = ((x : Int) : ℝ) ^ 2 := by
  have : (2 : Int).toNat = 2 := rfl
  rw [this]
  unfold absInt
  rw [Int.natAbs_sq]
  push_cast
  rfl

/-- the exponent matrix both kernels start from -/
theorem exponent_eq (x y : List Int) :
    (npAsFloat2 (npPow2 (npAbs2 (npOuterSub x y)) (2 : Int)) : NpMat ℝ) =
      x.map (fun a => y.map (fun b => (((a : Int) : ℝ) - ((b : Int) : ℝ)) ^ 2)) := by
  unfold npAsFloat2 npPow2 npAbs2 npOuterSub
  simp only [List.map_map, Function.comp_def]
  apply List.map_congr_left; intro a _
  apply List.map_congr_left; intro b _
  rw [sq_absInt_cast]
  push_cast
  rfl

/-- `compute_rbf_kernel` on integer codes: the Gaussian kernel matrix, ZeroDivisionError for `sigma == 0` -/
theorem rbf_eq (x y : List Int) (σ : ℝ) :
    Translated.compute_rbf_kernel Real.exp x y σ =
      if σ = 0 then .error .zeroDiv
      else .ok (x.map fun a => y.map fun b => gaussK (1 / (2 * σ)) ((a : Int) : ℝ) ((b : Int) : ℝ)) := by
  unfold Translated.compute_rbf_kernel
  simp only [exponent_eq, Int.cast_one, Int.cast_ofNat]
  by_cases hσ : σ = 0
  · subst hσ
    simp [divE_real_zero]
  · have h2 : (2 : ℝ) * σ ≠ 0 := mul_ne_zero two_ne_zero hσ
    simp only [divE_real _ _ h2, bind_ok, hσ, if_false, npMap2, npScale2, List.map_map, Function.comp_def, negNum_real, gaussK]

/-- `diff.dot(kernel_matrix.dot(diff))` when all three are indexed by one list -/
theorem quad_eq {α : Type} (l : List α) (d : α → ℝ) (K : α → α → ℝ) :
    npDot1 (l.map d) (npMatVec (l.map fun a => l.map fun b => K a b) (l.map d)) =
      (l.map fun a => d a * (l.map fun b => K a b * d b).sum).sum := by
  unfold npMatVec npDot1
  simp only [List.map_map, Function.comp_def, sumNum_real, List.zipWith_map, List.zipWith_self]

/-- the loop that collects the two value vectors -/
theorem foldl_values {α : Type} (g h : α → ℝ) (l : List α) (a b : List ℝ) :
    l.foldl (fun (st : List ℝ × List ℝ) k => (st.1 ++ [g k], st.2 ++ [h k])) (a, b) = (a ++ l.map g, b ++ l.map h) := by
  induction l generalizing a b with
  | nil => simp
  | cons k l ih => simp [ih]

theorem npSub1_map {α : Type} (g h : α → ℝ) (l : List α) : npSub1 (l.map g) (l.map h) = l.map (fun k => g k - h k) := by
  unfold npSub1
  simp only [List.zipWith_map, List.zipWith_self]

/-- the accumulation of kernel matrices in `compute_multi_rbf_kernel` -/
theorem npAdd2_map {α β : Type} (l : List α) (m : List β) (F G : α → β → ℝ) :
    npAdd2 (l.map fun a => m.map fun b => F a b) (l.map fun a => m.map fun b => G a b) =
      l.map fun a => m.map fun b => F a b + G a b := by
  unfold npAdd2
  simp only [List.zipWith_map, List.zipWith_self]

theorem foldlE_multi (f : NpMat ℝ → ℝ → Except Exc4 (NpMat ℝ)) (x y : List Int)
    (hf : ∀ st σ, f st σ = Except.bind (divE (1 : ℝ) (2 * σ)) (fun γ => Except.ok (npAdd2 st
      (x.map fun a => y.map fun b => Real.exp (-γ * (((a : Int) : ℝ) - ((b : Int) : ℝ)) ^ 2)))))
    (σs : List ℝ) (hσ : ∀ σ ∈ σs, σ ≠ 0) (F : Int → Int → ℝ) :
    foldlE f (x.map fun a => y.map fun b => F a b) σs =
      .ok (x.map fun a => y.map fun b => F a b + (σs.map fun σ => gaussK (1 / (2 * σ)) ((a : Int) : ℝ) ((b : Int) : ℝ)).sum) := by
  induction σs generalizing F with
  | nil => simp [foldlE]
  | cons σ σs ih =>
    have h0 : σ ≠ 0 := hσ σ List.mem_cons_self
    have h2 : (2 : ℝ) * σ ≠ 0 := mul_ne_zero two_ne_zero h0
    simp only [foldlE, hf, divE_real _ _ h2, bind_ok, npAdd2_map]
    show foldlE f _ σs = _
    rw [ih (fun σ' h' => hσ σ' (List.mem_cons_of_mem _ h'))]
    congr 1
    apply List.map_congr_left; intro a _
    apply List.map_congr_left; intro b _
    simp only [List.map_cons, List.sum_cons, gaussK]
    ring

/-- `compute_multi_rbf_kernel` on integer codes, every `sigma` non-zero: the mean of the Gaussian kernels -/
theorem multi_eq (x y : List Int) (σs : List ℝ) (hσ : ∀ σ ∈ σs, σ ≠ 0) :
    Translated.compute_multi_rbf_kernel Real.exp x y σs =
      .ok (x.map fun a => y.map fun b => multiK (σs.map fun σ => 1 / (2 * σ)) ((a : Int) : ℝ) ((b : Int) : ℝ)) := by
  unfold Translated.compute_multi_rbf_kernel
  simp only [exponent_eq, Int.cast_one, Int.cast_ofNat]
  have hz : (npZerosLike2 (x.map fun a => y.map fun b => (((a : Int) : ℝ) - ((b : Int) : ℝ)) ^ 2) : NpMat ℝ) =
      x.map fun a => y.map fun b => (0 : ℝ) := by
    simp [npZerosLike2, List.map_map, Function.comp_def]
  rw [hz, foldlE_multi _ x y (fun st σ => by
    simp only [npMap2, npScale2, List.map_map, Function.comp_def, negNum_real]) σs hσ (fun _ _ => 0)]
  simp only [bind_ok, npDivInt2, List.map_map, Function.comp_def, multiK, zero_add, List.length_map, Int.cast_natCast]


/-- `distance_measure_parameters.get("sigma", 1.0)` -/
noncomputable def sigmaOf (par : OQ.Py.Dict (List Char) (NumOrSeq ℝ)) : NumOrSeq ℝ :=
  dictGetD par ['s', 'i', 'g', 'm', 'a'] (NumOrSeq.num ((1 : Int) : ℝ))

theorem mapM_codes (g : Key → Option Nat) (l : List Key) :
    l.mapM (fun k => (g k).map Int.ofNat) =
      if ∀ k ∈ l, (g k).isSome = true then some (l.map fun k => Int.ofNat ((g k).getD 0)) else none := by
  induction l with
  | nil => simp
  | cons k l ih =>
    simp only [List.mapM_cons, ih, List.mem_cons, forall_eq_or_imp, List.map_cons]
    cases hg : g k with
    | none => simp
    | some c =>
      by_cases hl : ∀ k ∈ l, (g k).isSome = true
      · simp only [Option.map_some, Option.isSome_some, true_and, Option.getD_some]
        rw [if_pos hl, if_pos hl]; rfl
      · simp only [Option.map_some, Option.isSome_some, true_and]
        rw [if_neg hl, if_neg hl]; rfl

/-- what `compute_mmd` does once the set of outcomes `L` is fixed, with the kernel computation `Kf` left open -/
noncomputable def mmdTail (Kf : NpVec Int → Except Exc4 (NpMat ℝ)) (L : List Key) (tv mv : List ℝ) : Except Exc4 ℝ :=
  Except.bind (mapE (fun (item : List Int) =>
    Except.bind (intBase2E (OQ.Py.join ([] : List Char) (item.map strOfInt))) (fun (t : Int) => Except.ok t)) L)
    (fun (basis : List Int) => Except.bind (Kf basis) (fun (km : NpMat ℝ) =>
      Except.ok (npDot1 (npSub1 tv mv) (npMatVec km (npSub1 tv mv)))))

theorem mmdTail_eq (Kf : NpVec Int → Except Exc4 (NpMat ℝ)) (K : ℝ → ℝ → ℝ)
    (hK : ∀ basis : List Int, Kf basis = .ok (basis.map fun a => basis.map fun b => K ((a : Int) : ℝ) ((b : Int) : ℝ)))
    (p q : Dict Key) (L : List Key) (hL : L.Perm (unionKeys p q)) (hk : ∀ k ∈ unionKeys p q, ∀ e ∈ k, 0 ≤ e) :
    mmdTail Kf L (L.map fun k => ((p.getD k : Rat) : ℝ)) (L.map fun k => ((q.getD k : Rat) : ℝ)) =
      match mmdData p q with
      | .ok a => .ok (quadForm K a)
      | .error _ => .error .value := by
  unfold mmdTail
  rw [mapE_congr _ (fun k => ofOpt .value ((codeOf k).map Int.ofNat)) L (fun k hkL => by
    rw [intBase2E_key k (hk k (hL.mem_iff.1 hkL))]
    cases (codeOf k).map Int.ofNat <;> rfl), mapE_ofOpt, mapM_codes]
  by_cases hall : ∀ k ∈ unionKeys p q, (codeOf k).isSome = true
  · have hallL : ∀ k ∈ L, (codeOf k).isSome = true := fun k h => hall k (hL.mem_iff.1 h)
    rw [(mmdData_ok_iff p q _).2 ⟨hall, rfl⟩]
    rw [if_pos hallL]
    simp only [ofOpt_some, bind_ok, hK, List.map_map, Function.comp_def, npSub1_map]
    rw [quad_eq L]
    congr 1
    rw [← quadForm_perm K _ _ (hL.map (rowD p q))]
    unfold quadForm
    simp only [List.map_map, Function.comp_def, rowD, Row.diff, Int.ofNat_eq_natCast, Int.cast_natCast]
  · have hallL : ¬ ∀ k ∈ L, (codeOf k).isSome = true := fun h => hall (fun k hk' => h k (hL.mem_iff.2 hk'))
    have hbad : ∀ a, mmdData p q ≠ .ok a := fun a h => hall ((mmdData_ok_iff p q a).1 h).1
    rw [if_neg hallL]
    simp only [ofOpt_none, bind_error]
    cases hm : mmdData p q with
    | ok a => exact absurd hm (hbad a)
    | error e => rfl

theorem foldl_values' {α : Type} (f : List ℝ × List ℝ → α → List ℝ × List ℝ) (g h : α → ℝ)
    (hf : ∀ st k, f st k = (st.1 ++ [g k], st.2 ++ [h k])) (l : List α) (a b : List ℝ) :
    l.foldl f (a, b) = (a ++ l.map g, b ++ l.map h) := by
  have : f = fun st k => (st.1 ++ [g k], st.2 ++ [h k]) := by funext st k; exact hf st k
  rw [this]; exact foldl_values g h l a b

/-- `compute_mmd` = the loops that collect values and codes, then `mmdTail` with the kernel the parameter selects -/
theorem compute_mmd_unfold (order : List Key → List Key) (par : OQ.Py.Dict (List Char) (NumOrSeq ℝ)) (p q : Dict Key)
    (hp : p.keys.Nodup) (hq : q.keys.Nodup) :
    Translated.compute_mmd Real.exp order (castD p) (castD q) par =
      mmdTail (fun basis => match sigmaOf par with
          | .seq σs => Translated.compute_multi_rbf_kernel Real.exp basis basis σs
          | .num σ => Translated.compute_rbf_kernel Real.exp basis basis σ)
        (order (unionKeys p q)) ((order (unionKeys p q)).map fun k => ((p.getD k : Rat) : ℝ))
        ((order (unionKeys p q)).map fun k => ((q.getD k : Rat) : ℝ)) := by
  unfold Translated.compute_mmd mmdTail
  simp only [dictKeys_castD, setUnion_keys p q hp hq]
  rw [foldl_values' _ (fun k => ((p.getD k : Rat) : ℝ)) (fun k => ((q.getD k : Rat) : ℝ))
    (fun st k => by simp only [Int.cast_zero, dictGetD_castD])]
  simp only [List.nil_append]
  congr 1
  funext basis
  unfold sigmaOf
  cases dictGetD par ['s', 'i', 'g', 'm', 'a'] (NumOrSeq.num ((1 : Int) : ℝ)) <;> rfl

/-! ### `evaluate_distribution_distance` -/

/-- what `evaluate_distribution_distance` does, written by hand: TypeError unless both arguments are distributions (`none` = not an
    instance), IndexError on an empty dictionary (`list(keys())[0]`), RuntimeError for different tuple lengths or when exactly one of the
    two is normalised, otherwise the distance function's own result (value or exception) -/
def evalDistance {κ ρ : Type} (close : Rat → Bool) (t m : Option (Dict Key)) (f : Dict Key → Dict Key → κ → Except Exc4 ρ) (kw : κ) :
    Except Exc4 ρ :=
  match t, m with
  | some t, some m =>
    match t, m with
    | (kt, _) :: _, (km, _) :: _ =>
      if kt.length ≠ km.length then .error .runtime
      else if close t.total ≠ close m.total then .error .runtime
      else f t m kw
    | _, _ => .error .index
  | _, _ => .error .type

end OQ.C17
