/- Bridge between the executable `OQ.Mat` (Array-backed) and Mathlib `Matrix`; shared helper lemmas. -/
import OQ.Exec.Mat
import OQ.Exec.Scal
import Mathlib.Data.Matrix.Mul
import Mathlib.Algebra.BigOperators.Fin
import Mathlib.LinearAlgebra.Matrix.Kronecker
import Mathlib.Tactic.Ring
import Mathlib.Tactic.Linarith

namespace OQ
open Matrix

theorem sumTo_eq {R : Type} [AddCommMonoid R] (n : Nat) (f : Nat → R) :
    sumTo n f = ∑ k ∈ Finset.range n, f k := by
  unfold sumTo
  induction n with
  | zero => simp
  | succ n ih => rw [List.range_succ, List.foldl_append, ih, Finset.sum_range_succ]; simp

namespace Mat
variable {R : Type}

@[simp] theorem ofFn_r (r c : Nat) (f : Nat → Nat → R) : (ofFn r c f).r = r := rfl
@[simp] theorem ofFn_c (r c : Nat) (f : Nat → Nat → R) : (ofFn r c f).c = c := rfl

theorem get_ofFn [Zero R] (r c : Nat) (f : Nat → Nat → R) (i j : Nat) (hi : i < r) (hj : j < c) :
    (ofFn r c f).get i j = f i j := by
  unfold get
  simp only [ofFn_r, ofFn_c, hi, hj, and_self, if_true]
  have hlt : i * c + j < r * c := by
    calc i * c + j < i * c + c := by omega
      _ = (i + 1) * c := by ring
      _ ≤ r * c := Nat.mul_le_mul_right c hi
  unfold ofFn
  simp only [Array.getD, Array.size_ofFn, hlt, dite_true]
  rw [Array.getInternal_eq_getElem, Array.getElem_ofFn]
  simp only
  have hc : 0 < c := by omega
  congr 1
  · rw [Nat.mul_comm, Nat.mul_add_div hc, Nat.div_eq_of_lt hj]; simp
  · rw [Nat.mul_comm, Nat.mul_add_mod, Nat.mod_eq_of_lt hj]

theorem get_out [Zero R] (m : Mat R) (i j : Nat) (h : ¬ (i < m.r ∧ j < m.c)) : m.get i j = 0 := by
  unfold get; simp [h]

/-- view of a `d × e` executable matrix as a Mathlib matrix -/
def toM [Zero R] (r c : Nat) (A : Mat R) : Matrix (Fin r) (Fin c) R := fun i j => A.get i j

theorem toM_ofFn [Zero R] (r c : Nat) (f : Nat → Nat → R) :
    toM r c (ofFn r c f) = Matrix.of (fun (i : Fin r) (j : Fin c) => f i j) := by
  funext i j; exact get_ofFn r c f i j i.2 j.2

theorem toM_mul [NonUnitalNonAssocSemiring R] (A B : Mat R) (r k c : Nat)
    (hr : A.r = r) (hk : A.c = k) (_hk' : B.r = k) (hc : B.c = c) :
    toM r c (A.mul B) = toM r k A * toM k c B := by
  subst hr hk hc
  funext i j
  simp only [toM, mul]
  rw [get_ofFn _ _ _ _ _ i.2 j.2, sumTo_eq, Matrix.mul_apply, Finset.sum_range]
  rfl

theorem toM_identity [Zero R] [One R] (d : Nat) : toM d d (identity (R := R) d) = 1 := by
  funext i j
  simp only [toM, identity]
  rw [get_ofFn _ _ _ _ _ i.2 j.2, Matrix.one_apply]
  simp [Fin.ext_iff]

theorem toM_transpose [Zero R] (A : Mat R) : toM A.c A.r A.transpose = (toM A.r A.c A)ᵀ := by
  funext i j
  simp only [toM, transpose, Matrix.transpose_apply]
  rw [get_ofFn _ _ _ _ _ i.2 j.2]

theorem toM_add [Zero R] [Add R] (A B : Mat R) :
    toM A.r A.c (A.add B) = toM A.r A.c A + toM A.r A.c B := by
  funext i j
  simp only [toM, add, Matrix.add_apply]
  rw [get_ofFn _ _ _ _ _ i.2 j.2]

theorem toM_smul [Zero R] [Mul R] (x : R) (A : Mat R) :
    toM A.r A.c (A.smul x) = x • toM A.r A.c A := by
  funext i j
  simp only [toM, smul, Matrix.smul_apply, smul_eq_mul]
  rw [get_ofFn _ _ _ _ _ i.2 j.2]

/-- entries of the executable Kronecker product -/
theorem kron_get [Zero R] [Mul R] (A B : Mat R) (i j : Nat) (hi : i < A.r * B.r) (hj : j < A.c * B.c) :
    (A.kron B).get i j = A.get (i / B.r) (j / B.c) * B.get (i % B.r) (j % B.c) := by
  unfold kron; rw [get_ofFn _ _ _ _ _ hi hj]

end Mat
end OQ
