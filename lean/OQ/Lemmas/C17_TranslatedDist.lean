/- helper definitions and lemmas for the translation ties of C17 (`OQ/Props/C17_TranslatedDist.lean`): the embedding of the model's
   error classes / raw keys into the translated code's (`toExc`, `liftE`, `toPyKey`, `toPyItems`), the prelude functions against the
   model's (`intOfStr` = `pyInt`, `split1` = `splitOn`, `dictSet` = `Dict.set`, `strOfInt` = `strInt`, …) and the loops of the
   translated functions against the model's recursions.  Not property theorems. -/
import OQ.Lemmas.C17
import OQ.Lemmas.PyT4
import OQ.Generated.TranslatedC17
namespace OQ.C17
open OQ.Generated OQ.Py

/-- the model's exception classes among the translated code's -/
def toExc : Err → Exc4
  | .runtime => .runtime
  | .value => .value
  | .index => .index

/-- a model result as a result of the translated code -/
def liftE {α : Type} : Except Err α → Except Exc4 α
  | .ok a => .ok a
  | .error e => .error (toExc e)

/-- a caller's key as the translated code sees it -/
def toPyKey : RawKey → PyKey
  | .str s => .str s
  | .tup t => .tup t
  | .other => .other

def toPyItems (input : List (RawKey × Rat)) : OQ.Py.Dict PyKey Rat := input.map (fun p => (toPyKey p.1, p.2))

theorem dictSet_eq_set (d : Dict Key) (k : Key) (v : Rat) : dictSet d k v = Dict.set d k v := by
  induction d with
  | nil => rfl
  | cons p rest ih =>
    obtain ⟨k', v'⟩ := p
    simp only [dictSet, Dict.set]
    by_cases h : k' = k
    · subst h; simp
    · have : ¬ (k' == k) = true := fun he => h (eq_of_beq he)
      rw [if_neg this, if_neg h, ih]

theorem dictGetD_eq_getD (d : Dict Key) (k : Key) : dictGetD d k (0 : Rat) = Dict.getD d k := by
  induction d with
  | nil => simp [dictGetD, Dict.getD]
  | cons p rest ih =>
    obtain ⟨k', v'⟩ := p
    simp only [dictGetD, Dict.getD]
    by_cases h : k' = k
    · subst h; simp
    · have : ¬ (k' == k) = true := fun he => h (eq_of_beq he)
      rw [if_neg this, if_neg h, ih]

theorem parseNatAux_eq (a : Nat) (s : List Char) : OQ.Py.parseNatAux a s = OQ.C17.parseNatAux a s := by
  induction s generalizing a with
  | nil => rfl
  | cons c cs ih =>
    simp only [OQ.Py.parseNatAux, OQ.C17.parseNatAux]
    have : digitVal? c = digitVal c := rfl
    rw [this]
    cases digitVal c with
    | none => rfl
    | some d => exact ih _

theorem parseNat?_eq (s : List Char) : parseNat? s = parseNat s := by
  cases s with
  | nil => rfl
  | cons a b => simp [parseNat?, parseNat, parseNatAux_eq]

theorem intOfStr?_eq (s : List Char) : intOfStr? s = pyInt s := by
  cases s with
  | nil => rfl
  | cons c r => simp only [intOfStr?, pyInt, parseNat?_eq]

theorem intOfStr_eq (s : List Char) : intOfStr s = ofOpt .value (pyInt s) := by
  unfold intOfStr
  rw [intOfStr?_eq]
  cases pyInt s <;> rfl

theorem intOfStr_single (c : Char) : intOfStr [c] = ofOpt .value ((digitVal c).map Int.ofNat) := by
  rw [intOfStr_eq]
  congr 1
  simp only [pyInt]
  by_cases h1 : c = '-'
  · subst h1; decide
  · by_cases h2 : c = '+'
    · subst h2; decide
    · simp only [h1, h2, if_false, parseNat]
      cases h : digitVal c <;> simp [OQ.C17.parseNatAux, h]

theorem split1_eq (sep : Char) (s : List Char) : split1 sep s = splitOn sep s := by
  induction s with
  | nil => rfl
  | cons c cs ih =>
    simp only [split1, splitOn, ih]
    split
    · rfl
    · cases splitOn sep cs <;> rfl


theorem mapE_map {α β γ : Type} (f : β → Except Exc4 γ) (g : α → β) (xs : List α) : mapE f (xs.map g) = mapE (fun x => f (g x)) xs := by
  induction xs with
  | nil => rfl
  | cons x xs ih => simp only [List.map_cons, mapE, ih]

/-- the str branch of `preprocess_distibution_dict` -/
theorem mapE_intOfStr_key (s : List Char) :
    mapE intOfStr (if (!(s.contains ',')) then strChars s else split1 ',' s) = liftE (preprocessKey (.str s)) := by
  simp only [preprocessKey]
  by_cases h : ',' ∈ s
  · have hc : s.contains ',' = true := by simp [h]
    simp only [h, hc, Bool.not_true, Bool.false_eq_true, if_false, if_true, split1_eq]
    rw [mapE_congr _ (fun x => ofOpt .value (pyInt x)) _ (fun x _ => intOfStr_eq x), mapE_ofOpt]
    cases (splitOn ',' s).mapM pyInt <;> rfl
  · have hc : s.contains ',' = false := by simp [h]
    simp only [h, hc, Bool.not_false, if_true, if_false, strChars, mapE_map]
    rw [mapE_congr _ (fun c => ofOpt .value ((digitVal c).map Int.ofNat)) _ (fun x _ => intOfStr_single x), mapE_ofOpt]
    cases s.mapM (fun c => (digitVal c).map Int.ofNat) <;> rfl

theorem foldlE_preprocess (f : Dict Key → PyKey × Rat → Except Exc4 (Dict Key))
    (hf : ∀ st k v, f st (toPyKey k, v) = match preprocessKey k with
      | .error e => .error (toExc e)
      | .ok k' => .ok (st.set k' v))
    (input : List (RawKey × Rat)) (acc : Dict Key) :
    foldlE f acc (toPyItems input) = liftE (preprocess input acc) := by
  induction input generalizing acc with
  | nil => rfl
  | cons p rest ih =>
    obtain ⟨k, v⟩ := p
    simp only [toPyItems, List.map_cons, foldlE, preprocess, hf]
    cases preprocessKey k with
    | error e => rfl
    | ok k' => exact ih _


theorem bind_ok_right {α : Type} (x : Except Exc4 α) : Except.bind x (fun t => Except.ok t) = x := by
  cases x <;> rfl

theorem maxListE_eq (qs : List Int) : maxListE qs = match qs with
    | [] => .error .value
    | _ :: _ => .ok (listMaxInt qs) := by
  cases qs <;> rfl

theorem lenSet_ne_iff (qs : List Int) : (((qs.length : Nat) : Int) != lenSet qs) = hasDup qs := by
  unfold lenSet
  by_cases h : qs.Nodup
  · rw [hasDup_false_of_nodup qs h, (distinctCount_eq_length_iff qs).mpr h]; simp
  · rw [hasDup_true_of_not_nodup qs h]
    have : distinctCount qs ≠ qs.length := fun e => h ((distinctCount_eq_length_iff qs).mp e)
    simp only [bne_iff_ne, ne_eq, Nat.cast_inj]
    exact fun e => this e.symm

theorem indexE_eq_pyIndex (key : Key) (i : Int) : indexE key i = ofOpt .index (pyIndex key i) := by
  rw [indexE_eq]; rfl

theorem mapE_index (qs : List Int) (key : Key) :
    mapE (fun i => Except.bind (indexE key i) (fun t => Except.ok t)) qs = ofOpt .index (projectKey qs key) := by
  simp only [bind_ok_right, indexE_eq_pyIndex, mapE_ofOpt, projectKey]

/-- the accumulation loop of `subdistribution` -/
theorem foldlE_accumulate (self : Dict Key) (qs : List Int) (todo acc : Dict Key)
    (hget : ∀ p ∈ todo, dictGetE self p.1 = .ok p.2) :
    foldlE (fun (st : Dict Key) (key : Key) =>
        Except.bind (ofOpt .index (projectKey qs key)) (fun new_key =>
          Except.bind (dictGetE self key) (fun v => Except.ok (Dict.set st new_key (v + Dict.getD st new_key)))))
      acc (dictKeys todo) = ofOpt .index (accumulate (projectKey qs) todo acc) := by
  induction todo generalizing acc with
  | nil => rfl
  | cons p rest ih =>
    obtain ⟨k, v⟩ := p
    simp only [dictKeys, List.map_cons, foldlE, accumulate]
    cases projectKey qs k with
    | none => rfl
    | some k' =>
      simp only [ofOpt_some, bind_ok, hget (k, v) (by simp)]
      exact ih _ (fun p hp => hget p (by simp [hp]))


/-- what the translated method returns for a model result: the receiver after the call and the new dictionary -/
def subResult (r : Dict Key × Except Err (Dict Key)) : Except Exc4 (Dict Key × Dict Key) :=
  match r.2 with
  | .ok d => .ok (r.1, d)
  | .error e => .error (toExc e)

theorem decDigits_eq (f n : Nat) (h : n ≤ f) : (decDigitsFuel f n).map OQ.Py.digitChar = strNatFuel f n := by
  induction f generalizing n with
  | zero =>
    have : n = 0 := by omega
    subst this; rfl
  | succ f ih =>
    simp only [decDigitsFuel, strNatFuel]
    split
    · rfl
    · rw [List.map_append, ih (n / 10) (by omega)]; rfl

theorem strOfInt_eq (i : Int) : strOfInt i = strInt i := by
  unfold strOfInt strInt strNat
  split
  · rw [decDigits_eq _ _ (le_refl _)]
  · rw [decDigits_eq _ _ (le_refl _)]

theorem join_eq (sep : Char) (parts : List (List Char)) : OQ.Py.join [sep] parts = joinWith sep parts := by
  induction parts with
  | nil => rfl
  | cons p rest ih =>
    cases rest with
    | nil => rfl
    | cons q rest' => simp only [OQ.Py.join, joinWith, ih]; simp

theorem join_strOfInt (k : Key) : OQ.Py.join [','] (k.map strOfInt) = keyToString k := by
  rw [join_eq]; unfold keyToString; congr 1
  exact List.map_congr_left (fun i _ => strOfInt_eq i)

theorem foldl_commas (d : Dict Key) (acc : Dict (List Char)) :
    (d.map (fun p => (PyKey.tup p.1, p.2))).foldl (fun (a : OQ.Py.Dict PyKey Rat) (p0 : PyKey × Rat) =>
        dictSet a (match p0.1 with | PyKey.tup key => PyKey.str (keyToString key) | _ => p0.1) p0.2)
      (acc.map (fun p => (PyKey.str p.1, p.2)))
    = (d.foldl (fun a p => a.set (keyToString p.1) p.2) acc).map (fun p => (PyKey.str p.1, p.2)) := by
  induction d generalizing acc with
  | nil => rfl
  | cons p rest ih =>
    obtain ⟨k, v⟩ := p
    simp only [List.map_cons, List.foldl_cons]
    rw [dictSet_mapKeys PyKey.str (fun a b h => by cases h; rfl) acc (keyToString k) v]
    have : dictSet acc (keyToString k) v = Dict.set acc (keyToString k) v := by
      clear ih
      induction acc with
      | nil => rfl
      | cons q r ih2 =>
        obtain ⟨k', v'⟩ := q
        simp only [dictSet, Dict.set]
        by_cases h : k' = keyToString k
        · subst h; simp
        · have : ¬ (k' == keyToString k) = true := fun he => h (eq_of_beq he)
          rw [if_neg this, if_neg h, ih2]
    rw [this]
    exact ih _


theorem toPyItems_surjective (d : OQ.Py.Dict PyKey Rat) : ∃ input, toPyItems input = d := by
  refine ⟨d.map (fun p => ((match p.1 with | .str s => RawKey.str s | .tup t => RawKey.tup t | .other => RawKey.other), p.2)), ?_⟩
  simp only [toPyItems, List.map_map]
  conv_rhs => rw [← List.map_id d]
  apply List.map_congr_left
  intro p _
  obtain ⟨k, v⟩ := p
  cases k <;> rfl

theorem liftE_ok {α : Type} (x : Except Err α) (a : α) (h : liftE x = .ok a) : x = .ok a := by
  cases x with
  | ok b => simpa [liftE] using h
  | error e => simp [liftE] at h

theorem liftE_error {α : Type} (x : Except Err α) (e : Err) (h : x = .error e) : liftE x = .error (toExc e) := by
  subst h; rfl

end OQ.C17
