/- C09 helper lemmas, part 5: simplified sums are fixed points of `simplify`; data-level consequences. -/
import OQ.Lemmas.C09_Ops

set_option linter.unusedSectionVars false
namespace OQ.C09
open OQ OQ.Pauli

variable {R : Type} [CommRing R]

/-- what `simplify` produces: pairwise different operation sets (earlier vs later term) and no
    negligible coefficient -/
def Simplified (tol : Tol R) (s : PSum R) : Prop :=
  s.Pairwise (fun a b => sameOps a.ops b.ops = false) ∧ ∀ t ∈ s, tol.negl t.coeff = false

theorem groupInsert_fresh (acc : List (Term R)) (t : Term R) (h : ∀ a ∈ acc, sameOps a.ops t.ops = false) :
    groupInsert (acc.map (fun a => [a])) t = acc.map (fun a => [a]) ++ [[t]] := by
  induction acc with
  | nil => rfl
  | cons a acc ih =>
    simp only [List.map_cons, groupInsert, h a (by simp), Bool.false_eq_true, if_false, List.cons_append]
    rw [ih (fun b hb => h b (by simp [hb]))]

theorem foldl_groupInsert_fresh (s acc : List (Term R))
    (h : (acc ++ s).Pairwise (fun a b => sameOps a.ops b.ops = false)) :
    s.foldl groupInsert (acc.map (fun a => [a])) = (acc ++ s).map (fun a => [a]) := by
  induction s generalizing acc with
  | nil => simp
  | cons t s ih =>
    simp only [List.foldl_cons]
    have hp := List.pairwise_append.1 h
    rw [groupInsert_fresh acc t (fun a ha => hp.2.2 a ha t (by simp))]
    have : acc.map (fun a => [a]) ++ [[t]] = (acc ++ [t]).map (fun a => [a]) := by simp
    rw [this, ih (acc ++ [t]) (by simpa using h)]
    simp

theorem simplify_id (tol : Tol R) (s : PSum R) (h : Simplified tol s) : simplify tol s = s := by
  unfold simplify
  have := foldl_groupInsert_fresh s [] (by simpa using h.1)
  simp only [List.map_nil, List.nil_append] at this
  rw [this, List.filterMap_map]
  have hs := h.2
  clear this h
  induction s with
  | nil => rfl
  | cons t s ih =>
    rw [List.filterMap_cons]
    simp only [Function.comp, groupResult, hs t (by simp), Bool.false_eq_true, if_false]
    rw [ih (fun u hu => hs u (by simp [hu]))]

theorem simplified_prefix (tol : Tol R) (a b : PSum R) (h : Simplified tol (a ++ b)) : Simplified tol a :=
  ⟨(List.pairwise_append.1 h.1).1, fun t ht => h.2 t (by simp [ht])⟩

/-- folding `+=` over terms that already form a simplified sum just collects them -/
theorem foldl_addTerm_id {α : Type} (tol : Tol R) (f : α → Term R) (l : List α) (acc : PSum R)
    (h : Simplified tol (acc ++ l.map f)) :
    l.foldl (fun acc a => addTerm tol acc (f a)) acc = acc ++ l.map f := by
  induction l generalizing acc with
  | nil => simp
  | cons a l ih =>
    simp only [List.foldl_cons, List.map_cons]
    have h1 : Simplified tol (acc ++ [f a]) := by
      apply simplified_prefix tol _ (l.map f)
      simpa using h
    rw [addTerm, simplify_id tol _ h1, ih (acc ++ [f a]) (by simpa using h)]
    simp

/-! ### reversal on simplified sums -/

theorem sameOps_map_reverse (n : Nat) (a b : List (Nat × P)) (ha : ∀ x ∈ a, x.1 < n) (hb : ∀ x ∈ b, x.1 < n) :
    sameOps (a.map (fun qp => (n - 1 - qp.1, qp.2))) (b.map (fun qp => (n - 1 - qp.1, qp.2))) = sameOps a b := by
  unfold sameOps
  simp only [List.length_map]
  congr 1
  rw [Bool.eq_iff_iff]
  simp only [List.all_eq_true, List.contains_iff_mem, List.mem_map]
  constructor
  · intro h x hx
    obtain ⟨y, hy, hxy⟩ := h _ ⟨x, hx, rfl⟩
    have hx1 := ha x hx
    have hy1 := hb y hy
    simp only [Prod.mk.injEq] at hxy
    have : y = x := Prod.ext (by omega) hxy.2
    rw [← this]; exact hy
  · rintro h _ ⟨x, hx, rfl⟩
    exact ⟨x, h x hx, rfl⟩

theorem reverseTerm_reverseTerm (n : Nat) (t : Term R) (hn : ∀ x ∈ t.ops, x.1 < n) :
    reverseTerm n (reverseTerm n t) = t := by
  obtain ⟨ops, c⟩ := t
  simp only [reverseTerm, List.map_map, Term.mk.injEq, and_true]
  conv_rhs => rw [← List.map_id ops]
  apply List.map_congr_left
  intro x hx
  have := hn x hx
  simp only [Function.comp, id]
  exact Prod.ext (by simp only; omega) rfl

theorem simplified_map_reverse (tol : Tol R) (n : Nat) (s : PSum R) (h : Simplified tol s)
    (hn : ∀ t ∈ s, ∀ x ∈ t.ops, x.1 < n) : Simplified tol (s.map (reverseTerm n)) := by
  constructor
  · rw [List.pairwise_map]
    refine List.Pairwise.imp_of_mem ?_ h.1
    intro a b ha hb hab
    simp only [reverseTerm]
    rw [sameOps_map_reverse n _ _ (hn a ha) (hn b hb)]; exact hab
  · intro t ht
    obtain ⟨u, hu, rfl⟩ := List.mem_map.1 ht
    exact h.2 u hu

/-- on a simplified sum `reverse_qubit_order` just re-indexes every term -/
theorem reverse_simplified (tol : Tol R) (n : Nat) (s : PSum R) (h : Simplified tol s)
    (hn : PSum.nQubits s ≤ n) : reverseQubitOrder tol s n = some (s.map (reverseTerm n)) := by
  have hops := (sum_nQubits_le s n).1 hn
  unfold reverseQubitOrder
  rw [if_neg (by omega), foldl_addTerm_id tol (reverseTerm n) s [] (by simpa using simplified_map_reverse tol n s h hops)]
  simp

theorem nQubits_map_reverse (n : Nat) (s : PSum R) (hn : PSum.nQubits s ≤ n) :
    PSum.nQubits (s.map (reverseTerm n)) ≤ n := by
  have hops := (sum_nQubits_le s n).1 hn
  rw [sum_nQubits_le]
  intro t ht
  obtain ⟨u, hu, rfl⟩ := List.mem_map.1 ht
  exact reverseTerm_ops_lt n u (hops u hu)

theorem reverse_twice_simplified (tol : Tol R) (n : Nat) (s : PSum R) (h : Simplified tol s)
    (hn : PSum.nQubits s ≤ n) :
    ∃ s', reverseQubitOrder tol s n = some s' ∧ reverseQubitOrder tol s' n = some s := by
  have hops := (sum_nQubits_le s n).1 hn
  refine ⟨_, reverse_simplified tol n s h hn, ?_⟩
  rw [reverse_simplified tol n _ (simplified_map_reverse tol n s h hops) (nQubits_map_reverse n s hn)]
  congr 1
  rw [List.map_map]
  conv_rhs => rw [← List.map_id s]
  apply List.map_congr_left
  intro t ht
  exact reverseTerm_reverseTerm n t (hops t ht)

end OQ.C09
