/-
  C18 ⟷ C01 / C02 — linking lemmas.
  * the STANDARD placement of the code: a qubit tuple `qs` of an `n`-qubit register is placed through
    `OQ.Spec.lift` along C01's partition `sigmaOf qs n`, gate indices read MSB first (`bvEquiv`);
  * under it, C18's `denote` of an operation list IS C01's `circSem` of the same gates (`denote_std`);
  * `Lift.toUnitary` (executable, no shape check) and C01's `toUnitary` (with numpy's shape check) agree on
    well-shaped gates; what a successful `Lift.toUnitary` tells about its input;
  * structural invariants of the U3 rule under chaining: qubit tuples are kept, nothing becomes empty.
-/
import OQ.Lemmas.C18
import OQ.Lemmas.C18_Complex
import OQ.Lemmas.C01
set_option linter.unusedSectionVars false
namespace OQ.C18.Link
open Matrix OQ OQ.Spec OQ.C18 OQ.Lift

/-! ## the standard placement -/
section Std
variable {R : Type} [CommRing R]

/-- the `Spec.lift` data of a valid qubit tuple: C01's partition and MSB-first index reading -/
noncomputable def stdData (n : Nat) (qs : List Nat) (hd : qs.Nodup) (hlt : ∀ q ∈ qs, q < n) :
    LiftData (Fin n) qs.length :=
  ⟨Fin qs.length, {q : Fin n // q.val ∉ qs}, C01.sigmaOf qs n hd hlt, C01.bvEquiv qs.length⟩

/-- the placement the code implements (`_lift_matrix`), as an instance of `Placement.ofLift` -/
noncomputable def stdPlacement (R : Type) [CommRing R] (n : Nat) : Placement R (Fin n) :=
  Placement.ofLift (fun qs =>
    if h : qs.Nodup ∧ ∀ q ∈ qs, q < n then some (stdData n qs h.1 h.2) else none)

theorem stdPlacement_emb (n : Nat) (qs : List Nat) (hd : qs.Nodup) (hlt : ∀ q ∈ qs, q < n)
    (M : Matrix (Fin (2 ^ qs.length)) (Fin (2 ^ qs.length)) R) :
    (stdPlacement R n).emb qs M =
      Spec.lift (C01.sigmaOf qs n hd hlt) (Matrix.reindex (C01.bvEquiv qs.length) (C01.bvEquiv qs.length) M) := by
  simp only [stdPlacement, Placement.ofLift, dif_pos (And.intro hd hlt)]
  rfl

end Std

/-! ## `liftOps`: the (matrix, qubits) pairs of an operation list -/
section LiftOps
variable {R : Type} [CommRing R]

theorem liftOps_nil (k : Scal R) : liftOps k ([] : List (Operation (Ang R) R)) = some [] := rfl

theorem liftOps_cons_gate (k : Scal R) (g : Gate (Ang R) R) (qs : List Nat) (ops : List (Operation (Ang R) R)) :
    liftOps k (.gate g qs :: ops) =
      (gateMatrix k g).bind (fun m => (liftOps k ops).bind (fun l => some ((⟨m, qs⟩ : Lift.Op R) :: l))) := by
  simp only [liftOps, List.mapM_cons]
  cases gateMatrix k g <;> simp

theorem liftOps_cons_other (k : Scal R) (t : String) (qs : List Nat) (ops : List (Operation (Ang R) R)) :
    liftOps k (.other t qs :: ops) = none := by
  simp [liftOps, List.mapM_cons]

/-- the pairs carry the qubit tuples of the operations, in order -/
theorem liftOps_qs (k : Scal R) : ∀ (ops : List (Operation (Ang R) R)) (l : List (Lift.Op R)),
    liftOps k ops = some l → l.map (fun o => o.qs) = ops.map Operation.qs := by
  intro ops
  induction ops with
  | nil => intro l h; rw [liftOps_nil, Option.some.injEq] at h; subst h; rfl
  | cons op ops ih =>
    intro l h
    cases op with
    | other t qs => rw [liftOps_cons_other] at h; exact absurd h (by simp)
    | gate g qs =>
      rw [liftOps_cons_gate] at h
      cases hm : gateMatrix k g with
      | none => rw [hm] at h; exact absurd h (by simp)
      | some m =>
        cases hl : liftOps k ops with
        | none => rw [hm, hl] at h; exact absurd h (by simp)
        | some l' =>
          rw [hm, hl] at h
          simp only [Option.bind_some, Option.some.injEq] at h
          subst h
          simp only [List.map_cons, Operation.qs, ih l' hl]

/-- every pair comes from a gate operation of the list, with that gate's matrix -/
theorem liftOps_mem (k : Scal R) : ∀ (ops : List (Operation (Ang R) R)) (l : List (Lift.Op R)),
    liftOps k ops = some l → ∀ o ∈ l, ∃ g, Operation.gate g o.qs ∈ ops ∧ gateMatrix k g = some o.m := by
  intro ops
  induction ops with
  | nil => intro l h; rw [liftOps_nil, Option.some.injEq] at h; subst h; simp
  | cons op ops ih =>
    intro l h
    cases op with
    | other t qs => rw [liftOps_cons_other] at h; exact absurd h (by simp)
    | gate g qs =>
      rw [liftOps_cons_gate] at h
      cases hm : gateMatrix k g with
      | none => rw [hm] at h; exact absurd h (by simp)
      | some m =>
        cases hl : liftOps k ops with
        | none => rw [hm, hl] at h; exact absurd h (by simp)
        | some l' =>
          rw [hm, hl] at h
          simp only [Option.bind_some, Option.some.injEq] at h
          subst h
          intro o ho
          rcases List.mem_cons.mp ho with rfl | ho
          · exact ⟨g, by simp, hm⟩
          · obtain ⟨g', hg', hm'⟩ := ih l' hl o ho
            exact ⟨g', List.mem_cons_of_mem _ hg', hm'⟩

/-- the gate's matrix has the dimension of its qubit tuple (numpy's / sympy's `@` raises otherwise: C01
    `lifted_matrix_defined_iff`) -/
def WellShaped (k : Scal R) : Operation (Ang R) R → Prop
  | .gate g qs => ∀ m, gateMatrix k g = some m → m.r = 2 ^ qs.length ∧ m.c = 2 ^ qs.length
  | .other _ _ => True

theorem liftOps_shape (k : Scal R) (ops : List (Operation (Ang R) R)) (l : List (Lift.Op R))
    (h : liftOps k ops = some l) (hs : ∀ op ∈ ops, WellShaped k op) :
    ∀ o ∈ l, o.m.r = 2 ^ o.qs.length ∧ o.m.c = 2 ^ o.qs.length := by
  intro o ho
  obtain ⟨g, hg, hm⟩ := liftOps_mem k ops l h o ho
  exact hs _ hg o.m hm

end LiftOps

/-! ## `denote` under the standard placement is C01's `circSem` -/
section Denote
variable {R : Type} [CommRing R] [StarRing R]

theorem denoteOp_std (n : Nat) (k : Scal R) (g : Gate (Ang R) R) (qs : List Nat) (m : Mat R)
    (hm : gateMatrix k g = some m) (hv : C01.OpValid n (⟨m, qs⟩ : Lift.Op R)) :
    denoteOp (stdPlacement R n) k (.gate g qs) = some (C01.opSem n ⟨m, qs⟩) := by
  have hr : m.r = 2 ^ qs.length := hv.mr
  have hc : m.c = 2 ^ qs.length := hv.mc
  simp only [denoteOp, hm, hr, hc, and_self, if_true]
  rw [stdPlacement_emb n qs hv.nodup hv.lt]
  unfold C01.opSem
  rw [dif_pos hv]
  rfl

/-- **C18's semantics instantiated at the code's placement IS C01's circuit semantics** -/
theorem denote_std (n : Nat) (k : Scal R) : ∀ (ops : List (Operation (Ang R) R)) (l : List (Lift.Op R)),
    liftOps k ops = some l → (∀ o ∈ l, C01.OpValid n o) →
    denote (stdPlacement R n) k ops = some (C01.circSem n (l.map C01.Oper.gate)) := by
  intro ops
  induction ops with
  | nil =>
    intro l h _
    rw [liftOps_nil, Option.some.injEq] at h; subst h
    simp [denote, denoteBy, C01.circSem_nil]
  | cons op ops ih =>
    intro l h hv
    cases op with
    | other t qs => rw [liftOps_cons_other] at h; exact absurd h (by simp)
    | gate g qs =>
      rw [liftOps_cons_gate] at h
      cases hm : gateMatrix k g with
      | none => rw [hm] at h; exact absurd h (by simp)
      | some m =>
        cases hl : liftOps k ops with
        | none => rw [hm, hl] at h; exact absurd h (by simp)
        | some l' =>
          rw [hm, hl] at h
          simp only [Option.bind_some, Option.some.injEq] at h
          subst h
          have h1 := denoteOp_std n k g qs m hm (hv _ (by simp))
          have h2 := ih l' hl (fun o ho => hv o (by simp [ho]))
          unfold denote at h2 ⊢
          simp only [denoteBy, h1, h2, Option.bind_some, List.map_cons, C01.circSem_cons]
          rfl

/-- an operation list that has an action (under ANY placement) consists of gate operations with matrices of the
    dimension of their qubit tuples -/
theorem liftOps_of_denote {ι : Type} [Fintype ι] [DecidableEq ι] (E : Placement R ι) (k : Scal R) :
    ∀ (ops : List (Operation (Ang R) R)) (V : Matrix (BV ι) (BV ι) R), denote E k ops = some V →
    ∃ l, liftOps k ops = some l ∧ ∀ o ∈ l, o.m.r = 2 ^ o.qs.length ∧ o.m.c = 2 ^ o.qs.length := by
  intro ops
  induction ops with
  | nil => intro V _; exact ⟨[], rfl, by simp⟩
  | cons op ops ih =>
    intro V h
    unfold denote at h ih
    simp only [denoteBy] at h
    cases hd : denoteOp E k op with
    | none => rw [hd] at h; exact absurd h (by simp)
    | some a =>
      cases hr : denoteBy (denoteOp E k) ops with
      | none => rw [hd, hr] at h; exact absurd h (by simp)
      | some b =>
        obtain ⟨l', hl', hs'⟩ := ih b hr
        cases op with
        | other t qs => simp [denoteOp] at hd
        | gate g qs =>
          simp only [denoteOp] at hd
          cases hm : gateMatrix k g with
          | none => rw [hm] at hd; exact absurd hd (by simp)
          | some m =>
            rw [hm] at hd
            simp only at hd
            by_cases hsh : m.r = 2 ^ qs.length ∧ m.c = 2 ^ qs.length
            · refine ⟨⟨m, qs⟩ :: l', ?_, ?_⟩
              · rw [liftOps_cons_gate, hm, hl']; rfl
              · intro o ho
                rcases List.mem_cons.mp ho with rfl | ho
                · exact hsh
                · exact hs' o ho
            · rw [if_neg hsh] at hd; exact absurd hd (by simp)

end Denote

/-! ## `Lift.toUnitary` (executable) versus C01's `toUnitary` (with the shape check) -/
section ToUnitary
variable {R : Type} [CommRing R]

theorem mapM_some {α β : Type} (f : α → Option β) : ∀ (xs : List α) (ys : List β), xs.mapM f = some ys →
    ys.length = xs.length ∧ ∀ x ∈ xs, (f x).isSome := by
  intro xs
  induction xs with
  | nil => intro ys h; simp at h; subst h; simp
  | cons x xs ih =>
    intro ys h
    rw [List.mapM_cons] at h
    cases hx : f x with
    | none => rw [hx] at h; exact absurd h (by simp)
    | some b =>
      cases hxs : xs.mapM f with
      | none => rw [hx, hxs] at h; exact absurd h (by simp)
      | some bs =>
        rw [hx, hxs] at h
        simp only [Option.pure_def, Option.bind_eq_bind, Option.bind_some, Option.some.injEq] at h
        subst h
        obtain ⟨h1, h2⟩ := ih bs hxs
        refine ⟨by simp [h1], ?_⟩
        intro y hy
        rcases List.mem_cons.mp hy with rfl | hy
        · rw [hx]; rfl
        · exact h2 y hy

theorem mapM_congr' {α β : Type} (f g : α → Option β) : ∀ (xs : List α), (∀ x ∈ xs, f x = g x) →
    xs.mapM f = xs.mapM g := by
  intro xs
  induction xs with
  | nil => intro _; rfl
  | cons x xs ih =>
    intro h
    rw [List.mapM_cons, List.mapM_cons, h x (by simp), ih (fun y hy => h y (by simp [hy]))]

/-- the embedding succeeds only on a non-empty tuple of distinct indices inside the register -/
theorem liftMatrix_some_valid (m : Mat R) (qs : List Nat) (n : Nat) (h : (liftMatrix m qs n).isSome) :
    qs ≠ [] ∧ qs.Nodup ∧ ∀ q ∈ qs, q < n := by
  refine ⟨?_, ?_, ?_⟩
  · intro he
    subst he
    simp [liftMatrix] at h
  · by_contra hd
    rw [C01.liftMatrix_none_of_dup m qs n hd] at h
    exact absurd h (by simp)
  · intro q hq
    by_contra hqn
    have := C01.le_listMax qs q hq
    have h2 : n ≤ listMax qs := by omega
    have : liftMatrix m qs n = none := by
      unfold liftMatrix
      simp [h2]
    rw [this] at h
    exact absurd h (by simp)

/-- what a successful executable `to_unitary` tells about its input: at least one operation, every qubit tuple
    non-empty, duplicate-free and inside the register -/
theorem toUnitary_some_valid (n : Nat) (l : List (Lift.Op R)) (U : Mat R) (h : Lift.toUnitary n l = some U) :
    l ≠ [] ∧ ∀ o ∈ l, o.qs ≠ [] ∧ o.qs.Nodup ∧ ∀ q ∈ o.qs, q < n := by
  unfold Lift.toUnitary at h
  cases hms : l.reverse.mapM (fun o => liftMatrix o.m o.qs n) with
  | none => rw [hms] at h; exact absurd h (by simp)
  | some ms =>
    rw [hms] at h
    obtain ⟨hlen, hall⟩ := mapM_some _ _ _ hms
    refine ⟨?_, ?_⟩
    · intro he
      subst he
      simp only [List.reverse_nil, List.length_nil, List.length_eq_zero_iff] at hlen
      subst hlen
      simp [reduceMul] at h
    · intro o ho
      exact liftMatrix_some_valid o.m o.qs n (hall o (List.mem_reverse.mpr ho))

/-- on well-shaped gates the executable `to_unitary` IS C01's `to_unitary` (which raises on a shape mismatch) -/
theorem toUnitary_checked (n : Nat) (l : List (Lift.Op R))
    (hs : ∀ o ∈ l, o.m.r = 2 ^ o.qs.length ∧ o.m.c = 2 ^ o.qs.length) :
    C01.toUnitary ⟨n, l.map C01.Oper.gate⟩ = Lift.toUnitary n l := by
  unfold C01.toUnitary Lift.toUnitary
  simp only
  rw [← List.map_reverse, List.mapM_map]
  have hc : List.mapM (C01.Oper.lifted n ∘ C01.Oper.gate) l.reverse =
      List.mapM (fun o => liftMatrix o.m o.qs n) l.reverse := by
    apply mapM_congr'
    intro o ho
    simp only [Function.comp, C01.Oper.lifted, C01.gateLift, if_pos (hs o (List.mem_reverse.mp ho))]
  rw [hc]
  cases List.mapM (fun o => liftMatrix o.m o.qs n) l.reverse <;> rfl

end ToUnitary

/-! ## from the bit-indexed view back to the entries of the executable matrix -/
section Entries
variable {R : Type} [CommRing R] [StarRing R]

/-- equality up to a phase of the bit-indexed views is entrywise equality up to that phase of the executable
    matrices -/
theorem phaseEq_entries (n : Nat) (U U' : Mat R) (h : PhaseEq (C01.toBV n U) (C01.toBV n U'))
    (hr : U.r = 2 ^ n) (hc : U.c = 2 ^ n) (hr' : U'.r = 2 ^ n) (hc' : U'.c = 2 ^ n) :
    ∃ p : R, IsPhase p ∧ ∀ i j, U.get i j = p * U'.get i j := by
  obtain ⟨p, hp, e⟩ := h
  refine ⟨p, hp, fun i j => ?_⟩
  by_cases hij : i < 2 ^ n ∧ j < 2 ^ n
  · have := congrFun (congrFun e (C01.bvEquiv n ⟨i, hij.1⟩)) (C01.bvEquiv n ⟨j, hij.2⟩)
    simpa [C01.toBV_apply, Matrix.smul_apply] using this
  · rw [Mat.get_out U i j (by rw [hr, hc]; exact hij), Mat.get_out U' i j (by rw [hr', hc']; exact hij), mul_zero]

omit [StarRing R] in
/-- equal bit-indexed views: equal entries -/
theorem eq_entries (n : Nat) (U U' : Mat R) (h : C01.toBV n U = C01.toBV n U')
    (hr : U.r = 2 ^ n) (hc : U.c = 2 ^ n) (hr' : U'.r = 2 ^ n) (hc' : U'.c = 2 ^ n) :
    ∀ i j, U.get i j = U'.get i j := by
  intro i j
  by_cases hij : i < 2 ^ n ∧ j < 2 ^ n
  · have := congrFun (congrFun h (C01.bvEquiv n ⟨i, hij.1⟩)) (C01.bvEquiv n ⟨j, hij.2⟩)
    simpa [C01.toBV_apply] using this
  · rw [Mat.get_out U i j (by rw [hr, hc]; exact hij), Mat.get_out U' i j (by rw [hr', hc']; exact hij)]

omit [StarRing R] in
theorem liftOps_eq_nil (k : Scal R) (ops : List (Operation (Ang R) R)) (l : List (Lift.Op R))
    (h : liftOps k ops = some l) : l = [] ↔ ops = [] := by
  have := liftOps_qs k ops l h
  constructor
  · intro e; subst e; simpa using this.symm
  · intro e; subst e; simpa using this

end Entries

/-- a complex number with `p · conj p = 1` has absolute value 1 -/
theorem norm_eq_one_of_mul_star (p : ℂ) (h : p * star p = 1) : ‖p‖ = 1 := by
  have h1 : ((Complex.normSq p : ℝ) : ℂ) = 1 := by rw [← Complex.mul_conj]; exact h
  have h2 : Complex.normSq p = 1 := by exact_mod_cast h1
  rw [Complex.normSq_eq_norm_sq] at h2
  have h3 : (‖p‖ - 1) * (‖p‖ + 1) = 0 := by ring_nf; rw [h2]; ring
  rcases mul_eq_zero.mp h3 with h4 | h4
  · linarith
  · have := norm_nonneg p; linarith

/-! ## structural invariants of the bundled rule under chaining -/
section Invariants
variable {α R : Type}

theorem u3Production_qs (op : Operation α R) (out : List (Operation α R)) (h : u3Production op = some out) :
    out ≠ [] ∧ ∀ o ∈ out, o.qs = op.qs := by
  cases op with
  | other t qs => simp [u3Production] at h
  | gate g qs =>
    simp only [u3Production] at h
    split at h
    · rename_i th ph la hps
      split at h
      · exact absurd h (by simp)
      · rename_i gs hgs
        simp only [Option.some.injEq] at h
        subst h
        have hlen := (mapM_some _ _ _ hgs).1
        refine ⟨?_, ?_⟩
        · intro he
          have := congrArg List.length he
          simp [hlen] at this
        · intro o ho
          simp only [List.mem_reverse, List.mem_map] at ho
          obtain ⟨x, _, rfl⟩ := ho
          rfl
    · exact absurd h (by simp)

/-- one application of the bundled rule to one operation: the result is non-empty and on the same qubits -/
theorem applyRule_u3_qs (op : Operation α R) (l : List (Operation α R)) (h : applyRule u3Rule op = some l) :
    l ≠ [] ∧ ∀ o ∈ l, o.qs = op.qs := by
  unfold applyRule at h
  cases hp : (u3Rule : Rule (Operation α R)).predicate op with
  | none => rw [hp] at h; exact absurd h (by simp)
  | some b =>
    rw [hp] at h
    cases b with
    | true => exact u3Production_qs op l h
    | false =>
      simp only [Option.some.injEq] at h
      subst h
      simp

/-- one pass of the rule over a list -/
theorem pass_u3_qs : ∀ (ops out : List (Operation α R)), flatMapM (applyRule u3Rule) ops = some out →
    (ops ≠ [] → out ≠ []) ∧ ∀ o ∈ out, ∃ op ∈ ops, o.qs = op.qs := by
  intro ops
  induction ops with
  | nil => intro out h; simp [flatMapM] at h; subst h; simp
  | cons op ops ih =>
    intro out h
    rw [flatMapM_cons] at h
    cases h1 : applyRule u3Rule op with
    | none => rw [h1] at h; exact absurd h (by simp)
    | some l =>
      cases h2 : flatMapM (applyRule u3Rule) ops with
      | none => rw [h1, h2] at h; exact absurd h (by simp)
      | some rest =>
        rw [h1, h2] at h
        simp only [Option.bind_some, Option.some.injEq] at h
        subst h
        obtain ⟨hne, hqs⟩ := applyRule_u3_qs op l h1
        obtain ⟨_, ihq⟩ := ih rest h2
        refine ⟨fun _ => by simp [hne], ?_⟩
        intro o ho
        rcases List.mem_append.mp ho with ho | ho
        · exact ⟨op, by simp, hqs o ho⟩
        · obtain ⟨op', hop', e⟩ := ihq o ho
          exact ⟨op', List.mem_cons_of_mem _ hop', e⟩

/-- **structural invariant of the chained decomposition**: with any list of bundled rules, every operation of
    the output sits on the qubit tuple of some operation of the input, and a non-empty circuit stays non-empty -/
theorem decompose_u3_qs : ∀ (rules : List (Rule (Operation α R))), (∀ r ∈ rules, r = u3Rule) →
    ∀ (ops out : List (Operation α R)), decomposeOperations rules ops = some out →
    (ops ≠ [] → out ≠ []) ∧ ∀ o ∈ out, ∃ op ∈ ops, o.qs = op.qs := by
  intro rules
  induction rules with
  | nil =>
    intro _ ops out h
    rw [decomposeOperations_nil, Option.some.injEq] at h
    subst h
    exact ⟨id, fun o ho => ⟨o, ho, rfl⟩⟩
  | cons r rs ih =>
    intro hr ops out h
    rw [decomposeOperations_cons, hr r (by simp)] at h
    cases hmid : flatMapM (applyRule u3Rule) ops with
    | none => rw [hmid] at h; exact absurd h (by simp)
    | some mid =>
      rw [hmid, Option.bind_some] at h
      obtain ⟨n1, q1⟩ := pass_u3_qs ops mid hmid
      obtain ⟨n2, q2⟩ := ih (fun r' hr' => hr r' (by simp [hr'])) mid out h
      refine ⟨fun hne => n2 (n1 hne), ?_⟩
      intro o ho
      obtain ⟨m, hm, e1⟩ := q2 o ho
      obtain ⟨op, hop, e2⟩ := q1 m hm
      exact ⟨op, hop, e1.trans e2⟩

end Invariants
end OQ.C18.Link
