/- lemmas about the control-flow combinators of the T13 prelude `OQ/Exec/PyT13.lean` (not property theorems) -/
import OQ.Exec.PyT13
namespace OQ.PyT

theorem filterE_ok {α : Type} (p : α → Except Exc Bool) (q : α → Bool) (l : List α) (h : ∀ x ∈ l, p x = .ok (q x)) :
    filterE p l = .ok (l.filter q) := by
  induction l with
  | nil => rfl
  | cons x xs ih =>
    simp only [filterE, h x (by simp), ih (fun y hy => h y (by simp [hy])), List.filter_cons]

theorem mapE_ok {α β : Type} (f : α → Except Exc β) (g : α → β) (l : List α) (h : ∀ x ∈ l, f x = .ok (g x)) :
    mapE f l = .ok (l.map g) := by
  induction l with
  | nil => rfl
  | cons x xs ih => simp only [mapE, h x (by simp), ih (fun y hy => h y (by simp [hy])), List.map_cons]

end OQ.PyT
