/- C09 helper lemmas, part 7: orthogonality of Pauli strings; the Hermiticity test. -/
import OQ.Lemmas.C09_Expand
set_option linter.unusedSectionVars false
namespace OQ.C09
open OQ OQ.Pauli Finset

variable {R : Type} [CommRing R]

/-! ### orthogonality of Pauli strings under the trace -/

/-- `tr(P_a · P_b)` -/
def Tr (k : Scal R) (n : Nat) (a b : Nat → Option P) : R :=
  ∑ i ∈ range (2 ^ n), ∑ j ∈ range (2 ^ n), strEntry k a n i j * strEntry k b n j i

theorem one_qubit_trace (k : Scal R) (hi : k.i * k.i = -1) (o o' : Option P) :
    ∑ α ∈ range 2, ∑ β ∈ range 2, pe k o α β * pe k o' β α = if o = o' then 2 else 0 := by
  have h2 : k.i ^ 2 = -1 := by rw [pow_two, hi]
  rcases o with _ | p <;> rcases o' with _ | p'
  · simp only [Finset.sum_range_succ, Finset.sum_range_zero, pe]; norm_num
  · cases p' <;> simp [Finset.sum_range_succ, pe]
  · cases p <;> simp [Finset.sum_range_succ, pe]
  · cases p <;> cases p' <;> simp [Finset.sum_range_succ, pe] <;> ring_nf <;> (try rw [h2]) <;> norm_num

theorem Tr_succ (k : Scal R) (n : Nat) (a b : Nat → Option P) :
    Tr k (n + 1) a b = Tr k n a b * ∑ α ∈ range 2, ∑ β ∈ range 2, pe k (a n) α β * pe k (b n) β α := by
  unfold Tr
  rw [pow_succ, Nat.mul_comm, sum_range_two_mul]
  simp only [sum_range_two_mul]
  have e1 : ∀ x y : Nat, y < 2 → (2 * x + y) / 2 = x := fun x y hy => by omega
  have e2 : ∀ x y : Nat, y < 2 → (2 * x + y) % 2 = y := fun x y hy => by omega
  simp only [strEntry]
  rw [Finset.sum_mul]
  apply Finset.sum_congr rfl
  intro i _
  rw [Finset.sum_comm, Finset.sum_mul]
  apply Finset.sum_congr rfl
  intro j _
  rw [Finset.mul_sum]
  apply Finset.sum_congr rfl
  intro α hα
  rw [Finset.mul_sum]
  apply Finset.sum_congr rfl
  intro β hβ
  have hα2 := Finset.mem_range.1 hα
  have hβ2 := Finset.mem_range.1 hβ
  rw [e1 i α hα2, e1 j β hβ2, e2 i α hα2, e2 j β hβ2]
  ring

theorem Tr_eq (k : Scal R) (hi : k.i * k.i = -1) (n : Nat) (a b : Nat → Option P) :
    ((∀ q, q < n → a q = b q) → Tr k n a b = 2 ^ n) ∧ (¬ (∀ q, q < n → a q = b q) → Tr k n a b = 0) := by
  induction n with
  | zero => simp [Tr, strEntry]
  | succ n ih =>
    rw [Tr_succ, one_qubit_trace k hi]
    constructor
    · intro h
      rw [ih.1 (fun q hq => h q (by omega)), if_pos (h n (by omega)), pow_succ]
    · intro h
      by_cases h1 : ∀ q, q < n → a q = b q
      · have h2 : a n ≠ b n := by
          intro h2; apply h; intro q hq
          rcases Nat.lt_succ_iff_lt_or_eq.1 hq with h' | h'
          · exact h1 q h'
          · rw [h']; exact h2
        rw [if_neg h2, mul_zero]
      · rw [ih.2 h1, zero_mul]

/-! ### `sameOps` is an equivalence on well-formed operation lists -/

theorem sameOps_refl (a : List (Nat × P)) : sameOps a a = true := by
  simp [sameOps]

theorem sameOps_symm (a b : List (Nat × P)) (ha : (a.map Prod.fst).Nodup) (h : sameOps a b = true) :
    sameOps b a = true := by
  have hp := sameOps_perm a b ha h
  simp only [sameOps, Bool.and_eq_true, beq_iff_eq, List.all_eq_true, List.contains_iff_mem]
  exact ⟨hp.length_eq.symm, fun x hx => by simpa using hp.mem_iff.2 hx⟩

/-- the library's float comparisons, instantiated exactly -/
structure TolExact (tol : Tol R) : Prop where
  negl : ∀ x, tol.negl x = true ↔ x = 0
  close : ∀ a b, tol.close a b = true ↔ a = b
  hashEq : ∀ a b, tol.hashEq a b = true ↔ a = b

theorem toSet_fresh (tol : Tol R) (s acc : List (Term R))
    (h : (acc ++ s).Pairwise (fun a b => sameOps a.ops b.ops = false)) :
    s.foldl (fun S x => if setMem tol x S then S else S ++ [x]) acc = acc ++ s := by
  induction s generalizing acc with
  | nil => simp
  | cons x s ih =>
    simp only [List.foldl_cons]
    have hp := List.pairwise_append.1 h
    have hm : setMem tol x acc = false := by
      unfold setMem
      rw [List.any_eq_false]
      intro y hy
      have := hp.2.2 y hy x (by simp)
      simp [termHashEq, this]
    rw [hm]
    simp only [Bool.false_eq_true, if_false]
    rw [ih (acc ++ [x]) (by simpa using h)]
    simp

theorem toSet_id (tol : Tol R) (s : List (Term R)) (h : s.Pairwise (fun a b => sameOps a.ops b.ops = false)) :
    toSet tol s = s := by
  unfold toSet
  rw [toSet_fresh tol s [] (by simpa using h)]; simp

/-- two distinct members of a simplified well-formed sum have different operation sets, in both orders -/
theorem distinct_ops (s : PSum R) (hwf : SumWF s) (hp : s.Pairwise (fun a b => sameOps a.ops b.ops = false))
    (u x : Term R) (hu : u ∈ s) (hx : x ∈ s) (h : sameOps u.ops x.ops = true) : u = x := by
  by_contra hne
  have hp' : s.Pairwise (fun a b => sameOps a.ops b.ops = false ∧ sameOps b.ops a.ops = false) := by
    refine List.Pairwise.imp_of_mem ?_ hp
    intro a b ha hb hab
    refine ⟨hab, ?_⟩
    by_contra hc
    have hc' : sameOps b.ops a.ops = true := by simpa using hc
    have := sameOps_symm b.ops a.ops (hwf b hb) hc'
    rw [hab] at this; cases this
  have : Std.Symm (fun a b : Term R => sameOps a.ops b.ops = false ∧ sameOps b.ops a.ops = false) :=
    ⟨fun a b h => ⟨h.2, h.1⟩⟩
  have := hp'.forall hu hx hne
  rw [h] at this; cases this.1

section star
variable [StarRing R]

theorem map_hc_simplified (k : Scal R) (hcj : k.cj = star) (tol : Tol R) (hex : TolExact tol) (s : PSum R)
    (h : Simplified tol s) : Simplified tol (s.map (hermitianConjugatedTerm k)) := by
  constructor
  · rw [List.pairwise_map]; exact h.1
  · intro t ht
    obtain ⟨u, hu, rfl⟩ := List.mem_map.1 ht
    have hu0 := h.2 u hu
    simp only [hermitianConjugatedTerm, hcj]
    cases hc : tol.negl (star u.coeff) with
    | false => rfl
    | true =>
      have := (hex.negl _).1 hc
      rw [star_eq_zero] at this
      rw [(hex.negl _).2 this] at hu0; cases hu0

/-- on a simplified sum the Hermitian conjugate just conjugates every coefficient -/
theorem hc_simplified (k : Scal R) (hcj : k.cj = star) (tol : Tol R) (hex : TolExact tol) (s : PSum R)
    (h : Simplified tol s) : hermitianConjugated k tol s = s.map (hermitianConjugatedTerm k) := by
  unfold hermitianConjugated
  rw [foldl_addTerm_id tol (hermitianConjugatedTerm k) s [] (by simpa using map_hc_simplified k hcj tol hex s h)]
  simp

/-- the Hermiticity test on a simplified sum: every coefficient is real -/
theorem isHermitian_iff_real (k : Scal R) (hcj : k.cj = star) (tol : Tol R) (hex : TolExact tol) (s : PSum R)
    (hwf : SumWF s) (h : Simplified tol s) :
    isHermitian k tol s = true ↔ ∀ x ∈ s, star x.coeff = x.coeff := by
  unfold isHermitian sumEq
  rw [hc_simplified k hcj tol hex s h]
  have hp' : (s.map (hermitianConjugatedTerm k)).Pairwise (fun a b => sameOps a.ops b.ops = false) := by
    rw [List.pairwise_map]; exact h.1
  rw [toSet_id tol s h.1, toSet_id tol _ hp']
  simp only [List.length_map, bne_self_eq_false, Bool.false_eq_true, if_false, beq_self_eq_true, Bool.true_and,
    List.all_eq_true]
  constructor
  · intro hall x hx
    have := hall x hx
    unfold setMem at this
    rw [List.any_eq_true] at this
    obtain ⟨y, hy, hyx⟩ := this
    obtain ⟨u, hu, rfl⟩ := List.mem_map.1 hy
    simp only [Bool.and_eq_true, termHashEq, hermitianConjugatedTerm, hcj] at hyx
    have hux : u = x := distinct_ops s hwf h.1 u x hu hx hyx.1.2
    rw [hux] at hyx
    exact (hex.hashEq _ _).1 hyx.1.1
  · intro hreal x hx
    unfold setMem
    rw [List.any_eq_true]
    refine ⟨hermitianConjugatedTerm k x, List.mem_map.2 ⟨x, hx, rfl⟩, ?_⟩
    simp only [Bool.and_eq_true, termHashEq, termEq, hermitianConjugatedTerm, hcj, hreal x hx, sameOps_refl,
      Bool.or_true, and_true]
    exact ⟨(hex.hashEq _ _).2 rfl, (hex.close _ _).2 rfl⟩

end star

theorem trace_pairing (k : Scal R) (n : Nat) (D : PSum R) (b : Nat → Option P) :
    ∑ i ∈ range (2 ^ n), ∑ j ∈ range (2 ^ n), dEntry k n D i j * strEntry k b n j i
      = (D.map (fun t => t.coeff * Tr k n t.opAt b)).sum := by
  induction D with
  | nil => simp [dEntry]
  | cons t D ih =>
    rw [List.map_cons, List.sum_cons, ← ih]
    unfold Tr
    rw [Finset.mul_sum, ← Finset.sum_add_distrib]
    apply Finset.sum_congr rfl
    intro i _
    rw [Finset.mul_sum, ← Finset.sum_add_distrib]
    apply Finset.sum_congr rfl
    intro j _
    rw [dEntry_cons]; ring

theorem agree_sameOps (t u : Term R) (ht : TermWF t) (hu : TermWF u) (n : Nat)
    (hnt : ∀ x ∈ t.ops, x.1 < n) (hnu : ∀ x ∈ u.ops, x.1 < n)
    (h : ∀ q, q < n → t.opAt q = u.opAt q) : sameOps t.ops u.ops = true := by
  obtain ⟨a, c⟩ := t
  obtain ⟨b, c'⟩ := u
  have hab : a ⊆ b := by
    intro x hx
    have h1 := opAt_of_mem a c ht x.1 x.2 hx
    rw [h (x.1) (hnt x hx)] at h1
    exact opAt_some_mem b c' _ _ h1
  have hba : b ⊆ a := by
    intro x hx
    have h1 := opAt_of_mem b c' hu x.1 x.2 hx
    rw [← h (x.1) (hnu x hx)] at h1
    exact opAt_some_mem a c _ _ h1
  have h1 := List.subperm_of_subset (List.Nodup.of_map _ ht) hab
  have h2 := List.subperm_of_subset (List.Nodup.of_map _ hu) hba
  simp only [sameOps, Bool.and_eq_true, beq_iff_eq, List.all_eq_true, List.contains_iff_mem]
  exact ⟨le_antisymm h1.length_le h2.length_le, fun x hx => by simpa using hab hx⟩

theorem sum_single_nodup {α : Type} (s : List α) (hnd : s.Nodup) (u : α) (hu : u ∈ s) (g : α → R)
    (hg : ∀ t ∈ s, t ≠ u → g t = 0) : (s.map g).sum = g u := by
  induction s with
  | nil => cases hu
  | cons a s ih =>
    rw [List.map_cons, List.sum_cons]
    rw [List.nodup_cons] at hnd
    rcases List.mem_cons.1 hu with rfl | hu'
    · have : (s.map g) = s.map (fun _ => (0 : R)) := by
        apply List.map_congr_left
        intro t ht
        exact hg t (by simp [ht]) (fun h => hnd.1 (h ▸ ht))
      rw [this]; simp
    · rw [ih hnd.2 hu' (fun t ht => hg t (by simp [ht]))]
      have : a ≠ u := fun h => hnd.1 (h ▸ hu')
      rw [hg a (by simp) this, zero_add]

theorem simplified_nodup (s : PSum R) (hp : s.Pairwise (fun a b => sameOps a.ops b.ops = false)) : s.Nodup := by
  refine hp.imp ?_
  intro a b hab heq
  rw [heq, sameOps_refl] at hab; cases hab

section star
variable [StarRing R]

theorem diff_dEntry (k : Scal R) (hcj : k.cj = star) (hsi : star k.i = -k.i) (n : Nat) (s : PSum R) (i j : Nat) :
    dEntry k n (s.map (fun t => (⟨t.ops, t.coeff - star t.coeff⟩ : Term R))) i j
      = dEntry k n s i j - star (dEntry k n s j i) := by
  rw [← map_hc_dEntry k hcj hsi n s i j]
  induction s with
  | nil => simp [dEntry]
  | cons t s ih =>
    simp only [List.map_cons, dEntry_cons, ih, hermitianConjugatedTerm, hcj]
    have : Term.opAt (⟨t.ops, t.coeff - star t.coeff⟩ : Term R) = t.opAt := rfl
    have h2 : Term.opAt (⟨t.ops, star t.coeff⟩ : Term R) = t.opAt := rfl
    rw [this, h2]; ring

/-- for a simplified, well-formed sum: all coefficients are real iff the denoted matrix is Hermitian -/
theorem real_iff_hermitian_matrix (k : Scal R) (hi : k.i * k.i = -1) (hcj : k.cj = star) (hsi : star k.i = -k.i)
    (hh : 2 * k.half = 1) (n : Nat) (s : PSum R) (hwf : SumWF s)
    (hp : s.Pairwise (fun a b => sameOps a.ops b.ops = false)) (hn : PSum.nQubits s ≤ n) :
    (∀ x ∈ s, star x.coeff = x.coeff) ↔
      ∀ i j, i < 2 ^ n → j < 2 ^ n → dEntry k n s i j = star (dEntry k n s j i) := by
  have hops := (sum_nQubits_le s n).1 hn
  constructor
  · intro hreal i j _ _
    rw [← map_hc_dEntry k hcj hsi n s i j]
    have : s.map (hermitianConjugatedTerm k) = s := by
      conv_rhs => rw [← List.map_id s]
      apply List.map_congr_left
      intro t ht
      obtain ⟨ops, c⟩ := t
      simp only [hermitianConjugatedTerm, hcj, id]
      rw [hreal _ ht]
    rw [this]
  · intro hH u hu
    have hz : ∀ i ∈ range (2 ^ n), ∀ j ∈ range (2 ^ n),
        dEntry k n (s.map (fun t => (⟨t.ops, t.coeff - star t.coeff⟩ : Term R))) i j * strEntry k u.opAt n j i = 0 := by
      intro i hi' j hj
      rw [diff_dEntry k hcj hsi, hH i j (Finset.mem_range.1 hi') (Finset.mem_range.1 hj), sub_self, zero_mul]
    have h0 : ∑ i ∈ range (2 ^ n), ∑ j ∈ range (2 ^ n),
        dEntry k n (s.map (fun t => (⟨t.ops, t.coeff - star t.coeff⟩ : Term R))) i j * strEntry k u.opAt n j i = 0 :=
      Finset.sum_eq_zero (fun i hi' => Finset.sum_eq_zero (fun j hj => hz i hi' j hj))
    rw [trace_pairing, List.map_map] at h0
    rw [sum_single_nodup s (simplified_nodup s hp) u hu _ (by
      intro t ht hne
      simp only [Function.comp]
      have hna : ¬ ∀ q, q < n → t.opAt q = u.opAt q := by
        intro hag
        exact hne (distinct_ops s hwf hp t u ht hu
          (agree_sameOps t u (hwf t ht) (hwf u hu) n (hops t ht) (hops u hu) hag))
      have : Term.opAt (⟨t.ops, t.coeff - star t.coeff⟩ : Term R) = t.opAt := rfl
      rw [this, (Tr_eq k hi n t.opAt u.opAt).2 hna, mul_zero])] at h0
    simp only [Function.comp] at h0
    have h1 : Term.opAt (⟨u.ops, u.coeff - star u.coeff⟩ : Term R) = u.opAt := rfl
    rw [h1, (Tr_eq k hi n u.opAt u.opAt).1 (fun _ _ => rfl)] at h0
    have h2 : u.coeff - star u.coeff = 0 := by
      calc u.coeff - star u.coeff = (u.coeff - star u.coeff) * 2 ^ n * k.half ^ n := by
            rw [mul_assoc, ← mul_pow, hh, one_pow, mul_one]
        _ = 0 := by rw [h0, zero_mul]
    exact (sub_eq_zero.1 h2).symm

end star

theorem tolExact_exact [DecidableEq R] : TolExact (Tol.exact : Tol R) :=
  ⟨fun x => by simp [Tol.exact], fun a b => by simp [Tol.exact], fun a b => by simp [Tol.exact]⟩

/-- `get_pauliop_from_matrix` on a 1×1 matrix: `dec2bin(0, 0) = [0]` has length 1 ≠ 2·0, `decode` raises -/
theorem fromMatrix_1x1 [DecidableEq R] (k : Scal R) (tol : Tol R) (A : Mat R) (hr : A.r = 1) (hc : A.c = 1) :
    getPauliopFromMatrix k tol A = .error .decodeLength := by
  have hlog : Nat.log2 1 = 0 := by decide
  have hany : (List.range (4 ^ 0)).any (fun i => (dec2bin i (2 * 0)).length != 2 * 0) = true := by decide
  unfold getPauliopFromMatrix
  rw [hr, hc]
  simp only [hlog]
  rw [if_neg (by decide), if_neg (by simp), if_neg (by simp), if_pos hany]

end OQ.C09
