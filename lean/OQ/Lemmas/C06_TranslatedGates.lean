/- C06 — translation tie of the gate CLASSES: embedding of the model's gates into the REGENERATED classes
   (`OQ.Generated.TranslatedGates`, harness/translate_cls.py) and helper lemmas.  The tie theorems are in
   OQ/Props/C06_TranslatedGates.lean (read its header first). -/
import OQ.Generated.TranslatedGates
import OQ.Lemmas.C06
namespace OQ.C06
open OQ.Generated
namespace TG

/-- the generated gate type at the model's parameters -/
abbrev TGate := TranslatedGates.Gate Param Factory Rat

/-- the model's gate tree as an object of the generated classes -/
def emb : Gate → TGate
  | .mf nm fac ps nq herm => .MatrixFactoryGate nm fac ps (nq : Int) herm
  | .ctrl g n => .ControlledGate (emb g) (n : Int)
  | .dag g => .Dagger (emb g)
  | .exp g => .Exponential (emb g)
  | .pow g e => .Power (emb g) e

/-- INSTANTIATION of the externals: the model's `get_free_symbols` and `sub_symbols` (argument order of the Python function) -/
def ext : TranslatedGates.Ext Param String SymMap := ⟨getFreeSymbols, fun p m => subSymbols m p⟩

/-- exception classes of the generated code as the model's error values -/
def errOf : TranslatedGates.Err → Err
  | .ValueError => .value
  | .NotImplementedError => .notimpl

def toRes {α : Type} : Except TranslatedGates.Err α → Res α
  | .ok a => .ok a
  | .error e => .err (errOf e)

/-- well-formedness: every control count in the tree is ≥ 1 (what `ControlledGate.__post_init__` guarantees of every object) -/
def CtlPos : Gate → Prop
  | .mf _ _ _ _ _ => True
  | .ctrl g n => 1 ≤ n ∧ CtlPos g
  | .dag g => CtlPos g
  | .exp g => CtlPos g
  | .pow g _ => CtlPos g

@[simp] theorem toRes_ok {α} (a : α) : toRes (.ok a : Except TranslatedGates.Err α) = .ok a := rfl
@[simp] theorem toRes_error {α} (e : TranslatedGates.Err) : toRes (.error e : Except TranslatedGates.Err α) = .err (errOf e) := rfl
@[simp] theorem bind_ok {ε α β} (a : α) (f : α → Except ε β) : Except.bind (.ok a) f = f a := rfl
@[simp] theorem bind_error {ε α β} (e : ε) (f : α → Except ε β) : Except.bind (.error e : Except ε α) f = .error e := rfl
theorem toRes_bind {α β} (r : Except TranslatedGates.Err α) (f : α → Except TranslatedGates.Err β) :
    toRes (Except.bind r f) = Res.bind (toRes r) (fun a => toRes (f a)) := by
  cases r <;> rfl

theorem mk_ControlledGate_ok (t : TGate) (z : Int) (hz : 1 ≤ z) :
    TranslatedGates.mk_ControlledGate t z = .ok (.ControlledGate t z) := by
  have : ¬ (z < 1) := by omega
  simp [TranslatedGates.mk_ControlledGate, this]

theorem mk_ControlledGate_pos (t : TGate) (k : Nat) (hk : 1 ≤ k) :
    TranslatedGates.mk_ControlledGate t (k : Int) = .ok (.ControlledGate t (k : Int)) := by
  have : ¬ ((k : Int) < 1) := by omega
  simp [TranslatedGates.mk_ControlledGate, this]

end TG
end OQ.C06
