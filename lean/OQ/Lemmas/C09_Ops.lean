/- C09 helper lemmas, part 4: Hermitian conjugate, qubit reversal, expectation values. -/
import OQ.Lemmas.C09_Algebra
set_option linter.unusedSectionVars false
namespace OQ.C09
open OQ OQ.Pauli

variable {R : Type} [CommRing R]

/-! ### Hermitian conjugate -/
section star
variable [StarRing R]

theorem pe_star (k : Scal R) (hsi : star k.i = -k.i) (o : Option P) (a b : Nat) (ha : a < 2) (hb : b < 2) :
    pe k o b a = star (pe k o a b) := by
  rcases o with _ | p
  · interval_cases a <;> interval_cases b <;> simp [pe]
  · cases p <;> interval_cases a <;> interval_cases b <;> simp [pe, hsi]

theorem strEntry_star (k : Scal R) (hsi : star k.i = -k.i) (at_ : Nat → Option P) (n i j : Nat) :
    strEntry k at_ n j i = star (strEntry k at_ n i j) := by
  induction n generalizing i j with
  | zero => simp [strEntry]
  | succ n ih =>
    simp only [strEntry, star_mul']
    rw [ih, pe_star k hsi _ _ _ (Nat.mod_lt _ (by decide)) (Nat.mod_lt _ (by decide))]

theorem hcTerm_wf (k : Scal R) (t : Term R) (h : TermWF t) : TermWF (hermitianConjugatedTerm k t) := h

theorem map_hc_dEntry (k : Scal R) (hcj : k.cj = star) (hsi : star k.i = -k.i) (n : Nat) (s : PSum R) (i j : Nat) :
    dEntry k n (s.map (hermitianConjugatedTerm k)) i j = star (dEntry k n s j i) := by
  induction s with
  | nil => simp [dEntry]
  | cons t s ih =>
    rw [List.map_cons, dEntry_cons, dEntry_cons, ih, star_add, star_mul']
    simp only [hermitianConjugatedTerm, hcj]
    rw [strEntry_star k hsi _ n j i]
    rfl

theorem hc_spec (k : Scal R) (hcj : k.cj = star) (hsi : star k.i = -k.i) (tol : Tol R)
    (hnegl : ∀ x, tol.negl x = true → x = 0) (n : Nat) (s : PSum R) (hs : SumWF s) :
    SumWF (hermitianConjugated k tol s) ∧
    ∀ i j, dEntry k n (hermitianConjugated k tol s) i j = star (dEntry k n s j i) := by
  obtain ⟨h1, h2⟩ := foldl_addTerm_spec k n tol hnegl (hermitianConjugatedTerm k) s []
    (fun _ h => by cases h) (fun t ht => hcTerm_wf k t (hs t ht))
  refine ⟨h1, fun i j => ?_⟩
  unfold hermitianConjugated
  rw [h2, dEntry_nil, zero_add, map_hc_dEntry k hcj hsi]

theorem hc_ops (k : Scal R) (tol : Tol R) (s : PSum R) (t : Term R) (ht : t ∈ hermitianConjugated k tol s) :
    ∃ u ∈ s, t.ops = u.ops := by
  rcases foldl_addTerm_ops tol (hermitianConjugatedTerm k) s [] t ht with ⟨u, hu, _⟩ | ⟨a, ha, hops⟩
  · cases hu
  · exact ⟨a, ha, hops⟩

end star

/-! ### qubit reversal -/

/-- the bit-reversal permutation of `n`-bit indices -/
def bitrev : Nat → Nat → Nat
  | 0, _ => 0
  | n + 1, i => (i % 2) * 2 ^ n + bitrev n (i / 2)

theorem bitrev_lt (n i : Nat) : bitrev n i < 2 ^ n := by
  induction n generalizing i with
  | zero => simp [bitrev]
  | succ n ih =>
    have := ih (i / 2)
    have h2 : i % 2 < 2 := Nat.mod_lt _ (by decide)
    simp only [bitrev, pow_succ]
    nlinarith

/-- most-significant-bit-first form of `strEntry` -/
theorem strEntry_msb (k : Scal R) (at_ : Nat → Option P) (n i j : Nat) :
    strEntry k at_ (n + 1) i j =
      pe k (at_ 0) (i / 2 ^ n % 2) (j / 2 ^ n % 2) * strEntry k (fun q => at_ (q + 1)) n (i % 2 ^ n) (j % 2 ^ n) := by
  induction n generalizing i j with
  | zero => simp [strEntry]
  | succ n ih =>
    rw [strEntry, ih]
    simp only [strEntry]
    have e1 : ∀ x : Nat, x / 2 / 2 ^ n = x / 2 ^ (n + 1) := fun x => by
      rw [Nat.div_div_eq_div_mul, pow_succ, Nat.mul_comm]
    have e2 : ∀ x : Nat, x / 2 % 2 ^ n = x % 2 ^ (n + 1) / 2 := fun x => by
      rw [pow_succ, Nat.mul_comm, Nat.mod_mul]
      have : x % 2 < 2 := Nat.mod_lt _ (by decide)
      omega
    have e3 : ∀ x : Nat, x % 2 ^ (n + 1) % 2 = x % 2 := fun x => by
      rw [pow_succ, Nat.mul_comm, Nat.mod_mul]; omega
    rw [e1, e1, e2, e2, e3, e3]
    ring

theorem strEntry_reverse (k : Scal R) (n : Nat) (a b : Nat → Option P) (hab : ∀ q, q < n → a q = b (n - 1 - q))
    (i j : Nat) (hi : i < 2 ^ n) (hj : j < 2 ^ n) :
    strEntry k a n i j = strEntry k b n (bitrev n i) (bitrev n j) := by
  induction n generalizing a b i j with
  | zero => rfl
  | succ n ih =>
    rw [strEntry_msb k b n]
    simp only [strEntry, bitrev]
    have hbi := bitrev_lt n (i / 2)
    have hbj := bitrev_lt n (j / 2)
    have hi2 : i % 2 < 2 := Nat.mod_lt _ (by decide)
    have hj2 : j % 2 < 2 := Nat.mod_lt _ (by decide)
    have hpos : 0 < 2 ^ n := Nat.pos_of_ne_zero (by positivity)
    have d1 : ∀ x y : Nat, x < 2 → y < 2 ^ n → (x * 2 ^ n + y) / 2 ^ n % 2 = x := fun x y hx hy => by
      rw [Nat.mul_comm, Nat.mul_add_div hpos, Nat.div_eq_of_lt hy, Nat.add_zero, Nat.mod_eq_of_lt hx]
    have d2 : ∀ x y : Nat, y < 2 ^ n → (x * 2 ^ n + y) % 2 ^ n = y := fun x y hy => by
      rw [Nat.mul_comm, Nat.mul_add_mod, Nat.mod_eq_of_lt hy]
    rw [d1 _ _ hi2 hbi, d1 _ _ hj2 hbj, d2 _ _ hbi, d2 _ _ hbj]
    rw [ih (a := a) (b := fun q => b (q + 1)) (fun q hq => by
        rw [hab q (by omega)]; congr 1; omega) (i / 2) (j / 2)
      (by rw [pow_succ] at hi; omega) (by rw [pow_succ] at hj; omega)]
    rw [hab n (by omega)]
    simp only [Nat.add_sub_cancel, Nat.sub_self]
    ring

theorem bitrev_msb (n i : Nat) (hi : i < 2 ^ (n + 1)) :
    bitrev (n + 1) i = 2 * bitrev n (i % 2 ^ n) + i / 2 ^ n := by
  induction n generalizing i with
  | zero =>
    simp only [bitrev, pow_zero, Nat.div_one]
    simp at hi; omega
  | succ n ih =>
    rw [bitrev, ih (i / 2) (by rw [pow_succ] at hi; omega)]
    simp only [bitrev]
    have e1 : i / 2 / 2 ^ n = i / 2 ^ (n + 1) := by
      rw [Nat.div_div_eq_div_mul, pow_succ, Nat.mul_comm]
    have e2 : i / 2 % 2 ^ n = i % 2 ^ (n + 1) / 2 := by
      rw [pow_succ, Nat.mul_comm, Nat.mod_mul]
      have : i % 2 < 2 := Nat.mod_lt _ (by decide)
      omega
    have e3 : i % 2 ^ (n + 1) % 2 = i % 2 := by
      rw [pow_succ, Nat.mul_comm, Nat.mod_mul]; omega
    rw [e1, e2, e3, pow_succ]
    ring

theorem bitrev_invol (n i : Nat) (hi : i < 2 ^ n) : bitrev n (bitrev n i) = i := by
  induction n generalizing i with
  | zero => simp only [bitrev]; simp at hi; omega
  | succ n ih =>
    have hpos : 0 < 2 ^ n := Nat.pos_of_ne_zero (by positivity)
    have hlt : i % 2 ^ n < 2 ^ n := Nat.mod_lt _ hpos
    have hq : i / 2 ^ n < 2 := by
      rw [Nat.div_lt_iff_lt_mul hpos, Nat.mul_comm, ← pow_succ]; exact hi
    rw [bitrev_msb n i hi]
    simp only [bitrev]
    have e1 : (2 * bitrev n (i % 2 ^ n) + i / 2 ^ n) % 2 = i / 2 ^ n := by
      generalize i / 2 ^ n = x at hq ⊢; generalize bitrev n (i % 2 ^ n) = y; omega
    have e2 : (2 * bitrev n (i % 2 ^ n) + i / 2 ^ n) / 2 = bitrev n (i % 2 ^ n) := by
      generalize i / 2 ^ n = x at hq ⊢; generalize bitrev n (i % 2 ^ n) = y; omega
    rw [e1, e2, ih _ hlt]
    exact Nat.div_add_mod' i (2 ^ n)

theorem reverseTerm_wf (n : Nat) (t : Term R) (h : TermWF t) (hn : ∀ x ∈ t.ops, x.1 < n) :
    TermWF (reverseTerm n t) := by
  unfold TermWF reverseTerm at *
  simp only [List.map_map]
  have : (Prod.fst ∘ fun qp : Nat × P => (n - 1 - qp.1, qp.2)) = (fun q => n - 1 - q) ∘ Prod.fst := rfl
  rw [this, ← List.map_map]
  apply List.Nodup.map_on _ h
  intro a ha b hb hab
  obtain ⟨x, hx, rfl⟩ := List.mem_map.1 ha
  obtain ⟨y, hy, rfl⟩ := List.mem_map.1 hb
  have := hn x hx; have := hn y hy
  omega

theorem reverseTerm_opAt (n : Nat) (t : Term R) (h : TermWF t) (hn : ∀ x ∈ t.ops, x.1 < n) (q : Nat) (hq : q < n) :
    (reverseTerm n t).opAt q = t.opAt (n - 1 - q) := by
  have hwf' := reverseTerm_wf n t h hn
  obtain ⟨ops, c⟩ := t
  cases hc : Term.opAt (⟨ops, c⟩ : Term R) (n - 1 - q) with
  | none =>
    apply opAt_none
    intro y hy hyq
    obtain ⟨x, hx, rfl⟩ := List.mem_map.1 hy
    have hx1 := hn x hx
    have := opAt_of_mem ops c h x.1 x.2 hx
    simp only at hyq
    rw [show x.1 = n - 1 - q by omega, hc] at this
    cases this
  | some p =>
    apply opAt_of_mem _ c hwf'
    have hm := opAt_some_mem ops c _ p hc
    exact List.mem_map.2 ⟨(n - 1 - q, p), hm, by simp only [Prod.mk.injEq, and_true]; omega⟩

theorem reverseTerm_ops_lt (n : Nat) (t : Term R) (hn : ∀ x ∈ t.ops, x.1 < n) :
    ∀ y ∈ (reverseTerm n t).ops, y.1 < n := by
  intro y hy
  obtain ⟨x, hx, rfl⟩ := List.mem_map.1 hy
  have := hn x hx
  simp only; omega

theorem map_reverse_dEntry (k : Scal R) (n : Nat) (s : PSum R) (hs : SumWF s)
    (hn : ∀ t ∈ s, ∀ x ∈ t.ops, x.1 < n) (i j : Nat) (hi : i < 2 ^ n) (hj : j < 2 ^ n) :
    dEntry k n (s.map (reverseTerm n)) i j = dEntry k n s (bitrev n i) (bitrev n j) := by
  induction s with
  | nil => simp [dEntry]
  | cons t s ih =>
    rw [List.map_cons, dEntry_cons, dEntry_cons,
      ih (fun u hu => hs u (by simp [hu])) (fun u hu => hn u (by simp [hu]))]
    rw [strEntry_reverse k n (reverseTerm n t).opAt t.opAt
      (fun q hq => reverseTerm_opAt n t (hs t (by simp)) (hn t (by simp)) q hq) i j hi hj]
    rfl

/-- `reverse_qubit_order` succeeds for `n ≥ width`; the result is well formed, fits in `n` qubits, and
    denotes the bit-reversal conjugate of the matrix -/
theorem reverse_spec (k : Scal R) (tol : Tol R) (hnegl : ∀ x, tol.negl x = true → x = 0) (n : Nat)
    (s : PSum R) (hs : SumWF s) (hn : PSum.nQubits s ≤ n) :
    ∃ s', reverseQubitOrder tol s n = some s' ∧ SumWF s' ∧ PSum.nQubits s' ≤ n ∧
      ∀ i j, i < 2 ^ n → j < 2 ^ n → dEntry k n s' i j = dEntry k n s (bitrev n i) (bitrev n j) := by
  have hops := (sum_nQubits_le s n).1 hn
  unfold reverseQubitOrder
  rw [if_neg (by omega)]
  obtain ⟨h1, h2⟩ := foldl_addTerm_spec k n tol hnegl (reverseTerm n) s []
    (fun _ h => by cases h) (fun t ht => reverseTerm_wf n t (hs t ht) (hops t ht))
  refine ⟨_, rfl, h1, ?_, ?_⟩
  · rw [sum_nQubits_le]
    intro t ht
    rcases foldl_addTerm_ops tol (reverseTerm n) s [] t ht with ⟨u, hu, _⟩ | ⟨a, ha, hopsa⟩
    · cases hu
    · rw [hopsa]; exact reverseTerm_ops_lt n a (hops a ha)
  · intro i j hi hj
    rw [h2, dEntry_nil, zero_add, map_reverse_dEntry k n s hs hops i j hi hj]

theorem reverse_none (tol : Tol R) (s : PSum R) (n : Nat) :
    reverseQubitOrder tol s n = none ↔ n < PSum.nQubits s := by
  unfold reverseQubitOrder
  by_cases h : n < PSum.nQubits s <;> simp [h]

/-- bit `q` of the reversed index is bit `n-1-q` of the index -/
theorem bitrev_bit (n i q : Nat) (hq : q < n) : bitrev n i / 2 ^ q % 2 = i / 2 ^ (n - 1 - q) % 2 := by
  induction n generalizing i q with
  | zero => omega
  | succ n ih =>
    simp only [bitrev]
    have hb := bitrev_lt n (i / 2)
    by_cases hqn : q = n
    · subst hqn
      have hpos : 0 < 2 ^ q := Nat.pos_of_ne_zero (by positivity)
      rw [Nat.mul_comm, Nat.mul_add_div hpos, Nat.div_eq_of_lt hb]
      simp
    · have hq' : q < n := by omega
      have hpos : 0 < 2 ^ q := Nat.pos_of_ne_zero (by positivity)
      have hsplit : i % 2 * 2 ^ n = 2 ^ q * (i % 2 * 2 ^ (n - q)) := by
        rw [show n = q + (n - q) by omega, pow_add]
        rw [show q + (n - q) - q = n - q by omega]; ring
      rw [hsplit, Nat.mul_add_div hpos]
      have heven : (i % 2 * 2 ^ (n - q)) % 2 = 0 := by
        rw [show n - q = (n - q - 1) + 1 by omega, pow_succ, ← Nat.mul_assoc, Nat.mul_mod_left]
      rw [Nat.add_mod, heven, zero_add, Nat.mod_mod, ih (i / 2) q hq']
      rw [Nat.div_div_eq_div_mul, ← pow_succ']
      congr 3; omega

/-- explicit product form: qubit `q` is the tensor factor read off bit `n-1-q` (qubit 0 = most
    significant bit = leftmost Kronecker factor) -/
theorem strEntry_prod (k : Scal R) (at_ : Nat → Option P) (n i j : Nat) :
    strEntry k at_ n i j
      = ((List.range n).map (fun q => pe k (at_ q) (i / 2 ^ (n - 1 - q) % 2) (j / 2 ^ (n - 1 - q) % 2))).prod := by
  induction n generalizing i j with
  | zero => simp [strEntry]
  | succ n ih =>
    rw [strEntry, ih, List.range_succ, List.map_append, List.prod_append]
    simp only [List.map_cons, List.map_nil, List.prod_cons, List.prod_nil, mul_one, Nat.add_sub_cancel,
      Nat.sub_self, pow_zero, Nat.div_one]
    congr 1
    congr 1
    apply List.map_congr_left
    intro q hq
    have hq' := List.mem_range.1 hq
    have e : ∀ x : Nat, x / 2 / 2 ^ (n - 1 - q) = x / 2 ^ (n - q) := fun x => by
      rw [Nat.div_div_eq_div_mul, ← pow_succ']; congr 2; omega
    rw [e, e]

end OQ.C09
