/-
  C02 — ℚ(ζ₈) (`OQ.Cyc8`, the ring the driver computes in) is a commutative ⋆-ring whose `+`, `*`, `-`,
  `conj` ARE the executable operations, and `Scal.cyc8` satisfies the laws of the constants.  Hence every
  generic theorem of Props/C02 applies literally to the matrices the driver prints.
-/
import OQ.Lemmas.C02
import Mathlib.Algebra.Order.Field.Rat
import Mathlib.Tactic.Ring
import Mathlib.Tactic.NormNum

namespace OQ.C02
open OQ

theorem cyc_ext {x y : Cyc8} (ha : x.a = y.a) (hb : x.b = y.b) (hc : x.c = y.c) (hd : x.d = y.d) : x = y := by
  cases x; cases y; simp_all

section
variable (x y : Cyc8)
@[simp] theorem cyc_zero_a : (0 : Cyc8).a = 0 := rfl
@[simp] theorem cyc_zero_b : (0 : Cyc8).b = 0 := rfl
@[simp] theorem cyc_zero_c : (0 : Cyc8).c = 0 := rfl
@[simp] theorem cyc_zero_d : (0 : Cyc8).d = 0 := rfl
@[simp] theorem cyc_one_a : (1 : Cyc8).a = 1 := rfl
@[simp] theorem cyc_one_b : (1 : Cyc8).b = 0 := rfl
@[simp] theorem cyc_one_c : (1 : Cyc8).c = 0 := rfl
@[simp] theorem cyc_one_d : (1 : Cyc8).d = 0 := rfl
@[simp] theorem cyc_zero_a' : (@OfNat.ofNat Cyc8 0 Zero.toOfNat0).a = 0 := rfl
@[simp] theorem cyc_zero_b' : (@OfNat.ofNat Cyc8 0 Zero.toOfNat0).b = 0 := rfl
@[simp] theorem cyc_zero_c' : (@OfNat.ofNat Cyc8 0 Zero.toOfNat0).c = 0 := rfl
@[simp] theorem cyc_zero_d' : (@OfNat.ofNat Cyc8 0 Zero.toOfNat0).d = 0 := rfl
@[simp] theorem cyc_one_a' : (@OfNat.ofNat Cyc8 1 One.toOfNat1).a = 1 := rfl
@[simp] theorem cyc_one_b' : (@OfNat.ofNat Cyc8 1 One.toOfNat1).b = 0 := rfl
@[simp] theorem cyc_one_c' : (@OfNat.ofNat Cyc8 1 One.toOfNat1).c = 0 := rfl
@[simp] theorem cyc_one_d' : (@OfNat.ofNat Cyc8 1 One.toOfNat1).d = 0 := rfl
@[simp] theorem cyc_natCast_a (n : Nat) : (n : Cyc8).a = n := rfl
@[simp] theorem cyc_natCast_b (n : Nat) : (n : Cyc8).b = 0 := rfl
@[simp] theorem cyc_natCast_c (n : Nat) : (n : Cyc8).c = 0 := rfl
@[simp] theorem cyc_natCast_d (n : Nat) : (n : Cyc8).d = 0 := rfl
@[simp] theorem cyc_add_a : (x + y).a = x.a + y.a := rfl
@[simp] theorem cyc_add_b : (x + y).b = x.b + y.b := rfl
@[simp] theorem cyc_add_c : (x + y).c = x.c + y.c := rfl
@[simp] theorem cyc_add_d : (x + y).d = x.d + y.d := rfl
@[simp] theorem cyc_neg_a : (-x).a = -x.a := rfl
@[simp] theorem cyc_neg_b : (-x).b = -x.b := rfl
@[simp] theorem cyc_neg_c : (-x).c = -x.c := rfl
@[simp] theorem cyc_neg_d : (-x).d = -x.d := rfl
@[simp] theorem cyc_sub_a : (x - y).a = x.a - y.a := rfl
@[simp] theorem cyc_sub_b : (x - y).b = x.b - y.b := rfl
@[simp] theorem cyc_sub_c : (x - y).c = x.c - y.c := rfl
@[simp] theorem cyc_sub_d : (x - y).d = x.d - y.d := rfl
@[simp] theorem cyc_mul_a : (x * y).a = x.a*y.a - x.b*y.d - x.c*y.c - x.d*y.b := rfl
@[simp] theorem cyc_mul_b : (x * y).b = x.a*y.b + x.b*y.a - x.c*y.d - x.d*y.c := rfl
@[simp] theorem cyc_mul_c : (x * y).c = x.a*y.c + x.b*y.b + x.c*y.a - x.d*y.d := rfl
@[simp] theorem cyc_mul_d : (x * y).d = x.a*y.d + x.b*y.c + x.c*y.b + x.d*y.a := rfl
@[simp] theorem cyc_conj_a : (conj x).a = x.a := rfl
@[simp] theorem cyc_conj_b : (conj x).b = -x.d := rfl
@[simp] theorem cyc_conj_c : (conj x).c = -x.c := rfl
@[simp] theorem cyc_conj_d : (conj x).d = -x.b := rfl
@[simp] theorem cyc_ofRat_a (q : Rat) : (Cyc8.ofRat q).a = q := rfl
@[simp] theorem cyc_ofRat_b (q : Rat) : (Cyc8.ofRat q).b = 0 := rfl
@[simp] theorem cyc_ofRat_c (q : Rat) : (Cyc8.ofRat q).c = 0 := rfl
@[simp] theorem cyc_ofRat_d (q : Rat) : (Cyc8.ofRat q).d = 0 := rfl
end

/-- the commutative-ring structure of ℚ(ζ₈) whose operations are the executable ones -/
instance instCommRingCyc8 : CommRing Cyc8 where
  add_assoc x y z := by apply cyc_ext <;> simp <;> ring
  zero_add x := by apply cyc_ext <;> simp
  add_zero x := by apply cyc_ext <;> simp
  add_comm x y := by apply cyc_ext <;> simp <;> ring
  mul_assoc x y z := by apply cyc_ext <;> simp <;> ring
  one_mul x := by apply cyc_ext <;> simp
  mul_one x := by apply cyc_ext <;> simp
  left_distrib x y z := by apply cyc_ext <;> simp <;> ring
  right_distrib x y z := by apply cyc_ext <;> simp <;> ring
  mul_comm x y := by apply cyc_ext <;> simp <;> ring
  zero_mul x := by apply cyc_ext <;> simp
  mul_zero x := by apply cyc_ext <;> simp
  neg_add_cancel x := by apply cyc_ext <;> simp
  sub_eq_add_neg x y := by apply cyc_ext <;> simp <;> ring
  nsmul := nsmulRec
  zsmul := zsmulRec
  natCast n := Cyc8.ofRat n
  natCast_zero := by apply cyc_ext <;> simp
  natCast_succ n := by apply cyc_ext <;> simp
  intCast n := Cyc8.ofRat n
  intCast_ofNat n := by apply cyc_ext <;> simp
  intCast_negSucc n := by apply cyc_ext <;> simp [Int.negSucc_eq]

/-- complex conjugation ζ ↦ ζ⁻¹ as the ⋆-structure; `star` IS the executable `conj` -/
instance instStarRingCyc8 : StarRing Cyc8 where
  star := conj
  star_involutive x := by apply cyc_ext <;> simp
  star_mul x y := by apply cyc_ext <;> simp <;> ring
  star_add x y := by apply cyc_ext <;> simp <;> ring

theorem cyc_conj_eq_star (x : Cyc8) : conj x = star x := rfl

/-- the constants the driver uses satisfy every assumed law -/
theorem cyc8_laws : Laws Scal.cyc8 where
  ii := by decide +kernel
  rr := by decide +kernel
  zz := by decide +kernel
  hh := by decide +kernel
  cj := rfl
  si := by decide +kernel
  sr := by decide +kernel
  sz := by decide +kernel

theorem cyc8_two_ne_zero : (2 : Cyc8) ≠ 0 := by decide +kernel

/-- every RATIONAL point of the unit circle (the angle points the harness generates) is a valid angle -/
theorem cyc8_valid_of_rat (c s : Rat) (h : c * c + s * s = 1) : Valid (⟨Cyc8.ofRat c, Cyc8.ofRat s⟩ : Ang Cyc8) where
  circle := by apply cyc_ext <;> simp [h]
  sc := by rw [← cyc_conj_eq_star]; apply cyc_ext <;> simp
  ss := by rw [← cyc_conj_eq_star]; apply cyc_ext <;> simp

end OQ.C02
