/-
  C03 tier B — linear independence of Pauli strings (trace orthogonality tr(P_a P_b) = 2ⁿ δ_ab) and what it gives for `==`:
  on simplified operators, with exact coefficient comparison, the library's `__eq__` (length test, then set equality through
  `__hash__` and `PauliTerm.__eq__`) coincides with equality of the denoted matrices, whatever the term order.
-/
import OQ.Lemmas.C03
import Mathlib.LinearAlgebra.Matrix.Trace
import Mathlib.Algebra.BigOperators.Ring.Finset
import Mathlib.Data.List.Perm.Subperm
import Mathlib.Algebra.BigOperators.Group.List.Basic

set_option linter.unusedSectionVars false
set_option linter.unusedSimpArgs false

namespace OQ.C03
open OQ.Pauli Matrix

variable {R : Type} [CommRing R]

/-! ### trace orthogonality of Pauli strings -/

theorem trace_tens (f : Nat → Matrix (Fin 2) (Fin 2) R) (n : Nat) :
    Matrix.trace (tens f n) = ∏ q ∈ Finset.range n, Matrix.trace (f q) := by
  have h : ∀ n, ∑ i ∈ Finset.range (2 ^ n), tensE f n i i = ∏ q ∈ Finset.range n, Matrix.trace (f q) := by
    intro n
    induction n with
    | zero => simp [tensE]
    | succ n ih =>
      rw [pow_succ, mul_comm, sum_range_two_mul, Finset.prod_range_succ, ← ih]
      simp only [tensE]
      have h1 : ∀ a, 2 * a / 2 = a := fun a => by omega
      have h2 : ∀ a, (2 * a + 1) / 2 = a := fun a => by omega
      simp only [h1, h2, b2_two_mul, b2_two_mul_add_one, Matrix.trace, Matrix.diag, Fin.sum_univ_two, Finset.sum_mul]
      apply Finset.sum_congr rfl
      intro a _; ring
  rw [← h n]
  simp only [Matrix.trace, Matrix.diag, tens_apply]
  exact Fin.sum_univ_eq_sum_range (fun i => tensE f n i i) (2 ^ n)

theorem trace_σ_mul (k : Scal R) (hi : k.i * k.i = -1) (a b : Option P) :
    Matrix.trace (σ k a * σ k b) = if a = b then 2 else 0 := by
  rcases a with _ | (_ | _ | _) <;> rcases b with _ | (_ | _ | _) <;>
    simp [σ_none, σ_X, σ_Y, σ_Z, Matrix.trace, Matrix.mul_apply, Fin.sum_univ_two, hi, one_add_one_eq_two]

theorem trace_strings (k : Scal R) (hi : k.i * k.i = -1) (n : Nat) (F G : Nat → Option P) :
    Matrix.trace (tens (fun q => σ k (F q)) n * tens (fun q => σ k (G q)) n)
      = if ∀ q < n, F q = G q then 2 ^ n else 0 := by
  rw [tens_mul, trace_tens]
  simp only [trace_σ_mul k hi]
  rw [Finset.prod_ite_zero]
  simp only [Finset.mem_range, Finset.prod_const, Finset.card_range]


/-! ### coefficient extraction = linear independence -/

/-- the term carries the string `G` on the register -/
def Agree (n : Nat) (t : Term R) (G : Nat → Option P) : Prop := ∀ q < n, lookup t.ops q = G q

instance (n : Nat) (t : Term R) (G : Nat → Option P) : Decidable (Agree n t G) := by unfold Agree; infer_instance

/-- the total coefficient of the Pauli string `G` in the sum -/
def coef (n : Nat) (s : PSum R) (G : Nat → Option P) : R := (s.map (fun t => if Agree n t G then t.coeff else 0)).sum

theorem coef_nil (n : Nat) (G : Nat → Option P) : coef n ([] : PSum R) G = 0 := rfl
theorem coef_cons (n : Nat) (t : Term R) (s : PSum R) (G : Nat → Option P) :
    coef n (t :: s) G = (if Agree n t G then t.coeff else 0) + coef n s G := by simp [coef]

theorem trace_sden_mul (k : Scal R) (hi : k.i * k.i = -1) (n : Nat) (s : PSum R) (G : Nat → Option P) :
    Matrix.trace (sden k n s * tens (fun q => σ k (G q)) n) = 2 ^ n * coef n s G := by
  induction s with
  | nil => simp [sden_nil, coef_nil]
  | cons t s ih =>
    rw [sden_cons, Matrix.add_mul, Matrix.trace_add, ih, coef_cons, mul_add]
    congr 1
    unfold tden
    rw [Matrix.smul_mul, Matrix.trace_smul, trace_strings k hi n]
    by_cases h : Agree n t G
    · have h' : ∀ q < n, lookup t.ops q = G q := h
      rw [if_pos h', if_pos h, smul_eq_mul, mul_comm]
    · have h' : ¬ ∀ q < n, lookup t.ops q = G q := h
      rw [if_neg h', if_neg h, smul_zero, mul_zero]

theorem two_pow_cancel (h2 : ∀ x : R, 2 * x = 0 → x = 0) (n : Nat) (x : R) (h : 2 ^ n * x = 0) : x = 0 := by
  induction n with
  | zero => simpa using h
  | succ n ih =>
    apply ih
    apply h2
    rw [← mul_assoc, ← pow_succ']; exact h

/-- Pauli strings are linearly independent: equal matrices have equal coefficients on every string -/
theorem coef_eq_of_sden_eq (k : Scal R) (hi : k.i * k.i = -1) (h2 : ∀ x : R, 2 * x = 0 → x = 0) (n : Nat)
    (s1 s2 : PSum R) (h : sden k n s1 = sden k n s2) (G : Nat → Option P) : coef n s1 G = coef n s2 G := by
  have h1 := trace_sden_mul k hi n s1 G
  rw [h, trace_sden_mul k hi n s2 G] at h1
  have : 2 ^ n * (coef n s1 G - coef n s2 G) = 0 := by rw [mul_sub, ← h1, sub_self]
  exact sub_eq_zero.mp (two_pow_cancel h2 n _ this)


/-! ### dict invariants -/

/-- a Python dict has distinct keys -/
def OpsWF (ops : List (Nat × P)) : Prop := (ops.map (·.1)).Nodup

theorem lookup_of_mem_wf {ops : List (Nat × P)} (h : OpsWF ops) {p : Nat × P} (hp : p ∈ ops) : lookup ops p.1 = some p.2 := by
  induction ops with
  | nil => simp at hp
  | cons p' ops ih =>
    unfold OpsWF at h
    rw [List.map_cons, List.nodup_cons] at h
    rw [lookup_cons]
    rcases List.mem_cons.mp hp with rfl | hp'
    · simp
    · have hne : p'.1 ≠ p.1 := by
        intro heq
        exact h.1 (heq ▸ List.mem_map_of_mem (f := (·.1)) hp')
      simp only [hne, if_false]
      exact ih h.2 hp'

theorem opsEq_of_lookup {a b : List (Nat × P)} (ha : OpsWF a) (hb : OpsWF b) (h : ∀ q, lookup a q = lookup b q) :
    opsEq a b = true := by
  unfold opsEq
  rw [Bool.and_eq_true, List.all_eq_true, List.all_eq_true]
  constructor
  · intro p hp
    rw [← h, lookup_of_mem_wf ha hp]; simp
  · intro p hp
    rw [h, lookup_of_mem_wf hb hp]; simp

theorem opsEq_refl {a : List (Nat × P)} (ha : OpsWF a) : opsEq a a = true := opsEq_of_lookup ha ha (fun _ => rfl)

theorem opsEq_comm (a b : List (Nat × P)) : opsEq a b = opsEq b a := by
  unfold opsEq; rw [Bool.and_comm]

theorem lookup_none_of_fits {n : Nat} {t : Term R} (ht : TermFits n t) {q : Nat} (hq : n ≤ q) : lookup t.ops q = none := by
  cases h : lookup t.ops q with
  | none => rfl
  | some a => have := ht _ (lookup_mem h); simp at this; omega

theorem agree_iff_opsEq {n : Nat} {t u : Term R} (ht : TermFits n t) (hu : TermFits n u) (wt : OpsWF t.ops) (wu : OpsWF u.ops) :
    Agree n t (lookup u.ops) ↔ opsEq t.ops u.ops = true := by
  constructor
  · intro h
    apply opsEq_of_lookup wt wu
    intro q
    by_cases hq : q < n
    · exact h q hq
    · rw [lookup_none_of_fits ht (by omega), lookup_none_of_fits hu (by omega)]
  · intro h q _
    exact opsEq_lookup h q

/-- what `simplify` produces: dict invariants, fits the register, no (exactly) zero coefficient, pairwise different strings -/
def Simplified (n : Nat) (s : PSum R) : Prop :=
  (∀ t ∈ s, OpsWF t.ops ∧ TermFits n t ∧ t.coeff ≠ 0) ∧ s.Pairwise (fun t u => opsEq t.ops u.ops = false)

theorem coef_congr (n : Nat) (s : PSum R) (G G' : Nat → Option P) (h : ∀ q < n, G q = G' q) : coef n s G = coef n s G' := by
  unfold coef
  congr 1
  apply List.map_congr_left
  intro t _
  have : Agree n t G ↔ Agree n t G' := by
    constructor
    · intro ha q hq; rw [ha q hq, h q hq]
    · intro ha q hq; rw [ha q hq, h q hq]
  by_cases hA : Agree n t G
  · rw [if_pos hA, if_pos (this.mp hA)]
  · rw [if_neg hA, if_neg (fun h' => hA (this.mpr h'))]

theorem coef_zero_of_none (n : Nat) (s : PSum R) (G : Nat → Option P) (h : ∀ t ∈ s, ¬ Agree n t G) : coef n s G = 0 := by
  induction s with
  | nil => rfl
  | cons t s ih =>
    rw [coef_cons, if_neg (h t List.mem_cons_self), ih (fun t' ht' => h t' (List.mem_cons_of_mem _ ht')), add_zero]

theorem coef_of_mem (n : Nat) (s : PSum R) (hs : Simplified n s) (t : Term R) (ht : t ∈ s) :
    coef n s (lookup t.ops) = t.coeff := by
  induction s with
  | nil => simp at ht
  | cons u s ih =>
    obtain ⟨hall, hpw⟩ := hs
    rw [List.pairwise_cons] at hpw
    have hu := hall u List.mem_cons_self
    have hs' : Simplified n s := ⟨fun t' ht' => hall t' (List.mem_cons_of_mem _ ht'), hpw.2⟩
    rw [coef_cons]
    rcases List.mem_cons.mp ht with rfl | ht'
    · have hA : Agree n t (lookup t.ops) := fun _ _ => rfl
      rw [if_pos hA, coef_zero_of_none, add_zero]
      intro v hv hAv
      have hv' := hall v (List.mem_cons_of_mem _ hv)
      have := (agree_iff_opsEq hv'.2.1 hu.2.1 hv'.1 hu.1).mp hAv
      rw [opsEq_comm, hpw.1 v hv] at this
      exact absurd this (by simp)
    · have ht2 := hall t (List.mem_cons_of_mem _ ht')
      have hnA : ¬ Agree n u (lookup t.ops) := by
        intro hA
        have := (agree_iff_opsEq hu.2.1 ht2.2.1 hu.1 ht2.1).mp hA
        rw [hpw.1 t ht'] at this
        exact absurd this (by simp)
      rw [if_neg hnA, zero_add, ih hs' ht']

/-- in a simplified sum, a string with non-zero total coefficient is carried by a term with exactly that coefficient -/
theorem exists_of_coef_ne_zero (n : Nat) (s : PSum R) (hs : Simplified n s) (G : Nat → Option P) (h : coef n s G ≠ 0) :
    ∃ e ∈ s, Agree n e G ∧ e.coeff = coef n s G := by
  by_cases hex : ∃ e ∈ s, Agree n e G
  · obtain ⟨e, he, hA⟩ := hex
    refine ⟨e, he, hA, ?_⟩
    rw [← coef_of_mem n s hs e he]
    exact coef_congr n s _ _ hA
  · exact absurd (coef_zero_of_none n s G (fun t ht hA => hex ⟨t, ht, hA⟩)) h


/-! ### `==` on simplified operators with exact coefficient comparison -/

section eq
variable {K : Type} [DecidableEq K] (close : R → R → Bool) (hclose : ∀ a b, close a b = true ↔ a = b) (hk : R → K)
include hclose

theorem eqTerm_exact (t u : Term R) :
    eqTerm close t u = true ↔ t.coeff = u.coeff ∧ (t.coeff = 0 ∨ opsEq t.ops u.ops = true) := by
  unfold eqTerm
  rw [Bool.and_eq_true, Bool.or_eq_true, Bool.and_eq_true, hclose, hclose, hclose]
  constructor
  · rintro ⟨h1, h2 | h2⟩
    · exact ⟨h1, Or.inl h2.1⟩
    · exact ⟨h1, Or.inr h2⟩
  · rintro ⟨h1, h2 | h2⟩
    · exact ⟨h1, Or.inl ⟨h2, h1 ▸ h2⟩⟩
    · exact ⟨h1, Or.inr h2⟩

theorem sameEntry_exact (e t : Term R) :
    sameEntry close hk e t = true ↔ e.coeff = t.coeff ∧ opsEq e.ops t.ops = true := by
  unfold sameEntry
  rw [Bool.and_eq_true, Bool.and_eq_true, eqTerm_exact close hclose, decide_eq_true_eq]
  constructor
  · rintro ⟨⟨_, h2⟩, h3, _⟩; exact ⟨h3, h2⟩
  · rintro ⟨h1, h2⟩; exact ⟨⟨by rw [h1], h2⟩, h1, Or.inr h2⟩

theorem mkSet_simplified (acc l : PSum R) (h : (acc ++ l).Pairwise (fun t u => opsEq t.ops u.ops = false)) :
    l.foldl (fun acc t => if acc.any (fun e => sameEntry close hk e t) then acc else acc ++ [t]) acc = acc ++ l := by
  induction l generalizing acc with
  | nil => simp
  | cons t l ih =>
    rw [List.foldl_cons]
    have hno : acc.any (fun e => sameEntry close hk e t) = false := by
      rw [List.any_eq_false]
      intro e he hse
      have := ((sameEntry_exact close hclose hk e t).mp hse).2
      rw [List.pairwise_append] at h
      rw [h.2.2 e he t List.mem_cons_self] at this
      exact absurd this (by simp)
    simp only [hno, Bool.false_eq_true, if_false]
    rw [ih (acc ++ [t]) (by simpa using h)]
    simp

theorem eqSum_exact (s1 s2 : PSum R) (h1 : s1.Pairwise (fun t u => opsEq t.ops u.ops = false))
    (h2 : s2.Pairwise (fun t u => opsEq t.ops u.ops = false)) :
    eqSum close hk s1 s2 = true ↔
      s1.length = s2.length ∧ ∀ t ∈ s1, ∃ e ∈ s2, e.coeff = t.coeff ∧ opsEq e.ops t.ops = true := by
  unfold eqSum mkSet
  rw [mkSet_simplified close hclose hk [] s1 (by simpa using h1), mkSet_simplified close hclose hk [] s2 (by simpa using h2)]
  simp only [List.nil_append]
  by_cases hl : s1.length = s2.length
  · simp only [hl, bne_self_eq_false, Bool.false_eq_true, if_false, beq_self_eq_true, Bool.true_and, true_and,
      List.all_eq_true, List.any_eq_true, sameEntry_exact close hclose hk]
  · have : (s1.length != s2.length) = true := by simpa using hl
    simp [this, hl]

end eq

/-! ### from `==` to matrices and back -/

/-- the string of a term on the register, as data -/
def keyOf (n : Nat) (t : Term R) : List (Option P) := (List.range n).map (lookup t.ops)

theorem keyOf_eq_iff (n : Nat) (t u : Term R) : keyOf n t = keyOf n u ↔ Agree n t (lookup u.ops) := by
  unfold keyOf Agree
  constructor
  · intro h q hq
    have := List.map_inj_left.mp h q (List.mem_range.mpr hq)
    exact this
  · intro h
    apply List.map_congr_left
    intro q hq
    exact h q (List.mem_range.mp hq)

/-- denotation from the (string, coefficient) pair -/
def pairDen (k : Scal R) (n : Nat) (p : List (Option P) × R) : Matrix (Fin (2 ^ n)) (Fin (2 ^ n)) R :=
  p.2 • tens (fun q => σ k (p.1.getD q none)) n

theorem pairDen_keyOf (k : Scal R) (n : Nat) (t : Term R) : pairDen k n (keyOf n t, t.coeff) = tden k n t := by
  unfold pairDen tden
  congr 1
  apply tens_congr
  intro q hq
  simp [keyOf, List.getD, hq]

theorem sden_eq_pairs (k : Scal R) (n : Nat) (s : PSum R) :
    sden k n s = ((s.map (fun t => (keyOf n t, t.coeff))).map (pairDen k n)).sum := by
  unfold sden
  rw [List.map_map]
  congr 1
  apply List.map_congr_left
  intro t _
  exact (pairDen_keyOf k n t).symm

theorem simplified_keys_nodup (n : Nat) (s : PSum R) (hs : Simplified n s) : (s.map (keyOf n)).Nodup := by
  obtain ⟨hall, hpw⟩ := hs
  rw [List.nodup_iff_pairwise_ne, List.pairwise_map]
  apply List.Pairwise.imp_of_mem _ hpw
  intro t u ht hu hne heq
  have hA := (keyOf_eq_iff n t u).mp heq
  have := (agree_iff_opsEq (hall t ht).2.1 (hall u hu).2.1 (hall t ht).1 (hall u hu).1).mp hA
  rw [hne] at this
  exact absurd this (by simp)

theorem sden_eq_of_match (k : Scal R) (n : Nat) (s1 s2 : PSum R) (h1 : Simplified n s1) (_h2 : Simplified n s2)
    (hlen : s1.length = s2.length)
    (hm : ∀ t ∈ s1, ∃ e ∈ s2, e.coeff = t.coeff ∧ opsEq e.ops t.ops = true) : sden k n s1 = sden k n s2 := by
  classical
  rw [sden_eq_pairs, sden_eq_pairs]
  apply List.Perm.sum_eq
  apply List.Perm.map
  have hnd : (s1.map (fun t => (keyOf n t, t.coeff))).Nodup := by
    have := simplified_keys_nodup n s1 h1
    apply List.Nodup.of_map Prod.fst
    rw [List.map_map]
    exact this
  have hsub : (s1.map (fun t => (keyOf n t, t.coeff))) ⊆ (s2.map (fun t => (keyOf n t, t.coeff))) := by
    intro p hp
    rw [List.mem_map] at hp ⊢
    obtain ⟨t, ht, rfl⟩ := hp
    obtain ⟨e, he, hc, ho⟩ := hm t ht
    refine ⟨e, he, ?_⟩
    have hA : Agree n e (lookup t.ops) := fun q _ => opsEq_lookup ho q
    rw [(keyOf_eq_iff n e t).mpr hA, hc]
  exact (List.subperm_of_subset hnd hsub).perm_of_length_le (by simp [hlen])


theorem match_of_sden_eq (k : Scal R) (hi : k.i * k.i = -1) (h2 : ∀ x : R, 2 * x = 0 → x = 0) (n : Nat) (s1 s2 : PSum R)
    (hs1 : Simplified n s1) (hs2 : Simplified n s2) (h : sden k n s1 = sden k n s2) :
    ∀ t ∈ s1, ∃ e ∈ s2, e.coeff = t.coeff ∧ opsEq e.ops t.ops = true := by
  intro t ht
  have hc1 := coef_of_mem n s1 hs1 t ht
  have hc := coef_eq_of_sden_eq k hi h2 n s1 s2 h (lookup t.ops)
  have hne : coef n s2 (lookup t.ops) ≠ 0 := by rw [← hc, hc1]; exact (hs1.1 t ht).2.2
  obtain ⟨e, he, hA, hce⟩ := exists_of_coef_ne_zero n s2 hs2 _ hne
  refine ⟨e, he, by rw [hce, ← hc, hc1], ?_⟩
  exact (agree_iff_opsEq (hs2.1 e he).2.1 (hs1.1 t ht).2.1 (hs2.1 e he).1 (hs1.1 t ht).1).mp hA

theorem length_le_of_match (n : Nat) (s1 s2 : PSum R) (hs1 : Simplified n s1)
    (hm : ∀ t ∈ s1, ∃ e ∈ s2, e.coeff = t.coeff ∧ opsEq e.ops t.ops = true) : s1.length ≤ s2.length := by
  classical
  have hsub : s1.map (keyOf n) ⊆ s2.map (keyOf n) := by
    intro κ hκ
    rw [List.mem_map] at hκ ⊢
    obtain ⟨t, ht, rfl⟩ := hκ
    obtain ⟨e, he, _, ho⟩ := hm t ht
    exact ⟨e, he, (keyOf_eq_iff n e t).mpr (fun q _ => opsEq_lookup ho q)⟩
  have := (List.subperm_of_subset (simplified_keys_nodup n s1 hs1) hsub).length_le
  simpa using this

/-- on simplified sums, with exact coefficient comparison, `PauliSum.__eq__` decides equality of the denoted matrices -/
theorem eqSum_iff_sden {K : Type} [DecidableEq K] (k : Scal R) (hi : k.i * k.i = -1) (h2 : ∀ x : R, 2 * x = 0 → x = 0)
    (close : R → R → Bool) (hclose : ∀ a b, close a b = true ↔ a = b) (hk : R → K) (n : Nat) (s1 s2 : PSum R)
    (hs1 : Simplified n s1) (hs2 : Simplified n s2) :
    eqSum close hk s1 s2 = true ↔ sden k n s1 = sden k n s2 := by
  rw [eqSum_exact close hclose hk s1 s2 hs1.2 hs2.2]
  constructor
  · rintro ⟨hlen, hm⟩
    exact sden_eq_of_match k n s1 s2 hs1 hs2 hlen hm
  · intro h
    have hm12 := match_of_sden_eq k hi h2 n s1 s2 hs1 hs2 h
    have hm21 := match_of_sden_eq k hi h2 n s2 s1 hs2 hs1 h.symm
    exact ⟨le_antisymm (length_le_of_match n s1 s2 hs1 hm12) (length_le_of_match n s2 s1 hs2 hm21), hm12⟩

theorem coef_single (n : Nat) (t : Term R) (G : Nat → Option P) : coef n [t] G = if Agree n t G then t.coeff else 0 := by
  simp [coef]

/-- `PauliTerm.__eq__` with exact coefficient comparison decides equality of the denoted matrices -/
theorem eqTerm_iff_tden (k : Scal R) (hi : k.i * k.i = -1) (h2 : ∀ x : R, 2 * x = 0 → x = 0)
    (close : R → R → Bool) (hclose : ∀ a b, close a b = true ↔ a = b) (n : Nat) (t u : Term R)
    (ht : TermFits n t) (hu : TermFits n u) (wt : OpsWF t.ops) (wu : OpsWF u.ops) :
    eqTerm close t u = true ↔ tden k n t = tden k n u := by
  rw [eqTerm_exact close hclose]
  constructor
  · rintro ⟨hc, h0 | ho⟩
    · rw [tden_zero_coeff k n t h0, tden_zero_coeff k n u (hc ▸ h0)]
    · unfold tden
      rw [hc]
      congr 2
      funext q
      rw [opsEq_lookup ho q]
  · intro h
    have hs : sden k n [t] = sden k n [u] := by rw [sden_singleton, sden_singleton, h]
    have e1 := coef_eq_of_sden_eq k hi h2 n [t] [u] hs (lookup t.ops)
    have e2 := coef_eq_of_sden_eq k hi h2 n [t] [u] hs (lookup u.ops)
    have htt : Agree n t (lookup t.ops) := fun _ _ => rfl
    have huu : Agree n u (lookup u.ops) := fun _ _ => rfl
    rw [coef_single, coef_single, if_pos htt] at e1
    rw [coef_single, coef_single, if_pos huu] at e2
    by_cases hA : Agree n u (lookup t.ops)
    · rw [if_pos hA] at e1
      refine ⟨e1, Or.inr ?_⟩
      rw [opsEq_comm]
      exact (agree_iff_opsEq hu ht wu wt).mp hA
    · rw [if_neg hA] at e1
      have hA' : ¬ Agree n t (lookup u.ops) := by
        intro h'
        apply hA
        have := (agree_iff_opsEq ht hu wt wu).mp h'
        rw [opsEq_comm] at this
        exact (agree_iff_opsEq hu ht wu wt).mpr this
      rw [if_neg hA'] at e2
      exact ⟨by rw [e1, ← e2], Or.inl e1⟩


/-! ### a sum against a single term / number -/

theorem sden_ne_zero_of_simplified (k : Scal R) (hi : k.i * k.i = -1) (h2 : ∀ x : R, 2 * x = 0 → x = 0) (n : Nat) (s : PSum R)
    (hs : Simplified n s) (hne : s ≠ []) : sden k n s ≠ 0 := by
  intro h0
  obtain ⟨t, ht⟩ := List.exists_mem_of_ne_nil s hne
  have hc := coef_eq_of_sden_eq k hi h2 n s [] (by rw [h0, sden_nil]) (lookup t.ops)
  rw [coef_of_mem n s hs t ht, coef_nil] at hc
  exact (hs.1 t ht).2.2 hc

theorem coeff_zero_of_tden_zero (k : Scal R) (hi : k.i * k.i = -1) (h2 : ∀ x : R, 2 * x = 0 → x = 0) (n : Nat) (t : Term R)
    (h : tden k n t = 0) : t.coeff = 0 := by
  have hc := coef_eq_of_sden_eq k hi h2 n [t] [] (by rw [sden_singleton, h, sden_nil]) (lookup t.ops)
  have htt : Agree n t (lookup t.ops) := fun _ _ => rfl
  rw [coef_single, if_pos htt, coef_nil] at hc
  exact hc

/-- `self == PauliSum([t])` for a simplified `self`: right except that the empty sum never equals a zero term -/
theorem eqSum_single_iff {K : Type} [DecidableEq K] (k : Scal R) (hi : k.i * k.i = -1) (h2 : ∀ x : R, 2 * x = 0 → x = 0)
    (close : R → R → Bool) (hclose : ∀ a b, close a b = true ↔ a = b) (hk : R → K) (n : Nat) (s : PSum R) (t : Term R)
    (hs : Simplified n s) (ht : TermFits n t) (wt : OpsWF t.ops) :
    eqSum close hk s [t] = true ↔ sden k n s = tden k n t ∧ ¬ (s = [] ∧ t.coeff = 0) := by
  by_cases hc : t.coeff = 0
  · have hfalse : eqSum close hk s [t] = false := by
      rw [Bool.eq_false_iff]
      intro htrue
      rw [eqSum_exact close hclose hk s [t] hs.2 (by simp)] at htrue
      obtain ⟨hlen, hm⟩ := htrue
      cases s with
      | nil => simp at hlen
      | cons x s' =>
        obtain ⟨e, he, hce, _⟩ := hm x List.mem_cons_self
        simp only [List.mem_singleton] at he
        subst he
        exact (hs.1 x List.mem_cons_self).2.2 (hce ▸ hc)
    rw [hfalse]
    simp only [Bool.false_eq_true, false_iff]
    rintro ⟨hden, hnot⟩
    rw [tden_zero_coeff k n t hc] at hden
    by_cases hne : s = []
    · exact hnot ⟨hne, hc⟩
    · exact sden_ne_zero_of_simplified k hi h2 n s hs hne hden
  · have hst : Simplified n [t] := ⟨by intro t' ht'; simp only [List.mem_singleton] at ht'; subst ht'; exact ⟨wt, ht, hc⟩, by simp⟩
    rw [eqSum_iff_sden k hi h2 close hclose hk n s [t] hs hst, sden_singleton]
    constructor
    · intro h; exact ⟨h, fun h' => hc h'.2⟩
    · intro h; exact h.1

/-- `PauliSum.__eq__(PauliTerm)` decides equality of the matrices -/
theorem eqSumTerm_iff {K : Type} [DecidableEq K] (k : Scal R) (hi : k.i * k.i = -1) (h2 : ∀ x : R, 2 * x = 0 → x = 0)
    (close : R → R → Bool) (hclose : ∀ a b, close a b = true ↔ a = b) (hk : R → K) (n : Nat) (s : PSum R) (t : Term R)
    (hs : Simplified n s) (ht : TermFits n t) (wt : OpsWF t.ops) :
    eqSumTerm close hk s t = true ↔ sden k n s = tden k n t := by
  unfold eqSumTerm
  cases s with
  | nil =>
    simp only [List.length_nil, beq_self_eq_true, if_true, hclose, sden_nil]
    constructor
    · intro h; rw [tden_zero_coeff k n t h]
    · intro h; exact coeff_zero_of_tden_zero k hi h2 n t h.symm
  | cons x s' =>
    have : ((x :: s').length == 0) = false := by simp
    simp only [this, Bool.false_eq_true, if_false]
    rw [eqSum_single_iff k hi h2 close hclose hk n (x :: s') t hs ht wt]
    constructor
    · intro h; exact h.1
    · intro h; exact ⟨h, by simp⟩


/-! ### the arithmetic keeps the dict invariant, and `simplify` produces simplified sums -/

theorem lookup_none_iff (ops : List (Nat × P)) (q : Nat) : lookup ops q = none ↔ q ∉ ops.map (·.1) := by
  induction ops with
  | nil => simp [lookup_nil]
  | cons p ops ih =>
    rw [lookup_cons, List.map_cons, List.mem_cons]
    by_cases hp : p.1 = q
    · simp [hp]
    · simp only [hp, if_false, ih]
      constructor
      · rintro h (h' | h')
        · exact hp h'.symm
        · exact h h'
      · intro h h'; exact h (Or.inr h')

theorem opsSet_keys (ops : List (Nat × P)) (idx : Nat) (op : P) : (opsSet ops idx op).map (·.1) = ops.map (·.1) := by
  unfold opsSet
  rw [List.map_map]
  apply List.map_congr_left
  intro p _
  by_cases h : p.1 = idx
  · simp [h]
  · simp [h]

theorem mulByOp_wf (k : Scal R) (t : Term R) (op : P) (idx : Nat) (wt : OpsWF t.ops) : OpsWF (mulByOp k t op idx).ops := by
  unfold mulByOp
  cases hl : lookup t.ops idx with
  | none =>
    simp only [OpsWF, List.map_append, List.map_cons, List.map_nil]
    rw [List.nodup_append]
    refine ⟨wt, List.nodup_singleton _, ?_⟩
    intro a ha b hb hab
    simp only [List.mem_singleton] at hb
    rw [hab, hb] at ha
    exact (lookup_none_iff t.ops idx).mp hl ha
  | some a =>
    simp only
    split
    · simp only [OpsWF, opsErase]
      exact List.Nodup.sublist (List.Sublist.map _ List.filter_sublist) wt
    · simp only [OpsWF, opsSet_keys]
      exact wt

theorem mulTermOrd_wf (k : Scal R) (order : List Nat) (t u : Term R) (wt : OpsWF t.ops) : OpsWF (mulTermOrd k order t u).ops := by
  rw [mulTermOrd_eq]
  simp only
  suffices h : ∀ r : Term R, OpsWF r.ops → OpsWF (order.foldl (mulStep k u) r).ops from h _ wt
  induction order with
  | nil => intro r hr; exact hr
  | cons q ks ih =>
    intro r hr
    rw [List.foldl_cons]
    apply ih
    unfold mulStep
    cases lookup u.ops q with
    | none => exact hr
    | some op => exact mulByOp_wf k r op q hr

theorem mulTerm_wf (k : Scal R) (t u : Term R) (wt : OpsWF t.ops) : OpsWF (mulTerm k t u).ops := mulTermOrd_wf k _ t u wt

/-- invariant of the OrderedDict `like_terms` -/
def GroupsInv (n : Nat) (gs : List (Group R)) : Prop :=
  (∀ g ∈ gs, OpsWF g.first.ops ∧ TermFits n g.first) ∧ gs.Pairwise (fun g h => opsEq g.first.ops h.first.ops = false)

theorem insertGroup_firsts (gs : List (Group R)) (t : Term R) :
    ∀ g ∈ insertGroup gs t, g.first = t ∨ ∃ g' ∈ gs, g.first = g'.first := by
  induction gs with
  | nil =>
    intro g hg
    simp only [insertGroup, List.mem_singleton] at hg
    subst hg; exact Or.inl rfl
  | cons g0 gs ih =>
    intro g hg
    unfold insertGroup at hg
    split at hg
    · rcases List.mem_cons.mp hg with rfl | hg'
      · exact Or.inr ⟨g0, List.mem_cons_self, rfl⟩
      · exact Or.inr ⟨g, List.mem_cons_of_mem _ hg', rfl⟩
    · rcases List.mem_cons.mp hg with rfl | hg'
      · exact Or.inr ⟨g, List.mem_cons_self, rfl⟩
      · rcases ih g hg' with h | ⟨g', hg'', h⟩
        · exact Or.inl h
        · exact Or.inr ⟨g', List.mem_cons_of_mem _ hg'', h⟩

theorem insertGroup_inv (n : Nat) (gs : List (Group R)) (t : Term R) (wt : OpsWF t.ops) (ht : TermFits n t)
    (h : GroupsInv n gs) : GroupsInv n (insertGroup gs t) := by
  induction gs with
  | nil =>
    refine ⟨?_, by simp [insertGroup]⟩
    intro g hg
    simp only [insertGroup, List.mem_singleton] at hg
    subst hg; exact ⟨wt, ht⟩
  | cons g0 gs ih =>
    obtain ⟨hall, hpw⟩ := h
    rw [List.pairwise_cons] at hpw
    unfold insertGroup
    split
    · refine ⟨?_, ?_⟩
      · intro g hg
        rcases List.mem_cons.mp hg with rfl | hg'
        · exact hall g0 List.mem_cons_self
        · exact hall g (List.mem_cons_of_mem _ hg')
      · rw [List.pairwise_cons]
        exact ⟨hpw.1, hpw.2⟩
    · rename_i hne
      have ih' := ih ⟨fun g hg => hall g (List.mem_cons_of_mem _ hg), hpw.2⟩
      refine ⟨?_, ?_⟩
      · intro g hg
        rcases List.mem_cons.mp hg with rfl | hg'
        · exact hall _ List.mem_cons_self
        · exact ih'.1 g hg'
      · rw [List.pairwise_cons]
        refine ⟨?_, ih'.2⟩
        intro g hg
        rcases insertGroup_firsts gs t g hg with h | ⟨g', hg', h⟩
        · rw [h]; simpa using hne
        · rw [h]; exact hpw.1 g' hg'

theorem likeTerms_inv (n : Nat) (s : PSum R) (hs : ∀ t ∈ s, OpsWF t.ops ∧ TermFits n t) : GroupsInv n (likeTerms s) := by
  unfold likeTerms
  suffices h : ∀ gs, GroupsInv n gs → GroupsInv n (s.foldl insertGroup gs) from h [] ⟨fun _ h => by simp at h, by simp⟩
  induction s with
  | nil => intro gs h; exact h
  | cons t s ih =>
    intro gs h
    rw [List.foldl_cons]
    exact ih (fun t' ht' => hs t' (List.mem_cons_of_mem _ ht')) _
      (insertGroup_inv n gs t (hs t List.mem_cons_self).1 (hs t List.mem_cons_self).2 h)

theorem simplifyGroup_mem (negl : R → Bool) (g : Group R) (t : Term R) (ht : t ∈ simplifyGroup negl g) :
    t.ops = g.first.ops ∧ negl t.coeff = false := by
  unfold simplifyGroup at ht
  split at ht
  · rename_i h
    simp only [List.mem_singleton] at ht; subst ht
    rw [Bool.and_eq_true] at h
    exact ⟨rfl, by simpa using h.2⟩
  · dsimp only at ht
    split at ht
    · rename_i h
      simp only [List.mem_singleton] at ht; subst ht
      exact ⟨rfl, by simpa using h⟩
    · simp at ht

/-- the result of `simplify` is simplified: distinct strings, no term the test calls negligible (in particular none with
    coefficient 0, if the test calls 0 negligible) -/
theorem simplify_simplified (n : Nat) (negl : R → Bool) (h0 : negl 0 = true) (s : PSum R)
    (hs : ∀ t ∈ s, OpsWF t.ops ∧ TermFits n t) : Simplified n (simplify negl s) := by
  obtain ⟨hall, hpw⟩ := likeTerms_inv n s hs
  unfold simplify
  refine ⟨?_, ?_⟩
  · intro t ht
    rw [List.mem_flatMap] at ht
    obtain ⟨g, hg, ht⟩ := ht
    obtain ⟨hops, hn⟩ := simplifyGroup_mem negl g t ht
    refine ⟨hops ▸ (hall g hg).1, fun p hp => (hall g hg).2 p (hops ▸ hp), ?_⟩
    intro hc
    rw [hc, h0] at hn
    exact absurd hn (by simp)
  · rw [List.pairwise_flatMap]
    refine ⟨?_, ?_⟩
    · intro g _
      unfold simplifyGroup
      split
      · simp
      · dsimp only; split <;> simp
    · apply List.Pairwise.imp _ hpw
      intro g h hgh x hx y hy
      rw [(simplifyGroup_mem negl g x hx).1, (simplifyGroup_mem negl h y hy).1]
      exact hgh


/-- operands of `==` as the property speaks of them: numbers, well-formed terms, simplified sums -/
def ValSimplified (n : Nat) : Val R → Prop
  | .num _ => True
  | .term t => OpsWF t.ops ∧ TermFits n t
  | .sum s => Simplified n s

theorem constTerm_wf (x : R) : OpsWF (constTerm x).ops := by simp [OpsWF, constTerm]

end OQ.C03
