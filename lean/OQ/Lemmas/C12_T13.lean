/- helper lemmas for the T13 translation ties of the `Wavefunction` class (`OQ/Props/C12_TranslatedWf.lean`; not property theorems):
   the LAWS of the numpy / sympy externals (`Laws`), the combinators of the prelude `OQ/Exec/PyT13.lean`, `bin(n).count("1")`. -/
import OQ.Lemmas.C12
import OQ.Lemmas.Py
import OQ.Lemmas.PyT13
import OQ.Model.C12_T13Run
namespace OQ.C12.T13
open OQ.Generated OQ.PyT OQ.C12
open OQ.Py (bin binDigits binDigitsFuel digitChar bin_ofNat)

/-- THE ASSUMED LAWS of the externals of the translated `Wavefunction` class, in the model's terms (the model's own assumptions about
    numpy 2 / sympy 1.9, see `TRUSTED` in harness/props/c12.py), for the tolerance test `close`:
    * `complex(e)` raises TypeError exactly on a symbolic entry; `isinstance(·, np.ndarray)` / `isinstance(·, Matrix)` tell the two
      kinds of storage apart; `free_symbols` (the attribute of a Matrix – an ndarray has none –, or `getattr` with default `set()` on
      either) is truthy iff some entry is symbolic;
    * `np.sum(np.abs(x) ** 2)` of a symbol-free object is the sum of the squared magnitudes, `np.abs(x) ** 2` entrywise;
      `np.isclose(·, 1.0)` is `close`; `· > 1.0` is `1 < ·`; iterating an object yields its entries; `np.array(numbers, complex128)` of
      numeric entries is a 1-d array of them;
    * `len` is the number of entries; `np.array(arg, dtype=complex)` raises TypeError iff an entry is symbolic and otherwise makes a
      NEW array of the argument's shape; `Matrix(arg)` makes a Matrix of the entries;
    * `.copy()` is an equal NEW object; `x[...] = old` makes an NDARRAY `x` equal to `old` (nothing is assumed for a Matrix, where sympy raises IndexError); `x[key] = val` is `rawSet` (numpy / sympy
      write semantics; a write that raises has written nothing) for an int key with a scalar value and for a bare slice key;
    * `.subs(map)` substitutes simultaneously in every entry of a Matrix; handing a vector to the constructor again keeps its shape;
    * `np.array(M, dtype=complex128).flatten()` raises TypeError iff an entry is symbolic (else: the 1-d array of the entries) and
      `np.array(M, dtype=object).flatten()` of a symbolic Matrix keeps the entries; `_get_ordering(n)` raises TypeError for `n = 0` and is `ordering n`
      otherwise; `np.asarray(x)[ordering]` gathers (IndexError if an index is out of range). -/
structure Laws (close : Rat → Bool) (ext : MExt) : Prop where
  complex_of : ∀ e, ext.complex_of e = if e.isNum then .ok () else .error .TypeError
  isinstance_ndarray : ∀ s, ext.isinstance_ndarray s = isArr s
  isinstance_Matrix : ∀ s, ext.isinstance_Matrix s = !isArr s
  attr_free_symbols : ∀ v, ext.truthy_FS (ext.attr_free_symbols (.mat v)) = !allNum v
  getattr_free_symbols : ∀ s, ext.truthy_FS (ext.getattr_free_symbols s) = !allNum s.entries
  np_abs_sq : ∀ s, ext.np_abs_sq s = absSq s
  np_sum : ∀ l, ext.np_sum (some l) = l.sum
  np_isclose_one : ∀ q, ext.np_isclose_one q = close q
  gt_one : ∀ q, ext.gt_one q = decide (1 < q)
  iter_vector : ∀ s, ext.iter_vector s = s.entries
  np_array_c128 : ∀ l, l.all Lin.isNum = true → ext.np_array_c128 l = .ok (.arr1 (l.map (·.c)))
  len_input : ∀ p, ext.len_input p = (p.2.length : Int)
  len_vector : ∀ s, ext.len_vector s = (s.length : Int)
  np_array_complex : ∀ p, ext.np_array_complex p =
    if allNum p.2 then .ok (if p.1 then .arr2 (p.2.map (·.c)) else .arr1 (p.2.map (·.c))) else .error .TypeError
  sympy_Matrix : ∀ p, ext.sympy_Matrix p = .ok (.mat p.2)
  copy : ∀ s, ext.copy s = s
  setitem : ∀ s k x, (∀ i l, ¬ (k = .int i ∧ x = .list l)) → ext.setitem s k x = rawSet s k x
  setitem_all : ∀ s old, isArr s = true → ext.setitem_all s old = (old, .ok ())
  subs : ∀ v m, ext.subs (.mat v) m = .mat (v.map (Lin.subst m))
  as_input : ∀ s, ext.as_input s = asInput s
  flatten_c128 : ∀ s, ext.np_array_dtype_flatten s ext.np_complex128 =
    if allNum s.entries then .ok (.arr1 (s.entries.map (·.c))) else .error .TypeError
  flatten_object : ∀ s, allNum s.entries = false → ext.np_array_object_flatten s = .ok s
  get_ordering : ∀ n : Nat, ext.get_ordering (n : Int) = if n = 0 then .error .TypeError else .ok (ordering n)
  asarray_take : ∀ s ord, ext.asarray_take s ord = match readAt s.entries ord with
    | none => .error .IndexError
    | some w => .ok (withEntries s w)

/-- the laws are satisfiable: the model's stand-ins (the ones the driver runs against the real class) satisfy them -/
theorem modelExt_laws (close : Rat → Bool) : Laws close (modelExt close) where
  complex_of := fun _ => rfl
  isinstance_ndarray := fun _ => rfl
  isinstance_Matrix := fun _ => rfl
  attr_free_symbols := fun _ => rfl
  getattr_free_symbols := fun _ => rfl
  np_abs_sq := fun _ => rfl
  np_sum := fun _ => rfl
  np_isclose_one := fun _ => rfl
  gt_one := fun _ => rfl
  iter_vector := fun _ => rfl
  np_array_c128 := fun l h => by simp only [modelExt, h, if_true]
  len_input := fun _ => rfl
  len_vector := fun _ => rfl
  np_array_complex := fun _ => rfl
  sympy_Matrix := fun _ => rfl
  copy := fun _ => rfl
  setitem := fun _ _ _ _ => rfl
  setitem_all := fun s _ hs => by simp [modelExt, hs]
  subs := fun _ _ => rfl
  as_input := fun _ => rfl
  flatten_c128 := fun _ => rfl
  flatten_object := fun _ _ => rfl
  get_ordering := fun n => by
    simp only [modelExt, Int.toNat_natCast]
    by_cases h : n = 0
    · simp [h]
    · have : ¬ ((n : Int) ≤ 0) := by omega
      simp [h]
  asarray_take := fun _ _ => rfl

/-! ### `bin(n).count("1")` is the Hamming weight -/

theorem count_binDigitsFuel (f : Nat) : ∀ i, i ≤ f → ((binDigitsFuel f i).map digitChar).count '1' = popcount i := by
  induction f with
  | zero =>
    intro i hi
    have : i = 0 := by omega
    subst this; decide
  | succ f ih =>
    intro i hi
    unfold binDigitsFuel
    by_cases h2 : i < 2
    · simp only [h2, if_true]
      interval_cases i <;> decide
    · simp only [h2, if_false, List.map_append, List.count_append, List.map_cons, List.map_nil]
      rw [ih (i / 2) (by omega), popcount_unfold i]
      have hi0 : i ≠ 0 := by omega
      simp only [hi0, if_false]
      have : i % 2 = 0 ∨ i % 2 = 1 := by omega
      rcases this with h | h <;> rw [h]
      · have : List.count '1' [digitChar 0] = 0 := by decide
        omega
      · have : List.count '1' [digitChar 1] = 1 := by decide
        omega

theorem countChar_bin (n : Nat) : countChar (bin (n : Int)) '1' = (popcount n : Int) := by
  rw [bin_ofNat]
  unfold countChar
  have h0 : ('0' == '1') = false := by decide
  have hb : ('b' == '1') = false := by decide
  simp only [List.count_cons, h0, hb, Bool.false_eq_true, if_false, Nat.add_zero]
  unfold binDigits
  rw [count_binDigitsFuel n n (le_refl _)]

/-! ### numeric entries -/

theorem numSq_filter_c (v : List Lin) : numSq (((v.filter Lin.isNum).map (·.c)).map Lin.ofNum) = numSq v := by
  rw [numSq_ofNum, List.map_map]
  rfl

theorem all_isNum_filter (v : List Lin) : (v.filter Lin.isNum).all Lin.isNum = true := by
  simp [List.all_eq_true]

theorem rawSetArr_error (twoD : Bool) (v : List QI) (k : Key) (x : SliceVal) (e : Exc)
    (h : (rawSetArr twoD v k x).2 = .error e) : (rawSetArr twoD v k x).1 = v := by
  unfold rawSetArr at h ⊢
  cases k <;> cases x <;> simp only at h ⊢ <;> (try split at h) <;> (try split at h) <;> simp_all

theorem rawSetMat_error (v : List Lin) (k : Key) (x : SliceVal) (e : Exc)
    (h : (rawSetMat v k x).2 = .error e) : (rawSetMat v k x).1 = v := by
  unfold rawSetMat at h ⊢
  cases k <;> cases x <;> simp only at h ⊢ <;> (try split at h) <;> (try split at h) <;> (try split) <;> simp_all

/-! ### model-side facts used by the step tie -/

theorem dom_int_scalar (j : Int) (val : Lin) : ∀ i l, ¬ (Key.int j = .int i ∧ SliceVal.scalar val = .list l) :=
  fun _ _ h => by cases h.2

theorem dom_slice (a b : Option Int) (x : SliceVal) : ∀ i l, ¬ (Key.slice a b = .int i ∧ x = .list l) :=
  fun _ _ h => by cases h.1


theorem checkNorm_arr (close : Rat → Bool) (v : List QI) :
    checkNorm close (v.map Lin.ofNum) = close ((v.map QI.normSq).sum) := by
  simp [checkNorm, allNum_ofNum, numSq_ofNum]

theorem errBack_errOf (e : Err) (he : e ≠ .internal) : errBack (errOf e) = e := by
  cases e <;> first | rfl | exact absurd rfl he

theorem broadcast_ne_internal (twoD : Bool) (n : Nat) (val : SliceVal) (e : Err) (h : broadcast twoD n val = .error e) :
    e ≠ .internal := by
  unfold broadcast at h
  cases val with
  | scalar x => simp only at h; split at h <;> cases h; simp
  | list xs => simp only at h; (repeat' split at h) <;> cases h <;> simp

theorem construct_error_value (close : Rat → Bool) (col : Bool) (v : List Lin) (e : Err)
    (h : construct close col v = .error e) : e = .value := by
  unfold construct at h
  split_ifs at h <;> cases h <;> rfl

theorem withEntries_asInput (s : Store) (w : List Lin) (hw : allNum s.entries = true → allNum w = true) :
    asInput (withEntries s w) = ((asInput s).1, w) := by
  cases s with
  | arr1 v => simp only [withEntries, asInput]; rw [map_c_ofNum w (hw (allNum_ofNum v))]
  | arr2 v => simp only [withEntries, asInput]; rw [map_c_ofNum w (hw (allNum_ofNum v))]
  | mat v => rfl

theorem flipWf_eq (close : Rat → Bool) (s : Store) :
    flipWf close s = match flipList s.entries with
      | none => .error .type
      | some w => construct close (asInput s).1 w := by
  cases s with
  | arr1 v => simp only [flipWf, arr1_entries, flipList_map, asInput]; cases flipList v <;> rfl
  | arr2 v => simp only [flipWf, arr2_entries, flipList_map, asInput]; cases flipList v <;> rfl
  | mat v => simp only [flipWf, mat_entries, asInput]; cases flipList v <;> rfl


end OQ.C12.T13
