import OQ.Lemmas.Bridge
import OQ.Lemmas.C01_Perm

namespace OQ.C01
open OQ.Lift OQ
variable {R : Type} [CommRing R]

theorem mul_get (A B : Mat R) (i j : Nat) (hi : i < A.r) (hj : j < B.c) :
    (A.mul B).get i j = ∑ k ∈ Finset.range A.c, A.get i k * B.get k j := by
  unfold Mat.mul; rw [Mat.get_ofFn _ _ _ _ _ hi hj, sumTo_eq]

/-- the basis index the qubit permutation `order` sends `col` to -/
def pidx (order : List Nat) (col : Nat) : Nat :=
  bitsToIndex (order.map (fun q => bit order.length q col))

theorem pidx_lt (order : List Nat) (col : Nat) : pidx order col < 2 ^ order.length := by
  have := bitsToIndex_lt (order.map (fun q => bit order.length q col)) (by
    intro b hb; simp only [List.mem_map] at hb; obtain ⟨q, _, rfl⟩ := hb; exact bit_lt _ _ _)
  simpa [pidx] using this

theorem permutationMatrix_eq (order : List Nat) (h : order.Perm (List.range order.length)) :
    permutationMatrix (R := R) order = some (Mat.ofFn (2 ^ order.length) (2 ^ order.length)
      (fun row col => if row = pidx order col then 1 else 0)) := by
  unfold permutationMatrix
  rw [isPermutation_of_perm order h]
  simp only [Bool.not_true, Bool.false_eq_true, if_false, Option.some.injEq]
  congr 1
  funext row col
  rw [permute_basis col order.length order (fun i hi => List.mem_range.mp (h.subset hi))]
  rfl

/-- conjugation by the permutation matrix re-indexes: `(Pᵀ G P)[r, c] = G[π r, π c]` -/
theorem conj_perm_get (f : Nat → Nat) (d : Nat) (hf : ∀ x, f x < d) (G : Mat R) (hGr : G.r = d) (hGc : G.c = d)
    (r c : Nat) (hr : r < d) (hc : c < d) :
    let P : Mat R := Mat.ofFn d d (fun row col => if row = f col then 1 else 0)
    (Mat.mul (Mat.mul (Mat.transpose P) G) P).get r c = G.get (f r) (f c) := by
  intro P
  have hP : ∀ a b, a < d → b < d → P.get a b = if a = f b then 1 else 0 := fun a b ha hb =>
    Mat.get_ofFn _ _ _ _ _ ha hb
  have hPt : ∀ a b, a < d → b < d → (Mat.transpose P).get a b = if b = f a then 1 else 0 := by
    intro a b ha hb
    unfold Mat.transpose
    rw [Mat.get_ofFn P.c P.r _ a b ha hb, hP b a hb ha]
  have h1 : ∀ j, j < d → (Mat.mul (Mat.transpose P) G).get r j = G.get (f r) j := by
    intro j hj
    rw [mul_get _ _ _ _ (by simpa [Mat.transpose, P] using hr) (by rw [hGc]; exact hj)]
    have : (Mat.transpose P).c = d := rfl
    rw [this]
    rw [Finset.sum_eq_single (f r)]
    · rw [hPt r (f r) hr (hf r)]; simp
    · intro b hb hne
      rw [hPt r b hr (Finset.mem_range.mp hb)]; simp [hne]
    · intro hn; exact absurd (Finset.mem_range.mpr (hf r)) hn
  rw [mul_get _ _ _ _ (by simpa [Mat.mul, Mat.transpose, P] using hr) (by simpa [P] using hc)]
  have : (Mat.mul (Mat.transpose P) G).c = d := by simp [Mat.mul, hGc]
  rw [this, Finset.sum_eq_single (f c)]
  · rw [h1 _ (hf c), hP _ _ (hf c) hc]; simp
  · intro b hb hne
    rw [hP b c (Finset.mem_range.mp hb) hc]; simp [hne]
  · intro hn; exact absurd (Finset.mem_range.mpr (hf c)) hn

theorem identity_get (d a b : Nat) (ha : a < d) (hb : b < d) :
    (Mat.identity (R := R) d).get a b = if a = b then 1 else 0 := by
  unfold Mat.identity; rw [Mat.get_ofFn _ _ _ _ _ ha hb]

end OQ.C01
