/- helper lemmas for C05 (not property theorems) -/
import OQ.Model.C05
namespace OQ.C05

/-! ### association lists, the symbol table invariant -/

theorem alookup_aset_self {α β : Type} [DecidableEq α] (m : List (α × β)) (k : α) (v : β) :
    alookup (aset m k v) k = some v := by
  induction m with
  | nil => simp [aset, alookup]
  | cons p rest ih =>
    obtain ⟨k', v'⟩ := p
    by_cases h : k' = k
    · simp [aset, alookup, h]
    · simp [aset, alookup, h, ih]

theorem alookup_aset_ne {α β : Type} [DecidableEq α] (m : List (α × β)) (k k2 : α) (v : β) (h : k2 ≠ k) :
    alookup (aset m k v) k2 = alookup m k2 := by
  induction m with
  | nil => simp [aset, alookup, Ne.symm h]
  | cons p rest ih =>
    obtain ⟨k', v'⟩ := p
    by_cases h1 : k' = k
    · subst h1
      simp [aset, alookup, Ne.symm h]
    · by_cases h2 : k' = k2
      · subst h2; simp [aset, alookup, h]
      · simp [aset, alookup, h1, h2, ih]

def NoBaseClash (names : List Name) : Prop :=
  ∀ a ∈ names, ∀ b ∈ names, parseIndexed a = none →
    ∀ base ds, parseIndexed b = some (base, ds) → a ≠ base

def IndexInj (names : List Name) : Prop :=
  ∀ a ∈ names, ∀ b ∈ names, ∀ base da db, parseIndexed a = some (base, da) →
    parseIndexed b = some (base, db) → digitsToNat da = digitsToNat db → a = b

structure SymInv (pre : List Name) (m : SymMap) : Prop where
  res : ∀ s ∈ pre, resolve m s = some s
  symKey : ∀ k n, alookup m k = some (.sym n) → k ∈ pre ∧ parseIndexed k = none
  unbound : ∀ k, k ∉ pre.map baseOf → alookup m k = none

theorem baseOf_plain {s : Name} (h : parseIndexed s = none) : baseOf s = s := by simp [baseOf, h]
theorem baseOf_indexed {s b : Name} {ds : List Char} (h : parseIndexed s = some (b, ds)) : baseOf s = b := by
  simp [baseOf, h]

theorem symStep_inv (all pre : List Name) (m : SymMap) (x : Name)
    (hc : NoBaseClash all) (hi : IndexInj all) (hpre : ∀ s ∈ pre, s ∈ all) (hx : x ∈ all)
    (inv : SymInv pre m) : ∃ m', symStep m x = .ok m' ∧ SymInv (pre ++ [x]) m' := by
  cases hp : parseIndexed x with
  | none =>
    refine ⟨aset m x (.sym x), by simp [symStep, hp], ?_, ?_, ?_⟩
    · intro s hs
      rcases List.mem_append.mp hs with hs | hs
      · have hr := inv.res s hs
        cases hps : parseIndexed s with
        | none =>
          by_cases hsx : s = x
          · subst hsx; simp [resolve, hps, alookup_aset_self]
          · simp only [resolve, hps] at hr ⊢
            rw [alookup_aset_ne _ _ _ _ hsx]; exact hr
        | some bd =>
          obtain ⟨b, ds⟩ := bd
          have hne : b ≠ x := fun h => hc x hx s (hpre s hs) hp b ds hps h.symm
          simp only [resolve, hps] at hr ⊢
          rw [alookup_aset_ne _ _ _ _ hne]; exact hr
      · have : s = x := by simpa using hs
        subst this; simp [resolve, hp, alookup_aset_self]
    · intro k n hk
      by_cases hkx : k = x
      · subst hkx; exact ⟨by simp, hp⟩
      · rw [alookup_aset_ne _ _ _ _ hkx] at hk
        have := inv.symKey k n hk
        exact ⟨List.mem_append_left _ this.1, this.2⟩
    · intro k hk
      have hkx : k ≠ x := by
        intro h; apply hk; subst h
        simp [baseOf_plain hp]
      rw [alookup_aset_ne _ _ _ _ hkx]
      apply inv.unbound
      intro h; apply hk; simp at h ⊢; exact Or.inl h
  | some bd =>
    obtain ⟨b, ds⟩ := bd
    -- common facts
    have plain_ne : ∀ s ∈ pre, parseIndexed s = none → s ≠ b :=
      fun s hs hps => hc s (hpre s hs) x hx hps b ds hp
    cases hl : alookup m b with
    | none =>
      refine ⟨aset m b (.dict [(digitsToNat ds, x)]), by simp [symStep, hp, hl], ?_, ?_, ?_⟩
      · intro s hs
        rcases List.mem_append.mp hs with hs | hs
        · have hr := inv.res s hs
          cases hps : parseIndexed s with
          | none =>
            simp only [resolve, hps] at hr ⊢
            rw [alookup_aset_ne _ _ _ _ (plain_ne s hs hps)]; exact hr
          | some bd' =>
            obtain ⟨b', ds'⟩ := bd'
            simp only [resolve, hps] at hr ⊢
            by_cases hbb : b' = b
            · subst hbb; rw [hl] at hr; simp at hr
            · rw [alookup_aset_ne _ _ _ _ hbb]; exact hr
        · have : s = x := by simpa using hs
          subst this; simp [resolve, hp, alookup_aset_self, alookup]
      · intro k n hk
        by_cases hkb : k = b
        · subst hkb; rw [alookup_aset_self] at hk; simp at hk
        · rw [alookup_aset_ne _ _ _ _ hkb] at hk
          have := inv.symKey k n hk
          exact ⟨List.mem_append_left _ this.1, this.2⟩
      · intro k hk
        have hkb : k ≠ b := by
          intro h; apply hk; subst h
          simp [baseOf_indexed hp]
        rw [alookup_aset_ne _ _ _ _ hkb]
        apply inv.unbound
        intro h; apply hk; simp at h ⊢; exact Or.inl h
    | some e =>
      cases e with
      | sym n =>
        exfalso
        have := inv.symKey b n hl
        exact plain_ne b this.1 this.2 rfl
      | dict d =>
        refine ⟨aset m b (.dict (aset d (digitsToNat ds) x)), by simp [symStep, hp, hl], ?_, ?_, ?_⟩
        · intro s hs
          rcases List.mem_append.mp hs with hs | hs
          · have hr := inv.res s hs
            cases hps : parseIndexed s with
            | none =>
              simp only [resolve, hps] at hr ⊢
              rw [alookup_aset_ne _ _ _ _ (plain_ne s hs hps)]; exact hr
            | some bd' =>
              obtain ⟨b', ds'⟩ := bd'
              simp only [resolve, hps] at hr ⊢
              by_cases hbb : b' = b
              · subst hbb
                rw [hl] at hr; simp only at hr
                rw [alookup_aset_self]; simp only
                by_cases hdd : digitsToNat ds' = digitsToNat ds
                · have : s = x := hi s (hpre s hs) x hx b' ds' ds hps hp hdd
                  subst this; rw [hdd, alookup_aset_self]
                · rw [alookup_aset_ne _ _ _ _ hdd]; exact hr
              · rw [alookup_aset_ne _ _ _ _ hbb]; exact hr
          · have : s = x := by simpa using hs
            subst this; simp [resolve, hp, alookup_aset_self]
        · intro k n hk
          by_cases hkb : k = b
          · subst hkb; rw [alookup_aset_self] at hk; simp at hk
          · rw [alookup_aset_ne _ _ _ _ hkb] at hk
            have := inv.symKey k n hk
            exact ⟨List.mem_append_left _ this.1, this.2⟩
        · intro k hk
          have hkb : k ≠ b := by
            intro h; apply hk; subst h
            simp [baseOf_indexed hp]
          rw [alookup_aset_ne _ _ _ _ hkb]
          apply inv.unbound
          intro h; apply hk; simp at h ⊢; exact Or.inl h

theorem symFold_inv (all : List Name) (hc : NoBaseClash all) (hi : IndexInj all) :
    ∀ (rest pre : List Name) (m : SymMap), (∀ s ∈ pre, s ∈ all) → (∀ s ∈ rest, s ∈ all) → SymInv pre m →
      ∃ m', symFold m rest = .ok m' ∧ SymInv (pre ++ rest) m' := by
  intro rest
  induction rest with
  | nil => intro pre m _ _ inv; exact ⟨m, rfl, by simpa using inv⟩
  | cons x rest ih =>
    intro pre m hpre hrest inv
    obtain ⟨m1, h1, inv1⟩ := symStep_inv all pre m x hc hi hpre (hrest x (by simp)) inv
    have hpre1 : ∀ s ∈ pre ++ [x], s ∈ all := by
      intro s hs
      rcases List.mem_append.mp hs with hs | hs
      · exact hpre s hs
      · have : s = x := by simpa using hs
        subst this; exact hrest s (by simp)
    obtain ⟨m2, h2, inv2⟩ := ih (pre ++ [x]) m1 hpre1 (fun s hs => hrest s (by simp [hs])) inv1
    refine ⟨m2, ?_, by simpa using inv2⟩
    simp [symFold, h1, h2]

theorem makeSymbolsMap_inv (names : List Name) (hc : NoBaseClash names) (hi : IndexInj names) :
    ∃ m, makeSymbolsMap names = .ok m ∧ SymInv names m := by
  have h0 : SymInv [] ([] : SymMap) := ⟨by simp, by simp [alookup], by simp [alookup]⟩
  obtain ⟨m, h, inv⟩ := symFold_inv names hc hi names [] [] (by simp) (fun s hs => hs) h0
  exact ⟨m, h, by simpa using inv⟩

/-! ### small list facts -/

theorem mapM_ok {α β : Type} (f : α → Except Err β) (g : α → β) :
    ∀ l : List α, (∀ x ∈ l, f x = .ok (g x)) → l.mapM f = .ok (l.map g) := by
  intro l
  induction l with
  | nil => intro _; rfl
  | cons x xs ih =>
    intro h
    have hx := h x (by simp)
    have hxs := ih (fun y hy => h y (by simp [hy]))
    simp [List.mapM_cons, hx, hxs, bind, Except.bind, pure, Except.pure]

theorem mem_insertName (x y : Name) (l : List Name) : y ∈ insertName x l ↔ y = x ∨ y ∈ l := by
  induction l with
  | nil => simp [insertName]
  | cons z zs ih =>
    simp only [insertName]
    split
    · rename_i h; subst h; simp
    · split
      · simp
      · simp only [List.mem_cons, ih]
        constructor <;> (intro h; rcases h with h | h | h <;> simp [h])

theorem mem_sortDedup (y : Name) (l : List Name) : y ∈ sortDedup l ↔ y ∈ l := by
  induction l with
  | nil => simp [sortDedup]
  | cons x xs ih =>
    have : sortDedup (x :: xs) = insertName x (sortDedup xs) := rfl
    rw [this, mem_insertName, ih]; simp

theorem sortDedup_eq_nil {l : List Name} (h : sortDedup l = []) : l = [] := by
  cases l with
  | nil => rfl
  | cons x xs =>
    have : x ∈ sortDedup (x :: xs) := (mem_sortDedup x _).2 (by simp)
    rw [h] at this; simp at this

theorem containsSub_append (a p t : Name) : containsSub (a ++ p ++ t) p = true := by
  induction a with
  | nil =>
    cases hp : p with
    | nil =>
      cases t with
      | nil => simp [containsSub]
      | cons c cs => simp [containsSub]
    | cons c cs =>
      have : (c :: cs).isPrefixOf ((c :: cs) ++ t) = true := by
        rw [List.isPrefixOf_iff_prefix]; exact List.prefix_append _ _
      simp only [List.nil_append, List.cons_append, containsSub, Bool.or_eq_true]
      left; simp
  | cons c cs ih =>
    simp only [List.cons_append, containsSub, Bool.or_eq_true]
    right; simpa using ih

/-! ### the namespace lookup -/

def allNames (env : Env) : List Name := env.gates.map (fun gi => gi.key) ++ env.others

theorem lookup_missing (env : Env) (n : Name) (h : n ∉ allNames env) : lookupGlobal env n = .missing := by
  have h1 : env.gates.find? (fun gi => gi.key == n) = none := by
    rw [List.find?_eq_none]
    intro gi hgi hk
    apply h
    simp only [allNames, List.mem_append, List.mem_map]
    left; exact ⟨gi, hgi, by simpa using hk⟩
  have h2 : n ∉ env.others := by
    simp only [allNames, List.mem_append, not_or] at h
    exact h.2
  simp [lookupGlobal, h1, h2]

theorem lookup_gate (env : Env) (n : Name) (gi : GateInfo) (h : lookupGlobal env n = .gate gi) :
    gi ∈ env.gates ∧ gi.key = n := by
  unfold lookupGlobal at h
  cases hf : env.gates.find? (fun gi => gi.key == n) with
  | none =>
    rw [hf] at h
    simp only at h
    split at h <;> simp at h
  | some g =>
    rw [hf] at h
    have : g = gi := by simpa using h
    subst this
    exact ⟨List.mem_of_find?_eq_some hf, by simpa using List.find?_some hf⟩

/-- what the cascade needs to know about the generated namespace and markers (all decidable) -/
structure EnvHygienic (env : Env) : Prop where
  ctrl_free : env.control ∉ allNames env
  exp_free : env.exponential ∉ allNames env
  no_dagger_name : ∀ n ∈ allNames env, env.dagger.isSuffixOf n = false
  no_power_name : ∀ n ∈ allNames env, containsSub n env.power = false
  ctrl_not_dagger : env.dagger.isSuffixOf env.control = false
  exp_ne_ctrl : env.exponential ≠ env.control
  exp_not_dagger : env.dagger.isSuffixOf env.exponential = false
  ctrl_no_power : containsSub env.control env.power = false
  exp_no_power : containsSub env.exponential env.power = false
  dagger_ne : env.dagger ≠ []
  power_ne : env.power ≠ []
  dagger_last_not_power : ∀ c ∈ env.dagger.getLast?, c ∉ env.power
  key_is_name : ∀ gi ∈ env.gates, gi.key = gi.gateName
  proto_iff : ∀ gi ∈ env.gates, (gi.prototype = true ↔ 0 < gi.nParams)

theorem dagger_name_suffix (env : Env) (n : Name) : env.dagger.isSuffixOf (n ++ '_' :: env.dagger) = true := by
  rw [List.isSuffixOf_iff_suffix]
  exact ⟨n ++ ['_'], by simp⟩

theorem power_name_not_dagger (env : Env) (h : EnvHygienic env) (n txt : Name)
    (htxt : ∀ c ∈ env.dagger.getLast?, c ∉ txt) : env.dagger.isSuffixOf (n ++ env.power ++ txt) = false := by
  cases hb : env.dagger.isSuffixOf (n ++ env.power ++ txt) with
  | false => rfl
  | true =>
    exfalso
    rw [List.isSuffixOf_iff_suffix] at hb
    obtain ⟨pre, hpre⟩ := hb
    cases hc : env.dagger.getLast? with
    | none => exact h.dagger_ne (List.getLast?_eq_none_iff.mp hc)
    | some c =>
      have hl : (pre ++ env.dagger).getLast? = some c := by
        rw [List.getLast?_append, hc]; rfl
      rw [hpre, List.append_assoc, List.getLast?_append] at hl
      have hne : (env.power ++ txt).getLast? ≠ none := by
        intro h0
        have := List.getLast?_eq_none_iff.mp h0
        simp at this
        exact h.power_ne this.1
      cases hq : (env.power ++ txt).getLast? with
      | none => exact hne hq
      | some c' =>
        rw [hq] at hl
        have hcc : c' = c := by simpa using hl
        subst hcc
        have hm := List.mem_of_getLast? hq
        rcases List.mem_append.mp hm with hm | hm
        · exact h.dagger_last_not_power c' (by simp [hc]) hm
        · exact htxt c' (by simp [hc]) hm

/-! ### the assumed law of `str` / `sympify`, and what is readable against a table -/

variable {P E : Type}

/-- Law of the external text codec.  `nrm` is what one print/parse cycle does to an expression (Python `int`
    becomes `Integer`, a `float` a `Float`, a `Float` is rounded to its 15 printed digits); `okName` are the
    admissible symbol names (identifiers other than keywords, canonical indices, not a name the printed text
    also uses for something else); `auto s`: the bare text `s`, unbound, is parsed as the symbol `s`
    (a plain identifier that sympy's namespace does not define). -/
structure SympifyLaw (C : Codec P E) (nrm : P → P) (okName auto : Name → Prop) : Prop where
  sympify_ser : ∀ (m : SymMap) (p : P),
    (∀ s ∈ C.free p, okName s ∧ (resolve m s = some s ∨ (auto s ∧ alookup m s = none))) →
    C.sympify m (C.ser p) = .ok (nrm p)
  free_nrm : ∀ p, C.free (nrm p) = C.free p
  defNe_irrefl : ∀ d, C.defNe d d = false

/-- every free symbol of `p` is supplied by the table built from `names`, or needs none -/
def Readable (C : Codec P E) (okName auto : Name → Prop) (names : List Name) (p : P) : Prop :=
  ∀ s ∈ C.free p, okName s ∧ (s ∈ names ∨ (auto s ∧ s ∉ names.map baseOf))

theorem de_ser (C : Codec P E) (nrm : P → P) (okName auto : Name → Prop) (L : SympifyLaw C nrm okName auto)
    (names : List Name) (hc : NoBaseClash names) (hi : IndexInj names) (p : P)
    (hr : Readable C okName auto names p) : deserializeExpr C names (C.ser p) = .ok (nrm p) := by
  obtain ⟨m, hm, inv⟩ := makeSymbolsMap_inv names hc hi
  simp only [deserializeExpr, hm]
  apply L.sympify_ser
  intro s hs
  obtain ⟨ho, h⟩ := hr s hs
  refine ⟨ho, ?_⟩
  rcases h with h | ⟨ha, hn⟩
  · exact Or.inl (inv.res s h)
  · exact Or.inr ⟨ha, inv.unbound s hn⟩

theorem noBaseClash_nil : NoBaseClash [] := by intro a ha; simp at ha
theorem indexInj_nil : IndexInj [] := by intro a ha; simp at ha

/-! ### well-formed gates (what the constructors guarantee) and the admissible symbol names -/

def GateOK (env : Env) (C : Codec P E) (okName auto : Name → Prop) : Gate P E → Prop
  | .builtin n ps =>
    (∃ gi, lookupGlobal env n = .gate gi ∧ ps.length = gi.nParams) ∧
    NoBaseClash (Gate.free C (.builtin n ps : Gate P E)) ∧ IndexInj (Gate.free C (.builtin n ps : Gate P E)) ∧
    ∀ s ∈ Gate.free C (.builtin n ps : Gate P E), okName s
  | .custom d ps =>
    d.gateName ∉ allNames env ∧ NoBaseClash d.ordering ∧ IndexInj d.ordering ∧
    NoBaseClash (Gate.free C (.custom d ps : Gate P E)) ∧ IndexInj (Gate.free C (.custom d ps : Gate P E)) ∧
    ∀ s ∈ Gate.free C (.custom d ps : Gate P E), okName s
  | .controlled g k => 1 ≤ k ∧ GateOK env C okName auto g
  | .dagger g => GateOK env C okName auto g
  | .exponential g => Gate.free C g = [] ∧ GateOK env C okName auto g
  | .power g e => Gate.free C g = [] ∧ (∀ c ∈ env.dagger.getLast?, c ∉ C.expoText e) ∧ GateOK env C okName auto g

theorem params_map (f : P → P) (g : Gate P E) : (g.map f).params = g.params.map f := by
  induction g with
  | builtin n ps => rfl
  | custom d ps => rfl
  | controlled g k ih => simpa [Gate.map, Gate.params] using ih
  | dagger g ih => simpa [Gate.map, Gate.params] using ih
  | exponential g ih => simpa [Gate.map, Gate.params] using ih
  | power g e ih => simpa [Gate.map, Gate.params] using ih

theorem free_map (C : Codec P E) (nrm : P → P) (hf : ∀ p, C.free (nrm p) = C.free p) (g : Gate P E) :
    Gate.free C (g.map nrm) = Gate.free C g := by
  simp only [Gate.free, params_map]
  congr 1
  induction g.params with
  | nil => rfl
  | cons p ps ih => simp [List.flatMap_cons, hf, ih]

/-! ### the cascade on what `gateToDict` writes -/

theorem special_leaf (env : Env) (C : Codec P E) (name : Option Name) (nc : Option Int) (ex : Option E) :
    specialFromDict env C name none nc ex = .error .key := by
  unfold specialFromDict
  cases name with
  | none => rfl
  | some n => simp only; split <;> (try rfl) <;> split <;> (try rfl) <;> split <;> (try rfl) <;> split <;> rfl

theorem builtin_hit (env : Env) (h : EnvHygienic env) (C : Codec P E) (nrm : P → P) (n : Name) (ps : List P)
    (free : List Name) (gi : GateInfo) (hl : lookupGlobal env n = .gate gi) (hlen : ps.length = gi.nParams)
    (hde : ∀ p ∈ ps, deserializeExpr C free (C.ser p) = .ok (nrm p)) :
    builtinFromDict env C (some n) (ps.map C.ser) free = .ok (.builtin n (ps.map nrm)) := by
  obtain ⟨hmem, hkey⟩ := lookup_gate env n gi hl
  have hname : gi.gateName = n := by rw [← h.key_is_name gi hmem]; exact hkey
  have hproto := h.proto_iff gi hmem
  simp only [builtinFromDict, hl]
  cases ps with
  | nil =>
    have : gi.prototype = false := by
      cases hp : gi.prototype with
      | false => rfl
      | true => have := hproto.mp hp; simp at hlen; omega
    simp [this, hname]
  | cons p ps =>
    have hp : gi.prototype = true := hproto.mpr (by simp at hlen; omega)
    have hm : ((p :: ps).map C.ser).mapM (deserializeExpr C free) = .ok ((p :: ps).map nrm) := by
      rw [List.mapM_map]
      exact mapM_ok _ nrm (p :: ps) hde
    simp only [List.map_cons, List.isEmpty_cons] at hm ⊢
    simp [hm, hp, hname]

theorem not_mem_of_suffix (env : Env) (h : EnvHygienic env) (n : Name) (hs : env.dagger.isSuffixOf n = true) :
    n ∉ allNames env := by
  intro hm
  have := h.no_dagger_name n hm
  rw [hs] at this; exact Bool.noConfusion this

theorem not_mem_of_power (env : Env) (h : EnvHygienic env) (n : Name) (hs : containsSub n env.power = true) :
    n ∉ allNames env := by
  intro hm
  have := h.no_power_name n hm
  rw [hs] at this; exact Bool.noConfusion this

theorem gate_rt (env : Env) (h : EnvHygienic env) (C : Codec P E) (nrm : P → P) (okName auto : Name → Prop)
    (L : SympifyLaw C nrm okName auto) (defs' : List (CustomDef P)) :
    ∀ g : Gate P E, GateOK env C okName auto g →
      (∀ d ps, g.innermost = .custom d ps → defs'.find? (nameEq d.gateName) = some (d.map nrm)) →
      gateFromDict env C defs' (gateToDict env C g) = .ok (g.map nrm) := by
  intro g
  induction g with
  | builtin n ps =>
    intro hok _
    obtain ⟨⟨gi, hl, hlen⟩, hc, hi, hn⟩ := hok
    have hde : ∀ p ∈ ps, deserializeExpr C (Gate.free C (.builtin n ps : Gate P E)) (C.ser p) = .ok (nrm p) := by
      intro p hp
      apply de_ser C nrm okName auto L _ hc hi
      intro s hs
      have hmem : s ∈ Gate.free C (.builtin n ps : Gate P E) := by
        simp only [Gate.free, Gate.params, mem_sortDedup, List.mem_flatMap]
        exact ⟨p, hp, hs⟩
      exact ⟨hn s hmem, Or.inl hmem⟩
    simp only [gateToDict, gateFromDict, cascade, builtin_hit env h C nrm n ps _ gi hl hlen hde, Gate.map]
  | custom d ps =>
    intro hok hdefs
    obtain ⟨hfree, hc, hi, hfc, hfi, hn⟩ := hok
    have hfind := hdefs d ps rfl
    have hord : (d.map nrm).ordering = d.ordering := rfl
    have hmemf : ∀ p ∈ ps, ∀ s ∈ C.free p, s ∈ Gate.free C (.custom d ps : Gate P E) := by
      intro p hp s hs
      simp only [Gate.free, Gate.params, mem_sortDedup, List.mem_flatMap]
      exact ⟨p, hp, hs⟩
    have hde : ∀ p ∈ ps, deserializeExpr C
        (if (Gate.free C (.custom d ps : Gate P E)).isEmpty then d.ordering
         else Gate.free C (.custom d ps : Gate P E)) (C.ser p) = .ok (nrm p) := by
      intro p hp
      by_cases he : (Gate.free C (.custom d ps : Gate P E)).isEmpty = true
      · rw [if_pos he]
        apply de_ser C nrm okName auto L _ hc hi
        intro s hs
        have := hmemf p hp s hs
        rw [List.isEmpty_iff.mp he] at this
        simp at this
      · rw [if_neg he]
        apply de_ser C nrm okName auto L _ hfc hfi
        intro s hs
        exact ⟨hn s (hmemf p hp s hs), Or.inl (hmemf p hp s hs)⟩
    have hm : (ps.map C.ser).mapM (deserializeExpr C
        (if (Gate.free C (.custom d ps : Gate P E)).isEmpty then d.ordering
         else Gate.free C (.custom d ps : Gate P E))) = .ok (ps.map nrm) := by
      rw [List.mapM_map]
      exact mapM_ok _ nrm ps hde
    simp only [gateToDict, gateFromDict, cascade, builtinFromDict, lookup_missing env _ hfree, special_leaf,
      customFromDict, hfind, hord, hm, Gate.map]
  | controlled g k ih =>
    intro hok hdefs
    obtain ⟨hk, hg⟩ := hok
    have := ih hg (fun d ps hd => hdefs d ps (by simpa [Gate.innermost] using hd))
    have hk' : ¬ k < 1 := by omega
    simp only [gateToDict, gateFromDict, cascade, builtinFromDict, lookup_missing env _ h.ctrl_free,
      specialFromDict, this, mkControlled, hk', if_true, if_false, Gate.map]
  | dagger g ih =>
    intro hok hdefs
    have := ih hok (fun d ps hd => hdefs d ps (by simpa [Gate.innermost] using hd))
    have hs := dagger_name_suffix env (Gate.name env C g)
    have hne : ¬ (Gate.name env C g ++ '_' :: env.dagger = env.control) := by
      intro he; rw [he, h.ctrl_not_dagger] at hs; exact Bool.noConfusion hs
    simp only [gateToDict, gateFromDict, cascade, builtinFromDict, Gate.name,
      lookup_missing env _ (not_mem_of_suffix env h _ hs), specialFromDict, this, hne, hs, if_true, if_false, Gate.map]
  | exponential g ih =>
    intro hok hdefs
    obtain ⟨hf, hg⟩ := hok
    have := ih hg (fun d ps hd => hdefs d ps (by simpa [Gate.innermost] using hd))
    have hfe : (Gate.free C (g.map nrm)).isEmpty = true := by rw [free_map C nrm L.free_nrm, hf]; rfl
    have hnd : ¬ (env.dagger.isSuffixOf env.exponential = true) := by rw [h.exp_not_dagger]; exact Bool.noConfusion
    simp only [gateToDict, gateFromDict, cascade, builtinFromDict, lookup_missing env _ h.exp_free,
      specialFromDict, this, h.exp_ne_ctrl, hnd, mkExponential, hfe, if_true, if_false, Bool.false_eq_true, Gate.map]
  | power g e ih =>
    intro hok hdefs
    obtain ⟨hf, htxt, hg⟩ := hok
    have := ih hg (fun d ps hd => hdefs d ps (by simpa [Gate.innermost] using hd))
    have hfe : (Gate.free C (g.map nrm)).isEmpty = true := by rw [free_map C nrm L.free_nrm, hf]; rfl
    have hpow := containsSub_append (Gate.name env C g) env.power (C.expoText e)
    have hnc : ¬ (Gate.name env C g ++ env.power ++ C.expoText e = env.control) := by
      intro he; rw [he, h.ctrl_no_power] at hpow; exact Bool.noConfusion hpow
    have hne : ¬ (Gate.name env C g ++ env.power ++ C.expoText e = env.exponential) := by
      intro he; rw [he, h.exp_no_power] at hpow; exact Bool.noConfusion hpow
    have hnd : ¬ (env.dagger.isSuffixOf (Gate.name env C g ++ env.power ++ C.expoText e) = true) := by
      rw [power_name_not_dagger env h _ _ htxt]; exact Bool.noConfusion
    simp only [gateToDict, gateFromDict, cascade, builtinFromDict, Gate.name,
      lookup_missing env _ (not_mem_of_power env h _ hpow), specialFromDict, this, hnc, hne, hnd, hpow,
      mkPower, hfe, if_true, if_false, Bool.false_eq_true, Gate.map]

/-! ### custom definitions: collection, sorting, lookup, round trip -/

def DefOK (C : Codec P E) (okName auto : Name → Prop) (d : CustomDef P) : Prop :=
  shapeOk d.matrix = true ∧ NoBaseClash d.ordering ∧ IndexInj d.ordering ∧
  ∀ row ∈ d.matrix, ∀ e ∈ row, Readable C okName auto d.ordering e

theorem all_len_map {α β : Type} (f : α → β) (n : Nat) (rows : List (List α)) :
    (rows.map (fun r => r.map f)).all (fun r => r.length == n) = rows.all (fun r => r.length == n) := by
  induction rows with
  | nil => rfl
  | cons r rs ih => simp only [List.map_cons, List.all_cons, List.length_map, ih]

theorem shapeOk_map {α β : Type} (f : α → β) (rows : List (List α)) :
    shapeOk (rows.map (fun r => r.map f)) = shapeOk rows := by
  simp only [shapeOk, List.length_map, all_len_map]

theorem def_rt (C : Codec P E) (nrm : P → P) (okName auto : Name → Prop) (L : SympifyLaw C nrm okName auto)
    (d : CustomDef P) (hd : DefOK C okName auto d) : defFromDict C (defToDict C d) = .ok (d.map nrm) := by
  obtain ⟨hs, hc, hi, hr⟩ := hd
  have hm : ((defToDict C d).matrix).mapM (fun row => row.mapM (deserializeExpr C d.ordering)) =
      .ok (d.matrix.map (fun r => r.map nrm)) := by
    simp only [defToDict, List.mapM_map]
    apply mapM_ok _ (fun (r : List P) => r.map nrm)
    intro row hrow
    simp only [Function.comp, List.mapM_map]
    exact mapM_ok _ nrm row (fun e he => de_ser C nrm okName auto L d.ordering hc hi e (hr row hrow e he))
  have hord : (defToDict C d).ordering = d.ordering := rfl
  have hname : (defToDict C d).gateName = d.gateName := rfl
  simp only [defFromDict, hord, hm, shapeOk_map, hs, if_true, hname, CustomDef.map]

theorem mem_insertDef (d x : CustomDef P) (l : List (CustomDef P)) : x ∈ insertDef d l ↔ x = d ∨ x ∈ l := by
  induction l with
  | nil => simp [insertDef]
  | cons y ys ih =>
    simp only [insertDef]
    split
    · simp only [List.mem_cons, ih]
      constructor <;> (intro h; rcases h with h | h | h <;> simp [h])
    · simp

theorem mem_sortDefs (x : CustomDef P) (l : List (CustomDef P)) : x ∈ sortDefs l ↔ x ∈ l := by
  induction l with
  | nil => simp [sortDefs]
  | cons y ys ih =>
    have : sortDefs (y :: ys) = insertDef y (sortDefs ys) := rfl
    rw [this, mem_insertDef, ih]; simp

/-- within `all`, a name determines the definition -/
def Consistent (all : List (CustomDef P)) : Prop :=
  ∀ a ∈ all, ∀ b ∈ all, a.gateName = b.gateName → a = b

theorem find_unique (all l : List (CustomDef P)) (H : Consistent all) (hl : ∀ x ∈ l, x ∈ all)
    (d : CustomDef P) (hd : d ∈ l) : l.find? (nameEq d.gateName) = some d := by
  cases hf : l.find? (nameEq d.gateName) with
  | none =>
    rw [List.find?_eq_none] at hf
    exact absurd (by simp [nameEq]) (hf d hd)
  | some x =>
    have hx := List.mem_of_find?_eq_some hf
    have hp : x.gateName = d.gateName := by simpa [nameEq] using List.find?_some hf
    rw [H x (hl x hx) d (hl d hd) hp]

theorem addDefs_ok (C : Codec P E) (hirr : ∀ d, C.defNe d d = false) (all : List (CustomDef P))
    (H : Consistent all) :
    ∀ (ds acc : List (CustomDef P)), (∀ x ∈ acc, x ∈ all) → (∀ x ∈ ds, x ∈ all) →
      ∃ u, addDefs C acc ds = .ok u ∧ (∀ x ∈ u, x ∈ all) ∧ (∀ x ∈ acc, x ∈ u) ∧ (∀ x ∈ ds, x ∈ u) := by
  intro ds
  induction ds with
  | nil => intro acc ha _; exact ⟨acc, rfl, ha, fun x hx => hx, by simp⟩
  | cons d ds ih =>
    intro acc ha hds
    have hdall : d ∈ all := hds d (by simp)
    cases hf : acc.find? (nameEq d.gateName) with
    | none =>
      have hstep : addDef C acc d = .ok (acc ++ [d]) := by simp [addDef, hf]
      obtain ⟨u, hu, h1, h2, h3⟩ := ih (acc ++ [d])
        (by intro x hx; rcases List.mem_append.mp hx with hx | hx
            · exact ha x hx
            · have : x = d := by simpa using hx
              subst this; exact hdall)
        (fun x hx => hds x (by simp [hx]))
      refine ⟨u, by simp [addDefs, hstep, hu], h1, fun x hx => h2 x (by simp [hx]), ?_⟩
      intro x hx
      rcases List.mem_cons.mp hx with hx | hx
      · subst hx; exact h2 x (by simp)
      · exact h3 x hx
    | some d0 =>
      have hd0 := List.mem_of_find?_eq_some hf
      have hp : d0.gateName = d.gateName := by simpa [nameEq] using List.find?_some hf
      have heq : d0 = d := H d0 (ha d0 hd0) d hdall hp
      have hstep : addDef C acc d = .ok acc := by simp [addDef, hf, heq, hirr]
      obtain ⟨u, hu, h1, h2, h3⟩ := ih acc ha (fun x hx => hds x (by simp [hx]))
      refine ⟨u, by simp [addDefs, hstep, hu], h1, h2, ?_⟩
      intro x hx
      rcases List.mem_cons.mp hx with hx | hx
      · subst hx; rw [← heq]; exact h2 d0 hd0
      · exact h3 x hx

theorem collectDefs_ok (C : Codec P E) (hirr : ∀ d, C.defNe d d = false) (ops : List (Op P E))
    (H : Consistent (ops.filterMap customDefOf)) :
    ∃ defs, collectDefs C ops = .ok defs ∧ (∀ x ∈ defs, x ∈ ops.filterMap customDefOf) ∧
      (∀ x ∈ ops.filterMap customDefOf, x ∈ defs) := by
  obtain ⟨u, hu, h1, _, h3⟩ := addDefs_ok C hirr _ H (ops.filterMap customDefOf) [] (by simp) (fun x hx => hx)
  refine ⟨sortDefs u, by simp [collectDefs, hu], ?_, ?_⟩
  · intro x hx; exact h1 x ((mem_sortDefs x u).mp hx)
  · intro x hx; exact (mem_sortDefs x u).mpr (h3 x hx)

/-! ### circuits -/

theorem sizeByOps_map (f : P → P) (ops : List (Op P E)) : sizeByOps (ops.map (Op.map f)) = sizeByOps ops := by
  have h1 : (ops.map (Op.map f)).isEmpty = ops.isEmpty := by cases ops <;> rfl
  have h2 : (ops.map (Op.map f)).flatMap (fun o => o.qubits) = ops.flatMap (fun o => o.qubits) := by
    induction ops with
    | nil => rfl
    | cons o os ih => simp [List.flatMap_cons, Op.map, ih]
  simp only [sizeByOps, h1, h2]

theorem mkCircuit_map (f : P → P) (ops : List (Op P E)) (n : Int) (c : Circuit P E)
    (h : mkCircuit ops n = .ok c) : mkCircuit (ops.map (Op.map f)) n = .ok (c.map f) := by
  unfold mkCircuit at h ⊢
  rw [sizeByOps_map]
  by_cases h0 : n = 0
  · simp only [h0, if_true] at h ⊢
    cases hs : sizeByOps ops with
    | error e => rw [hs] at h; simp at h
    | ok k =>
      rw [hs] at h
      have : c = ⟨k, ops⟩ := by simpa using h.symm
      subst this; rfl
  · simp only [h0, if_false] at h ⊢
    by_cases h1 : n ≤ 0
    · simp [h1] at h
    · simp only [h1, if_false] at h ⊢
      have : c = ⟨n, ops⟩ := by simpa using h.symm
      subst this; rfl

/-- what construction through the library guarantees, plus the readable domain -/
structure CircuitOK (env : Env) (C : Codec P E) (okName auto : Name → Prop) (c : Circuit P E) : Prop where
  gates : ∀ o ∈ c.ops, GateOK env C okName auto o.gate
  defs : ∀ d ∈ c.ops.filterMap customDefOf, DefOK C okName auto d
  consistent : Consistent (c.ops.filterMap customDefOf)
  ctor : mkCircuit c.ops c.nQubits = .ok c

theorem circuit_rt (env : Env) (h : EnvHygienic env) (C : Codec P E) (nrm : P → P) (okName auto : Name → Prop)
    (L : SympifyLaw C nrm okName auto) (c : Circuit P E) (hc : CircuitOK env C okName auto c) :
    ∃ d, circuitToDict env C c = .ok d ∧ circuitFromDict env C d = .ok (c.map nrm) := by
  obtain ⟨defs, hdefs, hsub, hsup⟩ := collectDefs_ok C L.defNe_irrefl c.ops hc.consistent
  refine ⟨⟨some c.nQubits, c.ops.map (opToDict env C), defs.map (defToDict C)⟩, by simp [circuitToDict, hdefs], ?_⟩
  have hd : (defs.map (defToDict C)).mapM (defFromDict C) = .ok (defs.map (CustomDef.map nrm)) := by
    rw [List.mapM_map]
    exact mapM_ok _ (CustomDef.map nrm) defs (fun d hd => def_rt C nrm okName auto L d (hc.defs d (hsub d hd)))
  have hfind : ∀ d ∈ c.ops.filterMap customDefOf,
      (defs.map (CustomDef.map nrm)).find? (nameEq d.gateName) = some (d.map nrm) := by
    intro d hd
    rw [List.find?_map]
    have : (nameEq d.gateName ∘ CustomDef.map nrm) = (nameEq d.gateName : CustomDef P → Bool) := by
      funext x; rfl
    rw [this, find_unique _ defs hc.consistent hsub d (hsup d hd)]; rfl
  have ho : (c.ops.map (opToDict env C)).mapM (opFromDict env C (defs.map (CustomDef.map nrm))) =
      .ok (c.ops.map (Op.map nrm)) := by
    rw [List.mapM_map]
    apply mapM_ok _ (Op.map nrm)
    intro o ho
    have hg := gate_rt env h C nrm okName auto L (defs.map (CustomDef.map nrm)) o.gate (hc.gates o ho)
      (by intro d ps hin
          apply hfind
          simp only [List.mem_filterMap]
          exact ⟨o, ho, by simp [customDefOf, hin]⟩)
    simp [Function.comp, opFromDict, opToDict, hg, Op.map]
  simp only [circuitFromDict, hd, ho]
  exact mkCircuit_map nrm c.ops c.nQubits c hc.ctor

/-! ### maps: structure, identity, free symbols -/

theorem CustomDef.map_map {Q R : Type} (f : P → Q) (g : Q → R) (d : CustomDef P) :
    (d.map f).map g = d.map (g ∘ f) := by
  simp [CustomDef.map, Function.comp]

theorem Gate.map_map {Q R : Type} (f : P → Q) (g : Q → R) (x : Gate P E) :
    (x.map f).map g = x.map (g ∘ f) := by
  induction x with
  | builtin n ps => simp [Gate.map]
  | custom d ps => simp [Gate.map, CustomDef.map_map]
  | controlled x k ih => simp [Gate.map, ih]
  | dagger x ih => simp [Gate.map, ih]
  | exponential x ih => simp [Gate.map, ih]
  | power x e ih => simp [Gate.map, ih]

/-- every expression a gate carries: its parameters and, for a custom gate, the entries of its definition -/
def Gate.allP : Gate P E → List P
  | .builtin _ ps => ps
  | .custom d ps => ps ++ d.matrix.flatten
  | .controlled g _ => g.allP
  | .dagger g => g.allP
  | .exponential g => g.allP
  | .power g _ => g.allP

theorem map_id_list (f : P → P) (l : List P) (h : ∀ p ∈ l, f p = p) : l.map f = l := by
  induction l with
  | nil => rfl
  | cons x xs ih => simp [h x (by simp), ih (fun p hp => h p (by simp [hp]))]

theorem Gate.map_id_of (f : P → P) (g : Gate P E) (h : ∀ p ∈ g.allP, f p = p) : g.map f = g := by
  induction g with
  | builtin n ps => simp [Gate.map, map_id_list f ps h]
  | custom d ps =>
    have h1 : ps.map f = ps := map_id_list f ps (fun p hp => h p (by simp [Gate.allP, hp]))
    have h2 : d.matrix.map (fun r => r.map f) = d.matrix := by
      have : ∀ rows : List (List P), (∀ p ∈ rows.flatten, f p = p) → rows.map (fun r => r.map f) = rows := by
        intro rows
        induction rows with
        | nil => intro _; rfl
        | cons r rs ih =>
          intro hh
          simp only [List.map_cons]
          rw [map_id_list f r (fun p hp => hh p (by simp [hp])), ih (fun p hp => hh p (by
            simp only [List.flatten_cons, List.mem_append]; exact Or.inr hp))]
      exact this d.matrix (fun p hp => h p (by simp only [Gate.allP, List.mem_append]; exact Or.inr hp))
    simp [Gate.map, CustomDef.map, h1, h2]
  | controlled g k ih => simp [Gate.map, ih h]
  | dagger g ih => simp [Gate.map, ih h]
  | exponential g ih => simp [Gate.map, ih h]
  | power g e ih => simp [Gate.map, ih h]

/-! ### meaning: the matrix of a gate under an assignment of the symbols -/

/-- what C01/C02/C06/C07 say the pieces mean; here only compositionality matters -/
structure Sem (P E V M : Type) where
  eval : P → (Name → V) → V                 -- value of an expression under an assignment
  builtinMat : Name → List V → M            -- matrix factory of a built-in gate at parameter values
  entriesMat : List (List V) → M
  ctrl : Int → M → M
  adj : M → M
  mexp : M → M
  mpow : E → M → M

/-- the assignment extended by formal ↦ value (simultaneous substitution of a custom gate) -/
def override {V : Type} (σ : Name → V) : List Name → List V → Name → V
  | n :: ns, v :: vs, x => if x = n then v else override σ ns vs x
  | _, _, x => σ x

def gateMat {V M : Type} (S : Sem P E V M) : Gate P E → (Name → V) → M
  | .builtin n ps, σ => S.builtinMat n (ps.map (fun p => S.eval p σ))
  | .custom d ps, σ =>
    S.entriesMat (d.matrix.map (fun r => r.map (fun e =>
      S.eval e (override σ d.ordering (ps.map (fun p => S.eval p σ))))))
  | .controlled g k, σ => S.ctrl k (gateMat S g σ)
  | .dagger g, σ => S.adj (gateMat S g σ)
  | .exponential g, σ => S.mexp (gateMat S g σ)
  | .power g e, σ => S.mpow e (gateMat S g σ)

theorem gateMat_map {V M : Type} (S : Sem P E V M) (nrm : P → P) (hv : ∀ p σ, S.eval (nrm p) σ = S.eval p σ)
    (g : Gate P E) (σ : Name → V) : gateMat S (g.map nrm) σ = gateMat S g σ := by
  induction g with
  | builtin n ps => simp [Gate.map, gateMat, Function.comp_def, hv]
  | custom d ps => simp [Gate.map, gateMat, CustomDef.map, Function.comp_def, hv]
  | controlled g k ih => simp [Gate.map, gateMat, ih]
  | dagger g ih => simp [Gate.map, gateMat, ih]
  | exponential g ih => simp [Gate.map, gateMat, ih]
  | power g e ih => simp [Gate.map, gateMat, ih]

/-! ### decidable forms of the name hypotheses, and a toy codec satisfying the law (non-vacuity) -/

def noBaseClashB (names : List Name) : Bool :=
  names.all fun a => names.all fun b =>
    match parseIndexed a, parseIndexed b with
    | none, some (base, _) => a != base
    | _, _ => true

theorem noBaseClash_of_B (names : List Name) (h : noBaseClashB names = true) : NoBaseClash names := by
  intro a ha b hb hpa base ds hpb
  simp only [noBaseClashB, List.all_eq_true] at h
  have := h a ha b hb
  rw [hpa, hpb] at this
  simpa using this

def indexInjB (names : List Name) : Bool :=
  names.all fun a => names.all fun b =>
    match parseIndexed a, parseIndexed b with
    | some (ba, da), some (bb, db) => !(ba == bb && digitsToNat da == digitsToNat db) || a == b
    | _, _ => true

theorem indexInj_of_B (names : List Name) (h : indexInjB names = true) : IndexInj names := by
  intro a ha b hb base da db hpa hpb hd
  simp only [indexInjB, List.all_eq_true] at h
  have := h a ha b hb
  rw [hpa, hpb] at this
  simpa [hd] using this

/-- toy expressions: a number (`none`, printed `1`) or a bare symbol -/
def toySympify (m : SymMap) (t : Name) : Except Err (Option Name) :=
  if t = ['1'] then .ok none
  else if alookup m t = none ∧ parseIndexed t = none then .ok (some t)
  else match resolve m t with
    | some n => .ok (some n)
    | none => .error .type

def toyCodec : Codec (Option Name) Expo where
  ser := fun p => p.getD ['1']
  sympify := toySympify
  free := fun p => p.toList
  expoText := fun e => e.text
  defNe := fun a b => a != b

def toyOk (s : Name) : Prop := s ≠ ['1']
def toyAuto (s : Name) : Prop := parseIndexed s = none

theorem toyLaw : SympifyLaw toyCodec id toyOk toyAuto where
  sympify_ser := by
    intro m p hp
    cases p with
    | none => simp [toyCodec, toySympify]
    | some s =>
      obtain ⟨hok, hres⟩ := hp s (by simp [toyCodec])
      have h1 : s ≠ ['1'] := hok
      simp only [toyCodec, Option.getD_some, toySympify, h1, if_false, id]
      split
      · rfl
      · rename_i hn
        rcases hres with hr | ⟨ha, hu⟩
        · rw [hr]
        · exact absurd ⟨hu, ha⟩ hn
  free_nrm := fun _ => rfl
  defNe_irrefl := by intro d; simp [toyCodec]

/-- a concrete circuit inside the domain of the round-trip theorem: wrappers, an indexed symbol in a built-in
    gate, a custom gate applied to its own formal and to an indexed symbol, idle qubits -/
def toyDef : CustomDef (Option Name) :=
  ⟨"U".toList, [[some "theta".toList, none], [none, some "theta".toList]], ["theta".toList]⟩

def toySample : Circuit (Option Name) Expo :=
  ⟨5, [⟨.controlled (.dagger (.builtin ['R', 'X'] [some "x[3]".toList])) 1, [3, 0]⟩,
       ⟨.exponential (.power (.builtin ['X'] []) ⟨false, 1, 2, "0.5".toList⟩), [0]⟩,
       ⟨.dagger (.custom toyDef [some "theta".toList]), [1]⟩,
       ⟨.custom toyDef [some "x[3]".toList], [2]⟩]⟩

theorem toySample_ok : CircuitOK genEnv toyCodec toyOk toyAuto toySample where
  gates := by
    intro o ho
    simp only [toySample, List.mem_cons, List.not_mem_nil, or_false] at ho
    rcases ho with rfl | rfl | rfl | rfl
    · refine ⟨by decide, ⟨⟨⟨['R','X'], ['R','X'], 1, 1, false, true⟩, by decide, by decide⟩,
        noBaseClash_of_B _ (by decide), indexInj_of_B _ (by decide), ?_⟩⟩
      intro s hs
      have : s = "x[3]".toList := by
        have h : Gate.free toyCodec (.builtin ['R','X'] [some "x[3]".toList] : Gate (Option Name) Expo) = ["x[3]".toList] := by decide
        rw [h] at hs; simpa using hs
      subst this; unfold toyOk; decide
    · refine ⟨by decide, by decide, by decide, ⟨⟨['X'], ['X'], 1, 0, true, false⟩, by decide, by decide⟩,
        noBaseClash_of_B _ (by decide), indexInj_of_B _ (by decide), ?_⟩
      intro s hs
      have h : Gate.free toyCodec (.builtin ['X'] [] : Gate (Option Name) Expo) = [] := by decide
      rw [h] at hs; simp at hs
    · refine ⟨by decide, noBaseClash_of_B _ (by decide), indexInj_of_B _ (by decide),
        noBaseClash_of_B _ (by decide), indexInj_of_B _ (by decide), ?_⟩
      intro s hs
      have h : Gate.free toyCodec (.custom toyDef [some "theta".toList] : Gate (Option Name) Expo) = ["theta".toList] := by
        decide
      rw [h] at hs
      have : s = "theta".toList := by simpa using hs
      subst this; unfold toyOk; decide
    · refine ⟨by decide, noBaseClash_of_B _ (by decide), indexInj_of_B _ (by decide),
        noBaseClash_of_B _ (by decide), indexInj_of_B _ (by decide), ?_⟩
      intro s hs
      have h : Gate.free toyCodec (.custom toyDef [some "x[3]".toList] : Gate (Option Name) Expo) = ["x[3]".toList] := by
        decide
      rw [h] at hs
      have : s = "x[3]".toList := by simpa using hs
      subst this; unfold toyOk; decide
  defs := by
    intro d hd
    have h : toySample.ops.filterMap customDefOf = [toyDef, toyDef] := by decide
    rw [h] at hd
    have : d = toyDef := by simpa using hd
    subst this
    refine ⟨by decide, noBaseClash_of_B _ (by decide), indexInj_of_B _ (by decide), ?_⟩
    intro row hrow e he s hs
    have hs' : s = "theta".toList := by
      simp only [toyDef, List.mem_cons, List.not_mem_nil, or_false] at hrow
      rcases hrow with rfl | rfl <;>
        (simp only [List.mem_cons, List.not_mem_nil, or_false] at he
         rcases he with rfl | rfl <;> simp [toyCodec] at hs <;> exact hs)
    subst hs'
    exact ⟨by unfold toyOk; decide, Or.inl (by decide)⟩
  consistent := by
    have h : toySample.ops.filterMap customDefOf = [toyDef, toyDef] := by decide
    rw [h]
    intro a ha b hb _
    have ha' : a = toyDef := by simpa using ha
    have hb' : b = toyDef := by simpa using hb
    rw [ha', hb']
  ctor := by decide

end OQ.C05
