/- helper lemmas of the translation ties `OQ/Props/C15_TranslatedEstimate.lean` (not property theorems): loops / comprehensions that may
   raise (`OQ.Py.foldlOpt`, `OQ.Py.mapOpt`) against the model's `mapE`; the write-back loops with `Int` indices. -/
import OQ.Model.C15
import OQ.Exec.Py
namespace OQ.C15

theorem toOption_ok_iff {ε α : Type} (x : Except ε α) (a : α) : x.toOption = some a ↔ x = .ok a := by
  cases x <;> simp [Except.toOption]

theorem toOption_ok {ε α : Type} (a : α) : (Except.ok a : Except ε α).toOption = some a := rfl
theorem toOption_error {ε α : Type} (e : ε) : (Except.error e : Except ε α).toOption = none := rfl

/-- `[g(x) for x in xs]` with a raising `g`, against the model's `mapE` -/
theorem mapOpt_toOption {ε α β : Type} (f : α → Except ε β) (l : List α) :
    OQ.Py.mapOpt (fun a => (f a).toOption) l = (mapE f l).toOption := by
  induction l with
  | nil => rfl
  | cons a l ih =>
    simp only [OQ.Py.mapOpt, mapE, ih]
    cases f a with
    | error e => rfl
    | ok b =>
      cases mapE f l with
      | error e => rfl
      | ok bs => rfl

theorem mapOpt_congr {α β : Type} (f g : α → Option β) (l : List α) (h : ∀ a ∈ l, f a = g a) :
    OQ.Py.mapOpt f l = OQ.Py.mapOpt g l := by
  induction l with
  | nil => rfl
  | cons a l ih =>
    simp only [OQ.Py.mapOpt]
    rw [h a (by simp), ih (fun b hb => h b (by simp [hb]))]

/-- `[g(y) for y in [f(x) for x in xs]]` with a raising `f` and a total `g` -/
theorem mapOpt_bind_map {α β γ : Type} (f : α → Option β) (g : β → γ) (l : List α) :
    (OQ.Py.mapOpt f l).bind (fun bs => some (bs.map g)) = OQ.Py.mapOpt (fun a => (f a).bind (fun b => some (g b))) l := by
  induction l with
  | nil => rfl
  | cons a l ih =>
    simp only [OQ.Py.mapOpt, ← ih]
    cases f a with
    | none => rfl
    | some b =>
      cases OQ.Py.mapOpt f l with
      | none => rfl
      | some bs => rfl

/-- the guard `len(maps) != len(tasks)` (Python ints) followed by the result, against the model's `Except` -/
theorem len_guard {ε β : Type} (a b : Nat) (e : ε) (x : β) :
    (if (((a : Nat) : Int) != ((b : Nat) : Int)) then none else some x) = (if a ≠ b then Except.error e else Except.ok x).toOption := by
  by_cases h : a = b
  · subst h; simp [Except.toOption]
  · have : (((a : Nat) : Int) != ((b : Nat) : Int)) = true := by
      rw [bne_iff_ne]; exact fun hh => h (Int.ofNat.inj hh)
    simp [h, this, Except.toOption]

/-- a raising loop that appends one value per item is the raising comprehension -/
theorem foldlOpt_append {α β : Type} (g : α → Option β) (f : List β → α → Option (List β))
    (h : ∀ acc a, f acc a = (g a).bind (fun b => some (acc ++ [b]))) (acc : List β) (l : List α) :
    OQ.Py.foldlOpt f acc l = (OQ.Py.mapOpt g l).bind (fun bs => some (acc ++ bs)) := by
  induction l generalizing acc with
  | nil => simp [OQ.Py.foldlOpt, OQ.Py.mapOpt]
  | cons a l ih =>
    simp only [OQ.Py.foldlOpt, OQ.Py.mapOpt, h]
    cases g a with
    | none => rfl
    | some b =>
      simp only [Option.bind_some, ih]
      cases OQ.Py.mapOpt g l with
      | none => rfl
      | some bs => simp

/-- the write-back loop `for v, i in zip(vals, idx): full[i] = v` of the translated code (indices are Python ints) -/
theorem writeBack_int {V : Type} (vals : List V) (idx : List Nat) (full : List (Option V)) :
    (List.zip vals (idx.map Int.ofNat)).foldl (fun (st : List (Option V)) (p : V × Int) => st.set (Int.toNat p.2) (some p.1)) full
      = (vals.zip idx).foldl (fun acc p => acc.set p.2 (some p.1)) full := by
  induction vals generalizing idx full with
  | nil => simp
  | cons v vs ih =>
    cases idx with
    | nil => simp
    | cons i is =>
      simp only [List.map_cons, List.zip_cons_cons, List.foldl_cons, Int.ofNat_eq_natCast, Int.toNat_natCast]
      exact ih is _

theorem map_const_range {β : Type} (n : Nat) (b : β) :
    ((List.range n).map Int.ofNat).map (fun _ => b) = List.replicate n b := by
  rw [List.map_map]
  induction n with
  | zero => rfl
  | succ k ih => rw [List.range_succ, List.map_append, ih, List.replicate_succ']; rfl

/-- `list(maps) * n` for a one-element list -/
theorem replicate_singleton_flatten {M : Type} (n : Nat) (m : M) : (List.replicate n [m]).flatten = List.replicate n m := by
  induction n with
  | zero => rfl
  | succ k ih => rw [List.replicate_succ, List.flatten_cons, ih, List.replicate_succ]; rfl

end OQ.C15
