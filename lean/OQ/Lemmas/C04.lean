/- helper lemmas for C04 (not property theorems) -/
import OQ.Model.C04
import Mathlib.Tactic.Ring
import Mathlib.Tactic.Linarith
import Mathlib.Data.List.Basic
import Mathlib.Algebra.BigOperators.Group.List.Basic
import Mathlib.Data.List.Count
import Mathlib.Data.Rat.Defs
import Mathlib.Algebra.Order.Field.Rat
import Mathlib.Tactic.FieldSimp
import OQ.Lemmas.Bridge
import Mathlib.Algebra.BigOperators.Ring.Finset
import Mathlib.Algebra.Ring.Parity
import OQ.Lemmas.C04_Spec
import Mathlib.Algebra.BigOperators.Fin
import Mathlib.Data.Fintype.BigOperators
import Mathlib.Data.Fintype.EquivFin
namespace OQ.C04

/-! ### A. binary strings, itertools.product -/

theorem bit_lt_two (n k q : Nat) : bit n k q < 2 := by unfold bit; omega

theorem bits_length (n k : Nat) : (bits n k).length = n := by simp [bits]

theorem bits_getElem? (n k q : Nat) (hq : q < n) : (bits n k)[q]? = some (bit n k q) := by
  simp [bits, List.getElem?_map, List.getElem?_range hq]

theorem bit_succ_lt (n k q : Nat) (hq : q < n) : bit (n + 1) k q = bit n (k / 2) q := by
  unfold bit
  have : n + 1 - 1 - q = (n - 1 - q) + 1 := by omega
  rw [this, Nat.pow_succ, Nat.mul_comm, ← Nat.div_div_eq_div_mul]

theorem bit_succ_last (n k : Nat) : bit (n + 1) k n = k % 2 := by
  unfold bit; simp

theorem bits_succ (n k : Nat) : bits (n + 1) k = bits n (k / 2) ++ [k % 2] := by
  unfold bits
  rw [List.range_succ, List.map_append]
  congr 1
  · apply List.map_congr_left
    intro q hq
    exact bit_succ_lt n k q (List.mem_range.mp hq)
  · simp [bit_succ_last]

theorem bits_zero (n : Nat) : bits n 0 = List.replicate n 0 := by
  induction n with
  | zero => rfl
  | succ n ih => rw [bits_succ]; simp [ih, List.replicate_succ']

theorem binDigitsFuel_pad (n : Nat) (hn : 1 ≤ n) : ∀ i f, i < 2 ^ n → i ≤ f →
    List.replicate (n - (binDigitsFuel f i).length) 0 ++ binDigitsFuel f i = bits n i := by
  induction n, hn using Nat.le_induction with
  | base =>
    intro i f hi hf
    have hi' : i < 2 := by simpa using hi
    cases f with
    | zero =>
      have : i = 0 := by omega
      subst this; decide
    | succ f =>
      simp only [binDigitsFuel, hi', if_true]
      have hc : i = 0 ∨ i = 1 := by omega
      rcases hc with rfl | rfl <;> decide
  | succ n hn ih =>
    intro i f hi hf
    rw [bits_succ]
    by_cases h2 : i < 2
    · have hd : binDigitsFuel f i = [i] := by
        cases f with
        | zero => have : i = 0 := by omega
                  subst this; rfl
        | succ f => simp [binDigitsFuel, h2]
      rw [hd]
      have h0 : i / 2 = 0 := by omega
      have h1 : i % 2 = i := by omega
      rw [h0, h1, bits_zero]
      simp
    · cases f with
      | zero => omega
      | succ f =>
        simp only [binDigitsFuel, h2, if_false, List.length_append, List.length_singleton]
        have hi2 : i / 2 < 2 ^ n := by rw [Nat.pow_succ] at hi; omega
        have := ih (i / 2) f hi2 (by omega)
        rw [← this]
        have e : n + 1 - ((binDigitsFuel f (i / 2)).length + 1) = n - (binDigitsFuel f (i / 2)).length := by omega
        rw [e, List.append_assoc]

theorem formatBin_eq_bits (n i : Nat) (hn : 1 ≤ n) (hi : i < 2 ^ n) : formatBin n i = bits n i := by
  unfold formatBin binDigits
  exact binDigitsFuel_pad n hn i i hi (le_refl _)

/-- the key `format(i, "0nb")[::-1][:n]` is the reversed MSB-first bit tuple, for EVERY width (for n = 0 the
    slice cuts the single digit `format` still prints) -/
theorem outcome_key_eq (n i : Nat) (hi : i < 2 ^ n) : ((formatBin n i).reverse).take n = (bits n i).reverse := by
  by_cases hn : 1 ≤ n
  · rw [formatBin_eq_bits n i hn hi]
    apply List.take_of_length_le
    simp [bits_length]
  · have : n = 0 := by omega
    subst this
    simp [bits]

theorem range_double_map {α : Type} (f : Nat → α) (m : Nat) :
    (List.range (2 * m)).map f = (List.range m).flatMap (fun j => [f (2 * j), f (2 * j + 1)]) := by
  induction m with
  | zero => simp
  | succ m ih =>
    have : 2 * (m + 1) = 2 * m + 1 + 1 := by ring
    rw [this, List.range_succ, List.range_succ, List.map_append, List.map_append, ih,
      List.range_succ, List.flatMap_append]
    simp

theorem product01_eq (n : Nat) : product01 n = (List.range (2 ^ n)).map (bits n) := by
  induction n with
  | zero => rfl
  | succ n ih =>
    have h2 : 2 ^ (n + 1) = 2 * 2 ^ n := by ring
    rw [product01, ih, h2, range_double_map, List.flatMap_map]
    apply List.flatMap_congr
    intro j _
    rw [bits_succ, bits_succ]
    have a : 2 * j / 2 = j := by omega
    have b : (2 * j + 1) / 2 = j := by omega
    have c : 2 * j % 2 = 0 := by omega
    have d : (2 * j + 1) % 2 = 1 := by omega
    rw [a, b, c, d]

/-! ### B. outcome keys, sampling -/


theorem mapM_option_of_forall {α β : Type} (f : α → Option β) (g : α → β) (l : List α)
    (h : ∀ a ∈ l, f a = some (g a)) : l.mapM f = some (l.map g) := by
  induction l with
  | nil => rfl
  | cons a l ih =>
    rw [List.mapM_cons, h a (by simp), ih (fun b hb => h b (by simp [hb]))]
    rfl

theorem mapM_except_of_forall {ε α β : Type} (f : α → Except ε β) (g : α → β) (l : List α)
    (h : ∀ a ∈ l, f a = .ok (g a)) : l.mapM f = .ok (l.map g) := by
  induction l with
  | nil => rfl
  | cons a l ih =>
    rw [List.mapM_cons, h a (by simp), ih (fun b hb => h b (by simp [hb]))]
    rfl


/-- the key strings of `get_outcome_probs`, in dict order -/
theorem outcome_keys {R : Type} [Mul R] (k : Scal R) (amps : List R) (n : Nat) (hlen : amps.length = 2 ^ n) :
    (getOutcomeProbs k amps).map (·.1) = (List.range (2 ^ n)).map (fun i => (bits n i).reverse) := by
  unfold getOutcomeProbs getProbabilities
  simp only
  rw [List.map_fst_zip (by simp)]
  rw [hlen, Nat.log2_two_pow]
  apply List.map_congr_left
  intro i hi
  rw [outcome_key_eq n i (List.mem_range.mp hi)]

theorem outcome_entry {R : Type} [Zero R] [Mul R] (k : Scal R) (amps : List R) (n : Nat) (hlen : amps.length = 2 ^ n)
    (i : Nat) (hi : i < 2 ^ n) :
    (getOutcomeProbs k amps)[i]? = some ((bits n i).reverse, normSq k (amps.getD i 0)) := by
  unfold getOutcomeProbs getProbabilities
  simp only
  rw [List.getElem?_zip_eq_some]
  rw [hlen, Nat.log2_two_pow]
  constructor
  · simp [List.getElem?_map, List.getElem?_range hi, outcome_key_eq n i hi]
  · have : i < amps.length := by omega
    simp [List.getElem?_map, List.getElem?_eq_getElem this, List.getD_eq_getElem?_getD]




theorem sampleBranchLarge_eq (strings : List (List Nat)) (draws : List Nat)
    (h : ∀ i ∈ draws, i < strings.length) :
    sampleBranchLarge strings draws =
      some (draws.map (fun i => Drawn.tuple (bitstringToTuple (strings.getD i [])))) := by
  unfold sampleBranchLarge
  apply mapM_option_of_forall
  intro i hi
  have hlt := h i hi
  rw [List.getElem?_append_left (by simpa using hlt)]
  simp [List.getElem?_map, List.getElem?_eq_getElem hlt, List.getD_eq_getElem?_getD]

theorem sampleBranchSmall_eq (strings : List (List Nat)) (draws : List Nat)
    (h : ∀ i ∈ draws, i < strings.length) :
    sampleBranchSmall strings draws =
      some (draws.map (fun i => Drawn.tuple (bitstringToTuple (strings.getD i [])))) := by
  unfold sampleBranchSmall
  rw [mapM_option_of_forall _ (fun i => strings.getD i []) draws]
  · simp
  · intro i hi
    have hlt := h i hi
    simp [List.getElem?_eq_getElem hlt, List.getD_eq_getElem?_getD]

/-- a draw of the sentinel index (probability 0) yields the non-tuple `0` in the many-samples branch -/
theorem sampleBranchLarge_sentinel (strings : List (List Nat)) :
    sampleBranchLarge strings [strings.length] = some [Drawn.sentinel] := by
  unfold sampleBranchLarge
  simp


theorem sample_eq {R : Type} [Mul R] (k : Scal R) (amps : List R) (n : Nat) (hlen : amps.length = 2 ^ n)
    (nSamples : Int) (hs : 1 ≤ nSamples) (draws : List Nat) (hcount : (draws.length : Int) = nSamples)
    (hdraw : ∀ i ∈ draws, i < 2 ^ n) :
    sampleFromWavefunction k amps nSamples draws = .ok (draws.map (fun i => Drawn.tuple (bits n i))) := by
  unfold sampleFromWavefunction
  have h1 : ¬ nSamples < 1 := by omega
  simp only [h1, if_false, hcount, ne_eq, not_true_eq_false]
  rw [outcome_keys k amps n hlen]
  have hl : ∀ i ∈ draws, i < ((List.range (2 ^ n)).map (fun i => (bits n i).reverse)).length := by
    simpa using hdraw
  rw [sampleBranchLarge_eq _ _ hl, sampleBranchSmall_eq _ _ hl]
  simp only [ite_self]
  congr 1
  apply List.map_congr_left
  intro i hi
  have := hdraw i hi
  simp [List.getD_eq_getElem?_getD, List.getElem?_map, List.getElem?_range this, bitstringToTuple]

theorem run_eq {R : Type} [Mul R] (k : Scal R) (amps : List R) (n : Nat) (hlen : amps.length = 2 ^ n)
    (nSamples : Int) (hs : 1 ≤ nSamples) (draws : List Nat) (hcount : (draws.length : Int) = nSamples)
    (hdraw : ∀ i ∈ draws, i < 2 ^ n) :
    runAndMeasure k amps nSamples draws = .ok (draws.map (bits n)) := by
  unfold runAndMeasure
  have h1 : ¬ nSamples ≤ 0 := by omega
  simp only [h1, if_false, sample_eq k amps n hlen nSamples hs draws hcount hdraw]
  rw [mapM_except_of_forall _ (fun d => match d with | .tuple t => t | .sentinel => []) _]
  · simp
  · intro d hd
    simp only [List.mem_map] at hd
    obtain ⟨i, _, rfl⟩ := hd
    rfl


/-! ### C. counts, parity of marked positions -/


/-- eigenvalue ±1 of ∏_{q∈marked} Z_q on the outcome `row` (total function; position q of the row) -/
def signOf (marked : List Nat) (row : List Nat) : Int :=
  if (marked.map (fun q => row.getD q 0)).sum % 2 = 0 then 1 else -1

theorem paritySign_eq (marked row : List Nat) (h : ∀ q ∈ marked, q < row.length) :
    paritySign marked row = some (signOf marked row) := by
  unfold paritySign parityEven signOf
  by_cases he : marked = []
  · subst he; simp
  · have : marked.isEmpty = false := by simpa using he
    simp only [this, Bool.false_eq_true, if_false]
    rw [mapM_option_of_forall _ (fun q => row.getD q 0) marked]
    · simp only [Option.map_some]
      generalize (marked.map (fun q => row.getD q 0)).sum = S
      rcases Nat.mod_two_eq_zero_or_one S with h0 | h0
      · have : (S + 1) % 2 = 1 := by omega
        simp [h0, this]
      · have : (S + 1) % 2 = 0 := by omega
        simp [h0, this]
    · intro q hq
      have := h q hq
      simp [List.getElem?_eq_getElem this, List.getD_eq_getElem?_getD]

/-- weighted sum of a function over a counter -/
def Counts.wsum (f : List Nat → Int) (c : Counts) : Int := (c.map (fun p => (p.2 : Int) * f p.1)).sum

theorem bump_wsum (f : List Nat → Int) (c : Counts) (s : List Nat) :
    Counts.wsum f (Counts.bump c s) = Counts.wsum f c + f s := by
  induction c with
  | nil => simp [Counts.bump, Counts.wsum]
  | cons p rest ih =>
    obtain ⟨s', v⟩ := p
    simp only [Counts.bump]
    split
    · rename_i h
      have : s' = s := by simpa using h
      subst this
      simp [Counts.wsum]; ring
    · simp only [Counts.wsum, List.map_cons, List.sum_cons] at ih ⊢
      rw [ih]; ring

theorem getCounts_wsum_aux (f : List Nat → Int) (shots : List (List Nat)) (acc : Counts) :
    Counts.wsum f (shots.foldl (fun acc t => Counts.bump acc (tupleToBitstring t)) acc) =
      Counts.wsum f acc + (shots.map f).sum := by
  induction shots generalizing acc with
  | nil => simp
  | cons t ts ih =>
    simp only [List.foldl_cons, List.map_cons, List.sum_cons]
    rw [ih, bump_wsum]; simp [tupleToBitstring]; ring

/-- summing `count × f(key)` over `get_counts` = summing `f` over the shots -/
theorem getCounts_wsum (f : List Nat → Int) (shots : List (List Nat)) :
    Counts.wsum f (getCounts shots) = (shots.map f).sum := by
  unfold getCounts; rw [getCounts_wsum_aux]; simp [Counts.wsum]

theorem bump_get (c : Counts) (s s0 : List Nat) :
    (Counts.bump c s).get s0 = c.get s0 + (if s = s0 then 1 else 0) := by
  induction c with
  | nil => by_cases h : s = s0 <;> simp [Counts.bump, Counts.get, h]
  | cons p rest ih =>
    obtain ⟨s', v⟩ := p
    by_cases h1 : s' = s <;> by_cases h2 : s' = s0 <;> by_cases h3 : s = s0 <;>
      simp_all [Counts.bump, Counts.get]

theorem getCounts_get_aux (shots : List (List Nat)) (acc : Counts) (s0 : List Nat) :
    (shots.foldl (fun acc t => Counts.bump acc (tupleToBitstring t)) acc).get s0 =
      acc.get s0 + shots.count s0 := by
  induction shots generalizing acc with
  | nil => simp
  | cons t ts ih =>
    simp only [List.foldl_cons]
    rw [ih, bump_get, List.count_cons]
    by_cases h : t = s0 <;> simp [h, tupleToBitstring]; omega

/-- `get_counts()[s]` is the number of shots whose position-q digits spell `s` -/
theorem getCounts_get (shots : List (List Nat)) (s0 : List Nat) :
    (getCounts shots).get s0 = shots.count s0 := by
  unfold getCounts; rw [getCounts_get_aux]; simp [Counts.get]

theorem bump_keys (c : Counts) (s : List Nat) :
    ∀ p ∈ Counts.bump c s, p.1 = s ∨ p.1 ∈ c.map (·.1) := by
  induction c with
  | nil => simp [Counts.bump]
  | cons q rest ih =>
    obtain ⟨s', v⟩ := q
    intro p hp
    simp only [Counts.bump] at hp
    split at hp
    · rcases List.mem_cons.mp hp with h | h
      · subst h; simp
      · right; simp only [List.map_cons, List.mem_cons, List.mem_map]; right; exact ⟨p, h, rfl⟩
    · rcases List.mem_cons.mp hp with h | h
      · subst h; simp
      · rcases ih p h with h' | h'
        · exact Or.inl h'
        · right; simp only [List.map_cons, List.mem_cons]; right; exact h'

theorem getCounts_keys_aux (shots : List (List Nat)) (acc : Counts) :
    ∀ p ∈ shots.foldl (fun acc t => Counts.bump acc (tupleToBitstring t)) acc,
      p.1 ∈ acc.map (·.1) ∨ p.1 ∈ shots := by
  induction shots generalizing acc with
  | nil => intro p hp; left; exact List.mem_map_of_mem hp
  | cons t ts ih =>
    intro p hp
    simp only [List.foldl_cons] at hp
    rcases ih _ p hp with h | h
    · simp only [List.mem_map] at h
      obtain ⟨p', hp', e⟩ := h
      rcases bump_keys acc _ p' hp' with h' | h'
      · right; rw [← e, h']; simp [tupleToBitstring]
      · left; rw [← e]; exact h'
    · right; simp [h]

/-- every key of `get_counts` is one of the shots -/
theorem getCounts_keys (shots : List (List Nat)) : ∀ p ∈ getCounts shots, p.1 ∈ shots := by
  intro p hp
  rcases getCounts_keys_aux shots [] p hp with h | h
  · simp at h
  · exact h

theorem bump_total (c : Counts) (s : List Nat) :
    ((Counts.bump c s).map (·.2)).sum = (c.map (·.2)).sum + 1 := by
  induction c with
  | nil => simp [Counts.bump]
  | cons p rest ih =>
    obtain ⟨s', v⟩ := p
    simp only [Counts.bump]
    split
    · simp; omega
    · simp only [List.map_cons, List.sum_cons, ih]; omega

theorem getCounts_total_aux (shots : List (List Nat)) (acc : Counts) :
    ((shots.foldl (fun acc t => Counts.bump acc (tupleToBitstring t)) acc).map (·.2)).sum =
      (acc.map (·.2)).sum + shots.length := by
  induction shots generalizing acc with
  | nil => simp
  | cons t ts ih => simp only [List.foldl_cons, List.length_cons]; rw [ih, bump_total]; omega

/-- the counts add up to the number of shots -/
theorem getCounts_total (shots : List (List Nat)) : ((getCounts shots).map (·.2)).sum = shots.length := by
  unfold getCounts; rw [getCounts_total_aux]; simp

theorem getCounts_ne_nil (shots : List (List Nat)) (h : shots ≠ []) : getCounts shots ≠ [] := by
  intro he
  have := getCounts_total shots
  rw [he] at this
  cases shots with
  | nil => exact h rfl
  | cons a l => simp at this

theorem sum_div_const (l : List Int) (d : Rat) :
    (l.map (fun x : Int => ((x : Int) : Rat) / d)).sum = ((l.sum : Int) : Rat) / d := by
  induction l with
  | nil => simp
  | cons a l ih => simp only [List.map_cons, List.sum_cons, ih, Int.cast_add]; ring

theorem zip_map_self {α β : Type} (l : List α) (g : α → β) : l.zip (l.map g) = l.map (fun a => (a, g a)) := by
  induction l with
  | nil => rfl
  | cons a l ih => simp [ih]

/-- `get_expectation_value_from_frequencies` on the counts of a list of shots of width `n` is the
    average over the shots of the eigenvalue read at the marked POSITIONS of each shot -/
theorem expectationFromFrequencies_counts (marked : List Nat) (n : Nat) (hn : 1 ≤ n) (shots : List (List Nat))
    (hne : shots ≠ []) (hlen : ∀ t ∈ shots, t.length = n) (hm : ∀ q ∈ marked, q < n) :
    expectationFromFrequencies marked (getCounts shots) =
      .ok (((shots.map (signOf marked)).sum : Int) / (shots.length : Rat)) := by
  have hkeys := getCounts_keys shots
  have hnn := getCounts_ne_nil shots hne
  unfold expectationFromFrequencies
  cases hc : getCounts shots with
  | nil => exact absurd hc hnn
  | cons p0 rest =>
    obtain ⟨first, c0⟩ := p0
    simp only
    rw [← hc]
    have hall : (getCounts shots).all (fun p => p.1.length == first.length) = true := by
      rw [List.all_eq_true]
      intro p hp
      have h1 := hlen p.1 (hkeys p hp)
      have h2 := hlen first (hkeys (first, c0) (by rw [hc]; simp))
      simp [h1, h2]
    have hfirst : ¬ first.length = 0 := by
      have := hlen first (hkeys (first, c0) (by rw [hc]; simp))
      omega
    simp only [hfirst, hall, Bool.not_true, Bool.false_eq_true, if_false]
    rw [mapM_option_of_forall _ (fun p => signOf marked p.1) (getCounts shots)]
    · simp only
      rw [zip_map_self, List.map_map]
      have htot := getCounts_total shots
      rw [htot]
      have := sum_div_const ((getCounts shots).map (fun p => (p.2 : Int) * signOf marked p.1)) (shots.length : Rat)
      rw [List.map_map] at this
      have hw := getCounts_wsum (signOf marked) shots
      unfold Counts.wsum at hw
      rw [hw] at this
      rw [← this]
      rfl
    · intro p hp
      exact paritySign_eq marked p.1 (fun q hq => by rw [hlen p.1 (hkeys p hp)]; exact hm q hq)


/-! ### D. Z-strings are diagonal -/

open OQ.Pauli

variable {R : Type} [CommRing R]

/-- exponent of −1 on the diagonal of a Z-string: number of Z-marked qubits whose bit is 1 -/
def zexp (at_ : Nat → Option P) (n i : Nat) : Nat :=
  ∑ q ∈ Finset.range n, if at_ q = some P.Z then bit n i q else 0

theorem zexp_succ (at_ : Nat → Option P) (n i : Nat) :
    zexp at_ (n + 1) i = zexp at_ n (i / 2) + (if at_ n = some P.Z then i % 2 else 0) := by
  unfold zexp
  rw [Finset.sum_range_succ, bit_succ_last]
  congr 1
  apply Finset.sum_congr rfl
  intro q hq
  rw [bit_succ_lt n i q (Finset.mem_range.mp hq)]

theorem pauliMat_dims (k : Scal R) (o : Option P) : (pauliMat k o).r = 2 ∧ (pauliMat k o).c = 2 := by
  cases o with
  | none => exact ⟨rfl, rfl⟩
  | some p => cases p <;> exact ⟨rfl, rfl⟩

theorem pauliMat_diag (k : Scal R) (o : Option P) (ho : o = none ∨ o = some P.Z) (a b : Nat)
    (ha : a < 2) (hb : b < 2) :
    (pauliMat k o).get a b = if a = b then (-1 : R) ^ (if o = some P.Z then a else 0) else 0 := by
  have ha' : a = 0 ∨ a = 1 := by omega
  have hb' : b = 0 ∨ b = 1 := by omega
  rcases ho with rfl | rfl <;> rcases ha' with rfl | rfl <;> rcases hb' with rfl | rfl <;>
    simp [pauliMat, Mat.ofLists, Mat.get_ofFn]

theorem stringMatrix_succ (k : Scal R) (n : Nat) (at_ : Nat → Option P) :
    stringMatrix k (n + 1) at_ = Mat.kron (stringMatrix k n at_) (pauliMat k (at_ n)) := by
  unfold stringMatrix
  rw [List.range_succ, List.foldl_append]
  rfl

theorem stringMatrix_dims (k : Scal R) (n : Nat) (at_ : Nat → Option P) :
    (stringMatrix k n at_).r = 2 ^ n ∧ (stringMatrix k n at_).c = 2 ^ n := by
  induction n with
  | zero => exact ⟨rfl, rfl⟩
  | succ n ih =>
    rw [stringMatrix_succ]
    have := pauliMat_dims k (at_ n)
    simp only [Mat.kron, Mat.ofFn_r, Mat.ofFn_c, ih.1, ih.2, this.1, this.2, Nat.pow_succ]
    exact ⟨trivial, trivial⟩

/-- a string of Z's and identities is diagonal, with entry (−1)^(number of marked qubits set in the
    row index read MSB-first) -/
theorem stringMatrix_diag (k : Scal R) (n : Nat) (at_ : Nat → Option P)
    (hz : ∀ q, q < n → at_ q = none ∨ at_ q = some P.Z) (i j : Nat) (hi : i < 2 ^ n) (hj : j < 2 ^ n) :
    (stringMatrix k n at_).get i j = if i = j then (-1 : R) ^ zexp at_ n i else 0 := by
  induction n generalizing i j with
  | zero =>
    have : i = 0 := by simpa using hi
    have : j = 0 := by simpa using hj
    subst_vars
    simp [stringMatrix, zexp, Mat.identity, Mat.get_ofFn]
  | succ n ih =>
    rw [stringMatrix_succ]
    have hd := stringMatrix_dims k n at_
    have hp := pauliMat_dims k (at_ n)
    rw [Mat.kron_get _ _ _ _ (by rw [hd.1, hp.1, ← Nat.pow_succ]; exact hi)
      (by rw [hd.2, hp.2, ← Nat.pow_succ]; exact hj)]
    rw [hp.1, hp.2]
    have hi2 : i / 2 < 2 ^ n := by rw [Nat.pow_succ] at hi; omega
    have hj2 : j / 2 < 2 ^ n := by rw [Nat.pow_succ] at hj; omega
    rw [ih (fun q hq => hz q (by omega)) (i / 2) (j / 2) hi2 hj2]
    rw [pauliMat_diag k (at_ n) (hz n (by omega)) (i % 2) (j % 2) (by omega) (by omega)]
    rw [zexp_succ, pow_add]
    by_cases hij : i = j
    · subst hij; simp
    · have : ¬ (i / 2 = j / 2 ∧ i % 2 = j % 2) := by omega
      by_cases h1 : i / 2 = j / 2
      · have h2 : ¬ i % 2 = j % 2 := fun h => this ⟨h1, h⟩
        simp [hij, h2]
      · simp [hij, h1]


/-! ### E. entries of the operator matrix, diagonal expectation -/



theorem term_denote_get (k : Scal R) (n : Nat) (t : Term R) (i j : Nat) (hi : i < 2 ^ n) (hj : j < 2 ^ n) :
    (t.denote k n).get i j = t.coeff * (stringMatrix k n t.opAt).get i j := by
  have hd := stringMatrix_dims k n t.opAt
  unfold Term.denote Mat.smul
  rw [Mat.get_ofFn _ _ _ _ _ (by rw [hd.1]; exact hi) (by rw [hd.2]; exact hj)]

theorem denote_fold (k : Scal R) (n : Nat) (s : PSum R) (acc : Mat R) (hr : acc.r = 2 ^ n) (hc : acc.c = 2 ^ n) :
    let m := s.foldl (fun acc t => Mat.add acc (t.denote k n)) acc
    m.r = 2 ^ n ∧ m.c = 2 ^ n ∧ ∀ i j, i < 2 ^ n → j < 2 ^ n →
      m.get i j = acc.get i j + (s.map (fun t => t.coeff * (stringMatrix k n t.opAt).get i j)).sum := by
  induction s generalizing acc with
  | nil => simp [hr, hc]
  | cons t ts ih =>
    simp only [List.foldl_cons, List.map_cons, List.sum_cons]
    have h := ih (Mat.add acc (t.denote k n)) (by simp [Mat.add, hr]) (by simp [Mat.add, hc])
    refine ⟨h.1, h.2.1, ?_⟩
    intro i j hi hj
    rw [h.2.2 i j hi hj]
    unfold Mat.add
    rw [Mat.get_ofFn _ _ _ _ _ (by rw [hr]; exact hi) (by rw [hc]; exact hj), term_denote_get k n t i j hi hj]
    ring

theorem psum_denote_get (k : Scal R) (n : Nat) (s : PSum R) (i j : Nat) (hi : i < 2 ^ n) (hj : j < 2 ^ n) :
    (PSum.denote k n s).get i j = (s.map (fun t => t.coeff * (stringMatrix k n t.opAt).get i j)).sum := by
  unfold PSum.denote
  have := (denote_fold k n s (Mat.ofFn (2 ^ n) (2 ^ n) (fun _ _ => 0)) rfl rfl).2.2 i j hi hj
  rw [this, Mat.get_ofFn _ _ _ _ _ hi hj]; simp

/-- ⟨ψ|D|ψ⟩ for a matrix that is diagonal on the support of the vector -/
theorem expectation_diag (k : Scal R) (S : Mat R) (amps : List R) (d : Nat → R)
    (hS : ∀ i j, i < amps.length → j < amps.length → S.get i j = if i = j then d i else 0) :
    expectation k S amps = ∑ i ∈ Finset.range amps.length, normSq k (amps.getD i 0) * d i := by
  unfold expectation normSq
  simp only
  rw [sumTo_eq]
  apply Finset.sum_congr rfl
  intro i hi
  have hi' := Finset.mem_range.mp hi
  rw [sumTo_eq]
  have : ∑ j ∈ Finset.range amps.length, S.get i j * amps.getD j 0 = d i * amps.getD i 0 := by
    rw [Finset.sum_eq_single i]
    · rw [hS i i hi' hi']; simp
    · intro j hj hne
      rw [hS i j hi' (Finset.mem_range.mp hj)]; simp [Ne.symm hne]
    · intro h; exact absurd hi h
  rw [this]; ring


/-! ### F. eigenvalues of Z-type operators, exact expectation -/



theorem neg_one_pow_ite (S : Nat) : (-1 : R) ^ S = if S % 2 = 0 then 1 else -1 := by
  rcases Nat.even_or_odd S with h | h
  · rw [h.neg_one_pow]; simp [Nat.even_iff.mp h]
  · rw [h.neg_one_pow]; simp [Nat.odd_iff.mp h]

theorem signOf_cast (marked row : List Nat) :
    ((signOf marked row : Int) : R) = (-1 : R) ^ (marked.map (fun q => row.getD q 0)).sum := by
  rw [neg_one_pow_ite]; unfold signOf
  split_ifs <;> simp

theorem find_opAt (ops : List (Nat × P)) (hz : ∀ p ∈ ops, p.2 = P.Z) (q : Nat) :
    (ops.find? (fun p => p.1 == q)).map (·.2) = if q ∈ ops.map (·.1) then some P.Z else none := by
  induction ops with
  | nil => simp
  | cons a l ih =>
    have ih' := ih (fun p hp => hz p (by simp [hp]))
    rw [List.find?_cons]
    by_cases h : a.1 = q
    · simp [h, hz a (by simp)]
    · have hb : (a.1 == q) = false := by simpa using h
      rw [hb]
      have : ¬ q = a.1 := fun e => h e.symm
      simp only [ih', List.map_cons, List.mem_cons, this, false_or]

theorem sum_ite_mem_list (n : Nat) (qs : List Nat) (hnd : qs.Nodup) (hr : ∀ q ∈ qs, q < n) (f : Nat → Nat) :
    (∑ q ∈ Finset.range n, if q ∈ qs then f q else 0) = (qs.map f).sum := by
  induction qs with
  | nil => simp
  | cons a l ih =>
    have hnd' := List.nodup_cons.mp hnd
    rw [List.map_cons, List.sum_cons, ← ih hnd'.2 (fun q hq => hr q (by simp [hq]))]
    have ha : a < n := hr a (by simp)
    have : ∀ q, (if q ∈ a :: l then f q else 0) = (if q = a then f q else 0) + (if q ∈ l then f q else 0) := by
      intro q
      by_cases h1 : q = a
      · subst h1; simp [hnd'.1]
      · simp [h1]
    simp only [this]
    rw [Finset.sum_add_distrib, Finset.sum_ite_eq' (Finset.range n) a f]
    simp [ha]

omit [CommRing R] in
/-- the diagonal exponent of a Z-type term = the parity sum that `check_parity_of_vector` reads at the
    marked positions of the MSB-first bit tuple -/
theorem zexp_term (t : Term R) (n i : Nat) (hz : ∀ p ∈ t.ops, p.2 = P.Z)
    (hnd : (termQubits t).Nodup) (hr : ∀ q ∈ termQubits t, q < n) :
    zexp t.opAt n i = ((termQubits t).map (fun q => (bits n i).getD q 0)).sum := by
  unfold zexp
  have e : ∀ q, (if t.opAt q = some P.Z then bit n i q else 0) = (if q ∈ termQubits t then bit n i q else 0) := by
    intro q
    unfold Term.opAt termQubits
    rw [find_opAt t.ops hz q]
    by_cases h : q ∈ t.ops.map (·.1) <;> simp [h]
  simp only [e]
  rw [sum_ite_mem_list n _ hnd hr]
  congr 1
  apply List.map_congr_left
  intro q hq
  have := hr q hq
  simp [List.getD_eq_getElem?_getD, bits_getElem? n i q this]

omit [CommRing R] in
theorem opAt_ztype (t : Term R) (hz : ∀ p ∈ t.ops, p.2 = P.Z) (q : Nat) :
    t.opAt q = none ∨ t.opAt q = some P.Z := by
  unfold Term.opAt
  rw [find_opAt t.ops hz q]
  by_cases h : q ∈ t.ops.map (·.1) <;> simp [h]

/-- eigenvalue of a Z-type operator on the outcome `row` (tuple / count string read by POSITION) -/
def eigenvalue (s : PSum R) (row : List Nat) : R :=
  (s.map (fun t => t.coeff * ((signOf (termQubits t) row : Int) : R))).sum

/-- a Z-type operator: every factor is Z, qubit indices of a term distinct (dict keys) and inside the register -/
def ZType (n : Nat) (s : PSum R) : Prop :=
  ∀ t ∈ s, (∀ p ∈ t.ops, p.2 = P.Z) ∧ (termQubits t).Nodup ∧ ∀ q ∈ termQubits t, q < n

theorem psum_denote_diag (k : Scal R) (n : Nat) (s : PSum R) (hs : ZType n s) (i j : Nat)
    (hi : i < 2 ^ n) (hj : j < 2 ^ n) :
    (PSum.denote k n s).get i j = if i = j then eigenvalue s (bits n i) else 0 := by
  rw [psum_denote_get k n s i j hi hj]
  unfold eigenvalue
  by_cases hij : i = j
  · subst hij
    simp only [if_true]
    congr 1
    apply List.map_congr_left
    intro t ht
    obtain ⟨h1, h2, h3⟩ := hs t ht
    rw [stringMatrix_diag k n t.opAt (fun q _ => opAt_ztype t h1 q) i i hi hi]
    simp only [if_true]
    rw [zexp_term t n i h1 h2 h3, signOf_cast]
  · simp only [hij, if_false]
    have : ∀ t ∈ s, t.coeff * (stringMatrix k n t.opAt).get i j = 0 := by
      intro t ht
      obtain ⟨h1, _, _⟩ := hs t ht
      rw [stringMatrix_diag k n t.opAt (fun q _ => opAt_ztype t h1 q) i j hi hj]
      simp [hij]
    rw [List.map_congr_left this]
    simp

theorem expectation_ztype (k : Scal R) (n : Nat) (s : PSum R) (hs : ZType n s) (amps : List R)
    (hlen : amps.length = 2 ^ n) :
    expectation k (PSum.denote k n s) amps =
      ∑ i ∈ Finset.range (2 ^ n), normSq k (amps.getD i 0) * eigenvalue s (bits n i) := by
  rw [expectation_diag k _ amps (fun i => eigenvalue s (bits n i))]
  · rw [hlen]
  · intro i j hi hj
    rw [hlen] at hi hj
    exact psum_denote_diag k n s hs i j hi hj


/-! ### G. the exact distribution as a list over basis indices -/


theorem list_eq_map_range_getD {α : Type} (l : List α) (d : α) :
    l = (List.range l.length).map (fun i => l.getD i d) := by
  apply List.ext_getElem?
  intro i
  by_cases h : i < l.length
  · simp [List.getElem?_map, List.getElem?_range h, List.getD_eq_getElem?_getD, List.getElem?_eq_getElem h]
  · have h' : l.length ≤ i := by omega
    rw [List.getElem?_eq_none h', List.getElem?_eq_none (by simpa using h')]

theorem sum_map_range (n : Nat) (f : Nat → R) : ((List.range n).map f).sum = ∑ i ∈ Finset.range n, f i := by
  induction n with
  | zero => simp
  | succ n ih => rw [List.range_succ, List.map_append, List.sum_append, ih, Finset.sum_range_succ]; simp

theorem exactDistribution_eq (k : Scal R) (amps : List R) (n : Nat) (hlen : amps.length = 2 ^ n) :
    exactDistribution k amps = (List.range (2 ^ n)).map (fun i => (bits n i, normSq k (amps.getD i 0))) := by
  unfold exactDistribution createDistribution getProbabilities
  rw [List.length_map, hlen, Nat.log2_two_pow, product01_eq]
  conv_lhs => rw [list_eq_map_range_getD amps 0, hlen]
  rw [List.map_map, List.zip_map']
  rfl


/-! ### H. executable bit tuples vs. bit assignments of the specification -/

open OQ.Spec


/-- the bit assignment (index of the specification) of basis index `k`: qubit `q` ↦ bit `q`, qubit 0 most significant -/
def bv (n k : Nat) : BV (Fin n) := fun q => bit n k q == 1

/-- the qubits `Fin n` named by a list of indices -/
def qubitSet (n : Nat) (marked : List Nat) : Finset (Fin n) := Finset.univ.filter (fun q => q.val ∈ marked)

/-- reading the eigenvalue of ∏ Z at the marked POSITIONS of the MSB-first tuple of `k` = the eigenvalue of
    the Z-type operator on QUBITS `marked` at the bit assignment of `k` -/
theorem signOf_bits_eq_zsign (n k : Nat) (marked : List Nat) (hnd : marked.Nodup) (hr : ∀ q ∈ marked, q < n) :
    ((signOf marked (bits n k) : Int) : R) = zsign (qubitSet n marked) (bv n k) := by
  rw [signOf_cast]
  have e1 : (marked.map (fun q => (bits n k).getD q 0)).sum = (marked.map (bit n k)).sum := by
    congr 1
    apply List.map_congr_left
    intro q hq
    simp [List.getD_eq_getElem?_getD, bits_getElem? n k q (hr q hq)]
  rw [e1, ← sum_ite_mem_list n marked hnd hr]
  unfold zsign qubitSet
  rw [Finset.prod_filter]
  have e3 : ∀ a : Fin n, (if (a : Nat) ∈ marked then (if bv n k a then (-1 : R) else 1) else 1) =
      (fun q : Nat => if q ∈ marked then (-1 : R) ^ (bit n k q) else 1) a := by
    intro a
    by_cases hq : (a : Nat) ∈ marked
    · simp only [hq, if_true, bv]
      have := bit_lt_two n k a
      have hc : bit n k a = 0 ∨ bit n k a = 1 := by omega
      rcases hc with h | h <;> simp [h]
    · simp [hq]
  rw [Finset.prod_congr rfl (fun a _ => e3 a),
    Fin.prod_univ_eq_prod_range (fun q : Nat => if q ∈ marked then (-1 : R) ^ (bit n k q) else 1) n,
    ← Finset.prod_pow_eq_pow_sum]
  apply Finset.prod_congr rfl
  intro q _
  by_cases hq : q ∈ marked <;> simp [hq]


/-! ### I. injectivity of the bit tuples, dictionary lookup, operator width -/


/-- value of an MSB-first bit list -/
def fromBits (l : List Nat) : Nat := l.foldl (fun acc b => 2 * acc + b) 0

theorem fromBits_bits (n i : Nat) (hi : i < 2 ^ n) : fromBits (bits n i) = i := by
  induction n generalizing i with
  | zero => simp at hi; subst hi; rfl
  | succ n ih =>
    rw [bits_succ]
    unfold fromBits
    rw [List.foldl_append]
    have hi2 : i / 2 < 2 ^ n := by rw [Nat.pow_succ] at hi; omega
    have := ih (i / 2) hi2
    unfold fromBits at this
    rw [this]; simp; omega

theorem bits_inj (n i j : Nat) (hi : i < 2 ^ n) (hj : j < 2 ^ n) (h : bits n i = bits n j) : i = j := by
  rw [← fromBits_bits n i hi, ← fromBits_bits n j hj, h]

theorem lookup_of_mem {α β : Type} [BEq α] [LawfulBEq α] (l : List (α × β)) (hnd : (l.map (·.1)).Nodup)
    (a : α) (b : β) (h : (a, b) ∈ l) : List.lookup a l = some b := by
  induction l with
  | nil => simp at h
  | cons p l ih =>
    obtain ⟨a', b'⟩ := p
    rw [List.map_cons, List.nodup_cons] at hnd
    rcases List.mem_cons.mp h with h1 | h2
    · cases h1; simp [List.lookup]
    · have hne : a ≠ a' := by
        intro e; subst e
        exact hnd.1 (List.mem_map_of_mem (f := (·.1)) h2)
      have : (a == a') = false := by simpa using hne
      simp only [List.lookup, this]
      exact ih hnd.2 h2

theorem bits_keys_nodup (n : Nat) : ((List.range (2 ^ n)).map (bits n)).Nodup := by
  apply List.Nodup.map_on _ List.nodup_range
  intro i hi j hj h
  exact bits_inj n i j (List.mem_range.mp hi) (List.mem_range.mp hj) h

theorem count_bits (n : Nat) (draws : List Nat) (hd : ∀ d ∈ draws, d < 2 ^ n) (i : Nat) (hi : i < 2 ^ n) :
    (draws.map (bits n)).count (bits n i) = draws.count i := by
  induction draws with
  | nil => rfl
  | cons d l ih =>
    rw [List.map_cons, List.count_cons, List.count_cons, ih (fun x hx => hd x (by simp [hx]))]
    have hdl : d < 2 ^ n := hd d (by simp)
    by_cases h : d = i
    · subst h; simp
    · have : bits n d ≠ bits n i := fun e => h (bits_inj n d i hdl hi e)
      simp [h, this]

omit [CommRing R] in
theorem foldl_max_le {α : Type} (l : List α) (f : α → Nat) (acc n : Nat) (ha : acc ≤ n) (h : ∀ x ∈ l, f x ≤ n) :
    l.foldl (fun acc x => max acc (f x)) acc ≤ n := by
  induction l generalizing acc with
  | nil => simpa
  | cons x l ih =>
    simp only [List.foldl_cons]
    exact ih _ (max_le ha (h x (by simp))) (fun y hy => h y (by simp [hy]))

omit [CommRing R] in
theorem nQubits_le (n : Nat) (s : PSum R) (h : ∀ t ∈ s, ∀ q ∈ termQubits t, q < n) : PSum.nQubits s ≤ n := by
  unfold PSum.nQubits
  apply foldl_max_le s (fun t => t.nQubits) 0 n (Nat.zero_le _)
  intro t ht
  unfold Term.nQubits
  apply foldl_max_le t.ops (fun p => p.1 + 1) 0 n (Nat.zero_le _)
  intro p hp
  have := h t ht p.1 (by unfold termQubits; exact List.mem_map_of_mem hp)
  omega

omit [CommRing R] in
theorem isIsing_of (s : PSum R) (h : ∀ t ∈ s, ∀ p ∈ t.ops, p.2 = P.Z) : isIsing s = true := by
  unfold isIsing
  rw [List.all_eq_true]
  intro t ht
  rw [List.all_eq_true]
  intro p hp
  simp [h t ht p hp]


/-! ### J. basis indices ↔ bit assignments; the expectation value in specification form -/



omit [CommRing R] in
theorem bv_inj (n i j : Nat) (hi : i < 2 ^ n) (hj : j < 2 ^ n) (h : bv n i = bv n j) : i = j := by
  apply bits_inj n i j hi hj
  unfold bits
  apply List.map_congr_left
  intro q hq
  have hq' := List.mem_range.mp hq
  have := congrFun h ⟨q, hq'⟩
  simp only [bv] at this
  have h1 := bit_lt_two n i q
  have h2 := bit_lt_two n j q
  have c1 : bit n i q = 0 ∨ bit n i q = 1 := by omega
  have c2 : bit n j q = 0 ∨ bit n j q = 1 := by omega
  rcases c1 with a | a <;> rcases c2 with b | b <;> simp_all

/-- basis indices `< 2^n` ↔ bit assignments of the `n` qubits (qubit 0 most significant) -/
noncomputable def bvEquiv (n : Nat) : Fin (2 ^ n) ≃ BV (Fin n) :=
  Equiv.ofBijective (fun i => bv n i.val)
    ((Fintype.bijective_iff_injective_and_card _).mpr
      ⟨fun i j h => Fin.ext (bv_inj n i.val j.val i.2 j.2 h), by simp [BV]⟩)

theorem sum_range_eq_sum_bv (n : Nat) (f : Nat → R) (g : BV (Fin n) → R)
    (h : ∀ i, i < 2 ^ n → f i = g (bv n i)) :
    ∑ i ∈ Finset.range (2 ^ n), f i = ∑ x, g x := by
  rw [Finset.sum_range]
  apply Fintype.sum_equiv (bvEquiv n)
  intro i
  exact h i.val i.2


open Matrix
variable [StarRing R]

omit [StarRing R] in
theorem sum_mul_list_sum {α : Type} (N : Nat) (p : Nat → R) (s : List α) (c : α → R) (σ : α → Nat → R) :
    ∑ i ∈ Finset.range N, p i * (s.map (fun t => c t * σ t i)).sum =
      (s.map (fun t => c t * ∑ i ∈ Finset.range N, p i * σ t i)).sum := by
  induction s with
  | nil => simp
  | cons t ts ih =>
    simp only [List.map_cons, List.sum_cons, mul_add, Finset.sum_add_distrib, ih]
    congr 1
    rw [Finset.mul_sum]
    apply Finset.sum_congr rfl
    intro i _; ring

/-- the exact expectation value computed on the amplitude LIST equals ∑ₜ cₜ ⟨ψ| Z_{Sₜ} |ψ⟩ for the state ψ
    over bit assignments of the qubits `Fin n` with ψ(bv n i) = amps[i] -/
theorem expectation_ztype_spec (k : Scal R) (hcj : ∀ a, k.cj a = star a) (n : Nat) (s : PSum R) (hs : ZType n s)
    (amps : List R) (hlen : amps.length = 2 ^ n) (ψ : BV (Fin n) → R)
    (hψ : ∀ i, i < 2 ^ n → amps.getD i 0 = ψ (bv n i)) :
    expectation k (PSum.denote k n s) amps =
      (s.map (fun t => t.coeff * ev (Matrix.diagonal (zsign (qubitSet n (termQubits t)))) ψ)).sum := by
  rw [expectation_ztype k n s hs amps hlen]
  unfold eigenvalue
  rw [sum_mul_list_sum]
  congr 1
  apply List.map_congr_left
  intro t ht
  obtain ⟨_, h2, h3⟩ := hs t ht
  congr 1
  rw [ev_diagonal]
  apply sum_range_eq_sum_bv
  intro i hi
  rw [signOf_bits_eq_zsign n i _ h2 h3, normSq, hcj, hψ i hi]


end OQ.C04
