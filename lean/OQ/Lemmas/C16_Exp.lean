import OQ.Lemmas.C16
import Mathlib.Analysis.Normed.Algebra.MatrixExponential
import Mathlib.Analysis.SpecialFunctions.Trigonometric.Basic
import Mathlib.Analysis.SpecialFunctions.Exponential
set_option linter.unusedSectionVars false
namespace OQ.C16
open Matrix OQ.Spec OQ.Pauli Complex

section expo
variable {m : Type} [Fintype m] [DecidableEq m]

/-- exp of a ±1 diagonal generator: closed form, no power series needed -/
theorem exp_sign_diag (θ : ℝ) (d : m → ℂ) (hd : ∀ x, d x = 1 ∨ d x = -1) :
    NormedSpace.exp ((-(I * θ)) • Matrix.diagonal d)
      = (Real.cos θ : ℂ) • (1 : Matrix m m ℂ) - (I * Real.sin θ) • Matrix.diagonal d := by
  have h1 : (-(I * θ)) • Matrix.diagonal d = Matrix.diagonal (fun x => -(I * θ) * d x) := by
    ext i j; by_cases h : i = j <;> simp [Matrix.diagonal, h]
  rw [h1, Matrix.exp_diagonal]
  ext i j
  by_cases h : i = j
  · subst h
    simp only [Matrix.diagonal_apply_eq, Matrix.sub_apply, Matrix.smul_apply, Matrix.one_apply_eq,
      smul_eq_mul, mul_one, Pi.coe_exp]
    rcases hd i with h | h <;> rw [h]
    · rw [← Complex.exp_eq_exp_ℂ]
      have : -(I * (θ:ℂ)) * 1 = ((-θ : ℝ) : ℂ) * I := by push_cast; ring
      rw [this, Complex.exp_mul_I]
      simp [Complex.ofReal_cos, Complex.ofReal_sin]; ring
    · rw [← Complex.exp_eq_exp_ℂ]
      have : -(I * (θ:ℂ)) * (-1) = ((θ : ℝ) : ℂ) * I := by ring
      rw [this, Complex.exp_mul_I]
      simp [Complex.ofReal_cos, Complex.ofReal_sin]; ring
  · simp [Matrix.diagonal, h, Matrix.one_apply_ne h]

/-- exp(−iθ·P) = cos θ·1 − i sin θ·P for every P diagonalised to a ±1 diagonal by an invertible change of basis -/
theorem exp_conj_sign (θ : ℝ) (V B : Matrix m m ℂ) (hVB : V * B = 1) (d : m → ℂ) (hd : ∀ x, d x = 1 ∨ d x = -1) :
    NormedSpace.exp ((-(I * θ)) • (V * Matrix.diagonal d * B))
      = (Real.cos θ : ℂ) • (1 : Matrix m m ℂ) - (I * Real.sin θ) • (V * Matrix.diagonal d * B) := by
  have hinv : V⁻¹ = B := Matrix.inv_eq_right_inv hVB
  have hu : IsUnit V := (Matrix.isUnit_iff_isUnit_det V).mpr (Matrix.isUnit_det_of_right_inverse hVB)
  have e1 : (-(I * θ)) • (V * Matrix.diagonal d * B) = V * ((-(I * θ)) • Matrix.diagonal d) * V⁻¹ := by
    rw [hinv, Matrix.mul_smul, Matrix.smul_mul]
  rw [e1, Matrix.exp_conj _ _ hu, exp_sign_diag θ d hd, hinv]
  rw [Matrix.mul_sub, Matrix.sub_mul, Matrix.mul_smul, Matrix.smul_mul, Matrix.mul_smul, Matrix.smul_mul,
    Matrix.mul_one, hVB]
end expo

variable {ι : Type} [Fintype ι] [DecidableEq ι]

/-- the constants over ℂ -/
noncomputable def Scal.complex : Scal ℂ :=
  ⟨I, ((Real.sqrt 2 / 2 : ℝ) : ℂ), Complex.exp (I * (Real.pi / 4)), 1 / 2, star⟩

theorem scalLaws_complex : ScalLaws Scal.complex := by
  refine ⟨by simp [Scal.complex], ?_, rfl, by simp [Scal.complex], ?_⟩
  · simp only [Scal.complex]
    have h : (Real.sqrt 2) * (Real.sqrt 2) = 2 := Real.mul_self_sqrt (by norm_num)
    have : (2 : ℝ) * (Real.sqrt 2 / 2) * (Real.sqrt 2 / 2) = 1 := by nlinarith
    exact_mod_cast this
  · simp [Scal.complex]

/-- half-angle point of a real angle -/
noncomputable def angReal (θ : ℝ) : Ang ℂ := ⟨(Real.cos (θ / 2) : ℂ), (Real.sin (θ / 2) : ℂ)⟩

theorem angReal_laws (θ : ℝ) : AngLaws (angReal θ) := by
  refine ⟨?_, Complex.conj_ofReal _, Complex.conj_ofReal _⟩
  simp only [angReal]
  have := Real.cos_sq_add_sin_sq (θ / 2)
  have h2 : Real.cos (θ/2) * Real.cos (θ/2) + Real.sin (θ/2) * Real.sin (θ/2) = 1 := by nlinarith
  exact_mod_cast h2

theorem angReal_half_pi : angReal ((1 / ((2 : ℕ) : ℝ)) * Real.pi) = ⟨Scal.complex.r, Scal.complex.r⟩ := by
  have : (1 / ((2 : ℕ) : ℝ)) * Real.pi / 2 = Real.pi / 4 := by push_cast; ring
  simp only [angReal, this, Real.cos_pi_div_four, Real.sin_pi_div_four, Scal.complex]

/-- the letter-wise diagonal form: 1 for the identity, Z for X, Y, Z -/
def dMat (R : Type) [CommRing R] : Option P → Matrix Bool Bool R
  | none => 1
  | some _ => σz

theorem dMat_diag (R : Type) [CommRing R] (o : Option P) :
    dMat R o = Matrix.diagonal (fun b => match o with | none => 1 | some _ => sgn b) := by
  cases o with
  | none => simp [dMat]
  | some p => simp [dMat, σz]

/-- every Pauli string is diagonalised by the circuit's own basis change -/
theorem pauliString_diag {R : Type} [CommRing R] [StarRing R] (k : Scal R) (hk : ScalLaws k) (pa : ι → Option P) :
    pauliString k pa = tensor (fun p => bInv k (pa p)) * tensor (fun p => dMat R (pa p)) * tensor (fun p => bMat k (pa p)) := by
  rw [tensor_mul, tensor_mul]
  unfold pauliString
  congr 1
  funext p
  cases h : pa p with
  | none => simp [dMat, bInv, bMat, pauliB_none]
  | some o => simp only [dMat]; exact (bInv_z_bMat k hk o).symm

/-- exp(−iθ·P) = cos θ·1 − i sin θ·P for every Pauli string P on every register -/
theorem exp_pauliString (pa : ι → Option P) (θ : ℝ) :
    NormedSpace.exp ((-(I * θ)) • pauliString Scal.complex pa)
      = (Real.cos θ : ℂ) • (1 : Matrix (BV ι) (BV ι) ℂ) - (I * Real.sin θ) • pauliString Scal.complex pa := by
  have hk := scalLaws_complex
  have hd : (tensor (fun p => dMat ℂ (pa p)) : Matrix (BV ι) (BV ι) ℂ)
      = Matrix.diagonal (fun x => ∏ q, (match pa q with | none => (1 : ℂ) | some _ => sgn (x q))) := by
    have : (fun p => dMat ℂ (pa p)) = fun p => Matrix.diagonal (fun b => match pa p with | none => (1:ℂ) | some _ => sgn b) := by
      funext p; exact dMat_diag ℂ (pa p)
    rw [this, tensor_diagonal]
  have hVB : (tensor (fun p => bInv Scal.complex (pa p)) : Matrix (BV ι) (BV ι) ℂ) * tensor (fun p => bMat Scal.complex (pa p)) = 1 := by
    rw [tensor_mul]
    have : (fun p => bInv Scal.complex (pa p) * bMat Scal.complex (pa p)) = fun _ => (1 : Matrix Bool Bool ℂ) := by
      funext p; exact bInv_mul_bMat _ hk _
    rw [this, tensor_one]
  rw [pauliString_diag Scal.complex hk pa, hd]
  apply exp_conj_sign θ _ _ hVB
  intro x
  induction (Finset.univ : Finset ι) using Finset.induction_on with
  | empty => simp
  | insert a s ha ih =>
    rw [Finset.prod_insert ha]
    have h1 : (match pa a with | none => (1 : ℂ) | some _ => sgn (x a)) = 1 ∨ (match pa a with | none => (1 : ℂ) | some _ => sgn (x a)) = -1 := by
      cases pa a with
      | none => simp
      | some o => cases x a <;> simp [sgn]
    rcases h1 with h1 | h1 <;> rcases ih with ih | ih <;> rw [h1, ih] <;> simp


/-- the model's number operations at Q = T = ℝ -/
noncomputable def realAlg : TimeAlg ℝ ℝ := ⟨(· + ·), (· * ·), Real.pi⟩

theorem angReal_half_pi' : angReal (realAlg.smul (1 / ((2 : ℕ) : ℝ)) realAlg.pi) = ⟨Scal.complex.r, Scal.complex.r⟩ :=
  angReal_half_pi

theorem term_sem_exp [DecidableEq ℝ] (negl : ℝ → Bool) (rg : Register ι) (t : Term (ℝ × ℝ))
    (hcov : rg.Covers t) (hnd : (t.ops.map (·.1)).Nodup) (hne : t.ops ≠ [])
    (time : ℝ) (c : Circ ℝ) (hc : evolutionForTerm realAlg negl t time = .ok c) :
    circSem Scal.complex angReal rg.e c
      = NormedSpace.exp ((-(I * ((time * t.coeff.1 : ℝ) : ℂ))) • pauliString Scal.complex (fun p => t.opAt (rg.lab p))) := by
  rw [term_sem Scal.complex scalLaws_complex realAlg negl angReal angReal_half_pi' rg t hcov hnd hne time c hc,
    exp_pauliString]
  have : realAlg.smul t.coeff.1 (realAlg.smul ((2 : ℕ) : ℝ) time) / 2 = time * t.coeff.1 := by
    simp only [realAlg]; push_cast; ring
  simp only [angReal, this, Scal.complex]

theorem map_eq_of_forall₂ {α β γ : Type} (r : α → β → Prop) (g : β → γ) (f : α → γ) (l : List α) (l' : List β)
    (h : List.Forall₂ r l l') (hf : ∀ a b, a ∈ l → r a b → g b = f a) : l'.map g = l.map f := by
  induction h with
  | nil => rfl
  | cons hab _ ih =>
    simp only [List.map_cons]
    rw [hf _ _ List.mem_cons_self hab, ih (fun a b ha => hf a b (List.mem_cons_of_mem _ ha))]

theorem timeEvolution_exp [DecidableEq ℝ] (negl : ℝ → Bool) (rg : Register ι) (h : PSum (ℝ × ℝ))
    (hcov : ∀ t ∈ h, rg.Covers t) (hnd : ∀ t ∈ h, (t.ops.map (·.1)).Nodup)
    (time : ℝ) (n : ℕ) (hn : 1 ≤ n) (c : Circ ℝ) (hc : timeEvolution realAlg negl h time n = .ok c) :
    circSem Scal.complex angReal rg.e c
      = (((h.map (fun t => if t.ops = [] then (1 : Matrix (BV ι) (BV ι) ℂ) else
            NormedSpace.exp ((-(I * (((1 / (n : ℝ)) * time * t.coeff.1 : ℝ) : ℂ)))
              • pauliString Scal.complex (fun p => t.opAt (rg.lab p))))).reverse).prod) ^ n := by
  obtain ⟨cs, hcs, _, hsem⟩ := (timeEvolution_ok Scal.complex realAlg negl angReal rg.e h time n hn c).mp hc
  rw [hsem, List.map_reverse]
  congr 3
  apply map_eq_of_forall₂ _ _ _ h cs hcs
  intro t ct ht hr
  by_cases h0 : t.ops = []
  · rw [if_pos h0]
    have : evolutionForTerm realAlg negl t (realAlg.smul (1 / (n : ℝ)) time) = .ok [] := by
      simp [evolutionForTerm, h0]
    rw [this] at hr; cases hr; rfl
  · rw [if_neg h0]
    exact term_sem_exp negl rg t (hcov t ht) (hnd t ht) h0 _ ct hr


end OQ.C16
