/-
  C03 — tensor products of 2×2 factors as matrices on the 2ⁿ-dimensional space, entry-wise with natural-number
  indices exactly as the executable `Mat.kron` computes them (factor 0 leftmost = most significant bit).
  `tens_mul` is the mixed-product property  (⨂ f)(⨂ g) = ⨂ (f·g).
-/
import OQ.Model.C03
import OQ.Lemmas.Bridge
import Mathlib.Data.Matrix.Basic
import Mathlib.LinearAlgebra.Matrix.Notation
import Mathlib.Tactic.FinCases
import Mathlib.Tactic.Ring
import Mathlib.Tactic.Linarith

namespace OQ.C03
open OQ.Pauli Matrix

variable {R : Type} [CommRing R]

/-- the bit `i % 2` as an index of a 2×2 matrix -/
def b2 (i : Nat) : Fin 2 := ⟨i % 2, Nat.mod_lt _ (by decide)⟩

@[simp] theorem b2_two_mul (a : Nat) : b2 (2 * a) = 0 := by ext; simp [b2]
@[simp] theorem b2_two_mul_add_one (a : Nat) : b2 (2 * a + 1) = 1 := by ext; simp [b2, Nat.add_mod]

/-- entry (i, j) of `f 0 ⊗ f 1 ⊗ … ⊗ f (n-1)` (factor 0 leftmost = most significant bit) -/
def tensE (f : Nat → Matrix (Fin 2) (Fin 2) R) : Nat → Nat → Nat → R
  | 0, _, _ => 1
  | n + 1, i, j => tensE f n (i / 2) (j / 2) * f n (b2 i) (b2 j)

/-- `f 0 ⊗ f 1 ⊗ … ⊗ f (n-1)` as a matrix on the 2ⁿ-dimensional space -/
def tens (f : Nat → Matrix (Fin 2) (Fin 2) R) (n : Nat) : Matrix (Fin (2 ^ n)) (Fin (2 ^ n)) R :=
  Matrix.of (fun i j => tensE f n i j)

@[simp] theorem tens_apply (f : Nat → Matrix (Fin 2) (Fin 2) R) (n : Nat) (i j : Fin (2 ^ n)) :
    tens f n i j = tensE f n i j := rfl

theorem sum_range_two_mul {M : Type} [AddCommMonoid M] (F : Nat → M) (m : Nat) :
    ∑ k ∈ Finset.range (2 * m), F k = ∑ a ∈ Finset.range m, (F (2 * a) + F (2 * a + 1)) := by
  induction m with
  | zero => simp
  | succ m ih =>
    rw [show 2 * (m + 1) = 2 * m + 1 + 1 by ring, Finset.sum_range_succ, Finset.sum_range_succ, ih,
      Finset.sum_range_succ, add_assoc]

theorem tensE_mul (f g : Nat → Matrix (Fin 2) (Fin 2) R) (n : Nat) (i j : Nat) :
    ∑ k ∈ Finset.range (2 ^ n), tensE f n i k * tensE g n k j = tensE (fun q => f q * g q) n i j := by
  induction n generalizing i j with
  | zero => simp [tensE]
  | succ n ih =>
    rw [pow_succ, mul_comm, sum_range_two_mul]
    simp only [tensE]
    have h1 : ∀ a, 2 * a / 2 = a := fun a => by omega
    have h2 : ∀ a, (2 * a + 1) / 2 = a := fun a => by omega
    simp only [h1, h2, b2_two_mul, b2_two_mul_add_one]
    rw [← ih (i / 2) (j / 2), Matrix.mul_apply, Fin.sum_univ_two, Finset.sum_mul]
    apply Finset.sum_congr rfl
    intro a _
    ring

theorem tens_mul (f g : Nat → Matrix (Fin 2) (Fin 2) R) (n : Nat) :
    tens f n * tens g n = tens (fun q => f q * g q) n := by
  funext i j
  rw [Matrix.mul_apply]
  simp only [tens_apply]
  rw [Fin.sum_univ_eq_sum_range (fun k => tensE f n i k * tensE g n k j)]
  exact tensE_mul f g n i j

theorem tensE_one (n : Nat) (i j : Nat) (hi : i < 2 ^ n) (hj : j < 2 ^ n) :
    tensE (fun _ => (1 : Matrix (Fin 2) (Fin 2) R)) n i j = if i = j then 1 else 0 := by
  induction n generalizing i j with
  | zero =>
    have : i = j := by simp at hi hj; omega
    simp [tensE, this]
  | succ n ih =>
    simp only [tensE]
    rw [ih (i / 2) (j / 2) (by rw [pow_succ] at hi; omega) (by rw [pow_succ] at hj; omega), Matrix.one_apply]
    by_cases h : i = j
    · subst h; simp
    · have : ¬ (i / 2 = j / 2 ∧ b2 i = b2 j) := by
        rintro ⟨h1, h2⟩
        have : i % 2 = j % 2 := by simpa [b2] using congrArg Fin.val h2
        omega
      by_cases h1 : i / 2 = j / 2 <;> by_cases h2 : b2 i = b2 j <;> simp_all

theorem tens_one (n : Nat) : tens (fun _ => (1 : Matrix (Fin 2) (Fin 2) R)) n = 1 := by
  funext i j
  simp only [tens_apply]
  rw [tensE_one n i j i.2 j.2, Matrix.one_apply]
  simp [Fin.ext_iff]

theorem tensE_congr {f g : Nat → Matrix (Fin 2) (Fin 2) R} (n : Nat) (h : ∀ q < n, f q = g q) (i j : Nat) :
    tensE f n i j = tensE g n i j := by
  induction n generalizing i j with
  | zero => rfl
  | succ n ih =>
    simp only [tensE]
    rw [ih (fun q hq => h q (by omega)), h n (by omega)]

theorem tens_congr {f g : Nat → Matrix (Fin 2) (Fin 2) R} (n : Nat) (h : ∀ q < n, f q = g q) :
    tens f n = tens g n := by
  funext i j; exact tensE_congr n h i j

theorem tensE_smul_at {f g : Nat → Matrix (Fin 2) (Fin 2) R} (n idx : Nat) (c : R) (hidx : idx < n)
    (hne : ∀ q < n, q ≠ idx → f q = g q) (h : f idx = c • g idx) (i j : Nat) :
    tensE f n i j = c * tensE g n i j := by
  induction n generalizing i j with
  | zero => omega
  | succ n ih =>
    simp only [tensE]
    by_cases hn : idx = n
    · subst hn
      rw [tensE_congr idx (fun q hq => hne q (by omega) (by omega)), h]
      simp only [Matrix.smul_apply, smul_eq_mul]; ring
    · rw [ih (by omega) (fun q hq hq' => hne q (by omega) hq'), hne n (by omega) (fun h' => hn h'.symm)]
      ring

theorem tens_smul_at {f g : Nat → Matrix (Fin 2) (Fin 2) R} (n idx : Nat) (c : R) (hidx : idx < n)
    (hne : ∀ q < n, q ≠ idx → f q = g q) (h : f idx = c • g idx) : tens f n = c • tens g n := by
  funext i j
  simp only [tens_apply, Matrix.smul_apply, smul_eq_mul]
  exact tensE_smul_at n idx c hidx hne h i j

end OQ.C03
