/- helper lemmas for the T12 translation ties (`OQ/Props/C01_TranslatedCircuit.lean`, `C01_TranslatedLift.lean`,
   `C09_TranslatedExpand.lean`): the Python prelude (`maxList`, `minList`, `foldlOpt`, `reduce1`, `groupby`) against the models'
   `listMax` / `listMin` / `mapM` / `reduceMul` / `groupBy` (not property theorems) -/
import OQ.Exec.Py
import OQ.Model.C01
import OQ.Lemmas.C01_Perm
import OQ.Lemmas.Bridge
import Mathlib.Tactic.Linarith
namespace OQ.T12
open OQ.Py OQ.Lift

theorem foldl_max_cast (xs : List Nat) (a : Nat) :
    (xs.map Int.ofNat).foldl max (a : Int) = ((xs.foldl max a : Nat) : Int) := by
  induction xs generalizing a with
  | nil => rfl
  | cons x xs ih =>
    simp only [List.map_cons, List.foldl_cons]
    have : max (a : Int) (Int.ofNat x) = ((max a x : Nat) : Int) := by
      simp only [Int.ofNat_eq_natCast]; omega
    rw [this, ih]

theorem foldl_min_cast (xs : List Nat) (a : Nat) :
    (xs.map Int.ofNat).foldl min (a : Int) = ((xs.foldl min a : Nat) : Int) := by
  induction xs generalizing a with
  | nil => rfl
  | cons x xs ih =>
    simp only [List.map_cons, List.foldl_cons]
    have : min (a : Int) (Int.ofNat x) = ((min a x : Nat) : Int) := by
      simp only [Int.ofNat_eq_natCast]; omega
    rw [this, ih]

/-- `max(xs)` of naturals: `ValueError` on the empty list, else the model's `listMax` -/
theorem maxList_cast (xs : List Nat) :
    maxList (xs.map Int.ofNat) = if xs.isEmpty then none else some ((listMax xs : Nat) : Int) := by
  cases xs with
  | nil => rfl
  | cons x xs =>
    simp only [List.map_cons, maxList, listMax, List.isEmpty_cons, Bool.false_eq_true, if_false]
    rw [show Int.ofNat x = (x : Int) from rfl, foldl_max_cast]

theorem minList_cast (xs : List Nat) :
    minList (xs.map Int.ofNat) = if xs.isEmpty then none else some ((listMin xs : Nat) : Int) := by
  cases xs with
  | nil => rfl
  | cons x xs =>
    simp only [List.map_cons, minList, listMin, List.isEmpty_cons, Bool.false_eq_true, if_false]
    rw [show Int.ofNat x = (x : Int) from rfl, foldl_min_cast]

/-- a loop that appends `f x` to a list and stops at the first exception is `mapM` (the step function `F` is the generated one;
    `hF` says what one round does) -/
theorem foldlOpt_append_eq_mapM {α β : Type} (F : List β → α → Option (List β)) (f : α → Option β)
    (hF : ∀ st x, F st x = (f x).map (fun y => st ++ [y])) (xs : List α) (acc : List β) :
    foldlOpt F acc xs = (xs.mapM f).map (fun ys => acc ++ ys) := by
  induction xs generalizing acc with
  | nil => simp [foldlOpt]
  | cons x xs ih =>
    simp only [foldlOpt, List.mapM_cons, hF]
    cases hx : f x with
    | none => simp
    | some y =>
      simp only [Option.map_some, Option.bind_some, ih]
      cases xs.mapM f with
      | none => simp
      | some ys => simp

/-- a loop whose every round succeeds and appends `g x` is `map` -/
theorem foldlOpt_append_eq_map {α β : Type} (F : List β → α → Option (List β)) (g : α → β)
    (hF : ∀ st x, F st x = some (st ++ [g x])) (xs : List α) (acc : List β) :
    foldlOpt F acc xs = some (acc ++ xs.map g) := by
  induction xs generalizing acc with
  | nil => simp [foldlOpt]
  | cons x xs ih => simp [foldlOpt, hF, ih]

theorem reduce1_eq_reduceMul {R : Type} [Zero R] [Add R] [Mul R] (ms : List (Mat R)) :
    reduce1 Mat.mul ms = reduceMul ms := by
  cases ms <;> rfl

/-- `itertools.groupby` of the prelude is the model's `groupBy` (Boolean keys) -/
theorem groupby_eq_groupBy {α : Type} (p : α → Bool) (l : List α) : groupby p l = OQ.C01.groupBy p l := by
  induction l with
  | nil => rfl
  | cons x xs ih =>
    simp only [groupby, OQ.C01.groupBy, ih]
    cases OQ.C01.groupBy p xs with
    | nil => rfl
    | cons bg rest =>
      obtain ⟨b, g⟩ := bg
      simp only
      by_cases h : p x = b
      · simp [h]
      · have : (p x == b) = false := by simpa using h
        simp [h, this]

/-! ### loops over `range(n)` that rewrite one position per round (C09: `decode`, `f`) -/

/-- a loop over `range m` whose round `i` rewrites position `i` only (`G i` = new value from the old one) -/
theorem foldl_pointwise {α : Type} (d : α) (F : List α → Nat → List α) (G : Nat → α → α)
    (hlen : ∀ st i, (F st i).length = st.length)
    (hother : ∀ st i k, k ≠ i → (F st i).getD k d = st.getD k d)
    (hat : ∀ st i, i < st.length → (F st i).getD i d = G i (st.getD i d))
    (l : List α) (m : Nat) (hm : m ≤ l.length) :
    ((List.range m).foldl F l).length = l.length ∧
    ∀ k, ((List.range m).foldl F l).getD k d = if k < m then G k (l.getD k d) else l.getD k d := by
  induction m with
  | zero => simp
  | succ m ih =>
    obtain ⟨h1, h2⟩ := ih (by omega)
    rw [List.range_succ, List.foldl_append]
    simp only [List.foldl_cons, List.foldl_nil]
    refine ⟨by rw [hlen, h1], ?_⟩
    intro k
    by_cases hk : k = m
    · subst hk
      rw [hat _ _ (by rw [h1]; omega), h2]
      simp
    · rw [hother _ _ _ hk, h2]
      by_cases hlt : k < m
      · simp [hlt, Nat.lt_succ_of_lt hlt]
      · have : ¬ k < m + 1 := by omega
        simp [hlt, this]

theorem ext_getD {α : Type} (d : α) (l1 l2 : List α) (hlen : l1.length = l2.length)
    (h : ∀ k, k < l1.length → l1.getD k d = l2.getD k d) : l1 = l2 := by
  apply List.ext_getElem hlen
  intro i h1 h2
  have := h i h1
  simpa [List.getD_eq_getElem?_getD, h1, h2] using this

/-- the whole-list form: a loop over `range n` on a list of length `n` -/
theorem foldl_pointwise_eq_map {α : Type} (d : α) (F : List α → Nat → List α) (G : Nat → α → α)
    (hlen : ∀ st i, (F st i).length = st.length)
    (hother : ∀ st i k, k ≠ i → (F st i).getD k d = st.getD k d)
    (hat : ∀ st i, i < st.length → (F st i).getD i d = G i (st.getD i d))
    (l : List α) :
    (List.range l.length).foldl F l = (List.range l.length).map (fun i => G i (l.getD i d)) := by
  obtain ⟨h1, h2⟩ := foldl_pointwise d F G hlen hother hat l l.length (le_refl _)
  apply ext_getD d _ _ (by simp [h1])
  intro k hk
  rw [h1] at hk
  rw [h2 k]
  simp [hk, List.getD_eq_getElem?_getD]

/-- `range(0, n)` of the translator is `range n` read as ints -/
theorem foldl_range_int {β : Type} (n : Nat) (f : β → Int → β) (b : β) :
    ((List.range (Int.toNat ((n : Int) - 0))).map (fun k => (0 : Int) + Int.ofNat k)).foldl f b
      = (List.range n).foldl (fun acc (k : Nat) => f acc (k : Int)) b := by
  have e : Int.toNat ((n : Int) - 0) = n := by omega
  rw [e, List.foldl_map]
  apply congrArg (fun g => List.foldl g b (List.range n))
  funext acc k
  simp

/-- a loop whose every round succeeds is a plain fold -/
theorem foldlOpt_eq_foldl {σ α : Type} (F : σ → α → Option σ) (g : σ → α → σ) (xs : List α)
    (hF : ∀ st, ∀ x ∈ xs, F st x = some (g st x)) (s : σ) : foldlOpt F s xs = some (xs.foldl g s) := by
  induction xs generalizing s with
  | nil => rfl
  | cons x xs ih =>
    simp only [foldlOpt, List.foldl_cons]
    rw [hF s x (by simp)]
    exact ih (fun st y hy => hF st y (List.mem_cons_of_mem _ hy)) _

theorem take_drop_two {α : Type} (d : α) (l : List α) (a : Nat) (h : a + 2 ≤ l.length) :
    (l.take (a + 2)).drop a = [l.getD a d, l.getD (a + 1) d] := by
  have h0 : a < l.length := by omega
  have h1 : a + 1 < l.length := by omega
  rw [List.getD_eq_getElem?_getD, List.getD_eq_getElem?_getD, List.getElem?_eq_getElem h0, List.getElem?_eq_getElem h1]
  apply List.ext_getElem
  · simp; omega
  · intro i hi1 hi2
    simp only [List.length_cons, List.length_nil] at hi2
    simp only [List.getElem_drop, List.getElem_take]
    match i, hi2 with
    | 0, _ => simp
    | 1, _ => simp

/-! ### `_permutation_matrix`: the permutation check through `sorted`, the column-by-column fill -/

theorem ofFn_congr {R : Type} (r c : Nat) (f g : Nat → Nat → R) (h : ∀ i j, i < r → j < c → f i j = g i j) :
    Mat.ofFn r c f = Mat.ofFn r c g := by
  unfold Mat.ofFn
  congr 1
  congr 1
  funext k
  have hc : 0 < c := by
    rcases Nat.eq_zero_or_pos c with h0 | h0
    · subst h0; exact absurd k.isLt (by simp)
    · exact h0
  exact h _ _ ((Nat.div_lt_iff_lt_mul hc).2 k.isLt) (Nat.mod_lt _ hc)

/-- filling the columns `0 … m-1` of the zero matrix one after the other -/
theorem foldl_set_column {R : Type} [Zero R] (d : Nat) (col : Nat → Nat → R) (m : Nat) (hm : m ≤ d) :
    (List.range m).foldl (fun (M : Mat R) (i : Nat) =>
        Mat.ofFn M.r M.c (fun r c => if c = i then col r i else M.get r c)) (Mat.ofFn d d (fun _ _ => 0))
      = Mat.ofFn d d (fun r c => if c < m then col r c else 0) := by
  induction m with
  | zero => simp
  | succ m ih =>
    rw [List.range_succ, List.foldl_append, ih (by omega)]
    simp only [List.foldl_cons, List.foldl_nil, Mat.ofFn_r, Mat.ofFn_c]
    apply ofFn_congr
    intro i j hi hj
    by_cases h : j = m
    · subst h; simp
    · rw [if_neg h, Mat.get_ofFn _ _ _ _ _ hi hj]
      by_cases hlt : j < m
      · simp [hlt, Nat.lt_succ_of_lt hlt]
      · have : ¬ j < m + 1 := by omega
        simp [hlt, this]

/-- `isPermutation` (each of `0 … n-1` occurs exactly once) gives a permutation of `range n` -/
theorem perm_of_isPermutation (order : List Nat) (h : isPermutation order = true) :
    order.Perm (List.range order.length) := by
  unfold isPermutation at h
  rw [List.all_eq_true] at h
  have hsub : List.range order.length ⊆ order := by
    intro i hi
    have := h i hi
    have hc : order.count i = 1 := by simpa using this
    exact List.count_pos_iff.1 (by omega)
  have hsp := List.subperm_of_subset (List.nodup_range) hsub
  exact (hsp.perm_of_length_le (by simp)).symm

theorem insertInt_perm (a : Int) (l : List Int) : (insertInt a l).Perm (a :: l) := by
  induction l with
  | nil => exact List.Perm.refl _
  | cons b l ih =>
    simp only [insertInt]
    split
    · exact List.Perm.refl _
    · exact (List.Perm.cons b ih).trans (List.Perm.swap a b l)

theorem sortedInt_perm (l : List Int) : (sortedInt l).Perm l := by
  induction l with
  | nil => exact List.Perm.refl _
  | cons b l ih => exact (insertInt_perm b _).trans (List.Perm.cons b ih)

theorem insertInt_pairwise (a : Int) (l : List Int) (h : l.Pairwise (fun x y => x ≤ y)) :
    (insertInt a l).Pairwise (fun x y => x ≤ y) := by
  induction l with
  | nil => simp [insertInt]
  | cons b l ih =>
    simp only [insertInt]
    have hb := List.pairwise_cons.1 h
    split
    · rename_i hab
      refine List.pairwise_cons.2 ⟨?_, h⟩
      intro x hx
      rcases List.mem_cons.1 hx with rfl | hx
      · exact hab
      · exact le_trans hab (hb.1 x hx)
    · rename_i hab
      refine List.pairwise_cons.2 ⟨?_, ih hb.2⟩
      intro x hx
      have := (insertInt_perm a l).subset hx
      rcases List.mem_cons.1 this with rfl | hx'
      · omega
      · exact hb.1 x hx'

theorem sortedInt_pairwise (l : List Int) : (sortedInt l).Pairwise (fun x y => x ≤ y) := by
  induction l with
  | nil => simp [sortedInt]
  | cons b l ih => exact insertInt_pairwise b _ ih

/-- `sorted(order) != list(range(len(order)))` is the model's permutation check -/
theorem sorted_check (order : List Nat) :
    (sortedInt (order.map Int.ofNat) != (List.range order.length).map Int.ofNat) = !isPermutation order := by
  have hinj : Function.Injective Int.ofNat := fun a b h => by simpa using h
  by_cases hp : isPermutation order = true
  · have hperm := perm_of_isPermutation order hp
    have h1 : (sortedInt (order.map Int.ofNat)).Perm ((List.range order.length).map Int.ofNat) :=
      (sortedInt_perm _).trans (hperm.map _)
    have hs1 : (sortedInt (order.map Int.ofNat)).Pairwise (fun a b => a ≤ b) := sortedInt_pairwise _
    have hs2 : ((List.range order.length).map Int.ofNat).Pairwise (fun a b => a ≤ b) := by
      rw [List.pairwise_map]
      exact (List.pairwise_lt_range).imp (fun h => by simp only [Int.ofNat_eq_natCast]; omega)
    have heq := h1.eq_of_pairwise (fun a b _ _ hab hba => by omega) hs1 hs2
    simp [heq, hp]
  · have hp' : isPermutation order = false := by simpa using hp
    rw [hp']
    simp only [Bool.not_false, bne_iff_ne, ne_eq]
    intro heq
    apply hp
    have h1 : (order.map Int.ofNat).Perm ((List.range order.length).map Int.ofNat) := by
      rw [← heq]; exact (sortedInt_perm _).symm
    exact OQ.C01.isPermutation_of_perm order ((List.map_perm_map_iff hinj).1 h1)

end OQ.T12
