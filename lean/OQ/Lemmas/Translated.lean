/- helper lemmas for the translation-tie theorems (`OQ/Props/Cxx_Translated.lean`): the Python prelude against the
   hand-written models' notions of binary digits, Horner sums and parities (not property theorems) -/
import OQ.Lemmas.Py
import OQ.Model.Lift
import OQ.Model.C09
import OQ.Model.C12
import OQ.Lemmas.C09_Expand
namespace OQ.Tr
open OQ.Py

theorem bits_eq_basisBitstring (n i : Nat) : OQ.C04.bits n i = OQ.Lift.basisBitstring i n := rfl

theorem fold_state (x : List Int) (m : Nat) :
    ((List.range m).map Int.ofNat).foldl (fun (st : Int × Int) (i : Int) =>
      (st.1 + st.2 * x.getD (Int.toNat ((((x.length : Nat) : Int) - 1) - i)) 0, st.2 * 2)) (0, 1)
    = (((List.range m).map (fun i => (2 : Int) ^ i * x.getD (x.length - 1 - i) 0)).sum, (2 : Int) ^ m) := by
  induction m with
  | zero => rfl
  | succ m ih =>
    rw [List.range_succ, List.map_append, List.foldl_append, ih]
    simp only [List.map_cons, List.map_nil, List.foldl_cons, List.foldl_nil, List.map_append, List.sum_append,
      List.sum_cons, List.sum_nil, add_zero]
    have : (↑x.length - 1 - Int.ofNat m).toNat = x.length - 1 - m := by
      simp only [Int.ofNat_eq_natCast]; omega
    rw [this, pow_succ]

theorem littleEndianSum (x : List Nat) :
    ((List.range x.length).map (fun i => (2 : Int) ^ i * (x.map Int.ofNat).getD (x.length - 1 - i) 0)).sum
      = ((OQ.C09.bin2dec x : Nat) : Int) := by
  induction x using List.reverseRecOn with
  | nil => rfl
  | append_singleton l b ih =>
    rw [OQ.C09.bin2dec_append, List.length_append, List.length_singleton, List.range_succ_eq_map]
    simp only [List.map_cons, List.map_map, List.sum_cons, Nat.sub_zero, Nat.add_sub_cancel, pow_zero, one_mul]
    have h0 : (List.map Int.ofNat (l ++ [b])).getD l.length 0 = (b : Int) := by
      simp [List.getD_eq_getElem?_getD]
    rw [h0]
    have : (List.map ((fun i => (2 : Int) ^ i * (List.map Int.ofNat (l ++ [b])).getD (l.length - i) 0) ∘ Nat.succ)
        (List.range l.length)) = (List.range l.length).map
          (fun i => 2 * ((2 : Int) ^ i * (l.map Int.ofNat).getD (l.length - 1 - i) 0)) := by
      apply List.map_congr_left
      intro i hi
      have hi' := List.mem_range.mp hi
      simp only [Function.comp, Nat.succ_eq_add_one, pow_succ]
      have e : l.length - (i + 1) = l.length - 1 - i := by omega
      rw [e, List.map_append, List.getD_eq_getElem?_getD, List.getD_eq_getElem?_getD,
        List.getElem?_append_left (by simp; omega)]
      ring
    rw [this]
    have hs : ((List.range l.length).map (fun i => 2 * ((2 : Int) ^ i * (l.map Int.ofNat).getD (l.length - 1 - i) 0))).sum
        = 2 * ((List.range l.length).map (fun i => (2 : Int) ^ i * (l.map Int.ofNat).getD (l.length - 1 - i) 0)).sum := by
      rw [← List.sum_map_mul_left]
    rw [hs, ih]
    push_cast
    ring

/-- number of binary digits -/
theorem binDigitsFuel_length (f i : Nat) (h : i ≤ f) : (binDigitsFuel f i).length = OQ.C09.bitLength i := by
  induction f generalizing i with
  | zero =>
    have : i = 0 := by omega
    subst this; rfl
  | succ f ih =>
    simp only [binDigitsFuel]
    split
    · rename_i h2
      have hc : i = 0 ∨ i = 1 := by omega
      rcases hc with rfl | rfl <;> rfl
    · rename_i h2
      rw [List.length_append, ih (i / 2) (by omega)]
      unfold OQ.C09.bitLength
      have hi0 : i ≠ 0 := by omega
      have hi2 : i / 2 ≠ 0 := by omega
      simp only [hi0, hi2, if_false, List.length_singleton]
      rw [Nat.log2_def i]
      simp [show 2 ≤ i by omega]

theorem binDigits_length (i : Nat) : (binDigits i).length = OQ.C09.bitLength i :=
  binDigitsFuel_length i i (le_refl _)

theorem lt_two_pow_bitLength (x : Nat) : x < 2 ^ OQ.C09.bitLength x := by
  unfold OQ.C09.bitLength
  split
  · subst_vars; decide
  · exact Nat.lt_log2_self

theorem binDigits_eq_bits (x : Nat) : binDigits x = OQ.C04.bits (OQ.C09.bitLength x) x := by
  have hn : 1 ≤ OQ.C09.bitLength x := by unfold OQ.C09.bitLength; split <;> omega
  have := OQ.C04.binDigitsFuel_pad _ hn x x (lt_two_pow_bitLength x) (le_refl _)
  rw [← binDigitsFuel_eq, binDigitsFuel_length x x (le_refl _)] at this
  simpa [binDigits] using this

theorem strOfInt_digit (d : Nat) (h : d < 10) : strOfInt (d : Int) = [digitChar d] := by
  interval_cases d <;> rfl

theorem join_singletons (l : List Char) : join [] (l.map (fun c => [c])) = l := by
  induction l with
  | nil => rfl
  | cons a l ih =>
    cases l with
    | nil => rfl
    | cons b l => simp only [List.map_cons, join] at ih ⊢; simp [ih]

theorem map_strOfInt_digits (t : List Nat) (h : ∀ d ∈ t, d < 10) :
    (t.map Int.ofNat).map strOfInt = (t.map digitChar).map (fun c => [c]) := by
  induction t with
  | nil => rfl
  | cons a t ih =>
    simp only [List.map_cons]
    rw [ih (fun d hd => h d (by simp [hd]))]
    congr 1
    exact strOfInt_digit a (h a (by simp))

theorem intBase2_digits (l : List Nat) (h : ∀ d ∈ l, d < 10) :
    intBase2 (l.map digitChar) = ((OQ.Lift.bitsToIndex l : Nat) : Int) := by
  unfold intBase2 OQ.Lift.bitsToIndex
  suffices H : ∀ (acc : Nat), List.foldl (fun acc c => 2 * acc + charDigit c) (acc : Int) (l.map digitChar)
      = ((List.foldl (fun acc b => 2 * acc + b) acc l : Nat) : Int) by simpa using H 0
  induction l with
  | nil => intro acc; rfl
  | cons a l ih =>
    intro acc
    simp only [List.map_cons, List.foldl_cons]
    rw [charDigit_digitChar a (h a (by simp))]
    have := ih (fun d hd => h d (by simp [hd])) (2 * acc + a)
    rw [← this]
    push_cast
    rfl

/-- parity of the number of marked positions holding a 1 -/
def oddCount (bits : List Int) (marked : List Int) : Nat :=
  (marked.filter (fun q => bits.getD q.toNat 0 == 1)).length

theorem parity_fold (bits marked : List Int) (r : Bool) :
    marked.foldl (fun (st : Bool) (q : Int) => if (false || (bits.getD q.toNat 0 == 1)) then !st else st) r
      = (r == ((oddCount bits marked) % 2 == 0)) := by
  induction marked generalizing r with
  | nil => simp [oddCount]
  | cons q m ih =>
    simp only [List.foldl_cons, oddCount, List.filter_cons]
    by_cases hq : (bits.getD q.toNat 0 == 1) = true
    · simp only [hq, Bool.or_true, if_true, List.length_cons]
      rw [ih]
      simp only [oddCount]
      have key : ∀ k : Nat, (k % 2 == 0) = !((k + 1) % 2 == 0) := by
        intro k
        rcases Nat.mod_two_eq_zero_or_one k with h | h
        · have : (k + 1) % 2 = 1 := by omega
          simp [h, this]
        · have : (k + 1) % 2 = 0 := by omega
          simp [h, this]
      cases r <;> simp <;> exact key _
    · simp only [Bool.not_eq_true] at hq
      simp only [hq, Bool.or_false, Bool.false_eq_true, if_false]
      rw [ih]
      simp [oddCount]

theorem digitChar_eq_one (d : Nat) (h : d < 10) : ([digitChar d] == ['1']) = ((d : Int) == 1) := by
  interval_cases d <;> rfl

theorem getD_char_int (t : List Nat) (h : ∀ d ∈ t, d < 10) (k : Nat) :
    ([(t.map digitChar).getD k '0'] == ['1']) = ((t.map Int.ofNat).getD k 0 == 1) := by
  rw [List.getD_eq_getElem?_getD, List.getD_eq_getElem?_getD, List.getElem?_map, List.getElem?_map]
  cases hk : t[k]? with
  | none => rfl
  | some d =>
    simp only [Option.map_some, Option.getD_some]
    exact digitChar_eq_one d (h d (List.mem_of_getElem? hk))

theorem bin2dec_bits (n x : Nat) (hx : x < 2 ^ n) : OQ.C09.bin2dec (OQ.C04.bits n x) = x := by
  induction n generalizing x with
  | zero => have : x = 0 := by simpa using hx
            subst this; rfl
  | succ n ih =>
    rw [OQ.C04.bits_succ, OQ.C09.bin2dec_append, ih (x / 2) (by rw [Nat.pow_succ] at hx; omega)]
    omega

theorem dec2bin_eq_bits (x len : Nat) :
    OQ.C09.dec2bin x len = OQ.C04.bits (max len (OQ.C09.bitLength x)) x := rfl

/-- model level: `bin2dec` inverts `dec2bin` for EVERY number and length -/
theorem bin2dec_dec2bin (x len : Nat) : OQ.C09.bin2dec (OQ.C09.dec2bin x len) = x := by
  rw [dec2bin_eq_bits]
  apply bin2dec_bits
  exact lt_of_lt_of_le (lt_two_pow_bitLength x) (Nat.pow_le_pow_right (by decide) (le_max_right _ _))

end OQ.Tr
