/- helper definitions and lemmas for the translation ties of C10 (`OQ/Props/C10_TranslatedStats.lean`): the numpy prelude functions
   (`OQ.Py.np…`, OQ/Exec/Py.lean block T15) against the model's hand-written list functions (`rowsOf`, `checkParityOfVector`,
   `broadcastMul`, `covMatrix`), result embeddings of the model's values into the translated definitions' types.  Not property theorems. -/
import OQ.Lemmas.C10_TranslatedCounts
import OQ.Lemmas.C13_Iter
namespace OQ.C10
open OQ.Generated OQ.Py

/-! ### result embeddings -/

/-- the model's `_convert_bitstrings_to_vector` result as the translated definition returns it: the width is the length of the first key -/
def convResult (keys : List Shot) (r : Except Err (List Shot)) : Except Exc4 (Arr2 Int) :=
  match r with
  | .ok rows => .ok ⟨(keys.headD []).length, rows.map encT⟩
  | .error e => .error (toExc10 e)

/-- the model's parity vector as an int array -/
def parResult (r : Except Err (List Nat)) : Except Exc4 (Arr1 Int) :=
  match r with
  | .ok l => .ok (l.map Int.ofNat)
  | .error e => .error (toExc10 e)

/-- the model's result of `get_expectation_value_from_frequencies`; the model's `nan` (numpy divides by a zero total, no exception) is
    `.error .zeroDiv` of `OQ.Py.npTrueDivE` -/
def numResult (r : Except Err Rat) : Except Exc4 Rat :=
  match r with
  | .ok x => .ok x
  | .error e => .error (toExc10 e)

/-! ### `_convert_bitstrings_to_vector` -/

theorem join_nil_eq_flatten (l : List (List Char)) : OQ.Py.join [] l = l.flatten := by
  induction l with
  | nil => rfl
  | cons p ps ih =>
    cases ps with
    | nil => simp [OQ.Py.join]
    | cons q qs => simp only [OQ.Py.join, List.append_nil, List.flatten_cons] at ih ⊢; rw [ih]

theorem flatten_map_encS (keys : List Shot) : (keys.map encS).flatten = encS keys.flatten := by
  show (keys.map (List.map _)).flatten = List.map _ keys.flatten
  rw [List.map_flatten]

theorem u1_of_encS (s : Shot) : npAstypeInt (npSubU8 (npFromBufferU1 (encS s)) 48) = encT s := by
  simp only [npAstypeInt, npSubU8, npFromBufferU1, encS, encT, List.map_map]
  apply List.map_congr_left
  intro b _
  cases b <;> decide

theorem npChunks_map {α β : Type} (f : α → β) (r w : Nat) (l : List α) :
    npChunks r w (l.map f) = (rowsOf r w l).map (List.map f) := by
  induction r generalizing l with
  | zero => rfl
  | succ r ih => simp only [npChunks, rowsOf, List.map_cons, ← List.map_take, ← List.map_drop, ih]

theorem rowsOf_length {α : Type} (r w : Nat) (l : List α) (h : l.length = r * w) : ∀ row ∈ rowsOf r w l, row.length = w := by
  induction r generalizing l with
  | zero => intro row hrow; cases hrow
  | succ r ih =>
    intro row hrow
    simp only [rowsOf, List.mem_cons] at hrow
    rcases hrow with rfl | hrow
    · rw [List.length_take, h]; exact Nat.min_eq_left (by rw [Nat.succ_mul]; omega)
    · exact ih (l.drop w) (by rw [List.length_drop, h, Nat.succ_mul]; omega) row hrow

theorem rowsOf_ne_nil {α : Type} (r w : Nat) (l : List α) (h : 0 < r) : rowsOf r w l ≠ [] := by
  cases r with
  | zero => omega
  | succ r => simp [rowsOf]

/-- what the model's `_convert_bitstrings_to_vector` returns when it succeeds: at least one row, all of the first key's (positive) length -/
theorem convert_ok_inv (keys rows : List Shot) (h : convertBitstringsToVector keys = .ok rows) :
    0 < (keys.headD []).length ∧ rows ≠ [] ∧ ∀ r ∈ rows, r.length = (keys.headD []).length := by
  cases keys with
  | nil => cases h
  | cons k0 ks =>
    simp only [convertBitstringsToVector] at h
    by_cases hw : k0.length = 0
    · rw [if_pos hw] at h; cases h
    · rw [if_neg hw] at h
      by_cases hd : (k0 :: ks).flatten.length % k0.length ≠ 0
      · rw [if_pos hd] at h; cases h
      · rw [if_neg hd] at h
        have hrows := (Except.ok.inj h).symm
        subst hrows
        have hd' : (k0 :: ks).flatten.length % k0.length = 0 := by omega
        have hlen : (k0 :: ks).flatten.length = (k0 :: ks).flatten.length / k0.length * k0.length :=
          (Nat.div_mul_cancel (Nat.dvd_of_mod_eq_zero hd')).symm
        have hpos : 0 < (k0 :: ks).flatten.length / k0.length := by
          apply Nat.div_pos _ (by omega)
          simp only [List.flatten_cons, List.length_append]; omega
        exact ⟨by simpa using Nat.pos_of_ne_zero hw, rowsOf_ne_nil _ _ _ hpos, rowsOf_length _ _ _ hlen⟩

/-! ### `check_parity_of_vector` -/

theorem fmod_two (a : Nat) : Int.fmod ((a : Int) + 1) 2 = (((a + 1) % 2 : Nat) : Int) := by
  rw [Int.fmod_eq_emod_of_nonneg _ (by omega)]; omega

theorem getD_encT (r : Shot) (q : Nat) : (encT r).getD q 0 = (((bitAt r q).toNat : Nat) : Int) := by
  simp only [encT, bitAt, List.getD_eq_getElem?_getD, List.getElem?_map]
  cases r[q]? with
  | none => rfl
  | some b => cases b <;> rfl

theorem mapE_error_of {α β : Type} (f : α → Except Err β) (l : List α) (e0 : Err)
    (hall : ∀ x ∈ l, ∀ e, f x = .error e → e = e0) (hex : ∃ x ∈ l, ∃ e, f x = .error e) : mapE f l = .error e0 := by
  induction l with
  | nil => obtain ⟨x, hx, _⟩ := hex; cases hx
  | cons a as ih =>
    simp only [mapE]
    cases hfa : f a with
    | error e => rw [hall a (by simp) e hfa]
    | ok v =>
      have : mapE f as = .error e0 := by
        apply ih (fun x hx => hall x (by simp [hx]))
        obtain ⟨x, hx, e, he⟩ := hex
        rcases List.mem_cons.mp hx with rfl | hx'
        · rw [hfa] at he; cases he
        · exact ⟨x, hx', e, he⟩
      simp only [this]

theorem rowParity_error (marked : List Nat) (r : Shot) (h : ∃ q ∈ marked, r.length ≤ q) : rowParity marked r = .error .index := by
  unfold rowParity
  have : mapE (bitOf r) marked = .error .index := by
    apply mapE_error_of
    · intro q _ e he
      unfold bitOf at he
      cases hq : r[q]? with
      | none => rw [hq] at he; exact (Except.error.inj he).symm
      | some b => rw [hq] at he; cases he
    · obtain ⟨q, hq, hle⟩ := h
      refine ⟨q, hq, .index, ?_⟩
      unfold bitOf
      rw [List.getElem?_eq_none hle]
  rw [this]


/-! ### `get_expectation_value_from_frequencies` -/
theorem zip1_broadcast (counts : List Nat) (signs : List Int) :
    npZip1E (fun x y => x * y) (npFromIterInt (counts.map Int.ofNat)) signs =
      (match broadcastMul counts signs with | .ok l => .ok l | .error e => .error (toExc10 e)) := by
  unfold npZip1E broadcastMul npFromIterInt
  simp only [List.length_map]
  by_cases h1 : counts.length = signs.length
  · rw [if_pos h1, if_pos h1.symm]
    simp only [List.zipWith_map_left]
    rfl
  · rw [if_neg h1, if_neg (Ne.symm h1)]
    by_cases h2 : counts.length = 1
    · by_cases h3 : signs.length = 1
      · omega
      · rw [if_pos h2, if_neg h3, if_pos h2]
        cases counts with
        | nil => cases h2
        | cons c cs => rfl
    · rw [if_neg h2]
      by_cases h3 : signs.length = 1
      · rw [if_pos h3, if_pos h3]
        simp only [List.map_map]
        rfl
      · rw [if_neg h3, if_neg h3, if_neg h2]
        rfl

theorem broadcast_ne_nil (counts : List Nat) (signs l : List Int) (hc : counts ≠ []) (hs : signs ≠ [])
    (h : broadcastMul counts signs = .ok l) : l ≠ [] := by
  unfold broadcastMul at h
  have hc' : counts.length ≠ 0 := by simpa using hc
  have hs' : signs.length ≠ 0 := by simpa using hs
  split_ifs at h with h1 h2 h3 <;> cases h <;> intro hn <;> (have := congrArg List.length hn; simp only [List.length_zipWith, List.length_map, List.length_nil] at this; omega)


/-! ### generic loop lemmas -/
theorem foldlE_append {σ α : Type} (f : σ → α → Except Exc4 σ) (s : σ) (l1 l2 : List α) :
    foldlE f s (l1 ++ l2) = (foldlE f s l1).bind (fun s' => foldlE f s' l2) := by
  induction l1 generalizing s with
  | nil => rfl
  | cons x xs ih =>
    simp only [List.cons_append, foldlE]
    cases f s x with
    | error e => rfl
    | ok s' => exact ih s'

/-- a `for j in range(m)` loop whose `j`-th iteration takes the state `P j` to `P (j + 1)` -/
theorem foldlE_range {σ : Type} (B : σ → Int → Except Exc4 σ) (P : Nat → σ) (m : Nat)
    (h : ∀ j, j < m → B (P j) (Int.ofNat j) = .ok (P (j + 1))) :
    foldlE B (P 0) ((List.range m).map Int.ofNat) = .ok (P m) := by
  induction m with
  | zero => rfl
  | succ m ih =>
    rw [List.range_succ, List.map_append, foldlE_append, ih (fun j hj => h j (by omega))]
    simp only [List.map_cons, List.map_nil, foldlE, Except.bind, h m (by omega)]

theorem enumerate_eq {τ : Type} (l : List τ) (d : τ) :
    enumerate l = (List.range l.length).map (fun i => (((i : Nat) : Int), l.getD i d)) := by
  unfold enumerate
  apply List.ext_getElem
  · simp
  · intro i h1 h2
    simp only [List.length_map, List.length_zipIdx] at h1
    simp [List.getD_eq_getElem?_getD, List.getElem?_eq_getElem h1]

/-- a `for i, x in enumerate(l)` loop whose `i`-th iteration takes the state `P i` to `P (i + 1)` -/
theorem foldlE_enumerate {σ τ : Type} (B : σ → Int × τ → Except Exc4 σ) (l : List τ) (d : τ) (P : Nat → σ)
    (h : ∀ j, j < l.length → B (P j) (((j : Nat) : Int), l.getD j d) = .ok (P (j + 1))) :
    foldlE B (P 0) (enumerate l) = .ok (P l.length) := by
  rw [enumerate_eq l d]
  generalize l.length = n at h
  induction n with
  | zero => rfl
  | succ n ih =>
    rw [List.range_succ, List.map_append, foldlE_append, ih (fun j hj => h j (by omega))]
    simp only [List.map_cons, List.map_nil, foldlE, Except.bind, h n (by omega)]

theorem py_mapE_pure {α β : Type} (g : α → β) (l : List α) : OQ.Py.mapE (fun x => Except.ok (g x)) l = .ok (l.map g) := by
  induction l with
  | nil => rfl
  | cons x xs ih => simp only [OQ.Py.mapE, ih]; rfl

/-- a generator expression whose element is the loop variable itself – `int(count) for count in …` over Python ints, where the
    translator renders `int` of an `Int` as the identity – collects the list it iterates over and never raises.  With it the two
    renderings of `num_measurements` in `get_expectation_value_from_frequencies` (`sum(d.values())` and
    `sum(int(count) for count in d.values())`) are the same term after one simplification step. -/
theorem py_mapE_ok_id {α : Type} (l : List α) : OQ.Py.mapE (fun x => Except.ok x) l = .ok l := by
  have h := py_mapE_pure (fun x : α => x) l
  simpa using h

/-- the two generated forms of the total: `let n := sum vals; k n` and `bind (mapE ok vals) (fun t => let n := sum t; k n)` -/
theorem py_sum_genexp_id {β : Type} (vals : List Int) (k : Int → Except Exc4 β) :
    Except.bind (OQ.Py.mapE (fun (count : Int) => Except.ok count) vals) (fun (t : List Int) => k (OQ.Py.sum t)) = k (OQ.Py.sum vals) := by
  rw [py_mapE_ok_id]; rfl

/-! ### the n × n table as a function of its indices -/
def tab (n : Nat) (f : Nat → Nat → Rat) : Arr2 Rat := ⟨n, (List.range n).map (fun a => (List.range n).map (fun b => f a b))⟩

theorem indexE_natCast {α : Type} (xs : List α) (m : Nat) (h : m < xs.length) : indexE xs ((m : Nat) : Int) = .ok xs[m] := by
  unfold indexE
  simp [List.getElem?_eq_getElem h]

theorem listSet_natCast {α : Type} (xs : List α) (m : Nat) (v : α) : listSet xs ((m : Nat) : Int) v = xs.set m v := by
  unfold listSet
  simp

theorem npZeros2_eq (n : Nat) : npZeros2 (ν := Rat) ((n : Nat) : Int) ((n : Nat) : Int) = tab n (fun _ _ => 0) := by
  unfold npZeros2 tab
  simp only [Int.toNat_natCast, Int.cast_zero]
  congr 1
  apply List.ext_getElem <;> simp

theorem tab_get (n : Nat) (f : Nat → Nat → Rat) (i j : Nat) (hi : i < n) (hj : j < n) :
    npGet2E (tab n f) ((i : Nat) : Int) ((j : Nat) : Int) = .ok (f i j) := by
  unfold npGet2E tab
  rw [indexE_natCast _ i (by simp [hi])]
  simp only [List.getElem_map, List.getElem_range, bind_ok]
  rw [indexE_natCast _ j (by simp [hj])]
  simp

theorem tab_set (n : Nat) (f : Nat → Nat → Rat) (i j : Nat) (v : Rat) (hi : i < n) (_hj : j < n) :
    npSet2 (tab n f) ((i : Nat) : Int) ((j : Nat) : Int) v = tab n (fun a b => if a = i ∧ b = j then v else f a b) := by
  unfold npSet2 tab
  rw [indexE_natCast _ i (by simp [hi])]
  simp only [List.getElem_map, List.getElem_range, listSet_natCast]
  congr 1
  apply List.ext_getElem
  · simp
  · intro a h1 h2
    simp only [List.length_set, List.length_map, List.length_range] at h1
    simp only [List.getElem_set, List.getElem_map, List.getElem_range]
    by_cases hai : i = a
    · subst hai
      simp only [if_true]
      apply List.ext_getElem
      · simp
      · intro b h3 h4
        simp only [List.length_set, List.length_map, List.length_range] at h3
        simp only [List.getElem_set, List.getElem_map, List.getElem_range, true_and]
        by_cases hbj : j = b
        · subst hbj; simp
        · simp [hbj, Ne.symm hbj]
    · simp only [hai, if_false]
      apply List.map_congr_left
      intro b _
      simp [Ne.symm hai]

/-! ### `Measurements.get_expectation_values` -/
def evResult (n : Nat) (r : Except Err (ExpectationValues Rat)) :
    Except Exc4 (Arr1 Rat × List (Arr2 Rat) × List (Arr2 (Option Rat))) :=
  match r with
  | .ok ev => .ok (ev.values, [⟨n, ev.correlations⟩], [⟨n, ev.covariances⟩])
  | .error e => .error (toExc10 e)

theorem zip_map_self {α β : Type} (f : α → β) (l : List α) : List.zip (l.map f) l = l.map (fun t => (f t, t)) := by
  induction l with
  | nil => rfl
  | cons x xs ih => simp only [List.map_cons, List.zip_cons_cons, ih]

theorem py_mapE_map {α β γ : Type} (f : β → Except Exc4 γ) (g : α → β) (l : List α) :
    OQ.Py.mapE f (l.map g) = OQ.Py.mapE (fun x => f (g x)) l := by
  induction l with
  | nil => rfl
  | cons x xs ih => simp only [List.map_cons, OQ.Py.mapE, ih]

theorem vals_step (freq : Counts) (terms : List (Term Rat)) :
    OQ.Py.mapE (fun (t : Term Rat) => Except.bind (numResult (expectationFromFrequencies (R := Rat) t.qubits freq))
        (fun x => Except.ok (t.coeff * x))) terms =
      (match mapE (termValue freq) terms with | .ok v => .ok v | .error e => .error (toExc10 e)) := by
  induction terms with
  | nil => rfl
  | cons t ts ih =>
    simp only [OQ.Py.mapE, mapE, termValue, ih]
    cases expectationFromFrequencies (R := Rat) t.qubits freq with
    | error e => rfl
    | ok x =>
      simp only [numResult, bind_ok]
      cases mapE (termValue freq) ts with
      | error e => rfl
      | ok v => rfl


def dT : Term Rat := ⟨0, []⟩

def Hf (M : Nat → Nat → Rat) (m a b : Nat) : Rat := if a < m ∧ b < m then M a b else 0
def Gf (M : Nat → Nat → Rat) (j k a b : Nat) : Rat :=
  if a = j ∧ b < k then M a b else if b = j ∧ a < k then M a b else if a = j ∧ b = j then M a b else Hf M j a b

theorem Gf_zero (M : Nat → Nat → Rat) (j : Nat) :
    (fun a b => if a = j ∧ b = j then M j j else Hf M j a b) = Gf M j 0 := by
  funext a b
  simp only [Gf, Nat.not_lt_zero, and_false, if_false]
  by_cases h : a = j ∧ b = j
  · obtain ⟨rfl, rfl⟩ := h; simp
  · simp [h]

theorem Gf_step (M : Nat → Nat → Rat) (j k : Nat) (hk : k < j) (v : Rat) (h1 : M j k = v) (h2 : M k j = v) :
    (fun a b => if a = k ∧ b = j then v else (if a = j ∧ b = k then v else Gf M j k a b)) = Gf M j (k + 1) := by
  funext a b
  simp only [Gf]
  by_cases ha : a = j <;> by_cases hb : b = j <;> by_cases hak : a = k <;> by_cases hbk : b = k <;>
    first
    | (exfalso; omega)
    | (subst_vars; simp [*] <;> omega)
    | simp [*, Nat.lt_iff_le_and_ne]

theorem Gf_end (M : Nat → Nat → Rat) (j : Nat) : Gf M j j = Hf M (j + 1) := by
  funext a b
  simp only [Gf, Hf]
  by_cases ha : a = j <;> by_cases hb : b = j <;> by_cases h1 : a < j <;> by_cases h2 : b < j <;>
    first
    | (exfalso; omega)
    | (have h3 : a < j + 1 := by omega
       have h4 : b < j + 1 := by omega
       simp [*])
    | (simp [*]; omega)

theorem withIdx_eq {α : Type} (k : Nat) (l : List α) (d : α) :
    withIdx k l = (List.range l.length).map (fun i => (k + i, l.getD i d)) := by
  induction l generalizing k with
  | nil => rfl
  | cons x xs ih =>
    rw [withIdx, ih (k + 1), List.length_cons, List.range_succ_eq_map, List.map_cons, List.map_map]
    congr 1
    apply List.map_congr_left
    intro i _
    simp only [Function.comp, List.getD_cons_succ]
    congr 1
    omega

theorem indexE_map_getD {α β : Type} (f : α → β) (l : List α) (d : α) (j : Nat) (h : j < l.length) :
    indexE (l.map f) ((j : Nat) : Int) = .ok (f (l.getD j d)) := by
  rw [indexE_natCast _ j (by simpa using h)]
  simp [List.getD_eq_getElem?_getD, List.getElem?_eq_getElem h]

theorem indexE_getD {α : Type} (l : List α) (d : α) (j : Nat) (h : j < l.length) :
    indexE l ((j : Nat) : Int) = .ok (l.getD j d) := by
  rw [indexE_natCast _ j h]
  simp [List.getD_eq_getElem?_getD, List.getElem?_eq_getElem h]

theorem zval_perm (a b : List Nat) (h : a.Perm b) (s : Shot) : zval a s = zval b s := by
  unfold zval
  exact (h.map _).prod_eq

theorem meanZ_perm (a b : List Nat) (h : a.Perm b) (shots : List Shot) : meanZ (R := Rat) a shots = meanZ b shots := by
  unfold meanZ
  apply mean_congr
  intro s _
  rw [zval_perm a b h s]

/-- `x[:, None] * x[None, :]`: the outer product -/
theorem outer_ok (v : List Rat) :
    npZip2E (fun x y => x * y) (npCol (npArray1 v)) (npRow (npArray1 v)) =
      .ok ⟨v.length, v.map (fun a => v.map (fun b => a * b))⟩ := by
  unfold npZip2E npCol npRow npArray1
  simp only [List.length_map, List.length_cons, List.length_nil, Nat.zero_add]
  have hb1 : npBDim v.length 1 = some v.length := by
    unfold npBDim
    by_cases h : v.length = 1
    · simp [h]
    · simp [h]
  have hb2 : npBDim 1 v.length = some v.length := by
    unfold npBDim
    by_cases h : 1 = v.length
    · simp [← h]
    · simp [h]
  simp only [hb1, hb2]
  congr 2
  have hs1 : npStretch v.length (v.map (fun x => [x])) = v.map (fun x => [x]) := by
    unfold npStretch; simp
  have hs2 : npStretch v.length [v] = List.replicate v.length v := by
    unfold npStretch
    by_cases h : 1 = v.length
    · simp [← h]
    · simp [h]
  rw [hs1, hs2]
  apply List.ext_getElem
  · simp
  · intro i h1 h2
    simp only [List.length_zipWith, List.length_map, List.length_replicate, Nat.min_self] at h1
    simp only [List.getElem_zipWith, List.getElem_map, List.getElem_replicate]
    have hs3 : npStretch v.length [v[i]] = List.replicate v.length v[i] := by
      unfold npStretch
      by_cases h : 1 = v.length
      · simp [← h]
      · simp [h]
    have hs4 : npStretch v.length v = v := by unfold npStretch; simp
    rw [hs3, hs4]
    apply List.ext_getElem
    · simp
    · intro k h3 h4
      simp

/-- `A - B` of two arrays of the same shape -/
theorem zip2_same (f : Rat → Rat → Rat) (n : Nat) (R S : List (List Rat)) (hR : R.length = n) (hS : S.length = n)
    (hR' : ∀ r ∈ R, r.length = n) (hS' : ∀ r ∈ S, r.length = n) :
    npZip2E f ⟨n, R⟩ ⟨n, S⟩ = .ok ⟨n, List.zipWith (fun ra rb => List.zipWith f ra rb) R S⟩ := by
  unfold npZip2E
  simp only [hR, hS, npBDim, if_true]
  congr 2
  have h1 : npStretch n R = R := by unfold npStretch; simp [hR]
  have h2 : npStretch n S = S := by unfold npStretch; simp [hS]
  rw [h1, h2]
  apply List.ext_getElem
  · simp
  · intro i h3 h4
    simp only [List.length_zipWith, hR, hS, Nat.min_self] at h3
    simp only [List.getElem_zipWith]
    have e1 : npStretch n R[i] = R[i] := by unfold npStretch; simp [hR' R[i] (List.getElem_mem _)]
    have e2 : npStretch n S[i] = S[i] := by unfold npStretch; simp [hS' S[i] (List.getElem_mem _)]
    rw [e1, e2]

theorem cov_eq (corr : List (List Rat)) (vals : List Rat) (d : Int) :
    (List.zipWith (fun ra rb => List.zipWith (fun x y => x - y) ra rb) corr (vals.map (fun a => vals.map (fun b => a * b)))).map
        (fun r => r.map (fun x => if d == 0 then none else some (x / ((d : Int) : Rat)))) = covMatrix corr vals d := by
  unfold covMatrix
  rw [List.zipWith_map_right, List.map_zipWith]
  congr 1
  funext row vi
  rw [List.zipWith_map_right, List.map_zipWith]
  congr 1
  funext c vj
  unfold divOrNan
  by_cases h : d = 0 <;> simp [h]

theorem dom_of_vals (shots : List Shot) (w : Nat) (t : Term Rat) (ts : List (Term Rat)) (vals : List Rat)
    (hl : ∀ s ∈ shots, s.length = w) (hv : mapE (termValue (getCounts shots)) (t :: ts) = .ok vals) : shots ≠ [] ∧ 0 < w := by
  obtain ⟨y, hy⟩ := mapE_ok_inv _ _ _ hv t (by simp)
  unfold termValue at hy
  cases hE : expectationFromFrequencies (R := Rat) t.qubits (getCounts shots) with
  | error e => rw [hE] at hy; cases hy
  | ok x =>
    unfold expectationFromFrequencies at hE
    cases hc : convertBitstringsToVector ((getCounts shots).map (fun p => p.1)) with
    | error e => rw [hc] at hE; cases hE
    | ok rows =>
      obtain ⟨hw, _, _⟩ := convert_ok_inv _ rows hc
      have hne : shots ≠ [] := by
        intro h; subst h; cases hc
      refine ⟨hne, ?_⟩
      cases hk : (getCounts shots).map (fun p => p.1) with
      | nil => rw [hk] at hc; cases hc
      | cons k0 ks =>
        rw [hk] at hw
        have hmem : k0 ∈ (getCounts shots).map (fun p => p.1) := by rw [hk]; simp
        obtain ⟨p, hp, rfl⟩ := List.mem_map.mp hmem
        rw [← getCounts_key_length shots w hl p hp]
        simpa using hw

end OQ.C10
