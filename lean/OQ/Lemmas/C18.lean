/-
  C18 — helper lemmas: rule chaining over `Option`, global phases, the U3 ring identity, block structure of
  controlled matrices, placements through `OQ.Spec.lift`, soundness of the U3 rule.
-/
import OQ.Model.C18
import OQ.Lemmas.Bridge
import OQ.Spec.Lift
import Mathlib.Algebra.Star.Basic
import Mathlib.LinearAlgebra.Matrix.ConjTranspose
import Mathlib.LinearAlgebra.Matrix.Notation
import Mathlib.Algebra.BigOperators.Intervals
import Mathlib.Tactic.LinearCombination
import Mathlib.Tactic.FinCases
set_option linter.unusedSectionVars false
namespace OQ.C18
open Matrix OQ.Spec

section Chain
variable {α β Op : Type}

theorem flatMapM_eq_some_nil (f : α → Option (List β)) : flatMapM f [] = some [] := rfl

theorem flatMapM_cons (f : α → Option (List β)) (a : α) (as : List α) :
    flatMapM f (a :: as) = (f a).bind (fun l => (flatMapM f as).bind (fun r => some (l ++ r))) := by
  simp only [flatMapM]
  cases f a <;> simp only [Option.bind_none, Option.bind_some]
  cases flatMapM f as <;> rfl

theorem flatMapM_append (f : α → Option (List β)) (xs ys : List α) :
    flatMapM f (xs ++ ys) = (flatMapM f xs).bind (fun l => (flatMapM f ys).bind (fun r => some (l ++ r))) := by
  induction xs with
  | nil => simp [flatMapM]
  | cons a as ih =>
    rw [List.cons_append, flatMapM_cons, flatMapM_cons, ih]
    cases f a <;> simp only [Option.bind_none, Option.bind_some]
    cases flatMapM f as <;> simp only [Option.bind_none, Option.bind_some]
    cases flatMapM f ys <;> simp only [Option.bind_none, Option.bind_some, List.append_assoc]

theorem flatMapM_pure (xs : List α) : flatMapM (fun a => some [a]) xs = some xs := by
  induction xs with
  | nil => rfl
  | cons a as ih => rw [flatMapM_cons, ih]; rfl

theorem flatMapM_congr (f g : α → Option (List β)) (xs : List α) (h : ∀ a ∈ xs, f a = g a) :
    flatMapM f xs = flatMapM g xs := by
  induction xs with
  | nil => rfl
  | cons a as ih =>
    rw [flatMapM_cons, flatMapM_cons, h a (by simp), ih (fun b hb => h b (by simp [hb]))]

/-- flattening in two stages = flattening the composite (Option: the order of evaluation does not matter) -/
theorem flatMapM_flatMapM (f : α → Option (List β)) {γ : Type} (g : β → Option (List γ)) (xs : List α) :
    (flatMapM f xs).bind (flatMapM g) = flatMapM (fun a => (f a).bind (flatMapM g)) xs := by
  induction xs with
  | nil => rfl
  | cons a as ih =>
    rw [flatMapM_cons, flatMapM_cons, ← ih]
    cases hfa : f a with
    | none => simp
    | some l =>
      simp only [Option.bind_some]
      cases hfs : flatMapM f as with
      | none =>
        simp only [Option.bind_none]
        cases flatMapM g l <;> rfl
      | some r =>
        simp only [Option.bind_some]
        rw [flatMapM_append]

theorem decomposeOperation_nil (op : Op) : decomposeOperation ([] : List (Rule Op)) op = some [op] := rfl

theorem decomposeOperation_cons (r : Rule Op) (rs : List (Rule Op)) (op : Op) :
    decomposeOperation (r :: rs) op = (applyRule r op).bind (decomposeOperations rs) := by
  simp only [decomposeOperation, decomposeOperations]
  cases applyRule r op <;> rfl

end Chain

section Phase
variable {R : Type} [CommRing R] [StarRing R] {n : Type} [Fintype n] [DecidableEq n]

/-- a scalar of modulus one -/
def IsPhase (p : R) : Prop := p * star p = 1

theorem isPhase_one : IsPhase (1 : R) := by simp [IsPhase]

theorem IsPhase.mul {p q : R} (hp : IsPhase p) (hq : IsPhase q) : IsPhase (p * q) := by
  unfold IsPhase at *
  rw [star_mul']
  calc p * q * (star p * star q) = (p * star p) * (q * star q) := by ring
    _ = 1 := by rw [hp, hq, one_mul]

/-- equal up to one global phase -/
def PhaseEq (U V : Matrix n n R) : Prop := ∃ p : R, IsPhase p ∧ U = p • V

theorem PhaseEq.refl (U : Matrix n n R) : PhaseEq U U := ⟨1, isPhase_one, (one_smul _ _).symm⟩

theorem PhaseEq.trans {U V W : Matrix n n R} (h1 : PhaseEq U V) (h2 : PhaseEq V W) : PhaseEq U W := by
  obtain ⟨p, hp, rfl⟩ := h1
  obtain ⟨q, hq, rfl⟩ := h2
  exact ⟨p * q, hp.mul hq, by rw [smul_smul]⟩

theorem PhaseEq.mul {U V U' V' : Matrix n n R} (h1 : PhaseEq U U') (h2 : PhaseEq V V') :
    PhaseEq (U * V) (U' * V') := by
  obtain ⟨p, hp, rfl⟩ := h1
  obtain ⟨q, hq, rfl⟩ := h2
  exact ⟨p * q, hp.mul hq, by rw [Matrix.smul_mul, Matrix.mul_smul, smul_smul]⟩

end Phase

section Den
variable {R : Type} [CommRing R] [StarRing R] {n : Type} [Fintype n] [DecidableEq n] {Op : Type}

/-- action of an operation list given the action `D` of each operation: the FIRST operation acts first,
    i.e. is the rightmost factor (`Circuit.to_unitary` multiplies the reversed list) -/
def denoteBy (D : Op → Option (Matrix n n R)) : List Op → Option (Matrix n n R)
  | [] => some 1
  | op :: rest => (D op).bind (fun a => (denoteBy D rest).bind (fun b => some (b * a)))

theorem denoteBy_append (D : Op → Option (Matrix n n R)) (xs ys : List Op) :
    denoteBy D (xs ++ ys) =
      (denoteBy D xs).bind (fun a => (denoteBy D ys).bind (fun b => some (b * a))) := by
  induction xs with
  | nil =>
    simp only [List.nil_append, denoteBy, Option.bind_some, mul_one]
    cases denoteBy D ys <;> rfl
  | cons x xs ih =>
    simp only [List.cons_append, denoteBy, ih]
    cases D x <;> simp only [Option.bind_none, Option.bind_some]
    cases denoteBy D xs <;> simp only [Option.bind_none, Option.bind_some]
    cases denoteBy D ys <;> simp only [Option.bind_none, Option.bind_some, mul_assoc]

theorem denoteBy_singleton (D : Op → Option (Matrix n n R)) (op : Op) : denoteBy D [op] = D op := by
  simp only [denoteBy]
  cases D op <;> simp

/-- a rule is sound on the operations satisfying `Good`: what it produces acts like the operation it replaces
    up to one global phase, and stays inside `Good` -/
def Rule.Sound (D : Op → Option (Matrix n n R)) (Good : Op → Prop) (r : Rule Op) : Prop :=
  ∀ op, Good op → r.predicate op = some true → ∀ out, r.production op = some out →
    (∀ o ∈ out, Good o) ∧ ∀ U, D op = some U → ∃ U', denoteBy D out = some U' ∧ PhaseEq U U'

theorem pass_sound (D : Op → Option (Matrix n n R)) (Good : Op → Prop) (r : Rule Op) (hr : r.Sound D Good) :
    ∀ (ops out : List Op), (∀ op ∈ ops, Good op) → flatMapM (applyRule r) ops = some out →
      (∀ o ∈ out, Good o) ∧ ∀ U, denoteBy D ops = some U → ∃ U', denoteBy D out = some U' ∧ PhaseEq U U' := by
  intro ops
  induction ops with
  | nil =>
    intro out _ h
    simp only [flatMapM, Option.some.injEq] at h
    subst h
    exact ⟨by simp, fun U hU => ⟨U, hU, PhaseEq.refl U⟩⟩
  | cons op ops ih =>
    intro out hg h
    rw [flatMapM_cons] at h
    cases h1 : applyRule r op with
    | none => rw [h1] at h; simp at h
    | some l =>
      cases h2 : flatMapM (applyRule r) ops with
      | none => rw [h1, h2] at h; simp at h
      | some rest =>
        rw [h1, h2] at h
        simp only [Option.bind_some, Option.some.injEq] at h
        subst h
        obtain ⟨ihg, ihd⟩ := ih rest (fun o ho => hg o (by simp [ho])) h2
        have hop : Good op := hg op (by simp)
        -- the head
        have hl : (∀ o ∈ l, Good o) ∧ ∀ U, D op = some U → ∃ U', denoteBy D l = some U' ∧ PhaseEq U U' := by
          unfold applyRule at h1
          cases hp : r.predicate op with
          | none => rw [hp] at h1; simp at h1
          | some b =>
            rw [hp] at h1
            cases b with
            | true => exact hr op hop hp l h1
            | false =>
              simp only [Option.some.injEq] at h1
              subst h1
              refine ⟨by simpa using hop, fun U hU => ⟨U, ?_, PhaseEq.refl U⟩⟩
              rw [denoteBy_singleton]; exact hU
        refine ⟨?_, ?_⟩
        · intro o ho
          rcases List.mem_append.mp ho with ho | ho
          · exact hl.1 o ho
          · exact ihg o ho
        · intro U hU
          simp only [denoteBy] at hU
          cases ha : D op with
          | none => rw [ha] at hU; simp at hU
          | some a =>
            cases hb : denoteBy D ops with
            | none => rw [ha, hb] at hU; simp at hU
            | some b =>
              rw [ha, hb] at hU
              simp only [Option.bind_some, Option.some.injEq] at hU
              subst hU
              obtain ⟨a', ha', hpa⟩ := hl.2 a ha
              obtain ⟨b', hb', hpb⟩ := ihd b hb
              refine ⟨b' * a', ?_, hpb.mul hpa⟩
              rw [denoteBy_append, ha', hb']; rfl

end Den

section GatesM
variable {R : Type} [CommRing R]

theorem m2_r (a b c d : R) : (Gates.m2 a b c d).r = 2 := rfl
theorem m2_c (a b c d : R) : (Gates.m2 a b c d).c = 2 := rfl

theorem toM_m2 (a b c d : R) : Mat.toM 2 2 (Gates.m2 a b c d) = !![a, b; c, d] := by
  ext i j
  simp only [Mat.toM, Gates.m2, Mat.ofLists]
  rw [Mat.get_ofFn _ _ _ _ _ (by simpa using i.2) (by simpa using j.2)]
  fin_cases i <;> fin_cases j <;> rfl

/-- the laws of the ring constants used by the U3 identity -/
structure ScalLaws (k : Scal R) : Prop where
  ii : k.i * k.i = -1

/-- a half-angle point lies on the unit circle -/
def Ang.OnCircle (a : Ang R) : Prop := a.ch * a.ch + a.sh * a.sh = 1

theorem ehp_mul_ehm (k : Scal R) (hk : k.i * k.i = -1) (a : Ang R) (ha : a.ch * a.ch + a.sh * a.sh = 1) :
    a.ehp k * a.ehm k = 1 := by
  unfold Ang.ehp Ang.ehm
  linear_combination ha - a.sh * a.sh * hk

theorem eip_eq (k : Scal R) (hk : k.i * k.i = -1) (a : Ang R) : a.eip k = a.ehp k * a.ehp k := by
  unfold Ang.eip Ang.ehp Ang.c Ang.s
  linear_combination (-(a.sh * a.sh)) * hk

/-- **U3(θ,φ,λ) = e^{i(φ+λ)/2} · RZ(φ) · RY(θ) · RZ(λ)** over the gate matrices of `OQ.Gates`, in any commutative
    ring with `i² = −1` and φ, λ on the unit circle. -/
theorem u3_toM (k : Scal R) (hk : k.i * k.i = -1) (th ph la : Ang R)
    (hph : ph.ch * ph.ch + ph.sh * ph.sh = 1) (hla : la.ch * la.ch + la.sh * la.sh = 1) :
    Mat.toM 2 2 (Gates.u3 k th ph la) =
      (ph.ehp k * la.ehp k) •
        (Mat.toM 2 2 (Gates.rz k ph) * Mat.toM 2 2 (Gates.ry th) * Mat.toM 2 2 (Gates.rz k la)) := by
  have h1 := ehp_mul_ehm k hk ph hph
  have h2 := ehp_mul_ehm k hk la hla
  have e1 := eip_eq k hk ph
  have e2 := eip_eq k hk la
  simp only [Gates.u3, Gates.rz, Gates.ry, toM_m2]
  ext i j
  fin_cases i <;> fin_cases j <;>
    simp [e1, e2]
  · linear_combination (-(th.ch * la.ehp k * la.ehm k)) * h1 - th.ch * h2
  · linear_combination (-(la.ehp k * la.ehp k * th.sh)) * h1
  · linear_combination (-(ph.ehp k * ph.ehp k * th.sh)) * h2
  · ring

end GatesM

section Ctrl
variable {R : Type} [CommRing R]

theorem ctrl_r (k : Nat) (m : Mat R) : (ctrlMatrix k m).r = m.r * 2 ^ k := rfl
theorem ctrl_c (k : Nat) (m : Mat R) : (ctrlMatrix k m).c = m.r * 2 ^ k := rfl

theorem ctrl_get (k : Nat) (m : Mat R) (i j : Nat) (hi : i < m.r * 2 ^ k) (hj : j < m.r * 2 ^ k) :
    (ctrlMatrix k m).get i j =
      if i < m.r * 2 ^ k - m.r ∨ j < m.r * 2 ^ k - m.r then (if i = j then 1 else 0)
      else m.get (i - (m.r * 2 ^ k - m.r)) (j - (m.r * 2 ^ k - m.r)) := by
  unfold ctrlMatrix
  rw [Mat.get_ofFn _ _ _ _ _ hi hj]

theorem toM_ctrl_congr (k : Nat) (A B : Mat R) (hr : A.r = B.r) (h : ∀ i j, A.get i j = B.get i j) (D : Nat)
    (hD : D = A.r * 2 ^ k) :
    Mat.toM D D (ctrlMatrix k A) = Mat.toM D D (ctrlMatrix k B) := by
  subst hD
  ext i j
  simp only [Mat.toM]
  rw [ctrl_get k A _ _ i.2 j.2, ctrl_get k B _ _ (hr ▸ i.2) (hr ▸ j.2), ← hr]
  simp only [h]

theorem le_mul_two_pow (d k : Nat) : d ≤ d * 2 ^ k := Nat.le_mul_of_pos_right d (Nat.two_pow_pos k)

theorem ctrl_mul_get (k : Nat) (A B : Mat R) (d : Nat) (hAr : A.r = d) (hAc : A.c = d) (hBr : B.r = d)
    (hBc : B.c = d) (i j : Nat) (hi : i < d * 2 ^ k) (hj : j < d * 2 ^ k) :
    (ctrlMatrix k (A.mul B)).get i j =
      ∑ t ∈ Finset.range (d * 2 ^ k), (ctrlMatrix k A).get i t * (ctrlMatrix k B).get t j := by
  have hle := le_mul_two_pow d k
  have hABr : (A.mul B).r = d := by simp [Mat.mul, hAr]
  rw [ctrl_get k (A.mul B) _ _ (by rw [hABr]; exact hi) (by rw [hABr]; exact hj), hABr]
  have hod : d * 2 ^ k = (d * 2 ^ k - d) + d := by omega
  generalize d * 2 ^ k - d = o at hod ⊢
  have cA : ∀ t, t < d * 2 ^ k → (ctrlMatrix k A).get i t =
      if i < o ∨ t < o then (if i = t then 1 else 0) else A.get (i - o) (t - o) := by
    intro t ht
    rw [ctrl_get k A _ _ (by rw [hAr]; exact hi) (by rw [hAr]; exact ht), hAr]
    have : d * 2 ^ k - d = o := by omega
    rw [this]
  have cB : ∀ t, t < d * 2 ^ k → (ctrlMatrix k B).get t j =
      if t < o ∨ j < o then (if t = j then 1 else 0) else B.get (t - o) (j - o) := by
    intro t ht
    rw [ctrl_get k B _ _ (by rw [hBr]; exact ht) (by rw [hBr]; exact hj), hBr]
    have : d * 2 ^ k - d = o := by omega
    rw [this]
  rw [Finset.sum_congr rfl (fun t ht => by rw [cA t (Finset.mem_range.mp ht), cB t (Finset.mem_range.mp ht)])]
  by_cases hio : i < o
  · -- row in the identity block
    simp only [hio, true_or, if_true]
    rw [Finset.sum_eq_single i]
    · simp only [if_true, one_mul, hio, true_or]
    · intro t _ hne
      rw [if_neg (Ne.symm hne), zero_mul]
    · intro h; exact absurd (Finset.mem_range.mpr hi) h
  · by_cases hjo : j < o
    · simp only [hjo, or_true, if_true]
      have hij : i ≠ j := by omega
      rw [if_neg hij]
      rw [Finset.sum_eq_single j]
      · simp only [if_true, mul_one, hjo, or_true, if_neg hij]
      · intro t _ hne
        rw [if_neg hne, mul_zero]
      · intro h; exact absurd (Finset.mem_range.mpr hj) h
    · simp only [hio, hjo, false_or, or_false, if_false]
      rw [hod, Finset.sum_range_add]
      have hz : ∑ x ∈ Finset.range o, (if x < o then (if i = x then (1 : R) else 0) else A.get (i - o) (x - o)) *
          (if x < o then (if x = j then (1 : R) else 0) else B.get (x - o) (j - o)) = 0 := by
        apply Finset.sum_eq_zero
        intro x hx
        have hx' := Finset.mem_range.mp hx
        have : i ≠ x := by omega
        rw [if_pos hx', if_neg this, zero_mul]
      rw [hz, zero_add]
      have hi' : i - o < d := by omega
      have hj' : j - o < d := by omega
      simp only [Mat.mul]
      rw [Mat.get_ofFn _ _ _ _ _ (by rw [hAr]; exact hi') (by rw [hBc]; exact hj'), sumTo_eq, hAc]
      apply Finset.sum_congr rfl
      intro x _
      have h1 : ¬ (o + x < o) := by omega
      rw [if_neg h1, if_neg h1, Nat.add_sub_cancel_left]

theorem toM_ctrl_mul (k : Nat) (A B : Mat R) (d : Nat) (hAr : A.r = d) (hAc : A.c = d) (hBr : B.r = d)
    (hBc : B.c = d) (D : Nat) (hD : D = d * 2 ^ k) :
    Mat.toM D D (ctrlMatrix k (A.mul B)) = Mat.toM D D (ctrlMatrix k A) * Mat.toM D D (ctrlMatrix k B) := by
  subst hD
  ext i j
  rw [Matrix.mul_apply]
  simp only [Mat.toM]
  rw [ctrl_mul_get k A B d hAr hAc hBr hBc i j i.2 j.2, Finset.sum_range]

end Ctrl

/-- with e^{i(φ+λ)/2} = 1 the matrix of the controlled U3 IS the product of the three controlled rotations -/
theorem ctrl_u3_toM {R : Type} [CommRing R] (k : Scal R) (hi : k.i * k.i = -1) (th ph la : Ang R)
    (hph : ph.ch * ph.ch + ph.sh * ph.sh = 1) (hla : la.ch * la.ch + la.sh * la.sh = 1)
    (hone : ph.ehp k * la.ehp k = 1) (c D : Nat) (hD : D = 2 * 2 ^ c) :
    Mat.toM D D (ctrlMatrix c (Gates.u3 k th ph la)) =
      Mat.toM D D (ctrlMatrix c (Gates.rz k ph)) * Mat.toM D D (ctrlMatrix c (Gates.ry th)) *
        Mat.toM D D (ctrlMatrix c (Gates.rz k la)) := by
  have h3 := u3_toM k hi th ph la hph hla
  rw [hone, one_smul] at h3
  have hprod : Mat.toM 2 2 (Gates.u3 k th ph la) =
      Mat.toM 2 2 (((Gates.rz k ph).mul (Gates.ry th)).mul (Gates.rz k la)) := by
    rw [h3, Mat.toM_mul _ _ 2 2 2 rfl rfl rfl rfl, Mat.toM_mul _ _ 2 2 2 rfl rfl rfl rfl]
  have hget : ∀ i j, (Gates.u3 k th ph la).get i j =
      (((Gates.rz k ph).mul (Gates.ry th)).mul (Gates.rz k la)).get i j := by
    intro i j
    by_cases hij : i < 2 ∧ j < 2
    · have := congrFun (congrFun hprod ⟨i, hij.1⟩) ⟨j, hij.2⟩
      simpa [Mat.toM] using this
    · rw [Mat.get_out _ i j hij, Mat.get_out _ i j hij]
  rw [toM_ctrl_congr c (Gates.u3 k th ph la) (((Gates.rz k ph).mul (Gates.ry th)).mul (Gates.rz k la)) rfl hget _ hD,
    toM_ctrl_mul c ((Gates.rz k ph).mul (Gates.ry th)) (Gates.rz k la) 2 rfl rfl rfl rfl _ hD,
    toM_ctrl_mul c (Gates.rz k ph) (Gates.ry th) 2 rfl rfl rfl rfl _ hD]

section Place
variable {R : Type} [CommRing R] {ι : Type} [Fintype ι] [DecidableEq ι]

/-- "gate matrix `M` (of dimension `2^|qs|`) on the qubit tuple `qs` of the register `ι`", reduced to the two
    laws the phase argument needs; every placement through `OQ.Spec.lift` is one (`Placement.ofLift`). -/
structure Placement (R : Type) [CommRing R] (ι : Type) [Fintype ι] [DecidableEq ι] where
  emb : (qs : List Nat) → Matrix (Fin (2 ^ qs.length)) (Fin (2 ^ qs.length)) R → Matrix (BV ι) (BV ι) R
  emb_mul : ∀ qs A B, emb qs (A * B) = emb qs A * emb qs B
  emb_smul : ∀ qs (c : R) A, emb qs (c • A) = c • emb qs A

/-- the data `OQ.Spec.lift` needs for a tuple of `m` qubits: which qubits (`σ`) and how the `2^m` gate indices
    are read as bit assignments of them (`e`) -/
structure LiftData (ι : Type) (m : Nat) where
  κ : Type
  μ : Type
  [fκ : Fintype κ]
  [dκ : DecidableEq κ]
  [fμ : Fintype μ]
  [dμ : DecidableEq μ]
  σ : κ ⊕ μ ≃ ι
  e : Fin (2 ^ m) ≃ BV κ

attribute [instance] LiftData.fκ LiftData.dκ LiftData.fμ LiftData.dμ

def LiftData.emb {m : Nat} (d : LiftData ι m) (M : Matrix (Fin (2 ^ m)) (Fin (2 ^ m)) R) :
    Matrix (BV ι) (BV ι) R :=
  lift d.σ (Matrix.reindex d.e d.e M)

theorem LiftData.emb_mul {m : Nat} (d : LiftData ι m) (A B : Matrix (Fin (2 ^ m)) (Fin (2 ^ m)) R) :
    d.emb (A * B) = d.emb A * d.emb B := by
  unfold LiftData.emb
  rw [← lift_mul]
  congr 1
  simp only [Matrix.reindex_apply]
  rw [Matrix.submatrix_mul_equiv]

theorem LiftData.emb_smul {m : Nat} (d : LiftData ι m) (c : R) (A : Matrix (Fin (2 ^ m)) (Fin (2 ^ m)) R) :
    d.emb (c • A) = c • d.emb A := by
  unfold LiftData.emb
  rw [← lift_smul]
  congr 1

/-- the spec semantics: every qubit tuple is placed through `OQ.Spec.lift` by some `LiftData`
    (tuples that cannot be placed – repeated or out-of-range indices – get the zero map; circuits using them
    have no unitary in the code either) -/
def Placement.ofLift (pl : (qs : List Nat) → Option (LiftData ι qs.length)) : Placement R ι where
  emb := fun qs M => match pl qs with
    | some d => d.emb M
    | none => 0
  emb_mul := by
    intro qs A B
    cases pl qs with
    | none => simp
    | some d => exact d.emb_mul A B
  emb_smul := by
    intro qs c A
    cases pl qs with
    | none => simp
    | some d => exact d.emb_smul c A

end Place

section Sound
variable {R : Type} [CommRing R] [StarRing R] {ι : Type} [Fintype ι] [DecidableEq ι]

/-- action of one operation on the register: its gate matrix, of the dimension matching its qubit tuple, placed
    by `E`; `none` for a non-gate operation, a gate without matrix or of the wrong dimension -/
def denoteOp (E : Placement R ι) (k : Scal R) : Operation (Ang R) R → Option (Matrix (BV ι) (BV ι) R)
  | .other _ _ => none
  | .gate g qs =>
    match gateMatrix k g with
    | none => none
    | some m =>
      if m.r = 2 ^ qs.length ∧ m.c = 2 ^ qs.length
      then some (E.emb qs (Mat.toM (2 ^ qs.length) (2 ^ qs.length) m)) else none

/-- action of an operation list (first operation acts first) -/
def denote (E : Placement R ι) (k : Scal R) (ops : List (Operation (Ang R) R)) :
    Option (Matrix (BV ι) (BV ι) R) :=
  denoteBy (denoteOp E k) ops

/-- the angle is a real angle: its half-angle point is on the unit circle and is fixed by conjugation -/
def RealAng (a : Ang R) : Prop := a.ch * a.ch + a.sh * a.sh = 1 ∧ star a.ch = a.ch ∧ star a.sh = a.sh

/-- the operation is a controlled U3 -/
def isCtrlU3 {α : Type} : Operation α R → Bool
  | .gate (.controlled w _) _ => w.name == "U3"
  | _ => false

/-- the operation's parameters are real angles -/
def RealParams : Operation (Ang R) R → Prop
  | .gate g _ => ∀ a ∈ g.params, RealAng a
  | .other _ _ => True

/-- a gate called "U3" – as the gate of the operation or as the wrapped gate of a `ControlledGate` – is the
    built-in U3 (not a custom gate that reuses the name) -/
def BuiltinU3 {α : Type} : Operation α R → Prop
  | .gate (.mf n _ m) _ => n = "U3" → m = none
  | .gate (.controlled (.mf n _ m) _) _ => n = "U3" → m = none
  | _ => True

/-- for a controlled U3(θ,φ,λ) the phase e^{i(φ+λ)/2} is 1 -/
def CtrlPhaseTrivial (k : Scal R) (op : Operation (Ang R) R) : Prop :=
  isCtrlU3 op = true → ∀ g qs th ph la, op = .gate g qs → g.params = [th, ph, la] → ph.ehp k * la.ehp k = 1

/-- the domain on which the U3 rule is proved sound -/
def U3Good (k : Scal R) (op : Operation (Ang R) R) : Prop :=
  RealParams op ∧ BuiltinU3 op ∧ CtrlPhaseTrivial k op

theorem dagger_name_ne (s : String) : s ++ "_Dagger" ≠ "U3" := by
  intro h
  have := congrArg String.length h
  have h7 : "_Dagger".length = 7 := by decide
  have h2 : "U3".length = 2 := by decide
  rw [String.length_append, h7, h2] at this
  omega

theorem realAng_phase (k : Scal R) (hi : k.i * k.i = -1) (hs : star k.i = -k.i) (a : Ang R) (ha : RealAng a) :
    IsPhase (a.ehp k) := by
  unfold IsPhase
  have : star (a.ehp k) = a.ehm k := by
    unfold Ang.ehp Ang.ehm
    rw [star_add, star_mul', hs, ha.2.1, ha.2.2]; ring
  rw [this]
  exact ehp_mul_ehm k hi a ha.1

theorem denote_three (E : Placement R ι) (k : Scal R) (a b c : Operation (Ang R) R) (A B C : Matrix (BV ι) (BV ι) R)
    (ha : denoteOp E k a = some A) (hb : denoteOp E k b = some B) (hc : denoteOp E k c = some C) :
    denoteBy (denoteOp E k) [a, b, c] = some (C * B * A) := by
  simp [denoteBy, ha, hb, hc]

theorem denoteOp_mf (E : Placement R ι) (k : Scal R) (n : String) (ps : List (Ang R)) (qs : List Nat) (m : Mat R)
    (hm : Gates.builtinMatrix k n ps = some m) (hr : m.r = 2 ^ qs.length) (hc : m.c = 2 ^ qs.length) :
    denoteOp E k (.gate (.mf n ps none) qs) = some (E.emb qs (Mat.toM _ _ m)) := by
  simp [denoteOp, gateMatrix, hm, hr, hc]

theorem denoteOp_ctrl_mf (E : Placement R ι) (k : Scal R) (n : String) (ps : List (Ang R)) (c : Nat) (qs : List Nat)
    (m : Mat R) (hm : Gates.builtinMatrix k n ps = some m) (hr : m.r * 2 ^ c = 2 ^ qs.length) :
    denoteOp E k (.gate (.controlled (.mf n ps none) c) qs) =
      some (E.emb qs (Mat.toM _ _ (ctrlMatrix c m))) := by
  simp [denoteOp, gateMatrix, hm, ctrl_r, ctrl_c, hr]


theorem get_eq_of_toM_eq (A B : Mat R) (d : Nat) (hAr : A.r = d) (hAc : A.c = d) (hBr : B.r = d) (hBc : B.c = d)
    (h : Mat.toM d d A = Mat.toM d d B) : ∀ i j, A.get i j = B.get i j := by
  intro i j
  by_cases hij : i < d ∧ j < d
  · have := congrFun (congrFun h ⟨i, hij.1⟩) ⟨j, hij.2⟩
    simpa [Mat.toM] using this
  · rw [Mat.get_out A i j (by rw [hAr, hAc]; exact hij), Mat.get_out B i j (by rw [hBr, hBc]; exact hij)]

/-- plain U3: the three rotations, in circuit order RZ(λ), RY(θ), RZ(φ), act as U3 up to the phase e^{i(φ+λ)/2} -/
theorem u3_plain_sound (E : Placement R ι) (k : Scal R) (hi : k.i * k.i = -1) (hs : star k.i = -k.i)
    (th ph la : Ang R) (hph : RealAng ph) (hla : RealAng la) (qs : List Nat) (U : Matrix (BV ι) (BV ι) R)
    (hU : denoteOp E k (.gate (.mf "U3" [th, ph, la] none) qs) = some U) :
    ∃ U', denoteBy (denoteOp E k)
        [.gate (rzGate la) qs, .gate (ryGate th) qs, .gate (rzGate ph) qs] = some U' ∧ PhaseEq U U' := by
  have hm : Gates.builtinMatrix k "U3" [th, ph, la] = some (Gates.u3 k th ph la) := rfl
  simp only [denoteOp, gateMatrix, hm] at hU
  have hdim : 2 ^ qs.length = 2 := by
    by_contra hne
    have hne' : ¬ (2 = 2 ^ qs.length) := fun h => hne h.symm
    simp only [Gates.u3, m2_r, m2_c, and_self, hne', if_false] at hU
    exact absurd hU (by simp)
  have d1 := denoteOp_mf E k "RZ" [la] qs (Gates.rz k la) rfl hdim.symm hdim.symm
  have d2 := denoteOp_mf E k "RY" [th] qs (Gates.ry th) rfl hdim.symm hdim.symm
  have d3 := denoteOp_mf E k "RZ" [ph] qs (Gates.rz k ph) rfl hdim.symm hdim.symm
  refine ⟨_, denote_three E k _ _ _ _ _ _ d1 d2 d3, ph.ehp k * la.ehp k,
    (realAng_phase k hi hs ph hph).mul (realAng_phase k hi hs la hla), ?_⟩
  rw [if_pos ⟨hdim.symm, hdim.symm⟩, Option.some.injEq] at hU
  rw [← hU, ← E.emb_mul, ← E.emb_mul, ← E.emb_smul]
  congr 1
  have := u3_toM k hi th ph la hph.1 hla.1
  revert this
  generalize 2 ^ qs.length = D at hdim ⊢
  subst hdim
  exact fun h => h

/-- controlled U3 with e^{i(φ+λ)/2} = 1: the three controlled rotations act exactly as the controlled U3 -/
theorem u3_ctrl_sound (E : Placement R ι) (k : Scal R) (hi : k.i * k.i = -1)
    (th ph la : Ang R) (hph : RealAng ph) (hla : RealAng la) (hone : ph.ehp k * la.ehp k = 1)
    (c : Nat) (qs : List Nat) (U : Matrix (BV ι) (BV ι) R)
    (hU : denoteOp E k (.gate (.controlled (.mf "U3" [th, ph, la] none) c) qs) = some U) :
    denoteBy (denoteOp E k)
      [.gate (.controlled (rzGate la) c) qs, .gate (.controlled (ryGate th) c) qs,
       .gate (.controlled (rzGate ph) c) qs] = some U := by
  have hm : Gates.builtinMatrix k "U3" [th, ph, la] = some (Gates.u3 k th ph la) := rfl
  simp only [denoteOp, gateMatrix, hm, Option.map_some] at hU
  have hdim : 2 * 2 ^ c = 2 ^ qs.length := by
    by_contra hne
    rw [if_neg (by rw [ctrl_r]; exact fun h => hne h.1)] at hU
    exact absurd hU (by simp)
  rw [if_pos ⟨hdim, hdim⟩, Option.some.injEq] at hU
  have d1 := denoteOp_ctrl_mf E k "RZ" [la] c qs (Gates.rz k la) rfl hdim
  have d2 := denoteOp_ctrl_mf E k "RY" [th] c qs (Gates.ry th) rfl hdim
  have d3 := denoteOp_ctrl_mf E k "RZ" [ph] c qs (Gates.rz k ph) rfl hdim
  rw [show (rzGate la : Gate (Ang R) R) = .mf "RZ" [la] none from rfl,
    show (ryGate th : Gate (Ang R) R) = .mf "RY" [th] none from rfl,
    show (rzGate ph : Gate (Ang R) R) = .mf "RZ" [ph] none from rfl,
    denote_three E k _ _ _ _ _ _ d1 d2 d3, ← hU, ← E.emb_mul, ← E.emb_mul]
  congr 2
  -- the matrix identity with phase 1, pushed through the block structure
  have h3 := u3_toM k hi th ph la hph.1 hla.1
  rw [hone, one_smul] at h3
  have hprod : Mat.toM 2 2 (Gates.u3 k th ph la) =
      Mat.toM 2 2 (((Gates.rz k ph).mul (Gates.ry th)).mul (Gates.rz k la)) := by
    rw [h3, Mat.toM_mul _ _ 2 2 2 rfl rfl rfl rfl, Mat.toM_mul _ _ 2 2 2 rfl rfl rfl rfl]
  have hget := get_eq_of_toM_eq _ _ 2 rfl rfl rfl rfl hprod
  symm
  rw [toM_ctrl_congr c (Gates.u3 k th ph la) (((Gates.rz k ph).mul (Gates.ry th)).mul (Gates.rz k la)) rfl hget _
      hdim.symm,
    toM_ctrl_mul c ((Gates.rz k ph).mul (Gates.ry th)) (Gates.rz k la) 2 rfl rfl rfl rfl _ hdim.symm,
    toM_ctrl_mul c (Gates.rz k ph) (Gates.ry th) 2 rfl rfl rfl rfl _ hdim.symm]

theorem realAng_of_params (g : Gate (Ang R) R) (qs : List Nat) (h : RealParams (.gate g qs)) (a : Ang R)
    (ha : a ∈ g.params) : RealAng a := h a ha

theorem u3Good_rot (k : Scal R) (n : String) (a : Ang R) (ha : RealAng a) (hn : n ≠ "U3") (qs : List Nat) :
    U3Good k (.gate (.mf n [a] none) qs) := by
  refine ⟨?_, ?_, ?_⟩
  · intro b hb
    simp only [Gate.params, List.mem_singleton] at hb
    exact hb ▸ ha
  · intro h; exact absurd h hn
  · intro h; simp [isCtrlU3] at h

theorem u3Good_ctrl_rot (k : Scal R) (n : String) (a : Ang R) (ha : RealAng a) (hn : n ≠ "U3") (c : Nat)
    (qs : List Nat) : U3Good k (.gate (.controlled (.mf n [a] none) c) qs) := by
  refine ⟨?_, ?_, ?_⟩
  · intro b hb
    simp only [Gate.params, List.mem_singleton] at hb
    exact hb ▸ ha
  · intro h; exact absurd h hn
  · intro h
    simp only [isCtrlU3, Gate.name, beq_iff_eq] at h
    exact absurd h hn

/-- **the bundled rule is sound** on `U3Good` operations, for every placement of qubit tuples -/
theorem u3Rule_sound (E : Placement R ι) (k : Scal R) (hi : k.i * k.i = -1) (hs : star k.i = -k.i) :
    (u3Rule : Rule (Operation (Ang R) R)).Sound (denoteOp E k) (U3Good k) := by
  intro op hgood hpred out hprod
  obtain ⟨hreal, hbuiltin, hphase⟩ := hgood
  have hRZ : ("RZ" : String) ≠ "U3" := by decide
  have hRY : ("RY" : String) ≠ "U3" := by decide
  cases op with
  | other t qs => simp [u3Rule, u3Predicate] at hpred
  | gate g qs =>
    cases g with
    | mf n ps m =>
      simp only [u3Rule, u3Predicate, Gate.name, Bool.or_false, Option.some.injEq, beq_iff_eq] at hpred
      subst hpred
      have hm : m = none := hbuiltin rfl
      subst hm
      simp only [u3Rule, u3Production, Gate.params] at hprod
      match ps, hprod, hreal with
      | [th, ph, la], hprod, hreal =>
        simp only [List.mapM_cons, List.mapM_nil, Option.pure_def, Option.bind_eq_bind, Option.bind_some,
          List.map_cons, List.map_nil, List.reverse_cons, List.reverse_nil, List.nil_append, List.cons_append,
          Option.some.injEq] at hprod
        subst hprod
        have hph : RealAng ph := hreal ph (by simp [Gate.params])
        have hla : RealAng la := hreal la (by simp [Gate.params])
        have hth : RealAng th := hreal th (by simp [Gate.params])
        refine ⟨?_, fun U hU => u3_plain_sound E k hi hs th ph la hph hla qs U hU⟩
        intro o ho
        simp only [List.mem_cons, List.not_mem_nil, or_false] at ho
        rcases ho with rfl | rfl | rfl
        · exact u3Good_rot k "RZ" la hla hRZ qs
        · exact u3Good_rot k "RY" th hth hRY qs
        · exact u3Good_rot k "RZ" ph hph hRZ qs
    | controlled w c =>
      have hC : (("Control" : String) == "U3") = false := by decide
      simp only [u3Rule, u3Predicate, Gate.name, hC, Bool.false_or, Option.some.injEq, beq_iff_eq] at hpred
      cases w with
      | controlled w' c' => exact absurd hpred (by simp [Gate.name])
      | dagger w' => exact absurd hpred (dagger_name_ne _)
      | mf n ps m =>
        simp only [Gate.name] at hpred
        subst hpred
        have hm : m = none := hbuiltin rfl
        subst hm
        simp only [u3Rule, u3Production, Gate.params] at hprod
        match ps, hprod, hreal, hphase with
        | [th, ph, la], hprod, hreal, hphase =>
          by_cases hc : c < 1
          · simp [Gate.mfControlled, hc] at hprod
          · simp only [List.mapM_cons, List.mapM_nil, Option.pure_def, Option.bind_eq_bind, Gate.mfControlled, hc,
              if_false, Option.bind_some,
              List.map_cons, List.map_nil, List.reverse_cons, List.reverse_nil, List.nil_append, List.cons_append,
              Option.some.injEq] at hprod
            subst hprod
            have hph : RealAng ph := hreal ph (by simp [Gate.params])
            have hla : RealAng la := hreal la (by simp [Gate.params])
            have hth : RealAng th := hreal th (by simp [Gate.params])
            have hone : ph.ehp k * la.ehp k = 1 :=
              hphase (by simp [isCtrlU3, Gate.name]) _ qs th ph la rfl rfl
            refine ⟨?_, fun U hU => ⟨U, u3_ctrl_sound E k hi th ph la hph hla hone c qs U hU, PhaseEq.refl U⟩⟩
            intro o ho
            simp only [List.mem_cons, List.not_mem_nil, or_false] at ho
            rcases ho with rfl | rfl | rfl
            · exact u3Good_ctrl_rot k "RZ" la hla hRZ c qs
            · exact u3Good_ctrl_rot k "RY" th hth hRY c qs
            · exact u3Good_ctrl_rot k "RZ" ph hph hRZ c qs
    | dagger w =>
      simp only [u3Rule, u3Predicate, Gate.name, Bool.or_false, Option.some.injEq, beq_iff_eq] at hpred
      exact absurd hpred (dagger_name_ne _)

end Sound

section ChainSound
variable {Op : Type}

theorem decomposeOperations_nil (ops : List Op) : decomposeOperations ([] : List (Rule Op)) ops = some ops :=
  flatMapM_pure ops

theorem decomposeOperations_cons (r : Rule Op) (rs : List (Rule Op)) (ops : List Op) :
    decomposeOperations (r :: rs) ops = (flatMapM (applyRule r) ops).bind (decomposeOperations rs) := by
  unfold decomposeOperations
  rw [flatMapM_flatMapM]
  apply flatMapM_congr
  intro a _
  exact decomposeOperation_cons r rs a

variable {R : Type} [CommRing R] [StarRing R] {n : Type} [Fintype n] [DecidableEq n]

theorem chain_sound_aux (D : Op → Option (Matrix n n R)) (Good : Op → Prop) :
    ∀ (rules : List (Rule Op)), (∀ r ∈ rules, r.Sound D Good) → ∀ (ops out : List Op),
      (∀ op ∈ ops, Good op) → decomposeOperations rules ops = some out →
      (∀ o ∈ out, Good o) ∧ ∀ U, denoteBy D ops = some U → ∃ U', denoteBy D out = some U' ∧ PhaseEq U U' := by
  intro rules
  induction rules with
  | nil =>
    intro _ ops out hg h
    rw [decomposeOperations_nil, Option.some.injEq] at h
    subst h
    exact ⟨hg, fun U hU => ⟨U, hU, PhaseEq.refl U⟩⟩
  | cons r rs ih =>
    intro hs ops out hg h
    rw [decomposeOperations_cons] at h
    cases hmid : flatMapM (applyRule r) ops with
    | none => rw [hmid] at h; simp at h
    | some mid =>
      rw [hmid, Option.bind_some] at h
      obtain ⟨g1, d1⟩ := pass_sound D Good r (hs r (by simp)) ops mid hg hmid
      obtain ⟨g2, d2⟩ := ih (fun r' hr' => hs r' (by simp [hr'])) mid out g1 h
      refine ⟨g2, fun U hU => ?_⟩
      obtain ⟨U1, hU1, p1⟩ := d1 U hU
      obtain ⟨U2, hU2, p2⟩ := d2 U1 hU1
      exact ⟨U2, hU2, p1.trans p2⟩

end ChainSound

section Necessity
variable {R : Type} [CommRing R]

/-- the phase condition of the controlled rule is NECESSARY: if a controlled U3(θ,φ,λ) (at least one control,
    θ φ λ on the unit circle) equals a scalar multiple of the product of its three controlled rotations, then
    e^{i(φ+λ)/2} = 1. -/
theorem ctrl_u3_phase_necessary (k : Scal R) (hi : k.i * k.i = -1) (th ph la : Ang R)
    (hth : th.ch * th.ch + th.sh * th.sh = 1) (hph : ph.ch * ph.ch + ph.sh * ph.sh = 1)
    (hla : la.ch * la.ch + la.sh * la.sh = 1) (c : Nat) (hc : 1 ≤ c) (D : Nat) (hD : D = 2 * 2 ^ c) (p : R)
    (h : Mat.toM D D (ctrlMatrix c (Gates.u3 k th ph la)) =
      p • (Mat.toM D D (ctrlMatrix c (Gates.rz k ph)) * Mat.toM D D (ctrlMatrix c (Gates.ry th)) *
            Mat.toM D D (ctrlMatrix c (Gates.rz k la)))) :
    ph.ehp k * la.ehp k = 1 := by
  subst hD
  rw [← toM_ctrl_mul c (Gates.rz k ph) (Gates.ry th) 2 rfl rfl rfl rfl _ rfl,
    ← toM_ctrl_mul c ((Gates.rz k ph).mul (Gates.ry th)) (Gates.rz k la) 2 rfl rfl rfl rfl _ rfl] at h
  have h2c : 2 ≤ 2 ^ c := by
    calc 2 = 2 ^ 1 := rfl
      _ ≤ 2 ^ c := Nat.pow_le_pow_right (by decide) hc
  set W := ((Gates.rz k ph).mul (Gates.ry th)).mul (Gates.rz k la) with hW
  have hWr : W.r = 2 := rfl
  have hur : (Gates.u3 k th ph la).r = 2 := rfl
  -- entry (0,0): p = 1
  have h00 := congrFun (congrFun h ⟨0, by omega⟩) ⟨0, by omega⟩
  simp only [Mat.toM, Matrix.smul_apply, smul_eq_mul] at h00
  rw [ctrl_get c _ 0 0 (by rw [hur]; omega) (by rw [hur]; omega),
    ctrl_get c W 0 0 (by rw [hWr]; omega) (by rw [hWr]; omega), hur, hWr] at h00
  have hpos : 0 < 2 * 2 ^ c - 2 := by omega
  simp only [hpos, true_or, if_true, mul_one] at h00
  -- lower block: u3 = W entrywise
  have hblock : ∀ i j, i < 2 → j < 2 → (Gates.u3 k th ph la).get i j = W.get i j := by
    intro i j hi2 hj2
    have hij := congrFun (congrFun h ⟨2 * 2 ^ c - 2 + i, by omega⟩) ⟨2 * 2 ^ c - 2 + j, by omega⟩
    simp only [Mat.toM, Matrix.smul_apply, smul_eq_mul] at hij
    rw [ctrl_get c _ _ _ (by rw [hur]; omega) (by rw [hur]; omega),
      ctrl_get c W _ _ (by rw [hWr]; omega) (by rw [hWr]; omega), hur, hWr] at hij
    have n1 : ¬ (2 * 2 ^ c - 2 + i < 2 * 2 ^ c - 2 ∨ 2 * 2 ^ c - 2 + j < 2 * 2 ^ c - 2) := by omega
    rw [if_neg n1, if_neg n1, Nat.add_sub_cancel_left, Nat.add_sub_cancel_left, ← h00, one_mul] at hij
    exact hij
  -- W as a Mathlib matrix, and u3 = q • W
  have hu3 := u3_toM k hi th ph la hph hla
  have hWM : Mat.toM 2 2 W =
      Mat.toM 2 2 (Gates.rz k ph) * Mat.toM 2 2 (Gates.ry th) * Mat.toM 2 2 (Gates.rz k la) := by
    rw [hW, Mat.toM_mul _ _ 2 2 2 rfl rfl rfl rfl, Mat.toM_mul _ _ 2 2 2 rfl rfl rfl rfl]
  rw [← hWM] at hu3
  have e00 : W.get 0 0 = ph.ehp k * la.ehp k * W.get 0 0 := by
    have := congrFun (congrFun hu3 0) 0
    simp only [Mat.toM, Matrix.smul_apply, smul_eq_mul] at this
    exact (hblock 0 0 (by decide) (by decide)).symm.trans this
  have e10 : W.get 1 0 = ph.ehp k * la.ehp k * W.get 1 0 := by
    have := congrFun (congrFun hu3 1) 0
    simp only [Mat.toM, Matrix.smul_apply, smul_eq_mul] at this
    exact (hblock 1 0 (by decide) (by decide)).symm.trans this
  -- the two entries of W
  have w00 : W.get 0 0 = ph.ehm k * th.ch * la.ehm k := by
    have := congrFun (congrFun hWM 0) 0
    simp only [Gates.rz, Gates.ry, toM_m2] at this
    simpa [Mat.toM, Matrix.mul_apply, Fin.sum_univ_two] using this
  have w10 : W.get 1 0 = ph.ehp k * th.sh * la.ehm k := by
    have := congrFun (congrFun hWM 1) 0
    simp only [Gates.rz, Gates.ry, toM_m2] at this
    simpa [Mat.toM, Matrix.mul_apply, Fin.sum_univ_two] using this
  rw [w00] at e00
  rw [w10] at e10
  have h1 := ehp_mul_ehm k hi ph hph
  have h2 := ehp_mul_ehm k hi la hla
  linear_combination (-(ph.ehp k * la.ehp k - 1)) * hth
    - (ph.ehp k * la.ehp k * th.ch) * e00 - (ph.ehm k * la.ehp k * th.sh) * e10
    - ((ph.ehp k * la.ehp k - 1) * (th.ch * th.ch + th.sh * th.sh) * (la.ehp k * la.ehm k)) * h1
    - ((ph.ehp k * la.ehp k - 1) * (th.ch * th.ch + th.sh * th.sh)) * h2

end Necessity

end OQ.C18
