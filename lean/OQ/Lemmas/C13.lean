/- helper lemmas for C13 (not property theorems) -/
import OQ.Model.C13
import OQ.Generated.TranslatedC13
import Mathlib.Tactic.Linarith
import Mathlib.Tactic.Ring
import Mathlib.Tactic.FieldSimp
import Mathlib.Algebra.BigOperators.Group.List.Basic
import Mathlib.Algebra.Order.Floor.Ring
import Mathlib.Data.Rat.Floor
import Mathlib.Data.List.Count
namespace OQ.C13


theorem ceil_spec (n m : Int) (hm : 0 < m) :
    (n % m = 0 → -((-n) / m) = n / m) ∧ (n % m ≠ 0 → -((-n) / m) = n / m + 1) := by
  constructor
  · intro h
    have hd : m ∣ n := Int.dvd_of_emod_eq_zero h
    rw [Int.neg_ediv_of_dvd hd]; simp
  · intro h
    have h1 := Int.emod_add_mul_ediv n m
    have h2 := Int.emod_nonneg n (ne_of_gt hm)
    have h3 := Int.emod_lt_of_pos n hm
    have : (-n) / m = -(n / m) - 1 ∧ (-n) % m = m - n % m := by
      rw [Int.ediv_emod_unique hm]
      refine ⟨?_, by omega, by omega⟩
      have : m * (-(n / m) - 1) = -(m * (n/m)) - m := by ring
      omega
    omega

theorem sum_replicate_int (k : Nat) (m : Int) : (List.replicate k m).sum = k * m := by
  induction k with
  | zero => simp
  | succ k ih => simp [List.replicate_succ, ih]; ring

theorem div_pos_of (n m : Int) (hn : 0 < n) (hm : 0 < m) : 0 ≤ n / m := Int.ediv_nonneg (le_of_lt hn) (le_of_lt hm)

theorem regroup_append {α : Type} (g : List α) (rest : List α) (ks : List Nat) :
    regroup (g ++ rest) (g.length :: ks) = g :: regroup rest ks := by
  simp [regroup]

theorem bump_total (c : Counts) (k : String) (v : Nat) : (Counts.bump c k v).total = c.total + v := by
  induction c with
  | nil => simp [Counts.bump, Counts.total]
  | cons p rest ih =>
    obtain ⟨k', v'⟩ := p
    simp only [Counts.bump]
    split
    · simp [Counts.total]; omega
    · simp only [Counts.total, List.map_cons, List.sum_cons] at ih ⊢; omega

theorem bump_get (c : Counts) (k : String) (v : Nat) (k0 : String) :
    (Counts.bump c k v).get k0 = c.get k0 + (if k = k0 then v else 0) := by
  induction c with
  | nil => by_cases h : k = k0 <;> simp [Counts.bump, Counts.get, h]
  | cons p rest ih =>
    obtain ⟨k', v'⟩ := p
    by_cases h1 : k' = k <;> by_cases h2 : k' = k0 <;> by_cases h3 : k = k0 <;>
      simp_all [Counts.bump, Counts.get]

theorem chunks_flatten {α : Type} (k : Nat) (hk : 0 < k) (fuel : Nat) (xs : List α) (hf : xs.length ≤ fuel) :
    (chunks k fuel xs).flatten = xs := by
  induction fuel generalizing xs with
  | zero => cases xs with
    | nil => simp [chunks]
    | cons x xs => simp at hf
  | succ f ih =>
    cases xs with
    | nil => simp [chunks]
    | cons x xs =>
      simp only [chunks, List.flatten_cons]
      rw [ih]
      · exact List.take_append_drop k (x :: xs)
      · simp only [List.length_drop, List.length_cons] at hf ⊢; omega

theorem chunks_bounds {α : Type} (k : Nat) (hk : 0 < k) (fuel : Nat) (xs : List α) :
    ∀ c ∈ chunks k fuel xs, 1 ≤ c.length ∧ c.length ≤ k := by
  induction fuel generalizing xs with
  | zero => simp [chunks]
  | succ f ih =>
    cases xs with
    | nil => simp [chunks]
    | cons x xs =>
      intro c hc
      simp only [chunks, List.mem_cons] at hc
      rcases hc with hc | hc
      · subst hc; simp only [List.length_take, List.length_cons]; omega
      · exact ih _ c hc

theorem foldl_max_ge (xs : List Int) (a : Int) : a ≤ xs.foldl max a ∧ ∀ x ∈ xs, x ≤ xs.foldl max a := by
  induction xs generalizing a with
  | nil => simp
  | cons y ys ih =>
    simp only [List.foldl_cons, List.mem_cons]
    have h := ih (max a y)
    refine ⟨le_trans (le_max_left a y) h.1, ?_⟩
    intro x hx
    rcases hx with hx | hx
    · subst hx; exact le_trans (le_max_right a x) h.1
    · exact h.2 x hx

theorem listMax_ge (xs : List Int) : ∀ x ∈ xs, x ≤ listMax xs := by
  cases xs with
  | nil => simp
  | cons y ys =>
    intro x hx
    simp only [listMax, List.mem_cons] at hx ⊢
    rcases hx with hx | hx
    · subst hx; exact (foldl_max_ge ys x).1
    · exact (foldl_max_ge ys y).2 x hx

theorem chunks_length_eq {α β : Type} (k : Nat) (fuel : Nat) (xs : List α) (ys : List β)
    (h : xs.length = ys.length) :
    (chunks k fuel xs).map List.length = (chunks k fuel ys).map List.length := by
  induction fuel generalizing xs ys with
  | zero => simp [chunks]
  | succ f ih =>
    cases xs with
    | nil => cases ys with
      | nil => simp [chunks]
      | cons y ys => simp at h
    | cons x xs => cases ys with
      | nil => simp at h
      | cons y ys =>
        simp only [chunks, List.map_cons, List.length_take]
        rw [ih (List.drop k (x :: xs)) (List.drop k (y :: ys)) (by simp only [List.length_drop]; omega)]
        rw [h]

theorem ratFloor_eq (q : Rat) : ratFloor q = ⌊q⌋ := rfl

theorem sum_map_mul_right (l : List Rat) (c : Rat) : (l.map (fun v => v * c)).sum = l.sum * c := by
  induction l with
  | nil => simp
  | cons x xs ih => simp [ih]; ring

/-- the proportional shares sum exactly to the total -/
theorem shares_sum (values : List Rat) (total : Int) (hs : values.sum ≠ 0) :
    (values.map (fun v => v * ((total : Rat) / values.sum))).sum = total := by
  rw [sum_map_mul_right]; field_simp

theorem floors_sum_bounds (l : List Rat) :
    (((l.map (fun q => ratFloor q)).sum : Int) : Rat) ≤ l.sum ∧
    (l ≠ [] → l.sum < (((l.map (fun q => ratFloor q)).sum : Int) : Rat) + l.length) := by
  induction l with
  | nil => simp
  | cons x xs ih =>
    simp only [List.map_cons, List.sum_cons, Int.cast_add, List.length_cons, Nat.cast_add, Nat.cast_one]
    have h1 := Int.floor_le x
    have h2 := Int.lt_floor_add_one x
    rw [ratFloor_eq]
    refine ⟨by linarith [ih.1], fun _ => ?_⟩
    by_cases hx : xs = []
    · subst hx; simp
    · have := ih.2 hx; linarith

theorem bumpAt_length (l : List Int) (i : Nat) : (bumpAt l i).length = l.length := by
  induction l generalizing i with
  | nil => simp [bumpAt]
  | cons x xs ih => cases i <;> simp [bumpAt, ih]

theorem bumpAt_sum (l : List Int) (i : Nat) (hi : i < l.length) : (bumpAt l i).sum = l.sum + 1 := by
  induction l generalizing i with
  | nil => simp at hi
  | cons x xs ih =>
    cases i with
    | zero => simp [bumpAt]; ring
    | succ i => simp only [bumpAt, List.sum_cons]; rw [ih i (by simpa using hi)]; ring

theorem bumpAt_getD (l : List Int) (i j : Nat) :
    (bumpAt l i).getD j 0 = l.getD j 0 + (if i = j ∧ j < l.length then 1 else 0) := by
  induction l generalizing i j with
  | nil => simp [bumpAt]
  | cons x xs ih =>
    cases i with
    | zero => cases j <;> simp [bumpAt]
    | succ i =>
      cases j with
      | zero => simp [bumpAt]
      | succ j => simp only [bumpAt, List.getD_cons_succ, ih]; simp

theorem foldl_bump_sum (idx : List Nat) (l : List Int) (h : ∀ i ∈ idx, i < l.length) :
    (idx.foldl bumpAt l).sum = l.sum + idx.length := by
  induction idx generalizing l with
  | nil => simp
  | cons i is ih =>
    simp only [List.foldl_cons, List.length_cons]
    rw [ih]
    · rw [bumpAt_sum l i (h i (by simp))]; push_cast; ring
    · intro j hj; rw [bumpAt_length]; exact h j (by simp [hj])

theorem foldl_bump_getD (idx : List Nat) (l : List Int) (hn : idx.Nodup) (j : Nat) :
    (idx.foldl bumpAt l).getD j 0 = l.getD j 0 + (if j ∈ idx ∧ j < l.length then 1 else 0) := by
  induction idx generalizing l with
  | nil => simp
  | cons i is ih =>
    simp only [List.foldl_cons]
    rw [ih _ (List.nodup_cons.mp hn).2, bumpAt_getD, bumpAt_length]
    have hni := (List.nodup_cons.mp hn).1
    by_cases h1 : i = j
    · subst h1; simp [hni]
    · have : ¬ j = i := fun h => h1 h.symm
      simp [h1, this]

/-- number of units left to distribute after flooring: between 0 and the number of weights -/
theorem leftover_bounds (values : List Rat) (total : Int) (hs : values.sum ≠ 0) (hne : values ≠ []) :
    0 ≤ total - (shareFloors values total).sum ∧
    total - (shareFloors values total).sum < values.length := by
  have hsum := shares_sum values total hs
  have hb := floors_sum_bounds (values.map (fun v => v * ((total : Rat) / values.sum)))
  have hne' : values.map (fun v => v * ((total : Rat) / values.sum)) ≠ [] := by simpa using hne
  have h2 := hb.2 hne'
  have h1 := hb.1
  simp only [List.map_map, List.length_map] at h1 h2
  rw [hsum] at h1 h2
  have e : (shareFloors values total) = values.map ((fun q => ratFloor q) ∘ fun v => v * ((total : Rat) / values.sum)) := by
    simp [shareFloors, Function.comp_def]
  rw [e]
  constructor
  · have : (((values.map ((fun q => ratFloor q) ∘ fun v => v * ((total : Rat) / values.sum))).sum : Int) : Rat) ≤ (total : Rat) := h1
    have := Int.cast_le.mp this; omega
  · have h3 : ((total : Int) : Rat) < (((values.map ((fun q => ratFloor q) ∘ fun v => v * ((total : Rat) / values.sum))).sum + (values.length : Int) : Int) : Rat) := by
      push_cast; exact h2
    have := Int.cast_lt.mp h3; omega

def extraTotal {α : Type} (extra : List (α × Nat)) : Nat := (extra.map (fun p => p.2)).sum

theorem flatMap_replicate_length {α : Type} (extra : List (α × Nat)) :
    (extra.flatMap (fun p => List.replicate p.2 p.1)).length = extraTotal extra := by
  induction extra with
  | nil => simp [extraTotal]
  | cons p ps ih => simp [extraTotal, List.flatMap_cons] at ih ⊢; try omega

theorem erase_times {α : Type} [DecidableEq α] (l : List α) (x : α) (k : Nat) (h : k ≤ l.count x) :
    ((List.range k).foldl (fun a _ => a.erase x) l).length + k = l.length ∧
    (∀ y, y ≠ x → ((List.range k).foldl (fun a _ => a.erase x) l).count y = l.count y) ∧
    (∀ y, y ∈ (List.range k).foldl (fun a _ => a.erase x) l → y ∈ l) := by
  induction k generalizing l with
  | zero => simp
  | succ k ih =>
    rw [List.range_succ_eq_map, List.foldl_cons, List.foldl_map]
    have hx : x ∈ l := List.count_pos_iff.mp (by omega)
    have hc : k ≤ (l.erase x).count x := by rw [List.count_erase_self]; omega
    obtain ⟨h1, h2, h3⟩ := ih (l.erase x) hc
    refine ⟨?_, ?_, ?_⟩
    · rw [List.length_erase_of_mem hx] at h1
      have := List.length_pos_of_mem hx; omega
    · intro y hy; rw [h2 y hy, List.count_erase_of_ne hy]
    · intro y hy; exact List.mem_of_mem_erase (h3 y hy)

theorem eliminate_length {α : Type} [DecidableEq α] (extra : List (α × Nat)) (base : List α)
    (hk : (extra.map (fun p => p.1)).Nodup) (hc : ∀ p ∈ extra, p.2 ≤ base.count p.1) :
    (extra.foldl (fun acc p => (List.range p.2).foldl (fun a _ => a.erase p.1) acc) base).length
      + extraTotal extra = base.length ∧
    ∀ y, y ∈ (extra.foldl (fun acc p => (List.range p.2).foldl (fun a _ => a.erase p.1) acc) base) → y ∈ base := by
  induction extra generalizing base with
  | nil => simp [extraTotal]
  | cons p ps ih =>
    simp only [List.foldl_cons]
    have hp := hc p (by simp)
    obtain ⟨e1, e2, e3⟩ := erase_times base p.1 p.2 hp
    have hk' : p.1 ∉ ps.map (fun p => p.1) ∧ (ps.map (fun p => p.1)).Nodup := by
      rw [List.map_cons] at hk; exact List.nodup_cons.mp hk
    have := ih ((List.range p.2).foldl (fun a _ => a.erase p.1) base) hk'.2 (by
      intro q hq
      have hne : q.1 ≠ p.1 := by
        intro he; apply hk'.1; rw [← he]; exact List.mem_map_of_mem hq
      rw [e2 q.1 hne]; exact hc q (by simp [hq]))
    refine ⟨?_, fun y hy => e3 y (this.2 y hy)⟩
    simp only [extraTotal, List.map_cons, List.sum_cons] at this ⊢
    omega

theorem roundHalfEven_pos (q : Rat) (h : 0 < roundHalfEven q) : 0 < q := by
  unfold roundHalfEven at h
  simp only at h
  have h1 := Int.floor_le q
  have h2 := Int.lt_floor_add_one q
  have e : q.floor = ⌊q⌋ := rfl
  rw [e] at h
  by_contra hq
  have hq : q ≤ 0 := not_lt.mp hq
  have hf : ⌊q⌋ ≤ 0 := by
    have : (⌊q⌋ : Rat) ≤ 0 := le_trans h1 hq
    exact_mod_cast this
  split_ifs at h with c1 c2 c3
  · omega
  · have : ⌊q⌋ = 0 := by omega
    rw [this] at c2 h1; simp at c2; linarith
  · omega
  · have : ⌊q⌋ = 0 := by omega
    rw [this] at c3; simp at c3

theorem flatten_replicate_singleton {α : Type} (k : Nat) (x : α) :
    (List.replicate k [x]).flatten = List.replicate k x := by
  induction k with
  | zero => rfl
  | succ k ih => simp [List.replicate_succ, ih]

/-- `[c for _ in range(k)]` is `k` copies of `c` -/
theorem range_map_const {α : Type} (k : Nat) (c : α) :
    ((List.range k).map Int.ofNat).map (fun (_ : Int) => c) = List.replicate k c := by
  induction k with
  | zero => rfl
  | succ k ih =>
    rw [List.range_succ, List.map_append, List.map_append, ih]
    simp [List.replicate_succ']

end OQ.C13
