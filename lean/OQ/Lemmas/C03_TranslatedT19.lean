/- helper lemmas / proofs for `OQ/Props/C03_TranslatedEq.lean` (work package T19): the run-time dispatch of `+ - *` on a value of any
   kind, and Python's set of hashable objects (hash buckets) against the model's `mkSet` / `eqSum`; not property theorems -/
import OQ.Props.C03_TranslatedPauli
import OQ.Generated.TranslatedC03Eq
namespace OQ.C03
open OQ.Pauli OQ.Py OQ.Generated Matrix

set_option linter.unusedSectionVars false
set_option linter.unusedSimpArgs false
set_option linter.unusedVariables false

variable {R : Type} [CommRing R] {H : Type} [DecidableEq H]

/-- the class invariant of every operand: `_ops` of every term is a dict (distinct keys) -/
def ValWF : Val R → Prop
  | .num _ => True
  | .term t => OpsWF t.ops
  | .sum s => SumWF s

theorem sumWF_one (t : Term R) (wt : OpsWF t.ops) : SumWF [t] := by
  intro t' ht'; simp only [List.mem_singleton] at ht'; subst ht'; exact wt

theorem negV_wf (x : TranslatedPauli.Ext R) (v : Val R) (wv : ValWF v) : ValWF (negV (neglOf x) v) := by
  cases v with
  | num c => trivial
  | term t => exact wv
  | sum s =>
    show SumWF (rmulS (neglOf x) s (-1))
    intro t ht
    exact simplify_wf _ _ (by
      intro t' ht'
      obtain ⟨t'', ht'', rfl⟩ := List.mem_map.mp ht'
      exact wv t'' ht'') t ht

theorem term_add_val_core (k : Scal R) (x : TranslatedPauli.Ext R) (t : Term R) (wt : OpsWF t.ops) (v : Val R)
    (wv : ValWF v) (s : PSum R) (h : addV (neglOf x) (.term t) v = .ok (.sum s)) :
    TranslatedPauli.term_add_val k x (ofTerm t) (ofVal v) = .ok (ofSum s) := by
  cases v with
  | num c =>
    simp only [addV] at h; injection h with h; injection h with h; subst h
    exact (translated_term_add_eq k x t t c wt wt).2.1
  | term u =>
    simp only [addV] at h; injection h with h; injection h with h; subst h
    exact (translated_term_add_eq k x t u 0 wt wv).1
  | sum s' =>
    simp only [addV] at h; injection h with h; injection h with h; subst h
    exact (translated_sum_add_eq k x s' t 0 wv wt).1

theorem sum_add_val_core (k : Scal R) (x : TranslatedPauli.Ext R) (s : PSum R) (hs : SumWF s) (v : Val R)
    (wv : ValWF v) (r : PSum R) (h : addV (neglOf x) (.sum s) v = .ok (.sum r)) :
    TranslatedPauli.sum_add_val k x (ofSum s) (ofVal v) = .ok (ofSum r) := by
  cases v with
  | num c =>
    simp only [addV] at h; injection h with h; injection h with h; subst h
    exact (translated_sum_add_eq k x s (constTerm c) c hs (constTerm_wf c)).2.2.1
  | term u =>
    simp only [addV] at h; injection h with h; injection h with h; subst h
    exact (translated_sum_add_eq k x s u 0 hs wv).1
  | sum s' =>
    simp only [addV] at h; injection h with h; injection h with h; subst h
    exact translated_sum_add_sum_eq k x s s' hs wv

theorem sub_val_core (k : Scal R) (x : TranslatedPauli.Ext R) (t : Term R) (wt : OpsWF t.ops) (s : PSum R) (hs : SumWF s)
    (v : Val R) (wv : ValWF v) (r : PSum R) :
    (subV (neglOf x) (.term t) v = .ok (.sum r) → TranslatedPauli.term_sub_val k x (ofTerm t) (ofVal v) = .ok (ofSum r)) ∧
    (subV (neglOf x) (.sum s) v = .ok (.sum r) → TranslatedPauli.sum_sub_val k x (ofSum s) (ofVal v) = .ok (ofSum r)) := by
  have hn := negV_wf x v wv
  constructor
  · intro h
    have h' : addV (neglOf x) (.term t) (negV (neglOf x) v) = .ok (.sum r) := by simpa [subV] using h
    have key := term_add_val_core k x t wt _ hn r h'
    cases v with
    | num c => exact key
    | term u =>
      unfold TranslatedPauli.term_sub_val
      simp only [ofVal]
      rw [(translated_term_mul_num_eq k x u (-1) wv).2.1]
      exact key
    | sum s' =>
      unfold TranslatedPauli.term_sub_val
      simp only [ofVal]
      rw [translated_sum_rmul_num_eq k x s' (-1) wv]
      exact key
  · intro h
    have h' : addV (neglOf x) (.sum s) (negV (neglOf x) v) = .ok (.sum r) := by simpa [subV] using h
    have key := sum_add_val_core k x s hs _ hn r h'
    cases v with
    | num c => exact key
    | term u =>
      unfold TranslatedPauli.sum_sub_val
      simp only [ofVal]
      rw [(translated_term_mul_num_eq k x u (-1) wv).2.1]
      exact key
    | sum s' =>
      unfold TranslatedPauli.sum_sub_val
      simp only [ofVal]
      rw [translated_sum_rmul_num_eq k x s' (-1) wv]
      exact key

theorem rsub_num_core (k : Scal R) (x : TranslatedPauli.Ext R) (t : Term R) (wt : OpsWF t.ops) (s : PSum R) (hs : SumWF s)
    (c : R) (r : PSum R) :
    (subV (neglOf x) (.num c) (.term t) = .ok (.sum r) → TranslatedPauli.term_rsub_num k x (ofTerm t) c = .ok (ofSum r)) ∧
    (subV (neglOf x) (.num c) (.sum s) = .ok (.sum r) → TranslatedPauli.sum_rsub_num k x (ofSum s) c = .ok (ofSum r)) := by
  constructor
  · intro h
    simp only [subV, negV, addV] at h; injection h with h; injection h with h; subst h
    unfold TranslatedPauli.term_rsub_num
    rw [(translated_term_mul_num_eq k x t (-1) wt).2.1]
    simp only [bind_ok]
    exact (translated_term_add_eq k x (scaleTerm t (-1)) t c wt wt).2.2
  · intro h
    simp only [subV, negV, addV] at h; injection h with h; injection h with h; subst h
    unfold TranslatedPauli.sum_rsub_num
    rw [translated_sum_rmul_num_eq k x s (-1) hs]
    simp only [bind_ok]
    exact (translated_sum_add_eq k x (rmulS (neglOf x) s (-1)) t c (negV_wf x (.sum s) hs) wt).2.2.2

theorem sum_mul_val_core (k : Scal R) (x : TranslatedPauli.Ext R) (hid : ∀ l, x.set_iter l = l) (s : PSum R) (hs : SumWF s)
    (v : Val R) (wv : ValWF v) (r : PSum R) (h : mulV k (neglOf x) (.sum s) v = .ok (.sum r)) :
    TranslatedPauli.sum_mul_val k x (ofSum s) (ofVal v) = .ok (ofSum r) := by
  have hX : mulTermX k x = mulTerm k := by
    funext a b; simp [mulTermX, mulTerm, hid]
  cases v with
  | num c =>
    simp only [mulV] at h; injection h with h; injection h with h; subst h
    have := (translated_sum_mul_other_eq k x s (constTerm 0) c hs (constTerm_wf 0)).2.1
    rw [mulSX_eq_mulS k x hid] at this
    exact this
  | term u =>
    simp only [mulV] at h; injection h with h; injection h with h; subst h
    have := (translated_sum_mul_other_eq k x s u 0 hs wv).1
    rw [mulSX_eq_mulS k x hid, hX] at this
    exact this
  | sum s' =>
    simp only [mulV] at h; injection h with h; injection h with h; subst h
    have := translated_sum_mul_sum_eq k x s s' hs
    rw [mulSX_eq_mulS k x hid] at this
    exact this


/-- what `PauliTerm.__hash__` takes from CPython beyond `Ext R` -/
structure HashExt (R H : Type) where
  real : R → R
  imag : R → R
  is_complex : R → Bool
  round : R → Int
  hash : Int × Int × FrozenItems Nat TranslatedPauli.Letter → H

/-- the law assumed of `hash((int, int, frozenset))` on the tuples `__hash__` builds (the frozenset of the items of a dict): two such
    tuples have the same hash exactly when their int components have the same `hash(int)` (`ih`; CPython: the identity below 2^61 - 1
    except `hash(-1) = -2`) and the frozensets are equal -/
def HashLaw (ih : Int → Int) (e : HashExt R H) : Prop :=
  ∀ (a1 a2 b1 b2 : Int) (oa ob : List (Nat × P)), OpsWF oa → OpsWF ob →
    (e.hash (a1, a2, up oa) = e.hash (b1, b2, up ob) ↔ ih a1 = ih b1 ∧ ih a2 = ih b2 ∧ opsEq oa ob = true)

/-- the coefficient part of the hashed tuple, as far as the hash value depends on it: the model's parameter `hk` -/
def hkOf (ih : Int → Int) (e : HashExt R H) (c : R) : Int × Int :=
  if e.is_complex c then (ih (e.round (e.real c * TranslatedPauli.intTo 1000000)), ih (e.round (e.imag c * TranslatedPauli.intTo 1000000)))
  else (ih (e.round (c * TranslatedPauli.intTo 1000000)), ih (e.round (TranslatedPauli.intTo 0 * TranslatedPauli.intTo 1000000)))

/-- the translated `__hash__` under these externals -/
def thash (k : Scal R) (x : TranslatedPauli.Ext R) (e : HashExt R H) (t : TranslatedPauli.PTerm R) : H :=
  TranslatedPauli.term_hash k x e.real e.imag e.is_complex e.round e.hash t

theorem any_congr_mem {α : Type} (l : List α) (p q : α → Bool) (h : ∀ a ∈ l, p a = q a) : l.any p = l.any q := by
  induction l with
  | nil => rfl
  | cons a l ih => simp only [List.any_cons, h a (by simp), ih (fun b hb => h b (by simp [hb]))]

theorem all_congr_mem {α : Type} (l : List α) (p q : α → Bool) (h : ∀ a ∈ l, p a = q a) : l.all p = l.all q := by
  induction l with
  | nil => rfl
  | cons a l ih => simp only [List.all_cons, h a (by simp), ih (fun b hb => h b (by simp [hb]))]

theorem thash_eq_iff (k : Scal R) (x : TranslatedPauli.Ext R) (ih : Int → Int) (e : HashExt R H) (hl : HashLaw ih e) (a b : Term R)
    (wa : OpsWF a.ops) (wb : OpsWF b.ops) :
    thash k x e (ofTerm a) = thash k x e (ofTerm b) ↔ hkOf ih e a.coeff = hkOf ih e b.coeff ∧ opsEq a.ops b.ops = true := by
  unfold thash TranslatedPauli.term_hash hkOf
  simp only [ofTerm_coeff, TranslatedPauli.term_operations, dictItems, ofTerm_ops]
  by_cases ha : e.is_complex a.coeff = true <;> by_cases hb : e.is_complex b.coeff = true <;>
    simp only [ha, hb, if_true, if_false, Bool.false_eq_true] <;> rw [hl _ _ _ _ _ _ wa wb] <;>
    simp only [Prod.mk.injEq] <;> tauto

theorem sameElem_eq (k : Scal R) (x : TranslatedPauli.Ext R) (ih : Int → Int) (e : HashExt R H) (hl : HashLaw ih e) (a b : Term R)
    (wa : OpsWF a.ops) (wb : OpsWF b.ops) :
    sameElem (thash k x e) (TranslatedPauli.term_eq_term k x) (ofTerm a) (ofTerm b) = sameEntry x.allclose (hkOf ih e) a b := by
  unfold sameElem sameEntry
  rw [(translated_term_eq_eq k x a b 0).1]
  have := thash_eq_iff k x ih e hl a b wa wb
  by_cases h1 : hkOf ih e a.coeff = hkOf ih e b.coeff <;> by_cases h2 : opsEq a.ops b.ops = true <;>
    simp [h1, h2, this]

theorem mkSet_subset {K : Type} [DecidableEq K] (close : R → R → Bool) (hk : R → K) (s : PSum R) : ∀ t ∈ mkSet close hk s, t ∈ s := by
  unfold mkSet
  suffices hgen : ∀ acc : PSum R, ∀ t ∈ s.foldl (fun acc t => if acc.any (fun e => sameEntry close hk e t) then acc else acc ++ [t]) acc,
      t ∈ acc ∨ t ∈ s by
    intro t ht
    rcases hgen [] t ht with h | h
    · cases h
    · exact h
  induction s with
  | nil => intro acc t ht; exact .inl ht
  | cons u rest ih =>
    intro acc t ht
    simp only [List.foldl_cons] at ht
    split at ht
    · rcases ih acc t ht with h | h
      · exact .inl h
      · exact .inr (List.mem_cons_of_mem _ h)
    · rcases ih (acc ++ [u]) t ht with h | h
      · rcases List.mem_append.mp h with h' | h'
        · exact .inl h'
        · simp only [List.mem_singleton] at h'; subst h'; exact .inr (by simp)
      · exact .inr (List.mem_cons_of_mem _ h)

theorem setOfHashables_eq (k : Scal R) (x : TranslatedPauli.Ext R) (ih : Int → Int) (e : HashExt R H) (hl : HashLaw ih e) (s : PSum R)
    (ws : SumWF s) :
    setOfHashables (thash k x e) (TranslatedPauli.term_eq_term k x) (ofSum s) = ofSum (mkSet x.allclose (hkOf ih e) s) := by
  unfold setOfHashables mkSet
  suffices hgen : ∀ acc : PSum R, SumWF acc →
      (ofSum s).foldl (fun acc t => if acc.any (fun e' => sameElem (thash k x e) (TranslatedPauli.term_eq_term k x) e' t) then acc else acc ++ [t]) (ofSum acc)
        = ofSum (s.foldl (fun acc t => if acc.any (fun e' => sameEntry x.allclose (hkOf ih e) e' t) then acc else acc ++ [t]) acc) from
    hgen [] (by intro t ht; cases ht)
  induction s with
  | nil => intro acc _; rfl
  | cons t rest ih' =>
    intro acc wacc
    have wt : OpsWF t.ops := ws t (by simp)
    have wrest : SumWF rest := fun u hu => ws u (List.mem_cons_of_mem _ hu)
    simp only [ofSum, List.map_cons, List.foldl_cons]
    have hany : (acc.map ofTerm).any (fun e' => sameElem (thash k x e) (TranslatedPauli.term_eq_term k x) e' (ofTerm t))
        = acc.any (fun e' => sameEntry x.allclose (hkOf ih e) e' t) := by
      rw [List.any_map]
      apply any_congr_mem
      intro a ha
      simp only [Function.comp]
      exact sameElem_eq k x ih e hl a t (wacc a ha) wt
    rw [hany]
    by_cases h : acc.any (fun e' => sameEntry x.allclose (hkOf ih e) e' t) = true
    · simp only [h, if_true]; exact ih' wrest acc wacc
    · simp only [h, if_false, Bool.false_eq_true]
      have : acc.map ofTerm ++ [ofTerm t] = ofSum (acc ++ [t]) := by simp [ofSum]
      rw [this]
      exact ih' wrest (acc ++ [t]) (by
        intro u hu
        rcases List.mem_append.mp hu with h' | h'
        · exact wacc u h'
        · simp only [List.mem_singleton] at h'; subst h'; exact wt)

theorem sum_eq_sum_core (k : Scal R) (x : TranslatedPauli.Ext R) (ih : Int → Int) (e : HashExt R H) (hl : HashLaw ih e) (s1 s2 : PSum R)
    (w1 : SumWF s1) (w2 : SumWF s2) :
    TranslatedPauli.sum_eq_sum k x e.real e.imag e.is_complex e.round e.hash (ofSum s1) (ofSum s2)
      = eqSum x.allclose (hkOf ih e) s1 s2 := by
  unfold TranslatedPauli.sum_eq_sum eqSum
  have h1 := setOfHashables_eq k x ih e hl s1 w1
  have h2 := setOfHashables_eq k x ih e hl s2 w2
  unfold thash at h1 h2
  simp only [(translated_is_constant_eq k x ⟨[], 0⟩ s1).2.2, (translated_is_constant_eq k x ⟨[], 0⟩ s2).2.2]
  have hlen : ((s1.length : Int) != (s2.length : Int)) = (s1.length != s2.length) := by
    by_cases h : s1.length = s2.length
    · simp [h]
    · have h' : ¬ ((s1.length : Int) = (s2.length : Int)) := by exact_mod_cast h
      simp [bne, h, h']
  rw [hlen]
  by_cases h : (s1.length != s2.length) = true
  · simp only [h, if_true]
  · simp only [h, if_false, Bool.false_eq_true]
    have h1' : setOfHashables (fun a1 => TranslatedPauli.term_hash k x e.real e.imag e.is_complex e.round e.hash a1)
        (fun a1 b2 => TranslatedPauli.term_eq_term k x a1 b2) (ofSum s1) = ofSum (mkSet x.allclose (hkOf ih e) s1) := h1
    have h2' : setOfHashables (fun a3 => TranslatedPauli.term_hash k x e.real e.imag e.is_complex e.round e.hash a3)
        (fun a3 b4 => TranslatedPauli.term_eq_term k x a3 b4) (ofSum s2) = ofSum (mkSet x.allclose (hkOf ih e) s2) := h2
    rw [h1', h2']
    unfold setEqHashables
    simp only [ofSum, List.length_map, List.all_map, List.any_map]
    congr 1
    apply all_congr_mem
    intro t ht
    simp only [Function.comp]
    apply any_congr_mem
    intro e' he'
    exact sameElem_eq k x ih e hl e' t (w2 e' (mkSet_subset _ _ s2 e' he')) (w1 t (mkSet_subset _ _ s1 t ht))


/-! ### `constant_term`, `is_ising` of a term, a witness of the hash law -/

theorem constant_term_core (k : Scal R) (x : TranslatedPauli.Ext R) (s : PSum R) :
    TranslatedPauli.sum_constant_term k x (ofSum s) = ((s.filter (fun t => t.ops.isEmpty)).map (fun t => t.coeff)).sum := by
  unfold TranslatedPauli.sum_constant_term
  have h0 : (TranslatedPauli.intTo (0 : Int) : R) = 0 := rfl
  have hf : (ofSum s).filter (fun term => TranslatedPauli.term_is_constant k x term) = ofSum (s.filter (fun t => t.ops.isEmpty)) := by
    unfold ofSum
    rw [List.filter_map]
    congr 1
    apply List.filter_congr
    intro t _
    exact (translated_is_constant_eq k x t []).1
  rw [hf, h0]
  unfold ofSum
  rw [List.map_map]
  have : ((fun (term : TranslatedPauli.PTerm R) => term.coefficient) ∘ ofTerm) = fun t : Term R => t.coeff := by funext t; rfl
  rw [this, List.sum_eq_foldl]

theorem setEq_single (vals : List TranslatedPauli.Letter) (z : TranslatedPauli.Letter) :
    setEq (setOfList vals) (setOfList [z]) = (vals.all (fun v => v == z) && !vals.isEmpty) := by
  have hs : ∀ (l acc : List TranslatedPauli.Letter) (v : TranslatedPauli.Letter),
      v ∈ l.foldl (fun acc x => if acc.contains x then acc else acc ++ [x]) acc ↔ v ∈ acc ∨ v ∈ l := by
    intro l
    induction l with
    | nil => intro acc v; simp
    | cons a l ih =>
      intro acc v
      simp only [List.foldl_cons, ih]
      by_cases hc : acc.contains a = true
      · simp only [hc, if_true, List.mem_cons]
        have : a ∈ acc := by simpa using hc
        constructor
        · rintro (h | h); exact .inl h; exact .inr (.inr h)
        · rintro (h | h | h); exact .inl h; exact .inl (h ▸ this); exact .inr h
      · simp only [hc, if_false, Bool.false_eq_true, List.mem_append, List.mem_singleton, List.mem_cons]
        tauto
  have hm : ∀ v, v ∈ setOfList vals ↔ v ∈ vals := by
    intro v; unfold setOfList; rw [hs]; simp
  have h1 : setOfList [z] = [z] := rfl
  rw [h1]
  unfold setEq
  cases hv : vals with
  | nil => rfl
  | cons a rest =>
    rw [← hv]
    have hne : vals.isEmpty = false := by rw [hv]; rfl
    simp only [hne, Bool.not_false, Bool.and_true]
    by_cases hall : vals.all (fun v => v == z) = true
    · rw [hall]
      have h2 : (setOfList vals).all (fun x => [z].contains x) = true := by
        rw [List.all_eq_true]
        intro v hv'
        have := List.all_eq_true.mp hall v ((hm v).mp hv')
        simpa using this
      have h3 : [z].all (fun x => (setOfList vals).contains x) = true := by
        simp only [List.all_cons, List.all_nil, Bool.and_true, List.contains_iff_mem]
        have ha : a ∈ vals := by rw [hv]; simp
        have := List.all_eq_true.mp hall a ha
        have haz : a = z := by simpa using this
        rw [(hm z)]; rw [← haz]; exact ha
      rw [h2, h3]; rfl
    · have hall' : vals.all (fun v => v == z) = false := by simpa using hall
      rw [hall']
      have : (setOfList vals).all (fun x => [z].contains x) = false := by
        rw [Bool.eq_false_iff]
        intro hc
        apply hall
        rw [List.all_eq_true] at hc ⊢
        intro v hv'
        have := hc v ((hm v).mpr hv')
        simpa using this
      rw [this]; rfl

theorem term_is_ising_core (k : Scal R) (x : TranslatedPauli.Ext R) (t : Term R) :
    TranslatedPauli.term_is_ising k x (ofTerm t) = t.ops.all (fun p => p.2 == P.Z) := by
  unfold TranslatedPauli.term_is_ising
  rw [(translated_is_constant_eq k x t []).1, setEq_single]
  simp only [ofTerm_ops, up, dictValues, List.map_map, List.all_map, List.isEmpty_map]
  cases t.ops with
  | nil => rfl
  | cons a rest =>
    simp only [List.isEmpty_cons, Bool.not_false, Bool.and_true, Bool.or_false]
    first
      | rfl
      | (apply all_congr_mem; intro p _; simp only [Function.comp]; cases p.2 <;> rfl)

/-- a hash satisfying the law (for any `ih`): the pair of int hashes and the lookup FUNCTION of the dict -/
noncomputable def witnessHash (ih : Int → Int) : HashExt R (Int × Int × (Nat → Option TranslatedPauli.Letter)) :=
  { real := id, imag := fun _ => 0, is_complex := fun _ => false, round := fun _ => 0,
    hash := fun t => (ih t.1, ih t.2.1, fun q => dictFind? t.2.2 q) }

theorem witnessHash_law (ih : Int → Int) : HashLaw ih (witnessHash (R := R) ih) := by
  intro a1 a2 b1 b2 oa ob wa wb
  simp only [witnessHash, Prod.mk.injEq]
  constructor
  · rintro ⟨h1, h2, h3⟩
    refine ⟨h1, h2, opsEq_of_lookup wa wb ?_⟩
    intro q
    have := congrFun h3 q
    rw [dictFind_up, dictFind_up] at this
    cases ha : lookup oa q <;> cases hb : lookup ob q <;> simp_all
  · rintro ⟨h1, h2, h3⟩
    refine ⟨h1, h2, ?_⟩
    funext q
    rw [dictFind_up, dictFind_up, opsEq_lookup h3 q]

/-! ### `PauliSum.qubits` / `PauliSum.n_qubits` -/

theorem mem_setOfList_nat (l : List Nat) (v : Nat) : v ∈ setOfList l ↔ v ∈ l := by
  have hs : ∀ (l acc : List Nat) (v : Nat),
      v ∈ l.foldl (fun acc x => if acc.contains x then acc else acc ++ [x]) acc ↔ v ∈ acc ∨ v ∈ l := by
    intro l
    induction l with
    | nil => intro acc v; simp
    | cons a l ih =>
      intro acc v
      simp only [List.foldl_cons, ih]
      by_cases hc : acc.contains a = true
      · simp only [hc, if_true, List.mem_cons]
        have : a ∈ acc := by simpa using hc
        constructor
        · rintro (h | h); exact .inl h; exact .inr (.inr h)
        · rintro (h | h | h); exact .inl h; exact .inl (h ▸ this); exact .inr h
      · simp only [hc, if_false, Bool.false_eq_true, List.mem_append, List.mem_singleton, List.mem_cons]
        tauto
  unfold setOfList; rw [hs]; simp

theorem psum_nQubits_le (s : PSum R) (b : Nat) : PSum.nQubits s ≤ b ↔ ∀ t ∈ s, ∀ p ∈ t.ops, p.1 + 1 ≤ b := by
  unfold PSum.nQubits
  have : ∀ (l : PSum R) (a : Nat), l.foldl (fun acc t => max acc t.nQubits) a ≤ b ↔ a ≤ b ∧ ∀ t ∈ l, t.nQubits ≤ b := by
    intro l
    induction l with
    | nil => intro a; simp
    | cons t l ih =>
      intro a
      rw [List.foldl_cons, ih]
      simp only [List.mem_cons, forall_eq_or_imp, Nat.max_le]
      tauto
  rw [this]
  simp only [Nat.zero_le, true_and]
  constructor
  · intro h t ht p hp
    exact ((foldl_max_succ_le t.ops 0 b).mp (h t ht)).2 p hp
  · intro h t ht
    exact (foldl_max_succ_le t.ops 0 b).mpr ⟨Nat.zero_le _, h t ht⟩

theorem sum_qubits_core (k : Scal R) (x : TranslatedPauli.Ext R) (s : PSum R) (q : Nat) :
    q ∈ TranslatedPauli.sum_qubits k x (ofSum s) ↔ ∃ t ∈ s, ∃ p ∈ t.ops, p.1 = q := by
  unfold TranslatedPauli.sum_qubits TranslatedPauli.term_qubits
  rw [mem_setOfList_nat]
  simp only [ofSum, List.map_map, Function.comp_def, ofTerm_ops, setOfList_keys, List.mem_flatten, List.mem_map]
  constructor
  · rintro ⟨l, ⟨t, ht, rfl⟩, hq⟩
    exact ⟨t, ht, ((keys_spec t.ops).2 q).mp hq⟩
  · rintro ⟨t, ht, hp⟩
    exact ⟨keys t.ops, ⟨t, ht, rfl⟩, ((keys_spec t.ops).2 q).mpr hp⟩

theorem sum_n_qubits_core (k : Scal R) (x : TranslatedPauli.Ext R) (s : PSum R) :
    TranslatedPauli.sum_n_qubits k x (ofSum s) = .ok (PSum.nQubits s) := by
  unfold TranslatedPauli.sum_n_qubits
  rw [(translated_is_constant_eq k x ⟨[], 0⟩ s).2.1]
  by_cases hc : (s.isEmpty || s.all (fun t => t.ops.isEmpty)) = true
  · simp only [hc, if_true]
    congr 1
    symm
    apply Nat.le_antisymm _ (Nat.zero_le _)
    rw [psum_nQubits_le]
    intro t ht p hp
    exfalso
    rcases Bool.or_eq_true _ _ |>.mp hc with h | h
    · have : s = [] := by simpa using h
      rw [this] at ht; cases ht
    · have := List.all_eq_true.mp h t ht
      have : t.ops = [] := by simpa using this
      rw [this] at hp; cases hp
  · simp only [hc, if_false, Bool.false_eq_true]
    have hmem := sum_qubits_core k x s
    generalize TranslatedPauli.sum_qubits k x (ofSum s) = S at hmem
    -- some term has an operator
    have hex : ∃ t ∈ s, ∃ p, p ∈ t.ops := by
      by_contra hno
      apply hc
      apply Bool.or_eq_true _ _ |>.mpr
      right
      rw [List.all_eq_true]
      intro t ht
      cases ho : t.ops with
      | nil => rfl
      | cons p rest => exact absurd ⟨t, ht, p, by rw [ho]; simp⟩ hno
    obtain ⟨t0, ht0, p0, hp0⟩ := hex
    cases hS : S with
    | nil =>
      have : p0.1 ∈ S := (hmem p0.1).mpr ⟨t0, ht0, p0, hp0, rfl⟩
      rw [hS] at this; cases this
    | cons h tl =>
      simp only [maxNatE, bind_ok]
      congr 1
      apply Nat.le_antisymm
      · -- the maximum is one of the qubits
        have hm := foldl_max_mem tl h
        rw [← hS] at hm
        obtain ⟨t, ht, p, hp, he⟩ := (hmem _).mp hm
        have := (psum_nQubits_le s (PSum.nQubits s)).mp (le_refl _) t ht p hp
        rw [he] at this
        exact this
      · rw [psum_nQubits_le]
        intro t ht p hp
        have hin : p.1 ∈ S := (hmem p.1).mpr ⟨t, ht, p, hp, rfl⟩
        rw [hS] at hin
        have := (foldl_max_le tl h _).mp (le_refl _)
        have h3 : p.1 ≤ tl.foldl max h := by
          rcases List.mem_cons.mp hin with e | e
          · rw [e]; exact this.1
          · exact this.2 _ e
        omega


end OQ.C03
