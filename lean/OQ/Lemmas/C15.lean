/- helper lemmas for C15 (not property theorems) -/
import OQ.Model.C15
import Mathlib.Tactic.Linarith
import Mathlib.Tactic.Ring
import Mathlib.Tactic.FieldSimp
import Mathlib.Algebra.BigOperators.Group.List.Basic
import Mathlib.Algebra.BigOperators.Ring.Finset
import Mathlib.Algebra.BigOperators.Group.Finset.Basic
import Mathlib.Data.List.Range
namespace OQ.C15

/-! ### mapE -/

theorem mapE_nil {ε α β : Type} (f : α → Except ε β) : mapE f [] = .ok [] := rfl

theorem mapE_cons_ok {ε α β : Type} (f : α → Except ε β) (a : α) (as : List α) (out : List β)
    (h : mapE f (a :: as) = .ok out) :
    ∃ b bs, f a = .ok b ∧ mapE f as = .ok bs ∧ out = b :: bs := by
  simp only [mapE] at h
  cases hfa : f a with
  | error e => rw [hfa] at h; simp at h
  | ok b =>
    rw [hfa] at h
    cases hr : mapE f as with
    | error e => rw [hr] at h; simp at h
    | ok bs =>
      rw [hr] at h
      simp only [Except.ok.injEq] at h
      exact ⟨b, bs, rfl, rfl, h.symm⟩

theorem mapE_forall₂ {ε α β : Type} (f : α → Except ε β) (l : List α) (out : List β)
    (h : mapE f l = .ok out) : List.Forall₂ (fun a b => f a = .ok b) l out := by
  induction l generalizing out with
  | nil => simp [mapE] at h; subst h; exact List.Forall₂.nil
  | cons a as ih =>
    obtain ⟨b, bs, h1, h2, h3⟩ := mapE_cons_ok f a as out h
    subst h3
    exact List.Forall₂.cons h1 (ih bs h2)

theorem mapE_ok_of_forall {ε α β : Type} (f : α → Except ε β) (g : α → β) (l : List α)
    (h : ∀ a ∈ l, f a = .ok (g a)) : mapE f l = .ok (l.map g) := by
  induction l with
  | nil => rfl
  | cons a as ih =>
    simp only [mapE, h a (by simp), ih (fun x hx => h x (by simp [hx])), List.map_cons]

theorem mapE_exists_ok {ε α β : Type} (f : α → Except ε β) (l : List α)
    (h : ∀ a ∈ l, ∃ b, f a = .ok b) : ∃ bs, mapE f l = .ok bs := by
  induction l with
  | nil => exact ⟨[], rfl⟩
  | cons a as ih =>
    obtain ⟨b, hb⟩ := h a (by simp)
    obtain ⟨bs, hbs⟩ := ih (fun x hx => h x (by simp [hx]))
    exact ⟨b :: bs, by simp only [mapE, hb, hbs]⟩

/-! ### split -/

/-- recursive description of the split: indices of the tail shifted by one -/
def splitRec {C : Type} : List (Task C) → Split C
  | [] => ⟨[], [], [], []⟩
  | t :: ts =>
    let s := splitRec ts
    if notMeasured t then
      ⟨s.toMeasure, t :: s.notToMeasure, s.idxMeasure.map (· + 1), 0 :: s.idxNot.map (· + 1)⟩
    else
      ⟨t :: s.toMeasure, s.notToMeasure, 0 :: s.idxMeasure.map (· + 1), s.idxNot.map (· + 1)⟩

theorem splitLoop_eq {C : Type} (ts : List (Task C)) (i : Nat) (acc : Split C) :
    splitLoop ts i acc =
      ⟨acc.toMeasure ++ (splitRec ts).toMeasure, acc.notToMeasure ++ (splitRec ts).notToMeasure,
       acc.idxMeasure ++ (splitRec ts).idxMeasure.map (· + i), acc.idxNot ++ (splitRec ts).idxNot.map (· + i)⟩ := by
  induction ts generalizing i acc with
  | nil => simp [splitLoop, splitRec]
  | cons t ts ih =>
    have hshift : ∀ l : List Nat, (l.map (· + 1)).map (· + i) = l.map (· + (i + 1)) := by
      intro l; rw [List.map_map]; congr 1; funext x; simp only [Function.comp]; omega
    by_cases h : notMeasured t
    · simp only [splitLoop, splitRec, h, if_true, ih, List.append_assoc, List.cons_append, List.nil_append,
        List.map_cons, hshift, Nat.zero_add]
    · simp only [splitLoop, splitRec, h, if_false, ih, List.append_assoc, List.cons_append, List.nil_append,
        List.map_cons, hshift, Nat.zero_add, Bool.false_eq_true]

theorem splitTasks_eq_rec {C : Type} (tasks : List (Task C)) : splitTasks tasks = splitRec tasks := by
  unfold splitTasks
  rw [splitLoop_eq]
  simp

def isMeasured {C : Type} (t : Task C) : Bool := !notMeasured t

theorem splitRec_lists {C : Type} (tasks : List (Task C)) :
    (splitRec tasks).toMeasure = tasks.filter isMeasured ∧
    (splitRec tasks).notToMeasure = tasks.filter notMeasured := by
  induction tasks with
  | nil => simp [splitRec]
  | cons t ts ih =>
    by_cases h : notMeasured t
    · simp [splitRec, h, ih, isMeasured]
    · simp [splitRec, h, ih, isMeasured]

/-! ### write-back by index -/

theorem writeBack_nil (idx : List Nat) (full : List (Option Vals)) : writeBack [] idx full = full := by
  simp [writeBack]

theorem writeBack_shift (vals : List Vals) (idx : List Nat) (x : Option Vals) (rest : List (Option Vals)) :
    writeBack vals (idx.map (· + 1)) (x :: rest) = x :: writeBack vals idx rest := by
  induction idx generalizing vals rest with
  | nil => simp [writeBack]
  | cons i is ih =>
    cases vals with
    | nil => simp [writeBack]
    | cons v vs =>
      have := ih vs (rest.set i (some v))
      simp only [writeBack, List.map_cons, List.zip_cons_cons, List.foldl_cons, List.set_cons_succ] at this ⊢
      exact this

theorem writeBack_zero (v : Vals) (vs : List Vals) (idx : List Nat) (x : Option Vals) (rest : List (Option Vals)) :
    writeBack (v :: vs) (0 :: idx) (x :: rest) = writeBack vs idx (some v :: rest) := by
  simp [writeBack]

/-- the clean description of the result: walk the tasks, taking the next non-measured or the next
    measured value -/
def interleave {C : Type} : List (Task C) → List Vals → List Vals → List (Option Vals)
  | [], _, _ => []
  | t :: ts, nv, mv =>
    if notMeasured t then nv.head? :: interleave ts nv.tail mv
    else mv.head? :: interleave ts nv mv.tail

theorem interleave_length {C : Type} (tasks : List (Task C)) (nv mv : List Vals) :
    (interleave tasks nv mv).length = tasks.length := by
  induction tasks generalizing nv mv with
  | nil => rfl
  | cons t ts ih => by_cases h : notMeasured t <;> simp [interleave, h, ih]

theorem assemble_eq_interleave {C : Type} (tasks : List (Task C)) (nv mv : List Vals) :
    writeBack mv (splitRec tasks).idxMeasure
      (writeBack nv (splitRec tasks).idxNot
        (List.replicate ((splitRec tasks).notToMeasure.length + (splitRec tasks).toMeasure.length) none))
      = interleave tasks nv mv := by
  induction tasks generalizing nv mv with
  | nil => simp [splitRec, interleave, writeBack]
  | cons t ts ih =>
    by_cases h : notMeasured t
    · have hlen : (t :: (splitRec ts).notToMeasure).length + (splitRec ts).toMeasure.length
          = ((splitRec ts).notToMeasure.length + (splitRec ts).toMeasure.length) + 1 := by
        simp only [List.length_cons]; omega
      simp only [splitRec, h, if_true, interleave, hlen, List.replicate_succ]
      cases nv with
      | nil =>
        rw [writeBack_nil, writeBack_shift]
        have := ih [] mv
        rw [writeBack_nil] at this
        simp [this]
      | cons v nv' =>
        rw [writeBack_zero, writeBack_shift, writeBack_shift, ih nv' mv]
        simp
    · have hlen : (splitRec ts).notToMeasure.length + (t :: (splitRec ts).toMeasure).length
          = ((splitRec ts).notToMeasure.length + (splitRec ts).toMeasure.length) + 1 := by
        simp only [List.length_cons]; omega
      simp only [splitRec, h, if_false, interleave, hlen, List.replicate_succ, Bool.false_eq_true]
      rw [writeBack_shift]
      cases mv with
      | nil =>
        rw [writeBack_nil]
        have := ih nv []
        rw [writeBack_nil] at this
        simp [this]
      | cons w mv' =>
        rw [writeBack_zero, writeBack_shift, ih nv mv']
        simp

/-- number of measured tasks strictly before position `i` = position of task `i`'s circuit in the batch -/
def rank {C : Type} (tasks : List (Task C)) (i : Nat) : Nat := ((tasks.take i).filter isMeasured).length

theorem rank_zero {C : Type} (tasks : List (Task C)) : rank tasks 0 = 0 := by simp [rank]

theorem rank_succ {C : Type} (t : Task C) (ts : List (Task C)) (j : Nat) :
    rank (t :: ts) (j + 1) = (if isMeasured t then 1 else 0) + rank ts j := by
  by_cases h : isMeasured t <;> simp [rank, List.take_succ_cons, h]; omega

theorem rank_lt {C : Type} (tasks : List (Task C)) (i : Nat) (hi : i < tasks.length)
    (hm : isMeasured tasks[i] = true) : rank tasks i < (tasks.filter isMeasured).length := by
  induction tasks generalizing i with
  | nil => simp at hi
  | cons t ts ih =>
    cases i with
    | zero =>
      simp only [List.getElem_cons_zero] at hm
      simp [rank, hm]
    | succ j =>
      simp only [List.getElem_cons_succ] at hm
      have := ih j (by simpa using hi) hm
      rw [rank_succ]
      by_cases h : isMeasured t <;> simp [h] <;> omega

/-- unfolding of `estimateByAveraging`: the result is the interleaving of the two value lists -/
theorem est_ok {C : Type} (rb : List C → List (Option Int) → Except Err (List Shots))
    (tasks : List (Task C)) (r : List (Option Vals)) (h : estimateByAveraging rb tasks = .ok r) :
    ∃ nv mv meas,
      mapE evalNonMeasured (tasks.filter notMeasured) = .ok nv ∧
      (tasks.filter isMeasured ≠ [] →
        rb ((tasks.filter isMeasured).map (fun t => t.circuit)) ((tasks.filter isMeasured).map (fun t => t.shots)) = .ok meas) ∧
      (tasks.filter isMeasured = [] → meas = []) ∧
      mapE (fun p : Op × Shots => measuredValue p.1 p.2) (((tasks.filter isMeasured).map (fun t => t.op)).zip meas) = .ok mv ∧
      r = interleave tasks nv mv := by
  unfold estimateByAveraging at h
  simp only [splitTasks_eq_rec, (splitRec_lists tasks).1, (splitRec_lists tasks).2] at h
  cases hnv : mapE evalNonMeasured (tasks.filter notMeasured) with
  | error e => rw [hnv] at h; simp at h
  | ok nv =>
    rw [hnv] at h
    simp only at h
    by_cases hM : (tasks.filter isMeasured).isEmpty = true
    · have hM' : tasks.filter isMeasured = [] := List.isEmpty_iff.mp hM
      simp only [hM, if_true, Except.ok.injEq] at h
      refine ⟨nv, [], [], rfl, fun hne => absurd hM' hne, fun _ => rfl, ?_, ?_⟩
      · simp [hM', mapE]
      · rw [← h, ← (splitRec_lists tasks).1, ← (splitRec_lists tasks).2]
        exact assemble_eq_interleave tasks nv []
    · simp only [hM, if_false, Bool.false_eq_true] at h
      have hM' : tasks.filter isMeasured ≠ [] := fun he => hM (List.isEmpty_iff.mpr he)
      cases hrb : rb ((tasks.filter isMeasured).map (fun t => t.circuit)) ((tasks.filter isMeasured).map (fun t => t.shots)) with
      | error e => rw [hrb] at h; simp at h
      | ok meas =>
        rw [hrb] at h
        simp only at h
        cases hmv : mapE (fun p : Op × Shots => measuredValue p.1 p.2) (((tasks.filter isMeasured).map (fun t => t.op)).zip meas) with
        | error e => rw [hmv] at h; simp at h
        | ok mv =>
          rw [hmv] at h
          simp only [Except.ok.injEq] at h
          refine ⟨nv, mv, meas, rfl, fun _ => rfl, fun he => absurd he hM', hmv, ?_⟩
          rw [← h, ← (splitRec_lists tasks).1, ← (splitRec_lists tasks).2]
          exact assemble_eq_interleave tasks nv mv

/-- what sits at position `i` of the interleaving -/
theorem interleave_spec {C : Type} (tasks : List (Task C)) (nv mv : List Vals) (meas : List Shots)
    (hnv : List.Forall₂ (fun t v => evalNonMeasured t = .ok v) (tasks.filter notMeasured) nv)
    (hmv : List.Forall₂ (fun (p : Op × Shots) v => measuredValue p.1 p.2 = .ok v)
            (((tasks.filter isMeasured).map (fun t => t.op)).zip meas) mv)
    (i : Nat) (hi : i < tasks.length) :
    (notMeasured tasks[i] = true →
        ∃ v, (interleave tasks nv mv)[i]? = some (some v) ∧ evalNonMeasured tasks[i] = .ok v) ∧
    (notMeasured tasks[i] = false → rank tasks i < meas.length →
        ∃ v, (interleave tasks nv mv)[i]? = some (some v) ∧
             measuredValue tasks[i].op (meas.getD (rank tasks i) []) = .ok v) := by
  induction tasks generalizing nv mv meas i with
  | nil => simp at hi
  | cons t ts ih =>
    by_cases h : notMeasured t
    · have hm : isMeasured t = false := by simp [isMeasured, h]
      simp only [List.filter_cons, h, if_true, hm, Bool.false_eq_true, if_false] at hnv hmv
      cases hnv with
      | cons hv hrest =>
        rename_i v nv'
        cases i with
        | zero =>
          simp only [List.getElem_cons_zero, interleave, h, if_true, List.head?_cons, List.getElem?_cons_zero]
          exact ⟨fun _ => ⟨v, rfl, hv⟩, fun hf => by simp at hf⟩
        | succ j =>
          have := ih nv' mv meas hrest hmv j (by simpa using hi)
          simp only [List.getElem_cons_succ, interleave, h, if_true, List.tail_cons, List.getElem?_cons_succ,
            rank_succ, hm, Bool.false_eq_true, if_false, Nat.zero_add]
          exact this
    · have hm : isMeasured t = true := by simp [isMeasured, h]
      simp only [List.filter_cons, h, if_false, hm, if_true, Bool.false_eq_true, List.map_cons] at hnv hmv
      cases meas with
      | nil =>
        simp only [List.zip_nil_right] at hmv
        cases hmv
        cases i with
        | zero =>
          simp only [List.getElem_cons_zero, List.length_nil, Nat.not_lt_zero, false_imp_iff, imp_true_iff, and_true]
          intro hf; simp [h] at hf
        | succ j =>
          have := ih nv [] [] hnv (by simp) j (by simpa using hi)
          simp only [List.getElem_cons_succ, interleave, h, if_false, Bool.false_eq_true, List.tail_nil,
            List.getElem?_cons_succ, List.length_nil, Nat.not_lt_zero, false_imp_iff, imp_true_iff, and_true]
          simp only [List.length_nil, Nat.not_lt_zero, false_imp_iff, imp_true_iff, and_true] at this
          exact this
      | cons s meas' =>
        simp only [List.zip_cons_cons] at hmv
        cases hmv with
        | cons hw hrest =>
          rename_i w mv'
          cases i with
          | zero =>
            simp only [List.getElem_cons_zero, interleave, h, if_false, Bool.false_eq_true, List.head?_cons,
              List.getElem?_cons_zero, rank_zero, List.getD_cons_zero]
            exact ⟨fun hf => by simp at hf, fun _ _ => ⟨w, rfl, hw⟩⟩
          | succ j =>
            have := ih nv mv' meas' hnv hrest j (by simpa using hi)
            simp only [List.getElem_cons_succ, interleave, h, if_false, Bool.false_eq_true, List.tail_cons,
              List.getElem?_cons_succ, rank_succ, hm, if_true, List.length_cons]
            refine ⟨this.1, fun hf hlt => ?_⟩
            have h2 := this.2 hf (by omega)
            rw [Nat.add_comm 1 (rank ts j), List.getD_cons_succ]
            exact h2

/-! ### counts versus shots -/

/-- Σ count·f(key) over a frequency table -/
def wsum (f : Bits → Int) (freq : List (Bits × Nat)) : Int := (freq.map (fun p => (p.2 : Int) * f p.1)).sum
def cnt (freq : List (Bits × Nat)) : Nat := (freq.map (fun p => p.2)).sum

theorem wsum_bump (f : Bits → Int) (acc : List (Bits × Nat)) (k : Bits) :
    wsum f (bump acc k) = wsum f acc + f k := by
  induction acc with
  | nil => simp [bump, wsum]
  | cons p rest ih =>
    obtain ⟨k', c⟩ := p
    simp only [bump]
    split
    · rename_i h; subst h
      simp only [wsum, List.map_cons, List.sum_cons]; push_cast; ring
    · simp only [wsum, List.map_cons, List.sum_cons] at ih ⊢; rw [ih]; ring

theorem cnt_bump (acc : List (Bits × Nat)) (k : Bits) : cnt (bump acc k) = cnt acc + 1 := by
  induction acc with
  | nil => simp [bump, cnt]
  | cons p rest ih =>
    obtain ⟨k', c⟩ := p
    simp only [bump]
    split
    · simp only [cnt, List.map_cons, List.sum_cons]; omega
    · simp only [cnt, List.map_cons, List.sum_cons] at ih ⊢; omega

theorem wsum_foldl (f : Bits → Int) (acc : List (Bits × Nat)) (l : Shots) :
    wsum f (l.foldl bump acc) = wsum f acc + (l.map f).sum := by
  induction l generalizing acc with
  | nil => simp
  | cons s l ih => simp only [List.foldl_cons, ih, wsum_bump, List.map_cons, List.sum_cons]; ring

theorem cnt_foldl (acc : List (Bits × Nat)) (l : Shots) : cnt (l.foldl bump acc) = cnt acc + l.length := by
  induction l generalizing acc with
  | nil => simp
  | cons s l ih => simp only [List.foldl_cons, ih, cnt_bump, List.length_cons]; omega

theorem wsum_tally (f : Bits → Int) (s : Shots) : wsum f (tally s) = (s.map f).sum := by
  unfold tally; rw [wsum_foldl]; simp [wsum]

theorem cnt_tally (s : Shots) : cnt (tally s) = s.length := by
  unfold tally; rw [cnt_foldl]; simp [cnt]

theorem foldl_bump_head (k : Bits) (c : Nat) (acc : List (Bits × Nat)) (l : Shots) :
    ∃ c' acc', l.foldl bump ((k, c) :: acc) = (k, c') :: acc' := by
  induction l generalizing c acc with
  | nil => exact ⟨c, acc, rfl⟩
  | cons s l ih =>
    simp only [List.foldl_cons, bump]
    split
    · exact ih _ _
    · exact ih _ _

/-- the first key of the histogram is the first shot (dict insertion order) -/
theorem tally_head (s0 : Bits) (rest : Shots) : ∃ c acc, tally (s0 :: rest) = (s0, c) :: acc := by
  simp only [tally, List.foldl_cons, bump]
  exact foldl_bump_head s0 1 [] rest

theorem sum_map_div (l : List Int) (n : Rat) :
    (l.map (fun (x : Int) => (x : Rat) / n)).sum = ((l.sum : Int) : Rat) / n := by
  induction l with
  | nil => simp
  | cons x xs ih => simp only [List.map_cons, List.sum_cons, ih]; push_cast; ring

/-- the value computed from the histogram is the sample mean over the shots -/
theorem expFromFreq_tally (qs : List Nat) (s0 : Bits) (rest : Shots) (hq : ∀ q ∈ qs, q < s0.length) :
    expFromFreq qs (tally (s0 :: rest)) =
      .ok ((((s0 :: rest).map (paritySign qs)).sum : Int) / (((s0 :: rest).length : Nat) : Rat)) := by
  obtain ⟨c, acc, ht⟩ := tally_head s0 rest
  have hw := wsum_tally (paritySign qs) (s0 :: rest)
  have hc := cnt_tally (s0 :: rest)
  rw [ht] at hw hc
  rw [ht]
  simp only [expFromFreq]
  have hany : (qs.any fun q => decide (s0.length ≤ q)) = false := by
    rw [List.any_eq_false]; intro q hq'; have := hq q hq'; simp; omega
  simp only [hany, Bool.false_eq_true, if_false]
  congr 1
  have := sum_map_div (((s0, c) :: acc).map (fun p => (p.2 : Int) * paritySign qs p.1))
    ((((s0, c) :: acc).map (fun p => p.2)).sum : Nat)
  simp only [List.map_map, Function.comp_def] at this
  rw [this]
  simp only [wsum, cnt] at hw hc
  rw [hw, hc]

/-- eigenvalue of the Z-string on the qubits `qs` at the computational basis state `b`:
    Z|0⟩ = |0⟩, Z|1⟩ = −|1⟩, so the product of (1 − 2·b_q). -/
def zEigenvalue (qs : List Nat) (b : Bits) : Int := (qs.map (fun q => 1 - 2 * ((b.getD q 0 : Nat) : Int))).prod

theorem parity_formula (qs : List Nat) (b : Bits) (hb : ∀ q ∈ qs, b.getD q 0 ≤ 1) :
    ((((qs.map (fun q => b.getD q 0)).sum + 1) % 2 : Nat) : Int) * 2 - 1 = zEigenvalue qs b := by
  induction qs with
  | nil => simp [zEigenvalue]
  | cons q qs ih =>
    have h1 := hb q (by simp)
    have ih' := ih (fun x hx => hb x (by simp [hx]))
    simp only [zEigenvalue, List.map_cons, List.sum_cons, List.prod_cons] at ih' ⊢
    rw [← ih']
    have hcases : b.getD q 0 = 0 ∨ b.getD q 0 = 1 := by omega
    rcases hcases with h0 | h0
    · rw [h0]; simp
    · rw [h0]
      generalize (qs.map (fun q => b.getD q 0)).sum = S
      have : (1 - 2 * ((1 : Nat) : Int)) = -1 := by norm_num
      rw [this]
      have hx : ((1 + S + 1) % 2 : Nat) = 1 - (S + 1) % 2 := by omega
      rw [hx]
      have hy : (S + 1) % 2 ≤ 1 := by omega
      push_cast [Nat.cast_sub hy]
      ring

/-- the sign computed by `check_parity_of_vector(...)*2-1` is the Z-string eigenvalue -/
theorem paritySign_eq (qs : List Nat) (b : Bits) (hb : ∀ q ∈ qs, b.getD q 0 ≤ 1) :
    paritySign qs b = zEigenvalue qs b := by
  unfold paritySign
  split
  · rename_i h
    have : qs = [] := List.isEmpty_iff.mp h
    subst this; simp [zEigenvalue]
  · exact parity_formula qs b hb

/-- sample mean of the ±1 outcomes of the Z-string on `qs` -/
def sampleMean (qs : List Nat) (shots : Shots) : Rat :=
  ((shots.map (paritySign qs)).sum : Int) / ((shots.length : Nat) : Rat)

/-- measured value of an Ising operator on non-empty shots of sufficient width:
    per term Re(coefficient) × sample mean, imaginary part dropped -/
theorem measuredValue_eq (op : Op) (s0 : Bits) (rest : Shots) (hI : op.isIsing = true)
    (hw : ∀ t ∈ op, ∀ q ∈ t.qubits, q < s0.length) :
    measuredValue op (s0 :: rest) =
      .ok (op.map (fun t => (⟨t.coeff.re * sampleMean t.qubits (s0 :: rest), 0⟩ : GQ))) := by
  unfold measuredValue getExpectationValues
  simp only [hI, if_true]
  rw [mapE_ok_of_forall _ (fun t => t.coeff.smul (sampleMean t.qubits (s0 :: rest)))]
  · simp [toReal, GQ.real, GQ.smul]
  · intro t ht
    rw [expFromFreq_tally t.qubits s0 rest (hw t ht)]
    rfl

theorem sum_const_of_forall (f : Bits → Int) (b : Bits) (shots : Shots) (h : ∀ s ∈ shots, s = b) :
    (shots.map f).sum = (shots.length : Int) * f b := by
  induction shots with
  | nil => simp
  | cons s rest ih =>
    have hs := h s (by simp)
    subst hs
    simp only [List.map_cons, List.sum_cons, List.length_cons, ih (fun x hx => h x (by simp [hx]))]
    push_cast; ring

/-- all shots equal `b` ⇒ the sample mean is the eigenvalue, whatever the number of shots -/
theorem sampleMean_basis (qs : List Nat) (b : Bits) (shots : Shots) (hne : shots ≠ [])
    (h : ∀ s ∈ shots, s = b) : sampleMean qs shots = (paritySign qs b : Int) := by
  unfold sampleMean
  rw [sum_const_of_forall _ b shots h]
  have : ((shots.length : Nat) : Rat) ≠ 0 := by
    have := List.length_pos_iff.mpr hne
    exact_mod_cast (by omega : shots.length ≠ 0)
  push_cast
  field_simp

theorem coeffSum_foldl (o : Op) (acc : GQ) :
    o.foldl (fun a t => a + t.coeff) acc =
      ⟨acc.re + (o.map (fun t => t.coeff.re)).sum, acc.im + (o.map (fun t => t.coeff.im)).sum⟩ := by
  induction o generalizing acc with
  | nil => simp
  | cons t ts ih =>
    simp only [List.foldl_cons, ih, List.map_cons, List.sum_cons]
    show (⟨(acc + t.coeff).re + _, (acc + t.coeff).im + _⟩ : GQ) = _
    have h1 : (acc + t.coeff).re = acc.re + t.coeff.re := rfl
    have h2 : (acc + t.coeff).im = acc.im + t.coeff.im := rfl
    rw [h1, h2]; congr 1 <;> ring

/-- the constant returned for a constant operator: the componentwise sum of all coefficients -/
theorem coeffSum_eq (o : Op) :
    o.coeffSum = ⟨(o.map (fun t => t.coeff.re)).sum, (o.map (fun t => t.coeff.im)).sum⟩ := by
  unfold Op.coeffSum
  rw [coeffSum_foldl]
  show (⟨(0 : Rat) + _, (0 : Rat) + _⟩ : GQ) = _
  simp

/-- a task classified as not measured never reaches the `RuntimeError` branch -/
theorem evalNonMeasured_of_notMeasured {C : Type} (t : Task C) (h : notMeasured t = true) :
    evalNonMeasured t = .ok [if t.op.isConstant then t.op.coeffSum else 0] := by
  unfold evalNonMeasured
  by_cases hc : t.op.isConstant = true
  · simp [hc]
  · simp only [notMeasured, hc, Bool.false_or, beq_iff_eq] at h
    simp [hc, h]

/-! ### remembered indices -/

theorem splitRec_lookup {C : Type} (tasks : List (Task C)) :
    (splitRec tasks).idxMeasure.map (fun i => tasks[i]?) = (splitRec tasks).toMeasure.map some ∧
    (splitRec tasks).idxNot.map (fun i => tasks[i]?) = (splitRec tasks).notToMeasure.map some := by
  induction tasks with
  | nil => simp [splitRec]
  | cons t ts ih =>
    by_cases h : notMeasured t <;>
      simp [splitRec, h, List.map_map, Function.comp_def, ih.1, ih.2]

theorem splitRec_mem {C : Type} (tasks : List (Task C)) (i : Nat) :
    (i ∈ (splitRec tasks).idxMeasure ↔ ∃ h : i < tasks.length, notMeasured tasks[i] = false) ∧
    (i ∈ (splitRec tasks).idxNot ↔ ∃ h : i < tasks.length, notMeasured tasks[i] = true) := by
  induction tasks generalizing i with
  | nil => simp [splitRec]
  | cons t ts ih =>
    cases i with
    | zero => by_cases h : notMeasured t <;> simp [splitRec, h]
    | succ j =>
      have := ih j
      by_cases h : notMeasured t <;> simp [splitRec, h, this]

theorem splitRec_sorted {C : Type} (tasks : List (Task C)) :
    (splitRec tasks).idxMeasure.Pairwise (· < ·) ∧ (splitRec tasks).idxNot.Pairwise (· < ·) := by
  induction tasks with
  | nil => simp [splitRec]
  | cons t ts ih =>
    have hmap : ∀ l : List Nat, l.Pairwise (· < ·) → (l.map (· + 1)).Pairwise (· < ·) := by
      intro l hl
      rw [List.pairwise_map]
      exact hl.imp (by intro a b hab; omega)
    by_cases h : notMeasured t <;>
      simp [splitRec, h, hmap _ ih.1, hmap _ ih.2]

/-! ### exact expectation: the double sum -/

theorem sumTo_succ {R : Type} [AddCommMonoid R] (n : Nat) (f : Nat → R) :
    sumTo (n + 1) f = sumTo n f + f n := by
  simp [sumTo, List.range_succ, List.foldl_append]

theorem sumTo_eq_sum {R : Type} [AddCommMonoid R] (n : Nat) (f : Nat → R) :
    sumTo n f = ∑ k ∈ Finset.range n, f k := by
  induction n with
  | zero => simp [sumTo]
  | succ n ih => rw [sumTo_succ, ih, Finset.sum_range_succ]

/-- `dot(conj ψ, A ψ)` is the quadratic form Σᵢ Σⱼ conj(ψᵢ) Aᵢⱼ ψⱼ -/
theorem expectation_eq {K : Type} [CommRing K] [Conj K] (d : Nat) (A : Nat → Nat → K) (ψ : Nat → K) :
    expectation d A ψ = ∑ i ∈ Finset.range d, ∑ j ∈ Finset.range d, conj (ψ i) * A i j * ψ j := by
  unfold expectation
  rw [sumTo_eq_sum]
  apply Finset.sum_congr rfl
  intro i _
  rw [sumTo_eq_sum, Finset.mul_sum]
  apply Finset.sum_congr rfl
  intro j _
  ring

theorem filter_rank_get {C : Type} (tasks : List (Task C)) (i : Nat) (hi : i < tasks.length)
    (hm : isMeasured tasks[i] = true) : (tasks.filter isMeasured)[rank tasks i]? = some tasks[i] := by
  induction tasks generalizing i with
  | nil => simp at hi
  | cons t ts ih =>
    cases i with
    | zero =>
      simp only [List.getElem_cons_zero] at hm
      simp [rank, hm]
    | succ j =>
      simp only [List.getElem_cons_succ] at hm
      have := ih j (by simpa using hi) hm
      rw [rank_succ]
      by_cases h : isMeasured t
      · simp only [h, if_true, List.filter_cons, List.getElem_cons_succ]
        rw [Nat.add_comm, List.getElem?_cons_succ]; exact this
      · simp only [h, if_false, Bool.false_eq_true, List.filter_cons, List.getElem_cons_succ, Nat.zero_add]
        exact this

theorem rank_surj {C : Type} (tasks : List (Task C)) (k : Nat) (hk : k < (tasks.filter isMeasured).length) :
    ∃ i, ∃ hi : i < tasks.length, isMeasured tasks[i] = true ∧ rank tasks i = k := by
  induction tasks generalizing k with
  | nil => simp at hk
  | cons t ts ih =>
    by_cases h : isMeasured t
    · cases k with
      | zero => exact ⟨0, by simp, by simpa using h, rank_zero _⟩
      | succ k' =>
        simp only [List.filter_cons, h, if_true, List.length_cons] at hk
        obtain ⟨j, hj, hm, hr⟩ := ih k' (by omega)
        refine ⟨j + 1, by simp; omega, by simpa using hm, ?_⟩
        rw [rank_succ, hr]; simp [h]; omega
    · simp only [List.filter_cons, h, if_false, Bool.false_eq_true] at hk
      obtain ⟨j, hj, hm, hr⟩ := ih k hk
      refine ⟨j + 1, by simp; omega, by simpa using hm, ?_⟩
      rw [rank_succ, hr]; simp [h]

/-- converse unfolding: when every stage succeeds, so does the whole estimation -/
theorem est_eq_ok {C : Type} (rb : List C → List (Option Int) → Except Err (List Shots))
    (tasks : List (Task C)) (nv mv : List Vals) (meas : List Shots)
    (hnv : mapE evalNonMeasured (tasks.filter notMeasured) = .ok nv)
    (hrb : tasks.filter isMeasured ≠ [] →
        rb ((tasks.filter isMeasured).map (fun t => t.circuit)) ((tasks.filter isMeasured).map (fun t => t.shots)) = .ok meas)
    (hmv : tasks.filter isMeasured ≠ [] →
        mapE (fun p : Op × Shots => measuredValue p.1 p.2) (((tasks.filter isMeasured).map (fun t => t.op)).zip meas) = .ok mv) :
    ∃ r, estimateByAveraging rb tasks = .ok r := by
  unfold estimateByAveraging
  simp only [splitTasks_eq_rec, (splitRec_lists tasks).1, (splitRec_lists tasks).2, hnv]
  by_cases hM : (tasks.filter isMeasured).isEmpty = true
  · simp [hM]
  · have hM' : tasks.filter isMeasured ≠ [] := fun he => hM (List.isEmpty_iff.mpr he)
    simp [hM, hrb hM', hmv hM']

/-! ### specification vocabulary used by the property theorems -/

/-- contract of a circuit runner (CircuitRunner protocol + the law of the sampler):
    one measurement set per submitted circuit, and every returned bitstring is an outcome of
    non-zero probability (`supp c s`) of its circuit (`rng.choice` never draws a probability-0 item). -/
structure RunnerLaw {C : Type} (rb : List C → List (Option Int) → Except Err (List Shots)) (supp : C → Bits → Prop) : Prop where
  onePer : ∀ cs ns meas, rb cs ns = .ok meas → meas.length = cs.length
  support : ∀ cs ns meas, rb cs ns = .ok meas → ∀ k c, cs[k]? = some c → ∀ s ∈ meas.getD k [], supp c s

/-- the batch handed to the runner: circuits and shot counts of the measured tasks, in task order -/
def submittedCircuits {C : Type} (tasks : List (Task C)) : List C := (tasks.filter isMeasured).map (fun t => t.circuit)
def submittedShots {C : Type} (tasks : List (Task C)) : List (Option Int) := (tasks.filter isMeasured).map (fun t => t.shots)

/-! ### the runner the driver executes obeys the runner law -/

theorem runEach_spec {C : Type} (run : Nat → C → Nat → Except Err Shots) (k0 : Nat) (l : List (C × Option Int))
    (meas : List Shots) (h : runEach run k0 l = .ok meas) :
    meas.length = l.length ∧
    ∀ k (hk : k < l.length), run (k0 + k) l[k].1 ((l[k].2.getD 0).toNat) = .ok (meas.getD k []) := by
  induction l generalizing k0 meas with
  | nil => simp [runEach] at h; subst h; simp
  | cons p rest ih =>
    obtain ⟨c, n⟩ := p
    simp only [runEach] at h
    cases hr : run k0 c ((n.getD 0).toNat) with
    | error e => rw [hr] at h; simp at h
    | ok s =>
      rw [hr] at h
      simp only at h
      cases hrest : runEach run (k0 + 1) rest with
      | error e => rw [hrest] at h; simp at h
      | ok ss =>
        rw [hrest] at h
        simp only [Except.ok.injEq] at h
        subst h
        obtain ⟨hl, hget⟩ := ih (k0 + 1) ss hrest
        refine ⟨by simp [hl], fun k hk => ?_⟩
        cases k with
        | zero => simpa using hr
        | succ j =>
          have := hget j (by simpa using hk)
          simp only [List.getElem_cons_succ, List.getD_cons_succ]
          rw [show k0 + (j + 1) = k0 + 1 + j by omega]
          exact this

/-- outcomes of non-zero probability of a driver circuit: if every qubit is definite, only the
    prepared bitstring -/
def simSupp (c : Circ) (s : Bits) : Prop := ∀ b, definiteBits c = some b → s = b

theorem baseRunBatch_law (recorded : List Shots) : RunnerLaw (baseRunBatch (simRun recorded)) simSupp := by
  constructor
  · intro cs ns meas h
    unfold baseRunBatch at h
    split at h
    · simp at h
    · rename_i hlen
      cases hv : validateShots ns with
      | error e => rw [hv] at h; simp at h
      | ok u =>
        rw [hv] at h
        have := (runEach_spec _ _ _ _ h).1
        rw [this, List.length_zip]
        have : ns.length = cs.length := by simpa using hlen
        omega
  · intro cs ns meas h k c hc s hs b hb
    unfold baseRunBatch at h
    split at h
    · simp at h
    · rename_i hlen
      have hlen' : ns.length = cs.length := by simpa using hlen
      cases hv : validateShots ns with
      | error e => rw [hv] at h; simp at h
      | ok u =>
        rw [hv] at h
        have hk : k < cs.length := by
          by_contra hn
          rw [List.getElem?_eq_none (by omega)] at hc; simp at hc
        have hkz : k < (cs.zip ns).length := by rw [List.length_zip]; omega
        have hrun := (runEach_spec _ _ _ _ h).2 k hkz
        have hck : cs[k] = c := by
          rw [List.getElem?_eq_getElem hk] at hc; simpa using hc
        simp only [List.getElem_zip, Nat.zero_add, hck] at hrun
        unfold simRun at hrun
        split at hrun
        · simp at hrun
        · rw [hb] at hrun
          simp only [Except.ok.injEq] at hrun
          rw [← hrun] at hs
          exact List.eq_of_mem_replicate hs

/-! ### the diagonal of an Ising operator's matrix -/

/-- the bitstring of basis index `x` on `n` qubits, qubit 0 first (= most significant bit) -/
def bitsOf (n x : Nat) : Bits := (List.range n).map (fun q => bitAt n q x)

theorem bitsOf_getD (n x q : Nat) (hq : q < n) : (bitsOf n x).getD q 0 = bitAt n q x := by
  simp [bitsOf, List.getD_eq_getElem?_getD, List.getElem?_map, List.getElem?_range hq]

theorem bitAt_le_one (n q x : Nat) : bitAt n q x ≤ 1 := by
  unfold bitAt; omega

theorem foldl_add_eq_sum {K : Type} [AddCommMonoid K] {α : Type} (f : α → K) (l : List α) (a : K) :
    l.foldl (fun acc t => acc + f t) a = a + (l.map f).sum := by
  induction l generalizing a with
  | nil => simp
  | cons x xs ih => simp only [List.foldl_cons, ih, List.map_cons, List.sum_cons, add_assoc]

theorem foldl_mul_eq_prod {K : Type} [CommMonoid K] {α : Type} (f : α → K) (l : List α) (a : K) :
    l.foldl (fun acc t => acc * f t) a = a * (l.map f).prod := by
  induction l generalizing a with
  | nil => simp
  | cons x xs ih => simp only [List.foldl_cons, ih, List.map_cons, List.prod_cons, mul_assoc]

theorem lookupOp_none (ops : List (Nat × Pauli)) (q : Nat) (h : q ∉ ops.map (fun p => p.1)) :
    lookupOp ops q = none := by
  unfold lookupOp
  rw [Option.map_eq_none_iff, List.find?_eq_none]
  intro p hp
  simp only [beq_iff_eq]
  intro he
  exact h (List.mem_map.mpr ⟨p, hp, he⟩)

theorem lookupOp_ising (ops : List (Nat × Pauli)) (q : Nat) (hz : ops.all (fun p => p.2 == Pauli.Z) = true)
    (h : q ∈ ops.map (fun p => p.1)) : lookupOp ops q = some Pauli.Z := by
  unfold lookupOp
  obtain ⟨p, hp, hpq⟩ := List.mem_map.mp h
  cases hf : ops.find? (fun p => p.1 == q) with
  | none =>
    rw [List.find?_eq_none] at hf
    have := hf p hp
    simp [hpq] at this
  | some p' =>
    have hmem := List.mem_of_find?_eq_some hf
    have := (List.all_eq_true.mp hz) p' hmem
    simp only [beq_iff_eq] at this
    simp [this]

/-- diagonal entry of an Ising term: coefficient × eigenvalue of its Z-string at the index's bits -/
theorem termEntry_diag {K : Type} [CommRing K] (iu : K) (ofGQ : GQ → K) (t : Term) (n x : Nat)
    (hI : t.isIsing = true) (hnd : t.qubits.Nodup) (hw : ∀ q ∈ t.qubits, q < n) :
    termEntry iu ofGQ t n x x = ofGQ t.coeff * ((zEigenvalue t.qubits (bitsOf n x) : Int) : K) := by
  unfold termEntry
  rw [foldl_mul_eq_prod (fun q => qubitFactor iu t.ops n x x q)]
  congr 1
  -- each factor: 1 − 2·bit on the term's qubits, 1 elsewhere
  have hfac : ∀ q, qubitFactor iu t.ops n x x q
      = if q ∈ t.qubits then ((1 - 2 * ((bitAt n q x : Nat) : Int) : Int) : K) else 1 := by
    intro q
    unfold qubitFactor
    by_cases hq : q ∈ t.qubits
    · rw [lookupOp_ising t.ops q hI hq]
      have hb := bitAt_le_one n q x
      have : bitAt n q x = 0 ∨ bitAt n q x = 1 := by omega
      rcases this with h0 | h0 <;> simp [hq, h0, pauliEntry]
    · rw [lookupOp_none t.ops q hq]; simp [hq]
  simp only [hfac]
  have hr : (List.range n).toFinset = Finset.range n := by ext q; simp
  rw [← List.prod_toFinset _ (List.nodup_range), hr]
  have hmem : ∀ q, (q ∈ t.qubits) = (q ∈ t.qubits.toFinset) := fun q => by simp
  simp only [hmem]
  rw [Finset.prod_ite_mem]
  have hsub : Finset.range n ∩ t.qubits.toFinset = t.qubits.toFinset := by
    apply Finset.inter_eq_right.mpr
    intro q hq
    simp only [List.mem_toFinset] at hq
    simpa using hw q hq
  rw [hsub, List.prod_toFinset _ hnd]
  unfold zEigenvalue
  rw [Int.cast_list_prod, List.map_map]
  congr 1
  apply List.map_congr_left
  intro q hq
  simp only [Function.comp, bitsOf_getD n x q (hw q hq)]

/-- the quadratic form of a basis state with an Ising operator: Σ coefficient × eigenvalue -/
theorem expectation_basis_ising {K : Type} [CommRing K] [Conj K] (h1 : conj (1 : K) = 1) (h0 : conj (0 : K) = 0)
    (iu : K) (ofGQ : GQ → K) (op : Op) (n x : Nat) (hx : x < 2 ^ n)
    (hI : op.isIsing = true) (hnd : ∀ t ∈ op, t.qubits.Nodup) (hw : ∀ t ∈ op, ∀ q ∈ t.qubits, q < n) :
    expectation (2 ^ n) (opMatrix iu ofGQ op n) (fun j => if j = x then 1 else 0) =
      (op.map (fun t => ofGQ t.coeff * ((zEigenvalue t.qubits (bitsOf n x) : Int) : K))).sum := by
  rw [expectation_eq]
  have hinner : ∀ a, (∑ b ∈ Finset.range (2 ^ n),
      conj (if a = x then (1 : K) else 0) * opMatrix iu ofGQ op n a b * (if b = x then 1 else 0))
      = conj (if a = x then (1 : K) else 0) * opMatrix iu ofGQ op n a x := by
    intro a
    simp only [mul_ite, mul_one, mul_zero]
    rw [Finset.sum_ite_eq' (Finset.range (2 ^ n)) x]
    simp [hx]
  simp only [hinner]
  have houter : ∀ a, conj (if a = x then (1 : K) else 0) * opMatrix iu ofGQ op n a x
      = if a = x then opMatrix iu ofGQ op n a x else 0 := by
    intro a; by_cases h : a = x <;> simp [h, h1, h0]
  simp only [houter]
  rw [Finset.sum_ite_eq' (Finset.range (2 ^ n)) x]
  simp only [Finset.mem_range, hx, if_true]
  unfold opMatrix
  rw [foldl_add_eq_sum (fun t => termEntry iu ofGQ t n x x), zero_add]
  congr 1
  apply List.map_congr_left
  intro t ht
  exact termEntry_diag iu ofGQ t n x ((List.all_eq_true.mp hI) t ht) (hnd t ht) (hw t ht)

theorem foldl_max_le (l : List Nat) (a n : Nat) (ha : a ≤ n) (h : ∀ q ∈ l, q < n) :
    l.foldl (fun acc q => max acc (q + 1)) a ≤ n := by
  induction l generalizing a with
  | nil => simpa
  | cons q qs ih =>
    simp only [List.foldl_cons]
    apply ih
    · have := h q (by simp); omega
    · intro q' hq'; exact h q' (by simp [hq'])

theorem nQubits_le (o : Op) (n : Nat) (h : ∀ t ∈ o, ∀ q ∈ t.qubits, q < n) : o.nQubits ≤ n := by
  unfold Op.nQubits
  split
  · omega
  · apply foldl_max_le _ _ _ (Nat.zero_le n)
    intro q hq
    obtain ⟨t, ht, hqt⟩ := List.mem_flatMap.mp hq
    exact h t ht q hqt

/-- the list of tasks every accepted call returns: task `i` with its circuit bound by `maps'[i]` -/
theorem evaluateCircuits_ok {C M : Type} (bind : C → M → C) (tasks : List (Task C)) (maps' : List M)
    (i : Nat) (hi : i < tasks.length) (hi' : i < maps'.length) :
    ((tasks.zip maps').map (fun p => ({ op := p.1.op, circuit := bind p.1.circuit p.2, shots := p.1.shots } : Task C)))[i]? =
      some { op := tasks[i].op, circuit := bind tasks[i].circuit maps'[i], shots := tasks[i].shots } := by
  simp [hi, hi']

end OQ.C15
