/- helper definitions / lemmas for the translation tie of circuits/_serde.py (T8): the instantiation of the translated definitions'
   externals by the model's parameters, the encoding of the model's dictionaries as JSON values, lookup / reading lemmas
   (not property theorems) -/
import OQ.Lemmas.C05_TranslatedSerdeDefs
import OQ.Lemmas.C05
namespace OQ.C05
namespace TS
open OQ.Generated OQ.PyT8

variable {P E : Type}

theorem sN_inj {a b : Name} : sN a = sN b ↔ a = b := by
  constructor
  · intro h
    have := congrArg String.toList h
    simpa using this
  · intro h; rw [h]

@[simp] theorem embE_ok {α : Type} (a : α) : embE (.ok a : Except OQ.C05.Err α) = .ok a := rfl
@[simp] theorem embE_error {α : Type} (e : OQ.C05.Err) : embE (.error e : Except OQ.C05.Err α) = .error (embErr e) := rfl

theorem embErr_inj {a b : OQ.C05.Err} (h : embErr a = embErr b) : a = b := by
  cases a <;> cases b <;> simp_all [embErr]

theorem embE_inj {α : Type} {a b : Except OQ.C05.Err α} (h : embE a = embE b) : a = b := by
  cases a <;> cases b <;> simp_all [embE]
  exact embErr_inj h


/-! ### the fields of the instantiation, as rewrite rules (so that `X` is never unfolded) -/

@[simp] theorem X_format_exponent (env : Env) (C : Codec P E) (e : E) : (X env C).format_exponent e = sN (C.expoText e) := rfl
@[simp] theorem X_serialize_expr (env : Env) (C : Codec P E) (p : P) : (X env C).serialize_expr p = sN (C.ser p) := rfl
@[simp] theorem X_serialize_symbol (env : Env) (C : Codec P E) (s : Name) : (X env C).serialize_symbol s = sN s := rfl
@[simp] theorem X_deserialize_expr (env : Env) (C : Codec P E) (t : String) (names : List String) : (X env C).deserialize_expr t names = embE (deserializeExpr C (names.map String.toList) t.toList) := rfl
@[simp] theorem X_matrix_to_json (env : Env) (C : Codec P E) (m : List (List P)) : (X env C).matrix_to_json m = m.map (fun row => row.map (fun p => sN (C.ser p))) := rfl
@[simp] theorem X_matrix_from_json (env : Env) (C : Codec P E) (rows : List (List String)) (names : List String) : (X env C).matrix_from_json rows names = embE (mapE (fun row => mapE (fun (t : String) => deserializeExpr C (names.map String.toList) t.toList) row) rows) := rfl
@[simp] theorem X_Symbol (env : Env) (C : Codec P E) (s : String) : (X env C).Symbol s = s.toList := rfl
@[simp] theorem X_def_gate_name (env : Env) (C : Codec P E) (d : CustomDef P) : (X env C).def_gate_name d = sN d.gateName := rfl
@[simp] theorem X_def_matrix (env : Env) (C : Codec P E) (d : CustomDef P) : (X env C).def_matrix d = d.matrix := rfl
@[simp] theorem X_def_params_ordering (env : Env) (C : Codec P E) (d : CustomDef P) : (X env C).def_params_ordering d = d.ordering := rfl
@[simp] theorem X_call_gate_def (env : Env) (C : Codec P E) (d : CustomDef P) (ps : List P) : (X env C).call_gate_def d ps = (.MatrixFactoryGate (sN d.gateName) (some d) ps (Nat.log2 d.matrix.length) false : TGate P E) := rfl
@[simp] theorem X_circuit_n_qubits (env : Env) (C : Codec P E) (c : TCirc P E) : (X env C).circuit_n_qubits c = c.nQubits := rfl
@[simp] theorem X_circuit_operations (env : Env) (C : Codec P E) (c : TCirc P E) : (X env C).circuit_operations c = c.ops := rfl
@[simp] theorem X_collect_custom_gate_definitions (env : Env) (C : Codec P E) (c : TCirc P E) : (X env C).collect_custom_gate_definitions c = embE (collectDefs C (c.ops.map projOp)) := rfl
@[simp] theorem X_CustomGateDefinition (env : Env) (C : Codec P E) (nm : String) (m : List (List P)) (ord : List Name) : (X env C).CustomGateDefinition nm m ord = if shapeOk m then .ok ⟨nm.toList, m, ord⟩ else .error .ValueError := rfl
@[simp] theorem X_get_free_symbols (env : Env) (C : Codec P E) (ps : List P) :
    (X env C).gx.get_free_symbols ps = sortDedup (ps.flatMap C.free) := rfl

@[simp] theorem X_builtin_gate_by_name (env : Env) (C : Codec P E) (n : String) :
    (X env C).builtin_gates_builtin_gate_by_name n = (match lookupGlobal env n.toList with
      | .missing => .error .KeyError
      | r => .ok (some r)) := rfl
@[simp] theorem X_call_gate_ref_gate (env : Env) (C : Codec P E) (gi : GateInfo) (ps : List P) :
    (X env C).call_gate_ref (.gate gi) ps = if gi.prototype then .ok (.MatrixFactoryGate (sN gi.gateName) none ps gi.numQubits gi.hermitian)
      else .error .NotAGate := rfl
@[simp] theorem X_call_gate_ref_other (env : Env) (C : Codec P E) (ps : List P) :
    (X env C).call_gate_ref .other ps = .error .NotAGate := rfl
@[simp] theorem X_gate_ref_as_gate_gate (env : Env) (C : Codec P E) (gi : GateInfo) :
    (X env C).gate_ref_as_gate (.gate gi) = if gi.prototype then .error .NotAGate
      else .ok (.MatrixFactoryGate (sN gi.gateName) none [] gi.numQubits gi.hermitian) := rfl
@[simp] theorem X_gate_ref_as_gate_other (env : Env) (C : Codec P E) :
    (X env C).gate_ref_as_gate .other = .error .NotAGate := rfl
@[simp] theorem X_Circuit (env : Env) (C : Codec P E) (ops : List (TOp P E)) (n : Int) :
    (X env C).Circuit ops n = embE (match mkCircuit (ops.map projOp) n with
      | .ok c => .ok ⟨c.nQubits, ops⟩
      | .error e => .error e) := rfl

/-- the module constants of `_gates.py` (regenerated) are the markers of the model's environment -/
structure EnvMatches (env : Env) : Prop where
  control : TranslatedC05.CONTROLLED_GATE_NAME = sN env.control
  dagger : TranslatedC05.DAGGER_GATE_NAME = sN env.dagger
  exponential : TranslatedC05.EXPONENTIAL_GATE_NAME = sN env.exponential
  power : TranslatedC05.POWER_GATE_SYMBOL = sN env.power

/-! ### the model's dictionaries as JSON values (key order = the order `to_dict` writes) -/

def encStrs (l : List Name) : JV E := .arr (l.map (fun n => .str (sN n)))

def optEntry (k : String) (l : List Name) : List (String × JV E) := if l.isEmpty then [] else [(k, encStrs l)]

def nameEntry : Option Name → List (String × JV E)
  | none => []
  | some n => [("name", .str (sN n))]

def ncEntry : Option Int → List (String × JV E)
  | none => []
  | some k => [("num_control_qubits", .int k)]

def exEntry : Option E → List (String × JV E)
  | none => []
  | some e => [("exponent", .num e)]

def encG : GDict E → JV E
  | .leaf name ps fs nc ex =>
    .obj (nameEntry name ++ optEntry "params" ps ++ optEntry "free_symbols" fs ++ ncEntry nc ++ exEntry ex)
  | .wrap name ps fs inner nc ex =>
    .obj (nameEntry name ++ optEntry "params" ps ++ optEntry "free_symbols" fs ++ [("wrapped_gate", encG inner)]
      ++ ncEntry nc ++ exEntry ex)

def encOp (o : OpDict E) : JV E :=
  .obj [("type", .str "gate_operation"), ("gate", encG o.gate), ("qubit_indices", .arr (o.qubits.map .int))]

def encDef (d : DefDict) : JV E :=
  .obj [("gate_name", .str (sN d.gateName)),
        ("matrix", .arr (d.matrix.map (fun row => .arr (row.map (fun t => .str (sN t)))))),
        ("params_ordering", encStrs d.ordering)]

def encC (d : CDict E) : JV E :=
  .obj ((match d.nQubits with | none => [] | some n => [("n_qubits", .int n)])
    ++ (if d.ops.isEmpty then [] else [("operations", .arr (d.ops.map encOp))])
    ++ (if d.defs.isEmpty then [] else [("custom_gate_definitions", .arr (d.defs.map encDef))]))

def encCs (ds : List (CDict E)) : JV E := .obj [("circuits", .arr (ds.map encC))]

/-- nesting depth of a gate dictionary (the recursion depth of `_gate_from_dict` on it) -/
def gdepth : GDict E → Nat
  | .leaf .. => 0
  | .wrap _ _ _ inner _ _ => gdepth inner + 1

/-! ### small facts -/

theorem mapE_ok {α β ε : Type} (f : α → Except ε β) (g : α → β) :
    ∀ l : List α, (∀ a ∈ l, f a = .ok (g a)) → mapE f l = .ok (l.map g) := by
  intro l
  induction l with
  | nil => intro _; rfl
  | cons a as ih =>
    intro h
    simp [mapE, h a (by simp), ih (fun y hy => h y (by simp [hy]))]

theorem mapM_eq_mapE {α β ε : Type} (f : α → Except ε β) (l : List α) : l.mapM f = mapE f l := by
  induction l with
  | nil => rfl
  | cons a as ih =>
    simp only [List.mapM_cons, mapE, ih, bind, Except.bind, pure, Except.pure]
    cases f a with
    | error e => rfl
    | ok b => cases mapE f as <;> rfl

theorem mapE_congr {α β ε : Type} (f g : α → Except ε β) (l : List α) (h : ∀ a ∈ l, f a = g a) : mapE f l = mapE g l := by
  induction l with
  | nil => rfl
  | cons a as ih => simp [mapE, h a (by simp), ih (fun y hy => h y (by simp [hy]))]

theorem embE_mapE {α β : Type} (f : α → Except OQ.C05.Err β) (l : List α) :
    embE (mapE f l) = mapE (fun a => embE (f a)) l := by
  induction l with
  | nil => rfl
  | cons a as ih =>
    simp only [mapE]
    cases hf : f a with
    | error e => simp
    | ok b =>
      simp only [embE_ok]
      rw [← ih]
      cases mapE f as <;> simp

theorem mapE_map {α β γ ε : Type} (f : β → Except ε γ) (g : α → β) (l : List α) :
    mapE f (l.map g) = mapE (fun a => f (g a)) l := by
  induction l with
  | nil => rfl
  | cons a as ih => simp [mapE, ih]

@[simp] theorem asStrs_encStrs (l : List Name) : asStrs (encStrs l : JV E) = .ok (l.map sN) := by
  simp only [asStrs, encStrs, asList, Except.bind, mapE_map]
  exact mapE_ok _ _ l (fun a _ => rfl)

@[simp] theorem asInts_ints (l : List Int) : asInts (.arr (l.map .int) : JV E) = .ok l := by
  simp only [asInts, asList, Except.bind, mapE_map]
  have := mapE_ok (fun (a : Int) => asInt (JV.int a : JV E)) id l (fun a _ => rfl)
  simpa using this

theorem lookup_append (k : String) (a b : List (String × JV E)) :
    lookup k (a ++ b) = match lookup k a with | some v => some v | none => lookup k b := by
  induction a with
  | nil => rfl
  | cons p as ih =>
    obtain ⟨k', v⟩ := p
    by_cases h : k' = k <;> simp [lookup, h, ih]

theorem lookup_optEntry (k k' : String) (l : List Name) :
    lookup k (optEntry k' l : List (String × JV E)) = if k' = k ∧ l ≠ [] then some (encStrs l) else none := by
  cases l <;> by_cases h : k' = k <;> simp [optEntry, lookup, h]

/-! ### `sorted(map(str, gate.free_symbols))` does not reorder what `get_free_symbols` returns -/


theorem ltChars_eq (a b : List Char) : ltChars a b = nameLt a b := by
  induction a generalizing b with
  | nil => cases b <;> rfl
  | cons x xs ih => cases b with
    | nil => rfl
    | cons y ys => simp [ltChars, nameLt, ih]

theorem nameLt_total : ∀ (a b : Name), a ≠ b → nameLt a b = false → nameLt b a = true := by
  intro a
  induction a with
  | nil => intro b hne h; cases b with
    | nil => exact absurd rfl hne
    | cons y ys => simp [nameLt] at h
  | cons x xs ih =>
    intro b hne h
    cases b with
    | nil => rfl
    | cons y ys =>
      simp only [nameLt, Bool.or_eq_false_iff, decide_eq_false_iff_not, Bool.and_eq_false_imp, beq_iff_eq] at h
      simp only [nameLt, Bool.or_eq_true, decide_eq_true_eq, Bool.and_eq_true, beq_iff_eq]
      by_cases hxy : x = y
      · subst hxy
        right
        refine ⟨rfl, ih ys (fun hh => hne (by rw [hh])) (h.2 rfl)⟩
      · left
        have h1 : ¬ x.val < y.val := h.1
        have h2 : x.val ≠ y.val := fun hh => hxy (Char.ext hh)
        have h3 : x.val.toNat ≠ y.val.toNat := fun h => h2 (UInt32.toNat_inj.mp h)
        rw [UInt32.lt_iff_toNat_lt] at *
        omega

/-- strictly increasing (adjacent elements) -/
def Chain : List Name → Prop
  | [] => True
  | [_] => True
  | a :: b :: rest => nameLt a b = true ∧ Chain (b :: rest)

theorem chain_tail {a : Name} {l : List Name} (h : Chain (a :: l)) : Chain l := by
  cases l with
  | nil => trivial
  | cons b r => exact h.2

theorem insertName_head (x y : Name) (hyx : nameLt y x = true) :
    ∀ ys : List Name, (∀ z, ys.head? = some z → nameLt y z = true) → ∀ z, (insertName x ys).head? = some z → nameLt y z = true := by
  intro ys hys z hz
  cases ys with
  | nil => simp [insertName] at hz; subst hz; exact hyx
  | cons w ws =>
    simp only [insertName] at hz
    split at hz
    · exact hys z hz
    · split at hz
      · simp at hz; subst hz; exact hyx
      · simp at hz; subst hz; exact hys _ rfl

theorem insertName_chain (x : Name) : ∀ l : List Name, Chain l → Chain (insertName x l) := by
  intro l
  induction l with
  | nil => intro _; trivial
  | cons y ys ih =>
    intro h
    simp only [insertName]
    split
    · exact h
    · rename_i hxy
      split
      · rename_i hlt; exact ⟨hlt, h⟩
      · rename_i hlt
        have hyx : nameLt y x = true := nameLt_total x y hxy (by simpa using hlt)
        have hc := ih (chain_tail h)
        have hh := insertName_head x y hyx ys (by
          intro z hz
          cases ys with
          | nil => simp at hz
          | cons w ws => simp at hz; subst hz; exact h.1)
        cases hins : insertName x ys with
        | nil => trivial
        | cons w ws =>
          rw [hins] at hc hh
          exact ⟨hh w rfl, hc⟩

theorem sortDedup_chain (l : List Name) : Chain (sortDedup l) := by
  induction l with
  | nil => trivial
  | cons a as ih => exact insertName_chain a _ ih

theorem sortedStr_of_chain : ∀ l : List Name, Chain l → sortedStr (l.map sN) = l.map sN := by
  intro l
  induction l with
  | nil => intro _; rfl
  | cons a as ih =>
    intro h
    have := ih (chain_tail h)
    simp only [List.map_cons, sortedStr, List.foldr_cons] at this ⊢
    rw [this]
    cases as with
    | nil => rfl
    | cons b r =>
      simp only [List.map_cons, insertStr, String.toList_ofList, ltChars_eq, h.1, if_true]

theorem params_proj (g : TGate P E) : TranslatedGates.Gate.params g = (proj g).params := by
  induction g with
  | MatrixFactoryGate nm f ps nq h => cases f <;> rfl
  | ControlledGate g k ih => simpa [TranslatedGates.Gate.params, proj, Gate.params] using ih
  | Dagger g ih => simpa [TranslatedGates.Gate.params, proj, Gate.params] using ih
  | Exponential g ih => simpa [TranslatedGates.Gate.params, proj, Gate.params] using ih
  | Power g e ih => simpa [TranslatedGates.Gate.params, proj, Gate.params] using ih

theorem free_symbols_proj (env : Env) (C : Codec P E) (g : TGate P E) :
    TranslatedGates.Gate.free_symbols (X env C).gx g = Gate.free C (proj g) := by
  cases g with
  | MatrixFactoryGate nm f ps nq h => cases f <;> rfl
  | _ => simp [TranslatedGates.Gate.free_symbols, Gate.free, params_proj, TranslatedGates.Gate.params, proj, Gate.params]

theorem sN_cons (c : Char) (l : Name) : sN (c :: l) = String.ofList [c] ++ sN l := by
  rw [← String.ofList_append]; rfl

theorem gate_name_proj (env : Env) (hE : EnvMatches env) (C : Codec P E) (g : TGate P E) (hw : WF g) :
    TranslatedC05.gate_name (X env C) g = sN (Gate.name env C (proj g)) := by
  induction g with
  | MatrixFactoryGate nm f ps nq h =>
    cases f with
    | none => simp [TranslatedC05.gate_name, proj, Gate.name]
    | some d => simpa [TranslatedC05.gate_name, proj, Gate.name] using (show nm = sN d.gateName from hw)
  | ControlledGate g k ih => simp [TranslatedC05.gate_name, proj, Gate.name, hE.control]
  | Exponential g ih => simp [TranslatedC05.gate_name, proj, Gate.name, hE.exponential]
  | Dagger g ih =>
    simp only [TranslatedC05.gate_name, proj, Gate.name, ih hw, hE.dagger, sN, String.ofList_append]
    rw [show ('_' :: env.dagger) = ['_'] ++ env.dagger from rfl, String.ofList_append, String.append_assoc]
  | Power g e ih =>
    simp only [TranslatedC05.gate_name, proj, Gate.name, ih hw, hE.power, sN, String.ofList_append, X_format_exponent]

theorem to_dict_gate_eq (env : Env) (hE : EnvMatches env) (C : Codec P E) (g : TGate P E) (hw : WF g) :
    TranslatedC05.to_dict_gate (X env C) g = .ok (encG (gateToDict env C (proj g))) := by
  induction g with
  | MatrixFactoryGate nm f ps nq h =>
    have hfree : ∀ (nm' : String) (f' : Fac P), TranslatedGates.Gate.free_symbols (X env C).gx
        (.MatrixFactoryGate nm' f' ps nq h : TGate P E) = sortDedup (ps.flatMap C.free) := fun _ _ => rfl
    have hs : sortedStr ((sortDedup (ps.flatMap C.free)).map sN) = (sortDedup (ps.flatMap C.free)).map sN :=
      sortedStr_of_chain _ (sortDedup_chain _)
    have hm : TranslatedC05.map_eager (fun v1 => Except.ok ((X env C).serialize_expr v1)) ps
        = .ok (ps.map (fun p => sN (C.ser p))) := mapE_ok _ _ ps (fun a _ => rfl)
    have hfun : (fun s => (X env C).serialize_symbol s) = sN := rfl
    have hfun' : (X env C).serialize_symbol = sN := rfl
    cases f with
    | none =>
      simp only [TranslatedC05.to_dict_gate, hfree, hm, proj, gateToDict, Gate.free, Gate.params, encG, hfun, hs]
      cases ps with
      | nil => simp [Except.bind, sortDedup, nameEntry, optEntry, ncEntry, exEntry]
      | cons p ps' =>
        cases hfs : sortDedup ((p :: ps').flatMap C.free) <;>
          simp [Except.bind, nameEntry, optEntry, ncEntry, exEntry, encStrs, Function.comp_def]
    | some d =>
      have hw' : nm = sN d.gateName := hw
      subst hw'
      simp only [TranslatedC05.to_dict_gate, hfree, hm, proj, gateToDict, Gate.free, Gate.params, encG, hfun, hs]
      cases ps with
      | nil => simp [Except.bind, sortDedup, nameEntry, optEntry, ncEntry, exEntry]
      | cons p ps' =>
        cases hfs : sortDedup ((p :: ps').flatMap C.free) <;>
          simp [Except.bind, nameEntry, optEntry, ncEntry, exEntry, encStrs, Function.comp_def]
  | ControlledGate g k ih =>
    simp [TranslatedC05.to_dict_gate, ih hw, Except.bind, proj, gateToDict, encG, nameEntry, optEntry, ncEntry, exEntry,
      TranslatedC05.gate_name, hE.control]
  | Exponential g ih =>
    simp [TranslatedC05.to_dict_gate, ih hw, Except.bind, proj, gateToDict, encG, nameEntry, optEntry, ncEntry, exEntry,
      TranslatedC05.gate_name, hE.exponential]
  | Dagger g ih =>
    have hn := gate_name_proj env hE C (.Dagger g) hw
    simp only [proj] at hn
    simp [TranslatedC05.to_dict_gate, ih hw, Except.bind, proj, gateToDict, encG, nameEntry, optEntry, ncEntry, exEntry, hn]
  | Power g e ih =>
    have hn := gate_name_proj env hE C (.Power g e) hw
    simp only [proj] at hn
    simp [TranslatedC05.to_dict_gate, ih hw, Except.bind, proj, gateToDict, encG, nameEntry, optEntry, ncEntry, exEntry, hn]

/-! ### reading the entries of an encoded gate dictionary -/


def gname : GDict E → Option Name
  | .leaf n .. => n
  | .wrap n .. => n
def gparams : GDict E → List Name
  | .leaf _ ps .. => ps
  | .wrap _ ps .. => ps
def gfree : GDict E → List Name
  | .leaf _ _ fs .. => fs
  | .wrap _ _ fs .. => fs
def ginner : GDict E → Option (GDict E)
  | .leaf .. => none
  | .wrap _ _ _ i _ _ => some i
def gnc : GDict E → Option Int
  | .leaf _ _ _ nc _ => nc
  | .wrap _ _ _ _ nc _ => nc
def gex : GDict E → Option E
  | .leaf _ _ _ _ ex => ex
  | .wrap _ _ _ _ _ ex => ex

theorem encStrs_nil : (encStrs [] : JV E) = .arr [] := rfl

theorem getItem_name (d : GDict E) : getItem (encG d) "name" =
    match gname d with | some n => .ok (.str (sN n)) | none => .error .KeyError := by
  cases d with
  | leaf n ps fs nc ex =>
    cases n <;> cases nc <;> cases ex <;>
      simp [encG, getItem, lookup_append, lookup_optEntry, nameEntry, ncEntry, exEntry, lookup, gname]
  | wrap n ps fs i nc ex =>
    cases n <;> cases nc <;> cases ex <;>
      simp [encG, getItem, lookup_append, lookup_optEntry, nameEntry, ncEntry, exEntry, lookup, gname]

theorem lookup_params (d : GDict E) : ∃ kv, encG d = .obj kv ∧
    lookup "params" kv = (if (gparams d).isEmpty then none else some (encStrs (gparams d))) ∧
    lookup "free_symbols" kv = (if (gfree d).isEmpty then none else some (encStrs (gfree d))) ∧
    lookup "wrapped_gate" kv = (ginner d).map encG ∧
    lookup "num_control_qubits" kv = (gnc d).map JV.int ∧
    lookup "exponent" kv = (gex d).map JV.num := by
  cases d with
  | leaf n ps fs nc ex =>
    refine ⟨_, rfl, ?_, ?_, ?_, ?_, ?_⟩ <;> cases n <;> cases nc <;> cases ex <;> cases ps <;> cases fs <;>
      simp [lookup_append, lookup_optEntry, nameEntry, ncEntry, exEntry, lookup, gparams, gfree, ginner, gnc, gex]
  | wrap n ps fs i nc ex =>
    refine ⟨_, rfl, ?_, ?_, ?_, ?_, ?_⟩ <;> cases n <;> cases nc <;> cases ex <;> cases ps <;> cases fs <;>
      simp [lookup_append, lookup_optEntry, nameEntry, ncEntry, exEntry, lookup, gparams, gfree, ginner, gnc, gex]

theorem getOpt_params (d : GDict E) :
    getOpt (encG d) "params" = .ok (if (gparams d).isEmpty then none else some (encStrs (gparams d))) := by
  obtain ⟨kv, h, h1, -⟩ := lookup_params d
  simp [h, getOpt, h1]

theorem getD_params (d : GDict E) : getD (encG d) "params" (.arr []) = .ok (encStrs (gparams d)) := by
  obtain ⟨kv, h, h1, -⟩ := lookup_params d
  cases hp : gparams d <;> simp [h, getD, h1, hp, encStrs]

theorem getOpt_free (d : GDict E) :
    getOpt (encG d) "free_symbols" = .ok (if (gfree d).isEmpty then none else some (encStrs (gfree d))) := by
  obtain ⟨kv, h, -, h1, -⟩ := lookup_params d
  simp [h, getOpt, h1]

theorem getD_free (d : GDict E) : getD (encG d) "free_symbols" (.arr []) = .ok (encStrs (gfree d)) := by
  obtain ⟨kv, h, -, h1, -⟩ := lookup_params d
  cases hp : gfree d <;> simp [h, getD, h1, hp, encStrs]

theorem getItem_wrapped (d : GDict E) : getItem (encG d) "wrapped_gate" =
    match ginner d with | some i => .ok (encG i) | none => .error .KeyError := by
  obtain ⟨kv, h, -, -, h1, -⟩ := lookup_params d
  cases hp : ginner d <;> simp [h, getItem, h1, hp]

theorem getItem_nc (d : GDict E) : getItem (encG d) "num_control_qubits" =
    match gnc d with | some k => .ok (.int k) | none => .error .KeyError := by
  obtain ⟨kv, h, -, -, -, h1, -⟩ := lookup_params d
  cases hp : gnc d <;> simp [h, getItem, h1, hp]

theorem getItem_ex (d : GDict E) : getItem (encG d) "exponent" =
    match gex d with | some e => .ok (.num e) | none => .error .KeyError := by
  obtain ⟨kv, h, -, -, -, -, h1⟩ := lookup_params d
  cases hp : gex d <;> simp [h, getItem, h1, hp]

/-- reading the `params` entries against `names` -/
theorem read_params (env : Env) (C : Codec P E) (ps : List Name) (names : List Name) :
    mapE (fun (param : JV E) => Except.bind (asStr param) (fun v => (X env C).deserialize_expr v (names.map sN)))
      (ps.map (fun n => JV.str (sN n))) = embE (mapE (deserializeExpr C names) ps) := by
  rw [mapE_map, embE_mapE]
  apply mapE_congr
  intro a _
  simp [asStr, Except.bind, Function.comp_def]

theorem asList_encStrs (l : List Name) : asList (encStrs l : JV E) = .ok (l.map (fun n => JV.str (sN n))) := rfl


/-! ### the three readers of the cascade -/


@[simp] theorem bind_ok {ε α β : Type} (a : α) (f : α → Except ε β) : Except.bind (.ok a) f = f a := rfl
@[simp] theorem bind_error {ε α β : Type} (e : ε) (f : α → Except ε β) : Except.bind (.error e) f = .error e := rfl
@[simp] theorem map_ok' {ε α β : Type} (a : α) (f : α → β) : Except.map f (.ok a : Except ε α) = .ok (f a) := rfl
@[simp] theorem map_error' {ε α β : Type} (e : ε) (f : α → β) : Except.map f (.error e : Except ε α) = .error e := rfl

@[simp] theorem asStr_str (s : String) : asStr (.str s : JV E) = .ok s := rfl
@[simp] theorem asInt_int (n : Int) : asInt (.int n : JV E) = .ok n := rfl
@[simp] theorem asNum_num (e : E) : asNum (.num e : JV E) = .ok e := rfl
@[simp] theorem asList_arr (l : List (JV E)) : asList (.arr l : JV E) = .ok l := rfl

theorem truthy_params (d : GDict E) :
    truthyOpt (if (gparams d).isEmpty then none else some (encStrs (gparams d) : JV E)) = .ok (!(gparams d).isEmpty) := by
  cases h : gparams d <;> simp [truthyOpt, encStrs]

theorem builtin_tie (env : Env) (C : Codec P E) (d : GDict E) :
    Except.map proj (TranslatedC05.builtin_gate_from_dict (X env C) (encG d))
      = embE (builtinFromDict env C (gname d) (gparams d) (gfree d)) := by
  unfold TranslatedC05.builtin_gate_from_dict builtinFromDict
  rw [getItem_name]
  cases hn : gname d with
  | none => rfl
  | some n =>
    simp only [bind_ok, asStr_str, TranslatedC05.builtin_gate_by_name, X_builtin_gate_by_name, String.toList_ofList,
      getOpt_params, TranslatedC05.gate_is_parametric, truthy_params, getD_params, asList_encStrs, getD_free, asStrs_encStrs,
      read_params, mapM_eq_mapE]
    cases hl : lookupGlobal env n with
    | missing => rfl
    | other =>
      cases hp : (gparams d).isEmpty with
      | true => simp [embErr]
      | false =>
        cases mapE (deserializeExpr C (gfree d)) (gparams d) <;> simp [embErr]
    | gate gi =>
      cases hp : (gparams d).isEmpty with
      | true => cases hq : gi.prototype <;> simp [hq, proj, embErr]
      | false =>
        cases mapE (deserializeExpr C (gfree d)) (gparams d) <;> cases hq : gi.prototype <;> simp [hq, proj, embErr]

theorem nextE_find (defs : List (CustomDef P)) (n : Name) :
    nextE (fun (g : CustomDef P) => (Except.ok (decide (g.gateName = n)) : Except PyT8.Err Bool)) defs
      = .ok (defs.find? (nameEq n)) := by
  induction defs with
  | nil => rfl
  | cons a as ih =>
    by_cases h : a.gateName = n
    · simp [nextE, h, nameEq, List.find?]
    · simp only [nextE, h, decide_false, ih, List.find?, nameEq]
      have : (a.gateName == n) = false := by simpa using h
      rw [this]

theorem nextE_error (defs : List (CustomDef P)) :
    nextE (fun (_ : CustomDef P) => (Except.error .KeyError : Except PyT8.Err Bool)) defs
      = match defs with | [] => .ok none | _ :: _ => .error .KeyError := by
  cases defs <;> rfl

theorem truthy_free (d : GDict E) :
    truthyOpt (if (gfree d).isEmpty then none else some (encStrs (gfree d) : JV E)) = .ok (!(gfree d).isEmpty) := by
  cases h : gfree d <;> simp [truthyOpt, encStrs]

theorem custom_tie (env : Env) (C : Codec P E) (defs : List (CustomDef P)) (d : GDict E) :
    Except.map proj (TranslatedC05.custom_gate_instance_from_dict (X env C) (encG d) defs)
      = embE (customFromDict C defs (gname d) (gparams d) (gfree d)) := by
  unfold TranslatedC05.custom_gate_instance_from_dict customFromDict
  rw [getItem_name]
  cases hn : gname d with
  | none =>
    simp only [bind_error, nextE_error]
    cases defs <;> rfl
  | some n =>
    simp only [bind_ok, asStr_str, X_def_gate_name, sN_inj, nextE_find, getOpt_free, truthy_free, getD_params, asList_encStrs,
      mapM_eq_mapE]
    cases hf : defs.find? (nameEq n) with
    | none => rfl
    | some dd =>
      cases hfs : gfree d with
      | nil =>
        simp only [List.isEmpty_nil, Bool.not_true, Bool.false_eq_true, if_false, if_true, bind_ok, X_def_params_ordering,
          X_serialize_symbol, read_params, X_call_gate_def]
        cases mapE (deserializeExpr C dd.ordering) (gparams d) <;> simp [proj]
      | cons a as =>
        simp only [List.isEmpty_cons, Bool.not_false, if_true, if_false, bind_ok, TranslatedC05.optGet, asStrs_encStrs, read_params,
          X_call_gate_def, Bool.false_eq_true]
        cases mapE (deserializeExpr C (a :: as)) (gparams d) <;> simp [proj]

theorem subInChars_eq (s sub : List Char) : subInChars s sub = containsSub s sub := by
  induction s with
  | nil => rfl
  | cons c cs ih => simp [subInChars, containsSub, ih]

theorem map_eq_error {ε α β : Type} {f : α → β} {r : Except ε α} {e : ε} (h : Except.map f r = .error e) : r = .error e := by
  cases r <;> simp_all [Except.map]

theorem map_eq_ok {ε α β : Type} {f : α → β} {r : Except ε α} {b : β} (h : Except.map f r = .ok b) :
    ∃ a, r = .ok a ∧ f a = b := by
  cases r <;> simp_all [Except.map]

theorem mk_controlled_tie (g : TGate P E) (k : Int) :
    Except.map proj (TranslatedC05.liftG (TranslatedGates.mk_ControlledGate g k)) = embE (mkControlled (proj g) k) := by
  unfold TranslatedGates.mk_ControlledGate mkControlled
  by_cases h : k < 1 <;> simp [h, TranslatedC05.liftG, proj, embErr]

theorem mk_exponential_tie (env : Env) (C : Codec P E) (g : TGate P E) :
    Except.map proj (TranslatedC05.liftG (TranslatedGates.mk_Exponential (X env C).gx g)) = embE (mkExponential C (proj g)) := by
  unfold TranslatedGates.mk_Exponential mkExponential
  rw [free_symbols_proj]
  cases Gate.free C (proj g) <;> simp [TranslatedC05.liftG, proj, embErr]

theorem mk_power_tie (env : Env) (C : Codec P E) (g : TGate P E) (e : E) :
    Except.map proj (TranslatedC05.liftG (TranslatedGates.mk_Power (X env C).gx g e)) = embE (mkPower C (proj g) e) := by
  unfold TranslatedGates.mk_Power mkPower
  rw [free_symbols_proj]
  cases Gate.free C (proj g) <;> simp [TranslatedC05.liftG, proj, embErr]

/-! ### the cascade `_gate_from_dict` -/


theorem special_tie (env : Env) (hE : EnvMatches env) (C : Codec P E) (defs : List (CustomDef P))
    (rec : JV E → List (CustomDef P) → Except PyT8.Err (TGate P E)) (d : GDict E)
    (hrec : ∀ i, ginner d = some i → Except.map proj (rec (encG i) defs) = embE (gateFromDict env C defs i)) :
    Except.map proj (TranslatedC05.special_gate_from_dict (X env C) rec (encG d) defs)
      = embE (specialFromDict env C (gname d) ((ginner d).map (gateFromDict env C defs)) (gnc d) (gex d)) := by
  unfold TranslatedC05.special_gate_from_dict specialFromDict
  rw [getItem_name]
  cases hn : gname d with
  | none => rfl
  | some n =>
    simp only [bind_ok, asStr_str, hE.control, hE.dagger, hE.exponential, hE.power, sN_inj, endswith, strIn,
      String.toList_ofList, subInChars_eq, getItem_wrapped, getItem_nc, getItem_ex]
    cases hi : ginner d with
    | none =>
      simp only [bind_error, Option.map_none]
      split <;> (try rfl) <;> split <;> (try rfl) <;> split <;> (try rfl) <;> split <;> rfl
    | some i =>
      have h := hrec i hi
      simp only [bind_ok, Option.map_some]
      cases hm : gateFromDict env C defs i with
      | error e' =>
        rw [hm] at h
        rw [map_eq_error h]
        simp only [bind_error]
        split <;> (try rfl) <;> split <;> (try rfl) <;> split <;> (try rfl) <;> split <;> rfl
      | ok g' =>
        rw [hm] at h
        obtain ⟨g, hg, hp⟩ := map_eq_ok h
        rw [hg]
        subst hp
        simp only [bind_ok]
        split
        · cases gnc d with
          | none => rfl
          | some k => simp only [bind_ok, asInt_int]; exact mk_controlled_tie g k
        · split
          · simp [TranslatedGates.mk_Dagger, proj]
          · split
            · exact mk_exponential_tie env C g
            · split
              · cases gex d with
                | none => rfl
                | some e => simp only [bind_ok, asNum_num]; exact mk_power_tie env C g e
              · rfl

/-- the model's `try … except KeyError: pass` -/
def orKey {α : Type} (a b : Except OQ.C05.Err α) : Except OQ.C05.Err α :=
  match a with
  | .ok g => .ok g
  | .error .key => b
  | .error e => .error e

theorem exceptKeyError_tie {a b : Except PyT8.Err (TGate P E)} {ma mb : Except OQ.C05.Err (Gate P E)}
    (ha : Except.map proj a = embE ma) (hb : Except.map proj b = embE mb) :
    Except.map proj (exceptKeyError a b) = embE (orKey ma mb) := by
  cases a with
  | ok g =>
    cases ma with
    | ok g' => simpa [exceptKeyError, orKey] using ha
    | error e => simp at ha
  | error e =>
    cases ma with
    | ok g' => simp at ha
    | error e' =>
      simp only [map_error', embE_error, Except.error.injEq] at ha
      subst ha
      cases e' <;> simp [exceptKeyError, orKey, embErr, hb]

theorem gateFromDict_cascade (env : Env) (C : Codec P E) (defs : List (CustomDef P)) (d : GDict E) :
    gateFromDict env C defs d = orKey (builtinFromDict env C (gname d) (gparams d) (gfree d))
      (orKey (specialFromDict env C (gname d) ((ginner d).map (gateFromDict env C defs)) (gnc d) (gex d))
        (customFromDict C defs (gname d) (gparams d) (gfree d))) := by
  cases d with
  | leaf n ps fs nc ex =>
    simp only [gateFromDict, cascade, orKey, gname, gparams, gfree, ginner, gnc, gex, Option.map_none]
    cases builtinFromDict env C n ps fs with
    | ok g => rfl
    | error e => cases e <;> try rfl
                 all_goals (cases specialFromDict env C n none nc ex with
                   | ok g => rfl
                   | error e => cases e <;> rfl)
  | wrap n ps fs i nc ex =>
    simp only [gateFromDict, cascade, orKey, gname, gparams, gfree, ginner, gnc, gex, Option.map_some]
    cases builtinFromDict env C n ps fs with
    | ok g => rfl
    | error e => cases e <;> try rfl
                 all_goals (cases specialFromDict env C n (some (gateFromDict env C defs i)) nc ex with
                   | ok g => rfl
                   | error e => cases e <;> rfl)

theorem gate_from_dict_tie (env : Env) (hE : EnvMatches env) (C : Codec P E) (defs : List (CustomDef P)) :
    ∀ (fuel : Nat) (d : GDict E), gdepth d < fuel →
      Except.map proj (TranslatedC05.gate_from_dict (X env C) fuel (encG d) defs) = embE (gateFromDict env C defs d) := by
  intro fuel
  induction fuel with
  | zero => intro d h; exact absurd h (Nat.not_lt_zero _)
  | succ fuel ih =>
    intro d h
    rw [gateFromDict_cascade]
    unfold TranslatedC05.gate_from_dict
    apply exceptKeyError_tie (builtin_tie env C d)
    apply exceptKeyError_tie _ (custom_tie env C defs d)
    apply special_tie env hE C defs
    intro i hi
    apply ih
    cases d with
    | leaf => simp [ginner] at hi
    | wrap n ps fs i' nc ex =>
      simp only [ginner, Option.some.injEq] at hi
      subst hi
      simp only [gdepth] at h
      omega

/-! ### operations, definitions, circuits, circuit sets -/


def WFOp (o : TOp P E) : Prop := WF o.gate
def WFC (c : TCirc P E) : Prop := ∀ o ∈ c.ops, WFOp o

theorem op_to_dict_eq (env : Env) (hE : EnvMatches env) (C : Codec P E) (o : TOp P E) (hw : WFOp o) :
    TranslatedC05.gate_operation_to_dict (X env C) o = .ok (encOp (opToDict env C (projOp o))) := by
  simp [TranslatedC05.gate_operation_to_dict, to_dict_gate_eq env hE C o.gate hw, encOp, opToDict, projOp]

theorem op_from_dict_tie (env : Env) (hE : EnvMatches env) (C : Codec P E) (defs : List (CustomDef P)) (fuel : Nat)
    (o : OpDict E) (h : gdepth o.gate < fuel) :
    Except.map projOp (TranslatedC05.gate_operation_from_dict (X env C) fuel (encOp o) defs)
      = embE (opFromDict env C defs o) := by
  have hg := gate_from_dict_tie env hE C defs fuel o.gate h
  unfold TranslatedC05.gate_operation_from_dict opFromDict
  have h1 : getItem (encOp o) "gate" = .ok (encG o.gate) := by simp [encOp, getItem, lookup]
  have h2 : getItem (encOp o) "qubit_indices" = .ok (.arr (o.qubits.map .int)) := by simp [encOp, getItem, lookup]
  simp only [h1, h2, bind_ok, asInts_ints]
  cases hm : gateFromDict env C defs o.gate with
  | error e => rw [hm] at hg; rw [map_eq_error hg]; rfl
  | ok g' =>
    rw [hm] at hg
    obtain ⟨g, hg1, hg2⟩ := map_eq_ok hg
    rw [hg1]; subst hg2; rfl

theorem def_to_dict_eq (env : Env) (C : Codec P E) (d : CustomDef P) :
    TranslatedC05.custom_gate_def_to_dict (X env C) d = .ok (encDef (defToDict C d)) := by
  have hm : TranslatedC05.map_eager (fun v1 => (Except.ok (sN v1) : Except PyT8.Err String)) d.ordering
      = .ok (d.ordering.map sN) := mapE_ok _ _ _ (fun a _ => rfl)
  simp [TranslatedC05.custom_gate_def_to_dict, hm, encDef, defToDict, encStrs, Function.comp_def]

theorem asStrss_enc (m : List (List Name)) :
    TranslatedC05.asStrss (.arr (m.map (fun row => .arr (row.map (fun t => .str (sN t))))) : JV E) = .ok (m.map (fun row => row.map sN)) := by
  simp only [TranslatedC05.asStrss, asList_arr, bind_ok, mapE_map]
  apply mapE_ok
  intro row _
  exact asStrs_encStrs row

theorem def_from_dict_tie (env : Env) (C : Codec P E) (dd : DefDict) :
    TranslatedC05.custom_gate_def_from_dict (X env C) (encDef dd : JV E) = embE (defFromDict C dd) := by
  have h0 : getD (encDef dd : JV E) "params_ordering" (.arr []) = .ok (encStrs dd.ordering) := by
    simp [encDef, getD, lookup]
  have h1 : getItem (encDef dd : JV E) "gate_name" = .ok (.str (sN dd.gateName)) := by simp [encDef, getItem, lookup]
  have h2 : getItem (encDef dd : JV E) "matrix" = .ok (.arr (dd.matrix.map (fun row => .arr (row.map (fun t => .str (sN t)))))) := by
    simp [encDef, getItem, lookup]
  have h3 : mapE (fun (term : JV E) => Except.bind (asStr term) (fun v3 => Except.ok ((X env C).Symbol v3)))
      (dd.ordering.map (fun n => JV.str (sN n))) = .ok dd.ordering := by
    rw [mapE_map]
    have := mapE_ok (fun (a : Name) => Except.bind (asStr (JV.str (sN a) : JV E)) (fun v3 => (Except.ok ((X env C).Symbol v3) : Except PyT8.Err Name))) id
      dd.ordering (fun a _ => by simp)
    simpa using this
  unfold TranslatedC05.custom_gate_def_from_dict defFromDict
  simp only [h0, h1, h2, bind_ok, asList_encStrs, h3, asStrss_enc, asStrs_encStrs, X_matrix_from_json, asStr_str,
    X_CustomGateDefinition, mapM_eq_mapE, List.map_map, Function.comp_def, String.toList_ofList, List.map_id', mapE_map]
  generalize mapE (fun row => mapE (deserializeExpr C dd.ordering) row) dd.matrix = q
  cases q with
  | error e => rfl
  | ok m => by_cases hs : shapeOk m <;> simp [hs, embErr]

theorem mapE_rel {α β β' : Type} (p : β → β') (f : α → Except PyT8.Err β) (g : α → Except OQ.C05.Err β') (l : List α)
    (h : ∀ a ∈ l, Except.map p (f a) = embE (g a)) : Except.map (List.map p) (mapE f l) = embE (mapE g l) := by
  induction l with
  | nil => rfl
  | cons a as ih =>
    have ha := h a (by simp)
    have hi := ih (fun y hy => h y (by simp [hy]))
    simp only [mapE]
    cases hg : g a with
    | error e => rw [hg] at ha; rw [map_eq_error ha]; rfl
    | ok b' =>
      rw [hg] at ha
      obtain ⟨b, hb1, hb2⟩ := map_eq_ok ha
      rw [hb1]; subst hb2
      cases hgs : mapE g as with
      | error e => rw [hgs] at hi; rw [map_eq_error hi]; rfl
      | ok bs' =>
        rw [hgs] at hi
        obtain ⟨bs, hbs1, hbs2⟩ := map_eq_ok hi
        rw [hbs1]; subst hbs2; rfl

theorem mkCircuit_ops {ops : List (Op P E)} {n : Int} {c : Circuit P E} (h : mkCircuit ops n = .ok c) : c.ops = ops := by
  unfold mkCircuit at h
  split at h
  · cases hs : sizeByOps ops with
    | error e => simp [hs] at h
    | ok k => simp [hs] at h; rw [← h]
  · split at h
    · simp at h
    · simp at h; rw [← h]

theorem circuit_to_dict_eq (env : Env) (hE : EnvMatches env) (C : Codec P E) (c : TCirc P E) (hw : WFC c) :
    TranslatedC05.circuit_to_dict (X env C) c = embE (Except.map encC (circuitToDict env C (projC c))) := by
  have hops : TranslatedC05.map_eager (fun v2 => TranslatedC05.gate_operation_to_dict (X env C) v2) c.ops
      = .ok (c.ops.map (fun o => encOp (opToDict env C (projOp o)))) :=
    mapE_ok _ _ _ (fun o ho => op_to_dict_eq env hE C o (hw o ho))
  have hdefs : ∀ defs : List (CustomDef P), TranslatedC05.map_eager (fun v6 => TranslatedC05.custom_gate_def_to_dict (X env C) v6) defs
      = .ok (defs.map (fun d => encDef (defToDict C d))) :=
    fun defs => mapE_ok _ _ _ (fun d _ => def_to_dict_eq env C d)
  unfold TranslatedC05.circuit_to_dict circuitToDict
  simp only [X_collect_custom_gate_definitions, X_circuit_operations, X_circuit_n_qubits, hops, hdefs, projC]
  cases collectDefs C (c.ops.map projOp) with
  | error e => rfl
  | ok defs =>
    cases hc : c.ops <;> cases defs <;> simp [encC, List.map_map, Function.comp_def]

theorem circuit_from_dict_tie (env : Env) (hE : EnvMatches env) (C : Codec P E) (fuel : Nat) (d : CDict E)
    (h : ∀ o ∈ d.ops, gdepth o.gate < fuel) :
    Except.map projC (TranslatedC05.circuit_from_dict (X env C) fuel (encC d)) = embE (circuitFromDict env C d) := by
  have h1 : getD (encC d) "custom_gate_definitions" (.arr []) = .ok (.arr (d.defs.map encDef)) := by
    cases d with
    | mk nq ops defs => cases nq <;> cases ops <;> cases defs <;> simp [encC, getD, lookup]
  have h2 : getD (encC d) "operations" (.arr []) = .ok (.arr (d.ops.map encOp)) := by
    cases d with
    | mk nq ops defs => cases nq <;> cases ops <;> cases defs <;> simp [encC, getD, lookup]
  have h3 : getItem (encC d) "n_qubits" = match d.nQubits with | some n => .ok (.int n) | none => .error .KeyError := by
    cases d with
    | mk nq ops defs => cases nq <;> cases ops <;> cases defs <;> simp [encC, getItem, lookup]
  have hd : mapE (fun def_dict => TranslatedC05.custom_gate_def_from_dict (X env C) def_dict) (d.defs.map (encDef (E := E)))
      = embE (mapE (defFromDict C) d.defs) := by
    rw [mapE_map, embE_mapE]
    exact mapE_congr _ _ _ (fun a _ => def_from_dict_tie env C a)
  unfold TranslatedC05.circuit_from_dict circuitFromDict
  simp only [h1, h2, h3, bind_ok, asList_arr, hd, mapM_eq_mapE]
  cases mapE (defFromDict C) d.defs with
  | error e => rfl
  | ok defs =>
    simp only [embE_ok, bind_ok, mapE_map]
    have ho := mapE_rel projOp (fun a => TranslatedC05.gate_operation_from_dict (X env C) fuel (encOp a) defs)
      (opFromDict env C defs) d.ops (fun o ho => op_from_dict_tie env hE C defs fuel o (h o ho))
    cases hm : mapE (opFromDict env C defs) d.ops with
    | error e => rw [hm] at ho; rw [map_eq_error ho]; rfl
    | ok ops' =>
      rw [hm] at ho
      obtain ⟨ops, ho1, ho2⟩ := map_eq_ok ho
      rw [ho1]; subst ho2
      cases d.nQubits with
      | none => rfl
      | some n =>
        simp only [bind_ok, asInt_int, X_Circuit]
        cases hmk : mkCircuit (ops.map projOp) n with
        | error e => rfl
        | ok c' =>
          simp only [embE_ok, map_ok', projC]
          have := mkCircuit_ops hmk
          cases c' with
          | mk k os => simp at this; subst this; rfl

theorem mapE_embE_map {α β β' : Type} (p : β → β') (g : α → Except OQ.C05.Err β) (l : List α) :
    mapE (fun a => embE (Except.map p (g a))) l = embE (Except.map (List.map p) (mapE g l)) := by
  induction l with
  | nil => rfl
  | cons a as ih =>
    simp only [mapE, ih]
    cases g a with
    | error e => rfl
    | ok b => cases mapE g as <;> rfl

theorem circuitset_to_dict_eq (env : Env) (hE : EnvMatches env) (C : Codec P E) (cs : List (TCirc P E))
    (hw : ∀ c ∈ cs, WFC c) :
    TranslatedC05.circuitset_to_dict (X env C) cs
      = embE (Except.map encCs (circuitsetToDict env C (cs.map projC))) := by
  have h : TranslatedC05.map_eager (fun v1 => TranslatedC05.circuit_to_dict (X env C) v1) cs
      = embE (Except.map (List.map encC) (mapE (circuitToDict env C) (cs.map projC))) := by
    rw [mapE_map, ← mapE_embE_map]
    exact mapE_congr _ _ _ (fun c hc => circuit_to_dict_eq env hE C c (hw c hc))
  unfold TranslatedC05.circuitset_to_dict circuitsetToDict
  rw [h, mapM_eq_mapE]
  cases mapE (circuitToDict env C) (cs.map projC) <;> rfl

theorem circuitset_from_dict_tie (env : Env) (hE : EnvMatches env) (C : Codec P E) (fuel : Nat) (ds : List (CDict E))
    (h : ∀ d ∈ ds, ∀ o ∈ d.ops, gdepth o.gate < fuel) :
    Except.map (List.map projC) (TranslatedC05.circuitset_from_dict (X env C) fuel (encCs ds))
      = embE (circuitsetFromDict env C ds) := by
  have h1 : getItem (encCs ds) "circuits" = .ok (.arr (ds.map encC)) := by simp [encCs, getItem, lookup]
  unfold TranslatedC05.circuitset_from_dict circuitsetFromDict
  simp only [h1, bind_ok, asList_arr, TranslatedC05.map_eager, mapE_map, mapM_eq_mapE]
  exact mapE_rel projC _ _ ds (fun d hd => circuit_from_dict_tie env hE C fuel d (h d hd))

end TS
end OQ.C05
