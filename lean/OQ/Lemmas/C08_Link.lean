/- C08 linking lemmas: the spec semantics `Uc` / `opDen` of OQ/Lemmas/C08.lean related to the executable embedding
   (`Lift.toUnitary`, characterised in OQ/Props/C01.lean) and the built-in gate facts of OQ/Props/C02.lean
   (not property theorems). -/
import OQ.Props.C08
import OQ.Props.C01
import OQ.Props.C02
set_option linter.unusedSectionVars false
set_option linter.unusedSimpArgs false
set_option linter.unusedVariables false

namespace OQ.C08.Link
open Matrix OQ.Spec OQ.C08 OQ.C02 OQ.Generated
open Classical

variable {R : Type} [CommRing R] [StarRing R]

/-! ### the two index conventions agree: `idxL` (C08) is the inverse of `bvEquiv` (C01) -/

/-- the basis index C08 reads off an assignment at the qubits `qs` is the index whose C01 bit assignment is the
    restriction of the assignment to `qs[0], qs[1], …` -/
theorem bv_idxL (n : Nat) (qs : List Nat) (hq : ∀ q ∈ qs, q < n) (x : BV (Fin n)) :
    C01.bvEquiv qs.length ⟨idxL n qs x, idxL_lt n qs x⟩
      = fun j : Fin qs.length => x ⟨qs[j.val], hq _ (List.getElem_mem _)⟩ := by
  funext j
  rw [C01.bvEquiv_apply]
  have hb : ∀ b ∈ bitsL n qs x, b < 2 := fun b hb => by have := bitsL_le n qs x b hb; omega
  have hj : j.val < (bitsL n qs x).length := by rw [bitsL_length]; exact j.2
  have := C01.testBit_bitsToIndex (bitsL n qs x) hb j.val hj
  rw [bitsL_length] at this
  show (Lift.bitsToIndex (bitsL n qs x)).testBit (qs.length - 1 - j.val) = _
  rw [this]
  have hqj : qs[j.val] < n := hq _ (List.getElem_mem _)
  simp only [bitsL, List.getElem_map, hqj, dite_true]
  cases x ⟨qs[j.val], hqj⟩ <;> simp [bit]

theorem symm_bv_idxL (n : Nat) (qs : List Nat) (hq : ∀ q ∈ qs, q < n) (x : BV (Fin n)) :
    ((C01.bvEquiv qs.length).symm (fun j : Fin qs.length => x ⟨qs[j.val], hq _ (List.getElem_mem _)⟩)).val
      = idxL n qs x := by
  rw [← bv_idxL n qs hq x, Equiv.symm_apply_apply]

/-- C01's spec of a valid gate operation is C08's pointwise denotation -/
theorem opSem_eq_opDen (n : Nat) (m : Mat R) (qs : List Nat) (h : C01.OpValid n (⟨m, qs⟩ : Lift.Op R)) :
    C01.opSem n (⟨m, qs⟩ : Lift.Op R) = opDen n m qs := by
  ext x y
  rw [C01.opSem_apply n _ h]
  unfold opDen
  simp only [C01.toBV_apply]
  rw [symm_bv_idxL n qs h.lt x, symm_bv_idxL n qs h.lt y]

/-! ### `toOps` / `Uc` / C01's `circSem` -/

theorem mapM_cons_opt {α β : Type} (f : α → Option β) (a : α) (as : List α) :
    (a :: as).mapM f = (f a).bind (fun b => (as.mapM f).map (fun bs => b :: bs)) := by
  rw [List.mapM_cons]
  cases f a <;> cases as.mapM f <;> rfl

/-- the per-operation step of `toOps` -/
def opOf (k : Scal R) (x : Ext R) (o : GOp (Gate R)) : Option (Lift.Op R) :=
  (Gate.matrix k x o.gate).bind (fun m =>
    if m.r = 2 ^ o.qs.length ∧ m.c = 2 ^ o.qs.length then some (⟨m, o.qs⟩ : Lift.Op R) else none)

theorem toOps_eq (k : Scal R) (x : Ext R) (c : Circ (Gate R)) : toOps k x c = c.ops.mapM (opOf k x) := rfl

theorem opValid_iff (n : Nat) (m : Mat R) (qs : List Nat) :
    C01.OpValid n (⟨m, qs⟩ : Lift.Op R) ↔ qs ≠ [] ∧ OpWF n m qs :=
  ⟨fun h => ⟨h.ne, h.nodup, h.lt, h.mr, h.mc⟩, fun h => ⟨h.1, h.2.1, h.2.2.1, h.2.2.2.1, h.2.2.2.2⟩⟩

theorem opDen?_none (k : Scal R) (x : Ext R) (n : Nat) (o : GOp (Gate R)) (h : opOf k x o = none) :
    opDen? k x n o = none := by
  unfold opOf at h
  unfold opDen?
  cases hm : Gate.matrix k x o.gate with
  | none => rfl
  | some m =>
    rw [hm] at h
    simp only [Option.bind_some] at h ⊢
    by_cases hd : m.r = 2 ^ o.qs.length ∧ m.c = 2 ^ o.qs.length
    · rw [if_pos hd] at h; cases h
    · rw [if_neg (fun hw : OpWF n m o.qs => hd hw.2.2)]

theorem opDen?_some (k : Scal R) (x : Ext R) (n : Nat) (o : GOp (Gate R)) (p : Lift.Op R)
    (h : opOf k x o = some p) (hne : o.qs ≠ []) :
    p.qs = o.qs ∧ Gate.matrix k x o.gate = some p.m ∧ p.m.r = 2 ^ p.qs.length ∧ p.m.c = 2 ^ p.qs.length ∧
    (C01.OpValid n p → opDen? k x n o = some (C01.opSem n p)) ∧
    (¬ C01.OpValid n p → opDen? k x n o = none) := by
  unfold opOf at h
  unfold opDen?
  cases hm : Gate.matrix k x o.gate with
  | none => rw [hm] at h; cases h
  | some m =>
    rw [hm] at h
    simp only [Option.bind_some] at h ⊢
    by_cases hd : m.r = 2 ^ o.qs.length ∧ m.c = 2 ^ o.qs.length
    · rw [if_pos hd] at h
      cases h
      refine ⟨rfl, rfl, hd.1, hd.2, ?_, ?_⟩
      · intro hv
        rw [if_pos ((opValid_iff n m o.qs).mp hv).2, opSem_eq_opDen n m o.qs hv]
      · intro hv
        rw [if_neg (fun hw => hv ((opValid_iff n m o.qs).mpr ⟨hne, hw⟩))]
    · rw [if_neg hd] at h; cases h

theorem Uc_none_of_mapM (k : Scal R) (x : Ext R) (n : Nat) (ops : List (GOp (Gate R)))
    (h : ops.mapM (opOf k x) = none) : Uc k x n ops = none := by
  induction ops with
  | nil => simp at h
  | cons o rest ih =>
    rw [mapM_cons_opt] at h
    simp only [Uc]
    cases ho : opOf k x o with
    | none => rw [opDen?_none k x n o ho]; cases Uc k x n rest <;> rfl
    | some p =>
      rw [ho] at h
      cases hr : rest.mapM (opOf k x) with
      | none => rw [ih hr]; rfl
      | some L => rw [hr] at h; simp at h

theorem Uc_of_mapM (k : Scal R) (x : Ext R) (n : Nat) (ops : List (GOp (Gate R)))
    (hne : ∀ o ∈ ops, o.qs ≠ []) (L : List (Lift.Op R)) (h : ops.mapM (opOf k x) = some L) :
    L.length = ops.length ∧ (∀ p ∈ L, p.m.r = 2 ^ p.qs.length ∧ p.m.c = 2 ^ p.qs.length) ∧
    ((∀ p ∈ L, C01.OpValid n p) → Uc k x n ops = some (C01.circSem n (L.map C01.Oper.gate))) ∧
    ((¬ ∀ p ∈ L, C01.OpValid n p) → Uc k x n ops = none) := by
  induction ops generalizing L with
  | nil =>
    simp only [List.mapM_nil, Option.pure_def, Option.some.injEq] at h
    subst h
    simp [Uc, C01.circSem_nil]
  | cons o rest ih =>
    rw [mapM_cons_opt] at h
    cases ho : opOf k x o with
    | none => rw [ho] at h; simp at h
    | some p =>
      rw [ho] at h
      cases hr : rest.mapM (opOf k x) with
      | none => rw [hr] at h; simp at h
      | some L' =>
        rw [hr] at h
        simp only [Option.bind_some, Option.map_some, Option.some.injEq] at h
        subst h
        obtain ⟨i1, i2, i3, i4⟩ := ih (fun o' ho' => hne o' (by simp [ho'])) L' hr
        obtain ⟨_, _, d1, d2, s1, s2⟩ := opDen?_some k x n o p ho (hne o (by simp))
        refine ⟨by simp [i1], ?_, ?_, ?_⟩
        · intro q hq
          rcases List.mem_cons.mp hq with rfl | hq
          · exact ⟨d1, d2⟩
          · exact i2 q hq
        · intro hv
          simp only [Uc]
          rw [i3 (fun q hq => hv q (by simp [hq])), s1 (hv p (by simp))]
          simp only [Option.bind_some, Option.map_some, List.map_cons, C01.circSem_cons, C01.operSem]
        · intro hv
          simp only [Uc]
          by_cases hp : C01.OpValid n p
          · have : ¬ ∀ q ∈ L', C01.OpValid n q := by
              intro hh; apply hv; intro q hq
              rcases List.mem_cons.mp hq with rfl | hq
              · exact hp
              · exact hh q hq
            rw [i4 this]; rfl
          · rw [s2 hp]; cases Uc k x n rest <;> rfl

/-! ### the executable `Lift.toUnitary` through C01 -/

theorem mapM_map_congr {α β γ : Type} (g : α → β) (f : β → Option γ) (f' : α → Option γ) (l : List α)
    (h : ∀ a ∈ l, f (g a) = f' a) : (l.map g).mapM f = l.mapM f' := by
  induction l with
  | nil => rfl
  | cons a l ih =>
    rw [List.map_cons, mapM_cons_opt, mapM_cons_opt, h a (by simp), ih (fun b hb => h b (by simp [hb]))]

theorem mapM_none_of_mem {α β : Type} (f : α → Option β) (l : List α) (a : α) (ha : a ∈ l) (h : f a = none) :
    l.mapM f = none := by
  induction l with
  | nil => simp at ha
  | cons b l ih =>
    rw [mapM_cons_opt]
    rcases List.mem_cons.mp ha with rfl | ha
    · rw [h]; rfl
    · rw [ih ha]; cases f b <;> rfl

/-- on operations of the right matrix size the shared executable `Lift.toUnitary` (no shape check) is C01's
    `Circuit.to_unitary` (with the shape check of `lifted_matrix`) -/
theorem liftToUnitary_eq (n : Nat) (L : List (Lift.Op R))
    (hd : ∀ p ∈ L, p.m.r = 2 ^ p.qs.length ∧ p.m.c = 2 ^ p.qs.length) :
    Lift.toUnitary n L = C01.toUnitary ⟨n, L.map C01.Oper.gate⟩ := by
  unfold Lift.toUnitary C01.toUnitary
  simp only
  have : ∀ p ∈ L.reverse, C01.Oper.lifted n (C01.Oper.gate p) = Lift.liftMatrix p.m p.qs n := by
    intro p hp
    have := hd p (List.mem_reverse.mp hp)
    simp only [C01.Oper.lifted, C01.gateLift, this, and_self, if_true]
  rw [← List.map_reverse, mapM_map_congr C01.Oper.gate (C01.Oper.lifted n) (fun o => Lift.liftMatrix o.m o.qs n) _ this]
  rfl

theorem toUnitary_none_of_invalid (n : Nat) (L : List (Lift.Op R)) (p : Lift.Op R) (hp : p ∈ L)
    (hv : ¬ C01.OpValid n p) : C01.toUnitary ⟨n, L.map C01.Oper.gate⟩ = none := by
  unfold C01.toUnitary
  simp only
  rw [mapM_none_of_mem (C01.Oper.lifted n) _ (C01.Oper.gate p)
    (List.mem_reverse.mpr (List.mem_map_of_mem hp))]
  simp only [C01.Oper.lifted]
  cases hg : C01.gateLift p n with
  | none => rfl
  | some L' =>
    exfalso; apply hv
    rw [← C01.gateLift_isSome_iff, hg]; rfl

/-- MAIN BRIDGE: for a non-empty circuit whose operations each name at least one qubit, the executable
    `Circuit.to_unitary()` of the C08 model, viewed over bit assignments, IS the spec action `Uc` – including
    the error cases – and the returned matrix is `2^n × 2^n` -/
theorem unitary_eq_Uc (k : Scal R) (x : Ext R) (c : Circ (Gate R)) (hne : c.ops ≠ [])
    (hq : ∀ o ∈ c.ops, o.qs ≠ []) :
    (unitary k x c).map (C01.toBV c.n) = Uc k x c.n c.ops ∧
    ∀ U, unitary k x c = some U → U.r = 2 ^ c.n ∧ U.c = 2 ^ c.n := by
  unfold unitary
  rw [toOps_eq]
  cases hL : c.ops.mapM (opOf k x) with
  | none =>
    refine ⟨?_, fun U hU => by simp at hU⟩
    rw [Uc_none_of_mapM k x c.n c.ops hL]; rfl
  | some L =>
    obtain ⟨hlen, hd, h1, h2⟩ := Uc_of_mapM k x c.n c.ops hq L hL
    simp only [Option.bind_some]
    rw [liftToUnitary_eq c.n L hd]
    by_cases hv : ∀ p ∈ L, C01.OpValid c.n p
    · have hLne : L ≠ [] := by
        intro h0; apply hne; rw [h0] at hlen
        exact List.length_eq_zero_iff.mp hlen.symm
      obtain ⟨U, hU, hr, hc, hs⟩ := C01.toUnitary_ordered_product c.n L hLne hv
      rw [hU, h1 hv]
      refine ⟨by rw [Option.map_some, hs], ?_⟩
      intro U' hU'; cases hU'; exact ⟨hr, hc⟩
    · have hv' := hv
      push Not at hv'
      obtain ⟨p, hp, hpv⟩ := hv'
      rw [toUnitary_none_of_invalid c.n L p hp hpv, h2 hv]
      exact ⟨rfl, fun U hU => by simp at hU⟩

/-! ### built-in base gates: the C08 gate objects against the generated table and the C02 theorems -/

/-- the `num_qubits` / `is_hermitian` data hard-wired in the C08 model agree with the generated gate table -/
theorem builtin_flags_table :
    ∀ row ∈ gateTable, builtinNq (Row.name row) = Row.numQubits row ∧ builtinHerm (Row.name row) = Row.isHermitian row := by
  decide

theorem canon_m2 (a b c d : R) : Canon (Gates.m2 a b c d) := canon_ofFn _ _ _
theorem canon_m4 (rows : List (List R)) : Canon (Gates.m4 rows) := canon_ofFn _ _ _

/-- every built-in matrix is a well-formed array (everything the factories build goes through `Mat.ofFn`) -/
theorem builtin_canon (k : Scal R) :
    ∀ row ∈ gateTable, ∀ ps : List (Ang R), ps.length = (Row.numParams row) →
      ∃ M, gateMatrix gateTable k (Row.name row) ps = .ok M ∧ Canon M := by
  table_rows
  · exact forall_len0 ⟨_, rfl, canon_m2 _ _ _ _⟩
  · exact forall_len0 ⟨_, rfl, canon_m2 _ _ _ _⟩
  · exact forall_len0 ⟨_, rfl, canon_m2 _ _ _ _⟩
  · exact forall_len0 ⟨_, rfl, canon_m2 _ _ _ _⟩
  · exact forall_len0 ⟨_, rfl, canon_m2 _ _ _ _⟩
  · exact forall_len0 ⟨_, rfl, canon_m2 _ _ _ _⟩
  · exact forall_len0 ⟨_, rfl, canon_m2 _ _ _ _⟩
  · exact forall_len0 ⟨_, rfl, canon_m2 _ _ _ _⟩
  · exact forall_len1 (fun _ => ⟨_, rfl, canon_m2 _ _ _ _⟩)
  · exact forall_len1 (fun _ => ⟨_, rfl, canon_m2 _ _ _ _⟩)
  · exact forall_len1 (fun _ => ⟨_, rfl, canon_m2 _ _ _ _⟩)
  · exact forall_len1 (fun _ => ⟨_, rfl, canon_m2 _ _ _ _⟩)
  · exact forall_len1 (fun _ => ⟨_, rfl, canon_m2 _ _ _ _⟩)
  · exact forall_len3 (fun _ _ _ => ⟨_, rfl, canon_m2 _ _ _ _⟩)
  · exact forall_len1 (fun _ => ⟨_, rfl, canon_m2 _ _ _ _⟩)
  · exact forall_len1 (fun _ => ⟨_, rfl, canon_m2 _ _ _ _⟩)
  · exact forall_len0 ⟨_, rfl, canon_m4 _⟩
  · exact forall_len0 ⟨_, rfl, canon_m4 _⟩
  · exact forall_len0 ⟨_, rfl, canon_m4 _⟩
  · exact forall_len0 ⟨_, rfl, canon_m4 _⟩
  · exact forall_len1 (fun _ => ⟨_, rfl, canon_m4 _⟩)
  · exact forall_len1 (fun _ => ⟨_, rfl, canon_m4 _⟩)
  · exact forall_len1 (fun _ => ⟨_, rfl, canon_m4 _⟩)
  · exact forall_len1 (fun _ => ⟨_, rfl, canon_m4 _⟩)
  · exact forall_len1 (fun _ => ⟨_, rfl, canon_m4 _⟩)
  · exact forall_len2 (fun _ _ => ⟨_, rfl, canon_m4 _⟩)
  · exact forall_len1 (fun _ => ⟨_, rfl, canon_m2 _ _ _ _⟩)

/-- a base gate object as `builtinGate` builds it: a row of the gate table, the right number of parameters, each a
    point of the circle with real coordinates (= a real angle) -/
def IsBuiltin (k : Scal R) (g : Gate R) : Prop :=
  ∃ row ∈ gateTable, ∃ ps : List (Ang R), ps.length = Row.numParams row ∧ (∀ a ∈ ps, Valid a) ∧
    builtinGate k (Row.name row) ps = some g

theorem isBuiltin_data (k : Scal R) (g : Gate R) (h : IsBuiltin k g) :
    ∃ row ∈ gateTable, ∃ ps : List (Ang R), ∃ m, ps.length = Row.numParams row ∧ (∀ a ∈ ps, Valid a) ∧
      gateMatrix gateTable k (Row.name row) ps = .ok m ∧ Canon m ∧
      g = .base (Row.name row) m (Row.numQubits row) (Row.isHermitian row) := by
  obtain ⟨row, hrow, ps, hlen, hv, hg⟩ := h
  unfold builtinGate at hg
  cases hm : Gates.builtinMatrix k (Row.name row) ps with
  | none => rw [hm] at hg; cases hg
  | some m =>
    rw [hm] at hg
    simp only [Option.map_some, Option.some.injEq] at hg
    have hgm : gateMatrix gateTable k (Row.name row) ps = .ok m := by
      unfold gateMatrix
      rw [show lookup gateTable (Row.name row) = some row from lookup_row row hrow]
      simp only [hlen, ne_eq, not_true_eq_false, if_false, hm]
    obtain ⟨M, hM, hcan⟩ := builtin_canon k row hrow ps hlen
    rw [hgm] at hM; cases hM
    refine ⟨row, hrow, ps, m, hlen, hv, hgm, hcan, ?_⟩
    · rw [← hg, (builtin_flags_table row hrow).1, (builtin_flags_table row hrow).2]

/-- a well-formed matrix that equals its conjugate transpose (C02's `IsSelfAdjointOf`) is a fixed point of the
    model's `adjoint()` -/
theorem adj_eq_of_selfadjoint (k : Scal R) (hk : k.cj = star) (d : Nat) (m : Mat R) (hcan : Canon m)
    (h : IsSelfAdjointOf d m) : Gate.adj k m = m := by
  obtain ⟨hr, hc, hsa⟩ := h
  apply mat_ext _ _ (Gate.canon_adj _ _) hcan (by simp [hr, hc]) (by simp [hr, hc])
  intro i j hi hj
  simp only [Gate.adj_r, Gate.adj_c] at hi hj
  rw [Gate.adj_get k hk]
  have := congrFun (congrFun hsa ⟨i, by omega⟩) ⟨j, by omega⟩
  simpa [Mat.toM, conjTranspose_apply] using this

/-- C02 ⇒ the hypotheses of `Regular.base`: a built-in base gate has a well-formed matrix of the declared size and
    a TRUTHFUL `is_hermitian` flag -/
theorem isBuiltin_regular {k : Scal R} (hk : Laws k) (g : Gate R) (h : IsBuiltin k g) : Gate.Regular k g := by
  obtain ⟨row, hrow, ps, m, hlen, hv, hm, hcan, rfl⟩ := isBuiltin_data k g h
  obtain ⟨M, hM, hr, hc⟩ := builtin_dim k row hrow ps hlen
  rw [hm] at hM; cases hM
  refine Gate.Regular.base _ _ _ _ hcan hr hc ?_
  intro hf
  obtain ⟨M, hM, hsa⟩ := flag_hermitian hk row hrow hf ps hlen hv
  rw [hm] at hM; cases hM
  exact adj_eq_of_selfadjoint k hk.cj _ m hcan hsa

/-- regular gates over BUILT-IN bases: any nesting of controlled / dagger / exponential / integer power around a
    built-in gate at real parameter values.  No hypothesis on flags, sizes or arrays is left. -/
inductive RegularB (k : Scal R) : Gate R → Prop
  | base (g : Gate R) : IsBuiltin k g → RegularB k g
  | ctrl (g : Gate R) (c : Nat) : RegularB k g → RegularB k (.ctrl g c)
  | dag (g : Gate R) : RegularB k g → RegularB k (.dag g)
  | exp (g : Gate R) : RegularB k g → RegularB k (.exp g)
  | pow (g : Gate R) (e : Rat) : RegularB k g → e.den = 1 → RegularB k (.pow g e)

theorem regularB_regular {k : Scal R} (hk : Laws k) (g : Gate R) (h : RegularB k g) : Gate.Regular k g := by
  induction h with
  | base g hb => exact isBuiltin_regular hk g hb
  | ctrl g c _ ih => exact Gate.Regular.ctrl g c ih
  | dag g _ ih => exact Gate.Regular.dag g ih
  | exp g _ ih => exact Gate.Regular.exp g ih
  | pow g e _ he ih => exact Gate.Regular.pow g e ih he

/-! ### from bit assignments back to the `Fin (2^n)`-indexed executable matrix -/

theorem toM_of_toBV (n : Nat) (A : Mat R) (M : Matrix (Fin (2 ^ n)) (Fin (2 ^ n)) R)
    (h : C01.toBV n A = Matrix.reindex (C01.bvEquiv n) (C01.bvEquiv n) M) : Mat.toM (2 ^ n) (2 ^ n) A = M :=
  (Matrix.reindex (C01.bvEquiv n) (C01.bvEquiv n)).injective h

theorem toBV_conjTranspose (n : Nat) (A : Mat R) :
    (C01.toBV n A)ᴴ = Matrix.reindex (C01.bvEquiv n) (C01.bvEquiv n) (Mat.toM (2 ^ n) (2 ^ n) A)ᴴ := by
  unfold C01.toBV; rw [Matrix.conjTranspose_reindex]

theorem reindex_one (n : Nat) :
    Matrix.reindex (C01.bvEquiv n) (C01.bvEquiv n) (1 : Matrix (Fin (2 ^ n)) (Fin (2 ^ n)) R) = 1 := by
  rw [Matrix.reindex_apply, Matrix.submatrix_one_equiv]

/-- the bridge at a width given by an equation (avoids dependent casts) -/
theorem unitary_eq_Uc_at (k : Scal R) (x : Ext R) (c : Circ (Gate R)) (n : Nat) (hn : c.n = n) (hne : c.ops ≠ [])
    (hq : ∀ o ∈ c.ops, o.qs ≠ []) :
    (unitary k x c).map (C01.toBV n) = Uc k x n c.ops ∧
    ∀ U, unitary k x c = some U → U.r = 2 ^ n ∧ U.c = 2 ^ n := by
  subst hn; exact unitary_eq_Uc k x c hne hq

/-- a successful action means every operation is well formed -/
theorem opWF_of_Uc (k : Scal R) (x : Ext R) (n : Nat) (ops : List (GOp (Gate R)))
    (U : Matrix (BV (Fin n)) (BV (Fin n)) R) (h : Uc k x n ops = some U) :
    ∀ o ∈ ops, ∃ m, Gate.matrix k x o.gate = some m ∧ OpWF n m o.qs := by
  induction ops generalizing U with
  | nil => intro o ho; simp at ho
  | cons o rest ih =>
    simp only [Uc] at h
    cases hr : Uc k x n rest with
    | none => rw [hr] at h; simp at h
    | some ur =>
      cases hl : opDen? k x n o with
      | none => rw [hr, hl] at h; simp at h
      | some l =>
        intro o' ho'
        rcases List.mem_cons.mp ho' with rfl | ho'
        · unfold opDen? at hl
          cases hm : Gate.matrix k x o'.gate with
          | none => rw [hm] at hl; simp at hl
          | some m =>
            rw [hm] at hl
            simp only [Option.bind_some] at hl
            by_cases hw : OpWF n m o'.qs
            · exact ⟨m, rfl, hw⟩
            · rw [if_neg hw] at hl; cases hl
        · exact ih ur hr o' ho'

/-! ### unitarity: C02's `IsUnitaryOf` ⇒ the hypothesis `hu` of `inverse_appended_is_identity` -/

theorem idxL_range (kq : Nat) (u : BV (Fin kq)) :
    idxL kq (List.range kq) u = ((C01.bvEquiv kq).symm u).val := by
  have hlt : idxL kq (List.range kq) u < 2 ^ kq := by
    have := idxL_lt kq (List.range kq) u; rwa [List.length_range] at this
  have : (C01.bvEquiv kq).symm u = ⟨idxL kq (List.range kq) u, hlt⟩ := by
    rw [Equiv.symm_apply_eq]
    funext j
    rw [C01.bvEquiv_apply]
    have hb : ∀ b ∈ bitsL kq (List.range kq) u, b < 2 := fun b hb => by
      have := bitsL_le kq (List.range kq) u b hb; omega
    have hlen : (bitsL kq (List.range kq) u).length = kq := by rw [bitsL_length, List.length_range]
    have hj : j.val < (bitsL kq (List.range kq) u).length := by rw [hlen]; exact j.2
    have := C01.testBit_bitsToIndex (bitsL kq (List.range kq) u) hb j.val hj
    rw [hlen] at this
    show u j = (Lift.bitsToIndex (bitsL kq (List.range kq) u)).testBit (kq - 1 - j.val)
    rw [this]
    simp only [bitsL, List.getElem_map, List.getElem_range, j.2, dite_true, Fin.eta]
    cases u j <;> simp [bit]
  rw [this]

/-- the gate's own matrix over bit assignments (C08) is C01's `toBV` view of the executable matrix -/
theorem gateDen_eq_toBV (kq : Nat) (m : Mat R) : gateDen kq m = C01.toBV kq m := by
  ext u v
  rw [gateDen_apply, C01.toBV_apply, idxL_range, idxL_range]

theorem gateDen_unitary (kq : Nat) (m : Mat R) (h : IsUnitaryOf (2 ^ kq) m) :
    (gateDen kq m)ᴴ * gateDen kq m = 1 := by
  rw [gateDen_eq_toBV, toBV_conjTranspose]
  unfold C01.toBV
  simp only [Matrix.reindex_apply]
  rw [Matrix.submatrix_mul_equiv, h.2.2.1, Matrix.submatrix_one_equiv]

theorem toM_adj (k : Scal R) (hk : k.cj = star) (d : Nat) (m : Mat R) :
    Mat.toM d d (Gate.adj k m) = (Mat.toM d d m)ᴴ := by
  funext i j
  simp only [Mat.toM, Matrix.conjTranspose_apply]
  rw [Gate.adj_get k hk]

theorem adj_unitary (k : Scal R) (hk : k.cj = star) (d : Nat) (m : Mat R) (h : IsUnitaryOf d m) :
    IsUnitaryOf d (Gate.adj k m) := by
  obtain ⟨hr, hc, h1, h2⟩ := h
  refine ⟨by simp [hc], by simp [hr], ?_, ?_⟩
  · rw [toM_adj k hk, Matrix.conjTranspose_conjTranspose]; exact h2
  · rw [toM_adj k hk, Matrix.conjTranspose_conjTranspose]; exact h1

/-- `diag(1_e, M)` as a Mathlib block matrix -/
theorem toM_ctrlMat (e d : Nat) (m : Mat R) (hr : m.r = d) (hc : m.c = d) :
    Mat.toM (e + d) (e + d) (Gate.ctrlMat e m)
      = (Matrix.fromBlocks 1 0 0 (Mat.toM d d m)).submatrix finSumFinEquiv.symm finSumFinEquiv.symm := by
  funext i j
  obtain ⟨i', rfl⟩ := finSumFinEquiv.surjective i
  obtain ⟨j', rfl⟩ := finSumFinEquiv.surjective j
  simp only [Matrix.submatrix_apply, Equiv.symm_apply_apply, Mat.toM]
  rw [Gate.ctrlMat_get e m _ _ (by rw [hr]; exact Fin.isLt _) (by rw [hc]; exact Fin.isLt _)]
  cases i' with
  | inl a =>
    cases j' with
    | inl b =>
      have ha := a.2; have hb := b.2
      simp only [finSumFinEquiv_apply_left, Fin.val_castAdd, Matrix.fromBlocks_apply₁₁, Matrix.one_apply]
      by_cases hab : a.val = b.val <;> simp [ha, hb, Fin.ext_iff, hab]
    | inr b =>
      have ha := a.2
      simp only [finSumFinEquiv_apply_left, finSumFinEquiv_apply_right, Fin.val_castAdd, Fin.val_natAdd,
        Matrix.fromBlocks_apply₁₂, Matrix.zero_apply]
      have h1 : ¬ (a.val < e ∧ e + b.val < e) := by omega
      have h2 : ¬ (e ≤ a.val ∧ e ≤ e + b.val) := by omega
      simp [h1, h2]
  | inr a =>
    cases j' with
    | inl b =>
      have hb := b.2
      simp only [finSumFinEquiv_apply_left, finSumFinEquiv_apply_right, Fin.val_castAdd, Fin.val_natAdd,
        Matrix.fromBlocks_apply₂₁, Matrix.zero_apply]
      have h1 : ¬ (e + a.val < e ∧ b.val < e) := by omega
      have h2 : ¬ (e ≤ e + a.val ∧ e ≤ b.val) := by omega
      simp [h1, h2]
    | inr b =>
      simp only [finSumFinEquiv_apply_right, Fin.val_natAdd, Matrix.fromBlocks_apply₂₂]
      have h1 : ¬ (e + a.val < e ∧ e + b.val < e) := by omega
      simp [h1, Mat.toM]

theorem ctrlMat_unitary (e d : Nat) (m : Mat R) (h : IsUnitaryOf d m) : IsUnitaryOf (e + d) (Gate.ctrlMat e m) := by
  obtain ⟨hr, hc, h1, _⟩ := h
  refine isUnitaryOf_of_left _ _ (by simp [hr]) (by simp [hc]) ?_
  rw [toM_ctrlMat e d m hr hc, Matrix.conjTranspose_submatrix, Matrix.submatrix_mul_equiv,
    Matrix.fromBlocks_conjTranspose, Matrix.fromBlocks_multiply]
  simp only [Matrix.conjTranspose_one, Matrix.conjTranspose_zero, Matrix.mul_one, Matrix.mul_zero, Matrix.zero_mul,
    add_zero, zero_add, h1, Matrix.fromBlocks_one, Matrix.submatrix_one_equiv]

/-- unitary gates over built-in bases: any nesting of controlled / dagger around a built-in gate at real parameter
    values (`Exponential` is not unitary in general – `exp(X)` is not – and the assumed laws of sympy's `**` say
    nothing about unitarity, so those two wrappers are excluded here) -/
inductive UnitaryB (k : Scal R) : Gate R → Prop
  | base (g : Gate R) : IsBuiltin k g → UnitaryB k g
  | ctrl (g : Gate R) (c : Nat) : UnitaryB k g → UnitaryB k (.ctrl g c)
  | dag (g : Gate R) : UnitaryB k g → UnitaryB k (.dag g)

theorem unitaryB_regularB {k : Scal R} (g : Gate R) (h : UnitaryB k g) : RegularB k g := by
  induction h with
  | base g hb => exact RegularB.base g hb
  | ctrl g c _ ih => exact RegularB.ctrl g c ih
  | dag g _ ih => exact RegularB.dag g ih

/-- C02's unitarity of the built-in matrices, pushed through the `ControlledGate` / `Dagger` wrappers: the matrix
    always exists (no sympy call) and is a `2^num_qubits` unitary -/
theorem unitaryB_matrix {k : Scal R} (hk : Laws k) (x : Ext R) (g : Gate R) (h : UnitaryB k g) :
    ∃ m, Gate.matrix k x g = some m ∧ IsUnitaryOf (2 ^ Gate.nq g) m := by
  induction h with
  | base g hb =>
    obtain ⟨row, hrow, ps, m, hlen, hv, hm, hcan, rfl⟩ := isBuiltin_data k g hb
    obtain ⟨M, hM, hu⟩ := builtin_unitary hk row hrow ps hlen hv
    rw [hm] at hM; cases hM
    exact ⟨m, rfl, hu⟩
  | ctrl g c _ ih =>
    obtain ⟨m, hm, hu⟩ := ih
    refine ⟨Gate.ctrlMat (2 ^ (Gate.nq g + c) - 2 ^ Gate.nq g) m, by simp [Gate.matrix, hm], ?_⟩
    have hle : 2 ^ Gate.nq g ≤ 2 ^ (Gate.nq g + c) := Nat.pow_le_pow_right (by norm_num) (by omega)
    have := ctrlMat_unitary (2 ^ (Gate.nq g + c) - 2 ^ Gate.nq g) (2 ^ Gate.nq g) m hu
    rw [Nat.sub_add_cancel hle] at this
    exact this
  | dag g _ ih =>
    obtain ⟨m, hm, hu⟩ := ih
    exact ⟨Gate.adj k m, by simp [Gate.matrix, hm], adj_unitary k hk.cj _ m hu⟩

/-! ### Option-level conversions `toBV` → `toM` -/

theorem map_toM_conj (n : Nat) (a b : Option (Mat R))
    (h : a.map (C01.toBV n) = (b.map (C01.toBV n)).map conjTranspose) :
    a.map (Mat.toM (2 ^ n) (2 ^ n)) = b.map (fun U => (Mat.toM (2 ^ n) (2 ^ n) U)ᴴ) := by
  cases a <;> cases b <;> simp only [Option.map_some, Option.map_none, Option.some.injEq, reduceCtorEq] at h ⊢
  rw [toBV_conjTranspose] at h
  exact toM_of_toBV n _ _ h

theorem map_toM_eq (n : Nat) (a b : Option (Mat R)) (h : a.map (C01.toBV n) = b.map (C01.toBV n)) :
    a.map (Mat.toM (2 ^ n) (2 ^ n)) = b.map (Mat.toM (2 ^ n) (2 ^ n)) := by
  cases a <;> cases b <;> simp only [Option.map_some, Option.map_none, Option.some.injEq, reduceCtorEq] at h ⊢
  exact toM_of_toBV n _ _ h

theorem map_toM_one (n : Nat) (a : Option (Mat R)) (h : a.map (C01.toBV n) = some 1) :
    a.map (Mat.toM (2 ^ n) (2 ^ n)) = some 1 := by
  cases a <;> simp only [Option.map_some, Option.map_none, Option.some.injEq, reduceCtorEq] at h ⊢
  rw [← reindex_one n] at h
  exact toM_of_toBV n _ _ h

theorem mkCirc_n_of_ne {G : Type} (ops : List (GOp G)) (d : Nat) (hd : d ≠ 0) : (mkCirc ops d).n = d := by
  simp [mkCirc, hd]

/-! ### `UnitaryB` gates never call sympy -/

theorem unitaryB_dagger {k : Scal R} (g : Gate R) (h : UnitaryB k g) : UnitaryB k (Gate.dagger g) := by
  induction h with
  | base g hb =>
    obtain ⟨row, hrow, ps, m, hlen, hv, hm, hcan, rfl⟩ := isBuiltin_data k g hb
    cases hh : Row.isHermitian row with
    | true => rw [hh] at hb; simpa [Gate.dagger] using UnitaryB.base _ hb
    | false => rw [hh] at hb; simpa [Gate.dagger] using UnitaryB.dag _ (UnitaryB.base _ hb)
  | ctrl g c _ ih => exact UnitaryB.ctrl _ c ih
  | dag g h _ => exact h

theorem unitaryB_matrix_indep {k : Scal R} (x x' : Ext R) (g : Gate R) (h : UnitaryB k g) :
    Gate.matrix k x g = Gate.matrix k x' g := by
  induction h with
  | base g hb =>
    obtain ⟨row, hrow, ps, m, hlen, hv, hm, hcan, rfl⟩ := isBuiltin_data k g hb
    rfl
  | ctrl g c _ ih => simp only [Gate.matrix, ih]
  | dag g _ ih => simp only [Gate.matrix, ih]

/-- the external that always raises: it satisfies the assumed laws vacuously -/
def xNone : Ext R := ⟨fun _ => none, fun _ _ => none⟩

theorem xNone_laws (k : Scal R) : Gate.ExtLaws k (xNone : Ext R) :=
  ⟨fun _ _ _ h => by simp [xNone] at h, fun _ _ _ _ h => by simp [xNone] at h, fun _ _ _ => rfl,
   fun _ _ _ _ _ => rfl, fun _ _ _ _ _ _ => rfl⟩

/-- `.dagger` denotes the adjoint on `UnitaryB` gates – for ANY external (none is consulted) -/
theorem unitaryB_dagger_faithful {k : Scal R} (hk : Laws k) (x : Ext R) (g : Gate R) (h : UnitaryB k g) :
    Gate.matrix k x (Gate.dagger g) = (Gate.matrix k x g).map (Gate.adj k) := by
  have := Gate.dagger_faithful k hk.cj xNone (xNone_laws k) g (regularB_regular hk g (unitaryB_regularB g h))
  rw [unitaryB_matrix_indep x xNone g h, unitaryB_matrix_indep x xNone _ (unitaryB_dagger g h)]
  exact this

/-- an external that knows only the first power (`M ** 1 = M`): it satisfies the assumed laws -/
def xPow1 : Ext R := ⟨fun _ => none, fun m e => if e = 1 then some m else none⟩

theorem xPow1_laws (k : Scal R) : Gate.ExtLaws k (xPow1 : Ext R) := by
  refine ⟨?_, ?_, ?_, ?_, ?_⟩
  · intro A B _ h; simp [xPow1] at h
  · intro A e B hA h
    simp only [xPow1] at h
    split at h
    · simp only [Option.some.injEq] at h; subst h; exact ⟨hA, rfl, rfl⟩
    · simp at h
  · intro A _ _; rfl
  · intro A e _ _ _; simp only [xPow1]; split <;> rfl
  · intro A d e _ _ _; simp only [xPow1]; split <;> rfl

/-! ### the width of `Circuit.controlled` (width by operations) -/

theorem foldl_max_le_iff (l : List Nat) (a b : Nat) : l.foldl max a ≤ b ↔ a ≤ b ∧ ∀ q ∈ l, q ≤ b := by
  induction l generalizing a with
  | nil => simp
  | cons x l ih =>
    simp only [List.foldl_cons, ih, List.mem_cons, forall_eq_or_imp]
    constructor
    · rintro ⟨h1, h2⟩; exact ⟨by omega, by omega, h2⟩
    · rintro ⟨h1, h2, h3⟩; exact ⟨by omega, h3⟩

theorem foldl_max_mem (l : List Nat) (hl : l ≠ []) : l.foldl max 0 ∈ l := by
  have key : ∀ (l : List Nat) (a : Nat), l.foldl max a = a ∨ l.foldl max a ∈ l := by
    intro l
    induction l with
    | nil => intro a; simp
    | cons x l ih =>
      intro a
      simp only [List.foldl_cons, List.mem_cons]
      rcases ih (max a x) with h | h
      · rw [h]
        rcases Nat.le_total a x with hax | hax
        · right; left; omega
        · left; omega
      · right; right; exact h
  rcases key l 0 with h | h
  · obtain ⟨q, hq⟩ := List.exists_mem_of_ne_nil l hl
    have := ((foldl_max_le_iff l 0 (l.foldl max 0)).mp (le_refl _)).2 q hq
    have hq0 : q = 0 := by omega
    rw [h, ← hq0]; exact hq
  · exact h

/-- `Circuit.controlled(ci)` of a non-empty circuit whose width is the width by operations (the default of
    `Circuit(ops)`) and whose control index is at most that width is exactly one qubit wider -/
theorem controlledCirc_width {G : Type} (ctl : G → G) (ci : Nat) (circ : Circ G) (hne : circ.ops ≠ [])
    (hq : ∀ o ∈ circ.ops, o.qs ≠ []) (hn : circ.n = sizeByOps circ.ops) (hci : ci ≤ circ.n) :
    (controlledCirc ctl ci circ).n = circ.n + 1 := by
  have he : circ.ops.isEmpty = false := by
    cases h : circ.ops with
    | nil => exact absurd h hne
    | cons _ _ => rfl
  have he' : (circ.ops.map (fun o => (⟨ctl o.gate, ci :: o.qs.map (shiftIdx ci)⟩ : GOp G))).isEmpty = false := by
    cases h : circ.ops with
    | nil => exact absurd h hne
    | cons _ _ => rfl
  have hnM : circ.n = (circ.ops.flatMap (fun o => o.qs)).foldl max 0 + 1 := by
    rw [hn]; unfold sizeByOps; rw [he]; rfl
  have hw : (controlledCirc ctl ci circ).n =
      ((circ.ops.map (fun o => (⟨ctl o.gate, ci :: o.qs.map (shiftIdx ci)⟩ : GOp G))).flatMap (fun o => o.qs)).foldl max 0 + 1 := by
    unfold controlledCirc mkCirc sizeByOps
    simp only [ne_eq, not_true_eq_false, if_false, he']
    rfl
  rw [hw, hnM]
  congr 1
  set l := circ.ops.flatMap (fun o => o.qs) with hl
  set l' := (circ.ops.map (fun o => (⟨ctl o.gate, ci :: o.qs.map (shiftIdx ci)⟩ : GOp G))).flatMap (fun o => o.qs) with hl'
  have hmem' : ∀ z, z ∈ l' ↔ ∃ o ∈ circ.ops, z = ci ∨ ∃ q ∈ o.qs, z = shiftIdx ci q := by
    intro z
    simp only [hl', List.mem_flatMap, List.mem_map]
    constructor
    · rintro ⟨o', ⟨o, ho, rfl⟩, hz⟩
      simp only [List.mem_cons, List.mem_map] at hz
      rcases hz with rfl | ⟨q, hq', rfl⟩
      · exact ⟨o, ho, Or.inl rfl⟩
      · exact ⟨o, ho, Or.inr ⟨q, hq', rfl⟩⟩
    · rintro ⟨o, ho, hz⟩
      refine ⟨_, ⟨o, ho, rfl⟩, ?_⟩
      simp only [List.mem_cons, List.mem_map]
      rcases hz with rfl | ⟨q, hq', rfl⟩
      · exact Or.inl rfl
      · exact Or.inr ⟨q, hq', rfl⟩
  have hlne : l ≠ [] := by
    obtain ⟨o, ho⟩ := List.exists_mem_of_ne_nil _ hne
    obtain ⟨q, hq'⟩ := List.exists_mem_of_ne_nil _ (hq o ho)
    intro h0
    have : q ∈ l := by simp only [hl, List.mem_flatMap]; exact ⟨o, ho, hq'⟩
    rw [h0] at this; simp at this
  have hle : ∀ q ∈ l, q ≤ l.foldl max 0 := ((foldl_max_le_iff l 0 _).mp (le_refl _)).2
  have hle' : ∀ q ∈ l', q ≤ l'.foldl max 0 := ((foldl_max_le_iff l' 0 _).mp (le_refl _)).2
  apply Nat.le_antisymm
  · rw [foldl_max_le_iff]
    refine ⟨by omega, ?_⟩
    intro z hz
    obtain ⟨o, ho, hz⟩ := (hmem' z).mp hz
    rcases hz with rfl | ⟨q, hq', rfl⟩
    · omega
    · have : q ≤ l.foldl max 0 := hle q (by simp only [hl, List.mem_flatMap]; exact ⟨o, ho, hq'⟩)
      unfold shiftIdx; split <;> omega
  · have hM := foldl_max_mem l hlne
    simp only [hl, List.mem_flatMap] at hM
    obtain ⟨o, ho, hMo⟩ := hM
    by_cases hc : ci ≤ l.foldl max 0
    · have : shiftIdx ci (l.foldl max 0) ∈ l' := (hmem' _).mpr ⟨o, ho, Or.inr ⟨_, hMo, rfl⟩⟩
      have := hle' _ this
      unfold shiftIdx at this; rw [if_pos hc] at this; exact this
    · have : ci ∈ l' := (hmem' _).mpr ⟨o, ho, Or.inl rfl⟩
      have := hle' _ this
      omega
end OQ.C08.Link
