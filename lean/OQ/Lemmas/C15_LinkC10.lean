/- helper lemmas linking C15 (estimation by averaging) with C10 (sample statistics); not property theorems.
   The property theorems are in OQ/Props/C15_Link.lean. -/
import OQ.Props.C15
import OQ.Props.C10
namespace OQ.C15.Link
open OQ.C15

/-- a measured bit (0/1) of C15's shots as the Boolean of C10's shots -/
def toShot (b : Bits) : C10.Shot := b.map (fun x => decide (x ≠ 0))
def toShots (s : Shots) : List C10.Shot := s.map toShot
def toPauli10 : Pauli → C10.Pauli
  | .X => .X | .Y => .Y | .Z => .Z
/-- the Ising operator with the real parts of the coefficients, as C10's terms over ℚ -/
def reTerm (t : Term) : C10.Term Rat := ⟨t.coeff.re, t.ops.map (fun p => (p.1, toPauli10 p.2))⟩
def imTerm (t : Term) : C10.Term Rat := ⟨t.coeff.im, t.ops.map (fun p => (p.1, toPauli10 p.2))⟩
def reTerms (o : Op) : List (C10.Term Rat) := o.map reTerm
def imTerms (o : Op) : List (C10.Term Rat) := o.map imTerm

theorem reTerm_qubits (t : Term) : (reTerm t).qubits = t.qubits := by
  simp [reTerm, C10.Term.qubits, Term.qubits, List.map_map, Function.comp_def]
theorem imTerm_qubits (t : Term) : (imTerm t).qubits = t.qubits := by
  simp [imTerm, C10.Term.qubits, Term.qubits, List.map_map, Function.comp_def]

theorem toPauli10_isZ (p : Pauli) : (toPauli10 p == C10.Pauli.Z) = (p == Pauli.Z) := by
  cases p <;> rfl

theorem reTerm_isIsing (t : Term) : (reTerm t).isIsing = t.isIsing := by
  simp [reTerm, C10.Term.isIsing, Term.isIsing, List.all_map, Function.comp_def, toPauli10_isZ]
theorem imTerm_isIsing (t : Term) : (imTerm t).isIsing = t.isIsing := by
  simp [imTerm, C10.Term.isIsing, Term.isIsing, List.all_map, Function.comp_def, toPauli10_isZ]

theorem toShot_length (b : Bits) : (toShot b).length = b.length := by simp [toShot]

theorem bitAt_toShot (b : Bits) (q : Nat) : C10.bitAt (toShot b) q = decide (b.getD q 0 ≠ 0) := by
  unfold C10.bitAt toShot
  rw [List.getD_eq_getElem?_getD, List.getD_eq_getElem?_getD, List.getElem?_map]
  cases b[q]? <;> simp

theorem getD_le_one (b : Bits) (hb : ∀ x ∈ b, x ≤ 1) (q : Nat) : b.getD q 0 ≤ 1 := by
  rw [List.getD_eq_getElem?_getD]
  cases h : b[q]? with
  | none => simp
  | some x => simpa using hb x (List.mem_of_getElem? h)

/-- C10's eigenvalue of a shot = C15's eigenvalue of the same bitstring -/
theorem zval_toShot (qs : List Nat) (b : Bits) (hb : ∀ x ∈ b, x ≤ 1) :
    C10.zval qs (toShot b) = zEigenvalue qs b := by
  unfold C10.zval zEigenvalue
  congr 1
  apply List.map_congr_left
  intro q _
  rw [bitAt_toShot]
  have h1 := getD_le_one b hb q
  generalize b.getD q 0 = v at h1
  have h2 : v = 0 ∨ v = 1 := by omega
  rcases h2 with h | h <;> subst h <;> simp

/-- C15's sample mean (from the histogram) is C10's sample mean of the eigenvalue over the shots -/
theorem sampleMean_eq_meanZ (qs : List Nat) (shots : Shots) (hb : ∀ s ∈ shots, ∀ x ∈ s, x ≤ 1) :
    sampleMean qs shots = C10.meanZ (R := Rat) qs (toShots shots) := by
  unfold sampleMean C10.meanZ C10.mean toShots
  rw [List.length_map, List.map_map]
  congr 1
  rw [Int.cast_list_sum, List.map_map]
  congr 1
  apply List.map_congr_left
  intro s hs
  simp only [Function.comp]
  rw [zval_toShot qs s (hb s hs), paritySign_eq qs s (fun q _ => getD_le_one s (hb s hs) q)]
end OQ.C15.Link
