/- C18 — helper definitions of the translation tie `OQ/Props/C18_TranslatedProduction.lean` (not property theorems): how the opaque
   operation / gate objects of the translated `U3GateToRotation.production` are read in the model `OQ.C18`. -/
import OQ.Lemmas.C18_TranslatedDecompose
namespace OQ.C18

/-- `operation.params` (an operation that is not a gate operation has no gate parameters to unpack: the model's `production` raises
    for it, and so does the unpacking of an empty tuple) -/
def opParams {α R : Type} : Operation α R → List α
  | .gate g _ => g.params
  | .other _ _ => []

/-- `gate.num_control_qubits` (read only under `isinstance(gate, ControlledGate)`) -/
def gateControls {α R : Type} : Gate α R → Int
  | .controlled _ k => (k : Int)
  | _ => 0

/-- `operation.qubit_indices` as Python ints -/
def opQubits {α R : Type} (o : Operation α R) : List Int := o.qs.map Int.ofNat

theorem map_toNat_ofNat (qs : List Nat) : (qs.map Int.ofNat).map Int.toNat = qs := by
  induction qs with
  | nil => rfl
  | cons q qs ih => simp only [List.map_cons, ih]; rfl

end OQ.C18
