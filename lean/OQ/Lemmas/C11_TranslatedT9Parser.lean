/- helper lemmas for `OQ/Props/C11_TranslatedParser.lean` (T9): the string functions of the Python prelude against the model's
   character-level notions (brackets, blanks, decimal digits, Pauli letters); not property theorems -/
import OQ.Lemmas.C11_TranslatedT9
import OQ.Lemmas.C19_TranslatedT6
namespace OQ.C11
open OQ.Py OQ.Generated

theorem isPrefixOf_singleton (a : Char) (l : List Char) : [a].isPrefixOf l = decide (l.head? = some a) := by
  cases l with
  | nil => simp
  | cons b t =>
    by_cases h : a = b
    · subst h; simp [List.isPrefixOf]
    · have h' : ¬ b = a := fun e => h e.symm
      simp [List.isPrefixOf, h, h']

theorem replaceChar_space (s : List Char) : replaceChar s ' ' [] = s.filter (fun c => c ≠ ' ') := by
  unfold replaceChar
  induction s with
  | nil => rfl
  | cons c cs ih =>
    rw [List.flatMap_cons, List.filter_cons, ih]
    by_cases h : c = ' '
    · subst h; simp
    · have : (c == ' ') = false := by simpa using h
      simp [this, h]

theorem asciiDigit_cases (d : Char) (h : isAsciiDigit d = true) :
    d = '0' ∨ d = '1' ∨ d = '2' ∨ d = '3' ∨ d = '4' ∨ d = '5' ∨ d = '6' ∨ d = '7' ∨ d = '8' ∨ d = '9' := by
  simp only [isAsciiDigit, Bool.and_eq_true, decide_eq_true_eq] at h
  have hd : d = Char.ofNat d.toNat := (Char.ofNat_toNat d).symm
  obtain ⟨h1, h2⟩ := h
  generalize d.toNat = n at *
  subst hd
  have : n = 48 ∨ n = 49 ∨ n = 50 ∨ n = 51 ∨ n = 52 ∨ n = 53 ∨ n = 54 ∨ n = 55 ∨ n = 56 ∨ n = 57 := by omega
  rcases this with h | h | h | h | h | h | h | h | h | h <;> subst h <;> decide

theorem digitVal_of_ascii (d : Char) (h : isAsciiDigit d = true) : digitVal d = some (d.toNat - 48) := by
  rcases asciiDigit_cases d h with h | h | h | h | h | h | h | h | h | h <;> subst h <;> rfl

theorem ascii_of_digitVal (d : Char) (h : (digitVal d).isSome = true) : isAsciiDigit d = true := by
  unfold digitVal at h
  split_ifs at h with h0 h1 h2 h3 h4 h5 h6 h7 h8 h9
  all_goals first | (subst_vars; rfl) | (simp at h)

theorem isAsciiDigit_eq_digitVal (d : Char) : isAsciiDigit d = (digitVal d).isSome := by
  cases h : isAsciiDigit d with
  | true => rw [digitVal_of_ascii d h]; rfl
  | false =>
    cases h2 : (digitVal d).isSome with
    | false => rfl
    | true => rw [ascii_of_digitVal d h2] at h; exact absurd h (by simp)

theorem readNat_eq_valDigits (ds : List Char) (h : ∀ c ∈ ds, isAsciiDigit c = true) : readNat ds = OQ.C19.valDigits ds := by
  unfold readNat OQ.C19.valDigits
  suffices H : ∀ acc : Nat, ds.foldl (fun acc c => acc * 10 + (digitVal c).getD 0) acc
      = ds.foldl (fun a c => 10 * a + (c.toNat - '0'.toNat)) acc from H 0
  induction ds with
  | nil => intro acc; rfl
  | cons c cs ih =>
    intro acc
    simp only [List.foldl_cons]
    rw [digitVal_of_ascii c (h c (by simp)), ih (fun c hc => h c (by simp [hc]))]
    simp [Nat.mul_comm]

theorem pauli_letter (c : Char) :
    (∃ p, pauliOfChar c = some p ∧ "XYZIxyzi".toList.contains c = true ∧ upperAscii [c] = [pauliChar p]) ∨
    (pauliOfChar c = none ∧ "XYZIxyzi".toList.contains c = false) := by
  have hl : "XYZIxyzi".toList = ['X', 'Y', 'Z', 'I', 'x', 'y', 'z', 'i'] := by decide
  rw [hl]
  by_cases h1 : c = 'X'; · subst h1; exact .inl ⟨.X, by decide, by decide, by decide⟩
  by_cases h2 : c = 'x'; · subst h2; exact .inl ⟨.X, by decide, by decide, by decide⟩
  by_cases h3 : c = 'Y'; · subst h3; exact .inl ⟨.Y, by decide, by decide, by decide⟩
  by_cases h4 : c = 'y'; · subst h4; exact .inl ⟨.Y, by decide, by decide, by decide⟩
  by_cases h5 : c = 'Z'; · subst h5; exact .inl ⟨.Z, by decide, by decide, by decide⟩
  by_cases h6 : c = 'z'; · subst h6; exact .inl ⟨.Z, by decide, by decide, by decide⟩
  by_cases h7 : c = 'I'; · subst h7; exact .inl ⟨.I, by decide, by decide, by decide⟩
  by_cases h8 : c = 'i'; · subst h8; exact .inl ⟨.I, by decide, by decide, by decide⟩
  right
  constructor
  · simp [pauliOfChar, h1, h2, h3, h4, h5, h6, h7, h8]
  · simp [h1, h2, h3, h4, h5, h6, h7, h8]

end OQ.C11
