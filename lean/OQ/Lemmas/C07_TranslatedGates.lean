/- C07 — translation tie of the gate CLASSES: embedding of the model's gates into the REGENERATED classes
   (`OQ.Generated.TranslatedGates`, harness/translate_cls.py) and helper lemmas.  The tie theorems are in
   OQ/Props/C07_TranslatedGates.lean (read its header first). -/
import OQ.Generated.TranslatedGates
import OQ.Lemmas.C07
namespace OQ.C07
open OQ.Generated
namespace TG
variable {P R : Type}

/-- the generated gate type at the model's parameters: factories are the model's `List P → Except Err (Mat R)`, exponents `Rat` -/
abbrev TGate (P R : Type) := TranslatedGates.Gate P (List P → Except Err (Mat R)) Rat

/-- the model's gate tree as an object of the generated classes -/
def emb : Gate P R → TGate P R
  | .base b => .MatrixFactoryGate b.name b.factory b.params (b.numQubits : Int) b.hermitian
  | .controlled g km1 => .ControlledGate (emb g) ((km1 : Int) + 1)
  | .dagger g => .Dagger (emb g)
  | .power g e => .Power (emb g) e
  | .exponential g => .Exponential (emb g)

/-- INSTANTIATION of the externals for the numeric model: no parameter has free symbols (and nothing is substituted) -/
def noSymbols (P : Type) : TranslatedGates.Ext P Empty Unit := ⟨fun _ => [], fun p _ => p⟩

/-- exception classes of the generated code as the model's error values -/
def errOf : TranslatedGates.Err → Err
  | .ValueError => .value
  | .NotImplementedError => .ext "NotImplementedError"

def toModel {α : Type} : Except TranslatedGates.Err α → Except Err α
  | .ok a => .ok a
  | .error e => .error (errOf e)

/-- what the constructor guards leave: every control count ≥ 1 (and a base gate acts on a natural number of qubits) -/
def TValid : TGate P R → Prop
  | .MatrixFactoryGate _ _ _ nq _ => 0 ≤ nq
  | .ControlledGate t k => 1 ≤ k ∧ TValid t
  | .Dagger t => TValid t
  | .Exponential t => TValid t
  | .Power t _ => TValid t

@[simp] theorem toModel_ok {α} (a : α) : toModel (.ok a : Except TranslatedGates.Err α) = .ok a := rfl
@[simp] theorem bind_ok {ε α β} (a : α) (f : α → Except ε β) : Except.bind (.ok a) f = f a := rfl
@[simp] theorem bind_error {ε α β} (e : ε) (f : α → Except ε β) : Except.bind (.error e : Except ε α) f = .error e := rfl
@[simp] theorem map_ok {ε α β} (a : α) (f : α → β) : Except.map f (.ok a : Except ε α) = .ok (f a) := rfl
@[simp] theorem map_error {ε α β} (e : ε) (f : α → β) : Except.map f (.error e : Except ε α) = .error e := rfl
theorem toModel_bind {α β} (r : Except TranslatedGates.Err α) (f : α → Except TranslatedGates.Err β) :
    toModel (Except.bind r f) = Except.bind (toModel r) (fun a => toModel (f a)) := by
  cases r <;> rfl
theorem toModel_eq_ok {α} {r : Except TranslatedGates.Err α} {a : α} (h : toModel r = .ok a) : r = .ok a := by
  cases r with
  | ok b => simpa [toModel] using h
  | error e => simp [toModel] at h

theorem free_symbols_none (t : TGate P R) : TranslatedGates.Gate.free_symbols (noSymbols P) t = [] := by
  cases t <;> rfl

theorem mk_Power_ok (t : TGate P R) (e : Rat) : TranslatedGates.mk_Power (noSymbols P) t e = .ok (.Power t e) := by
  simp [TranslatedGates.mk_Power, free_symbols_none]

theorem mk_Exponential_ok (t : TGate P R) : TranslatedGates.mk_Exponential (noSymbols P) t = .ok (.Exponential t) := by
  simp [TranslatedGates.mk_Exponential, free_symbols_none]

theorem mk_ControlledGate_pos (t : TGate P R) (k : Nat) :
    TranslatedGates.mk_ControlledGate t ((k : Int) + 1) = .ok (.ControlledGate t ((k : Int) + 1)) := by
  have : ¬ ((k : Int) + 1 < 1) := by omega
  simp [TranslatedGates.mk_ControlledGate, this]


end TG
end OQ.C07
