/- helper lemma for the translation tie of `split_estimation_tasks_to_measure` (not a property theorem) -/
import OQ.Model.C15
namespace OQ.C15

theorem split_fold {C : Type} (tasks : List (Task C)) (k : Nat) (acc : Split C) :
    (tasks.zipIdx k).foldl (fun (st : (List Int) × (List (Task C)) × (List Int) × (List (Task C))) (p : Task C × Nat) =>
        if (p.1.op.isConstant || (p.1.shots == some (0 : Int))) then
          (st.1 ++ [((p.2 : Nat) : Int)], st.2.1 ++ [p.1], st.2.2.1, st.2.2.2)
        else (st.1, st.2.1, st.2.2.1 ++ [((p.2 : Nat) : Int)], st.2.2.2 ++ [p.1]))
      (acc.idxNot.map Int.ofNat, acc.notToMeasure, acc.idxMeasure.map Int.ofNat, acc.toMeasure)
    = ((splitLoop tasks k acc).idxNot.map Int.ofNat, (splitLoop tasks k acc).notToMeasure,
       (splitLoop tasks k acc).idxMeasure.map Int.ofNat, (splitLoop tasks k acc).toMeasure) := by
  induction tasks generalizing k acc with
  | nil => rfl
  | cons t ts ih =>
    rw [List.zipIdx_cons, List.foldl_cons]
    simp only [splitLoop, notMeasured]
    split
    · rename_i h
      simp only [h, if_true]
      have := ih (k + 1) { acc with notToMeasure := acc.notToMeasure ++ [t], idxNot := acc.idxNot ++ [k] }
      simpa using this
    · rename_i h
      simp only [h, Bool.false_eq_true, if_false]
      have := ih (k + 1) { acc with toMeasure := acc.toMeasure ++ [t], idxMeasure := acc.idxMeasure ++ [k] }
      simpa using this

end OQ.C15
