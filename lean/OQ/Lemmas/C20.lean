/-
  helper lemmas for C20 (not property theorems): monotone reads, frames of the store helpers,
  what the helpers build, frame / denotation of `effects`.  Core Lean only.
-/
import OQ.Model.C20
namespace OQ.C20

theorem alloc_prefix {h0 h : Heap} (c : Cell) (hp : h0 <+: h) : h0 <+: (alloc h c).1 :=
  hp.trans (List.prefix_append _ _)

theorem write_prefix {h0 h : Heap} (r : Ref) (c : Cell) (hp : h0 <+: h) (hr : h0.length ≤ r) :
    h0 <+: write h r c := by
  obtain ⟨t, rfl⟩ := hp
  unfold write
  rw [List.set_append_right _ _ hr]
  exact List.prefix_append _ _

theorem prefix_get {h h' : Heap} (hp : h <+: h') {r : Ref} {c : Cell} (hc : h[r]? = some c) : h'[r]? = some c := by
  obtain ⟨t, rfl⟩ := hp
  have hlt : r < h.length := by
    rcases Nat.lt_or_ge r h.length with hl | hge
    · exact hl
    · rw [List.getElem?_eq_none hge] at hc; cases hc
  rw [List.getElem?_append_left hlt]; exact hc

/-! ### reads are monotone along store extension -/

theorem getOps_mono {h h' : Heap} (hp : h <+: h') {r : Ref} {v} (hv : getOps h r = some v) : getOps h' r = some v := by
  unfold getOps at hv ⊢
  split at hv <;> try cases hv
  rename_i o ho
  rw [prefix_get hp ho]

theorem getPdict_mono {h h' : Heap} (hp : h <+: h') {r : Ref} {v} (hv : getPdict h r = some v) : getPdict h' r = some v := by
  unfold getPdict at hv ⊢
  split at hv <;> try cases hv
  rename_i o ho
  rw [prefix_get hp ho]

theorem getTlist_mono {h h' : Heap} (hp : h <+: h') {r : Ref} {v} (hv : getTlist h r = some v) : getTlist h' r = some v := by
  unfold getTlist at hv ⊢
  split at hv <;> try cases hv
  rename_i o ho
  rw [prefix_get hp ho]

theorem getBlist_mono {h h' : Heap} (hp : h <+: h') {r : Ref} {v} (hv : getBlist h r = some v) : getBlist h' r = some v := by
  unfold getBlist at hv ⊢
  split at hv <;> try cases hv
  rename_i o ho
  rw [prefix_get hp ho]

theorem getDdict_mono {h h' : Heap} (hp : h <+: h') {r : Ref} {v} (hv : getDdict h r = some v) : getDdict h' r = some v := by
  unfold getDdict at hv ⊢
  split at hv <;> try cases hv
  rename_i o ho
  rw [prefix_get hp ho]

theorem getArr_mono {h h' : Heap} (hp : h <+: h') {r : Ref} {v} (hv : getArr h r = some v) : getArr h' r = some v := by
  unfold getArr at hv ⊢
  split at hv <;> try cases hv
  rename_i o ho
  rw [prefix_get hp ho]

theorem getTerm_mono {h h' : Heap} (hp : h <+: h') {r : Ref} {v} (hv : getTerm h r = some v) : getTerm h' r = some v := by
  unfold getTerm at hv ⊢
  split at hv
  · rename_i d c hd
    split at hv
    · rename_i o ho
      rw [prefix_get hp hd]; simp only [getPdict_mono hp ho]; exact hv
    · cases hv
  · cases hv

theorem getTerms_mono {h h' : Heap} (hp : h <+: h') {rs : List Ref} {vs} (hv : getTerms h rs = some vs) :
    getTerms h' rs = some vs := by
  induction rs generalizing vs with
  | nil => simpa [getTerms] using hv
  | cons r rs ih =>
    unfold getTerms at hv ⊢
    split at hv
    · rename_i v vs' h1 h2
      rw [getTerm_mono hp h1, ih h2]; exact hv
    · cases hv

theorem view?_mono {h h' : Heap} (hp : h <+: h') {r : Ref} {o} (hv : view? h r = some o) : view? h' r = some o := by
  unfold view? at hv ⊢
  split at hv
  · cases hv
  all_goals (rename_i hc; rw [prefix_get hp hc]; simp only [])
  all_goals (try exact hv)
  · split at hv
    · rename_i x hx; rw [getOps_mono hp hx]; exact hv
    · cases hv
  · split at hv
    · rename_i x hx; rw [getPdict_mono hp hx]; exact hv
    · cases hv
  · split at hv
    · rename_i x hx; rw [getTerms_mono hp hx]; exact hv
    · cases hv
  · split at hv
    · rename_i x hx
      split at hv
      · rename_i y hy; rw [getTlist_mono hp hx]; simp only [getTerms_mono hp hy]; exact hv
      · cases hv
    · cases hv
  · split at hv
    · rename_i x hx; rw [getBlist_mono hp hx]; exact hv
    · cases hv
  · split at hv
    · rename_i x hx; rw [getDdict_mono hp hx]; exact hv
    · cases hv
  · split at hv
    · rename_i x hx; rw [getArr_mono hp hx]; exact hv
    · cases hv

/-! ### frames of the store helpers: the store before is a prefix of the store after -/

theorem allocTerm_prefix {h0 h : Heap} (v : TermV) (hp : h0 <+: h) : h0 <+: (allocTerm h v).1 := by
  unfold allocTerm; exact alloc_prefix _ (alloc_prefix _ hp)

theorem allocTerms_prefix {h0 h : Heap} (vs : List TermV) (hp : h0 <+: h) : h0 <+: (allocTerms h vs).1 := by
  induction vs generalizing h with
  | nil => exact hp
  | cons v vs ih => unfold allocTerms; exact ih (allocTerm_prefix v hp)

theorem mkSum_prefix {h0 h : Heap} (rs : List Ref) (hp : h0 <+: h) : h0 <+: (mkSum h rs).1 := by
  unfold mkSum; exact alloc_prefix _ (alloc_prefix _ hp)

theorem mkCircuit_prefix {h0 h : Heap} (ops : List GOp) (nq : Nat) (hp : h0 <+: h) :
    h0 <+: (mkCircuit h ops nq).1 := by
  unfold mkCircuit; exact alloc_prefix _ (alloc_prefix _ hp)

theorem allocDecisions_prefix {h0 h : Heap} (lts : Located) (ds : List Decision) (hp : h0 <+: h) :
    h0 <+: (allocDecisions h lts ds).1 := by
  induction ds generalizing h with
  | nil => exact hp
  | cons d ds ih =>
    cases d with
    | share i =>
      unfold allocDecisions
      split
      · exact ih hp
      · exact ih hp
    | fresh v => unfold allocDecisions; exact ih (allocTerm_prefix v hp)

theorem simplifyE_prefix {h0 h : Heap} (lts : Located) (hp : h0 <+: h) : h0 <+: (simplifyE h lts).1 := by
  unfold simplifyE; exact mkSum_prefix _ (allocDecisions_prefix _ _ hp)

theorem termMulE_prefix {h0 h : Heap} (a b : TermV) (hp : h0 <+: h) : h0 <+: (termMulE h a b).1 := by
  unfold termMulE; exact allocTerm_prefix _ (allocTerms_prefix _ hp)

theorem foldl_prefix {α β : Type} (f : Heap × β → α → Heap × β) (h0 : Heap)
    (hf : ∀ acc x, h0 <+: acc.1 → h0 <+: (f acc x).1) (xs : List α) (acc : Heap × β) (hp : h0 <+: acc.1) :
    h0 <+: (xs.foldl f acc).1 := by
  induction xs generalizing acc with
  | nil => exact hp
  | cons x xs ih => exact ih _ (hf acc x hp)

theorem productsE_prefix {h0 h : Heap} (va vb : List TermV) (hp : h0 <+: h) : h0 <+: (productsE h va vb).1 := by
  unfold productsE
  refine foldl_prefix _ h0 ?_ _ _ hp
  intro acc x hacc
  exact termMulE_prefix _ _ hacc

theorem sumMulE_prefix {h0 h : Heap} (va vb : List TermV) (hp : h0 <+: h) : h0 <+: (sumMulE h va vb).1 := by
  unfold sumMulE; exact simplifyE_prefix _ (mkSum_prefix _ (productsE_prefix _ _ hp))

theorem termPowE_prefix {h0 h : Heap} (x : TermV) (fuel n : Nat) (hp : h0 <+: h) :
    h0 <+: (termPowE h x fuel n).1 := by
  induction fuel generalizing n h with
  | zero => unfold termPowE; exact allocTerm_prefix _ hp
  | succ f ih =>
    unfold termPowE
    split
    · exact allocTerm_prefix _ hp
    · split
      · exact termMulE_prefix _ _ (ih _ hp)
      · exact termMulE_prefix _ _ (ih _ hp)

theorem sumPowE_prefix {h0 h : Heap} (x : List TermV) (fuel n : Nat) (hp : h0 <+: h) :
    h0 <+: (sumPowE h x fuel n).1 := by
  induction fuel generalizing n h with
  | zero => unfold sumPowE; exact mkSum_prefix _ (allocTerm_prefix _ hp)
  | succ f ih =>
    unfold sumPowE
    split
    · exact mkSum_prefix _ (allocTerm_prefix _ hp)
    · split
      · exact sumMulE_prefix _ _ (ih _ hp)
      · exact sumMulE_prefix _ _ (ih _ hp)

theorem sumConjE_prefix {h0 h : Heap} (va : List TermV) (hp : h0 <+: h) : h0 <+: (sumConjE h va).1 := by
  unfold sumConjE
  refine foldl_prefix _ h0 ?_ _ _ (mkSum_prefix _ hp)
  intro acc x hacc
  exact simplifyE_prefix _ (mkSum_prefix _ (allocTerms_prefix _ (mkSum_prefix _ (allocTerm_prefix _ hacc))))

/-- the in-place normalisation of the constructor hits the dict the constructor has just built -/
theorem distCtorE_prefix {h0 h : Heap} (d : DDict) (nrm : Bool) (hp : h0 <+: h) : h0 <+: (distCtorE h d nrm).1 := by
  unfold distCtorE
  apply alloc_prefix
  have hle : h0.length ≤ (alloc h (Cell.ddict (preprocessV d))).2 := hp.length_le
  split
  · split
    · exact alloc_prefix _ hp
    · exact write_prefix _ _ (alloc_prefix _ hp) hle
  · exact alloc_prefix _ hp

theorem foldl_write_prefix {α β : Type} (h0 : Heap) (r : Ref) (hr : h0.length ≤ r)
    (g : Heap × β → α → Cell) (k : Heap × β → α → β) (xs : List α) (acc : Heap × β) (hp : h0 <+: acc.1) :
    h0 <+: (xs.foldl (fun acc x => (write acc.1 r (g acc x), k acc x)) acc).1 :=
  foldl_prefix _ h0 (fun _ _ hacc => write_prefix _ _ hacc hr) _ _ hp

theorem foldl_write_prefix' {α : Type} (h0 : Heap) (r : Ref) (hr : h0.length ≤ r)
    (g : α → Cell) (xs : List α) (acc : Heap) (hp : h0 <+: acc) :
    h0 <+: xs.foldl (fun acc x => write acc r (g x)) acc := by
  induction xs generalizing acc with
  | nil => exact hp
  | cons x xs ih => exact ih _ (write_prefix _ _ hp hr)

/-- FRAME of every listed operation: whatever the arguments, no existing cell is written. -/
theorem effects_frame (h : Heap) (c : Call) (vs : List (Option Obs)) : h <+: (effects h c vs).1 := by
  have h0 : h <+: h := List.prefix_rfl
  cases c <;> simp only [effects]
  case litOps => exact alloc_prefix _ h0
  case litTerms => exact alloc_prefix _ h0
  case litBits => exact alloc_prefix _ h0
  case litDict => exact alloc_prefix _ h0
  case litArr => exact alloc_prefix _ h0
  case circNew => split; exact mkCircuit_prefix _ _ h0; exact h0
  case circAdd => split; exact mkCircuit_prefix _ _ (alloc_prefix _ h0); exact h0
  case circAddOp => split; exact mkCircuit_prefix _ _ (alloc_prefix _ h0); exact h0
  case circBind =>
    split
    · split
      · exact mkCircuit_prefix _ _ (alloc_prefix _ h0)
      · exact h0
    · exact h0
  case circInverse => split; exact mkCircuit_prefix _ _ (alloc_prefix _ h0); exact h0
  case circControlled => split; exact mkCircuit_prefix _ _ (alloc_prefix _ h0); exact h0
  case termNew => exact allocTerm_prefix _ h0
  case termCopy => split; exact allocTerm_prefix _ h0; exact h0
  case termMul => split; exact termMulE_prefix _ _ h0; exact h0
  case termScale => split; exact allocTerm_prefix _ h0; exact h0
  case termAdd => split; exact simplifyE_prefix _ (mkSum_prefix _ h0); exact h0
  case termPow => split; exact termPowE_prefix _ _ _ (allocTerm_prefix _ h0); exact h0
  case sumNew => split; exact alloc_prefix _ h0; exact h0
  case sumAdd =>
    split
    · split
      · refine simplifyE_prefix _ (mkSum_prefix _ (allocTerms_prefix _ ?_))
        split
        · exact mkSum_prefix _ h0
        · exact h0
      · exact h0
    · exact h0
  case sumMul =>
    split
    · split
      · refine sumMulE_prefix _ _ ?_
        split
        · exact termMulE_prefix _ _ (allocTerm_prefix _ h0)
        · exact h0
      · exact h0
    · exact h0
  case sumRMul =>
    split
    · exact simplifyE_prefix _ (mkSum_prefix _ (allocTerms_prefix _ (allocTerms_prefix _ h0)))
    · exact h0
  case sumPow => split; exact sumPowE_prefix _ _ _ h0; exact h0
  case sumSimplify => split; exact simplifyE_prefix _ h0; exact h0
  case opConj => split; exact allocTerm_prefix _ h0; exact sumConjE_prefix _ h0; exact h0
  case measNew => split; exact alloc_prefix _ h0; exact h0
  case measFromCounts counts =>
    -- `+=` in place on the list created by `cls()`
    exact foldl_write_prefix h _ (Nat.le_refl _) _ _ _ _ (alloc_prefix _ (alloc_prefix _ h0))
  case measDistribution => split; exact distCtorE_prefix _ _ (alloc_prefix _ h0); exact h0
  case measRepresenting =>
    split; exact alloc_prefix _ (alloc_prefix _ (alloc_prefix _ h0)); exact h0
  case distNew => split; exact distCtorE_prefix _ _ h0; exact h0
  case distSub =>
    -- `new_counts[k] = …` in place on the dict created at the top
    split
    · refine distCtorE_prefix _ _ ?_
      exact foldl_write_prefix' h _ (Nat.le_refl _) _ _ _ (alloc_prefix _ (alloc_prefix _ h0))
    · exact h0
  case wfNew => split; exact alloc_prefix _ h0; exact h0
  case wfBind => split; exact h0; exact h0
  case measCounts => exact h0
  case wfProbs => exact h0
  case report => exact h0

/-! ### what the store helpers build: the returned reference denotes the intended value -/

theorem alloc_get (h : Heap) (c : Cell) : (alloc h c).1[(alloc h c).2]? = some c := by
  simp [alloc]

theorem alloc_pre (h : Heap) (c : Cell) : h <+: (alloc h c).1 := List.prefix_append _ _

theorem get_last (h : Heap) (c : Cell) : (h ++ [c])[h.length]? = some c := by simp

theorem get_last2 (h : Heap) (c d : Cell) : (h ++ [c] ++ [d])[h.length]? = some c := by
  rw [List.getElem?_append_left (by simp)]; simp

theorem get_last2' (h : Heap) (c d : Cell) : (h ++ [c] ++ [d])[h.length + 1]? = some d := by
  have : (h ++ [c]).length = h.length + 1 := by simp
  rw [← this]; exact get_last _ _

theorem allocTerm_spec (h : Heap) (v : TermV) : getTerm (allocTerm h v).1 (allocTerm h v).2 = some v := by
  simp only [allocTerm, alloc, getTerm, getPdict, List.length_append, List.length_singleton]
  rw [get_last2', ]
  simp only [get_last2]

theorem mkCircuit_view (h : Heap) (ops : List GOp) (nq : Nat) :
    view? (mkCircuit h ops nq).1 (mkCircuit h ops nq).2 = some (.circuit ops nq) := by
  simp only [mkCircuit, alloc, view?, getOps, List.length_append, List.length_singleton]
  rw [get_last2']
  simp only [get_last2]

/-- located terms really are where they are said to be -/
def LocOk (h : Heap) (lts : Located) : Prop := ∀ p ∈ lts, getTerm h p.1 = some p.2

theorem LocOk.mono {h h' : Heap} {lts : Located} (hp : h <+: h') (hl : LocOk h lts) : LocOk h' lts :=
  fun p hpm => getTerm_mono hp (hl p hpm)

theorem getTerms_of_locOk {h : Heap} {lts : Located} (hl : LocOk h lts) :
    getTerms h (lts.map (·.1)) = some (lts.map (·.2)) := by
  induction lts with
  | nil => rfl
  | cons p ps ih =>
    simp only [List.map_cons, getTerms]
    rw [hl p (by simp), ih (fun q hq => hl q (by simp [hq]))]

theorem allocTerms_length (h : Heap) (vs : List TermV) : (allocTerms h vs).2.length = vs.length := by
  induction vs generalizing h with
  | nil => rfl
  | cons v vs ih => simp only [allocTerms, List.length_cons, ih]

theorem allocTerms_spec (h : Heap) (vs : List TermV) :
    LocOk (allocTerms h vs).1 (locate (allocTerms h vs).2 vs) := by
  induction vs generalizing h with
  | nil => intro p hp; simp [allocTerms, locate] at hp
  | cons v vs ih =>
    intro p hp
    simp only [allocTerms, locate, List.zip_cons_cons, List.mem_cons] at hp
    simp only [allocTerms]
    rcases hp with rfl | hp
    · exact getTerm_mono (allocTerms_prefix vs (h := (allocTerm h v).1) List.prefix_rfl) (allocTerm_spec h v)
    · exact ih _ p hp

theorem locate_fst (rs : List Ref) (vs : List TermV) (hl : rs.length = vs.length) :
    (locate rs vs).map (·.1) = rs := by
  unfold locate
  induction rs generalizing vs with
  | nil => simp
  | cons r rs ih =>
    cases vs with
    | nil => simp at hl
    | cons v vs => simp only [List.zip_cons_cons, List.map_cons]; rw [ih vs (by simpa using hl)]

theorem locate_snd (rs : List Ref) (vs : List TermV) (hl : rs.length = vs.length) :
    (locate rs vs).map (·.2) = vs := by
  unfold locate
  induction rs generalizing vs with
  | nil => cases vs with
    | nil => simp
    | cons v vs => simp at hl
  | cons r rs ih =>
    cases vs with
    | nil => simp at hl
    | cons v vs => simp only [List.zip_cons_cons, List.map_cons]; rw [ih vs (by simpa using hl)]

theorem mkSum_view {h : Heap} {lts : Located} (hl : LocOk h lts) :
    view? (mkSum h (lts.map (·.1))).1 (mkSum h (lts.map (·.1))).2 = some (.psum (lts.map (·.2))) := by
  have hg : getTerms (h ++ [Cell.tlist (lts.map (·.1))] ++ [Cell.psum h.length]) (lts.map (·.1)) = some (lts.map (·.2)) :=
    getTerms_mono ((List.prefix_append _ _).trans (List.prefix_append _ _)) (getTerms_of_locOk hl)
  simp only [mkSum, alloc, view?, getTlist, List.length_append, List.length_singleton]
  rw [get_last2']
  simp only [get_last2, hg]

theorem allocDecisions_spec {h : Heap} {lts : Located} (hl : LocOk h lts) (ds : List Decision) :
    LocOk (allocDecisions h lts ds).1 (allocDecisions h lts ds).2 ∧
    (allocDecisions h lts ds).2.map (·.2) = ds.filterMap (decisionValue (lts.map (·.2))) := by
  induction ds generalizing h with
  | nil => exact ⟨fun p hp => by simp [allocDecisions] at hp, rfl⟩
  | cons d ds ih =>
    cases d with
    | share i =>
      have ih' := ih hl
      simp only [allocDecisions, List.filterMap_cons, decisionValue, List.getElem?_map]
      cases hi : lts[i]? with
      | none => simpa using ih'
      | some p =>
        simp only [Option.map_some]
        refine ⟨?_, by simp [ih'.2]⟩
        intro q hq
        simp only [List.mem_cons] at hq
        rcases hq with rfl | hq
        · exact getTerm_mono (allocDecisions_prefix _ _ List.prefix_rfl) (hl _ (List.mem_of_getElem? hi))
        · exact ih'.1 q hq
    | fresh v =>
      have ih' := ih (h := (allocTerm h v).1) (hl.mono (allocTerm_prefix _ List.prefix_rfl))
      simp only [allocDecisions, List.filterMap_cons, decisionValue]
      refine ⟨?_, by simp [ih'.2]⟩
      intro q hq
      simp only [List.mem_cons] at hq
      rcases hq with rfl | hq
      · exact getTerm_mono (allocDecisions_prefix _ _ List.prefix_rfl) (allocTerm_spec h v)
      · exact ih'.1 q hq

theorem simplifyE_spec {h : Heap} {lts : Located} (hl : LocOk h lts) :
    LocOk (simplifyE h lts).1 (simplifyE h lts).2.2 ∧
    (simplifyE h lts).2.2.map (·.2) = simplifyV (lts.map (·.2)) ∧
    view? (simplifyE h lts).1 (simplifyE h lts).2.1 = some (.psum (simplifyV (lts.map (·.2)))) := by
  have hs := allocDecisions_spec hl (simplifyD (lts.map (·.2)))
  simp only [simplifyE]
  refine ⟨hs.1.mono (mkSum_prefix _ List.prefix_rfl), hs.2, ?_⟩
  have := mkSum_view hs.1
  rw [hs.2] at this
  exact this

theorem termMulE_spec (h : Heap) (a b : TermV) :
    getTerm (termMulE h a b).1 (termMulE h a b).2 = some (termMulV a b) := by
  simp only [termMulE]; exact allocTerm_spec _ _

theorem productsE_fold_spec (pairs : List (TermV × TermV)) (acc : Heap × Located) (hl : LocOk acc.1 acc.2) :
    let r := pairs.foldl (fun (acc : Heap × Located) lr =>
      ((termMulE acc.1 lr.1 lr.2).1, acc.2 ++ [((termMulE acc.1 lr.1 lr.2).2, termMulV lr.1 lr.2)])) acc
    LocOk r.1 r.2 ∧ r.2.map (·.2) = acc.2.map (·.2) ++ pairs.map (fun lr => termMulV lr.1 lr.2) := by
  induction pairs generalizing acc with
  | nil => simpa using hl
  | cons lr pairs ih =>
    simp only [List.foldl_cons]
    have hl' : LocOk (termMulE acc.1 lr.1 lr.2).1 (acc.2 ++ [((termMulE acc.1 lr.1 lr.2).2, termMulV lr.1 lr.2)]) := by
      intro p hp
      simp only [List.mem_append, List.mem_singleton] at hp
      rcases hp with hp | rfl
      · exact getTerm_mono (termMulE_prefix _ _ List.prefix_rfl) (hl p hp)
      · exact termMulE_spec _ _ _
    have := ih (_, _) hl'
    refine ⟨this.1, ?_⟩
    rw [this.2]; simp

theorem productsV'_map (va vb : List TermV) :
    (productsE.productsV' va vb).map (fun lr => termMulV lr.1 lr.2) = productsV va vb := by
  simp only [productsE.productsV', productsV, List.map_flatMap, List.map_map]
  rfl

theorem productsE_spec (h : Heap) (va vb : List TermV) :
    LocOk (productsE h va vb).1 (productsE h va vb).2 ∧ (productsE h va vb).2.map (·.2) = productsV va vb := by
  have := productsE_fold_spec (productsE.productsV' va vb) (h, []) (fun p hp => by simp at hp)
  simp only [List.map_nil, List.nil_append, productsV'_map] at this
  exact this

theorem sumMulE_spec (h : Heap) (va vb : List TermV) :
    view? (sumMulE h va vb).1 (sumMulE h va vb).2.1 = some (.psum (sumMulV va vb)) := by
  have hp := productsE_spec h va vb
  have hs := simplifyE_spec (hp.1.mono (mkSum_prefix ((productsE h va vb).2.map (·.1)) List.prefix_rfl))
  simp only [sumMulE, sumMulV]
  rw [hp.2] at hs
  exact hs.2.2

theorem termPowE_spec (h : Heap) (x : TermV) (fuel n : Nat) :
    (termPowE h x fuel n).2.2 = effExp termMulV identityTerm x fuel n ∧
    getTerm (termPowE h x fuel n).1 (termPowE h x fuel n).2.1 = some (termPowE h x fuel n).2.2 := by
  induction fuel generalizing n h with
  | zero => simp only [termPowE, effExp]; exact ⟨by first | rfl | trivial, allocTerm_spec _ _⟩
  | succ f ih =>
    simp only [termPowE, effExp]
    split
    · exact ⟨by first | rfl | trivial, allocTerm_spec _ _⟩
    · split
      · exact ⟨by rw [(ih h (n - 1)).1], termMulE_spec _ _ _⟩
      · exact ⟨by rw [(ih h (n / 2)).1], termMulE_spec _ _ _⟩

theorem identitySum_view (h : Heap) :
    view? (mkSum (allocTerm h identityTerm).1 [(allocTerm h identityTerm).2]).1
      (mkSum (allocTerm h identityTerm).1 [(allocTerm h identityTerm).2]).2 = some (.psum [identityTerm]) := by
  have hl : LocOk (allocTerm h identityTerm).1 [((allocTerm h identityTerm).2, identityTerm)] := by
    intro p hp; simp only [List.mem_singleton] at hp; subst hp; exact allocTerm_spec _ _
  exact mkSum_view hl

theorem sumPowE_spec (h : Heap) (x : List TermV) (fuel n : Nat) :
    (sumPowE h x fuel n).2.2 = effExp sumMulV [identityTerm] x fuel n ∧
    view? (sumPowE h x fuel n).1 (sumPowE h x fuel n).2.1 = some (.psum (sumPowE h x fuel n).2.2) := by
  induction fuel generalizing n h with
  | zero => simp only [sumPowE, effExp]; exact ⟨by first | rfl | trivial, identitySum_view h⟩
  | succ f ih =>
    simp only [sumPowE, effExp]
    split
    · exact ⟨by first | rfl | trivial, identitySum_view h⟩
    · split
      · exact ⟨by rw [(ih h (n - 1)).1], sumMulE_spec _ _ _⟩
      · exact ⟨by rw [(ih h (n / 2)).1], sumMulE_spec _ _ _⟩

theorem emptySum_view (h : Heap) : view? (mkSum h []).1 (mkSum h []).2 = some (.psum []) :=
  mkSum_view (lts := []) (fun p hp => by simp at hp)

theorem sumConj_fold_spec (ts : List TermV) (acc : Heap × Ref × Located)
    (hv : view? acc.1 acc.2.1 = some (.psum (acc.2.2.map (·.2)))) (hl : LocOk acc.1 acc.2.2) :
    let r := ts.foldl (fun (acc : Heap × Ref × Located) t =>
      simplifyE (mkSum (allocTerms (mkSum (allocTerm acc.1 (conjV t)).1 [(allocTerm acc.1 (conjV t)).2]).1
          (acc.2.2.map (·.2) ++ [conjV t])).1
        (allocTerms (mkSum (allocTerm acc.1 (conjV t)).1 [(allocTerm acc.1 (conjV t)).2]).1
          (acc.2.2.map (·.2) ++ [conjV t])).2).1
      (locate (allocTerms (mkSum (allocTerm acc.1 (conjV t)).1 [(allocTerm acc.1 (conjV t)).2]).1
          (acc.2.2.map (·.2) ++ [conjV t])).2 (acc.2.2.map (·.2) ++ [conjV t]))) acc
    view? r.1 r.2.1 = some (.psum (ts.foldl (fun a t => simplifyV (a ++ [conjV t])) (acc.2.2.map (·.2)))) := by
  induction ts generalizing acc with
  | nil => exact hv
  | cons t ts ih =>
    simp only [List.foldl_cons]
    have hlen := allocTerms_length (mkSum (allocTerm acc.1 (conjV t)).1 [(allocTerm acc.1 (conjV t)).2]).1
      (acc.2.2.map (·.2) ++ [conjV t])
    have hloc := (allocTerms_spec (mkSum (allocTerm acc.1 (conjV t)).1 [(allocTerm acc.1 (conjV t)).2]).1
      (acc.2.2.map (·.2) ++ [conjV t])).mono (mkSum_prefix
        (allocTerms (mkSum (allocTerm acc.1 (conjV t)).1 [(allocTerm acc.1 (conjV t)).2]).1
          (acc.2.2.map (·.2) ++ [conjV t])).2 List.prefix_rfl)
    have hs := simplifyE_spec hloc
    rw [locate_snd _ _ hlen] at hs
    have := ih _ (by rw [hs.2.1]; exact hs.2.2) hs.1
    rw [hs.2.1] at this
    exact this

theorem sumConjE_spec (h : Heap) (va : List TermV) :
    view? (sumConjE h va).1 (sumConjE h va).2.1 = some (.psum (sumConjV va)) := by
  have := sumConj_fold_spec va ((mkSum h []).1, (mkSum h []).2, []) (emptySum_view h) (fun p hp => by simp at hp)
  simpa only [sumConjE, sumConjV, List.map_nil] using this

theorem distCtorE_spec (h : Heap) (d : DDict) (nrm : Bool) {d' : DDict}
    (hv : distCtorV (preprocessV d) nrm = .ok d') :
    view? (distCtorE h d nrm).1 (distCtorE h d nrm).2 = some (.dist d') := by
  simp only [distCtorE, hv, alloc]
  by_cases he : d' = preprocessV d
  · simp only [he, if_true, view?, getDdict, List.length_append, List.length_singleton]
    rw [get_last2']; simp only [get_last2]
  · simp only [he, if_false, write, view?, getDdict]
    have hset : (h ++ [Cell.ddict (preprocessV d)]).set h.length (Cell.ddict d') = h ++ [Cell.ddict d'] := by
      rw [List.set_append_right _ _ (Nat.le_refl _)]; simp
    rw [hset]
    simp only [List.length_append, List.length_singleton]
    rw [get_last2']; simp only [get_last2]

theorem fromCounts_fold_spec (l m : Ref) (hne : l ≠ m) (counts : List (Bits × Nat)) (acc : Heap × List Bits)
    (hl : acc.1[l]? = some (.blist acc.2)) (hm : acc.1[m]? = some (.meas l)) :
    let r := counts.foldl (fun (acc : Heap × List Bits) c =>
      (write acc.1 l (.blist (acc.2 ++ List.replicate c.2 c.1)), acc.2 ++ List.replicate c.2 c.1)) acc
    view? r.1 m = some (.meas (acc.2 ++ counts.flatMap (fun c => List.replicate c.2 c.1))) := by
  induction counts generalizing acc with
  | nil => simp only [List.foldl_nil, List.flatMap_nil, List.append_nil, view?, hm, getBlist, hl]
  | cons c cs ih =>
    simp only [List.foldl_cons, List.flatMap_cons]
    have hlt : l < acc.1.length := by
      rcases Nat.lt_or_ge l acc.1.length with hh | hh
      · exact hh
      · rw [List.getElem?_eq_none hh] at hl; cases hl
    have := ih (write acc.1 l (.blist (acc.2 ++ List.replicate c.2 c.1)), acc.2 ++ List.replicate c.2 c.1)
      (by simp [write, hlt])
      (by simp only [write, List.getElem?_set, hne, if_false]; exact hm)
    simpa [List.append_assoc] using this

/-! ### reading an observation back into facts about cells -/

theorem view?_term_inv {h : Heap} {r : Ref} {t : TermV} (hv : view? h r = some (.term t)) : getTerm h r = some t := by
  unfold view? at hv
  repeat' (first | (cases hv; done) | split at hv)
  cases hv
  simp only [getTerm, *]

theorem view?_of_getTerm {h : Heap} {r : Ref} {t : TermV} (hv : getTerm h r = some t) : view? h r = some (.term t) := by
  unfold getTerm at hv
  split at hv
  · rename_i d c hc
    split at hv
    · rename_i o ho; cases hv; simp only [view?, hc, ho]
    · cases hv
  · cases hv

theorem view?_tlist_inv {h : Heap} {r : Ref} {ts : List TermV} (hv : view? h r = some (.tlist ts)) :
    ∃ rs, h[r]? = some (.tlist rs) ∧ getTerms h rs = some ts := by
  unfold view? at hv
  repeat' (first | (cases hv; done) | split at hv)
  cases hv
  exact ⟨_, by assumption, by assumption⟩

theorem view?_psum_inv {h : Heap} {r : Ref} {ts : List TermV} (hv : view? h r = some (.psum ts)) :
    ∃ l rs, h[r]? = some (.psum l) ∧ getTlist h l = some rs ∧ getTerms h rs = some ts := by
  unfold view? at hv
  repeat' (first | (cases hv; done) | split at hv)
  cases hv
  exact ⟨_, _, by assumption, by assumption, by assumption⟩

theorem view?_blist_inv {h : Heap} {r : Ref} {bs : List Bits} (hv : view? h r = some (.blist bs)) :
    getBlist h r = some bs := by
  unfold view? at hv
  repeat' (first | (cases hv; done) | split at hv)
  cases hv
  simp only [getBlist, *]

theorem view?_arr_inv {h : Heap} {r : Ref} {a : List Coef} (hv : view? h r = some (.arr a)) :
    getArr h r = some a := by
  unfold view? at hv
  repeat' (first | (cases hv; done) | split at hv)
  cases hv
  simp only [getArr, *]

theorem locOk_of_getTerms {h : Heap} {rs : List Ref} {vs : List TermV} (hg : getTerms h rs = some vs) :
    rs.length = vs.length ∧ LocOk h (locate rs vs) := by
  induction rs generalizing vs with
  | nil =>
    simp only [getTerms] at hg; cases hg
    exact ⟨rfl, fun p hp => by simp [locate] at hp⟩
  | cons r rs ih =>
    unfold getTerms at hg
    split at hg
    · rename_i v vs' h1 h2
      cases hg
      have := ih h2
      refine ⟨by simp [this.1], ?_⟩
      intro p hp
      simp only [locate, List.zip_cons_cons, List.mem_cons] at hp
      rcases hp with rfl | hp
      · exact h1
      · exact this.2 p hp
    · cases hg

def termOf : Obs → Option TermV
  | .term t => some t
  | _ => none

theorem getTerms_of_allSome {h : Heap} {ts : List Ref} {os : List Obs} {tvs : List TermV}
    (h1 : allSome (ts.map (view? h)) = some os)
    (h2 : allSome (os.map (fun o => match o with | .term t => some t | _ => none)) = some tvs) :
    getTerms h ts = some tvs := by
  induction ts generalizing os tvs with
  | nil =>
    simp only [List.map_nil, allSome] at h1; cases h1
    simp only [List.map_nil, allSome] at h2; cases h2
    rfl
  | cons r rs ih =>
    simp only [List.map_cons] at h1
    cases hr : view? h r with
    | none => rw [hr] at h1; simp [allSome] at h1
    | some o =>
      rw [hr] at h1
      simp only [allSome] at h1
      split at h1
      · rename_i ys hys
        cases h1
        simp only [List.map_cons] at h2
        cases o <;> simp only [allSome] at h2 <;> try (cases h2; done)
        rename_i t
        split at h2
        · rename_i zs hzs
          cases h2
          simp only [getTerms, view?_term_inv hr, ih hys hzs]
        · cases h2
      · cases h1

theorem list1_inj {α : Type} {a b : α} (h : [a] = [b]) : a = b := by injection h
theorem list2_inj {α : Type} {a b c d : α} (h : [a, b] = [c, d]) : a = c ∧ b = d := by
  injection h with h1 h2; injection h2 with h2 _; exact ⟨h1, h2⟩

theorem view_meas_new {h : Heap} {l : Ref} {bs : List Bits} (hb : getBlist h l = some bs) :
    view? (alloc h (.meas l)).1 (alloc h (.meas l)).2 = some (.meas bs) := by
  have hb' := getBlist_mono (alloc_pre h (.meas l)) hb
  simp only [view?, alloc_get, hb']

/-- the object a successful call returns denotes exactly the value `valueOf` announces -/
theorem effects_denotes (h : Heap) (c : Call) (o : Obs)
    (hv : valueOf c (argViews h c) = .ok (.obj o)) :
    ∃ r, (effects h c (argViews h c)).2 = some r ∧ view? (effects h c (argViews h c)).1 r = some o := by
  cases c <;> simp only [valueOf, argViews, Call.refs, List.map] at hv <;>
    simp only [effects, argViews, Call.refs, List.map]
  case litOps ops =>
    cases hv; exact ⟨_, rfl, by simp [view?, alloc]⟩
  case litBits bs =>
    cases hv; exact ⟨_, rfl, by simp [view?, alloc]⟩
  case litDict d =>
    cases hv; exact ⟨_, rfl, by simp [view?, alloc]⟩
  case litArr a =>
    cases hv; exact ⟨_, rfl, by simp [view?, alloc]⟩
  case litTerms ts =>
    split at hv
    · rename_i os hos
      split at hv
      · rename_i tvs htvs
        cases hv
        refine ⟨_, rfl, ?_⟩
        have hg := getTerms_mono (alloc_pre h (.tlist ts)) (getTerms_of_allSome hos htvs)
        simp only [view?, alloc_get, hg]
      · cases hv
    · cases hv
  case circNew l nq =>
    split at hv
    · split at hv
      · rename_i n hn
        cases hv; rw [hn]; exact ⟨_, rfl, mkCircuit_view _ _ _⟩
      · cases hv
    · cases hv
  case circAdd a b =>
    split at hv
    · split at hv
      · rename_i n hn
        cases hv; rw [hn]; exact ⟨_, rfl, mkCircuit_view _ _ _⟩
      · cases hv
    · cases hv
  case circAddOp a op =>
    split at hv
    · split at hv
      · cases hv
      · rename_i q qs hq
        split at hv
        · rename_i n hn
          cases hv; simp only [] at hn ⊢; rw [hn]; exact ⟨_, rfl, mkCircuit_view _ _ _⟩
        · cases hv
    · cases hv
  case circBind a m =>
    split at hv
    · split at hv
      · split at hv
        · rename_i n hn
          cases hv; simp only []; rw [hn]; exact ⟨_, rfl, mkCircuit_view _ _ _⟩
        · cases hv
      · cases hv
    · cases hv
  case circInverse a =>
    split at hv
    · split at hv
      · rename_i n hn
        cases hv; rw [hn]; exact ⟨_, rfl, mkCircuit_view _ _ _⟩
      · cases hv
    · cases hv
  case circControlled a k =>
    split at hv
    · split at hv
      · rename_i n hn
        cases hv; rw [hn]; exact ⟨_, rfl, mkCircuit_view _ _ _⟩
      · cases hv
    · cases hv
  case termNew ops c =>
    cases hv; exact ⟨_, rfl, view?_of_getTerm (allocTerm_spec _ _)⟩
  case termCopy t c =>
    split at hv
    · cases hv; exact ⟨_, rfl, view?_of_getTerm (allocTerm_spec _ _)⟩
    · cases hv
  case termMul a b =>
    split at hv
    · cases hv; exact ⟨_, rfl, view?_of_getTerm (termMulE_spec _ _ _)⟩
    · cases hv
  case termScale a c =>
    split at hv
    · cases hv; exact ⟨_, rfl, view?_of_getTerm (allocTerm_spec _ _)⟩
    · cases hv
  case termAdd ra rb =>
    split at hv
    · rename_i a b heq
      cases hv
      have ⟨h1, h2⟩ := list2_inj heq
      have hl : LocOk (mkSum h [ra, rb]).1 [(ra, a), (rb, b)] := by
        intro p hp
        simp only [List.mem_cons, List.mem_nil_iff, or_false] at hp
        rcases hp with rfl | rfl
        · exact getTerm_mono (mkSum_prefix _ List.prefix_rfl) (view?_term_inv h1)
        · exact getTerm_mono (mkSum_prefix _ List.prefix_rfl) (view?_term_inv h2)
      exact ⟨_, rfl, (simplifyE_spec hl).2.2⟩
    · cases hv
  case termPow a n =>
    split at hv
    · rename_i t heq
      cases hv
      have hs := termPowE_spec (allocTerm h t).1 t (n + 1) n
      refine ⟨_, rfl, ?_⟩
      have := view?_of_getTerm hs.2
      rw [hs.1] at this
      exact this
    · cases hv
  case sumNew l =>
    split at hv
    · rename_i ts heq
      cases hv
      obtain ⟨rs, hc, hg⟩ := view?_tlist_inv (list1_inj heq)
      refine ⟨_, rfl, ?_⟩
      have hp := alloc_pre h (.psum l)
      have h1 : getTlist (alloc h (.psum l)).1 l = some rs := by
        simp only [getTlist, prefix_get hp hc]
      simp only [view?, alloc_get, h1, getTerms_mono hp hg]
    · cases hv
  case sumAdd ra rb =>
    split at hv
    · rename_i va ob heq
      split at hv
      · rename_i vb hvb
        cases hv
        simp only []
        refine ⟨_, rfl, ?_⟩
        have key : ∀ o0 : Heap × Ref,
            view? (simplifyE (mkSum (allocTerms o0.1 (va ++ vb)).1 (allocTerms o0.1 (va ++ vb)).2).1
                (locate (allocTerms o0.1 (va ++ vb)).2 (va ++ vb))).1
              (simplifyE (mkSum (allocTerms o0.1 (va ++ vb)).1 (allocTerms o0.1 (va ++ vb)).2).1
                (locate (allocTerms o0.1 (va ++ vb)).2 (va ++ vb))).2.1 = some (.psum (simplifyV (va ++ vb))) := by
          intro o0
          have hlen := allocTerms_length o0.1 (va ++ vb)
          have hloc := (allocTerms_spec o0.1 (va ++ vb)).mono (mkSum_prefix (allocTerms o0.1 (va ++ vb)).2 List.prefix_rfl)
          have hs := simplifyE_spec hloc
          rw [locate_snd _ _ hlen] at hs
          exact hs.2.2
        exact key _
      · cases hv
    · cases hv
  case sumMul ra rb =>
    split at hv
    · split at hv
      · cases hv
        exact ⟨_, rfl, sumMulE_spec _ _ _⟩
      · cases hv
    · cases hv
  case sumRMul ra c =>
    split at hv
    · rename_i va heq
      cases hv
      refine ⟨_, rfl, ?_⟩
      have hlen := allocTerms_length (allocTerms h va).1 (va.map (termScaleV · c))
      have hloc := (allocTerms_spec (allocTerms h va).1 (va.map (termScaleV · c))).mono
        (mkSum_prefix (allocTerms (allocTerms h va).1 (va.map (termScaleV · c))).2 List.prefix_rfl)
      have hs := simplifyE_spec hloc
      rw [locate_snd _ _ hlen] at hs
      exact hs.2.2
    · cases hv
  case sumPow ra n =>
    split at hv
    · rename_i va heq
      cases hv
      have hs := sumPowE_spec h va (n + 1) n
      refine ⟨_, rfl, ?_⟩
      have := hs.2
      rw [hs.1] at this
      exact this
    · cases hv
  case sumSimplify ra =>
    split at hv
    · rename_i va heq
      cases hv
      obtain ⟨l, rs, hc, hl, hg⟩ := view?_psum_inv (list1_inj heq)
      have hrefs : termRefs h ra = rs := by simp only [termRefs, hc, hl, Option.getD_some]
      have hlo := locOk_of_getTerms hg
      have hs := simplifyE_spec hlo.2
      rw [locate_snd _ _ hlo.1] at hs
      rw [hrefs]
      exact ⟨_, rfl, hs.2.2⟩
    · cases hv
  case opConj ra =>
    split at hv
    · cases hv; exact ⟨_, rfl, view?_of_getTerm (allocTerm_spec _ _)⟩
    · cases hv; exact ⟨_, rfl, sumConjE_spec _ _⟩
    · cases hv
  case measNew l =>
    split at hv
    · rename_i bs heq
      cases hv
      exact ⟨_, rfl, view_meas_new (view?_blist_inv (list1_inj heq))⟩
    · cases hv
  case measFromCounts counts =>
    cases hv
    refine ⟨_, rfl, ?_⟩
    have := fromCounts_fold_spec h.length (h.length + 1) (Nat.ne_of_lt (Nat.lt_succ_self _)) counts
      ((alloc (alloc h (.blist [])).1 (.meas (alloc h (.blist [])).2)).1, [])
      (by simp only [alloc]; exact get_last2 _ _ _) (by simp only [alloc]; exact get_last2' _ _ _)
    simpa [alloc] using this
  case measDistribution m =>
    split at hv
    · split at hv
      · rename_i d hd
        cases hv; exact ⟨_, rfl, distCtorE_spec _ _ _ hd⟩
      · cases hv
    · cases hv
  case measRepresenting d n samples =>
    split at hv
    · cases hv
      refine ⟨_, rfl, view_meas_new ?_⟩
      simp only [getBlist, alloc_get]
    · cases hv
  case distNew d nrm =>
    split at hv
    · split at hv
      · rename_i d' hd
        cases hv; exact ⟨_, rfl, distCtorE_spec _ _ _ hd⟩
      · cases hv
    · cases hv
  case distSub d qs =>
    split at hv
    · split at hv
      · cases hv
      · split at hv
        · rename_i d' hd
          cases hv; exact ⟨_, rfl, distCtorE_spec _ _ _ hd⟩
        · cases hv
    · cases hv
  case wfNew l =>
    split at hv
    · rename_i a heq
      split at hv
      · cases hv
      · split at hv
        · cases hv
          have ha := getArr_mono (alloc_pre h (.wf l)) (view?_arr_inv (list1_inj heq))
          exact ⟨_, rfl, by simp only [view?, alloc_get, ha]⟩
        · cases hv
    · cases hv
  case wfBind w =>
    split at hv
    · rename_i a heq
      cases hv
      exact ⟨_, rfl, list1_inj heq⟩
    · cases hv
  case measCounts m =>
    split at hv <;> cases hv
  case wfProbs w =>
    split at hv <;> cases hv
  case report kind args =>
    split at hv <;> cases hv

/-! ### example stores / histories used by the non-vacuity examples of OQ/Props/C20.lean -/

def witnessStore : Heap := (run [] [.litDict [([0, 1], 1/2), ([1, 1], 1/2)], .distNew 0 true]).1

def gRX : GOp := ⟨.base "RX" [.sym "theta"] false, [0]⟩
def gCN : GOp := ⟨.base "CNOT" [] true, [0, 2]⟩
def gT : GOp := ⟨.base "T" [] false, [1]⟩

def histC : List Call :=
  [.litOps [gRX, gCN, gT], .circNew 0 none, .circInverse 2, .circAdd 2 5, .circBind 8 [("theta", 1/2)],
   .circControlled 2 1]

def histP : List Call :=
  [.termNew [(0, .X), (1, .Y)] ⟨1/2, 0⟩, .termNew [(1, .Z)] ⟨0, 1⟩, .termMul 1 3, .termAdd 1 3,
   .litTerms [1, 3, 1], .sumNew 14, .sumSimplify 15, .sumMul 15 15, .opConj 15, .sumPow 15 2]

def histD : List Call :=
  [.litDict [([0, 1], 1), ([1, 1], 1), ([1, 0], 2)], .distNew 0 true, .distSub 2 [1], .distSub 2 [1, 0],
   .distSub 2 [2], .litBits [[0, 1], [1, 1], [0, 1]], .measNew 11, .measCounts 12, .measFromCounts [([1], 2), ([0], 1)]]


end OQ.C20
