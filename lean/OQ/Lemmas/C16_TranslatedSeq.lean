/- C16 — helper lemmas of the translation tie `OQ/Props/C16_TranslatedSeq.lean` (not property theorems): loops that append
   to an accumulator are `flatMap`s. -/
import OQ.Model.C16
namespace OQ.C16

theorem foldl_append_flatMap {α β : Type} (f : α → List β) (l : List α) (init : List β) :
    l.foldl (fun acc t => acc ++ f t) init = init ++ l.flatMap f := by
  induction l generalizing init with
  | nil => simp
  | cons a l ih => rw [List.foldl_cons, ih, List.flatMap_cons, List.append_assoc]

theorem flatMap_const_replicate {α β : Type} (s : List β) (l : List α) :
    l.flatMap (fun _ => s) = (List.replicate l.length s).flatten := by
  induction l with
  | nil => rfl
  | cons a l ih => rw [List.flatMap_cons, ih, List.length_cons, List.replicate_succ, List.flatten_cons]

end OQ.C16
