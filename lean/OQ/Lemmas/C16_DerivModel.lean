import OQ.Lemmas.C16_Deriv
import Mathlib.Algebra.Star.BigOperators
set_option linter.unusedSectionVars false
namespace OQ.C16
open OQ.Pauli

section structural
variable {T : Type} {Q : Type} [One Q] [Mul Q] [Div Q] [Neg Q] [NatCast Q] [DecidableEq Q]

/-- the guard of `time_evolution_for_term`: constant, or negligible imaginary part -/
def acc (negl : Q → Bool) (t : Term (Q × Q)) : Bool := t.ops.isEmpty || negl t.coeff.2

/-- the circuit `time_evolution_for_term` builds when it does not raise -/
def evoCirc (alg : TimeAlg Q T) (t : Term (Q × Q)) (time : T) : Circ T :=
  if t.ops.isEmpty then []
  else
    match (sortedQubits t).getLast? with
    | none => []
    | some last =>
      basisChange alg t (sortedQubits t) ++
        ((ladder (sortedQubits t) : Circ T) ++
          [⟨.RZ (alg.smul t.coeff.1 (alg.smul ((2 : Nat) : Q) time)), [last]⟩] ++ inverse (ladder (sortedQubits t))) ++
        inverse (basisChange alg t (sortedQubits t))

theorem evolutionForTerm_eq (alg : TimeAlg Q T) (negl : Q → Bool) (t : Term (Q × Q)) (time : T) :
    evolutionForTerm alg negl t time = if acc negl t then .ok (evoCirc alg t time) else .error .value := by
  unfold evolutionForTerm acc evoCirc
  cases h0 : t.ops.isEmpty with
  | true => simp
  | false =>
    cases hn : negl t.coeff.2 with
    | false => simp
    | true =>
      simp only [Bool.false_eq_true, if_false, Bool.not_true, Bool.false_or, if_true]
      cases (sortedQubits t).getLast? <;> rfl

theorem stepCircuit_acc (alg : TimeAlg Q T) (negl : Q → Bool) (time : T) (ts : PSum (Q × Q))
    (hacc : ∀ t ∈ ts, acc negl t = true) :
    stepCircuit alg negl time ts = .ok (ts.flatMap (fun t => evoCirc alg t time)) := by
  induction ts with
  | nil => rfl
  | cons t ts ih =>
    rw [stepCircuit_cons, evolutionForTerm_eq, if_pos (hacc t List.mem_cons_self),
      ih (fun t' ht' => hacc t' (List.mem_cons_of_mem _ ht'))]
    rfl

theorem shiftedStep_cons (alg : TimeAlg Q T) (negl : Q → Bool) (i : ℕ) (tS tP : T) (j : ℕ) (t : Term (Q × Q))
    (ts : PSum (Q × Q)) :
    shiftedStep alg negl i tS tP j (t :: ts) =
      (evolutionForTerm alg negl t (if i = j then tS else tP) >>= fun a =>
        shiftedStep alg negl i tS tP (j + 1) ts >>= fun b => pure (a ++ b)) := rfl

theorem shiftedStep_ok_acc (alg : TimeAlg Q T) (negl : Q → Bool) (i : ℕ) (tS tP : T) (j : ℕ) (ts : PSum (Q × Q))
    (c : Circ T) (h : shiftedStep alg negl i tS tP j ts = .ok c) : ∀ t ∈ ts, acc negl t = true := by
  induction ts generalizing j c with
  | nil => simp
  | cons t ts ih =>
    rw [shiftedStep_cons, bind2_ok] at h
    obtain ⟨a, b, ha, hb, _⟩ := h
    intro t' ht'
    rcases List.mem_cons.mp ht' with rfl | ht'
    · rw [evolutionForTerm_eq] at ha
      by_contra hh
      rw [if_neg hh] at ha; cases ha
    · exact ih (j + 1) b hb t' ht'

theorem shiftedStep_gt (alg : TimeAlg Q T) (negl : Q → Bool) (i : ℕ) (tS tP : T) (j : ℕ) (hj : i < j)
    (ts : PSum (Q × Q)) (hacc : ∀ t ∈ ts, acc negl t = true) :
    shiftedStep alg negl i tS tP j ts = .ok (ts.flatMap (fun t => evoCirc alg t tP)) := by
  induction ts generalizing j with
  | nil => rfl
  | cons t ts ih =>
    rw [shiftedStep_cons, evolutionForTerm_eq, if_pos (hacc t List.mem_cons_self), if_neg (by omega),
      ih (j + 1) (by omega) (fun t' ht' => hacc t' (List.mem_cons_of_mem _ ht'))]
    rfl

theorem shiftedStep_split (alg : TimeAlg Q T) (negl : Q → Bool) (tS tP : T) (j : ℕ) (a : PSum (Q × Q))
    (t : Term (Q × Q)) (b : PSum (Q × Q)) (hacc : ∀ t' ∈ a ++ t :: b, acc negl t' = true) :
    shiftedStep alg negl (j + a.length) tS tP j (a ++ t :: b)
      = .ok (a.flatMap (fun t => evoCirc alg t tP) ++ (evoCirc alg t tS ++ b.flatMap (fun t => evoCirc alg t tP))) := by
  induction a generalizing j with
  | nil =>
    simp only [List.nil_append, List.length_nil, Nat.add_zero, List.flatMap_nil]
    rw [shiftedStep_cons, evolutionForTerm_eq, if_pos (hacc t (by simp)), if_pos rfl,
      shiftedStep_gt alg negl j tS tP (j + 1) (by omega) b (fun t' ht' => hacc t' (by simp [ht']))]
    rfl
  | cons x a ih =>
    simp only [List.cons_append, List.length_cons, List.flatMap_cons]
    rw [shiftedStep_cons, evolutionForTerm_eq, if_pos (hacc x (by simp)), if_neg (by omega)]
    have : j + (a.length + 1) = (j + 1) + a.length := by omega
    rw [this, ih (j + 1) (fun t' ht' => hacc t' (by simp only [List.cons_append, List.mem_cons]; right; exact ht'))]
    simp [bind, Except.bind, pure, Except.pure]

end structural
section structural2
variable {T : Type} {Q : Type} [One Q] [Mul Q] [Div Q] [Neg Q] [NatCast Q] [DecidableEq Q]

/-- `r = term.coefficient.real / n_steps` -/
def rate (n : ℕ) (t : Term (Q × Q)) : Q := t.coeff.1 / (n : Q)
/-- the time handed to the shifted term: `(time + factor * (np.pi / (4 r))) / n_steps` -/
def shiftTime (alg : TimeAlg Q T) (time : T) (n : ℕ) (t : Term (Q × Q)) (f : Q) : T :=
  alg.smul (1 / (n : Q)) (alg.add time (alg.smul f (alg.smul (1 / (((4 : Nat) : Q) * rate n t)) alg.pi)))
/-- `time / n_steps` -/
def plainTime (alg : TimeAlg Q T) (time : T) (n : ℕ) : T := alg.smul (1 / (n : Q)) time

/-- one derivative circuit of a single step: terms `a` plain, `t` shifted by the sign `f`, terms `b` plain -/
def derivCirc (alg : TimeAlg Q T) (time : T) (n : ℕ) (a : PSum (Q × Q)) (t : Term (Q × Q)) (b : PSum (Q × Q)) (f : Q) :
    Q × Circ T :=
  (rate n t * f,
    a.flatMap (fun t' => evoCirc alg t' (plainTime alg time n)) ++
      (evoCirc alg t (shiftTime alg time n t f) ++ b.flatMap (fun t' => evoCirc alg t' (plainTime alg time n))))

theorem singleDerivative_def (alg : TimeAlg Q T) (negl : Q → Bool) (h : PSum (Q × Q)) (time : T) (n i : ℕ)
    (t : Term (Q × Q)) (f : Q) :
    singleDerivative alg negl h time n i t f =
      if n = 0 then .error .zerodiv
      else if rate n t = ((0 : Nat) : Q) then .ok none
      else (shiftedStep alg negl i (shiftTime alg time n t f) (plainTime alg time n) 0 h >>= fun c =>
        pure (some (rate n t * f, c))) := rfl

/-- `if r == 0: continue` -/
theorem singleDerivative_zero (alg : TimeAlg Q T) (negl : Q → Bool) (h : PSum (Q × Q)) (time : T) (n i : ℕ)
    (t : Term (Q × Q)) (f : Q) (hn : n ≠ 0) (hr : rate n t = ((0 : Nat) : Q)) :
    singleDerivative alg negl h time n i t f = .ok none := by
  rw [singleDerivative_def, if_neg hn, if_pos hr]

theorem singleDerivative_eq (alg : TimeAlg Q T) (negl : Q → Bool) (time : T) (n : ℕ) (a : PSum (Q × Q))
    (t : Term (Q × Q)) (b : PSum (Q × Q)) (f : Q) (hn : n ≠ 0) (hr : rate n t ≠ ((0 : Nat) : Q))
    (hacc : ∀ t' ∈ a ++ t :: b, acc negl t' = true) :
    singleDerivative alg negl (a ++ t :: b) time n a.length t f = .ok (some (derivCirc alg time n a t b f)) := by
  rw [singleDerivative_def, if_neg hn, if_neg hr]
  have := shiftedStep_split alg negl (shiftTime alg time n t f) (plainTime alg time n) 0 a t b hacc
  rw [Nat.zero_add] at this
  rw [this]
  rfl

theorem singleDerivative_ok_facts (alg : TimeAlg Q T) (negl : Q → Bool) (h : PSum (Q × Q)) (time : T) (n i : ℕ)
    (t : Term (Q × Q)) (f : Q) (p : Option (Q × Circ T)) (hp : singleDerivative alg negl h time n i t f = .ok p) :
    n ≠ 0 ∧ (rate n t ≠ ((0 : Nat) : Q) → ∀ t' ∈ h, acc negl t' = true) := by
  rw [singleDerivative_def] at hp
  by_cases hn : n = 0
  · rw [if_pos hn] at hp; cases hp
  · rw [if_neg hn] at hp
    refine ⟨hn, fun hr => ?_⟩
    rw [if_neg hr] at hp
    cases hs : shiftedStep alg negl i (shiftTime alg time n t f) (plainTime alg time n) 0 h with
    | error e => rw [hs] at hp; cases hp
    | ok c => exact shiftedStep_ok_acc alg negl i _ _ 0 h c hs

/-- splits with an accumulated prefix (the order in which the code's loop meets them) -/
def splitsFrom {α : Type} (pre : List α) : List α → List (List α × α × List α)
  | [] => []
  | x :: xs => (pre, x, xs) :: splitsFrom (pre ++ [x]) xs

theorem splitsFrom_eq {α : Type} (pre l : List α) :
    splitsFrom pre l = (splits l).map (fun s => (pre ++ s.1, s.2.1, s.2.2)) := by
  induction l generalizing pre with
  | nil => rfl
  | cons x xs ih =>
    simp only [splitsFrom, splits, List.map_cons, List.append_nil, List.map_map]
    rw [ih]
    congr 1
    apply List.map_congr_left
    intro s _
    simp

theorem bind3_ok {ε α β γ δ : Type} (x : Except ε α) (y : Except ε β) (z : Except ε γ) (f : α → β → γ → δ) (c : δ) :
    (x >>= fun a => y >>= fun b => z >>= fun c' => pure (f a b c')) = Except.ok c ↔
      ∃ a b c', x = .ok a ∧ y = .ok b ∧ z = .ok c' ∧ f a b c' = c := by
  cases x <;> cases y <;> cases z <;> simp [bind, Except.bind, pure, Except.pure]

theorem singleTrotter_cons (alg : TimeAlg Q T) (negl : Q → Bool) (h : PSum (Q × Q)) (time : T) (n i : ℕ)
    (t : Term (Q × Q)) (ts : PSum (Q × Q)) :
    singleTrotterDerivatives alg negl h time n i (t :: ts) =
      (singleDerivative alg negl h time n i t 1 >>= fun p =>
        singleDerivative alg negl h time n i t (-1) >>= fun m =>
          singleTrotterDerivatives alg negl h time n (i + 1) ts >>= fun rest =>
            pure (p.toList ++ (m.toList ++ rest))) := rfl

theorem singleTrotter_ok_facts (alg : TimeAlg Q T) (negl : Q → Bool) (h : PSum (Q × Q)) (time : T) (n i : ℕ)
    (ts : PSum (Q × Q)) (s : List (Q × Circ T)) (hs : singleTrotterDerivatives alg negl h time n i ts = .ok s) :
    ∀ t ∈ ts, n ≠ 0 ∧ (rate n t ≠ ((0 : Nat) : Q) → ∀ t' ∈ h, acc negl t' = true) := by
  induction ts generalizing i s with
  | nil => simp
  | cons t ts ih =>
    rw [singleTrotter_cons, bind3_ok] at hs
    obtain ⟨p, m, rest, hp, _, hrest, _⟩ := hs
    intro t' ht'
    rcases List.mem_cons.mp ht' with rfl | ht'
    · exact singleDerivative_ok_facts alg negl h time n i _ 1 p hp
    · exact ih (i + 1) rest hrest t' ht'

/-- the two derivative circuits of one term of a single step – none when its rate r is 0 (the code skips it) -/
def derivTwo (alg : TimeAlg Q T) (time : T) (n : ℕ) (s : PSum (Q × Q) × Term (Q × Q) × PSum (Q × Q)) :
    List (Q × Circ T) :=
  if rate n s.2.1 = ((0 : Nat) : Q) then []
  else [derivCirc alg time n s.1 s.2.1 s.2.2 1, derivCirc alg time n s.1 s.2.1 s.2.2 (-1)]

theorem singleTrotter_eq (alg : TimeAlg Q T) (negl : Q → Bool) (time : T) (n : ℕ) (pre ts : PSum (Q × Q))
    (hn : n ≠ 0)
    (hacc : (∃ t ∈ ts, rate n t ≠ ((0 : Nat) : Q)) → ∀ t' ∈ pre ++ ts, acc negl t' = true) :
    singleTrotterDerivatives alg negl (pre ++ ts) time n pre.length ts
      = .ok ((splitsFrom pre ts).flatMap (derivTwo alg time n)) := by
  induction ts generalizing pre with
  | nil => rfl
  | cons t ts ih =>
    have h1 : pre ++ t :: ts = (pre ++ [t]) ++ ts := by simp
    have h2 : pre.length + 1 = (pre ++ [t]).length := by simp
    have ih' := ih (pre ++ [t]) (by
      rintro ⟨t', ht', hr'⟩
      rw [← h1]; exact hacc ⟨t', List.mem_cons_of_mem _ ht', hr'⟩)
    rw [singleTrotter_cons]
    by_cases hr : rate n t = ((0 : Nat) : Q)
    · rw [singleDerivative_zero alg negl _ time n _ t 1 hn hr, singleDerivative_zero alg negl _ time n _ t (-1) hn hr,
        h1, h2, ih']
      simp [splitsFrom, derivTwo, hr, bind, Except.bind, pure, Except.pure]
    · have hacc' := hacc ⟨t, List.mem_cons_self, hr⟩
      rw [singleDerivative_eq alg negl time n pre t ts 1 hn hr hacc',
        singleDerivative_eq alg negl time n pre t ts (-1) hn hr hacc', h1, h2, ih']
      simp [splitsFrom, derivTwo, hr, bind, Except.bind, pure, Except.pure]

/-- the spliced sequence: `p` copies of the repeated step, the different step, `n − p − 1` more copies -/
def spliceCirc (rep : Circ T) (n p : ℕ) (d : Circ T) : Circ T :=
  (List.replicate p rep).flatten ++ d ++ (List.replicate (n - p - 1) rep).flatten

theorem spliceAll_eq (rep : Circ T) (n p : ℕ) (hp : p < n) (single : List (Q × Circ T)) :
    spliceAll rep n p single = .ok (single.map (fun x => (x.1, spliceCirc rep n p x.2))) := by
  induction single with
  | nil => rfl
  | cons x single ih =>
    obtain ⟨f, d⟩ := x
    simp only [spliceAll, generateCircuitSequence_ok rep d n p hp, ih, bind, Except.bind, pure, Except.pure,
      List.map_cons, spliceCirc]

theorem splicePositions_eq (rep : Circ T) (n : ℕ) (single : List (Q × Circ T)) (ps : List ℕ) (hps : ∀ p ∈ ps, p < n) :
    splicePositions rep n single ps
      = .ok (ps.flatMap (fun p => single.map (fun x => (x.1, spliceCirc rep n p x.2)))) := by
  induction ps with
  | nil => rfl
  | cons p ps ih =>
    have h1 := spliceAll_eq rep n p (hps p List.mem_cons_self) single
    have h2 := ih (fun q hq => hps q (List.mem_cons_of_mem _ hq))
    show (spliceAll rep n p single >>= fun a => splicePositions rep n single ps >>= fun b => pure (a ++ b)) = _
    rw [h1, h2]
    rfl

end structural2

section structural3
variable {T : Type} {Q : Type} [One Q] [Mul Q] [Div Q] [Neg Q] [NatCast Q] [DecidableEq Q]

theorem derivatives_def (alg : TimeAlg Q T) (negl : Q → Bool) (h : PSum (Q × Q)) (time : T) (n : ℕ) :
    derivatives alg negl h time n =
      (singleTrotterDerivatives alg negl h time n 0 h >>= fun single =>
        if n > 1 then
          (timeEvolution alg negl h (alg.smul (1 / (n : Q)) time) 1 >>= fun rep =>
            splicePositions rep n single (List.range n))
        else pure single) := rfl


/-- the single-step derivative circuits, in the order the code produces them -/
def singleList (alg : TimeAlg Q T) (time : T) (n : ℕ) (h : PSum (Q × Q)) : List (Q × Circ T) :=
  (splits h).flatMap (derivTwo alg time n)

/-- the repeated step of the code: `time_evolution(hamiltonian, time / n_steps, n_steps=1)` -/
def repStep (alg : TimeAlg Q T) (time : T) (n : ℕ) (h : PSum (Q × Q)) : Circ T :=
  h.flatMap (fun t => evoCirc alg t (alg.smul (1 / ((1 : ℕ) : Q)) (plainTime alg time n)))

theorem timeEvolution_acc (alg : TimeAlg Q T) (negl : Q → Bool) (h : PSum (Q × Q)) (time : T) (n : ℕ)
    (hacc : ∀ t ∈ h, acc negl t = true) :
    timeEvolution alg negl h time n
      = .ok (List.replicate n (h.flatMap (fun t => evoCirc alg t (alg.smul (1 / (n : Q)) time)))).flatten := by
  unfold timeEvolution
  rw [stepCircuit_acc alg negl _ h hacc]
  induction n with
  | zero => rfl
  | succ k ih =>
    rw [repeatStep_succ]
    generalize hs : (List.flatMap (fun t => evoCirc alg t (alg.smul (1 / ((k + 1 : ℕ) : Q)) time)) h) = s at ih ⊢
    have : ∀ m, repeatStep (Except.ok s : Except Err (Circ T)) m = .ok (List.replicate m s).flatten := by
      intro m
      induction m with
      | zero => rfl
      | succ m ihm => rw [repeatStep_succ, ihm]; simp [bind, Except.bind, pure, Except.pure, List.replicate_succ]
    rw [this k]
    simp [bind, Except.bind, pure, Except.pure, List.replicate_succ]

theorem stepCircuit_ok_acc (alg : TimeAlg Q T) (negl : Q → Bool) (time : T) (ts : PSum (Q × Q)) (c : Circ T)
    (h : stepCircuit alg negl time ts = .ok c) : ∀ t ∈ ts, acc negl t = true := by
  induction ts generalizing c with
  | nil => simp
  | cons t ts ih =>
    rw [stepCircuit_cons, bind2_ok] at h
    obtain ⟨a, b, ha, hb, _⟩ := h
    intro t' ht'
    rcases List.mem_cons.mp ht' with rfl | ht'
    · rw [evolutionForTerm_eq] at ha
      by_contra hh
      rw [if_neg hh] at ha; cases ha
    · exact ih b hb t' ht'

theorem timeEvolution_ok_acc (alg : TimeAlg Q T) (negl : Q → Bool) (h : PSum (Q × Q)) (time : T) (n : ℕ) (hn : 1 ≤ n)
    (c : Circ T) (hc : timeEvolution alg negl h time n = .ok c) : ∀ t ∈ h, acc negl t = true := by
  unfold timeEvolution at hc
  rcases (repeatStep_ok _ n c).mp hc with ⟨h0, _⟩ | ⟨_, s, hs, _⟩
  · omega
  · exact stepCircuit_ok_acc alg negl _ h s hs

/-- what the double loop + splicing return, under the guard facts the code actually evaluates -/
theorem derivatives_total (alg : TimeAlg Q T) (negl : Q → Bool) (h : PSum (Q × Q)) (time : T) (n : ℕ) (hn : 1 ≤ n)
    (hacc : (n > 1 ∨ ∃ t ∈ h, rate n t ≠ ((0 : Nat) : Q)) → ∀ t ∈ h, acc negl t = true) :
    derivatives alg negl h time n = .ok ((List.range n).flatMap (fun p =>
          (singleList alg time n h).map (fun x => (x.1, spliceCirc (repStep alg time n h) n p x.2)))) := by
  have hn0 : n ≠ 0 := by omega
  have hs := singleTrotter_eq alg negl time n [] h hn0 (by
    intro hex; simpa using hacc (Or.inr hex))
  simp only [List.nil_append, List.length_nil] at hs
  have hsl : (splitsFrom [] h).flatMap (derivTwo alg time n) = singleList alg time n h := by
    unfold singleList
    rw [splitsFrom_eq, List.flatMap_map]
    simp
  rw [hsl] at hs
  rw [derivatives_def, hs]
  by_cases h1 : n > 1
  · simp only [bind, Except.bind, if_pos h1]
    rw [timeEvolution_acc alg negl h _ 1 (hacc (Or.inl h1))]
    simp only [List.replicate_one, List.flatten_cons, List.flatten_nil, List.append_nil]
    rw [splicePositions_eq _ n _ (List.range n) (fun p hp => List.mem_range.mp hp)]
    rfl
  · have : n = 1 := by omega
    subst this
    simp only [bind, Except.bind, if_neg h1, pure, Except.pure]
    simp [spliceCirc]

theorem derivatives_ok (alg : TimeAlg Q T) (negl : Q → Bool) (h : PSum (Q × Q)) (time : T) (n : ℕ) (hn : 1 ≤ n)
    (l : List (Q × Circ T)) (hl : derivatives alg negl h time n = .ok l) :
    ((n > 1 ∨ ∃ t ∈ h, rate n t ≠ ((0 : Nat) : Q)) → ∀ t ∈ h, acc negl t = true) ∧
    l = (List.range n).flatMap (fun p =>
          (singleList alg time n h).map (fun x => (x.1, spliceCirc (repStep alg time n h) n p x.2))) := by
  have hacc : (n > 1 ∨ ∃ t ∈ h, rate n t ≠ ((0 : Nat) : Q)) → ∀ t ∈ h, acc negl t = true := by
    rw [derivatives_def] at hl
    cases hs : singleTrotterDerivatives alg negl h time n 0 h with
    | error e => rw [hs] at hl; cases hl
    | ok s =>
      have facts := singleTrotter_ok_facts alg negl h time n 0 h s hs
      rintro (h1 | ⟨t, ht, hr⟩)
      · rw [hs] at hl
        simp only [bind, Except.bind, if_pos h1] at hl
        cases hte : timeEvolution alg negl h (alg.smul (1 / (n : Q)) time) 1 with
        | error e => rw [hte] at hl; cases hl
        | ok rep => exact timeEvolution_ok_acc alg negl h _ 1 (le_refl 1) rep hte
      · exact (facts t ht).2 hr
  refine ⟨hacc, ?_⟩
  have := derivatives_total alg negl h time n hn hacc
  rw [this] at hl
  cases hl; rfl

end structural3

open Matrix OQ.Spec Complex
section herm
variable {R : Type} [CommRing R] [StarRing R] {ι : Type} [Fintype ι] [DecidableEq ι]

theorem tensor_conjTranspose (g : ι → Matrix Bool Bool R) : (tensor g)ᴴ = tensor (fun q => (g q)ᴴ) := by
  ext x y
  simp only [tensor, Matrix.conjTranspose_apply, star_prod]

theorem pauliB_hermitian (k : Scal R) (hk : ScalLaws k) (o : Option P) : (pauliB k o)ᴴ = pauliB k o := by
  rcases o with _ | p
  · rw [pauliB_none]; simp
  · cases p
    · rw [pauliB_X]; ext x y; cases x <;> cases y <;> simp [σx]
    · rw [pauliB_Y]; ext x y; cases x <;> cases y <;> simp [σy, hk.star_i]
    · rw [pauliB_Z]; ext x y; cases x <;> cases y <;> simp [σz, sgn]

theorem pauliString_hermitian (k : Scal R) (hk : ScalLaws k) (pa : ι → Option P) :
    (pauliString k pa)ᴴ = pauliString k pa := by
  unfold pauliString
  rw [tensor_conjTranspose]
  congr 1
  funext q
  exact pauliB_hermitian k hk _
end herm

section sem
variable {ι : Type} [Fintype ι] [DecidableEq ι]

/-- the Pauli string of a term on the register -/
noncomputable def pOf (rg : Register ι) (t : Term (ℝ × ℝ)) : Matrix (BV ι) (BV ι) ℂ :=
  pauliString Scal.complex (fun p => t.opAt (rg.lab p))

theorem evoCirc_sem [DecidableEq ℝ] (negl : ℝ → Bool) (rg : Register ι) (t : Term (ℝ × ℝ)) (hacc : acc negl t = true)
    (hcov : rg.Covers t) (hnd : (t.ops.map (·.1)).Nodup) (τ : ℝ) :
    circSem Scal.complex angReal rg.e (evoCirc realAlg t τ)
      = if t.ops = [] then 1 else rotC (pOf rg t) (τ * t.coeff.1) := by
  by_cases h0 : t.ops = []
  · rw [if_pos h0]; simp [evoCirc, h0]
  · rw [if_neg h0]
    have hev : evolutionForTerm realAlg negl t τ = .ok (evoCirc realAlg t τ) := by
      rw [evolutionForTerm_eq, if_pos hacc]
    rw [term_sem Scal.complex scalLaws_complex realAlg negl angReal angReal_half_pi' rg t hcov hnd h0 τ _ hev]
    have : realAlg.smul t.coeff.1 (realAlg.smul ((2 : ℕ) : ℝ) τ) / 2 = τ * t.coeff.1 := by
      simp only [realAlg]; push_cast; ring
    simp only [angReal, this, rotC, rotM, pOf]

theorem plain_angle (time c : ℝ) (n : ℕ) : plainTime realAlg time n * c = time * (c / n) := by
  simp only [plainTime, realAlg]; ring

theorem rep_angle (time c : ℝ) (n : ℕ) :
    realAlg.smul (1 / ((1 : ℕ) : ℝ)) (plainTime realAlg time n) * c = time * (c / n) := by
  simp only [plainTime, realAlg]; push_cast; ring

theorem shift_angle (time : ℝ) (n : ℕ) (hn : n ≠ 0) (t : Term (ℝ × ℝ)) (hc : t.coeff.1 ≠ 0) (f : ℝ) :
    shiftTime realAlg time n t f * t.coeff.1 = time * (t.coeff.1 / n) + f * (Real.pi / 4) := by
  simp only [shiftTime, rate, realAlg]
  have : (n : ℝ) ≠ 0 := Nat.cast_ne_zero.mpr hn
  push_cast
  field_simp

theorem rotC_shift_plus (P : Matrix (BV ι) (BV ι) ℂ) (φ : ℝ) :
    rotC P (φ + 1 * (Real.pi / 4))
      = rotM Scal.complex P (Scal.complex.r * ((Real.cos φ : ℂ) - (Real.sin φ : ℂ)))
          (Scal.complex.r * ((Real.cos φ : ℂ) + (Real.sin φ : ℂ))) := by
  unfold rotC
  rw [one_mul, Real.cos_add, Real.sin_add, Real.cos_pi_div_four, Real.sin_pi_div_four]
  simp only [Scal.complex]
  congr 1 <;> (push_cast; ring)

theorem rotC_shift_minus (P : Matrix (BV ι) (BV ι) ℂ) (φ : ℝ) :
    rotC P (φ + (-1) * (Real.pi / 4))
      = rotM Scal.complex P (Scal.complex.r * ((Real.cos φ : ℂ) + (Real.sin φ : ℂ)))
          (Scal.complex.r * ((Real.sin φ : ℂ) - (Real.cos φ : ℂ))) := by
  unfold rotC
  have : φ + (-1) * (Real.pi / 4) = φ - Real.pi / 4 := by ring
  rw [this, Real.cos_sub, Real.sin_sub, Real.cos_pi_div_four, Real.sin_pi_div_four]
  simp only [Scal.complex]
  congr 1 <;> (push_cast; ring)

end sem

section data
variable {ι : Type} [Fintype ι] [DecidableEq ι]

/-- the factor of one term in one Trotter step, as a function of the total time s -/
noncomputable def Vt (rg : Register ι) (n : ℕ) (t : Term (ℝ × ℝ)) (s : ℝ) : Matrix (BV ι) (BV ι) ℂ :=
  if t.ops = [] then 1 else rotC (pOf rg t) (s * (t.coeff.1 / n))

/-- the factor with its derivative direction, its two shifted versions and its rate -/
noncomputable def dataOf (rg : Register ι) (n : ℕ) (time : ℝ) (t : Term (ℝ × ℝ)) : FData (BV ι) ℂ :=
  if t.ops = [] then ⟨1, 0, 1, 1, ((t.coeff.1 / n : ℝ) : ℂ)⟩
  else
    ⟨rotC (pOf rg t) (time * (t.coeff.1 / n)),
     rotM Scal.complex (pOf rg t) (-(Real.sin (time * (t.coeff.1 / n)) : ℂ)) (Real.cos (time * (t.coeff.1 / n)) : ℂ),
     rotM Scal.complex (pOf rg t)
       (Scal.complex.r * ((Real.cos (time * (t.coeff.1 / n)) : ℂ) - (Real.sin (time * (t.coeff.1 / n)) : ℂ)))
       (Scal.complex.r * ((Real.cos (time * (t.coeff.1 / n)) : ℂ) + (Real.sin (time * (t.coeff.1 / n)) : ℂ))),
     rotM Scal.complex (pOf rg t)
       (Scal.complex.r * ((Real.cos (time * (t.coeff.1 / n)) : ℂ) + (Real.sin (time * (t.coeff.1 / n)) : ℂ)))
       (Scal.complex.r * ((Real.sin (time * (t.coeff.1 / n)) : ℂ) - (Real.cos (time * (t.coeff.1 / n)) : ℂ))),
     ((t.coeff.1 / n : ℝ) : ℂ)⟩

theorem dataOf_V (rg : Register ι) (n : ℕ) (time : ℝ) (t : Term (ℝ × ℝ)) : (dataOf rg n time t).V = Vt rg n t time := by
  unfold dataOf Vt; split_ifs <;> rfl

theorem dataOf_r (rg : Register ι) (n : ℕ) (time : ℝ) (t : Term (ℝ × ℝ)) :
    (dataOf rg n time t).r = ((t.coeff.1 / n : ℝ) : ℂ) := by
  unfold dataOf; split_ifs <;> rfl

theorem conj_form {m : Type} [Fintype m] [DecidableEq m] (A V1 V2 B O : Matrix m m ℂ) :
    (A * V1 * B)ᴴ * O * (A * V2 * B) = Bᴴ * (V1ᴴ * (Aᴴ * O * A) * V2) * B := by
  simp only [Matrix.conjTranspose_mul, Matrix.mul_assoc]

theorem dataOf_shiftOK (rg : Register ι) (n : ℕ) (time : ℝ) (t : Term (ℝ × ℝ)) : (dataOf rg n time t).ShiftOK := by
  constructor
  · rw [dataOf_r]; exact Complex.conj_ofReal _
  · intro A B O
    by_cases h0 : t.ops = []
    · simp [dataOf, h0]
    · simp only [dataOf, h0, if_false]
      rw [conj_form, conj_form, conj_form, conj_form, ← Matrix.add_mul, ← Matrix.mul_add, ← Matrix.sub_mul, ← Matrix.mul_sub]
      congr 2
      exact param_shift_core Scal.complex scalLaws_complex (pOf rg t) (pauliString_hermitian _ scalLaws_complex _)
        _ _ (Complex.conj_ofReal _) (Complex.conj_ofReal _) _

theorem Vt_deriv (rg : Register ι) (n : ℕ) (time : ℝ) (t : Term (ℝ × ℝ)) :
    MDeriv (fun s => Vt rg n t s) ((dataOf rg n time t).r • (dataOf rg n time t).V') time := by
  by_cases h0 : t.ops = []
  · simp only [Vt, dataOf, h0, if_true, smul_zero]
    exact MDeriv.const 1 time
  · simp only [Vt, dataOf, h0, if_false]
    exact rotC_deriv (pOf rg t) (t.coeff.1 / n) time

end data

section assembly
variable {ι : Type} [Fintype ι] [DecidableEq ι]

theorem flatMap_sem {R : Type} [CommRing R] [StarRing R] {T α : Type} (k : Scal R) (ang : T → Ang R) (e : ℕ → ι)
    (f : α → Circ T) (ts : List α) :
    circSem k ang e (ts.flatMap f) = seqProd (ts.map (fun t => circSem k ang e (f t))) := by
  induction ts with
  | nil => rfl
  | cons t ts ih => simp [circSem_append, ih, seqProd]

theorem spliceCirc_sem {R : Type} [CommRing R] [StarRing R] {T : Type} (k : Scal R) (ang : T → Ang R) (e : ℕ → ι)
    (rep d : Circ T) (n p : ℕ) :
    circSem k ang e (spliceCirc rep n p d)
      = circSem k ang e rep ^ (n - p - 1) * circSem k ang e d * circSem k ang e rep ^ p := by
  unfold spliceCirc
  rw [circSem_append, circSem_append, circSem_replicate, circSem_replicate, Matrix.mul_assoc]

theorem splits_map {α β : Type} (f : α → β) (l : List α) :
    splits (l.map f) = (splits l).map (fun s => (s.1.map f, f s.2.1, s.2.2.map f)) := by
  induction l with
  | nil => rfl
  | cons x xs ih => simp [splits, ih, Function.comp]

theorem sum_flatMap_map {α β M : Type} [AddMonoid M] (L : List α) (f : α → List β) (g : β → M) :
    ((L.flatMap f).map g).sum = (L.map (fun x => ((f x).map g).sum)).sum := by
  induction L with
  | nil => rfl
  | cons x L ih => simp [ih]

end assembly

section assembly2
variable {ι : Type} [Fintype ι] [DecidableEq ι]

theorem MDeriv.congr_deriv {m : Type} [Fintype m] [DecidableEq m] {F : ℝ → Matrix m m ℂ} {F' G' : Matrix m m ℂ} {t : ℝ}
    (h : MDeriv F F' t) (e : F' = G') : MDeriv F G' t := e ▸ h

/-- the n-step evolution matrix as a function of the total time -/
noncomputable def Wt (rg : Register ι) (n : ℕ) (h : PSum (ℝ × ℝ)) (s : ℝ) : Matrix (BV ι) (BV ι) ℂ :=
  seqProd (h.map (fun t => Vt rg n t s)) ^ n

theorem data_V_map (rg : Register ι) (n : ℕ) (time : ℝ) (l : PSum (ℝ × ℝ)) :
    (l.map (dataOf rg n time)).map (·.V) = l.map (fun t => Vt rg n t time) := by
  rw [List.map_map]; apply List.map_congr_left; intro t _; exact dataOf_V rg n time t

theorem Wt_deriv (rg : Register ι) (n : ℕ) (time : ℝ) (h : PSum (ℝ × ℝ)) :
    MDeriv (fun s => Wt rg n h s) (dProd n (h.map (dataOf rg n time))) time := by
  have hS := mderiv_seqProd
    (h.map (fun t => ((fun s => Vt rg n t s), (dataOf rg n time t).r • (dataOf rg n time t).V'))) time
    (by intro f hf; obtain ⟨t, _, rfl⟩ := List.mem_map.mp hf; exact Vt_deriv rg n time t)
  simp only [List.map_map] at hS
  have hW := mderiv_pow hS n
  unfold Wt
  refine hW.congr_deriv ?_
  unfold dProd places
  rw [sum_flatMap_map]
  apply congrArg List.sum
  apply List.map_congr_left
  intro p _
  rw [splits_map, splits_map, List.map_map, List.map_map, List.map_map, ← List.sum_map_mul_left, ← List.sum_map_mul_right]
  apply congrArg List.sum
  rw [List.map_map]
  apply List.map_congr_left
  intro s _
  have e2 : (fun x => (dataOf rg n time x).V) = fun t => Vt rg n t time := by
    funext t; exact dataOf_V rg n time t
  simp only [List.map_map, Function.comp_def, e2, Matrix.mul_smul, Matrix.smul_mul, Matrix.mul_assoc]

end assembly2

section assembly3
variable {ι : Type} [Fintype ι] [DecidableEq ι] [DecidableEq ℝ]

/-- every term is accepted by the guard, lives on the register and has distinct qubits -/
def Good (negl : ℝ → Bool) (rg : Register ι) (h : PSum (ℝ × ℝ)) : Prop :=
  ∀ t ∈ h, acc negl t = true ∧ rg.Covers t ∧ (t.ops.map (·.1)).Nodup

theorem evo_plain_sem (negl : ℝ → Bool) (rg : Register ι) (n : ℕ) (t : Term (ℝ × ℝ))
    (ht : acc negl t = true ∧ rg.Covers t ∧ (t.ops.map (·.1)).Nodup) (τ s : ℝ)
    (hτ : τ * t.coeff.1 = s * (t.coeff.1 / n)) :
    circSem Scal.complex angReal rg.e (evoCirc realAlg t τ) = Vt rg n t s := by
  rw [evoCirc_sem negl rg t ht.1 ht.2.1 ht.2.2 τ, hτ]; rfl

theorem evo_list_sem (negl : ℝ → Bool) (rg : Register ι) (n : ℕ) (ts : PSum (ℝ × ℝ)) (hg : Good negl rg ts) (τ s : ℝ)
    (hτ : ∀ c : ℝ, τ * c = s * (c / n)) :
    circSem Scal.complex angReal rg.e (ts.flatMap (fun t => evoCirc realAlg t τ))
      = seqProd (ts.map (fun t => Vt rg n t s)) := by
  rw [flatMap_sem]
  congr 1
  apply List.map_congr_left
  intro t ht
  exact evo_plain_sem negl rg n t (hg t ht) τ s (hτ _)

theorem timeEvolution_sem (negl : ℝ → Bool) (rg : Register ι) (n : ℕ) (h : PSum (ℝ × ℝ)) (hg : Good negl rg h) (s : ℝ) :
    ∃ C, timeEvolution realAlg negl h s n = .ok C ∧ circSem Scal.complex angReal rg.e C = Wt rg n h s := by
  refine ⟨_, timeEvolution_acc realAlg negl h s n (fun t ht => (hg t ht).1), ?_⟩
  rw [circSem_replicate, evo_list_sem negl rg n h hg _ s (fun c => by simp only [realAlg]; ring)]
  rfl

theorem evo_shift_sem (negl : ℝ → Bool) (rg : Register ι) (n : ℕ) (hn : n ≠ 0) (time : ℝ) (t : Term (ℝ × ℝ))
    (ht : acc negl t = true ∧ rg.Covers t ∧ (t.ops.map (·.1)).Nodup) (hc : t.coeff.1 ≠ 0) :
    circSem Scal.complex angReal rg.e (evoCirc realAlg t (shiftTime realAlg time n t 1)) = (dataOf rg n time t).Vp ∧
    circSem Scal.complex angReal rg.e (evoCirc realAlg t (shiftTime realAlg time n t (-1))) = (dataOf rg n time t).Vm := by
  rw [evoCirc_sem negl rg t ht.1 ht.2.1 ht.2.2, evoCirc_sem negl rg t ht.1 ht.2.1 ht.2.2,
    shift_angle time n hn t hc 1, shift_angle time n hn t hc (-1)]
  by_cases h0 : t.ops = []
  · simp [dataOf, h0]
  · simp only [dataOf, h0, if_false]
    exact ⟨rotC_shift_plus _ _, rotC_shift_minus _ _⟩

end assembly3


section assembly4
variable {ι : Type} [Fintype ι] [DecidableEq ι] [DecidableEq ℝ]

theorem flatMap_congr' {α β : Type} (L : List α) (f g : α → List β) (h : ∀ x ∈ L, f x = g x) :
    L.flatMap f = L.flatMap g := by
  induction L with
  | nil => rfl
  | cons x L ih =>
    simp only [List.flatMap_cons]
    rw [h x List.mem_cons_self, ih (fun y hy => h y (List.mem_cons_of_mem _ hy))]

/-- the place of term `s.2.1` (split `s` of the Hamiltonian) at position `p` of the n-step product -/
noncomputable def placeOf (rg : Register ι) (n : ℕ) (time : ℝ) (h : PSum (ℝ × ℝ)) (p : ℕ)
    (s : PSum (ℝ × ℝ) × Term (ℝ × ℝ) × PSum (ℝ × ℝ)) :
    Matrix (BV ι) (BV ι) ℂ × FData (BV ι) ℂ × Matrix (BV ι) (BV ι) ℂ :=
  (seqProd ((h.map (dataOf rg n time)).map (·.V)) ^ (n - 1 - p) * seqProd ((s.2.2.map (dataOf rg n time)).map (·.V)),
    dataOf rg n time s.2.1,
    seqProd ((s.1.map (dataOf rg n time)).map (·.V)) * seqProd ((h.map (dataOf rg n time)).map (·.V)) ^ p)

/-- the places whose term is NOT skipped by the code (rate ≠ 0) -/
noncomputable def livePlaces (rg : Register ι) (n : ℕ) (time : ℝ) (h : PSum (ℝ × ℝ)) :
    List (Matrix (BV ι) (BV ι) ℂ × FData (BV ι) ℂ × Matrix (BV ι) (BV ι) ℂ) :=
  (List.range n).flatMap (fun p => (splits h).flatMap (fun s =>
    if rate n s.2.1 = ((0 : ℕ) : ℝ) then [] else [placeOf rg n time h p s]))

theorem places_eq (rg : Register ι) (n : ℕ) (time : ℝ) (h : PSum (ℝ × ℝ)) :
    places n (h.map (dataOf rg n time)) = (List.range n).flatMap (fun p => (splits h).map (placeOf rg n time h p)) := by
  unfold places
  apply flatMap_congr'
  intro p _
  rw [splits_map, List.map_map]
  rfl

theorem livePlaces_mem (rg : Register ι) (n : ℕ) (time : ℝ) (h : PSum (ℝ × ℝ)) :
    ∀ x ∈ livePlaces rg n time h, x ∈ places n (h.map (dataOf rg n time)) := by
  intro x hx
  rw [places_eq]
  simp only [livePlaces, List.mem_flatMap, List.mem_range] at hx
  obtain ⟨p, hp, s, hs, hx⟩ := hx
  simp only [List.mem_flatMap, List.mem_range, List.mem_map]
  refine ⟨p, hp, s, hs, ?_⟩
  split_ifs at hx
  · simp at hx
  · simp at hx; exact hx.symm

/-- skipped terms have rate 0, so they do not contribute to the formal derivative -/
theorem dProd_live (rg : Register ι) (n : ℕ) (time : ℝ) (h : PSum (ℝ × ℝ)) :
    dProd n (h.map (dataOf rg n time))
      = ((livePlaces rg n time h).map (fun x => x.2.1.r • (x.1 * x.2.1.V' * x.2.2))).sum := by
  unfold dProd livePlaces
  rw [places_eq, sum_flatMap_map, sum_flatMap_map]
  apply congrArg List.sum
  apply List.map_congr_left
  intro p _
  rw [sum_flatMap_map, List.map_map]
  apply congrArg List.sum
  apply List.map_congr_left
  intro s _
  simp only [Function.comp]
  split_ifs with hr
  · have : (placeOf rg n time h p s).2.1.r = 0 := by
      show (dataOf rg n time s.2.1).r = 0
      rw [dataOf_r]
      have : s.2.1.coeff.1 / (n : ℝ) = 0 := by simpa [rate] using hr
      rw [this]; simp
    rw [this]; simp
  · simp

theorem deriv_list_sem (negl : ℝ → Bool) (rg : Register ι) (h : PSum (ℝ × ℝ)) (time : ℝ) (n : ℕ) (hn : 1 ≤ n)
    (hg : Good negl rg h) :
    ((List.range n).flatMap (fun p => (singleList realAlg time n h).map
        (fun x => (x.1, spliceCirc (repStep realAlg time n h) n p x.2)))).map
      (fun x => ((x.1 : ℂ), circSem Scal.complex angReal rg.e x.2))
    = (livePlaces rg n time h).flatMap
        (fun x => [(x.2.1.r, x.1 * x.2.1.Vp * x.2.2), (-x.2.1.r, x.1 * x.2.1.Vm * x.2.2)]) := by
  have hn0 : n ≠ 0 := by omega
  have hrep : circSem Scal.complex angReal rg.e (repStep realAlg time n h)
      = seqProd ((h.map (dataOf rg n time)).map (·.V)) := by
    rw [data_V_map]
    exact evo_list_sem negl rg n h hg _ time (fun c => rep_angle time c n)
  unfold livePlaces singleList
  rw [List.map_flatMap, List.flatMap_assoc]
  apply flatMap_congr'
  intro p hp
  have hp' : p < n := List.mem_range.mp hp
  rw [List.map_map, List.map_flatMap, List.flatMap_assoc]
  apply flatMap_congr'
  intro s hs
  unfold derivTwo
  by_cases hr : rate n s.2.1 = ((0 : ℕ) : ℝ)
  · simp [hr]
  · rw [if_neg hr, if_neg hr]
    have hc : s.2.1.coeff.1 ≠ 0 := by
      intro h0; apply hr; simp [rate, h0]
    have hsp := splits_spec h s hs
    have hg1 : Good negl rg s.1 := fun t ht => hg t (by rw [hsp]; simp [ht])
    have hg2 : Good negl rg s.2.2 := fun t ht => hg t (by rw [hsp]; simp [ht])
    have ht : s.2.1 ∈ h := splits_mem h s hs
    have hsh := evo_shift_sem negl rg n hn0 time s.2.1 (hg _ ht) hc
    have ha := evo_list_sem negl rg n s.1 hg1 (plainTime realAlg time n) time (fun c => plain_angle time c n)
    have hb := evo_list_sem negl rg n s.2.2 hg2 (plainTime realAlg time n) time (fun c => plain_angle time c n)
    have e : n - p - 1 = n - 1 - p := by omega
    simp only [List.map_cons, List.map_nil, Function.comp, derivCirc, spliceCirc_sem, circSem_append, hrep, hsh.1, hsh.2,
      ha, hb, data_V_map, dataOf_r, rate, e, placeOf, List.flatMap_cons, List.flatMap_nil, List.append_nil]
    simp only [Matrix.mul_assoc]
    push_cast
    simp

end assembly4

section final
variable {ι : Type} [Fintype ι] [DecidableEq ι] [DecidableEq ℝ]

theorem derivative_sem (negl : ℝ → Bool) (rg : Register ι) (h : PSum (ℝ × ℝ))
    (hcov : ∀ t ∈ h, rg.Covers t) (hnd : ∀ t ∈ h, (t.ops.map (·.1)).Nodup)
    (time : ℝ) (n : ℕ) (hn : 1 ≤ n) (C0 : Circ ℝ) (hev : timeEvolution realAlg negl h time n = .ok C0)
    (l : List (ℝ × Circ ℝ)) (hl : derivatives realAlg negl h time n = .ok l)
    (O : Matrix (BV ι) (BV ι) ℂ) (ψ : BV ι → ℂ) :
    (∀ s, ∃ C, timeEvolution realAlg negl h s n = .ok C ∧ circSem Scal.complex angReal rg.e C = Wt rg n h s) ∧
    HasDerivAt (fun s => expect O (Wt rg n h s) ψ)
      ((l.map (fun x => (x.1 : ℂ) * expect O (circSem Scal.complex angReal rg.e x.2) ψ)).sum) time := by
  have hacc := timeEvolution_ok_acc realAlg negl h time n hn C0 hev
  obtain ⟨_, rfl⟩ := derivatives_ok realAlg negl h time n hn l hl
  have hg : Good negl rg h := fun t ht => ⟨hacc t ht, hcov t ht, hnd t ht⟩
  refine ⟨fun s => timeEvolution_sem negl rg n h hg s, ?_⟩
  have hD := expect_deriv (Wt_deriv rg n time h) O ψ
  refine hD.congr_deriv ?_
  have hL := leibniz_shift_list (livePlaces rg n time h) (Wt rg n h time) O (by
    intro x hx
    have hs := places_spec n (h.map (dataOf rg n time)) x (livePlaces_mem rg n time h x hx)
    refine ⟨?_, ?_⟩
    · rw [hs.1, data_V_map]; rfl
    · obtain ⟨t, _, ht⟩ := List.mem_map.mp hs.2
      rw [← ht]; exact dataOf_shiftOK rg n time t)
  have hlist := deriv_list_sem negl rg h time n hn hg
  rw [dProd_live, hL, quad_list_sum, ← hlist, List.map_map]
  apply congrArg List.sum
  apply List.map_congr_left
  intro x _
  simp only [Function.comp, quad_smul, expect_eq_quad]

end final

end OQ.C16
