/- definitions shared by the tie theorems of circuits/_serde.py (T8, OQ/Lemmas/C05_TranslatedSerde.lean, OQ/Props/C05_TranslatedSerde.lean)
   and the driver glue of the differential self-check (OQ/Generated/TranslatedDriverT8.lean): the instantiation `TS.X` of the translated
   definitions' externals by the model's parameters, translated gate / circuit objects and their model gate.  DEFINITIONS ONLY and
   Mathlib-free: it is compiled into `oqdriver`, and it must keep building when a tie theorem breaks. -/
import OQ.Generated.TranslatedC05
import OQ.Model.C05
namespace OQ.C05
namespace TS
open OQ.Generated OQ.PyT8

variable {P E : Type}

/-- a model name (list of code points) as a Python str of the translated code -/
abbrev sN (n : Name) : String := String.ofList n

/-- matrix factories of the translated `MatrixFactoryGate`: `none` = the factory of a built-in gate,
    `some d` = `CustomGateMatrixFactory(d)` -/
abbrev Fac (P : Type) := Option (CustomDef P)
abbrev TGate (P E : Type) := TranslatedGates.Gate P (Fac P) E
abbrev TOp (P E : Type) := TranslatedC05.GateOperation P (Fac P) E

/-- a `Circuit` object as the translated code sees it: `n_qubits` and `operations` -/
structure TCirc (P E : Type) where
  nQubits : Int
  ops : List (TOp P E)

/-- the model's gate of a translated gate object (forgets `num_qubits` / `is_hermitian`, which the format does not store) -/
def proj : TGate P E → Gate P E
  | .MatrixFactoryGate nm none ps _ _ => .builtin nm.toList ps
  | .MatrixFactoryGate _ (some d) ps _ _ => .custom d ps
  | .ControlledGate g k => .controlled (proj g) k
  | .Dagger g => .dagger (proj g)
  | .Exponential g => .exponential (proj g)
  | .Power g e => .power (proj g) e

/-- a gate made by `CustomGateDefinition.__call__` carries the definition's `gate_name` as its `name` -/
def WF : TGate P E → Prop
  | .MatrixFactoryGate nm (some d) _ _ _ => nm = sN d.gateName
  | .MatrixFactoryGate _ none _ _ _ => True
  | .ControlledGate g _ => WF g
  | .Dagger g => WF g
  | .Exponential g => WF g
  | .Power g _ => WF g

def projOp (o : TOp P E) : Op P E := ⟨proj o.gate, o.qubit_indices⟩
def projC (c : TCirc P E) : Circuit P E := ⟨c.nQubits, c.ops.map projOp⟩

/-- the model's exceptions as exception classes of the translated code -/
def embErr : OQ.C05.Err → PyT8.Err
  | .key => .KeyError
  | .value => .ValueError
  | .type => .TypeError
  | .junk => .NotAGate

def embE {α : Type} : Except OQ.C05.Err α → Except PyT8.Err α
  | .ok a => .ok a
  | .error e => .error (embErr e)

/-- THE INSTANTIATION of the externals of the translated definitions by the model's parameters: `env` (the lookup namespace of
    `_builtin_gates`), `C` (the text codec).  `S := Name` (a sympy symbol is its name), `D := CustomDef P`, `Mx := List (List P)`,
    `R := Lookup` (what `globals()[name]` finds), `Ci := TCirc P E`. -/
def X (env : Env) (C : Codec P E) :
    TranslatedC05.Ext P (Fac P) E Name (CustomDef P) (TCirc P E) (List (List P)) Lookup where
  gx := { get_free_symbols := fun ps => sortDedup (ps.flatMap C.free), sub_symbols := fun p _ => p }
  format_exponent := fun e => sN (C.expoText e)
  serialize_expr := fun p => sN (C.ser p)
  serialize_symbol := fun s => sN s
  deserialize_expr := fun t names => embE (deserializeExpr C (names.map String.toList) t.toList)
  matrix_to_json := fun m => m.map (fun row => row.map (fun p => sN (C.ser p)))
  matrix_from_json := fun rows names =>
    embE (mapE (fun row => mapE (fun (t : String) => deserializeExpr C (names.map String.toList) t.toList) row) rows)
  Symbol := fun s => s.toList
  builtin_gates_builtin_gate_by_name := fun n =>
    match lookupGlobal env n.toList with
    | .missing => .error .KeyError
    | r => .ok (some r)
  call_gate_ref := fun r ps =>
    match r with
    | .gate gi => if gi.prototype then .ok (.MatrixFactoryGate (sN gi.gateName) none ps gi.numQubits gi.hermitian)
                  else .error .NotAGate
    | _ => .error .NotAGate
  gate_ref_as_gate := fun r =>
    match r with
    | .gate gi => if gi.prototype then .error .NotAGate
                  else .ok (.MatrixFactoryGate (sN gi.gateName) none [] gi.numQubits gi.hermitian)
    | _ => .error .NotAGate
  def_gate_name := fun d => sN d.gateName
  def_matrix := fun d => d.matrix
  def_params_ordering := fun d => d.ordering
  CustomGateDefinition := fun nm m ord => if shapeOk m then .ok ⟨nm.toList, m, ord⟩ else .error .ValueError
  call_gate_def := fun d ps => .MatrixFactoryGate (sN d.gateName) (some d) ps (Nat.log2 d.matrix.length) false
  circuit_n_qubits := fun c => c.nQubits
  circuit_operations := fun c => c.ops
  collect_custom_gate_definitions := fun c => embE (collectDefs C (c.ops.map projOp))
  Circuit := fun ops n => embE (match mkCircuit (ops.map projOp) n with
    | .ok c => .ok ⟨c.nQubits, ops⟩
    | .error e => .error e)



end TS
end OQ.C05
