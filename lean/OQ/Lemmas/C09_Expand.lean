/- C09 helper lemmas, part 6: the Pauli expansion of a matrix (`get_pauliop_from_matrix`). -/
import OQ.Lemmas.C09_Simplified
import Mathlib.Algebra.BigOperators.Ring.Finset
import Mathlib.Algebra.BigOperators.Intervals
set_option linter.unusedSectionVars false
namespace OQ.C09
open OQ OQ.Pauli Finset

variable {R : Type} [CommRing R]

theorem list_sum_range (n : Nat) (f : Nat → R) : ((List.range n).map f).sum = ∑ i ∈ range n, f i := by
  induction n with
  | zero => simp
  | succ n ih => rw [List.range_succ, List.map_append, List.sum_append, ih, Finset.sum_range_succ]; simp

theorem sum_range_two_mul (m : Nat) (f : Nat → R) :
    ∑ j ∈ range (2 * m), f j = ∑ j ∈ range m, ∑ β ∈ range 2, f (2 * j + β) := by
  induction m with
  | zero => simp
  | succ m ih =>
    rw [show 2 * (m + 1) = 2 * m + 1 + 1 by ring, Finset.sum_range_succ, Finset.sum_range_succ, ih,
      Finset.sum_range_succ (n := m)]
    simp [Finset.sum_range_succ]; ring

theorem sum_range_four_mul (m : Nat) (f : Nat → R) :
    ∑ j ∈ range (4 * m), f j = ∑ j ∈ range m, ∑ l ∈ range 4, f (4 * j + l) := by
  induction m with
  | zero => simp
  | succ m ih =>
    rw [show 4 * (m + 1) = 4 * m + 1 + 1 + 1 + 1 by ring, Finset.sum_range_succ, Finset.sum_range_succ,
      Finset.sum_range_succ, Finset.sum_range_succ, ih, Finset.sum_range_succ (n := m)]
    simp [Finset.sum_range_succ]; ring

/-- letters of the `i`-th label (base-4 digits of `i`, most significant first) -/
def atI (n i : Nat) (q : Nat) : Option P := letterOf (i / 4 ^ (n - 1 - q) % 4)

/-- `2^n · trace_product` for the string `at_` (as a sum over columns) -/
def TP (k : Scal R) (n : Nat) (A : Nat → Nat → R) (at_ : Nat → Option P) : R :=
  ∑ j ∈ range (2 ^ n), A j (partner at_ n j) * strEntry k at_ n (partner at_ n j) j

theorem partner_congr (a b : Nat → Option P) (n : Nat) (h : ∀ q, q < n → a q = b q) (j : Nat) :
    partner a n j = partner b n j := by
  induction n generalizing j with
  | zero => rfl
  | succ n ih => simp only [partner]; rw [ih (fun q hq => h q (by omega)), h n (by omega)]

theorem atI_succ_lt (n i l q : Nat) (hl : l < 4) (hq : q < n) : atI (n + 1) (4 * i + l) q = atI n i q := by
  unfold atI
  have : n + 1 - 1 - q = (n - 1 - q) + 1 := by omega
  rw [this, pow_succ, Nat.mul_comm (4 ^ _) 4, ← Nat.div_div_eq_div_mul]
  congr 3; omega

theorem atI_succ_last (n i l : Nat) (hl : l < 4) : atI (n + 1) (4 * i + l) n = letterOf l := by
  unfold atI
  simp only [Nat.add_sub_cancel, Nat.sub_self, pow_zero, Nat.div_one]
  congr 1; omega

theorem TP_succ (k : Scal R) (n : Nat) (A : Nat → Nat → R) (at_ at' : Nat → Option P) (o : Option P)
    (hlt : ∀ q, q < n → at' q = at_ q) (hn : at' n = o) :
    TP k (n + 1) A at' = ∑ j ∈ range (2 ^ n), ∑ β ∈ range 2,
      A (2 * j + β) (2 * partner at_ n j + flipbit o β) *
        (strEntry k at_ n (partner at_ n j) j * pe k o (flipbit o β) β) := by
  unfold TP
  rw [pow_succ, Nat.mul_comm, sum_range_two_mul]
  apply Finset.sum_congr rfl
  intro j _
  apply Finset.sum_congr rfl
  intro β hβ
  have hβ2 : β < 2 := Finset.mem_range.1 hβ
  have hfl := flipbit_lt o β hβ2
  simp only [partner, strEntry, hn]
  have e1 : (2 * j + β) / 2 = j := by omega
  have e2 : (2 * j + β) % 2 = β := by omega
  rw [e1, e2, partner_congr at' at_ n hlt]
  have e3 : (2 * partner at_ n j + flipbit o β) / 2 = partner at_ n j := by omega
  have e4 : (2 * partner at_ n j + flipbit o β) % 2 = flipbit o β := by omega
  rw [e3, e4, strEntry_congr k at' at_ n hlt]

theorem one_qubit_completeness (k : Scal R) (hi : k.i * k.i = -1) (g : Nat → Nat → R) (α α' : Nat)
    (hα : α < 2) (hα' : α' < 2) :
    ∑ l ∈ range 4, ∑ β ∈ range 2,
      g β (flipbit (letterOf l) β) * pe k (letterOf l) (flipbit (letterOf l) β) β * pe k (letterOf l) α α'
      = 2 * g α α' := by
  interval_cases α <;> interval_cases α' <;>
    simp [Finset.sum_range_succ, letterOf, flipbit, pe] <;> ring_nf
  all_goals
    have h2 : k.i ^ 2 = -1 := by rw [pow_two, hi]
    rw [h2]; ring


/-- the Pauli expansion coefficients, summed against the strings -/
def TT (k : Scal R) (n : Nat) (A : Nat → Nat → R) (a b : Nat) : R :=
  ∑ i ∈ range (4 ^ n), TP k n A (atI n i) * strEntry k (atI n i) n a b

/-- completeness of the Pauli strings: `Σ_P tr(A·P) P = 2^n A` (entry by entry) -/
theorem TT_eq (k : Scal R) (hi : k.i * k.i = -1) (n : Nat) (A : Nat → Nat → R) (a b : Nat)
    (ha : a < 2 ^ n) (hb : b < 2 ^ n) : TT k n A a b = 2 ^ n * A a b := by
  induction n generalizing A a b with
  | zero =>
    have ha0 : a = 0 := by simpa using ha
    have hb0 : b = 0 := by simpa using hb
    subst ha0 hb0
    simp [TT, TP, strEntry, partner]
  | succ n ih =>
    -- the matrix seen by the first `n` qubits once the last qubit is resolved
    let B : Nat → Nat → R := fun x y => ∑ l ∈ range 4, ∑ β ∈ range 2,
      A (2 * x + β) (2 * y + flipbit (letterOf l) β) * pe k (letterOf l) (flipbit (letterOf l) β) β
        * pe k (letterOf l) (a % 2) (b % 2)
    have hstep : TT k (n + 1) A a b = TT k n B (a / 2) (b / 2) := by
      unfold TT
      rw [pow_succ, Nat.mul_comm, sum_range_four_mul]
      apply Finset.sum_congr rfl
      intro i _
      have hl : ∀ l ∈ range 4, TP k (n + 1) A (atI (n + 1) (4 * i + l)) * strEntry k (atI (n + 1) (4 * i + l)) (n + 1) a b
          = (∑ j ∈ range (2 ^ n), ∑ β ∈ range 2,
              A (2 * j + β) (2 * partner (atI n i) n j + flipbit (letterOf l) β) *
                (strEntry k (atI n i) n (partner (atI n i) n j) j * pe k (letterOf l) (flipbit (letterOf l) β) β))
            * (strEntry k (atI n i) n (a / 2) (b / 2) * pe k (letterOf l) (a % 2) (b % 2)) := by
        intro l hl
        have hl4 : l < 4 := Finset.mem_range.1 hl
        rw [TP_succ k n A (atI n i) (atI (n + 1) (4 * i + l)) (letterOf l)
          (fun q hq => atI_succ_lt n i l q hl4 hq) (atI_succ_last n i l hl4)]
        simp only [strEntry]
        rw [atI_succ_last n i l hl4, strEntry_congr k _ (atI n i) n (fun q hq => atI_succ_lt n i l q hl4 hq)]
      rw [Finset.sum_congr rfl hl]
      unfold TP
      simp only [Finset.sum_mul, B]
      rw [Finset.sum_comm]
      apply Finset.sum_congr rfl
      intro j _
      apply Finset.sum_congr rfl
      intro l _
      apply Finset.sum_congr rfl
      intro β _
      ring
    rw [hstep, ih B (a / 2) (b / 2) (by rw [pow_succ] at ha; omega) (by rw [pow_succ] at hb; omega)]
    have hB : B (a / 2) (b / 2) = 2 * A a b := by
      have := one_qubit_completeness k hi (fun β γ => A (2 * (a / 2) + β) (2 * (b / 2) + γ)) (a % 2) (b % 2)
        (Nat.mod_lt _ (by decide)) (Nat.mod_lt _ (by decide))
      simp only [B]
      rw [this, Nat.div_add_mod, Nat.div_add_mod]
    rw [hB, pow_succ]; ring

/-! ### dec2bin / bin2dec / decode -/

theorem bitLength_le (x len : Nat) (hlen : 1 ≤ len) (hx : x < 2 ^ len) : bitLength x ≤ len := by
  unfold bitLength
  split
  · exact hlen
  · rename_i h
    have := (Nat.log2_lt h).2 hx
    omega

theorem dec2bin_eq (x len : Nat) (hlen : 1 ≤ len) (hx : x < 2 ^ len) :
    dec2bin x len = (List.range len).map (fun p => x / 2 ^ (len - 1 - p) % 2) := by
  unfold dec2bin
  simp only [Nat.max_eq_left (bitLength_le x len hlen hx)]

theorem dec2bin_length (x len : Nat) (hlen : 1 ≤ len) (hx : x < 2 ^ len) : (dec2bin x len).length = len := by
  rw [dec2bin_eq x len hlen hx]; simp

theorem dec2bin_getD (x len p : Nat) (hlen : 1 ≤ len) (hx : x < 2 ^ len) (hp : p < len) :
    (dec2bin x len).getD p 0 = x / 2 ^ (len - 1 - p) % 2 := by
  rw [dec2bin_eq x len hlen hx, List.getD_eq_getElem?_getD, List.getElem?_map, List.getElem?_range hp]
  rfl

theorem bin2dec_append (l : List Nat) (b : Nat) : bin2dec (l ++ [b]) = 2 * bin2dec l + b := by
  simp [bin2dec, List.foldl_append]

theorem four_pow (m : Nat) : 4 ^ m = 2 ^ (2 * m) := by
  rw [pow_mul]; rfl

/-- the label of index `i` is the list of base-4 digits of `i`, most significant first -/
theorem decode_dec2bin (n i : Nat) (hn : 1 ≤ n) (hi : i < 4 ^ n) :
    decode n (dec2bin i (2 * n)) = (List.range n).map (fun q => i / 4 ^ (n - 1 - q) % 4) := by
  have hi2 : i < 2 ^ (2 * n) := by rw [← four_pow]; exact hi
  unfold decode
  apply List.map_congr_left
  intro q hq
  have hq' := List.mem_range.1 hq
  rw [dec2bin_getD i (2 * n) (2 * q) (by omega) hi2 (by omega),
    dec2bin_getD i (2 * n) (2 * q + 1) (by omega) hi2 (by omega)]
  simp only [bin2dec, List.foldl_cons, List.foldl_nil]
  have e1 : 2 * n - 1 - (2 * q + 1) = 2 * (n - 1 - q) := by omega
  have e2 : 2 * n - 1 - 2 * q = 2 * (n - 1 - q) + 1 := by omega
  rw [e1, e2, pow_succ, ← Nat.div_div_eq_div_mul, ← four_pow]
  generalize i / 4 ^ (n - 1 - q) = x
  omega

/-! ### the label term -/

theorem labelTerm_find (L : List Nat) (kk q : Nat) :
    (((L.zipIdx kk).filterMap (fun (x : Nat × Nat) => (letterOf x.1).map (fun p => (x.2, p)))).find?
        (fun p => p.1 == q)).map (·.2)
      = if kk ≤ q then letterOf (L.getD (q - kk) 0) else none := by
  induction L generalizing kk with
  | nil => simp [letterOf]
  | cons e L ih =>
    rw [List.zipIdx_cons, List.filterMap_cons]
    cases he : letterOf e with
    | none =>
      simp only [Option.map_none]
      rw [ih (kk + 1)]
      by_cases h1 : kk + 1 ≤ q
      · have : q - kk = (q - (kk + 1)) + 1 := by omega
        rw [if_pos h1, if_pos (by omega), this, List.getD_cons_succ]
      · rw [if_neg h1]
        by_cases h2 : kk ≤ q
        · have : q - kk = 0 := by omega
          rw [if_pos h2, this, List.getD_cons_zero, he]
        · rw [if_neg h2]
    | some p =>
      simp only [Option.map_some, List.find?_cons]
      by_cases h0 : kk = q
      · subst h0
        simp [he]
      · have : (kk == q) = false := by simpa using h0
        simp only [this]
        rw [ih (kk + 1)]
        by_cases h1 : kk + 1 ≤ q
        · have : q - kk = (q - (kk + 1)) + 1 := by omega
          rw [if_pos h1, if_pos (by omega), this, List.getD_cons_succ]
        · rw [if_neg h1, if_neg (by omega)]

theorem labelTerm_opAt (L : List Nat) (c : R) (q : Nat) : (labelTerm L c).opAt q = letterOf (L.getD q 0) := by
  have := labelTerm_find L 0 q
  simp only [Nat.zero_le, if_true, Nat.sub_zero] at this
  exact this

theorem labelTerm_keys (L : List Nat) (kk : Nat) :
    (((L.zipIdx kk).filterMap (fun (x : Nat × Nat) => (letterOf x.1).map (fun p => (x.2, p)))).map Prod.fst).Pairwise (· < ·)
    ∧ ∀ y ∈ ((L.zipIdx kk).filterMap (fun (x : Nat × Nat) => (letterOf x.1).map (fun p => (x.2, p)))), kk ≤ y.1 := by
  induction L generalizing kk with
  | nil => simp
  | cons e L ih =>
    obtain ⟨h1, h2⟩ := ih (kk + 1)
    rw [List.zipIdx_cons, List.filterMap_cons]
    cases he : letterOf e with
    | none =>
      simp only [Option.map_none]
      exact ⟨h1, fun y hy => by have := h2 y hy; omega⟩
    | some p =>
      simp only [Option.map_some, List.map_cons, List.pairwise_cons, List.mem_cons]
      refine ⟨⟨?_, h1⟩, ?_⟩
      · intro a ha
        obtain ⟨y, hy, rfl⟩ := List.mem_map.1 ha
        have := h2 y hy; omega
      · rintro y (rfl | hy)
        · exact le_refl _
        · have := h2 y hy; omega

theorem labelTerm_wf (L : List Nat) (c : R) : TermWF (labelTerm L c) := by
  unfold TermWF labelTerm
  exact (labelTerm_keys L 0).1.imp (fun h => Nat.ne_of_lt h)

/-! ### `f(j)` and `nz(j)` are the partner row and the entry of the Pauli string -/

theorem flip_eq_flipbit (l b : Nat) (hb : b < 2) :
    (if l = 1 ∨ l = 2 then (if b = 0 then 1 else 0) else b) = flipbit (letterOf l) b := by
  rcases l with _ | _ | _ | _ | l <;> interval_cases b <;> simp [letterOf, flipbit]

/-- positional form of `f(j)` -/
def fPos (lam : Nat → Nat) (n j : Nat) : Nat :=
  bin2dec ((List.range n).map (fun idx =>
    if lam idx = 1 ∨ lam idx = 2 then (if j / 2 ^ (n - 1 - idx) % 2 = 0 then 1 else 0) else j / 2 ^ (n - 1 - idx) % 2))

theorem fPos_eq_partner (lam : Nat → Nat) (n j : Nat) :
    fPos lam n j = partner (fun q => letterOf (lam q)) n j := by
  induction n generalizing j with
  | zero => rfl
  | succ n ih =>
    unfold fPos
    rw [List.range_succ, List.map_append, List.map_cons, List.map_nil, bin2dec_append]
    simp only [partner, Nat.add_sub_cancel, Nat.sub_self, pow_zero, Nat.div_one]
    rw [flip_eq_flipbit _ _ (Nat.mod_lt _ (by decide)), ← ih (j / 2)]
    congr 2
    unfold fPos
    congr 1
    apply List.map_congr_left
    intro idx hidx
    have := List.mem_range.1 hidx
    have e : j / 2 ^ (n - idx) = j / 2 / 2 ^ (n - 1 - idx) := by
      rw [Nat.div_div_eq_div_mul, ← pow_succ']; congr 2; omega
    rw [e]

theorem fIdx_eq (n : Nat) (L : List Nat) (j : Nat) (hn : 1 ≤ n) (hj : j < 2 ^ n) :
    fIdx n L j = partner (fun q => letterOf (L.getD q 0)) n j := by
  rw [← fPos_eq_partner]
  unfold fIdx fPos
  congr 1
  apply List.map_congr_left
  intro idx hidx
  have := List.mem_range.1 hidx
  simp only [dec2bin_getD j n idx hn hj this]

theorem foldl_range_congr {β : Type} (n : Nat) (f g : β → Nat → β) (b : β)
    (h : ∀ v idx, idx < n → f v idx = g v idx) : (List.range n).foldl f b = (List.range n).foldl g b := by
  induction n with
  | zero => rfl
  | succ n ih =>
    rw [List.range_succ, List.foldl_append, List.foldl_append, ih (fun v idx hidx => h v idx (by omega))]
    simp only [List.foldl_cons, List.foldl_nil]
    exact h _ n (by omega)

/-- positional form of `nz(j)` -/
def nzPos (k : Scal R) (lam : Nat → Nat) (n j : Nat) : R :=
  (List.range n).foldl (fun v idx =>
    let l := lam idx
    let b := j / 2 ^ (n - 1 - idx) % 2
    if l = 2 then (if b = 0 then v * k.i else if b = 1 then v * -k.i else v)
    else if l = 3 then (if b = 1 then v * -1 else v)
    else v) 1

theorem nz_factor (k : Scal R) (l b : Nat) (hb : b < 2) (v : R) :
    (if l = 2 then (if b = 0 then v * k.i else if b = 1 then v * -k.i else v)
      else if l = 3 then (if b = 1 then v * -1 else v) else v)
      = v * pe k (letterOf l) (flipbit (letterOf l) b) b := by
  rcases l with _ | _ | _ | _ | l <;> interval_cases b <;> simp [letterOf, flipbit, pe]

theorem nzPos_eq (k : Scal R) (lam : Nat → Nat) (n j : Nat) :
    nzPos k lam n j = strEntry k (fun q => letterOf (lam q)) n (partner (fun q => letterOf (lam q)) n j) j := by
  induction n generalizing j with
  | zero => rfl
  | succ n ih =>
    unfold nzPos
    rw [List.range_succ, List.foldl_append]
    simp only [List.foldl_cons, List.foldl_nil, Nat.add_sub_cancel, Nat.sub_self, pow_zero, Nat.div_one]
    rw [nz_factor k _ _ (Nat.mod_lt _ (by decide))]
    simp only [strEntry, partner]
    have hfl := flipbit_lt (letterOf (lam n)) (j % 2) (Nat.mod_lt _ (by decide))
    have e3 : (2 * partner (fun q => letterOf (lam q)) n (j / 2) + flipbit (letterOf (lam n)) (j % 2)) / 2
        = partner (fun q => letterOf (lam q)) n (j / 2) := by omega
    have e4 : (2 * partner (fun q => letterOf (lam q)) n (j / 2) + flipbit (letterOf (lam n)) (j % 2)) % 2
        = flipbit (letterOf (lam n)) (j % 2) := by omega
    rw [e3, e4, ← ih (j / 2)]
    congr 1
    unfold nzPos
    apply foldl_range_congr
    intro v idx hidx
    have e : j / 2 ^ (n - idx) = j / 2 / 2 ^ (n - 1 - idx) := by
      rw [Nat.div_div_eq_div_mul, ← pow_succ']; congr 2; omega
    simp only [e]

theorem nz_eq (k : Scal R) (n : Nat) (L : List Nat) (j : Nat) (hn : 1 ≤ n) (hj : j < 2 ^ n) :
    nz k n L j = strEntry k (fun q => letterOf (L.getD q 0)) n (partner (fun q => letterOf (L.getD q 0)) n j) j := by
  rw [← nzPos_eq]
  unfold nz nzPos
  apply foldl_range_congr
  intro v idx hidx
  simp only [dec2bin_getD j n idx hn hj hidx]

theorem halfPow_eq (k : Scal R) (n : Nat) : halfPow k n = k.half ^ n := by
  induction n with
  | zero => simp [halfPow]
  | succ n ih => rw [halfPow, ih, pow_succ]

theorem traceProduct_eq (k : Scal R) (n : Nat) (A : Mat R) (L : List Nat) (hn : 1 ≤ n) :
    traceProduct k n A L = TP k n A.get (fun q => letterOf (L.getD q 0)) * k.half ^ n := by
  unfold traceProduct TP
  rw [sumTo_eq, halfPow_eq]
  congr 1
  apply Finset.sum_congr rfl
  intro j hj
  have hj' := Finset.mem_range.1 hj
  rw [fIdx_eq n L j hn hj', nz_eq k n L j hn hj']

theorem labelTerm_keys_lt (L : List Nat) (kk : Nat) :
    ∀ y ∈ ((L.zipIdx kk).filterMap (fun (x : Nat × Nat) => (letterOf x.1).map (fun p => (x.2, p)))),
      y.1 < kk + L.length := by
  intro y hy
  obtain ⟨x, hx, hxy⟩ := List.mem_filterMap.1 hy
  cases hl : letterOf x.1 with
  | none => rw [hl] at hxy; cases hxy
  | some p =>
    rw [hl] at hxy
    simp only [Option.map_some, Option.some.injEq] at hxy
    subst hxy
    have := List.mem_zipIdx hx
    simp only; omega

theorem TP_congr (k : Scal R) (n : Nat) (A : Nat → Nat → R) (a b : Nat → Option P) (h : ∀ q, q < n → a q = b q) :
    TP k n A a = TP k n A b := by
  unfold TP
  apply Finset.sum_congr rfl
  intro j _
  rw [partner_congr a b n h, strEntry_congr k a b n h]

theorem label_getD (n i q : Nat) (hq : q < n) :
    ((List.range n).map (fun q => i / 4 ^ (n - 1 - q) % 4)).getD q 0 = i / 4 ^ (n - 1 - q) % 4 := by
  rw [List.getD_eq_getElem?_getD, List.getElem?_map, List.getElem?_range hq]; rfl

variable [DecidableEq R]

/-- `get_pauliop_from_matrix` on a `2^n × 2^n` matrix, `n ≥ 1`: succeeds, and the resulting sum denotes
    the matrix -/
theorem fromMatrix_spec (k : Scal R) (hi : k.i * k.i = -1) (hh : 2 * k.half = 1) (tol : Tol R)
    (hnegl : ∀ x, tol.negl x = true → x = 0) (A : Mat R) (n : Nat) (hn : 1 ≤ n)
    (hr : A.r = 2 ^ n) (hc : A.c = 2 ^ n) :
    ∃ s, getPauliopFromMatrix k tol A = .ok s ∧ SumWF s ∧ PSum.nQubits s ≤ n ∧
      ∀ a b, a < 2 ^ n → b < 2 ^ n → dEntry k n s a b = A.get a b := by
  have hlog : Nat.log2 A.r = n := by rw [hr, Nat.log2_two_pow]
  have hpos : 0 < 2 ^ n := Nat.pos_of_ne_zero (by positivity)
  have hany : (List.range (4 ^ n)).any (fun i => (dec2bin i (2 * n)).length != 2 * n) = false := by
    rw [List.any_eq_false]
    intro i hi'
    have hi4 := List.mem_range.1 hi'
    rw [dec2bin_length i (2 * n) (by omega) (by rw [← four_pow]; exact hi4)]
    simp
  unfold getPauliopFromMatrix
  rw [if_neg (by omega), if_neg (by rw [hr, hc]; simp), if_neg (by rw [hlog, hr]; simp)]
  simp only [hlog, hany, Bool.false_eq_true, if_false]
  let f : Nat → Term R := fun i =>
    labelTerm (decode n (dec2bin i (2 * n))) (traceProduct k n A (decode n (dec2bin i (2 * n))))
  obtain ⟨h1, h2⟩ := foldl_addTerm_spec k n tol hnegl f (List.range (4 ^ n)) []
    (fun _ h => by cases h) (fun i _ => labelTerm_wf _ _)
  refine ⟨_, rfl, h1, ?_, ?_⟩
  · rw [sum_nQubits_le]
    intro t ht
    rcases foldl_addTerm_ops tol f (List.range (4 ^ n)) [] t ht with ⟨u, hu, _⟩ | ⟨i, hi', hops⟩
    · cases hu
    · have hi4 := List.mem_range.1 hi'
      rw [hops]
      intro y hy
      have := labelTerm_keys_lt (decode n (dec2bin i (2 * n))) 0 y hy
      rw [decode_dec2bin n i hn hi4] at this
      simpa using this
  · intro a b ha hb
    rw [h2, dEntry_nil, zero_add]
    unfold dEntry
    rw [List.map_map, list_sum_range]
    have hterm : ∀ i ∈ range (4 ^ n),
        ((fun t : Term R => t.coeff * strEntry k t.opAt n a b) ∘ f) i
          = k.half ^ n * (TP k n A.get (atI n i) * strEntry k (atI n i) n a b) := by
      intro i hi'
      have hi4 := Finset.mem_range.1 hi'
      simp only [Function.comp, f]
      rw [decode_dec2bin n i hn hi4]
      have hat : ∀ q, q < n →
          (labelTerm ((List.range n).map (fun q => i / 4 ^ (n - 1 - q) % 4))
            (traceProduct k n A ((List.range n).map (fun q => i / 4 ^ (n - 1 - q) % 4)))).opAt q = atI n i q := by
        intro q hq
        rw [labelTerm_opAt, label_getD n i q hq]; rfl
      rw [strEntry_congr k _ (atI n i) n hat]
      simp only [labelTerm]
      rw [traceProduct_eq k n A _ hn, TP_congr k n A.get _ (atI n i) (fun q hq => by rw [label_getD n i q hq]; rfl)]
      ring
    rw [Finset.sum_congr rfl hterm, ← Finset.mul_sum]
    have := TT_eq k hi n A.get a b ha hb
    unfold TT at this
    rw [this, ← mul_assoc, ← mul_pow, mul_comm k.half 2, hh, one_pow, one_mul]


end OQ.C09
