/- C09 helper lemmas, part 8: what `simplify` drops under an arbitrary tolerance. -/
import OQ.Lemmas.C09_Algebra
set_option linter.unusedSectionVars false
namespace OQ.C09
open OQ OQ.Pauli

variable {R : Type} [CommRing R]

/-! ### what `simplify` drops, for an arbitrary tolerance -/

/-- the term a group of like terms would have contributed, when `simplify` drops it -/
def groupDropped (tol : Tol R) : List (Term R) → Option (Term R)
  | [] => none
  | [t] => if tol.negl t.coeff then some t else none
  | t :: rest => let c := sumCoeffs (t :: rest); if tol.negl c then some ⟨t.ops, c⟩ else none

/-- the (merged) terms `simplify` discards as negligible -/
def dropped (tol : Tol R) (s : PSum R) : PSum R := (s.foldl groupInsert []).filterMap (groupDropped tol)

theorem groupSplit_dEntry (k : Scal R) (n : Nat) (tol : Tol R) (h : Term R) (rest : List (Term R)) (hwf : TermWF h)
    (hall : ∀ u ∈ rest, sameOps h.ops u.ops = true) (i j : Nat) :
    dEntry k n ((groupResult tol (h :: rest)).toList) i j + dEntry k n ((groupDropped tol (h :: rest)).toList) i j
      = dEntry k n (h :: rest) i j := by
  rw [group_dEntry k n h rest hwf hall]
  cases rest with
  | nil =>
    simp only [groupResult, groupDropped, sumCoeffs_eq, List.map_cons, List.map_nil, List.sum_cons, List.sum_nil,
      add_zero]
    split <;> simp [dEntry]
  | cons u rest =>
    simp only [groupResult, groupDropped]
    obtain ⟨ops, c⟩ := h
    split <;> simp [dEntry, opAt_coeff_irrel ops _ c]

theorem filterMap_split_dEntry (k : Scal R) (n : Nat) (tol : Tol R) (gs : List (List (Term R))) (hg : GInv gs)
    (i j : Nat) :
    dEntry k n (gs.filterMap (groupResult tol)) i j + dEntry k n (gs.filterMap (groupDropped tol)) i j
      = dEntry k n gs.flatten i j := by
  induction gs with
  | nil => simp [dEntry]
  | cons g gs ih =>
    have hg' : GInv gs := fun g' hg' => hg g' (List.mem_cons_of_mem _ hg')
    obtain ⟨h, rest, rfl, hwf, hall⟩ := hg g (by simp)
    rw [List.flatten_cons, dEntry_append, ← ih hg', ← groupSplit_dEntry k n tol h rest hwf hall]
    rw [List.filterMap_cons, List.filterMap_cons]
    cases groupResult tol (h :: rest) <;> cases groupDropped tol (h :: rest) <;>
      simp [dEntry] <;> ring

theorem simplify_split_dEntry (k : Scal R) (n : Nat) (tol : Tol R) (s : PSum R) (hs : SumWF s) (i j : Nat) :
    dEntry k n (simplify tol s) i j + dEntry k n (dropped tol s) i j = dEntry k n s i j := by
  obtain ⟨h1, h2⟩ := foldl_groupInsert_spec k n s [] ginv_nil hs
  unfold simplify dropped
  rw [filterMap_split_dEntry k n tol _ h1, h2]
  simp [dEntry_nil]

theorem dropped_negl (tol : Tol R) (s : PSum R) (t : Term R) (ht : t ∈ dropped tol s) : tol.negl t.coeff = true := by
  unfold dropped at ht
  obtain ⟨g, _, hres⟩ := List.mem_filterMap.1 ht
  match g with
  | [] => simp [groupDropped] at hres
  | [u] =>
    simp only [groupDropped] at hres
    split at hres
    · cases hres; assumption
    · cases hres
  | u :: v :: rest =>
    simp only [groupDropped] at hres
    split at hres
    · cases hres; assumption
    · cases hres

end OQ.C09
