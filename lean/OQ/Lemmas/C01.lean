/-
  C01 — helper lemmas (umbrella).  The development is split by concern:
    C01_Bits     bit / sub / bitsToIndex arithmetic (MSB first), `_basis_bitstring`, `_permute`
    C01_Perm     listMin / listMax, `_permutation_making_qubits_adjacent` is a permutation of the span
    C01_Mat      entries of products, `_permutation_matrix`, conjugation by a permutation matrix re-indexes
    C01_Kron     `1 ⊗ X ⊗ 1` and `M ⊗ 1` read / write bit blocks
    C01_Window   bits of a window of the register; equality of high / low parts bit by bit
    C01_Lift     MAIN: pointwise characterisation of `Lift.liftMatrix`
    C01_Spec     `Fin (2^n) ≃ BV (Fin n)`, the partition `sigmaOf`, `liftMatrix = Spec.lift`
    C01_Circ     validity, spec of operations / circuits, `to_unitary`, step-wise apply, `split_circuit`, simulators
    C01_Add      concatenation, widening to idle qubits
    C01_Reject   the embedding is defined exactly on the valid operations
    C01_Complex  corollary at ℂ for real phase parameters
-/
import OQ.Lemmas.C01_Reject
import OQ.Lemmas.C01_Complex
