/- helper lemmas for the T13 translation ties of the `Wavefunction` views (`OQ/Props/C04_TranslatedWf.lean`; not property theorems):
   the LAWS of the numpy externals in the C04 model's terms (`ViewLaws`), `dict(pairs)` on distinct keys, the key strings. -/
import OQ.Lemmas.C04
import OQ.Lemmas.C04_Lists
import OQ.Lemmas.Py
import OQ.Lemmas.PyT13
import OQ.Model.C04_T13
import OQ.Generated.TranslatedC04Wf
namespace OQ.C04.T13
open OQ.Generated OQ.PyT OQ.C04
open OQ.Py (digitChar charDigit formatB zfill sliceTo dictSet Dict)

section
variable {R : Type} [Zero R] [One R] [Add R] [Mul R] [Neg R]

/-- THE ASSUMED LAWS of the externals the translated views use, in the C04 model's terms, for a NUMERIC wavefunction (an ndarray of
    amplitudes; the model of C04 has no symbolic states): `free_symbols` is empty; `np.abs(a) ** 2` is `normSq` entrywise and
    iterating it yields its entries; `len` is the number of amplitudes; `int(log2(n))` is `⌊log₂ n⌋` for `n ≥ 1`; the entries of
    `get_probabilities()` are scalars (the `isinstance(x, (list, np.ndarray))` test is false); `np.random.default_rng(seed)` is a
    generator whose `choice(a, size, p)` returns `a[i]` for the indices `i` it draws – `draws`, exactly `size` of them, each inside
    `a`, anything else being `Exc.other 1` (the model's `Err.draw`) – for an object array (`.tolist()`) and for an array of strings
    (iterating it yields the strings). -/
structure ViewLaws (k : Scal R) (ext : VExt R) : Prop where
  getattr_free_symbols : ∀ v, ext.truthy_FS (ext.getattr_free_symbols v) = false
  np_abs_sq : ∀ v, ext.np_abs_sq v = v.map (normSq k)
  len_vector : ∀ v, ext.len_vector v = (v.length : Int)
  int_log2 : ∀ n : Nat, 0 < n → ext.int_log2 (n : Int) = .ok ((Nat.log2 n : Nat) : Int)
  iter_probs : ∀ a, ext.iter_probs a = a
  default_rng : ∀ d, ext.default_rng d = d
  isinstance_list_or_ndarray : ∀ x, ext.isinstance_list_or_ndarray x = false
  choice_objects : ∀ d a n p, ext.choice_objects d a n p = choose d a n
  choice_strings : ∀ d a n p, ext.choice_strings d a n p = choose d a n
  iter_strings : ∀ s, ext.iter_strings s = s

theorem viewExt_laws (k : Scal R) (isOne : R → Bool) : ViewLaws k (viewExt k isOne) where
  getattr_free_symbols := fun _ => rfl
  np_abs_sq := fun _ => rfl
  len_vector := fun _ => rfl
  int_log2 := fun n hn => by
    have : n ≠ 0 := by omega
    simp [viewExt, this]
  iter_probs := fun _ => rfl
  default_rng := fun _ => rfl
  isinstance_list_or_ndarray := fun _ => rfl
  choice_objects := fun _ _ _ _ => rfl
  choice_strings := fun _ _ _ _ => rfl
  iter_strings := fun _ => rfl
end

/-! ### `dict(pairs)` on distinct keys keeps the pairs -/

theorem dictSet_not_mem {κ ν : Type} [BEq κ] [LawfulBEq κ] (d : Dict κ ν) (key : κ) (v : ν) (h : key ∉ d.map Prod.fst) :
    dictSet d key v = d ++ [(key, v)] := by
  induction d with
  | nil => rfl
  | cons p d ih =>
    obtain ⟨k', v'⟩ := p
    simp only [List.map_cons, List.mem_cons, not_or] at h
    have hne : (k' == key) = false := by
      simp only [beq_eq_false_iff_ne, ne_eq]; exact fun e => h.1 e.symm
    simp only [dictSet, hne, Bool.false_eq_true, if_false, ih h.2, List.cons_append]

theorem dictOfPairs_nodup {κ ν : Type} [BEq κ] [LawfulBEq κ] (l : List (κ × ν)) (h : (l.map Prod.fst).Nodup) :
    dictOfPairs l = l := by
  unfold dictOfPairs
  suffices H : ∀ (acc : Dict κ ν), (∀ p ∈ l, p.1 ∉ acc.map Prod.fst) →
      l.foldl (fun d p => dictSet d p.1 p.2) acc = acc ++ l by simpa using H [] (by simp)
  induction l with
  | nil => intro acc _; simp
  | cons p l ih =>
    intro acc hacc
    rw [List.map_cons, List.nodup_cons] at h
    simp only [List.foldl_cons]
    rw [dictSet_not_mem acc p.1 p.2 (hacc p (by simp))]
    rw [ih h.2 (acc ++ [p]) ?_]
    · simp
    · intro q hq
      simp only [List.map_append, List.map_cons, List.map_nil, List.mem_append, List.mem_singleton, not_or]
      refine ⟨hacc q (by simp [hq]), ?_⟩
      intro e
      exact h.1 (e ▸ List.mem_map_of_mem (f := Prod.fst) hq)

/-! ### the key strings -/

theorem formatBinW_eq (n i : Nat) : formatBinW (Int.ofNat i) (n : Int) = (formatBin n i).map digitChar := by
  unfold formatBinW
  rw [formatB_ofNat]
  have hne : OQ.C04.binDigits i ≠ [] := by
    rw [← OQ.Py.binDigits_eq]; exact OQ.Py.binDigitsFuel_ne_nil i i
  have hlt : ∀ d ∈ OQ.C04.binDigits i, d < 10 := by
    intro d hd
    rw [← OQ.Py.binDigits_eq] at hd
    have := OQ.Py.binDigitsFuel_lt_two i i d hd
    omega
  rw [OQ.Py.zfill_digits _ hne hlt n]
  rfl

theorem key_string_eq (n i : Nat) :
    sliceTo ((formatBinW (Int.ofNat i) (n : Int)).reverse) (n : Int) = (((formatBin n i).reverse).take n).map digitChar := by
  rw [formatBinW_eq]
  simp [sliceTo, List.map_reverse, List.map_take]

theorem bits_lt_two (n i : Nat) : ∀ d ∈ bits n i, d < 2 := by
  intro d hd
  simp only [bits, List.mem_map, List.mem_range] at hd
  obtain ⟨q, _, rfl⟩ := hd
  exact Nat.mod_lt _ (by norm_num)

theorem keys_nodup (n : Nat) :
    ((List.range (2 ^ n)).map (fun i => ((bits n i).reverse).map digitChar)).Nodup := by
  apply List.Nodup.of_map (fun s : List Char => (s.map (fun c => (charDigit c).toNat)).reverse)
  rw [List.map_map]
  have : (List.range (2 ^ n)).map ((fun s : List Char => (s.map (fun c => (charDigit c).toNat)).reverse) ∘
      (fun i => ((bits n i).reverse).map digitChar)) = (List.range (2 ^ n)).map (bits n) := by
    apply List.map_congr_left
    intro i _
    simp only [Function.comp, List.map_map, List.map_reverse, List.reverse_reverse]
    conv_rhs => rw [← List.map_id (bits n i)]
    apply List.map_congr_left
    intro d hd
    have := bits_lt_two n i d hd
    simp [OQ.Py.charDigit_digitChar d (by omega)]
  rw [this]
  exact bits_keys_nodup n

/-! ### sampling -/

/-- what a drawn element of the model is in the translated code: a tuple of ints, or the int `0` -/
def drawnOut : Drawn → (List Int) ⊕ Int
  | .tuple t => .inl (t.map Int.ofNat)
  | .sentinel => .inr 0

/-- the exception class a model error stands for (`draw`: not something `rng.choice` can return) -/
def errOut : Err → Exc
  | .value => .ValueError
  | .type => .TypeError
  | .index => .IndexError
  | .draw => .other 1

theorem mapM_getElem_map {α β : Type} (f : α → β) (A : List α) (draws : List Nat) :
    draws.mapM (fun i => (A.map f)[i]?) = (draws.mapM (fun i => A[i]?)).map (List.map f) := by
  induction draws with
  | nil => rfl
  | cons i draws ih =>
    rw [List.mapM_cons, List.mapM_cons, ih, List.getElem?_map]
    cases A[i]? <;> cases List.mapM (fun i => A[i]?) draws <;> rfl

theorem mapM_getElem_mem {α : Type} (A : List α) (draws : List Nat) (l : List α)
    (h : draws.mapM (fun i => A[i]?) = some l) : ∀ x ∈ l, x ∈ A := by
  induction draws generalizing l with
  | nil => simp only [List.mapM_nil] at h; cases h; simp
  | cons i draws ih =>
    simp only [List.mapM_cons] at h
    cases ha : A[i]? with
    | none => rw [ha] at h; cases h
    | some a =>
      cases hm : List.mapM (fun i => A[i]?) draws with
      | none => rw [ha, hm] at h; cases h
      | some l' =>
        rw [ha, hm] at h
        cases h
        intro x hx
        rcases List.mem_cons.mp hx with rfl | hx
        · exact List.mem_of_getElem? ha
        · exact ih l' hm x hx

end OQ.C04.T13
