/-
  C07 — concrete instances (externals satisfying the laws, small gates) used by the non-vacuity examples and the
  negative witness of OQ/Props/C07.lean.
-/
import OQ.Lemmas.C07
import Mathlib.Analysis.Normed.Algebra.MatrixExponential
import Mathlib.Analysis.Complex.Basic
namespace OQ.C07
open Matrix

/-! ### concrete instances used by the non-vacuity examples of `OQ/Props/C07.lean` -/
namespace Inst

/-- an `Ext` on which every external raises: satisfies all laws (they only constrain successful calls) -/
def extNone (R : Type) : Ext R :=
  { minv := fun _ => .error .noninv, mfrac := fun _ _ => .error (.ext "none"), mexp := fun _ => .error (.ext "none") }

theorem extNone_laws (R : Type) [CommRing R] : ExtLaws (extNone R) :=
  { inv_dim := by intro A B h; cases h
    inv_mul := by intro d A B _ _ h; cases h
    frac_dim := by intro A e B h; cases h
    root := by intro d A e B _ _ _ _ h; cases h
    exp_dim := by intro A B h; cases h }

theorem extNone_exp (R : Type) [CommRing R] (E) : ExpLaw (extNone R) E := by
  intro d A B _ _ h; cases h

/-- is the matrix an identity matrix? -/
def isId (A : Mat ℤ) : Bool :=
  A.c == A.r && (List.range A.r).all (fun i => (List.range A.r).all (fun j => A.get i j == if i = j then 1 else 0))

theorem isId_toM (A : Mat ℤ) (h : isId A = true) (d : Nat) (hr : A.r = d) : Mat.toM d d A = 1 := by
  subst hr
  funext i j
  simp only [isId, Bool.and_eq_true, List.all_eq_true, List.mem_range, beq_iff_eq] at h
  have := h.2 i.val i.2 j.val j.2
  simp only [Mat.toM, this, Matrix.one_apply, Fin.ext_iff]

/-- an `Ext` that inverts / takes roots of identity matrices only (sound: `1·1 = 1`, `1^q = 1`) -/
def extId : Ext ℤ :=
  { minv := fun A => if isId A then .ok A else .error .noninv
    mfrac := fun A _ => if isId A then .ok A else .error (.ext "not the identity")
    mexp := fun _ => .error (.ext "none") }

theorem extId_laws : ExtLaws extId :=
  { inv_dim := by
      intro A B h; simp only [extId] at h; split at h
      · cases h; exact ⟨rfl, rfl⟩
      · cases h
    inv_mul := by
      intro d A B hr _ h; simp only [extId] at h; split at h
      · rename_i hi; cases h; rw [isId_toM A hi d hr]; simp
      · cases h
    frac_dim := by
      intro A e B h; simp only [extId] at h; split at h
      · cases h; exact ⟨rfl, rfl⟩
      · cases h
    root := by
      intro d A e B _ _ hr _ h; simp only [extId] at h; split at h
      · rename_i hi; cases h; rw [isId_toM A hi d hr]; simp
      · cases h
    exp_dim := by intro A B h; cases h }

/-- a 1-qubit non-unitary, non-hermitian base gate over ℤ -/
def v : Gate Unit ℤ := .base ⟨"V", fun _ => .ok (Mat.ofLists [[1, 2], [3, 4]]), [], 1, false⟩
/-- the identity as a base gate flagged hermitian -/
def one : Gate Unit ℤ := .base ⟨"I", fun _ => .ok (Mat.identity 2), [], 1, true⟩

theorem v_wellDim : WellDim v := by intro M h; cases h; exact ⟨rfl, rfl⟩
theorem one_wellDim : WellDim one := by intro M h; cases h; exact ⟨rfl, rfl⟩

open Classical in
/-- an `Ext` over ℂ that exponentiates the 2×2 zero matrix only (`exp 0 = 1`) -/
noncomputable def extExp0 : Ext ℂ :=
  { minv := fun _ => .error .noninv, mfrac := fun _ _ => .error (.ext "none")
    mexp := fun A => if A.r = 2 ∧ A.c = 2 ∧ Mat.toM 2 2 A = 0 then .ok (Mat.identity 2) else .error (.ext "not zero") }

theorem extExp0_exp : ExpLaw extExp0 (fun _ A => NormedSpace.exp A) := by
  intro d A B hr hc h
  simp only [extExp0] at h
  split at h
  · rename_i hz
    cases h
    obtain ⟨h1, _, h3⟩ := hz
    have : d = 2 := by omega
    subst this
    rw [Mat.toM_identity, h3]; exact NormedSpace.exp_zero.symm
  · cases h

def zero2 : Gate Unit ℂ := .base ⟨"Z0", fun _ => .ok (Mat.ofFn 2 2 (fun _ _ => 0)), [], 1, false⟩

theorem zero2_exp_ok : gateMatrix star extExp0 zero2.expM = .ok (Mat.identity 2) := by
  have : Mat.toM 2 2 (Mat.ofFn 2 2 (fun _ _ => (0 : ℂ))) = 0 := by
    funext i j; simp only [Mat.toM]; rw [Mat.get_ofFn _ _ _ _ _ i.2 j.2]; rfl
  simp [zero2, Gate.expM, gateMatrix, Except.bind, extExp0, this]


/-! the F16 witness: `X.power(1/2).dagger` -/
def xGate : Gate (Param Cyc8) Cyc8 := .base (Base.builtin Scal.cyc8 "X" [])
def half : Rat := 1 / 2
/-- the square root of X that sympy returns: ½[[1+i, 1−i],[1−i, 1+i]] -/
def sqrtX : Mat Cyc8 := Mat.ofLists [[⟨1/2,0,1/2,0⟩, ⟨1/2,0,-1/2,0⟩], [⟨1/2,0,-1/2,0⟩, ⟨1/2,0,1/2,0⟩]]
/-- externals answering every fractional power with `sqrtX` (only asked for `X ** (1/2)` below) -/
def extF16 : Ext Cyc8 :=
  { minv := fun _ => .error .noninv, mfrac := fun _ _ => .ok sqrtX, mexp := fun _ => .error (.ext "unused") }
theorem half_den : half.den = 2 := by decide +kernel
theorem half_num : half.num = 1 := by decide +kernel

end Inst
end OQ.C07
