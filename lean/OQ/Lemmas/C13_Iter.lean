/- helper lemmas for the translation ties of `_itertools.py`'s iterator / generator / count-dictionary functions
   (`OQ/Props/C13_TranslatedIter.lean`): the prelude's loops (`whileFuel`, `mapOpt`, `mapAccumOpt`, `islice`, `reduce1`, `dictSet`, …)
   against the hand-written models' `chunks`, `regroup`, `Counts.bump` (not property theorems) -/
import OQ.Lemmas.C13
namespace OQ.C13
open OQ.Py

/-! prelude-level lemmas -/

theorem py_sum_eq (xs : List Int) : OQ.Py.sum xs = xs.sum := by
  unfold OQ.Py.sum
  have : ∀ (a : Int), xs.foldl (· + ·) a = a + xs.sum := by
    induction xs with
    | nil => intro a; simp
    | cons x xs ih => intro a; simp only [List.foldl_cons, List.sum_cons, ih]; omega
  simpa using this 0

theorem py_sum_ofNat (ms : List Nat) : OQ.Py.sum (ms.map Int.ofNat) = ((ms.sum : Nat) : Int) := by
  rw [py_sum_eq]
  induction ms with
  | nil => rfl
  | cons m ms ih => simp only [List.map_cons, List.sum_cons, ih]; push_cast; rfl

theorem sumLists_eq {α : Type} (xss : List (List α)) : sumLists xss = xss.flatten := by
  unfold sumLists
  have : ∀ (a : List α), xss.foldl (· ++ ·) a = a ++ xss.flatten := by
    induction xss with
    | nil => intro a; simp
    | cons x xs ih => intro a; simp only [List.foldl_cons, List.flatten_cons, ih, List.append_assoc]
  simpa using this []

theorem maxList_eq (c : List Int) (h : c ≠ []) : maxList c = some (listMax c) := by
  cases c with
  | nil => exact absurd rfl h
  | cons x xs => rfl

theorem mapOpt_some {α β : Type} (f : α → β) (l : List α) : mapOpt (fun x => some (f x)) l = some (l.map f) := by
  induction l with
  | nil => rfl
  | cons x xs ih => simp [mapOpt, ih]

theorem mapOpt_congr {α β : Type} (f g : α → Option β) (l : List α) (h : ∀ x ∈ l, f x = g x) : mapOpt f l = mapOpt g l := by
  induction l with
  | nil => rfl
  | cons x xs ih =>
    simp only [mapOpt]
    rw [h x (by simp), ih (fun y hy => h y (by simp [hy]))]

/-- one element of `[f(islice(it, m)) for m in ms]`: take `m` items from the shared iterator, apply `f` -/
def groupStep {β γ : Type} (f : List β → Option γ) (st : Iter β) (m : Int) : Option (γ × Iter β) :=
  (islice st m).bind (fun r => (f r.1).bind (fun t => some (t, r.2)))

theorem groupStep_ofNat {β γ : Type} (f : List β → Option γ) (st : Iter β) (k : Nat) :
    groupStep f st (Int.ofNat k) = (f (st.take k)).bind (fun t => some (t, st.drop k)) := by
  have hk : ¬ ((k : Nat) : Int) < 0 := by omega
  simp [groupStep, islice, hk]

theorem groupStep_nonneg {β γ : Type} (f : List β → Option γ) (st : Iter β) (m : Int) (h : ¬ m < 0) :
    groupStep f st m = (f (st.take m.toNat)).bind (fun t => some (t, st.drop m.toNat)) := by
  simp [groupStep, islice, h]

theorem groupStep_neg {β γ : Type} (f : List β → Option γ) (st : Iter β) (m : Int) (h : m < 0) :
    groupStep f st m = none := by
  simp [groupStep, islice, h]

/-- the iterator fold of `[f(islice(it, m)) for m in ms]` is the group-by-group map over `regroup` -/
theorem mapAccumOpt_islice {β γ : Type} (f : List β → Option γ) (ms : List Nat) :
    ∀ (it : List β),
    (mapAccumOpt (groupStep f) it (ms.map Int.ofNat)).bind (fun r => some r.1) = (regroup it ms).mapM f := by
  induction ms with
  | nil => intro it; simp [mapAccumOpt, regroup]
  | cons k ks ih =>
    intro it
    simp only [List.map_cons, mapAccumOpt, groupStep_ofNat, regroup, List.mapM_cons]
    cases hf : f (List.take k it) with
    | none => rfl
    | some y =>
      have := ih (List.drop k it)
      cases hm : mapAccumOpt (groupStep f) (List.drop k it) (ks.map Int.ofNat) with
      | none => rw [hm] at this; simp at this; simp [← this, hm]
      | some rs => rw [hm] at this; simp at this; simp [← this, hm]

theorem mapAccumOpt_islice_neg {β γ : Type} (f : List β → Option γ) (ms : List Int) (h : ∃ m ∈ ms, m < 0) :
    ∀ (it : List β), mapAccumOpt (groupStep f) it ms = none := by
  induction ms with
  | nil => simp at h
  | cons m ms ih =>
    intro it
    by_cases hm : m < 0
    · simp [mapAccumOpt, groupStep_neg, hm]
    · have h' : ∃ m ∈ ms, m < 0 := by
        obtain ⟨x, hx, hlt⟩ := h
        simp only [List.mem_cons] at hx
        rcases hx with rfl | hx
        · exact absurd hlt hm
        · exact ⟨x, hx, hlt⟩
      simp only [mapAccumOpt, groupStep_nonneg _ _ _ hm]
      cases f (List.take m.toNat it) with
      | none => rfl
      | some y => simp [ih h']

theorem mapM_some {α β : Type} (f : α → β) (l : List α) : l.mapM (fun x => some (f x)) = some (l.map f) := by
  induction l with
  | nil => rfl
  | cons x xs ih => simp [List.mapM_cons, ih]

theorem regroup_map {α β : Type} (φ : α → β) (ms : List Nat) : ∀ (l : List α),
    regroup (l.map φ) ms = (regroup l ms).map (List.map φ) := by
  induction ms with
  | nil => intro l; rfl
  | cons k ks ih => intro l; simp only [regroup, List.map_cons, ← List.map_take, ← List.map_drop, ih]

theorem mapM_map_comm {α β γ δ : Type} (φ : α → β) (ψ : γ → δ) (f : List α → Option γ) (f' : List β → Option δ)
    (h : ∀ g, f' (g.map φ) = (f g).map ψ) (l : List (List α)) :
    (l.map (List.map φ)).mapM f' = (l.mapM f).map (List.map ψ) := by
  induction l with
  | nil => rfl
  | cons g gs ih =>
    simp only [List.map_cons, List.mapM_cons, h, ih]
    cases f g <;> cases List.mapM f gs <;> simp


/-! the generator `_iterate_in_batches` -/

/-- one round of the translated `while chunk := tuple(islice(it, k)): yield chunk` -/
def batchStep {α : Type} (k : Int) (st : Iter α × List (List α)) : Option (Bool × (Iter α × List (List α))) :=
  (islice st.1 k).bind (fun r => if (!(r.1).isEmpty) then some (true, (r.2, st.2 ++ [r.1])) else some (false, (r.2, st.2)))

theorem whileFuel_batches {α : Type} (k : Int) (hk : 0 < k) (fuel : Nat) :
    ∀ (it : List α) (acc : List (List α)) (f2 : Nat), it.length < fuel → it.length ≤ f2 →
      whileFuel (batchStep k) fuel (it, acc) = some ([], acc ++ chunks k.toNat f2 it) := by
  induction fuel with
  | zero => intro it acc f2 h; omega
  | succ fuel ih =>
    intro it acc f2 h h2
    have hkn : ¬ k < 0 := by omega
    cases it with
    | nil =>
      cases f2 <;> simp [whileFuel, batchStep, islice, hkn, chunks]
    | cons x xs =>
      cases f2 with
      | zero => simp at h2
      | succ f2 =>
        have hne : (List.take k.toNat (x :: xs)).isEmpty = false := by
          have : k.toNat = (k.toNat - 1) + 1 := by omega
          rw [this]; rfl
        simp only [whileFuel, batchStep, islice, hkn, if_false, Option.bind_some, hne, Bool.not_false, if_true]
        rw [ih _ _ f2 (by simp only [List.length_drop, List.length_cons] at h ⊢; omega)
          (by simp only [List.length_drop, List.length_cons] at h2 ⊢; omega)]
        simp [chunks]


/-- circuit `i` sits at position `i % k` of chunk `i / k` -/
theorem chunks_index {α : Type} (k : Nat) (hk : 0 < k) : ∀ (f : Nat) (xs : List α) (i : Nat), xs.length ≤ f → i < xs.length →
    ∃ c, (chunks k f xs)[i / k]? = some c ∧ c[i % k]? = xs[i]? := by
  intro f
  induction f with
  | zero => intro xs i h1 h2; omega
  | succ f ih =>
    intro xs i h1 h2
    cases xs with
    | nil => simp at h2
    | cons x xs =>
      by_cases hik : i < k
      · refine ⟨List.take k (x :: xs), ?_, ?_⟩
        · simp [chunks, Nat.div_eq_of_lt hik]
        · rw [Nat.mod_eq_of_lt hik, List.getElem?_take_of_lt hik]
      · have hge : k ≤ i := by omega
        obtain ⟨c, hc1, hc2⟩ := ih (List.drop k (x :: xs)) (i - k)
          (by simp only [List.length_drop] at *; omega) (by simp only [List.length_drop] at *; omega)
        refine ⟨c, ?_, ?_⟩
        · have : i / k = (i - k) / k + 1 := by
            rw [← Nat.sub_add_cancel hge, Nat.add_div_right _ hk]; simp
          rw [this]; simp only [chunks, List.getElem?_cons_succ]; exact hc1
        · have : i % k = (i - k) % k := by
            conv_lhs => rw [← Nat.sub_add_cancel hge]
            exact Nat.add_mod_right _ _
          rw [this, hc2, List.getElem?_drop]; congr 1; omega


/-- `(chunk, max(samples_chunk))` over the zipped chunkings: `max` never sees an empty chunk -/
theorem mapOpt_zip_max {α : Type} (A : List (List α)) : ∀ (B : List (List Int)), (∀ c ∈ B, c ≠ []) →
    mapOpt (fun (p : List α × List Int) => (maxList p.2).bind (fun m => some (p.1, m))) (List.zip A B)
      = some (List.zip A (B.map listMax)) := by
  induction A with
  | nil => intro B _; rfl
  | cons a A ih =>
    intro B hB
    cases B with
    | nil => rfl
    | cons b B =>
      have hb : b ≠ [] := hB b (by simp)
      simp only [List.zip_cons_cons, mapOpt, maxList_eq b hb, Option.bind_some, List.map_cons]
      rw [ih B (fun c hc => hB c (by simp [hc]))]; rfl


/-! count dictionaries -/

/-- the model's count dictionary (`String × Nat`) as the Python-level one (`str` keys, `int` counts) -/
def Counts.toPy (c : Counts) : Dict String Int := c.map (fun p => (p.1, (p.2 : Int)))

theorem dictSet_bump (c : Counts) (k : String) (v : Nat) :
    dictSet c.toPy k (counterGet c.toPy k + (v : Int)) = (Counts.bump c k v).toPy := by
  induction c with
  | nil => simp [Counts.toPy, dictSet, counterGet, Counts.bump]
  | cons p rest ih =>
    obtain ⟨k', v'⟩ := p
    by_cases h : (k' == k) = true
    · simp [Counts.toPy, dictSet, counterGet, Counts.bump, h]
    · simp only [Counts.toPy, List.map_cons, dictSet, counterGet, Counts.bump, h] at ih ⊢
      simp only [Bool.false_eq_true, if_false, List.map_cons]
      rw [ih]

/-- total number of shots in a Python-level count dictionary -/
def pyTotal {κ : Type} (d : Dict κ Int) : Int := (d.map (fun p => p.2)).sum

theorem dictSet_add_total {κ : Type} [BEq κ] (d : Dict κ Int) (k : κ) (v : Int) :
    pyTotal (dictSet d k (counterGet d k + v)) = pyTotal d + v := by
  induction d with
  | nil => simp [pyTotal, dictSet, counterGet]
  | cons p rest ih =>
    obtain ⟨k', v'⟩ := p
    by_cases h : (k' == k) = true
    · simp [pyTotal, dictSet, counterGet, h]; omega
    · simp only [pyTotal, dictSet, counterGet, h, Bool.false_eq_true, if_false, List.map_cons, List.sum_cons] at ih ⊢
      rw [ih]; omega

theorem counterGet_dictSet {κ : Type} [BEq κ] [LawfulBEq κ] (d : Dict κ Int) (k k0 : κ) (w : Int) :
    counterGet (dictSet d k w) k0 = if k == k0 then w else counterGet d k0 := by
  induction d with
  | nil => simp [dictSet, counterGet]
  | cons p rest ih =>
    obtain ⟨k', v'⟩ := p
    by_cases h1 : k' = k <;> by_cases h2 : k' = k0 <;> by_cases h3 : k = k0 <;> simp_all [dictSet, counterGet]


/-! totals through the group-by-group `reduce` -/

theorem mapM_sum_of {β γ : Type} (f : List β → Option γ) (tb : β → Int) (tc : γ → Int)
    (hf : ∀ g y, f g = some y → tc y = (g.map tb).sum) : ∀ (gs : List (List β)) (out : List γ),
    gs.mapM f = some out → out.map tc = gs.map (fun g => (g.map tb).sum) := by
  intro gs
  induction gs with
  | nil => intro out h; simp at h; subst h; rfl
  | cons g gs ih =>
    intro out h
    rw [List.mapM_cons] at h
    cases hg : f g with
    | none => rw [hg] at h; simp at h
    | some y =>
      cases hgs : List.mapM f gs with
      | none => rw [hg, hgs] at h; simp at h
      | some ys =>
        rw [hg, hgs] at h
        simp at h
        subst h
        simp only [List.map_cons, hf g y hg, ih ys hgs]

theorem regroup_flatten_of_sum {α : Type} (ms : List Nat) : ∀ (l : List α), l.length = ms.sum →
    (regroup l ms).flatten = l := by
  induction ms with
  | nil => intro l h; simp at h; subst h; rfl
  | cons k ks ih =>
    intro l h
    simp only [regroup, List.flatten_cons]
    rw [ih (l.drop k) (by simp only [List.length_drop, List.sum_cons] at *; omega)]
    exact List.take_append_drop k l

end OQ.C13
