/- helper definitions and lemmas for the translation tie of the runner CLASSES (work package T5; the theorems are in
   OQ/Props/C14_TranslatedRunners.lean).  `OQ.Generated.Runners.*` is REGENERATED from /repo's current Python source on every
   run (harness/translate_state.py → OQ/Generated/TranslatedRunners.lean). -/
import OQ.Generated.TranslatedRunners
import OQ.Lemmas.C14
set_option linter.unusedSectionVars false
set_option linter.unusedSimpArgs false
namespace OQ.C14
open OQ.Generated.Runners OQ.PyS

/-! ## model values ↦ values of the translated definitions -/

def excOf : Err → Exc
  | .value => .ValueError
  | .type => .TypeError

def toResult {α : Type} : Outcome α → Result α
  | .ok a => .ok a
  | .err e => .raised (excOf e)

def nArg : NSpec → Int ⊕ List Int
  | .one n => .inl n
  | .many ns => .inr ns

def nSpec : Int ⊕ List Int → NSpec
  | .inl n => .one n
  | .inr ns => .many ns

theorem nSpec_nArg (ns : NSpec) : nSpec (nArg ns) = ns := by cases ns <;> rfl


/-! ## `BaseCircuitRunner`: externals as the model instantiates them, and the state map -/

/-- the externals of a direct `BaseCircuitRunner` subclass as the model has them: `world` is the ghost count of external
    invocations, the abstract `_run_and_measure` answers `ext.exec` (value or exception) and never touches the counters,
    `Measurements.get_distribution()` is the empirical distribution -/
def baseExt (ext : Ext) : Base.Ext Nat Circ (List Shot) DistVal where
  self__run_and_measure := fun s c n => ({ s with world := s.world + 1 }, toResult (ext.exec s.world c n))
  M_get_distribution := fun s m => (s, .ok (.empirical (empirical m)))

/-- model state of a `.base` leaf ↦ state of the translated class -/
def concBase (l : Leaf) : Base.State Nat := ⟨l.k.nCircuits, l.k.nJobs, l.calls⟩


/-- abstraction in the other direction (left inverse of `concBase` on `.base` leaves) -/
def absBase (s : Base.State Nat) : Leaf := ⟨.base, ⟨s._n_circuits_executed.toNat, s._n_jobs_executed.toNat⟩, s.world⟩

theorem absBase_concBase (l : Leaf) (hk : l.kind = .base) : absBase (concBase l) = l := by
  cases l with
  | mk kind k calls => simp only at hk; subst hk; simp [absBase, concBase]

theorem replicate_flatten_singleton {α : Type} (k : Nat) (a : α) : (List.replicate k [a]).flatten = List.replicate k a := by
  induction k with
  | zero => rfl
  | succ k ih => simp [List.replicate_succ, ih]


/-! ## one call, dispatched to the translated methods (the translated counterpart of the model's `step`) -/

inductive RCall (C : Type) where
  | run (c : C) (n : Int)
  | batch (cs : List C) (ns : Int ⊕ List Int)
  | dist (c : C) (n : Option Int)

inductive RRes (M D : Type) where
  | meas (m : M)
  | batch (ms : List M)
  | distr (d : D)
  | raised (e : Exc)
deriving DecidableEq

def RRes.ofResult {M D α : Type} (f : α → RRes M D) : Result α → RRes M D
  | .ok a => f a
  | .raised e => .raised e

def Base.call {ω C M D : Type} (x : Base.Ext ω C M D) (s : Base.State ω) : RCall C → Base.State ω × RRes M D
  | .run c n => ((Base.run_and_measure x s c n).1, .ofResult .meas (Base.run_and_measure x s c n).2)
  | .batch cs ns => ((Base.run_batch_and_measure x s cs ns).1, .ofResult .batch (Base.run_batch_and_measure x s cs ns).2)
  | .dist c n => ((Base.get_measurement_outcome_distribution x s c n).1,
      .ofResult .distr (Base.get_measurement_outcome_distribution x s c n).2)

def RCall.badArgs {C : Type} : RCall C → Prop
  | .run _ n => n ≤ 0
  | .batch _ (.inl n) => n ≤ 0
  | .batch cs (.inr ns) => ns.length ≠ cs.length ∨ ∃ n ∈ ns, n ≤ 0
  | .dist _ (some n) => n ≤ 0
  | .dist _ none => False

def RCall.size {C : Type} : RCall C → Nat
  | .run _ _ => 1
  | .batch cs _ => cs.length
  | .dist _ _ => 1

/-- the frame law the docstring of `_run_and_measure` demands -/
def Base.Frame {ω C M D : Type} (x : Base.Ext ω C M D) : Prop :=
  (∀ s c n, (x.self__run_and_measure s c n).1._n_circuits_executed = s._n_circuits_executed ∧
            (x.self__run_and_measure s c n).1._n_jobs_executed = s._n_jobs_executed) ∧
  (∀ s m, (x.M_get_distribution s m).1._n_circuits_executed = s._n_circuits_executed ∧
          (x.M_get_distribution s m).1._n_jobs_executed = s._n_jobs_executed)

def rcall : Call → RCall Circ
  | .run c n => .run c n
  | .batch cs ns => .batch cs (nArg ns)
  | .dist c n => .dist c n

def rres : Res → RRes (List Shot) DistVal
  | .meas m => .meas m
  | .batch ms => .batch ms
  | .distr d => .distr d
  | .error e => .raised (excOf e)

def concRunnerBase : Runner → Base.State Nat
  | .leaf l => concBase l
  | .tracker _ _ _ _ _ => ⟨0, 0, 0⟩


theorem rres_ne_raised (res : Res) (h : ∀ e, rres res ≠ .raised e) : ∀ e, res ≠ .error e := by
  intro e he; subst he; exact h _ rfl

/-! ## counters under the frame law, for ARBITRARY externals and types -/


/-! ## `MeasurementTrackingBackend` -/

/-- what the tracker stores under "circuit" and "counts" -/
inductive Payload
  | circ (c : Circ)
  | counts (cs : List (Shot × Nat))
deriving DecidableEq

def kDataType : List Char := ['d', 'a', 't', 'a', '_', 't', 'y', 'p', 'e']
def kDevice : List Char := ['d', 'e', 'v', 'i', 'c', 'e']
def kCircuit : List Char := ['c', 'i', 'r', 'c', 'u', 'i', 't']
def kCounts : List Char := ['c', 'o', 'u', 'n', 't', 's']
def kGates : List Char := ['n', 'u', 'm', 'b', 'e', 'r', '_', 'o', 'f', '_', 'g', 'a', 't', 'e', 's']
def kShots : List Char := ['n', 'u', 'm', 'b', 'e', 'r', '_', 'o', 'f', '_', 's', 'h', 'o', 't', 's']
def kBitstrings : List Char := ['b', 'i', 't', 's', 't', 'r', 'i', 'n', 'g', 's']
def kDistribution : List Char := ['d', 'i', 's', 't', 'r', 'i', 'b', 'u', 't', 'i', 'o', 'n']
def vMeasurement : List Char := ['m', 'e', 'a', 's', 'u', 'r', 'e', 'm', 'e', 'n', 't']
def vDistribution : List Char := ['m', 'e', 'a', 's', 'u', 'r', 'e', 'm', 'e', 'n', 't', ' ', 'o', 'u', 't', 'c', 'o', 'm', 'e', ' ', 'd', 'i', 's', 't', 'r', 'i', 'b', 'u', 't', 'i', 'o', 'n']

def kRawData : List Char := ['r', 'a', 'w', '-', 'd', 'a', 't', 'a']

def shotsInt (m : List Shot) : List (List Int) := m.map (fun s => s.map Int.ofNat)

/-- the `dict` the tracker builds for a model record (`dev` = `self.type`, `reprD` = `repr` of a distribution) -/
def recDict (dev : List Char) (reprD : DistVal → List Char) : Record → Dict Payload
  | .meas c counts nGates nShots bits =>
    let d : Dict Payload := dictOf [(kDataType, .str vMeasurement), (kDevice, .str dev), (kCircuit, .ext (.circ c)),
      (kCounts, .ext (.counts counts)), (kGates, .int nGates), (kShots, .int nShots)]
    match bits with
    | some b => dictSet kBitstrings (.intLists (shotsInt b)) d
    | none => d
  | .dist c d nGates nShots =>
    dictOf [(kDataType, .str vDistribution), (kDevice, .str dev), (kCircuit, .ext (.circ c)),
      (kDistribution, .str (reprD d)), (kGates, .int nGates), (kShots, .optInt nShots)]

abbrev TWorld := Runner × List Char
abbrev TState := Tracker.State TWorld Unit Payload

/-- the content `save_raw_data` writes for the records `ds` -/
def fileText (dumps : Dict2 Payload → List Char) (ds : List (Dict Payload)) : List Char :=
  dumps (dictOf [(kRawData, .dicts ds)])

/-- the tracker's externals as the model instantiates them: the wrapped runner is the model's runner chain `world.1`; the file
    is the string `world.2` (`open(…, "w+")` truncates it, `write` appends, `__exit__` does nothing; `dumps` – any function –
    is `json.dumps`); `to_dict` / `get_counts` / `repr` are total and pure -/
def trackerExt (ext : Ext) (dev : List Char) (reprD : DistVal → List Char) (dumps : Dict2 Payload → List Char) :
    Tracker.Ext TWorld Unit Circ (List Shot) DistVal Payload Bool Unit where
  M_get_counts := fun s m => (s, .ok (.counts (countsOf m)))
  fn_repr := fun s d => (s, .ok (reprD d))
  self_inner_backend_run_and_measure := fun s c n =>
    ({ s with world := ((s.world.1.run ext c n).1, s.world.2) }, toResult (s.world.1.run ext c n).2)
  self_inner_backend_run_batch_and_measure := fun s cs ns =>
    ({ s with world := ((s.world.1.batch ext cs (nSpec ns)).1, s.world.2) }, toResult (s.world.1.batch ext cs (nSpec ns)).2)
  self_inner_backend_get_measurement_outcome_distribution := fun s c n =>
    ({ s with world := ((s.world.1.dist ext c n).1, s.world.2) }, toResult (s.world.1.dist ext c n).2)
  fn_open := fun s _ _ => ({ s with world := (s.world.1, []) }, .ok ())
  F_write := fun s _ str => ({ s with world := (s.world.1, s.world.2 ++ str) }, .ok ())
  F___exit__ := fun s _ => (s, .ok ())
  json_dumps := fun s d => (s, .ok (dumps d))
  fn_to_dict := fun s c => (s, .ok (.circ c))
  attr_B___class_____name__ := fun _ => dev
  attr_C_operations := fun c => c.ops
  attr_M_bitstrings := shotsInt

section
variable (ext : Ext) (dev : List Char) (reprD : DistVal → List Char) (dumps : Dict2 Payload → List Char)
theorem trackerExt_run (s : TState) (c : Circ) (n : Int) :
    (trackerExt ext dev reprD dumps).self_inner_backend_run_and_measure s c n
      = ({ s with world := ((s.world.1.run ext c n).1, s.world.2) }, toResult (s.world.1.run ext c n).2) := rfl
theorem trackerExt_batch (s : TState) (cs : List Circ) (ns : Int ⊕ List Int) :
    (trackerExt ext dev reprD dumps).self_inner_backend_run_batch_and_measure s cs ns
      = ({ s with world := ((s.world.1.batch ext cs (nSpec ns)).1, s.world.2) },
         toResult (s.world.1.batch ext cs (nSpec ns)).2) := rfl
theorem trackerExt_dist (s : TState) (c : Circ) (n : Option Int) :
    (trackerExt ext dev reprD dumps).self_inner_backend_get_measurement_outcome_distribution s c n
      = ({ s with world := ((s.world.1.dist ext c n).1, s.world.2) }, toResult (s.world.1.dist ext c n).2) := rfl
theorem trackerExt_open (s : TState) (a b : List Char) :
    (trackerExt ext dev reprD dumps).fn_open s a b = ({ s with world := (s.world.1, []) }, .ok ()) := rfl
theorem trackerExt_write (s : TState) (f : Unit) (str : List Char) :
    (trackerExt ext dev reprD dumps).F_write s f str = ({ s with world := (s.world.1, s.world.2 ++ str) }, .ok ()) := rfl
theorem trackerExt_exit (s : TState) (f : Unit) : (trackerExt ext dev reprD dumps).F___exit__ s f = (s, .ok ()) := rfl
theorem trackerExt_dumps (s : TState) (d : Dict2 Payload) :
    (trackerExt ext dev reprD dumps).json_dumps s d = (s, .ok (dumps d)) := rfl
theorem trackerExt_to_dict (s : TState) (c : Circ) :
    (trackerExt ext dev reprD dumps).fn_to_dict s c = (s, .ok (.circ c)) := rfl
theorem trackerExt_repr (s : TState) (d : DistVal) :
    (trackerExt ext dev reprD dumps).fn_repr s d = (s, .ok (reprD d)) := rfl
theorem trackerExt_ops (c : Circ) : (trackerExt ext dev reprD dumps).attr_C_operations c = c.ops := rfl
end

/-- model tracker state ↦ state of the translated class (`rb` = the Python value of `record_bitstrings`, `fn` the file name; the
    model's `file` – the records last written – is the text `save_raw_data` writes for them).  Only `.tracker` states are
    meant; a `.leaf` is mapped to a placeholder (the model's `step` keeps the shape of the chain: `tracker_passthrough`). -/
def concT (dev fn : List Char) (reprD : DistVal → List Char) (dumps : Dict2 Payload → List Char) (rb : Option Bool) :
    Runner → TState
  | .tracker inner _ k raw file =>
    ⟨k.nCircuits, k.nJobs, rb, (), raw.map (recDict dev reprD), dev, fn,
      (inner, fileText dumps (file.map (recDict dev reprD)))⟩
  | .leaf l => ⟨0, 0, rb, (), [], dev, fn, (.leaf l, [])⟩


/-! ## the tracker's own counters under the frame law, for ARBITRARY externals and types -/

/-- one call on a tracker, dispatched to the translated methods of `MeasurementTrackingBackend` -/
def Tracker.call {ω B C M D J O F : Type} (x : Tracker.Ext ω B C M D J O F) (s : Tracker.State ω B J) :
    RCall C → Tracker.State ω B J × RRes M D
  | .run c n => ((Tracker.run_and_measure x s c n).1, .ofResult .meas (Tracker.run_and_measure x s c n).2)
  | .batch cs ns => ((Tracker.run_batch_and_measure x s cs ns).1, .ofResult .batch (Tracker.run_batch_and_measure x s cs ns).2)
  | .dist c n => ((Tracker.get_measurement_outcome_distribution x s c n).1,
      .ofResult .distr (Tracker.get_measurement_outcome_distribution x s c n).2)

/-- "this external call does not touch the tracker's two counters" -/
def Tracker.Keeps {ω B J α : Type} (f : Tracker.State ω B J → Tracker.State ω B J × Result α) : Prop :=
  ∀ s, (f s).1._n_circuits_executed = s._n_circuits_executed ∧ (f s).1._n_jobs_executed = s._n_jobs_executed

/-- the frame law for the tracker: no external (the wrapped runner, `to_dict`, `get_counts`, `repr`, `json.dumps`, the file)
    touches the tracker's own counters -/
structure Tracker.Frame {ω B C M D J O F : Type} (x : Tracker.Ext ω B C M D J O F) : Prop where
  get_counts : ∀ m, Tracker.Keeps (fun s => x.M_get_counts s m)
  repr : ∀ d, Tracker.Keeps (fun s => x.fn_repr s d)
  inner_dist : ∀ c n, Tracker.Keeps (fun s => x.self_inner_backend_get_measurement_outcome_distribution s c n)
  inner_run : ∀ c n, Tracker.Keeps (fun s => x.self_inner_backend_run_and_measure s c n)
  inner_batch : ∀ cs ns, Tracker.Keeps (fun s => x.self_inner_backend_run_batch_and_measure s cs ns)
  to_dict : ∀ c, Tracker.Keeps (fun s => x.fn_to_dict s c)
  open_ : ∀ a b, Tracker.Keeps (fun s => x.fn_open s a b)
  write : ∀ f str, Tracker.Keeps (fun s => x.F_write s f str)
  exit : ∀ f, Tracker.Keeps (fun s => x.F___exit__ s f)
  dumps : ∀ d, Tracker.Keeps (fun s => x.json_dumps s d)

theorem Tracker.forEach_keeps {ω B J α : Type} (body : Tracker.State ω B J → α → Tracker.State ω B J × Result Unit)
    (hb : ∀ a, Tracker.Keeps (fun s => body s a)) (ps : List α) : Tracker.Keeps (fun s => forEach body s ps) := by
  induction ps with
  | nil => intro s; simp [forEach]
  | cons p ps ih =>
    intro s
    have h1 := hb p s
    simp only [forEach] at h1 ⊢
    generalize body s p = q at h1 ⊢
    rcases q with ⟨s1, r⟩
    cases r with
    | raised e => exact h1
    | ok u =>
      have h2 := ih s1
      simp only at h1 h2 ⊢
      exact ⟨by omega, by omega⟩

/-- a call the tracker or the wrapped runner rejects: a single call with a non-positive count (rejected by the tracker
    itself), or any call for which the wrapped runner's method raises -/
def Tracker.Rejected {ω B C M D J O F : Type} (x : Tracker.Ext ω B C M D J O F) (s : Tracker.State ω B J) : RCall C → Prop
  | .run c n => n ≤ 0 ∨ ∃ e, (x.self_inner_backend_run_and_measure s c n).2 = .raised e
  | .batch cs ns => ∃ e, (x.self_inner_backend_run_batch_and_measure s cs ns).2 = .raised e
  | .dist c n => ∃ e, (x.self_inner_backend_get_measurement_outcome_distribution s c n).2 = .raised e

/-- what the tracker adds to its own counters on a successful call -/
def RCall.trackerWork {C : Type} : RCall C → Nat × Nat
  | .run _ _ => (1, 1)
  | .batch cs _ => (cs.length, 1)
  | .dist _ _ => (0, 0)


/-! ## `BaseWavefunctionSimulator` -/

abbrev SWorld := Nat × Circ      -- ghost: number of `rng.choice` draws so far; the circuit last given to `split_circuit`
abbrev SState := Sim.State SWorld

/-- the simulator's externals as the model instantiates them (`a` = "every operation is native", i.e. `SymbolicSimulator`):
    `split_circuit` yields one (key, subcircuit) pair per `groupby` run of the native flags (`segKeys`); the native simulator,
    `operation.apply`, `np.zeros`, item assignment are pure no-ops on an opaque state vector; `Wavefunction(state)` of a
    circuit with free symbols raises `TypeError` (where the model places the failure of an exact-distribution request);
    `sample_from_wavefunction` answers `sampleShots` at the current draw index and bumps the index -/
def simExt (ext : Ext) (a : Bool) : Sim.Ext SWorld Circ (List Shot) DistVal Unit Circ Bool Circ (List Shot) Unit where
  M_get_distribution := fun s m => (s, .ok (.empirical (empirical m)))
  fn_Measurements := fun s x => (s, .ok x)
  O_apply := fun s _ v => (s, .ok v)
  V___setitem__ := fun s v _ _ => (s, .ok v)
  W_get_probabilities := fun s w => (s, .ok w)
  fn_Wavefunction := fun s _ => if s.world.2.symbolic then (s, .raised .TypeError) else (s, .ok s.world.2)
  fn_create_bitstring_distribution_from_probability_distribution := fun s p => (s, .ok (.exact p))
  np_zeros := fun s _ => (s, .ok ())
  fn_sample_from_wavefunction := fun s w n _ =>
    ({ s with world := (s.world.1 + 1, s.world.2) }, .ok (sampleShots ext s.world.1 w n))
  self__get_wavefunction_from_native_circuit := fun s _ v => (s, .ok v)
  fn_split_circuit := fun s c pred =>
    ({ s with world := (s.world.1, c) }, .ok ((segKeys (c.ops.map pred)).map (fun b => (b, c))))
  attr_C_free_symbols := fun c => if c.symbolic then [()] else []
  attr_C_n_qubits := fun c => c.width
  attr_C_operations := fun c => c.ops
  ref_is_natively_supported := fun g => a || g

/-- abstraction: state of the translated simulator ↦ the model's `.sim a` leaf (the ghost circuit is forgotten) -/
def absSim (a : Bool) (s : SState) : Leaf :=
  ⟨.sim a, ⟨s._n_circuits_executed.toNat, s._n_jobs_executed.toNat⟩, s.world.1⟩

/-- a `PyS.forEach` whose body never raises is a fold -/
theorem forEach_fold {σ α : Type} (body : σ → α → σ × Result Unit) (f : σ → α → σ)
    (h : ∀ st p, body st p = (f st p, .ok ())) (s : σ) (ps : List α) :
    forEach body s ps = (ps.foldl f s, .ok ()) := by
  induction ps generalizing s with
  | nil => rfl
  | cons p ps ih => simp [forEach, h, ih]

theorem foldl_const {σ α : Type} (s : σ) (ps : List α) : ps.foldl (fun st _ => st) s = s := by
  induction ps with
  | nil => rfl
  | cons p ps ih => simp [ih]

/-- the segment loop as a fold -/
def segStep (st : SState × Unit) (p : Bool × Circ) : SState × Unit :=
  ({ st.1 with _n_jobs_executed := st.1._n_jobs_executed + 1,
               _n_circuits_executed := if p.1 then st.1._n_circuits_executed + 1 else st.1._n_circuits_executed }, st.2)

theorem foldl_segStep (segs : List Bool) (c : Circ) (s : SState) (v : Unit) :
    (segs.map (fun b => (b, c))).foldl segStep (s, v)
      = ({ s with _n_circuits_executed := s._n_circuits_executed + (segs.count true : Nat),
                  _n_jobs_executed := s._n_jobs_executed + (segs.length : Nat) }, v) := by
  induction segs generalizing s with
  | nil => simp
  | cons b segs ih =>
    cases b <;> simp [segStep, ih] <;> omega

/-- model state of a `.sim a` leaf ↦ state of the translated class (`sd` = `self.seed`, `cur` = the ghost circuit) -/
def concSim (l : Leaf) (sd : Option Int) (cur : Circ) : SState := ⟨l.k.nCircuits, l.k.nJobs, sd, (l.calls, cur)⟩


/-- one call on a simulator, dispatched to the translated methods of `BaseWavefunctionSimulator` -/
def Sim.call {ω C M D V W O P X Y : Type} (x : Sim.Ext ω C M D V W O P X Y) (s : Sim.State ω) :
    RCall C → Sim.State ω × RRes M D
  | .run c n => ((Sim.run_and_measure x s c n).1, .ofResult .meas (Sim.run_and_measure x s c n).2)
  | .batch cs ns => ((Sim.run_batch_and_measure x s cs ns).1, .ofResult .batch (Sim.run_batch_and_measure x s cs ns).2)
  | .dist c n => ((Sim.get_measurement_outcome_distribution x s c n).1,
      .ofResult .distr (Sim.get_measurement_outcome_distribution x s c n).2)

/-- a `.leaf` ↦ the simulator state (a `.tracker` is mapped to a placeholder; `step` on a leaf yields a leaf) -/
def concRunnerSim (sd : Option Int) (cur : Circ) : Runner → SState
  | .leaf l => concSim l sd cur
  | .tracker _ _ _ _ _ => ⟨0, 0, sd, (0, cur)⟩

end OQ.C14
