/- helper lemmas and the real-valued (analytic) definitions for C17 (not property theorems) -/
import OQ.Model.C17
import Mathlib.Tactic.Linarith
import Mathlib.Tactic.Ring
import Mathlib.Tactic.IntervalCases
import Mathlib.Algebra.BigOperators.Group.List.Basic
import Mathlib.Algebra.Order.BigOperators.Group.List
import Mathlib.Data.List.Nodup
import Mathlib.Data.List.Perm.Basic
import Mathlib.Algebra.Order.Field.Rat
import Mathlib.Analysis.SpecialFunctions.Exponential
import Mathlib.Analysis.SpecialFunctions.Log.Basic
import Mathlib.Topology.Algebra.InfiniteSum.Order
import Mathlib.Analysis.Normed.Algebra.Exponential
import Mathlib.Algebra.BigOperators.Fin
import Mathlib.Data.Rat.BigOperators
import Mathlib.Algebra.BigOperators.Ring.List
import Mathlib.Tactic.Positivity
set_option linter.unusedSectionVars false
namespace OQ.C17

/-! ## dictionaries -/
namespace Dict
section
variable {κ : Type}
theorem keys_nil : Dict.keys ([] : Dict κ) = [] := rfl
theorem keys_cons (k : κ) (v : Rat) (d : Dict κ) : Dict.keys ((k, v) :: d) = k :: d.keys := rfl
theorem total_nil : Dict.total ([] : Dict κ) = 0 := rfl
theorem total_cons (k : κ) (v : Rat) (d : Dict κ) : Dict.total ((k, v) :: d) = v + d.total := by
  simp [Dict.total, Dict.vals]
theorem total_append (a b : Dict κ) : Dict.total (a ++ b) = a.total + b.total := by
  simp [Dict.total, Dict.vals]
end
variable {κ : Type} [DecidableEq κ]

theorem getD_of_not_mem (d : Dict κ) (k : κ) (h : k ∉ d.keys) : d.getD k = 0 := by
  induction d with
  | nil => rfl
  | cons p d ih =>
    obtain ⟨k', v⟩ := p
    simp only [keys_cons, List.mem_cons, not_or] at h
    simp only [Dict.getD, if_neg (Ne.symm h.1)]
    exact ih h.2

theorem getD_of_mem (d : Dict κ) (hn : d.keys.Nodup) (k : κ) (v : Rat) (h : (k, v) ∈ d) :
    d.getD k = v := by
  induction d with
  | nil => simp at h
  | cons p d ih =>
    obtain ⟨k', v'⟩ := p
    simp only [keys_cons, List.nodup_cons] at hn
    rcases List.mem_cons.1 h with h | h
    · cases h; simp [Dict.getD]
    · have : k' ≠ k := by
        rintro rfl
        exact hn.1 (List.mem_map.2 ⟨_, h, rfl⟩)
      simp only [Dict.getD, if_neg this]
      exact ih hn.2 h

theorem set_of_not_mem (d : Dict κ) (k : κ) (v : Rat) (h : k ∉ d.keys) :
    d.set k v = d ++ [(k, v)] := by
  induction d with
  | nil => rfl
  | cons p d ih =>
    obtain ⟨k', v'⟩ := p
    simp only [keys_cons, List.mem_cons, not_or] at h
    simp only [Dict.set, if_neg (Ne.symm h.1), ih h.2, List.cons_append]

theorem keys_set (d : Dict κ) (k : κ) (v : Rat) :
    (d.set k v).keys = if k ∈ d.keys then d.keys else d.keys ++ [k] := by
  induction d with
  | nil => simp [Dict.set, Dict.keys]
  | cons p d ih =>
    obtain ⟨k', v'⟩ := p
    by_cases h : k' = k
    · subst h; simp [Dict.set, keys_cons]
    · have h' : ¬ k = k' := fun e => h e.symm
      simp only [Dict.set, if_neg h, keys_cons, ih, List.mem_cons, h', false_or]
      split <;> simp

theorem mem_keys_set (d : Dict κ) (k : κ) (v : Rat) (x : κ) :
    x ∈ (d.set k v).keys ↔ x ∈ d.keys ∨ x = k := by
  rw [keys_set]; split
  · constructor
    · exact Or.inl
    · rintro (h | rfl) <;> assumption
  · simp

theorem nodup_set (d : Dict κ) (k : κ) (v : Rat) (hn : d.keys.Nodup) : (d.set k v).keys.Nodup := by
  rw [keys_set]; split
  · exact hn
  · rename_i h
    exact List.Nodup.append hn (List.nodup_singleton k) (by simpa using h)

theorem getD_set_self (d : Dict κ) (k : κ) (v : Rat) : (d.set k v).getD k = v := by
  induction d with
  | nil => simp [Dict.set, Dict.getD]
  | cons p d ih =>
    obtain ⟨k', v'⟩ := p
    by_cases h : k' = k
    · simp [Dict.set, Dict.getD, h]
    · simp [Dict.set, Dict.getD, h, ih]

theorem getD_set_ne (d : Dict κ) (k : κ) (v : Rat) (x : κ) (hx : x ≠ k) :
    (d.set k v).getD x = d.getD x := by
  induction d with
  | nil => simp [Dict.set, Dict.getD, Ne.symm hx]
  | cons p d ih =>
    obtain ⟨k', v'⟩ := p
    by_cases h : k' = k
    · subst h; simp [Dict.set, Dict.getD, Ne.symm hx]
    · simp only [Dict.set, if_neg h, Dict.getD, ih]

theorem total_set (d : Dict κ) (k : κ) (v : Rat) : (d.set k v).total = d.total - d.getD k + v := by
  induction d with
  | nil => simp [Dict.set, Dict.getD, Dict.total, Dict.vals]
  | cons p d ih =>
    obtain ⟨k', v'⟩ := p
    by_cases h : k' = k
    · simp only [Dict.set, if_pos h, Dict.getD, total_cons]; ring
    · simp only [Dict.set, if_neg h, Dict.getD, total_cons, ih]; ring

theorem vals_set_nonneg (d : Dict κ) (k : κ) (v : Rat) (hv : 0 ≤ v) (hd : ∀ p ∈ d, 0 ≤ p.2) :
    ∀ p ∈ d.set k v, 0 ≤ p.2 := by
  induction d with
  | nil => intro p hp; simp [Dict.set] at hp; subst hp; exact hv
  | cons q d ih =>
    obtain ⟨k', v'⟩ := q
    intro p hp
    by_cases h : k' = k
    · simp only [Dict.set, if_pos h, List.mem_cons] at hp
      rcases hp with rfl | hp
      · exact hv
      · exact hd p (List.mem_cons_of_mem _ hp)
    · simp only [Dict.set, if_neg h, List.mem_cons] at hp
      rcases hp with rfl | hp
      · exact hd _ (List.mem_cons_self)
      · exact ih (fun p hp => hd p (List.mem_cons_of_mem _ hp)) p hp

theorem getD_nonneg (d : Dict κ) (hd : ∀ p ∈ d, 0 ≤ p.2) (k : κ) : 0 ≤ d.getD k := by
  induction d with
  | nil => simp [Dict.getD]
  | cons q d ih =>
    obtain ⟨k', v'⟩ := q
    simp only [Dict.getD]
    split
    · exact hd _ (List.mem_cons_self)
    · exact ih (fun p hp => hd p (List.mem_cons_of_mem _ hp))

theorem set_ne_nil (d : Dict κ) (k : κ) (v : Rat) : d.set k v ≠ [] := by
  cases d with
  | nil => simp [Dict.set]
  | cons p d => obtain ⟨k', v'⟩ := p; simp only [Dict.set]; split <;> simp

end Dict


/-! ## strings -/

theorem digitVal_digitChar (d : Nat) (h : d < 10) : digitVal (digitChar d) = some d := by
  interval_cases d <;> decide

theorem digitChar_ne_comma (d : Nat) (h : d < 10) : digitChar d ≠ ',' := by
  interval_cases d <;> decide

theorem digitChar_ne_minus (d : Nat) (h : d < 10) : digitChar d ≠ '-' := by
  interval_cases d <;> decide

theorem digitChar_ne_plus (d : Nat) (h : d < 10) : digitChar d ≠ '+' := by
  interval_cases d <;> decide

theorem parseNatAux_append (a : Nat) (xs ys : List Char) :
    parseNatAux a (xs ++ ys) = (parseNatAux a xs).bind (fun b => parseNatAux b ys) := by
  induction xs generalizing a with
  | nil => simp [parseNatAux]
  | cons c xs ih =>
    simp only [List.cons_append, parseNatAux]
    cases digitVal c with
    | none => simp
    | some d => simp [ih]

/-- a predicate: every character is one of the ten digit characters -/
def AllDigits (cs : List Char) : Prop := ∀ c ∈ cs, ∃ d, d < 10 ∧ c = digitChar d

theorem strNatFuel_spec (f n : Nat) (h : n ≤ f) :
    parseNatAux 0 (strNatFuel f n) = some n ∧ strNatFuel f n ≠ [] ∧ AllDigits (strNatFuel f n) := by
  induction f generalizing n with
  | zero =>
    have : n = 0 := by omega
    subst this
    refine ⟨by decide, by simp [strNatFuel], ?_⟩
    intro c hc; simp [strNatFuel] at hc; exact ⟨0, by omega, hc⟩
  | succ f ih =>
    unfold strNatFuel
    by_cases h10 : n < 10
    · simp only [if_pos h10]
      refine ⟨?_, by simp, ?_⟩
      · simp [parseNatAux, digitVal_digitChar n h10]
      · intro c hc; simp at hc; exact ⟨n, h10, hc⟩
    · simp only [if_neg h10]
      have hle : n / 10 ≤ f := by omega
      obtain ⟨h1, h2, h3⟩ := ih (n / 10) hle
      refine ⟨?_, by simp, ?_⟩
      · rw [parseNatAux_append, h1]
        have hm : n % 10 < 10 := Nat.mod_lt _ (by omega)
        simp only [Option.bind_some, parseNatAux, digitVal_digitChar _ hm]
        congr 1; omega
      · intro c hc
        rcases List.mem_append.1 hc with hc | hc
        · exact h3 c hc
        · simp at hc; exact ⟨n % 10, Nat.mod_lt _ (by omega), hc⟩

theorem parseNat_strNat (n : Nat) : parseNat (strNat n) = some n := by
  obtain ⟨h1, h2, _⟩ := strNatFuel_spec n n (le_refl _)
  unfold strNat parseNat
  cases h : strNatFuel n n with
  | nil => exact absurd h h2
  | cons c cs => simp only []; rw [← h]; exact h1

theorem allDigits_strNat (n : Nat) : AllDigits (strNat n) := (strNatFuel_spec n n (le_refl _)).2.2
theorem strNat_ne_nil (n : Nat) : strNat n ≠ [] := (strNatFuel_spec n n (le_refl _)).2.1

theorem strNat_digit (d : Nat) (h : d < 10) : strNat d = [digitChar d] := by
  unfold strNat
  cases d with
  | zero => rfl
  | succ d => simp [strNatFuel, h]

theorem strInt_nonneg (i : Int) (h : 0 ≤ i) : strInt i = strNat i.toNat := by
  simp [strInt, not_lt.mpr h]

theorem comma_not_mem_strInt (i : Int) (h : 0 ≤ i) : ',' ∉ strInt i := by
  rw [strInt_nonneg i h]
  intro hc
  obtain ⟨d, hd, e⟩ := allDigits_strNat _ _ hc
  exact digitChar_ne_comma d hd e.symm

theorem pyInt_strInt (i : Int) (h : 0 ≤ i) : pyInt (strInt i) = some i := by
  rw [strInt_nonneg i h]
  have hp := parseNat_strNat i.toNat
  have hd := allDigits_strNat i.toNat
  cases hs : strNat i.toNat with
  | nil => exact absurd hs (strNat_ne_nil _)
  | cons c r =>
    rw [hs] at hp hd
    obtain ⟨d, hd10, e⟩ := hd c (List.mem_cons_self)
    have h1 : c ≠ '-' := e ▸ digitChar_ne_minus d hd10
    have h2 : c ≠ '+' := e ▸ digitChar_ne_plus d hd10
    simp only [pyInt, if_neg h1, if_neg h2, hp]
    simp [Int.toNat_of_nonneg h]

/-! split / join -/

theorem splitOn_ne_nil (sep : Char) (s : List Char) : splitOn sep s ≠ [] := by
  induction s with
  | nil => simp [splitOn]
  | cons c cs ih =>
    unfold splitOn
    split
    · simp
    · split <;> simp

theorem splitOn_cons_sep (sep : Char) (cs : List Char) :
    splitOn sep (sep :: cs) = [] :: splitOn sep cs := by
  rw [splitOn]; simp

theorem splitOn_cons_ne (sep c : Char) (cs : List Char) (h : c ≠ sep) :
    splitOn sep (c :: cs) = match splitOn sep cs with
      | h :: t => (c :: h) :: t
      | [] => [[c]] := by
  rw [splitOn, if_neg h]; cases splitOn sep cs <;> rfl

theorem splitOn_of_not_mem (sep : Char) (s : List Char) (h : sep ∉ s) : splitOn sep s = [s] := by
  induction s with
  | nil => rfl
  | cons c cs ih =>
    simp only [List.mem_cons, not_or] at h
    rw [splitOn_cons_ne sep c cs (Ne.symm h.1), ih h.2]

theorem splitOn_append_sep (sep : Char) (p rest : List Char) (h : sep ∉ p) :
    splitOn sep (p ++ sep :: rest) = p :: splitOn sep rest := by
  induction p with
  | nil => simp [splitOn_cons_sep]
  | cons c cs ih =>
    simp only [List.mem_cons, not_or] at h
    simp only [List.cons_append]
    rw [splitOn_cons_ne sep c _ (Ne.symm h.1), ih h.2]

theorem splitOn_joinWith (sep : Char) (parts : List (List Char)) (hne : parts ≠ [])
    (h : ∀ p ∈ parts, sep ∉ p) : splitOn sep (joinWith sep parts) = parts := by
  induction parts with
  | nil => exact absurd rfl hne
  | cons p rest ih =>
    cases rest with
    | nil => simp only [joinWith]; exact splitOn_of_not_mem sep p (h p (List.mem_cons_self))
    | cons q rest =>
      simp only [joinWith]
      rw [splitOn_append_sep sep p _ (h p (List.mem_cons_self))]
      rw [ih (by simp) (fun x hx => h x (List.mem_cons_of_mem _ hx))]

theorem sep_mem_joinWith (sep : Char) (p q : List Char) (rest : List (List Char)) :
    sep ∈ joinWith sep (p :: q :: rest) := by
  simp [joinWith]

theorem sep_not_mem_joinWith_single (sep : Char) (p : List Char) (h : sep ∉ p) :
    sep ∉ joinWith sep [p] := by simpa [joinWith] using h

/-! keys as strings -/

theorem mapM_pyInt_strInt (k : Key) (h : ∀ e ∈ k, 0 ≤ e) : (k.map strInt).mapM pyInt = some k := by
  induction k with
  | nil => rfl
  | cons e k ih =>
    have h1 := pyInt_strInt e (h e (List.mem_cons_self))
    have h2 := ih (fun x hx => h x (List.mem_cons_of_mem _ hx))
    simp [List.mapM_cons, h1, h2]

/-- one-character encoding of a tuple of decimal digits: what `"".join(str(e) …)` gives -/
def encDigits (es : Key) : List Char := es.map (fun e => digitChar e.toNat)

def IsDigits (es : Key) : Prop := ∀ e ∈ es, 0 ≤ e ∧ e < 10

theorem flatten_strInt_digits (es : Key) (h : IsDigits es) : (es.map strInt).flatten = encDigits es := by
  induction es with
  | nil => rfl
  | cons e es ih =>
    have he := h e (List.mem_cons_self)
    have : strInt e = [digitChar e.toNat] := by
      rw [strInt_nonneg e he.1, strNat_digit _ (by omega)]
    simp only [List.map_cons, List.flatten_cons, this, encDigits]
    rw [ih (fun x hx => h x (List.mem_cons_of_mem _ hx))]; rfl

theorem comma_not_mem_encDigits (es : Key) (h : IsDigits es) : ',' ∉ encDigits es := by
  intro hc
  obtain ⟨e, he, hce⟩ := List.mem_map.1 hc
  have := h e he
  exact digitChar_ne_comma e.toNat (by omega) hce

theorem mapM_digitVal_encDigits (es : Key) (h : IsDigits es) :
    (encDigits es).mapM (fun c => (digitVal c).map Int.ofNat) = some es := by
  induction es with
  | nil => rfl
  | cons e es ih =>
    have he := h e (List.mem_cons_self)
    have h2 := ih (fun x hx => h x (List.mem_cons_of_mem _ hx))
    have h1 : digitVal (digitChar e.toNat) = some e.toNat := digitVal_digitChar _ (by omega)
    have h3 : ((e.toNat : Nat) : Int) = e := Int.toNat_of_nonneg he.1
    simp only [encDigits] at h2
    have h3' : Int.ofNat e.toNat = e := h3
    simp [encDigits, List.mapM_cons, h1, h2]
    exact he.1

/-- the constructor reads back a digit string as the digit tuple -/
theorem preprocessKey_encDigits (es : Key) (h : IsDigits es) :
    preprocessKey (RawKey.str (encDigits es)) = .ok es := by
  simp only [preprocessKey, if_neg (comma_not_mem_encDigits es h), mapM_digitVal_encDigits es h]

/-- key → comma string → key, whenever the key does not have exactly one entry, or has digits only -/
theorem preprocessKey_keyToString (k : Key) (hk : ∀ e ∈ k, 0 ≤ e)
    (hd : k.length ≠ 1 ∨ IsDigits k) : preprocessKey (RawKey.str (keyToString k)) = .ok k := by
  match k, hk, hd with
  | [], _, _ => simp [keyToString, joinWith, preprocessKey]
  | [e], hk, hd =>
    have hdig : IsDigits [e] := by
      rcases hd with hd | hd
      · simp at hd
      · exact hd
    have : keyToString [e] = encDigits [e] := by
      have := flatten_strInt_digits [e] hdig
      simpa [keyToString, joinWith] using this
    rw [this]; exact preprocessKey_encDigits _ hdig
  | e1 :: e2 :: rest, hk, _ =>
    have hmem : ',' ∈ keyToString (e1 :: e2 :: rest) := by
      simp only [keyToString, List.map_cons]; exact sep_mem_joinWith _ _ _ _
    have hsplit : splitOn ',' (keyToString (e1 :: e2 :: rest)) = (e1 :: e2 :: rest).map strInt := by
      apply splitOn_joinWith
      · simp
      · intro p hp
        obtain ⟨e, he, rfl⟩ := List.mem_map.1 hp
        exact comma_not_mem_strInt e (hk e he)
    simp only [preprocessKey, if_pos hmem, hsplit, mapM_pyInt_strInt _ hk]


/-! ## preprocess / dict comprehension on distinct keys -/

/-- if every raw key `raw k` is read back as `k` and the `k` are distinct and fresh, preprocessing
    just appends them in order -/
theorem preprocess_append (raw : Key → RawKey) (d acc : Dict Key)
    (hraw : ∀ k ∈ d.keys, preprocessKey (raw k) = .ok k)
    (hn : d.keys.Nodup) (hdisj : ∀ k ∈ d.keys, k ∉ acc.keys) :
    preprocess (d.map (fun p => (raw p.1, p.2))) acc = .ok (acc ++ d) := by
  induction d generalizing acc with
  | nil => simp [preprocess]
  | cons p d ih =>
    obtain ⟨k, v⟩ := p
    simp only [Dict.keys_cons, List.nodup_cons, List.mem_cons, forall_eq_or_imp] at hn hraw hdisj
    simp only [List.map_cons, preprocess, hraw.1]
    rw [Dict.set_of_not_mem acc k v hdisj.1]
    rw [ih (acc ++ [(k, v)]) hraw.2 hn.2]
    · simp
    · intro x hx hmem
      simp only [Dict.keys, List.map_append, List.mem_append, List.map_cons, List.map_nil,
        List.mem_singleton] at hmem
      rcases hmem with hmem | rfl
      · exact hdisj.2 x hx hmem
      · exact hn.1 hx

theorem preprocess_distinct (raw : Key → RawKey) (d : Dict Key)
    (hraw : ∀ k ∈ d.keys, preprocessKey (raw k) = .ok k) (hn : d.keys.Nodup) :
    preprocess (d.map (fun p => (raw p.1, p.2))) [] = .ok d := by
  have := preprocess_append raw d [] hraw hn (by simp [Dict.keys])
  simpa using this

theorem dictComp_append {κ κ' : Type} [DecidableEq κ'] (f : κ → κ') (d : Dict κ) (acc : Dict κ')
    (hn : (d.keys.map f).Nodup) (hdisj : ∀ k ∈ d.keys, f k ∉ acc.keys) :
    d.foldl (fun acc p => acc.set (f p.1) p.2) acc = acc ++ d.map (fun p => (f p.1, p.2)) := by
  induction d generalizing acc with
  | nil => simp
  | cons p d ih =>
    obtain ⟨k, v⟩ := p
    simp only [Dict.keys_cons, List.map_cons, List.nodup_cons, List.mem_cons, forall_eq_or_imp]
      at hn hdisj
    simp only [List.foldl_cons, List.map_cons]
    rw [Dict.set_of_not_mem acc (f k) v hdisj.1, ih _ hn.2]
    · simp
    · intro x hx hmem
      simp only [Dict.keys, List.map_append, List.mem_append, List.map_cons, List.map_nil,
        List.mem_singleton] at hmem
      rcases hmem with hmem | e
      · exact hdisj.2 x hx hmem
      · exact hn.1 (e ▸ List.mem_map.2 ⟨x, hx, rfl⟩)

theorem dictComp_distinct {κ κ' : Type} [DecidableEq κ'] (f : κ → κ') (d : Dict κ)
    (hn : (d.keys.map f).Nodup) : dictComp f d = d.map (fun p => (f p.1, p.2)) := by
  have := dictComp_append f d [] hn (by simp [Dict.keys])
  simpa [dictComp] using this

/-! ## the validity predicate -/

/-- a well-formed `distribution_dict` of width `w`: what the constructor guarantees -/
structure Valid (d : Dict Key) (w : Nat) : Prop where
  ne : d ≠ []
  nodup : d.keys.Nodup
  len : ∀ p ∈ d, p.1.length = w
  val : ∀ p ∈ d, 0 ≤ p.2
  ent : ∀ p ∈ d, ∀ e ∈ p.1, 0 ≤ e

theorem isDistribution_iff (d : Dict Key) :
    isDistribution d = true ↔
      d ≠ [] ∧ (∀ p ∈ d, 0 ≤ p.2) ∧ (∀ p ∈ d, ∀ p' ∈ d, p.1.length = p'.1.length) ∧
      (∀ p ∈ d, ∀ e ∈ p.1, 0 ≤ e) := by
  cases d with
  | nil => simp [isDistribution]
  | cons p0 d =>
    obtain ⟨k0, v0⟩ := p0
    simp only [isDistribution, Bool.and_eq_true, List.all_eq_true, decide_eq_true_eq, beq_iff_eq]
    constructor
    · rintro ⟨⟨h1, h2⟩, h3⟩
      refine ⟨by simp, h1, ?_, h3⟩
      intro p hp p' hp'
      rw [h2 p hp, h2 p' hp']
    · rintro ⟨_, h1, h2, h3⟩
      exact ⟨⟨h1, fun p hp => h2 p hp _ (List.mem_cons_self)⟩, h3⟩

theorem isDistribution_of_valid (d : Dict Key) (w : Nat) (h : Valid d w) : isDistribution d = true := by
  rw [isDistribution_iff]
  exact ⟨h.ne, h.val, fun p hp p' hp' => by rw [h.len p hp, h.len p' hp'], h.ent⟩

/-! ## constructor -/

theorem total_nonneg (d : Dict Key) (h : ∀ p ∈ d, 0 ≤ p.2) : 0 ≤ d.total := by
  induction d with
  | nil => simp [Dict.total, Dict.vals]
  | cons p d ih =>
    obtain ⟨k, v⟩ := p
    rw [Dict.total_cons]
    have := h (k, v) (List.mem_cons_self)
    have := ih (fun p hp => h p (List.mem_cons_of_mem _ hp))
    linarith

theorem total_map_mul (d : Dict Key) (c : Rat) :
    Dict.total (d.map (fun p => (p.1, p.2 * c))) = d.total * c := by
  induction d with
  | nil => simp [Dict.total, Dict.vals]
  | cons p d ih =>
    obtain ⟨k, v⟩ := p
    simp only [List.map_cons, Dict.total_cons, ih]; ring

theorem floatMin_pos : 0 < floatMin := by
  unfold floatMin
  exact div_pos one_pos (pow_pos (by norm_num) _)

/-- every way the constructor can succeed -/
theorem constructPre_ok (close : Rat → Bool) (nz : Bool) (pre d : Dict Key)
    (h : constructPre close nz pre = .ok d) :
    isDistribution pre = true ∧
      ((d = pre ∧ (close pre.total = true ∨ nz = false ∨ pre.total = 1)) ∨
       (close pre.total = false ∧ nz = true ∧ floatMin ≤ pre.total ∧
        d = pre.map (fun p => (p.1, p.2 * (1 / pre.total))))) := by
  unfold constructPre at h
  by_cases hd : isDistribution pre = true
  · refine ⟨hd, ?_⟩
    simp only [hd, if_true] at h
    by_cases hc : close pre.total = true
    · simp only [hc, if_true] at h
      left; exact ⟨by cases h; rfl, Or.inl hc⟩
    · simp only [hc] at h
      cases nz with
      | false => simp at h; left; exact ⟨h.symm, Or.inr (Or.inl rfl)⟩
      | true =>
        simp only [if_true, normalizeDict] at h
        have hnn : 0 ≤ pre.total := total_nonneg pre ((isDistribution_iff pre).1 hd).2.1
        by_cases h0 : pre.total = 0
        · simp [h0] at h
        · simp only [h0, if_false] at h
          by_cases hs : 0 < pre.total ∧ pre.total < floatMin
          · simp [hs] at h
          · simp only [hs, if_false] at h
            by_cases h1 : pre.total = 1
            · simp only [h1, if_true] at h
              left; exact ⟨by cases h; rfl, Or.inr (Or.inr h1)⟩
            · simp only [h1, if_false] at h
              right
              refine ⟨by simpa using hc, rfl, ?_, by cases h; rfl⟩
              have hpos : 0 < pre.total := lt_of_le_of_ne hnn (Ne.symm h0)
              by_contra hlt
              exact hs ⟨hpos, not_le.mp hlt⟩
  · simp [hd] at h

theorem construct_ok (close : Rat → Bool) (nz : Bool) (input : List (RawKey × Rat)) (d : Dict Key)
    (h : construct close nz input = .ok d) :
    ∃ pre, preprocess input [] = .ok pre ∧ constructPre close nz pre = .ok d := by
  unfold construct at h
  cases hp : preprocess input [] with
  | error e => simp [hp] at h
  | ok pre => exact ⟨pre, rfl, by simpa [hp] using h⟩

/-- a valid dictionary whose total passes the closeness test (or with normalisation off) is kept -/
theorem constructPre_valid (close : Rat → Bool) (nz : Bool) (d : Dict Key) (w : Nat) (hv : Valid d w)
    (hc : close d.total = true ∨ nz = false) : constructPre close nz d = .ok d := by
  unfold constructPre
  rw [isDistribution_of_valid d w hv]
  rcases hc with hc | hc
  · simp [hc]
  · subst hc; simp


/-! ## the marginalisation loop -/

/-- the accumulation loop of `subdistribution` for a total projection `g` -/
def groupSumAux {κ κ' : Type} [DecidableEq κ'] (g : κ → κ') : Dict κ → Dict κ' → Dict κ'
  | [], acc => acc
  | (k, v) :: rest, acc => groupSumAux g rest (acc.set (g k) (v + acc.getD (g k)))

/-- outcomes grouped by their projection `g`, probabilities added, first occurrence order -/
def groupSum {κ κ' : Type} [DecidableEq κ'] (g : κ → κ') (d : Dict κ) : Dict κ' := groupSumAux g d []

theorem mapM_eq_some_map {α β : Type} (f : α → Option β) (g : α → β) (l : List α)
    (h : ∀ a ∈ l, f a = some (g a)) : l.mapM f = some (l.map g) := by
  induction l with
  | nil => rfl
  | cons a l ih =>
    simp [List.mapM_cons, h a (List.mem_cons_self), ih (fun x hx => h x (List.mem_cons_of_mem _ hx))]

section
variable {κ κ' : Type} [DecidableEq κ']

theorem accumulate_eq (f : κ → Option κ') (g : κ → κ') (d : Dict κ) (acc : Dict κ')
    (h : ∀ k ∈ d.keys, f k = some (g k)) : accumulate f d acc = some (groupSumAux g d acc) := by
  induction d generalizing acc with
  | nil => rfl
  | cons p d ih =>
    obtain ⟨k, v⟩ := p
    simp only [Dict.keys_cons, List.mem_cons, forall_eq_or_imp] at h
    simp only [accumulate, h.1, groupSumAux]
    exact ih _ h.2

theorem getD_groupSumAux (g : κ → κ') (d : Dict κ) (acc : Dict κ') (x : κ') :
    (groupSumAux g d acc).getD x =
      acc.getD x + ((d.filter (fun p => decide (g p.1 = x))).map Prod.snd).sum := by
  induction d generalizing acc with
  | nil => simp [groupSumAux]
  | cons p d ih =>
    obtain ⟨k, v⟩ := p
    simp only [groupSumAux, ih]
    by_cases hx : g k = x
    · subst hx
      simp [Dict.getD_set_self]; ring
    · rw [Dict.getD_set_ne _ _ _ _ (Ne.symm hx)]
      simp [hx]

theorem mem_keys_groupSumAux (g : κ → κ') (d : Dict κ) (acc : Dict κ') (x : κ') :
    x ∈ (groupSumAux g d acc).keys ↔ x ∈ acc.keys ∨ ∃ k ∈ d.keys, g k = x := by
  induction d generalizing acc with
  | nil => simp [groupSumAux, Dict.keys]
  | cons p d ih =>
    obtain ⟨k, v⟩ := p
    simp only [groupSumAux, ih, Dict.mem_keys_set, Dict.keys_cons, List.mem_cons, exists_eq_or_imp]
    constructor
    · rintro ((h | h) | h)
      · exact Or.inl h
      · exact Or.inr (Or.inl h.symm)
      · exact Or.inr (Or.inr h)
    · rintro (h | h | h)
      · exact Or.inl (Or.inl h)
      · exact Or.inl (Or.inr h.symm)
      · exact Or.inr h

theorem nodup_groupSumAux (g : κ → κ') (d : Dict κ) (acc : Dict κ') (h : acc.keys.Nodup) :
    (groupSumAux g d acc).keys.Nodup := by
  induction d generalizing acc with
  | nil => exact h
  | cons p d ih =>
    obtain ⟨k, v⟩ := p
    exact ih _ (Dict.nodup_set _ _ _ h)

theorem nonneg_groupSumAux (g : κ → κ') (d : Dict κ) (acc : Dict κ')
    (hd : ∀ p ∈ d, 0 ≤ p.2) (ha : ∀ p ∈ acc, 0 ≤ p.2) : ∀ p ∈ groupSumAux g d acc, 0 ≤ p.2 := by
  induction d generalizing acc with
  | nil => exact ha
  | cons p d ih =>
    obtain ⟨k, v⟩ := p
    apply ih _ (fun p hp => hd p (List.mem_cons_of_mem _ hp))
    apply Dict.vals_set_nonneg _ _ _ _ ha
    have := hd (k, v) (List.mem_cons_self)
    have := Dict.getD_nonneg acc ha (g k)
    simp only at *; linarith

theorem total_groupSumAux (g : κ → κ') (d : Dict κ) (acc : Dict κ') :
    (groupSumAux g d acc).total = acc.total + d.total := by
  induction d generalizing acc with
  | nil => simp [groupSumAux, Dict.total, Dict.vals]
  | cons p d ih =>
    obtain ⟨k, v⟩ := p
    simp only [groupSumAux, ih, Dict.total_set, Dict.total_cons]; ring

theorem groupSumAux_ne_nil (g : κ → κ') (d : Dict κ) (acc : Dict κ') (h : d ≠ [] ∨ acc ≠ []) :
    groupSumAux g d acc ≠ [] := by
  induction d generalizing acc with
  | nil => simpa [groupSumAux] using h
  | cons p d ih =>
    obtain ⟨k, v⟩ := p
    exact ih _ (Or.inr (Dict.set_ne_nil _ _ _))

end

/-- relabelling the groups by a map that is injective on the labels in use commutes with grouping -/
theorem groupSumAux_map_inj {κ α β : Type} [DecidableEq α] [DecidableEq β]
    (enc : α → β) (P : α → Prop) (hinj : ∀ a b, P a → P b → enc a = enc b → a = b)
    (h : κ → α) (d : Dict κ) (acc : Dict α)
    (hd : ∀ k ∈ d.keys, P (h k)) (ha : ∀ a ∈ acc.keys, P a) :
    groupSumAux (fun k => enc (h k)) d (acc.map (fun p => (enc p.1, p.2))) =
      (groupSumAux h d acc).map (fun p => (enc p.1, p.2)) := by
  have hget : ∀ (acc : Dict α), (∀ a ∈ acc.keys, P a) → ∀ x, P x →
      Dict.getD (acc.map (fun p => (enc p.1, p.2))) (enc x) = acc.getD x := by
    intro acc ha x hx
    induction acc with
    | nil => rfl
    | cons p acc ih =>
      obtain ⟨a, v⟩ := p
      simp only [Dict.keys_cons, List.mem_cons, forall_eq_or_imp] at ha
      simp only [List.map_cons, Dict.getD]
      by_cases e : a = x
      · simp [e]
      · have : enc a ≠ enc x := fun e' => e (hinj a x ha.1 hx e')
        simp only [if_neg e, if_neg this]
        exact ih ha.2
  have hset : ∀ (acc : Dict α), (∀ a ∈ acc.keys, P a) → ∀ x, P x → ∀ v,
      Dict.set (acc.map (fun p => (enc p.1, p.2))) (enc x) v =
        (acc.set x v).map (fun p => (enc p.1, p.2)) := by
    intro acc ha x hx v
    induction acc with
    | nil => rfl
    | cons p acc ih =>
      obtain ⟨a, v'⟩ := p
      simp only [Dict.keys_cons, List.mem_cons, forall_eq_or_imp] at ha
      simp only [List.map_cons, Dict.set]
      by_cases e : a = x
      · simp [e]
      · have : enc a ≠ enc x := fun e' => e (hinj a x ha.1 hx e')
        simp only [if_neg e, if_neg this, List.map_cons, ih ha.2]
  induction d generalizing acc with
  | nil => rfl
  | cons p d ih =>
    obtain ⟨k, v⟩ := p
    simp only [Dict.keys_cons, List.mem_cons, forall_eq_or_imp] at hd
    simp only [groupSumAux]
    rw [hget acc ha (h k) hd.1, hset acc ha (h k) hd.1]
    apply ih _ hd.2
    intro a hmem
    rcases (Dict.mem_keys_set _ _ _ _).1 hmem with hmem | rfl
    · exact ha a hmem
    · exact hd.1

/-! ## subdistribution -/

/-- the projection of an outcome onto the listed qubits, in the listed order -/
def proj (qs : List Int) (key : Key) : Key := qs.map (fun q => key.getD q.toNat 0)

theorem pyIndex_inrange (key : Key) (q : Int) (h0 : 0 ≤ q) (h1 : q < key.length) :
    pyIndex key q = some (key.getD q.toNat 0) := by
  have : q.toNat < key.length := by omega
  simp [pyIndex, h0, List.getD_eq_getElem?_getD, List.getElem?_eq_getElem this]

theorem getD_mem (key : Key) (i : Nat) (h : i < key.length) : key.getD i 0 ∈ key := by
  have : key.getD i 0 = key[i] := by simp [h]
  rw [this]; exact List.getElem_mem h

theorem isDigits_proj (qs : List Int) (key : Key) (hq : ∀ q ∈ qs, 0 ≤ q ∧ q < key.length)
    (hk : IsDigits key) : IsDigits (proj qs key) := by
  intro e he
  obtain ⟨q, hq', rfl⟩ := List.mem_map.1 he
  have := hq q hq'
  exact hk _ (getD_mem key q.toNat (by omega))

theorem projectKey_inrange (qs : List Int) (key : Key) (hq : ∀ q ∈ qs, 0 ≤ q ∧ q < key.length) :
    projectKey qs key = some (proj qs key) := by
  unfold projectKey
  exact mapM_eq_some_map (pyIndex key) (fun q => key.getD q.toNat 0) qs
    (fun q hq' => pyIndex_inrange key q (hq q hq').1 (hq q hq').2)

theorem encDigits_inj (a b : Key) (ha : IsDigits a) (hb : IsDigits b) (h : encDigits a = encDigits b) :
    a = b := by
  have h1 := preprocessKey_encDigits a ha
  have h2 := preprocessKey_encDigits b hb
  rw [h] at h1
  rw [h1] at h2
  cases h2; rfl

theorem listMaxInt_mem (x : Int) (xs : List Int) : listMaxInt (x :: xs) ∈ x :: xs := by
  show List.foldl max x xs ∈ x :: xs
  induction xs generalizing x with
  | nil => simp
  | cons y ys ih =>
    simp only [List.foldl_cons]
    have := ih (max x y)
    rcases List.mem_cons.1 this with h | h
    · rw [h]
      rcases max_choice x y with e | e <;> simp [e]
    · exact List.mem_cons_of_mem _ (List.mem_cons_of_mem _ h)

theorem hasDup_false_of_nodup (l : List Int) (h : l.Nodup) : hasDup l = false := by
  induction l with
  | nil => rfl
  | cons x xs ih =>
    simp only [List.nodup_cons] at h
    simp [hasDup, h.1, ih h.2]

theorem length_proj (qs : List Int) (key : Key) : (proj qs key).length = qs.length := by
  simp [proj]


theorem valid_groupSum_proj (self : Dict Key) (w : Nat) (qs : List Int)
    (hv : Valid self w) (hr : ∀ q ∈ qs, 0 ≤ q ∧ q < w) :
    Valid (groupSum (proj qs) self) qs.length := by
  have hkeys : ∀ p ∈ groupSum (proj qs) self, ∃ k ∈ self.keys, proj qs k = p.1 := by
    intro p hp
    have : p.1 ∈ (groupSum (proj qs) self).keys := List.mem_map.2 ⟨p, hp, rfl⟩
    rcases (mem_keys_groupSumAux (proj qs) self [] p.1).1 this with h | h
    · simp [Dict.keys] at h
    · exact h
  refine ⟨groupSumAux_ne_nil _ _ _ (Or.inl hv.ne), nodup_groupSumAux _ _ _ (by simp [Dict.keys]), ?_,
    nonneg_groupSumAux _ _ _ hv.val (by simp), ?_⟩
  · intro p hp
    obtain ⟨k, _, e⟩ := hkeys p hp
    rw [← e, length_proj]
  · intro p hp e he
    obtain ⟨k, hk, e'⟩ := hkeys p hp
    rw [← e'] at he
    obtain ⟨q, hq, rfl⟩ := List.mem_map.1 he
    obtain ⟨pk, hpk, rfl⟩ := List.mem_map.1 hk
    have hlen := hv.len pk hpk
    have := hr q hq
    exact hv.ent pk hpk _ (getD_mem pk.1 q.toNat (by omega))

/-- for every valid receiver and every non-empty list of distinct in-range qubits, `subdistribution`
    returns the receiver unchanged and the grouped sums over the projection, whatever the closeness
    test is -/
theorem subdistribution_eq (close : Rat → Bool) (self : Dict Key) (w : Nat) (qs : List Int)
    (hv : Valid self w)
    (hne : qs ≠ []) (hr : ∀ q ∈ qs, 0 ≤ q ∧ q < w) (hnd : qs.Nodup) :
    subdistribution close self qs = (self, .ok (groupSum (proj qs) self)) := by
  have hvalid := valid_groupSum_proj self w qs hv hr
  cases qs with
  | nil => exact absurd rfl hne
  | cons q0 qs' =>
  cases self with
  | nil => exact absurd rfl hv.ne
  | cons p0 rest =>
    obtain ⟨k0, v0⟩ := p0
    have hk0 : k0.length = w := hv.len (k0, v0) (List.mem_cons_self)
    have hmax : ¬ (listMaxInt (q0 :: qs') + 1 > (k0.length : Int)) := by
      have := hr _ (listMaxInt_mem q0 qs')
      omega
    have hacc : accumulate (projectKey (q0 :: qs')) ((k0, v0) :: rest) [] =
        some (groupSum (proj (q0 :: qs')) ((k0, v0) :: rest)) := by
      rw [accumulate_eq (projectKey (q0 :: qs')) (proj (q0 :: qs'))]
      · rfl
      · intro k hk
        obtain ⟨pk, hpk, rfl⟩ := List.mem_map.1 hk
        exact projectKey_inrange _ pk.1 (fun q hq => by rw [hv.len pk hpk]; exact hr q hq)
    simp only [subdistribution, hmax, if_false, hasDup_false_of_nodup _ hnd, hacc,
      Bool.false_eq_true]
    congr 1
    unfold construct
    rw [preprocess_distinct RawKey.tup (groupSum (proj (q0 :: qs')) ((k0, v0) :: rest))
      (fun _ _ => rfl) hvalid.nodup]
    simp only []
    apply constructPre_valid _ _ _ _ hvalid
    have htot : (groupSum (proj (q0 :: qs')) ((k0, v0) :: rest)).total = Dict.total ((k0, v0) :: rest) := by
      unfold groupSum; rw [total_groupSumAux]; simp [Dict.total_nil]
    rw [htot]
    cases close (Dict.total ((k0, v0) :: rest)) <;> simp

/-! ## save / load -/

/-- the domain on which the comma-separated text form of a key can be read back:
    not exactly one subsystem, or single-digit entries only -/
def Roundtrippable (d : Dict Key) (w : Nat) : Prop := w ≠ 1 ∨ ∀ p ∈ d, IsDigits p.1

theorem preprocessKey_keyToString_of_valid (d : Dict Key) (w : Nat) (hv : Valid d w)
    (hd : Roundtrippable d w) :
    ∀ k ∈ d.keys, preprocessKey (RawKey.str (keyToString k)) = .ok k := by
  intro k hk
  obtain ⟨p, hp, rfl⟩ := List.mem_map.1 hk
  apply preprocessKey_keyToString p.1 (hv.ent p hp)
  rcases hd with hd | hd
  · left; rw [hv.len p hp]; exact hd
  · right; exact hd p hp

theorem saveDict_eq (d : Dict Key) (w : Nat) (hv : Valid d w) (hd : Roundtrippable d w) :
    saveDict d = d.map (fun p => (keyToString p.1, p.2)) := by
  apply dictComp_distinct
  apply List.Nodup.map_on _ hv.nodup
  intro a ha b hb e
  have h1 := preprocessKey_keyToString_of_valid d w hv hd a ha
  have h2 := preprocessKey_keyToString_of_valid d w hv hd b hb
  rw [e] at h1; rw [h1] at h2; cases h2; rfl

/-- loading what was saved runs the constructor on the very same dictionary -/
theorem loadDict_saveDict (close : Rat → Bool) (d : Dict Key) (w : Nat) (hv : Valid d w)
    (hd : Roundtrippable d w) : loadDict close (saveDict d) = constructPre close true d := by
  rw [saveDict_eq d w hv hd]
  unfold loadDict construct
  rw [List.map_map]
  have hfun : ((fun p : List Char × Rat => (RawKey.str p.1, p.2)) ∘ fun p : Key × Rat => (keyToString p.1, p.2))
      = fun p : Key × Rat => (RawKey.str (keyToString p.1), p.2) := rfl
  rw [hfun, preprocess_distinct (fun k => RawKey.str (keyToString k)) d
    (preprocessKey_keyToString_of_valid d w hv hd) hv.nodup]


/-! ## analytic definitions: what the code computes from the discrete data, over ℝ -/

open Finset in
/-- d^T K d ≥ 0 for the Gaussian kernel on real points (MMD² ≥ 0) -/
theorem gauss_quadratic_nonneg {ι : Type} (s : Finset ι) (x d : ι → ℝ) (γ : ℝ) (hγ : 0 ≤ γ) :
    0 ≤ ∑ i ∈ s, ∑ j ∈ s, d i * Real.exp (-γ * (x i - x j)^2) * d j := by
  set w : ι → ℝ := fun i => d i * Real.exp (-γ * (x i)^2) with hw
  have hsplit : ∀ i j, d i * Real.exp (-γ * (x i - x j)^2) * d j
      = w i * w j * Real.exp (2 * γ * x i * x j) := by
    intro i j
    simp only [hw]
    have : -γ * (x i - x j)^2 = -γ * (x i)^2 + (-γ * (x j)^2) + 2 * γ * x i * x j := by ring
    rw [this, Real.exp_add, Real.exp_add]; ring
  simp_rw [hsplit]
  have hser : ∀ i j, HasSum (fun k : ℕ => (2 * γ * x i * x j)^k / (k.factorial : ℝ))
      (Real.exp (2 * γ * x i * x j)) := by
    intro i j
    have := NormedSpace.expSeries_div_hasSum_exp (𝔸 := ℝ) (2 * γ * x i * x j)
    rwa [← Real.exp_eq_exp_ℝ] at this
  have hsum : HasSum (fun k : ℕ => ∑ i ∈ s, ∑ j ∈ s, w i * w j * ((2 * γ * x i * x j)^k / (k.factorial : ℝ)))
      (∑ i ∈ s, ∑ j ∈ s, w i * w j * Real.exp (2 * γ * x i * x j)) := by
    apply hasSum_sum; intro i _
    apply hasSum_sum; intro j _
    exact (hser i j).mul_left _
  refine hsum.nonneg ?_
  intro k
  have : ∑ i ∈ s, ∑ j ∈ s, w i * w j * ((2 * γ * x i * x j)^k / (k.factorial : ℝ))
      = ((2 * γ)^k / (k.factorial : ℝ)) * (∑ i ∈ s, w i * (x i)^k)^2 := by
    rw [sq, Finset.sum_mul_sum, Finset.mul_sum]
    apply Finset.sum_congr rfl; intro i _
    rw [Finset.mul_sum]
    apply Finset.sum_congr rfl; intro j _
    rw [mul_pow, mul_pow]; ring
  rw [this]
  positivity

/-- `np.exp(-gamma * |x - y|**2)` -/
noncomputable def gaussK (γ x y : ℝ) : ℝ := Real.exp (-γ * (x - y) ^ 2)

/-- `compute_multi_rbf_kernel`: the mean of the Gaussian kernels -/
noncomputable def multiK (γs : List ℝ) (x y : ℝ) : ℝ :=
  (γs.map (fun γ => gaussK γ x y)).sum / (γs.length : ℝ)

/-- one row of the MMD data: (integer code, target value, measured value) -/
abbrev Row := Nat × Rat × Rat

/-- `target_values[i] - measured_values[i]` -/
def Row.diff (a : Row) : ℝ := (a.2.1 : ℝ) - (a.2.2 : ℝ)

/-- `diff.dot(kernel_matrix.dot(diff))` -/
noncomputable def quadForm (K : ℝ → ℝ → ℝ) (data : List Row) : ℝ :=
  (data.map fun a => a.diff * (data.map fun b => K (a.1 : ℝ) (b.1 : ℝ) * b.diff).sum).sum

/-- `compute_mmd` with a scalar `sigma` (`gamma = 1/(2 sigma)`) -/
noncomputable def mmdSingle (σ : ℝ) (data : List Row) : ℝ := quadForm (gaussK (1 / (2 * σ))) data

/-- `compute_mmd` with a list of `sigma`s -/
noncomputable def mmdMulti (σs : List ℝ) (data : List Row) : ℝ :=
  quadForm (multiK (σs.map fun σ => 1 / (2 * σ))) data

/-- `compute_clipped_negative_log_likelihood` from the (target, measured) pairs of the union -/
noncomputable def nllOf (ε : ℝ) (data : List (Rat × Rat)) : ℝ :=
  -(data.map fun a => (a.1 : ℝ) * Real.log (max ε (a.2 : ℝ))).sum

/-- Shannon entropy (natural logarithm) of the values of a dictionary -/
noncomputable def entropyOf (p : Dict Key) : ℝ :=
  -(p.map fun a => (a.2 : ℝ) * Real.log (a.2 : ℝ)).sum

/-- `compute_jensen_shannon_divergence` -/
noncomputable def jsdOf (ε : ℝ) (p q : Dict Key) : ℝ :=
  nllOf ε (pairData p q) / 2 + nllOf ε (pairData q p) / 2

/-! ### quadratic form -/

theorem quadForm_eq_finsum (K : ℝ → ℝ → ℝ) (data : List Row) :
    quadForm K data = ∑ i : Fin data.length, ∑ j : Fin data.length,
      (data[i.1]).diff * K (data[i.1].1 : ℝ) (data[j.1].1 : ℝ) * (data[j.1]).diff := by
  unfold quadForm
  rw [← Fin.sum_univ_fun_getElem data]
  apply Finset.sum_congr rfl; intro i _
  rw [← Fin.sum_univ_fun_getElem data, Finset.mul_sum]
  apply Finset.sum_congr rfl; intro j _
  ring

theorem quadForm_gauss_nonneg (γ : ℝ) (hγ : 0 ≤ γ) (data : List Row) : 0 ≤ quadForm (gaussK γ) data := by
  rw [quadForm_eq_finsum]
  exact gauss_quadratic_nonneg Finset.univ (fun i : Fin data.length => (data[i.1].1 : ℝ))
    (fun i => (data[i.1]).diff) γ hγ

theorem quadForm_zero (data : List Row) : quadForm (fun _ _ => 0) data = 0 := by
  simp [quadForm]

theorem quadForm_add (K1 K2 : ℝ → ℝ → ℝ) (data : List Row) :
    quadForm (fun x y => K1 x y + K2 x y) data = quadForm K1 data + quadForm K2 data := by
  simp only [quadForm_eq_finsum, ← Finset.sum_add_distrib]
  apply Finset.sum_congr rfl; intro i _
  apply Finset.sum_congr rfl; intro j _
  ring

theorem quadForm_div (K : ℝ → ℝ → ℝ) (c : ℝ) (data : List Row) :
    quadForm (fun x y => K x y / c) data = quadForm K data / c := by
  simp only [quadForm_eq_finsum, div_eq_mul_inv, Finset.sum_mul]
  apply Finset.sum_congr rfl; intro i _
  apply Finset.sum_congr rfl; intro j _
  ring

theorem quadForm_listsum (γs : List ℝ) (data : List Row) :
    quadForm (fun x y => (γs.map (fun γ => gaussK γ x y)).sum) data =
      (γs.map (fun γ => quadForm (gaussK γ) data)).sum := by
  induction γs with
  | nil => simpa using quadForm_zero data
  | cons γ γs ih =>
    simp only [List.map_cons, List.sum_cons]
    rw [quadForm_add (gaussK γ) (fun x y => (γs.map (fun γ => gaussK γ x y)).sum), ih]

theorem quadForm_multi_nonneg (γs : List ℝ) (h : ∀ γ ∈ γs, 0 ≤ γ) (data : List Row) :
    0 ≤ quadForm (multiK γs) data := by
  have : multiK γs = fun x y => (γs.map (fun γ => gaussK γ x y)).sum / (γs.length : ℝ) := rfl
  rw [this, quadForm_div, quadForm_listsum]
  apply div_nonneg _ (Nat.cast_nonneg _)
  apply List.sum_nonneg
  intro v hv
  obtain ⟨γ, hγ, rfl⟩ := List.mem_map.1 hv
  exact quadForm_gauss_nonneg γ (h γ hγ) data

/-- the quadratic form does not depend on the order in which the outcomes are enumerated
    (Python iterates over a `set`) -/
theorem quadForm_perm (K : ℝ → ℝ → ℝ) (a b : List Row) (h : a.Perm b) : quadForm K a = quadForm K b := by
  unfold quadForm
  have inner : ∀ x : Row, (a.map fun y => K (x.1 : ℝ) (y.1 : ℝ) * y.diff).sum =
      (b.map fun y => K (x.1 : ℝ) (y.1 : ℝ) * y.diff).sum := fun x => (h.map _).sum_eq
  simp only [inner]
  exact (h.map _).sum_eq

/-- exchanging target and measured values leaves the quadratic form unchanged -/
theorem quadForm_swap (K : ℝ → ℝ → ℝ) (a : List Row) :
    quadForm K (a.map fun r => (r.1, r.2.2, r.2.1)) = quadForm K a := by
  unfold quadForm
  simp only [List.map_map, Function.comp_def, Row.diff]
  congr 1
  apply List.map_congr_left
  intro x _
  have : (a.map fun y => K (x.1 : ℝ) (y.1 : ℝ) * ((y.2.2 : ℝ) - (y.2.1 : ℝ))).sum =
      -(a.map fun y => K (x.1 : ℝ) (y.1 : ℝ) * ((y.2.1 : ℝ) - (y.2.2 : ℝ))).sum := by
    rw [neg_eq_neg_one_mul, ← List.sum_map_mul_left]
    congr 1
    apply List.map_congr_left
    intro y _; ring
  rw [this]; ring

theorem quadForm_of_diff_zero (K : ℝ → ℝ → ℝ) (a : List Row) (h : ∀ r ∈ a, r.2.1 = r.2.2) :
    quadForm K a = 0 := by
  unfold quadForm
  apply List.sum_eq_zero
  intro v hv
  obtain ⟨r, hr, rfl⟩ := List.mem_map.1 hv
  simp [Row.diff, h r hr]


/-! ## union of supports -/

theorem mem_unionKeys (p q : Dict Key) (k : Key) : k ∈ unionKeys p q ↔ k ∈ p.keys ∨ k ∈ q.keys := by
  unfold unionKeys
  simp only [List.mem_append, List.mem_filter, List.contains_eq_mem, Bool.not_eq_true',
    decide_eq_false_iff_not]
  constructor
  · rintro (h | h)
    · exact Or.inl h
    · exact Or.inr h.1
  · rintro (h | h)
    · exact Or.inl h
    · by_cases hp : k ∈ p.keys
      · exact Or.inl hp
      · exact Or.inr ⟨h, hp⟩

theorem nodup_unionKeys (p q : Dict Key) (hp : p.keys.Nodup) (hq : q.keys.Nodup) :
    (unionKeys p q).Nodup := by
  unfold unionKeys
  apply List.Nodup.append hp (hq.filter _)
  intro a ha hb
  simp only [List.mem_filter, List.contains_eq_mem, Bool.not_eq_true', decide_eq_false_iff_not] at hb
  exact hb.2 ha

theorem unionKeys_perm (p q : Dict Key) (hp : p.keys.Nodup) (hq : q.keys.Nodup) :
    (unionKeys p q).Perm (unionKeys q p) := by
  rw [List.perm_ext_iff_of_nodup (nodup_unionKeys p q hp hq) (nodup_unionKeys q p hq hp)]
  intro a
  rw [mem_unionKeys, mem_unionKeys, or_comm]

/-- summing `φ (p.get(k, 0))` over the union of supports is summing `φ` over the values of `p` -/
theorem sum_union_left (φ : Rat → ℝ) (h0 : φ 0 = 0) (p q : Dict Key) (hn : p.keys.Nodup) :
    ((unionKeys p q).map (fun k => φ (p.getD k))).sum = (p.map (fun a => φ a.2)).sum := by
  unfold unionKeys
  rw [List.map_append, List.sum_append]
  have h2 : ((q.keys.filter (fun k => !p.keys.contains k)).map (fun k => φ (p.getD k))).sum = 0 := by
    apply List.sum_eq_zero
    intro v hv
    obtain ⟨k, hk, rfl⟩ := List.mem_map.1 hv
    simp only [List.mem_filter, List.contains_eq_mem, Bool.not_eq_true', decide_eq_false_iff_not] at hk
    rw [Dict.getD_of_not_mem p k hk.2, h0]
  rw [h2, add_zero]
  unfold Dict.keys
  rw [List.map_map]
  congr 1
  apply List.map_congr_left
  intro a ha
  obtain ⟨k, v⟩ := a
  simp only [Function.comp]
  rw [Dict.getD_of_mem p hn k v ha]

theorem sum_union_right (φ : Rat → ℝ) (h0 : φ 0 = 0) (p q : Dict Key) (hp : p.keys.Nodup)
    (hq : q.keys.Nodup) :
    ((unionKeys p q).map (fun k => φ (q.getD k))).sum = (q.map (fun a => φ a.2)).sum := by
  rw [← sum_union_left φ h0 q p hq]
  exact ((unionKeys_perm p q hp hq).map _).sum_eq

theorem cast_total (p : Dict Key) : ((p.total : Rat) : ℝ) = (p.map (fun a => ((a.2 : Rat) : ℝ))).sum := by
  unfold Dict.total Dict.vals
  rw [Rat.cast_list_sum, List.map_map]; rfl

/-! ## MMD data -/

/-- the row of outcome `k`, with code 0 if the code does not exist (never used in that case) -/
def rowD (p q : Dict Key) (k : Key) : Row := ((codeOf k).getD 0, p.getD k, q.getD k)

theorem mapM_mmdRow (p q : Dict Key) (l : List Key) (a : List Row) :
    l.mapM (mmdRow p q) = some a ↔ (∀ k ∈ l, (codeOf k).isSome = true) ∧ a = l.map (rowD p q) := by
  induction l generalizing a with
  | nil =>
    simp only [List.mapM_nil, List.not_mem_nil, false_imp_iff, forall_const, true_and, List.map_nil,
      Option.pure_def, Option.some.injEq]
    exact eq_comm
  | cons k l ih =>
    simp only [List.mapM_cons, List.mem_cons, forall_eq_or_imp, List.map_cons]
    cases hc : codeOf k with
    | none => simp [mmdRow, hc]
    | some c =>
      cases hl : l.mapM (mmdRow p q) with
      | none =>
        have := (ih (l.map (rowD p q))).not.1 (by simp [hl])
        simp only [mmdRow, hc, Option.map_some, Option.bind_eq_bind, Option.bind_some,
          Option.bind_none, Option.isSome_some, true_and]
        constructor
        · intro h; cases h
        · rintro ⟨h1, _⟩; exact absurd ⟨h1, rfl⟩ this
      | some a' =>
        obtain ⟨h1, h2⟩ := (ih a').1 hl
        simp only [mmdRow, hc, Option.map_some, Option.bind_eq_bind, Option.bind_some,
          Option.isSome_some, true_and, Option.pure_def, Option.some.injEq]
        constructor
        · rintro rfl; exact ⟨h1, by simp [rowD, hc, h2]⟩
        · rintro ⟨_, rfl⟩; simp [rowD, hc, h2]

theorem mmdData_ok_iff (p q : Dict Key) (a : List Row) :
    mmdData p q = .ok a ↔
      (∀ k ∈ unionKeys p q, (codeOf k).isSome = true) ∧ a = (unionKeys p q).map (rowD p q) := by
  rw [← mapM_mmdRow]
  unfold mmdData
  cases (unionKeys p q).mapM (mmdRow p q) <;> simp

theorem mmdData_symm (p q : Dict Key) (hp : p.keys.Nodup) (hq : q.keys.Nodup) (a : List Row)
    (h : mmdData p q = .ok a) :
    ∃ b, mmdData q p = .ok b ∧ b.Perm (a.map fun r => (r.1, r.2.2, r.2.1)) := by
  obtain ⟨h1, rfl⟩ := (mmdData_ok_iff p q a).1 h
  refine ⟨(unionKeys q p).map (rowD q p), (mmdData_ok_iff q p _).2 ⟨?_, rfl⟩, ?_⟩
  · intro k hk
    exact h1 k (by rw [mem_unionKeys] at hk ⊢; exact hk.symm)
  · rw [List.map_map]
    exact (unionKeys_perm q p hq hp).map _

/-! ## clipped negative log-likelihood ≥ entropy − clipping -/

theorem nll_term (t m ε : ℝ) (ht : 0 ≤ t) (hm : 0 ≤ m) (hε : 0 < ε) :
    t * Real.log (max ε m) ≤ t * Real.log t + m + ε - t := by
  have hpos : 0 < max ε m := lt_max_of_lt_left hε
  have hle : max ε m ≤ m + ε := max_le (by linarith) (by linarith)
  rcases eq_or_lt_of_le ht with h | h
  · rw [← h]; simp; linarith
  · have h1 := Real.log_le_sub_one_of_pos (div_pos hpos h)
    rw [Real.log_div (ne_of_gt hpos) (ne_of_gt h)] at h1
    have h2 : t * (Real.log (max ε m) - Real.log t) ≤ t * (max ε m / t - 1) :=
      mul_le_mul_of_nonneg_left h1 ht
    have h3 : t * (max ε m / t - 1) = max ε m - t := by field_simp
    linarith

theorem nll_list (T M : Key → ℝ) (ε : ℝ) (hε : 0 < ε) (l : List Key)
    (hT : ∀ k, 0 ≤ T k) (hM : ∀ k, 0 ≤ M k) :
    (l.map (fun k => T k * Real.log (max ε (M k)))).sum ≤
      (l.map (fun k => T k * Real.log (T k))).sum + (l.map M).sum + (l.length : ℝ) * ε - (l.map T).sum := by
  induction l with
  | nil => simp
  | cons k l ih =>
    simp only [List.map_cons, List.sum_cons, List.length_cons, Nat.cast_add, Nat.cast_one]
    have := nll_term (T k) (M k) ε (hT k) (hM k) hε
    linarith

theorem nll_ge_entropy_aux (ε : ℝ) (hε : 0 < ε) (p q : Dict Key) (hp : p.keys.Nodup) (hq : q.keys.Nodup)
    (hpv : ∀ a ∈ p, 0 ≤ a.2) (hqv : ∀ a ∈ q, 0 ≤ a.2) :
    entropyOf p + ((p.total : ℝ) - (q.total : ℝ)) - ((unionKeys p q).length : ℝ) * ε ≤
      nllOf ε (pairData p q) := by
  have hT : ∀ k, 0 ≤ ((p.getD k : Rat) : ℝ) := fun k => by exact_mod_cast Dict.getD_nonneg p hpv k
  have hM : ∀ k, 0 ≤ ((q.getD k : Rat) : ℝ) := fun k => by exact_mod_cast Dict.getD_nonneg q hqv k
  have main := nll_list (fun k => ((p.getD k : Rat) : ℝ)) (fun k => ((q.getD k : Rat) : ℝ)) ε hε
    (unionKeys p q) hT hM
  have e1 := sum_union_left (fun v => (v : ℝ) * Real.log (v : ℝ)) (by simp) p q hp
  have e2 := sum_union_left (fun v => (v : ℝ)) (by simp) p q hp
  have e3 := sum_union_right (fun v => (v : ℝ)) (by simp) p q hp hq
  beta_reduce at e1 e2 e3 main
  rw [e1, e2, e3, ← cast_total, ← cast_total] at main
  unfold nllOf entropyOf pairData
  rw [List.map_map]
  simp only [Function.comp_def]
  linarith


theorem preprocess_nodup (input : List (RawKey × Rat)) (acc pre : Dict Key)
    (h : preprocess input acc = .ok pre) (hn : acc.keys.Nodup) : pre.keys.Nodup := by
  induction input generalizing acc with
  | nil => simp [preprocess] at h; cases h; exact hn
  | cons p input ih =>
    obtain ⟨k, v⟩ := p
    simp only [preprocess] at h
    cases hk : preprocessKey k with
    | error e => simp [hk] at h
    | ok k' =>
      simp only [hk] at h
      exact ih _ h (Dict.nodup_set _ _ _ hn)

theorem keys_map_scale (d : Dict Key) (c : Rat) : Dict.keys (d.map (fun p => (p.1, p.2 * c))) = d.keys := by
  simp [Dict.keys, List.map_map, Function.comp_def]

theorem valid_of_isDistribution (d : Dict Key) (h : isDistribution d = true) (hn : d.keys.Nodup) :
    ∃ w, Valid d w := by
  obtain ⟨h1, h2, h3, h4⟩ := (isDistribution_iff d).1 h
  cases d with
  | nil => exact absurd rfl h1
  | cons p0 d =>
    exact ⟨p0.1.length, h1, hn, fun p hp => h3 p hp p0 (List.mem_cons_self), h2, h4⟩

theorem valid_scale (d : Dict Key) (w : Nat) (c : Rat) (hc : 0 ≤ c) (h : Valid d w) :
    Valid (d.map (fun p => (p.1, p.2 * c))) w := by
  refine ⟨by simpa using h.ne, by rw [keys_map_scale]; exact h.nodup, ?_, ?_, ?_⟩
  · intro p hp; obtain ⟨p', hp', rfl⟩ := List.mem_map.1 hp; exact h.len p' hp'
  · intro p hp; obtain ⟨p', hp', rfl⟩ := List.mem_map.1 hp; exact mul_nonneg (h.val p' hp') hc
  · intro p hp; obtain ⟨p', hp', rfl⟩ := List.mem_map.1 hp; exact h.ent p' hp'

/-- parsing a non-empty string of bits never fails -/
theorem parseBinAux_bits (es : Key) (h : ∀ e ∈ es, e = 0 ∨ e = 1) (acc : Nat) :
    ∃ c, parseBinAux acc (encDigits es) = some c := by
  induction es generalizing acc with
  | nil => exact ⟨acc, rfl⟩
  | cons e es ih =>
    have ih' := ih (fun x hx => h x (List.mem_cons_of_mem _ hx))
    rcases h e (List.mem_cons_self) with rfl | rfl
    · obtain ⟨c, hc⟩ := ih' (2 * acc)
      exact ⟨c, by simpa [encDigits, parseBinAux, digitChar] using hc⟩
    · obtain ⟨c, hc⟩ := ih' (2 * acc + 1)
      refine ⟨c, ?_⟩
      have h1 : digitChar (1 : Int).toNat = '1' := by decide
      have h2 : ('1' : Char) ≠ '0' := by decide
      simp only [encDigits, List.map_cons, h1, parseBinAux, if_neg h2, if_true]
      simpa [encDigits] using hc

theorem codeOf_bits (k : Key) (hne : k ≠ []) (h : ∀ e ∈ k, e = 0 ∨ e = 1) : ∃ c, codeOf k = some c := by
  have hd : IsDigits k := fun e he => by rcases h e he with rfl | rfl <;> simp
  unfold codeOf
  rw [flatten_strInt_digits k hd]
  cases k with
  | nil => exact absurd rfl hne
  | cons e es =>
    obtain ⟨c, hc⟩ := parseBinAux_bits (e :: es) h 0
    refine ⟨c, ?_⟩
    simp only [encDigits, List.map_cons] at hc ⊢
    exact hc


theorem construct_valid_aux (close : Rat → Bool) (nz : Bool) (input : List (RawKey × Rat))
    (d pre : Dict Key) (hp : preprocess input [] = .ok pre) (hc : constructPre close nz pre = .ok d) :
    ∃ w, Valid d w := by
  have hn : pre.keys.Nodup := preprocess_nodup input [] pre hp (by simp [Dict.keys])
  obtain ⟨hd, h1 | h2⟩ := constructPre_ok close nz pre d hc
  · rw [h1.1]; exact valid_of_isDistribution pre hd hn
  · obtain ⟨_, _, hmin, rfl⟩ := h2
    obtain ⟨w, hv⟩ := valid_of_isDistribution pre hd hn
    have : 0 < pre.total := lt_of_lt_of_le floatMin_pos hmin
    exact ⟨w, valid_scale pre w _ (by positivity) hv⟩

theorem floatMin_lt_one : floatMin < 1 := by
  unfold floatMin
  rw [div_lt_one (pow_pos (by norm_num) _)]
  exact one_lt_pow₀ (by norm_num) (by norm_num)

theorem hasDup_true_of_not_nodup (l : List Int) (h : ¬ l.Nodup) : hasDup l = true := by
  induction l with
  | nil => exact absurd List.nodup_nil h
  | cons x xs ih =>
    simp only [List.nodup_cons, not_and_or, not_not] at h
    rcases h with h | h
    · simp [hasDup, h]
    · simp [hasDup, ih h]

theorem le_foldl_max (x : Int) (xs : List Int) : x ≤ xs.foldl max x ∧ ∀ q ∈ xs, q ≤ xs.foldl max x := by
  induction xs generalizing x with
  | nil => simp
  | cons y ys ih =>
    simp only [List.foldl_cons, List.mem_cons, forall_eq_or_imp]
    obtain ⟨h1, h2⟩ := ih (max x y)
    exact ⟨le_trans (le_max_left x y) h1, le_trans (le_max_right x y) h1, h2⟩

theorem le_listMaxInt (x : Int) (xs : List Int) : ∀ q ∈ x :: xs, q ≤ listMaxInt (x :: xs) := by
  intro q hq
  show q ≤ xs.foldl max x
  rcases List.mem_cons.1 hq with rfl | hq
  · exact (le_foldl_max q xs).1
  · exact (le_foldl_max x xs).2 q hq

end OQ.C17
