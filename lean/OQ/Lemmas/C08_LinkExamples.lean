/- C08 linking: concrete data for the non-vacuity examples of OQ/Props/C08_Link.lean (built-in gate objects over the
   driver's ring ℚ(ζ₈) exactly as `builtinGate` builds them, circuits meeting every hypothesis).  Not property theorems. -/
import OQ.Lemmas.C08_Link
set_option linter.unusedSectionVars false
namespace OQ.C08.LinkExamples
open OQ OQ.C08 OQ.C08.Link OQ.C02 OQ.Generated Matrix

/-- built-in gate objects exactly as `builtinGate` builds them, over the driver's ring ℚ(ζ₈) -/
def bX : Gate Cyc8 := .base "X" Gates.x 1 true

def bS : Gate Cyc8 := .base "S" (Gates.s Scal.cyc8) 1 false

def bCN : Gate Cyc8 := .base "CNOT" Gates.cnot 2 true

/-- RX at the half-angle point (3/5, 4/5) -/
def bRX : Gate Cyc8 := .base "RX" (Gates.rx Scal.cyc8 ⟨Cyc8.ofRat (3/5), Cyc8.ofRat (4/5)⟩) 1 false

theorem bX_builtin : IsBuiltin Scal.cyc8 bX := ⟨("X", 1, 0, true), by decide, [], rfl, by simp, rfl⟩

theorem bS_builtin : IsBuiltin Scal.cyc8 bS := ⟨("S", 1, 0, false), by decide, [], rfl, by simp, rfl⟩

theorem bCN_builtin : IsBuiltin Scal.cyc8 bCN := ⟨("CNOT", 2, 0, true), by decide, [], rfl, by simp, rfl⟩

theorem bRX_builtin : IsBuiltin Scal.cyc8 bRX :=
  ⟨("RX", 1, 1, false), by decide, [⟨Cyc8.ofRat (3/5), Cyc8.ofRat (4/5)⟩], rfl, by
    intro a ha; simp only [List.mem_singleton] at ha; subst ha
    exact cyc8_valid_of_rat _ _ (by norm_num), rfl⟩

/-- X on 2, c-S† on (3,0), CNOT^1 on (1,3), RX on 0: unordered / gapped qubits, a self-adjoint gate, a wrapped gate,
    an integer power, a parametric gate -/
def cL : Circ (Gate Cyc8) :=
  mkCirc [⟨bX, [2]⟩, ⟨.ctrl (.dag bS) 1, [3, 0]⟩, ⟨.pow bCN 1, [1, 3]⟩, ⟨bRX, [0]⟩] 0

theorem cL_regularB : ∀ o ∈ cL.ops, RegularB Scal.cyc8 o.gate := by
  intro o ho
  simp only [cL, mkCirc_ops, List.mem_cons, List.not_mem_nil, or_false] at ho
  rcases ho with rfl | rfl | rfl | rfl
  · exact .base _ bX_builtin
  · exact .ctrl _ _ (.dag _ (.base _ bS_builtin))
  · exact .pow _ _ (.base _ bCN_builtin) (by decide)
  · exact .base _ bRX_builtin

theorem cL_ne : cL.ops ≠ [] := by simp [cL, mkCirc]

theorem cL_qs : ∀ o ∈ cL.ops, o.qs ≠ [] := by
  intro o ho
  simp only [cL, mkCirc_ops, List.mem_cons, List.not_mem_nil, or_false] at ho
  rcases ho with rfl | rfl | rfl | rfl <;> simp

theorem cL_wf : cL.n = 0 → cL.ops = [] := by decide

def bH : Gate Cyc8 := .base "H" (Gates.h Scal.cyc8) 1 true

theorem bH_builtin : IsBuiltin Scal.cyc8 bH := ⟨("H", 1, 0, true), by decide, [], rfl, by simp, rfl⟩

/-- a circuit of unitary built-ins under controlled / dagger: S on 1, c-S† on (1,0), CNOT on (1,0), H on 0 -/
def c2 : Circ (Gate Cyc8) := mkCirc [⟨bS, [1]⟩, ⟨.ctrl (.dag bS) 1, [1, 0]⟩, ⟨bCN, [1, 0]⟩, ⟨bH, [0]⟩] 0

theorem c2_unitaryB : ∀ o ∈ c2.ops, UnitaryB Scal.cyc8 o.gate := by
  intro o ho
  simp only [c2, mkCirc_ops, List.mem_cons, List.not_mem_nil, or_false] at ho
  rcases ho with rfl | rfl | rfl | rfl
  · exact .base _ bS_builtin
  · exact .ctrl _ _ (.dag _ (.base _ bS_builtin))
  · exact .base _ bCN_builtin
  · exact .base _ bH_builtin

theorem c2_ne : c2.ops ≠ [] := by simp [c2, mkCirc]

theorem c2_qs : ∀ o ∈ c2.ops, o.qs ≠ [] := by
  intro o ho
  simp only [c2, mkCirc_ops, List.mem_cons, List.not_mem_nil, or_false] at ho
  rcases ho with rfl | rfl | rfl | rfl <;> simp

/-- the one-qubit circuit S, H (small enough for kernel evaluation of the executable model in ℚ(ζ₈)) -/
def c1 : Circ (Gate Cyc8) := mkCirc [⟨bS, [0]⟩, ⟨bH, [0]⟩] 0

end OQ.C08.LinkExamples
